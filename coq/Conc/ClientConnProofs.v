(* C11 — proofs about the client connection model (Conc/ClientConn.v), repaired code ([fixed = true]) unless
   stated otherwise.  Invariants by induction over all label sequences. *)
From Coq Require Import List Arith Bool Lia NArith.
From TarsV Require Import Conc.ClientConn.
Import ListNotations.
Local Arguments Nat.ltb : simpl never.
Local Arguments Nat.leb : simpl never.

Lemma al_dead x m : dead (add_late x m) = dead x. Proof. unfold add_late. now destruct (dead x) eqn:E. Qed.
Lemma al_sp x m : sp (add_late x m) = sp x. Proof. unfold add_late. now destruct (dead x). Qed.
Lemma al_rp x m : rp (add_late x m) = rp x. Proof. unfold add_late. now destruct (dead x). Qed.
Lemma al_peerc x m : peerc (add_late x m) = peerc x. Proof. unfold add_late. now destruct (dead x). Qed.
Lemma al_done x m : done (add_late x m) = done x. Proof. unfold add_late. now destruct (dead x). Qed.
Lemma al_got x m : got (add_late x m) = got x. Proof. unfold add_late. now destruct (dead x). Qed.

Definition Inv1 (s : st) : Prop :=
  match cur s with
  | None => closedF s = true /\ ngen s = 0
  | Some c => closedF s = dead (gens s c) /\ c < ngen s
  end /\
  (forall g, g < ngen s -> cur s <> Some g -> dead (gens s g) = true).

Ltac dstep H :=
  repeat match type of H with
  | context [match ?x with _ => _ end] => destruct x eqn:?; try discriminate H
  end; try (injection H as <-).

Ltac eqs := repeat match goal with
       | |- context [Nat.eqb ?a ?b] => destruct (Nat.eqb_spec a b); subst; cbn in *
       | H : context [Nat.eqb ?a ?b] |- _ => destruct (Nat.eqb_spec a b); subst; cbn in *
       end.

Lemma Inv1_step s l s' : Inv1 s -> step true s l = Some s' -> Inv1 s'.
Proof.
  intros (HA & HC) H. destruct l; cbn [step] in H.
  all: dstep H.
  all: unfold Inv1, do_close, w_sp, w_gen, w_gens, is_cur in *; cbn in *.
  all: destruct (cur s) as [c|] eqn:EC; cbn in *.
  all: try (destruct HA as [HA1 HA2]).
  all: repeat split; intros; cbn in *.
  all: unfold upd in *; cbn in *; rewrite ?al_dead in *.
  all: eqs.
  all: try lia; try congruence; eauto.
  all: try (apply HC; [lia|congruence]).
  destruct (Nat.eq_dec g c); subst; [congruence|apply HC; [lia|congruence]].
Qed.

Lemma memn_In x l : memn x l = true <-> In x l.
Proof. unfold memn. rewrite existsb_exists. split. - intros (y & Hy & E). apply Nat.eqb_eq in E. now subst. - intros H. exists x. split; auto. apply Nat.eqb_refl. Qed.
Lemma al_late x m : late (add_late x m) = if dead x then late x ++ [m] else late x.
Proof. unfold add_late. now destruct (dead x). Qed.

Definition holds (p : spc) : option nat :=
  match p with SCheck m | SHook m | SWrite m | SRequeue m | SFailPush m => Some m | _ => None end.
Definition committed (p : spc) : option nat := match p with SHook m | SWrite m => Some m | _ => None end.

Definition Inv2 (s : st) : Prop :=
  (forall g, dead (gens s g) = false -> late (gens s g) = []) /\
  (forall g m, committed (sp (gens s g)) = Some m -> ~ In m (late (gens s g))) /\
  (forall g m b, In (g, m, b) (atts s) -> ~ In m (late (gens s g))) /\
  (forall m, In m (sendQ s) -> In m (hist s)) /\
  (forall m, In m (failQ s) -> In m (hist s)) /\
  (forall g m, holds (sp (gens s g)) = Some m -> In m (hist s)) /\
  (forall g m b, In (g, m, b) (atts s) -> In m (hist s)).

Lemma Inv2_step s l s' : Inv1 s -> Inv2 s -> step true s l = Some s' -> Inv2 s'.
Proof.
  intros (HA & HC) (HD & HE & HF & HQ & HFQ & HH & HAH) H. destruct l; cbn [step] in H.
  2: { (* LEnq *)
    destruct (memn m (lenq s) && negb (memn m (hist s))) eqn:E; [|discriminate]. injection H as <-.
    apply andb_prop in E. destruct E as [_ E]. apply negb_true_iff in E.
    assert (Hm : ~ In m (hist s)). { intros X. apply memn_In in X. congruence. }
    unfold Inv2; cbn. repeat split; intros; rewrite ?al_dead, ?al_sp, ?al_late in *.
    - rewrite H. auto.
    - destruct (dead (gens s g)); [|eauto]. rewrite in_app_iff. cbn. intros [X|[X|[]]]; [eapply HE; eauto|]. subst. apply Hm. apply (HH g). unfold committed in H. destruct (sp (gens s g)); try discriminate; cbn; congruence.
    - destruct (dead (gens s g)); [|eauto]. rewrite in_app_iff. cbn. intros [X|[X|[]]]; [eapply HF; eauto|]. subst. apply Hm. eapply HAH; eauto.
    - rewrite in_app_iff in *. cbn in *. intuition.
    - rewrite in_app_iff. left. eauto.
    - rewrite in_app_iff. left. eauto.
    - rewrite in_app_iff. left. eauto. }
  all: dstep H.
  all: unfold Inv2, do_close, w_sp, w_gen, w_gens, is_cur, isCurrent in *; cbn in *.
  all: repeat split; intros; cbn in *.
  all: unfold upd in *; cbn in *; rewrite ?al_dead, ?al_sp, ?al_late in *.
  all: eqs.
  all: eauto.
  all: try solve [ discriminate | congruence | rewrite ?in_app_iff in *; cbn in *; intuition (subst; try congruence; eauto) ].
  all: repeat match goal with H : Some _ = Some _ |- _ => injection H as H; subst end.
  all: repeat match goal with
       | E : failQ _ = _, H : In _ (failQ _) |- _ => rewrite E in H; cbn in H
       | E : sendQ _ = _, H : In _ (sendQ _) |- _ => rewrite E in H; cbn in H
       end.
  all: try solve [ discriminate | congruence | rewrite ?in_app_iff in *; cbn in *; intuition (subst; try congruence; eauto) ].
  all: try match goal with E : sp (gens _ ?g) = _ |- _ => solve [apply (HH g); rewrite E; reflexivity | apply (HE g); rewrite E; reflexivity] end.
  all: try (match goal with H : In _ (_ ++ [_]) |- _ => apply in_app_or in H; destruct H as [H|[H|[]]]; [solve [eauto | eapply HF; eauto] | inversion H; subst] end).
  all: try (match goal with H : _ = _ \/ False |- _ => destruct H as [H|[]]; subst end).
  all: try match goal with E : sp (gens _ ?g) = _ |- _ => solve [apply (HH g); rewrite E; reflexivity | apply (HE g); rewrite E; reflexivity] end.
  (* LSCheck, current: the connection is not known dead, so nothing is late for it *)
  apply andb_prop in Heqb. destruct Heqb as [F C]. apply negb_true_iff in F. unfold is_cur in C.
  destruct (cur s) as [c|]; [|discriminate]. apply Nat.eqb_eq in C. subst c. destruct HA as [HA _].
  rewrite HD by congruence. intros [].
Qed.


(* generations not yet dialled are untouched *)
Definition Inv0 (s : st) : Prop := forall g, ngen s <= g -> gens s g = gen0.

Lemma add_late_gen0 m : add_late gen0 m = gen0. Proof. reflexivity. Qed.

Lemma Inv0_step s l s' : Inv1 s -> Inv0 s -> step true s l = Some s' -> Inv0 s'.
Proof.
  intros [HA _] HN H. destruct l; cbn [step] in H.
  all: dstep H.
  all: unfold Inv0, do_close, w_sp, w_gen, w_gens, is_cur in *; cbn in *; intros g0 Hg0.
  all: unfold upd; cbn.
  all: try (rewrite HN by lia; reflexivity).
  all: try match goal with |- context [Nat.eqb ?a ?b] => destruct (Nat.eqb_spec a b); subst; cbn in * end.
  all: try (apply HN; lia).
  all: try (match goal with E : sp (gens _ ?g) = _ |- _ => rewrite (HN g) in E by lia; discriminate E end).
  all: try (match goal with E : rp (gens _ ?g) = _ |- _ => rewrite (HN g) in E by lia; discriminate E end).
  all: try (match goal with E : (?g <? ngen _) = true |- _ => apply Nat.ltb_lt in E; lia end).
  all: try (match goal with E : (?g <? ngen _) && _ = true |- _ => apply andb_prop in E; destruct E as [E _]; try (apply andb_prop in E; destruct E as [E _]); apply Nat.ltb_lt in E; lia end).
  all: try reflexivity.
  all: try (match goal with E : cur _ = Some _ |- _ => rewrite E in HA; lia end).
  all: try lia.
  apply andb_prop in Heqb. destruct Heqb as [E _]. apply andb_prop in E. destruct E as [E _]. apply Nat.ltb_lt in E. lia.
Qed.

(* ------------------------------------------------------------------------------------------------ *)
Definition Inv (s : st) : Prop := Inv1 s /\ Inv2 s /\ Inv0 s.

Lemma Inv_init : Inv init.
Proof.
  unfold Inv, Inv1, Inv2, Inv0, init; cbn. repeat split; intros; try lia; try contradiction; try discriminate; auto.
Qed.

Lemma Inv_step s l s' : Inv s -> step true s l = Some s' -> Inv s'.
Proof.
  intros (H1 & H2 & H0) H. split; [|split].
  - eapply Inv1_step; eauto. - eapply Inv2_step; eauto. - eapply Inv0_step; eauto.
Qed.

Lemma run_app f ls1 : forall ls2 s, run f s (ls1 ++ ls2) = match run f s ls1 with Some s1 => run f s1 ls2 | None => None end.
Proof. induction ls1 as [|l r IH]; cbn; intros; auto. destruct (step f s l); auto. Qed.

Lemma Inv_run ls : forall s s', Inv s -> run true s ls = Some s' -> Inv s'.
Proof.
  induction ls as [|l r IH]; cbn; intros s s' HI H. { now injection H as <-. }
  destruct (step true s l) eqn:E; [|discriminate]. eapply IH; [eapply Inv_step; eauto|eauto].
Qed.

Lemma reach_Inv ls s : run true init ls = Some s -> Inv s.
Proof. apply Inv_run, Inv_init. Qed.

(* known dead is stable, and so is being late for a generation *)
Lemma dead_mono_step s l s' g : Inv0 s -> step true s l = Some s' -> dead (gens s g) = true -> dead (gens s' g) = true.
Proof.
  intros HN H D. destruct l; cbn [step] in H.
  all: dstep H.
  all: unfold do_close, w_sp, w_gen, w_gens in *; cbn in *; unfold upd; cbn; rewrite ?al_dead.
  all: repeat match goal with |- context [Nat.eqb ?a ?b] => destruct (Nat.eqb_spec a b); subst; cbn in * end.
  all: auto.
  rewrite (HN (ngen s)) in D by lia. discriminate D.
Qed.

Lemma late_mono_step s l s' g m : Inv0 s -> step true s l = Some s' -> In m (late (gens s g)) -> In m (late (gens s' g)).
Proof.
  intros HN H D. destruct l; cbn [step] in H.
  all: dstep H.
  all: unfold do_close, w_sp, w_gen, w_gens in *; cbn in *; unfold upd; cbn; rewrite ?al_late.
  all: repeat match goal with |- context [Nat.eqb ?a ?b] => destruct (Nat.eqb_spec a b); subst; cbn in * end.
  all: auto.
  all: try (destruct (dead (gens s g)); [rewrite in_app_iff; auto|auto]).
  rewrite (HN (ngen s)) in D by lia. destruct D.
Qed.

Lemma mono_run ls : forall s s' g, Inv s -> run true s ls = Some s' ->
  (dead (gens s g) = true -> dead (gens s' g) = true) /\ (forall m, In m (late (gens s g)) -> In m (late (gens s' g))).
Proof.
  induction ls as [|l r IH]; cbn; intros s s' g HI H. { injection H as <-. auto. }
  destruct (step true s l) eqn:E; [|discriminate].
  destruct (IH s0 s' g (Inv_step _ _ _ HI E) H) as [A B]. destruct HI as (_ & _ & HN). split.
  - intros D. apply A. eapply dead_mono_step; eauto.
  - intros m D. apply B. eapply late_mono_step; eauto.
Qed.


(* ------------------------------------------------------------------------------------------------ *)
(* the theorems *)

(* the closed flag says exactly whether the CURRENT connection is known dead *)
Theorem closed_flag_is_current ls s : run true init ls = Some s ->
  match cur s with
  | Some c => closedF s = dead (gens s c) /\ c < ngen s
  | None => closedF s = true /\ ngen s = 0
  end.
Proof. intros H. destruct (reach_Inv _ _ H) as ((HA & _) & _). exact HA. Qed.

(* every generation other than the current one is known dead: a connection is only replaced after its loss *)
Theorem only_current_alive ls s g : run true init ls = Some s -> g < ngen s -> dead (gens s g) = false -> cur s = Some g.
Proof.
  intros H L D. destruct (reach_Inv _ _ H) as ((_ & HC) & _).
  destruct (cur s) as [c|] eqn:E.
  - destruct (Nat.eq_dec c g); [now subst|]. rewrite HC in D; [discriminate|auto|congruence].
  - rewrite HC in D; [discriminate|auto|congruence].
Qed.

(* steps by which a goroutine bound to generation g gives that generation up *)
Definition closes (l : label) : option nat :=
  match l with LRClose g | LSIdleClose g | LSFailClose g => Some g | _ => None end.

(* the loss of generation g does not touch the closed flag, the current connection or its state
   when g is not the current connection (any state, reachable or not) *)
Theorem close_is_local s l s' g c : step true s l = Some s' -> closes l = Some g -> cur s = Some c -> c <> g ->
  closedF s' = closedF s /\ cur s' = Some c /\ dead (gens s' c) = dead (gens s c) /\ sp (gens s' c) = sp (gens s c).
Proof.
  intros H CL EC NE. destruct l; cbn in CL; try discriminate; injection CL as ->; cbn [step] in H.
  all: dstep H.
  all: unfold do_close, w_sp, w_gen, w_gens, is_cur; cbn; rewrite EC; unfold upd; cbn.
  all: repeat match goal with |- context [Nat.eqb ?a ?b] => destruct (Nat.eqb_spec a b); subst; cbn in * end.
  all: try congruence; auto.
Qed.

(* ... hence a healthy current connection is never treated as closed because an earlier one was lost *)
Corollary healthy_not_closed ls s c : run true init ls = Some s -> cur s = Some c -> dead (gens s c) = false -> closedF s = false.
Proof. intros H E D. pose proof (closed_flag_is_current _ _ H) as X. rewrite E in X. destruct X as [X _]. congruence. Qed.

(* no write attempt on generation g ever carries a request that was enqueued while g was known dead *)
Theorem no_late_write ls s g m b : run true init ls = Some s -> In (g, m, b) (atts s) -> ~ In m (late (gens s g)).
Proof. intros H. destruct (reach_Inv _ _ H) as (_ & (_ & _ & HF & _) & _). apply HF. Qed.

(* the same in terms of the history alone: once g is known dead, a request enqueued later is never written to g *)
Theorem no_write_after_known_dead l1 l2 m g s1 s : run true init l1 = Some s1 -> dead (gens s1 g) = true ->
  run true s1 (LEnq m :: l2) = Some s -> forall b, ~ In (g, m, b) (atts s).
Proof.
  intros H1 D H2 b HIn. pose proof (reach_Inv _ _ H1) as I1.
  cbn [run] in H2. destruct (step true s1 (LEnq m)) as [s2|] eqn:E; [|discriminate].
  assert (L2 : In m (late (gens s2 g))).
  { cbn [step] in E. destruct (memn m (lenq s1) && negb (memn m (hist s1))); [|discriminate]. injection E as <-.
    cbn. rewrite al_late, D, in_app_iff. right. now left. }
  destruct (mono_run l2 s2 s g (Inv_step _ _ _ I1 E) H2) as [_ M].
  assert (R : run true init (l1 ++ LEnq m :: l2) = Some s).
  { rewrite run_app, H1. cbn [run]. now rewrite E. }
  eapply no_late_write; eauto.
Qed.

(* a send goroutine that is about to write (hook position) or writing holds a request that is not late for its generation *)
Theorem committed_not_late ls s g m : run true init ls = Some s -> committed (sp (gens s g)) = Some m -> ~ In m (late (gens s g)).
Proof. intros H. destruct (reach_Inv _ _ H) as (_ & (_ & HE & _) & _). apply HE. Qed.

(* ------------------------------------------------------------------------------------------------ *)
(* the pinned code ([fixed = false]) violates all three; the schedule is the one observed on the real client:
   the send goroutine of the closed connection 0 takes the request of the next call, writes it to the dead
   connection, its close marks the healthy connection 1 closed, and the send goroutine of 1 leaves at its next tick *)
Definition sched_defect : list label :=
  [LLogEnq 0; LReconnect; LEnq 0; LSTop 0; LSPoll 0; LSBlkQueue 0; LSHook 0; LSWriteOk 0; LSTop 0; LSPoll 0;
   LLogPClose 0; LPeerClose 0; LRClose 0; LRSignal 0; LLogObs 0;
   LLogEnq 1; LReconnect; LEnq 1; LSTop 1; LSPoll 1;
   LSBlkQueue 0; LSHook 0; LSWriteErr 0; LSFailPush 0; LSFailClose 0;
   LSBlkTick 1; LSTick 1].

Lemma pinned_refuted : exists s, run false init sched_defect = Some s /\
  In (0, 1, true) (atts s) /\ In 1 (late (gens s 0)) /\                       (* written to the connection known dead *)
  cur s = Some 1 /\ dead (gens s 1) = false /\ peerc (gens s 1) = false /\ closedF s = true /\   (* healthy, treated as closed *)
  failQ s = [1] /\ sp (gens s 1) = SExit /\ sp (gens s 0) = SExit /\ got (gens s 1) = [] /\       (* request 1 waits for another call *)
  c11_accepts (log s) = false.                                        (* and the specification machine rejects the log *)
Proof. eexists. split; [vm_compute; reflexivity|]. vm_compute. repeat split; auto. Qed.

(* the repaired code under the corresponding schedule: the stale goroutine hands the request over *)
Definition sched_repaired : list label :=
  [LLogEnq 0; LReconnect; LEnq 0; LSTop 0; LSPoll 0; LSBlkQueue 0; LSCheck 0; LSHook 0; LSWriteOk 0; LSTop 0; LSPoll 0;
   LLogPClose 0; LPeerClose 0; LRClose 0; LRSignal 0; LLogObs 0;
   LLogEnq 1; LReconnect; LEnq 1; LSTop 1; LSPoll 1;
   LSBlkQueue 0; LSCheck 0; LSRequeue 0;
   LSBlkFail 1; LSCheck 1; LSHook 1; LSWriteOk 1].

Lemma repaired_example : exists s, run true init sched_repaired = Some s /\
  atts s = [(0, 0, false); (1, 1, false)] /\ got (gens s 1) = [1] /\ closedF s = false /\ cur s = Some 1 /\
  sp (gens s 0) = SExit /\ failQ s = [] /\ sendQ s = [] /\ c11_accepts (log s) = true.
Proof. eexists. split; [vm_compute; reflexivity|]. vm_compute. repeat split; auto. Qed.

(* the pinned schedule is not a behaviour of the repaired code *)
Lemma repaired_rejects_defect : run true init sched_defect = None.
Proof. vm_compute. reflexivity. Qed.

(* the literal reading "no write attempt while the generation is known dead" fails for any client that does
   not hold a lock across test and write: the connection is lost between isCurrent and conn.Write *)
Definition sched_window : list label :=
  [LLogEnq 0; LReconnect; LEnq 0; LSTop 0; LSPoll 0; LSBlkQueue 0; LSCheck 0; LLogPClose 0; LPeerClose 0; LRClose 0;
   LSHook 0; LSWriteErr 0].

Lemma literal_no_write_to_dead_refuted : exists s, run true init sched_window = Some s /\ In (0, 0, true) (atts s) /\ late (gens s 0) = [].
Proof. eexists. split; [vm_compute; reflexivity|]. cbn. split; auto. Qed.


(* ------------------------------------------------------------------------------------------------ *)
(* further invariants: who can have left the loop, capacity of the failure queue *)
Definition lostpc (p : spc) : bool :=
  match p with SRequeue _ | SFailPush _ | SFailClose | SExit => true | _ => false end.

Definition Inv3 (s : st) : Prop :=
  (forall g, done (gens s g) = true -> dead (gens s g) = true) /\
  (forall g, rp (gens s g) <> RRun -> dead (gens s g) = true) /\
  (forall g, lostpc (sp (gens s g)) = true -> dead (gens s g) = true \/ peerc (gens s g) = true) /\
  length (failQ s) <= 1.

Lemma lt_ngen_of_sp s g : Inv0 s -> sp (gens s g) <> STop -> g < ngen s.
Proof. intros HN H. destruct (Nat.lt_ge_cases g (ngen s)); auto. rewrite (HN g) in H by lia. now destruct H. Qed.

Lemma not_current_dead s g : Inv1 s -> Inv0 s -> sp (gens s g) <> STop -> isCurrent s g = false -> dead (gens s g) = true.
Proof.
  intros (HA & HC) HN P C. pose proof (lt_ngen_of_sp _ _ HN P) as L. unfold isCurrent, is_cur in C.
  destruct (cur s) as [c|] eqn:EC.
  - destruct (Nat.eqb_spec c g).
    + subst. destruct (closedF s); cbn in C; [|discriminate]. now destruct HA as [<- _].
    + apply HC; auto. congruence.
  - apply HC; auto. congruence.
Qed.

Lemma Inv3_step s l s' : Inv1 s -> Inv0 s -> Inv3 s -> step true s l = Some s' -> Inv3 s'.
Proof.
  intros (HA & HC) HN (HD & HR & HL & HQ) H. destruct l; cbn [step] in H.
  all: dstep H.
  all: unfold Inv3, do_close, w_sp, w_gen, w_gens, is_cur, isCurrent in *; cbn in *.
  all: repeat split; intros; cbn in *.
  all: unfold upd in *; cbn in *; rewrite ?al_dead, ?al_sp, ?al_done, ?al_peerc, ?al_rp in *.
  all: eqs.
  all: eauto; try lia; try discriminate; try congruence.
  all: try (apply HR; congruence).
  all: try (match goal with E : failQ _ = _ |- _ => rewrite E in *; cbn in *; lia end).
  all: try (match goal with E : sp (gens _ ?g) = _ |- _ => apply (HL g); rewrite E; reflexivity end).
  all: try (match goal with E : _ || _ = true |- _ => apply orb_prop in E; tauto end).
  all: try (left; apply not_current_dead; [split; auto|auto|congruence|]; unfold isCurrent, is_cur).
  all: try (apply negb_true_iff in Heqb; exact Heqb).
  all: try exact Heqb.
Qed.

Definition InvX (s : st) : Prop := Inv s /\ Inv3 s.
Lemma InvX_init : InvX init.
Proof. split; [apply Inv_init|]. unfold Inv3, init; cbn. repeat split; intros; try discriminate; try lia. now destruct H. Qed.
Lemma InvX_step s l s' : InvX s -> step true s l = Some s' -> InvX s'.
Proof. intros [I I3] H. split; [eapply Inv_step; eauto|]. destruct I as (I1 & _ & I0). eapply Inv3_step; eauto. Qed.
Lemma InvX_run ls : forall s s', InvX s -> run true s ls = Some s' -> InvX s'.
Proof.
  induction ls as [|l r IH]; cbn; intros s s' HI H. { now injection H as <-. }
  destruct (step true s l) eqn:E; [|discriminate]. eapply IH; [eapply InvX_step; eauto|eauto].
Qed.

(* ------------------------------------------------------------------------------------------------ *)
(* progress without further calls: schedules of the client's own goroutines *)
Definition reach_int (s s' : st) : Prop := exists ls, Forall (fun l => internal l = true) ls /\ run true s ls = Some s'.

Lemma reach_refl s : reach_int s s.
Proof. exists []. split; [constructor|reflexivity]. Qed.
Lemma reach_trans s1 s2 s3 : reach_int s1 s2 -> reach_int s2 s3 -> reach_int s1 s3.
Proof.
  intros (l1 & F1 & R1) (l2 & F2 & R2). exists (l1 ++ l2). split; [apply Forall_app; auto|]. now rewrite run_app, R1.
Qed.
Lemma reach_step s l s' : internal l = true -> step true s l = Some s' -> reach_int s s'.
Proof. intros I H. exists [l]. split; [repeat constructor; auto|]. cbn. now rewrite H. Qed.
Lemma reach_InvX s s' : InvX s -> reach_int s s' -> InvX s'.
Proof. intros I (ls & _ & R). eapply InvX_run; eauto. Qed.

Definition healthy (s : st) (c : nat) : Prop :=
  cur s = Some c /\ closedF s = false /\ dead (gens s c) = false /\ peerc (gens s c) = false.

Definition frame (c : nat) (s s' : st) : Prop :=
  cur s' = cur s /\ closedF s' = closedF s /\ dead (gens s' c) = dead (gens s c) /\ peerc (gens s' c) = peerc (gens s c) /\
  (forall g, g <> c -> gens s' g = gens s g) /\ (forall x, In x (got (gens s c)) -> In x (got (gens s' c))).

Lemma frame_refl c s : frame c s s.
Proof. unfold frame. repeat split; auto. Qed.
Lemma frame_trans c s1 s2 s3 : frame c s1 s2 -> frame c s2 s3 -> frame c s1 s3.
Proof.
  intros (A1 & A2 & A3 & A4 & A5 & A6) (B1 & B2 & B3 & B4 & B5 & B6). unfold frame. repeat split; try congruence.
  - intros g N. rewrite B5, A5; auto. - auto.
Qed.
Lemma frame_healthy c s s' : frame c s s' -> healthy s c -> healthy s' c.
Proof. intros (A1 & A2 & A3 & A4 & _) (H1 & H2 & H3 & H4). unfold healthy. repeat split; congruence. Qed.

Lemma healthy_current s c : healthy s c -> isCurrent s c = true.
Proof. intros (H1 & H2 & _). unfold isCurrent, is_cur. rewrite H1, H2, Nat.eqb_refl. reflexivity. Qed.

Ltac simpw := cbn; unfold upd; rewrite ?Nat.eqb_refl; cbn.

(* the live send goroutine writes the request it holds *)
Lemma live_write s c m : healthy s c ->
  (sp (gens s c) = SCheck m \/ sp (gens s c) = SHook m \/ sp (gens s c) = SWrite m) ->
  exists s', reach_int s s' /\ frame c s s' /\ sp (gens s' c) = STop /\ sendQ s' = sendQ s /\ failQ s' = failQ s /\ In m (got (gens s' c)).
Proof.
  intros H P. pose proof (healthy_current _ _ H) as C. destruct H as (H1 & H2 & H3 & H4).
  assert (W : forall s, cur s = Some c -> closedF s = false -> dead (gens s c) = false -> peerc (gens s c) = false -> sp (gens s c) = SWrite m ->
     exists s', reach_int s s' /\ frame c s s' /\ sp (gens s' c) = STop /\ sendQ s' = sendQ s /\ failQ s' = failQ s /\ In m (got (gens s' c))).
  { clear. intros s H1 H2 H3 H4 P. eexists. split; [|split].
    - eapply (reach_step _ (LSWriteOk c)); [reflexivity|]. unfold step. rewrite P, H3. reflexivity.
    - unfold frame. simpw. rewrite H4. simpw. repeat split; auto.
      + intros g N. apply Nat.eqb_neq in N. now rewrite N.
      + intros x. rewrite in_app_iff. auto.
    - simpw. rewrite H4. simpw. repeat split; auto. rewrite in_app_iff. right. now left. }
  assert (K : forall s, cur s = Some c -> closedF s = false -> dead (gens s c) = false -> peerc (gens s c) = false -> sp (gens s c) = SHook m ->
     exists s', reach_int s s' /\ frame c s s' /\ sp (gens s' c) = STop /\ sendQ s' = sendQ s /\ failQ s' = failQ s /\ In m (got (gens s' c))).
  { clear - W. intros s H1 H2 H3 H4 P.
    destruct (W (w_log (w_sp s c (SWrite m)) (EWrite c m (dead (gens s c) || negb (is_cur s c))))) as (s' & R & F & Q); try (simpw; auto; fail).
    exists s'. split; [|split].
    - eapply reach_trans; [|exact R]. eapply (reach_step _ (LSHook c)); [reflexivity|]. unfold step. rewrite P. reflexivity.
    - eapply frame_trans; [|exact F]. unfold frame. simpw. repeat split; auto. intros g N. apply Nat.eqb_neq in N. now rewrite N.
    - exact Q. }
  destruct P as [P|[P|P]]; [|eauto|eauto].
  destruct (K (w_sp s c (SHook m))) as (s' & R & F & Q); try (simpw; auto; fail).
  exists s'. split; [|split].
  - eapply reach_trans; [|exact R]. eapply (reach_step _ (LSCheck c)); [reflexivity|]. unfold step. rewrite P, C. reflexivity.
  - eapply frame_trans; [|exact F]. unfold frame. simpw. repeat split; auto. intros g N. apply Nat.eqb_neq in N. now rewrite N.
  - exact Q.
Qed.

Lemma frame_w_sp c s p : frame c s (w_sp s c p).
Proof. unfold frame. simpw. repeat split; auto. intros g N. apply Nat.eqb_neq in N. now rewrite N. Qed.
Lemma sp_w_sp s g p : sp (gens (w_sp s g p) g) = p.
Proof. now simpw. Qed.

Definition ready (p : spc) : Prop := p = STop \/ p = SPollFail \/ p = SBlock.

(* the live send goroutine reaches the point where it looks at the queues, writing the request it may hold *)
Lemma live_ready s c : InvX s -> healthy s c ->
  exists s', reach_int s s' /\ frame c s s' /\ ready (sp (gens s' c)) /\ sendQ s' = sendQ s /\ failQ s' = failQ s /\
             (forall m, holds (sp (gens s c)) = Some m -> In m (got (gens s' c))).
Proof.
  intros (_ & (_ & _ & HL & _)) H. pose proof (healthy_current _ _ H) as C.
  destruct (sp (gens s c)) eqn:P.
  1-3: exists s; split; [apply reach_refl|]; split; [apply frame_refl|]; split; [unfold ready; auto|]; split; [auto|]; split; [auto|]; cbn; intros; discriminate.
  - (* STick *)
    exists (w_sp (w_sp s c SIdle) c STop). split; [|split; [|split]].
    + eapply reach_trans; [eapply (reach_step _ (LSTick c)); [reflexivity|]; unfold step; rewrite P, C; reflexivity|].
      eapply (reach_step _ (LSIdleNo c)); [reflexivity|]. unfold step. rewrite sp_w_sp. reflexivity.
    + eapply frame_trans; apply frame_w_sp.
    + rewrite sp_w_sp. unfold ready. auto.
    + split; [reflexivity|]. split; [reflexivity|]. cbn. intros; discriminate.
  - (* SIdle *)
    exists (w_sp s c STop). split; [|split; [|split]].
    + eapply (reach_step _ (LSIdleNo c)); [reflexivity|]. unfold step. rewrite P. reflexivity.
    + apply frame_w_sp.
    + rewrite sp_w_sp. unfold ready. auto.
    + split; [reflexivity|]. split; [reflexivity|]. cbn. intros; discriminate.
  - destruct (live_write s c m H) as (s' & R & F & Q1 & Q2 & Q3 & Q4); auto.
    exists s'. split; [exact R|]. split; [exact F|]. split; [rewrite Q1; unfold ready; auto|]. split; [exact Q2|]. split; [exact Q3|]. cbn. intros ? [= <-]. exact Q4.
  - destruct (live_write s c m H) as (s' & R & F & Q1 & Q2 & Q3 & Q4); auto.
    exists s'. split; [exact R|]. split; [exact F|]. split; [rewrite Q1; unfold ready; auto|]. split; [exact Q2|]. split; [exact Q3|]. cbn. intros ? [= <-]. exact Q4.
  - destruct (live_write s c m H) as (s' & R & F & Q1 & Q2 & Q3 & Q4); auto.
    exists s'. split; [exact R|]. split; [exact F|]. split; [rewrite Q1; unfold ready; auto|]. split; [exact Q2|]. split; [exact Q3|]. cbn. intros ? [= <-]. exact Q4.
  - exfalso. destruct H as (_ & _ & H3 & H4). destruct (HL c); [rewrite P; reflexivity| |]; congruence.
  - exfalso. destruct H as (_ & _ & H3 & H4). destruct (HL c); [rewrite P; reflexivity| |]; congruence.
  - exfalso. destruct H as (_ & _ & H3 & H4). destruct (HL c); [rewrite P; reflexivity| |]; congruence.
  - exfalso. destruct H as (_ & _ & H3 & H4). destruct (HL c); [rewrite P; reflexivity| |]; congruence.
Qed.

(* ... and takes the next request: the failure queue first, then the send queue *)
Lemma live_take s c m : InvX s -> healthy s c -> ready (sp (gens s c)) ->
  (exists r, failQ s = m :: r) \/ (failQ s = [] /\ exists r, sendQ s = m :: r) ->
  exists s', reach_int s s' /\ frame c s s' /\ sp (gens s' c) = STop /\ In m (got (gens s' c)) /\
    ((exists r, failQ s = m :: r /\ failQ s' = r /\ sendQ s' = sendQ s) \/
     (failQ s = [] /\ failQ s' = [] /\ exists r, sendQ s = m :: r /\ sendQ s' = r)).
Proof.
  intros (((HA & _) & _ & HN) & (HD & _)) H RD Q.
  assert (L : c < ngen s). { destruct H as (H1 & _). rewrite H1 in HA. tauto. }
  assert (D : done (gens s c) = false). { destruct (done (gens s c)) eqn:E; auto. apply HD in E. destruct H as (_ & _ & H3 & _). congruence. }
  apply Nat.ltb_lt in L.
  (* from SBlock *)
  assert (FB : forall s, healthy s c -> sp (gens s c) = SBlock ->
     (exists r, failQ s = m :: r) \/ (failQ s = [] /\ exists r, sendQ s = m :: r) ->
     exists s', reach_int s s' /\ frame c s s' /\ sp (gens s' c) = STop /\ In m (got (gens s' c)) /\
       ((exists r, failQ s = m :: r /\ failQ s' = r /\ sendQ s' = sendQ s) \/
        (failQ s = [] /\ failQ s' = [] /\ exists r, sendQ s = m :: r /\ sendQ s' = r))).
  { clear. intros s H P [(r & Q)|(Q0 & r & Q)].
    - destruct (live_write (w_sp (w_failQ s r) c (SCheck m)) c m) as (s' & R & F & Q1 & Q2 & Q3 & Q4).
      { eapply frame_healthy; [apply frame_w_sp|]. exact H. } { rewrite sp_w_sp. auto. }
      exists s'. split; [|split; [|split; [|split]]]; auto.
      + eapply reach_trans; [|exact R]. eapply (reach_step _ (LSBlkFail c)); [reflexivity|]. unfold step. rewrite P, Q. reflexivity.
      + eapply frame_trans; [|exact F]. apply (frame_w_sp c (w_failQ s r)).
      + left. exists r. auto.
    - destruct (live_write (w_sp (w_sendQ s r) c (SCheck m)) c m) as (s' & R & F & Q1 & Q2 & Q3 & Q4).
      { eapply frame_healthy; [apply frame_w_sp|]. exact H. } { rewrite sp_w_sp. auto. }
      exists s'. split; [|split; [|split; [|split]]]; auto.
      + eapply reach_trans; [|exact R]. eapply (reach_step _ (LSBlkQueue c)); [reflexivity|]. unfold step. rewrite P, Q. reflexivity.
      + eapply frame_trans; [|exact F]. apply (frame_w_sp c (w_sendQ s r)).
      + right. rewrite Q3. cbn. repeat split; auto. exists r. auto. }
  (* from SPollFail *)
  assert (FP : forall s, healthy s c -> sp (gens s c) = SPollFail ->
     (exists r, failQ s = m :: r) \/ (failQ s = [] /\ exists r, sendQ s = m :: r) ->
     exists s', reach_int s s' /\ frame c s s' /\ sp (gens s' c) = STop /\ In m (got (gens s' c)) /\
       ((exists r, failQ s = m :: r /\ failQ s' = r /\ sendQ s' = sendQ s) \/
        (failQ s = [] /\ failQ s' = [] /\ exists r, sendQ s = m :: r /\ sendQ s' = r))).
  { clear - FB. intros s H P [(r & Q)|(Q0 & r & Q)].
    - destruct (live_write (w_sp (w_failQ s r) c (SCheck m)) c m) as (s' & R & F & Q1 & Q2 & Q3 & Q4).
      { eapply frame_healthy; [apply frame_w_sp|]. exact H. } { rewrite sp_w_sp. auto. }
      exists s'. split; [|split; [|split; [|split]]]; auto.
      + eapply reach_trans; [|exact R]. eapply (reach_step _ (LSPoll c)); [reflexivity|]. unfold step. rewrite P, Q. reflexivity.
      + eapply frame_trans; [|exact F]. apply (frame_w_sp c (w_failQ s r)).
      + left. exists r. auto.
    - destruct (FB (w_sp s c SBlock)) as (s' & R & F & Q1 & Q2 & Q3).
      { eapply frame_healthy; [apply frame_w_sp|]. exact H. } { apply sp_w_sp. } { right. split; auto. exists r. auto. }
      exists s'. split; [|split; [|split; [|split]]]; auto.
      + eapply reach_trans; [|exact R]. eapply (reach_step _ (LSPoll c)); [reflexivity|]. unfold step. rewrite P, Q0. reflexivity.
      + eapply frame_trans; [|exact F]. apply frame_w_sp. }
  destruct RD as [P|[P|P]]; [|eauto|eauto].
  destruct (FP (w_sp s c SPollFail)) as (s' & R & F & Q1 & Q2 & Q3).
  { eapply frame_healthy; [apply frame_w_sp|]. exact H. } { apply sp_w_sp. } { exact Q. }
  exists s'. split; [|split; [|split; [|split]]]; auto.
  - eapply reach_trans; [|exact R]. eapply (reach_step _ (LSTop c)); [reflexivity|]. unfold step. rewrite L, P, D. reflexivity.
  - eapply frame_trans; [|exact F]. apply frame_w_sp.
Qed.

Lemma drain_fail s c : InvX s -> healthy s c ->
  exists s', reach_int s s' /\ frame c s s' /\ failQ s' = [] /\ sendQ s' = sendQ s /\ ready (sp (gens s' c)) /\
             (forall m, In m (failQ s) -> In m (got (gens s' c))) /\
             (forall m, holds (sp (gens s c)) = Some m -> In m (got (gens s' c))).
Proof.
  intros I H. destruct (live_ready s c I H) as (s1 & R1 & F1 & RD1 & Q1 & Q2 & Q3).
  pose proof (reach_InvX _ _ I R1) as I1. pose proof (frame_healthy _ _ _ F1 H) as H1.
  destruct (failQ s) as [|m r] eqn:EF.
  - exists s1. split; [auto|]. split; [auto|]. split; [congruence|]. split; [auto|]. split; [auto|]. split; [intros m []|auto].
  - assert (r = []). { destruct I as (_ & (_ & _ & _ & HQ)). rewrite EF in HQ. cbn in HQ. destruct r; auto. cbn in HQ. lia. } subst r.
    destruct (live_take s1 c m I1 H1 RD1) as (s2 & R2 & F2 & P2 & G2 & [(r & E1 & E2 & E3)|(E1 & _)]).
    { left. exists []. congruence. }
    2: { congruence. }
    exists s2. split; [eapply reach_trans; eauto|]. split; [eapply frame_trans; eauto|].
    assert (r = []) by congruence. subst r.
    split; [auto|]. split; [congruence|]. split; [rewrite P2; unfold ready; auto|]. split.
    + intros x [<-|[]]. exact G2.
    + intros x Hx. destruct F2 as (_ & _ & _ & _ & _ & G). apply G. auto.
Qed.

Lemma deliver_sendQ c m q2 : forall q1 s, InvX s -> healthy s c -> sendQ s = q1 ++ m :: q2 ->
  exists s', reach_int s s' /\ frame c s s' /\ In m (got (gens s' c)).
Proof.
  induction q1 as [|y q1 IH]; intros s I H Q.
  - destruct (drain_fail s c I H) as (s1 & R1 & F1 & E1 & E2 & RD1 & _).
    pose proof (reach_InvX _ _ I R1) as I1. pose proof (frame_healthy _ _ _ F1 H) as H1.
    destruct (live_take s1 c m I1 H1 RD1) as (s2 & R2 & F2 & P2 & G2 & _).
    { right. split; auto. exists q2. rewrite E2, Q. reflexivity. }
    exists s2. split; [eapply reach_trans; eauto|]. split; [eapply frame_trans; eauto|auto].
  - destruct (drain_fail s c I H) as (s1 & R1 & F1 & E1 & E2 & RD1 & _).
    pose proof (reach_InvX _ _ I R1) as I1. pose proof (frame_healthy _ _ _ F1 H) as H1.
    destruct (live_take s1 c y I1 H1 RD1) as (s2 & R2 & F2 & P2 & G2 & [(r & X & _)|(_ & _ & r & X1 & X2)]).
    { right. split; auto. exists (q1 ++ m :: q2). rewrite E2, Q. reflexivity. }
    { congruence. }
    pose proof (reach_InvX _ _ I1 R2) as I2. pose proof (frame_healthy _ _ _ F2 H1) as H2.
    destruct (IH s2 I2 H2) as (s3 & R3 & F3 & G3).
    { rewrite X2. rewrite E2, Q in X1. cbn in X1. congruence. }
    exists s3. split; [eapply reach_trans; [eauto|eapply reach_trans; eauto]|]. split; [|auto].
    eapply frame_trans; [eauto|eapply frame_trans; eauto].
Qed.

Lemma healthy_w_sp s c g p : g <> c -> healthy s c -> healthy (w_sp s g p) c.
Proof. intros N (H1 & H2 & H3 & H4). apply Nat.eqb_neq in N. unfold healthy. simpw. rewrite Nat.eqb_sym, N. auto. Qed.

Lemma healthy_ext s s' c : cur s' = cur s -> closedF s' = closedF s -> gens s' c = gens s c -> healthy s c -> healthy s' c.
Proof. intros A B C (H1 & H2 & H3 & H4). unfold healthy. rewrite A, B, C. auto. Qed.

Lemma upd_neq f g v c : g <> c -> upd f g v c = f c.
Proof. intros N. unfold upd. apply Nat.eqb_neq in N. now rewrite Nat.eqb_sym, N. Qed.

(* a send goroutine of another generation hands the request it holds over to the failure queue *)
Lemma stale_push s c g m : healthy s c -> g <> c -> failQ s = [] -> dead (gens s g) = true -> holds (sp (gens s g)) = Some m ->
  exists s', reach_int s s' /\ healthy s' c /\ In m (failQ s').
Proof.
  intros H N. 
  assert (NC : forall s, healthy s c -> isCurrent s g = false).
  { intros s0 (H1 & _). unfold isCurrent, is_cur. rewrite H1. apply Nat.eqb_neq in N. rewrite Nat.eqb_sym, N. apply andb_false_r. }
  assert (A1 : forall s, healthy s c -> failQ s = [] -> sp (gens s g) = SRequeue m -> exists s', reach_int s s' /\ healthy s' c /\ In m (failQ s')).
  { intros s0 H0 Q P. exists (w_sp (w_failQ s0 [m]) g SExit). split; [|split].
    - eapply (reach_step _ (LSRequeue g)); [reflexivity|]. unfold step. rewrite P, Q. reflexivity.
    - eapply healthy_ext; [| | |exact H0]; try reflexivity. cbn. apply upd_neq; auto.
    - cbn. auto. }
  assert (A2 : forall s, healthy s c -> failQ s = [] -> sp (gens s g) = SFailPush m -> exists s', reach_int s s' /\ healthy s' c /\ In m (failQ s')).
  { intros s0 H0 Q P. exists (w_sp (w_failQ s0 [m]) g SFailClose). split; [|split].
    - eapply (reach_step _ (LSFailPush g)); [reflexivity|]. unfold step. rewrite P, Q. reflexivity.
    - eapply healthy_ext; [| | |exact H0]; try reflexivity. cbn. apply upd_neq; auto.
    - cbn. auto. }
  assert (A3 : forall s, healthy s c -> failQ s = [] -> dead (gens s g) = true -> sp (gens s g) = SWrite m -> exists s', reach_int s s' /\ healthy s' c /\ In m (failQ s')).
  { intros s0 H0 Q D P.
    destruct (A2 (w_sp (w_atts s0 (atts s0 ++ [(g, m, dead (gens s0 g))])) g (SFailPush m))) as (s' & R & X).
    - eapply healthy_ext; [| | |exact H0]; try reflexivity. cbn. apply upd_neq; auto.
    - exact Q.
    - apply sp_w_sp.
    - exists s'. split; [|exact X]. eapply reach_trans; [|exact R].
      eapply (reach_step _ (LSWriteErr g)); [reflexivity|]. unfold step. rewrite P, D. reflexivity. }
  intros Q D HO. destruct (sp (gens s g)) eqn:P; cbn in HO; try discriminate; injection HO as ->.
  - (* SCheck *)
    destruct (A1 (w_sp s g (SRequeue m))) as (s' & R & X).
    + eapply healthy_ext; [| | |exact H]; try reflexivity. cbn. apply upd_neq; auto.
    + exact Q.
    + apply sp_w_sp.
    + exists s'. split; [|exact X]. eapply reach_trans; [|exact R].
      eapply (reach_step _ (LSCheck g)); [reflexivity|]. unfold step. rewrite P, (NC s H). reflexivity.
  - (* SHook *)
    destruct (A3 (w_log (w_sp s g (SWrite m)) (EWrite g m (dead (gens s g) || negb (is_cur s g))))) as (s' & R & X).
    + eapply healthy_ext; [| | |exact H]; try reflexivity. cbn. apply upd_neq; auto.
    + exact Q.
    + simpw. exact D.
    + now simpw.
    + exists s'. split; [|exact X]. eapply reach_trans; [|exact R].
      eapply (reach_step _ (LSHook g)); [reflexivity|]. unfold step. rewrite P. reflexivity.
  - eauto.
  - eauto.
  - eauto.
Qed.

Lemma stale_handover s c g m : InvX s -> healthy s c -> g <> c -> holds (sp (gens s g)) = Some m ->
  exists s', reach_int s s' /\ healthy s' c /\ In m (failQ s').
Proof.
  intros I H N HO.
  destruct (drain_fail s c I H) as (s1 & R1 & F1 & E1 & _ & _).
  pose proof (reach_InvX _ _ I R1) as I1. pose proof (frame_healthy _ _ _ F1 H) as H1.
  assert (G1 : gens s1 g = gens s g). { destruct F1 as (_ & _ & _ & _ & G & _). auto. }
  rewrite <- G1 in HO.
  assert (D : dead (gens s1 g) = true).
  { destruct I1 as (((_ & HC) & _ & HN) & _). apply HC.
    - apply lt_ngen_of_sp; auto. intros E. rewrite E in HO. discriminate.
    - destruct H1 as (H1 & _). congruence. }
  destruct (stale_push s1 c g m H1 N E1 D HO) as (s2 & R2 & X).
  exists s2. split; [eapply reach_trans; eauto|exact X].
Qed.

Definition pending (s : st) (m : nat) : Prop :=
  In m (sendQ s) \/ In m (failQ s) \/ exists g, holds (sp (gens s g)) = Some m.

(* DELIVERY: whenever the current connection is healthy (not known dead, not closed by the peer) and a request is
   pending anywhere in the client (send queue, failure queue, hands of any send goroutine, current or stale),
   the client's goroutines alone (no further call, no timer) can bring it to the peer over the current connection *)
Theorem delivery_possible ls s c m : run true init ls = Some s ->
  cur s = Some c -> dead (gens s c) = false -> peerc (gens s c) = false -> pending s m ->
  exists s', reach_int s s' /\ cur s' = Some c /\ dead (gens s' c) = false /\ peerc (gens s' c) = false /\ In m (got (gens s' c)).
Proof.
  intros R C D P PE.
  assert (I : InvX s). { eapply InvX_run; [apply InvX_init|exact R]. }
  assert (H : healthy s c).
  { unfold healthy. repeat split; auto. destruct I as (((HA & _) & _) & _). rewrite C in HA. destruct HA. congruence. }
  assert (FQ : forall s, InvX s -> healthy s c -> In m (failQ s) ->
     exists s', reach_int s s' /\ cur s' = Some c /\ dead (gens s' c) = false /\ peerc (gens s' c) = false /\ In m (got (gens s' c))).
  { clear. intros s I H X. destruct (drain_fail s c I H) as (s1 & R1 & F1 & _ & _ & _ & G & _).
    destruct (frame_healthy _ _ _ F1 H) as (A & _ & B & B'). exists s1. repeat split; auto. }
  destruct PE as [X|[X|(g & X)]].
  - apply in_split in X. destruct X as (q1 & q2 & X).
    destruct (deliver_sendQ c m q2 q1 s I H X) as (s1 & R1 & F1 & G).
    destruct (frame_healthy _ _ _ F1 H) as (A & _ & B & B'). exists s1. repeat split; auto.
  - eauto.
  - destruct (Nat.eq_dec g c) as [->|N].
    + destruct (drain_fail s c I H) as (s1 & R1 & F1 & _ & _ & _ & _ & G).
      destruct (frame_healthy _ _ _ F1 H) as (A & _ & B & B'). exists s1. repeat split; auto.
    + destruct (stale_handover s c g m I H N X) as (s1 & R1 & H1 & X1).
      destruct (FQ s1 (reach_InvX _ _ I R1) H1 X1) as (s2 & R2 & Y). exists s2. split; [eapply reach_trans; eauto|exact Y].
Qed.

(* a call issued when the loss is known (closed flag set): ReConnect dials a fresh connection, the request is
   enqueued, and the client's goroutines alone can bring it to the peer over that connection *)
Theorem call_after_known_close ls s m s1 : run true init ls = Some s -> closedF s = true ->
  run true s [LReconnect; LEnq m] = Some s1 ->
  cur s1 = Some (ngen s) /\ closedF s1 = false /\
  exists s', reach_int s1 s' /\ cur s' = Some (ngen s) /\ dead (gens s' (ngen s)) = false /\ In m (got (gens s' (ngen s))).
Proof.
  intros R C R1.
  assert (RR : run true init (ls ++ [LReconnect; LEnq m]) = Some s1). { rewrite run_app, R. exact R1. }
  cbn [run step] in R1. rewrite C in R1.
  match type of R1 with context [if ?b then _ else _] => destruct b eqn:E end; [|discriminate]. injection R1 as <-.
  split; [reflexivity|]. split; [reflexivity|].
  destruct (delivery_possible _ _ (ngen s) m RR) as (s' & R' & A & B & _ & G).
  - reflexivity.
  - cbn. unfold upd. rewrite Nat.eqb_refl. reflexivity.
  - cbn. unfold upd. rewrite Nat.eqb_refl. reflexivity.
  - left. cbn. rewrite in_app_iff. right. now left.
  - exists s'. auto.
Qed.

(* non-vacuity of the hypotheses of [delivery_possible]: the request of the second call is in the hands of the
   stale send goroutine of generation 0 while generation 1 is healthy *)
Lemma delivery_example : exists s, run true init
    [LLogEnq 0; LReconnect; LEnq 0; LSTop 0; LSPoll 0; LSBlkQueue 0; LSCheck 0; LSHook 0; LSWriteOk 0; LSTop 0; LSPoll 0;
     LLogPClose 0; LPeerClose 0; LRClose 0; LLogEnq 1; LReconnect; LEnq 1; LSBlkQueue 0] = Some s /\
  cur s = Some 1 /\ dead (gens s 1) = false /\ peerc (gens s 1) = false /\ pending s 1 /\ sp (gens s 0) = SCheck 1.
Proof. eexists. split; [vm_compute; reflexivity|]. cbn. repeat split; auto. right. right. exists 0. reflexivity. Qed.

(* ------------------------------------------------------------------------------------------------ *)
(* a request is in at most one place: a queue, the hands of one send goroutine, or delivered to one peer *)
Fixpoint cnt (m : nat) (l : list nat) : nat :=
  match l with [] => 0 | x :: r => (if Nat.eqb x m then 1 else 0) + cnt m r end.
Lemma cnt_app m a b : cnt m (a ++ b) = cnt m a + cnt m b.
Proof. induction a as [|x r IH]; cbn; auto. rewrite IH. lia. Qed.
Lemma cnt_In m l : In m l -> 1 <= cnt m l.
Proof. induction l as [|x r IH]; cbn; [tauto|]. intros [->|H]; [rewrite Nat.eqb_refl; lia|]. specialize (IH H). lia. Qed.

Definition hcnt (m : nat) (p : spc) : nat :=
  match holds p with Some x => if Nat.eqb x m then 1 else 0 | None => 0 end.
Definition gocc (m : nat) (x : gen) : nat := hcnt m (sp x) + cnt m (got x).
Fixpoint sumo (m : nat) (f : nat -> gen) (n : nat) : nat :=
  match n with 0 => 0 | S k => sumo m f k + gocc m (f k) end.
Definition occ (s : st) (m : nat) : nat := cnt m (sendQ s) + cnt m (failQ s) + sumo m (gens s) (ngen s).

Lemma sumo_ext m f f' n : (forall k, k < n -> gocc m (f' k) = gocc m (f k)) -> sumo m f' n = sumo m f n.
Proof. induction n as [|n IH]; cbn; intros H; auto. rewrite IH, H; auto. Qed.
Lemma sumo_change m f f' g n : g < n -> (forall k, k <> g -> f' k = f k) -> sumo m f' n + gocc m (f g) = sumo m f n + gocc m (f' g).
Proof.
  induction n as [|n IH]; intros L H; [lia|]. cbn. destruct (Nat.eq_dec g n) as [->|N].
  - rewrite (sumo_ext m f f' n); [lia|]. intros k Hk. rewrite H; auto. lia.
  - rewrite (H n) by auto. assert (g < n) by lia. specialize (IH H0 H). lia.
Qed.
Lemma sumo_ge m f g n : g < n -> gocc m (f g) <= sumo m f n.
Proof. induction n as [|n IH]; intros L; [lia|]. cbn. destruct (Nat.eq_dec g n) as [->|N]; [lia|]. assert (g < n) by lia. specialize (IH H). lia. Qed.
Lemma sumo_ge2 m f g g' n : g < n -> g' < n -> g <> g' -> gocc m (f g) + gocc m (f g') <= sumo m f n.
Proof.
  induction n as [|n IH]; intros L L' N; [lia|]. cbn.
  destruct (Nat.eq_dec g n) as [->|N1].
  - assert (g' < n) by lia. pose proof (sumo_ge m f g' n H). lia.
  - destruct (Nat.eq_dec g' n) as [->|N2].
    + assert (g < n) by lia. pose proof (sumo_ge m f g n H). lia.
    + assert (g < n) by lia. assert (g' < n) by lia. specialize (IH H H0 N). lia.
Qed.

Lemma upd_same f g v : upd f g v g = v.
Proof. unfold upd. now rewrite Nat.eqb_refl. Qed.
Lemma upd_other f g v x : x <> g -> upd f g v x = f x.
Proof. unfold upd. intros H. apply Nat.eqb_neq in H. now rewrite H. Qed.

Definition is_enq (l : label) (m : nat) : bool := match l with LEnq x => Nat.eqb x m | _ => false end.

Lemma occ_step s l s' m : Inv1 s -> Inv0 s -> step true s l = Some s' ->
  occ s' m <= occ s m + (if is_enq l m then 1 else 0).
Proof.
  intros (HA & _) HN H. destruct l; cbn [step] in H.
  all: dstep H.
  all: try solve [unfold occ; cbn; lia].
  all: try match goal with
       | E : sp (gens ?s ?g) = _ |- _ => assert (L : g < ngen s) by (apply lt_ngen_of_sp; [auto|congruence])
       | E : rp (gens ?s ?g) = RSignal |- _ => assert (L : g < ngen s) by (destruct (Nat.lt_ge_cases g (ngen s)); auto; rewrite (HN g) in E by lia; discriminate E)
       | E : (?g <? ngen ?s) && _ = true |- _ => assert (L : g < ngen s) by (apply andb_prop in E; destruct E as [E _]; try (apply andb_prop in E; destruct E as [E _]); now apply Nat.ltb_lt in E)
       | E : (?g <? ngen ?s) = true |- _ => assert (L : g < ngen s) by (now apply Nat.ltb_lt in E)
       | E : cur ?s = Some ?g |- _ => assert (L : g < ngen s) by (rewrite E in HA; tauto)
       end.
  all: unfold occ, do_close, w_sp, w_gen, w_gens; cbn [gens ngen sendQ failQ w_closedF w_failQ w_sendQ w_atts w_log w_hist is_enq].
  all: try match goal with L : ?g < ?n |- _ + _ + sumo ?m ?f' ?n <= _ + _ + sumo ?m ?f ?n + _ =>
         let X := fresh "X" in assert (X := sumo_change m f f' g n L);
         let Y := fresh "Y" in assert (Y : forall k, k <> g -> f' k = f k) by (intros k Hk; unfold upd; apply Nat.eqb_neq in Hk; cbn; rewrite ?Hk; reflexivity);
         specialize (X Y); clear Y; set (A := sumo m f' n) in *; set (B := sumo m f n) in * end.
  all: try (unfold upd in X; cbn in X; rewrite ?Nat.eqb_refl in X; cbn in X; unfold gocc, hcnt in X; cbn in X).
  all: repeat match goal with E : sp (gens _ _) = _ |- _ => rewrite E in *; clear E | E : failQ _ = _ |- _ => rewrite E in *; clear E | E : sendQ _ = _ |- _ => rewrite E in *; clear E end.
  all: cbn in *; rewrite ?cnt_app in *; cbn in *.
  all: repeat match goal with |- context [Nat.eqb ?a ?b] => destruct (Nat.eqb a b) | H : context [Nat.eqb ?a ?b] |- _ => destruct (Nat.eqb a b) end.
  all: try lia.
  all: try (rewrite (sumo_ext m (gens s) (fun x => add_late (gens s x) _) (ngen s)); [lia|intros k Hk; unfold gocc; now rewrite al_sp, al_got]).
  - rewrite (sumo_ext m (gens s) (upd (gens s) (ngen s) gen0) (ngen s)).
    + rewrite upd_same. cbn. lia.
    + intros k Hk. rewrite upd_other by lia. reflexivity.
  - rewrite (sumo_ext m (gens s) (upd (gens s) n (set_dead (gens s n))) (ngen s)); [lia|].
    intros k Hk. unfold upd. destruct (Nat.eqb_spec k n); subst; reflexivity.
  - rewrite (sumo_ext m (gens s) (upd (gens s) g (set_peerc (gens s g))) (ngen s)); [lia|].
    intros k Hk. unfold upd. destruct (Nat.eqb_spec k g); subst; reflexivity.
Qed.

Definition InvU (s : st) : Prop := forall m, occ s m <= 1 /\ (~ In m (hist s) -> occ s m = 0).

Lemma InvU_step s l s' : Inv1 s -> Inv0 s -> InvU s -> step true s l = Some s' -> InvU s'.
Proof.
  intros I1 I0 U H m. destruct (U m) as [U1 U2]. pose proof (occ_step s l s' m I1 I0 H) as O.
  assert (HM : forall x, In x (hist s) -> In x (hist s')).
  { intros x. destruct l; cbn [step] in H; dstep H; cbn; auto. rewrite in_app_iff. auto. }
  destruct (is_enq l m) eqn:E.
  - destruct l; cbn in E; try discriminate. apply Nat.eqb_eq in E. subst m0.
    cbn [step] in H. destruct (memn m (lenq s) && negb (memn m (hist s))) eqn:G; [|discriminate]. injection H as <-.
    apply andb_prop in G. destruct G as [_ G]. apply negb_true_iff in G.
    assert (NI : ~ In m (hist s)). { intros X. apply memn_In in X. congruence. }
    specialize (U2 NI). split; [lia|]. cbn. rewrite in_app_iff. intros X. exfalso. apply X. right. now left.
  - split; [lia|]. intros NI. assert (~ In m (hist s)) by auto. specialize (U2 H0). lia.
Qed.


Lemma InvU_init : InvU init.
Proof. intros m. unfold occ, init; cbn. split; auto. Qed.

Lemma InvU_run ls : forall s s', Inv s -> InvU s -> run true s ls = Some s' -> InvU s'.
Proof.
  induction ls as [|l r IH]; cbn [run]; intros s s' I U R. { now injection R as <-. }
  destruct (step true s l) as [s1|] eqn:E; [|discriminate].
  eapply (IH s1); eauto. { eapply Inv_step; eauto. } destruct I as (I1 & _ & I0). eapply InvU_step; eauto.
Qed.

(* AT MOST ONCE: over all connections together a request reaches the peer at most once, and a request that has
   reached a peer is nowhere else in the client (no queue, no send goroutine holds it) *)
Theorem at_most_once ls s m g g' : run true init ls = Some s -> g < ngen s -> g' < ngen s ->
  In m (got (gens s g)) -> In m (got (gens s g')) ->
  g = g' /\ cnt m (got (gens s g)) = 1 /\ ~ In m (sendQ s) /\ ~ In m (failQ s) /\ (forall h, h < ngen s -> holds (sp (gens s h)) <> Some m).
Proof.
  intros R L L' G G'. destruct (InvU_run ls init s Inv_init InvU_init R m) as [U _]. unfold occ in U.
  pose proof (cnt_In _ _ G) as C. pose proof (cnt_In _ _ G') as C'.
  assert (E : g = g').
  { destruct (Nat.eq_dec g g'); auto. pose proof (sumo_ge2 m (gens s) g g' (ngen s) L L' n). unfold gocc in H. lia. }
  subst g'. pose proof (sumo_ge m (gens s) g (ngen s) L) as S1. unfold gocc in S1.
  split; [auto|]. split; [lia|]. split; [|split].
  - intros X. apply cnt_In in X. lia.
  - intros X. apply cnt_In in X. lia.
  - intros h Lh X. destruct (Nat.eq_dec h g) as [->|N].
    + unfold hcnt in S1. rewrite X, Nat.eqb_refl in S1. lia.
    + pose proof (sumo_ge2 m (gens s) h g (ngen s) Lh L N) as S2. unfold gocc, hcnt in S2. rewrite X, Nat.eqb_refl in S2. lia.
Qed.

(* ------------------------------------------------------------------------------------------------ *)
(* the specification machine accepts the log of every run in which the client itself does not give up a
   connection (no TarsClient.Close, no idle close: the harness's scripts contain neither) *)
Lemma memp_In g m l : memp g m l = true <-> In (g, m) l.
Proof.
  unfold memp. rewrite existsb_exists. split.
  - intros ((a & b) & Hy & E). cbn in E. apply andb_prop in E. destruct E as [E1 E2]. apply Nat.eqb_eq in E1, E2. now subst.
  - intros H. exists (g, m). split; auto. cbn. now rewrite !Nat.eqb_refl.
Qed.
Lemma mem2_In m l : mem2 m l = true <-> exists g, In (g, m) l.
Proof.
  unfold mem2. rewrite existsb_exists. split.
  - intros ((a & b) & Hy & E). cbn in E. apply Nat.eqb_eq in E. subst. eauto.
  - intros (g & H). exists (g, m). split; auto. cbn. apply Nat.eqb_refl.
Qed.

Definition Inv4 (s : st) : Prop :=
  (forall m, In m (hist s) -> In m (lenq s)) /\
  (forall g, dead (gens s g) = true -> peerc (gens s g) = true) /\
  (forall g, peerc (gens s g) = true -> In g (lpc s)) /\
  (forall c, cur s = Some c -> S c = ngen s) /\
  ldial s <= ngen s.

Lemma Inv4_step s l s' : Inv0 s -> Inv3 s -> Inv4 s -> client_close l = false -> step true s l = Some s' -> Inv4 s'.
Proof.
  intros HN (_ & _ & HL & _) (H1 & H2 & H3 & H4 & H5) CC H. destruct l; try discriminate CC; cbn [step] in H.
  all: dstep H.
  all: unfold Inv4, do_close, w_sp, w_gen, w_gens, is_cur, isCurrent in *; cbn in *.
  all: repeat split; intros; cbn in *.
  all: unfold upd in *; cbn in *; rewrite ?al_dead, ?al_sp, ?al_done, ?al_peerc, ?al_rp in *.
  all: eqs.
  all: eauto; try lia; try discriminate; try congruence.
  all: try (match goal with E : sp (gens _ ?g) = SFailClose |- _ => destruct (HL g) as [X|X]; [rewrite E; reflexivity|auto|auto] end).
  all: try (match goal with E : _ && (peerc _ || dead _) = true |- _ => apply andb_prop in E; destruct E as [_ E]; apply orb_prop in E; destruct E; auto end).
  all: try (match goal with E : _ && _ && memn ?g _ = true |- In ?g _ => apply andb_prop in E; destruct E as [_ E]; now apply memn_In end).
  all: try (match goal with E : memn ?m _ && _ = true, H : In _ (_ ++ [?m]) |- _ => apply andb_prop in E; destruct E as [E _]; apply memn_In in E; apply in_app_or in H; destruct H as [H|[H|[]]]; subst; auto end).
  all: try (rewrite in_app_iff; auto).
  apply Nat.ltb_lt in Heqb. lia.
Qed.

Lemma amo_state s m g g' : InvU s -> g < ngen s -> g' < ngen s -> In m (got (gens s g)) -> In m (got (gens s g')) -> g = g'.
Proof.
  intros U L L' G G'. destruct (U m) as [U1 _]. unfold occ in U1.
  pose proof (cnt_In _ _ G) as C. pose proof (cnt_In _ _ G') as C'.
  destruct (Nat.eq_dec g g'); auto. pose proof (sumo_ge2 m (gens s) g g' (ngen s) L L' n). unfold gocc in H. lia.
Qed.

(* every arrival the harness has logged is an arrival *)
Definition Inv5 (s : st) : Prop := forall g id, In (g, id) (lsrv s) -> g < ngen s /\ In id (got (gens s g)).

Lemma Inv5_step s l s' : Inv0 s -> Inv5 s -> step true s l = Some s' -> Inv5 s'.
Proof.
  intros HN I5 H. destruct l; cbn [step] in H.
  all: dstep H.
  all: unfold Inv5, do_close, w_sp, w_gen, w_gens in *; cbn; intros g0 id0 X.
  all: try (apply in_app_or in X; destruct X as [X|[X|[]]]; [|injection X as <- <-]).
  all: try (destruct (I5 g0 id0 X) as [A B]).
  all: unfold upd; cbn; rewrite ?al_got.
  all: repeat match goal with |- context [Nat.eqb ?a ?b] => destruct (Nat.eqb_spec a b); subst; cbn end.
  all: try (split; [lia|]); rewrite ?in_app_iff; auto; try lia.
  apply andb_prop in Heqb. destruct Heqb as [Heqb _]. apply andb_prop in Heqb. destruct Heqb as [A B].
  apply Nat.ltb_lt in A. apply memn_In in B. auto.
Qed.

Definition Sim (s : st) (k : chk) : Prop :=
  k_dialed k = ldial s /\ k_pclosed k = lpc s /\ k_enq k = lenq s /\ k_srvs k = lsrv s /\
  (forall g, In g (k_obs k) -> dead (gens s g) = true) /\
  (forall g id, In (g, id) (k_late k) -> dead (gens s g) = true /\ (In id (hist s) -> In id (late (gens s g)))) /\
  (forall g m, sp (gens s g) = SWrite m -> In (g, m) (k_writes k)) /\
  (forall g m, In m (got (gens s g)) -> In (g, m) (k_writes k)).

Definition logs (l : label) : bool :=
  match l with LSHook _ | LLogEnq _ | LLogPClose _ | LLogObs _ | LLogSrv _ _ | LLogReply _ | LLogFail _ | LLogDial _ | LLogCliClose _ | LLogCFlag _ => true | _ => false end.

Lemma Sim_silent s l s' k : Inv0 s -> Sim s k -> logs l = false -> step true s l = Some s' -> log s' = log s /\ Sim s' k.
Proof.
  intros HN (S1 & S2 & S3 & S4 & S5 & S6 & S7 & S8) LG H.
  assert (DM : forall g, dead (gens s g) = true -> dead (gens s' g) = true) by (intros; eapply dead_mono_step; eauto).
  assert (LM : forall g m, In m (late (gens s g)) -> In m (late (gens s' g))) by (intros; eapply late_mono_step; eauto).
  destruct l; try discriminate LG; cbn [step] in H.
  2: { (* LEnq *)
    destruct (memn m (lenq s) && negb (memn m (hist s))) eqn:E; [|discriminate]. injection H as <-.
    split; [reflexivity|]. unfold Sim; cbn.
    split; [exact S1|]. split; [exact S2|]. split; [exact S3|]. split; [exact S4|].
    split. { intros g X. rewrite al_dead. auto. }
    split. { intros g id X. destruct (S6 g id X) as [A B]. rewrite al_dead, al_late, A. split; auto. rewrite !in_app_iff. cbn. intros [Y|[Y|[]]]; auto. }
    split. { intros g m0. rewrite al_sp. apply S7. } { intros g m0. rewrite al_got. apply S8. } }
  all: dstep H.
  all: split; [reflexivity|].
  all: unfold Sim; cbn [ldial lpc lenq lsrv hist w_sp w_gen w_gens w_closedF w_sendQ w_failQ w_hist w_atts do_close].
  all: split; [exact S1|]; split; [exact S2|]; split; [exact S3|]; split; [exact S4|].
  all: split; [intros g0 X; apply DM; auto|].
  all: split; [intros g0 id X; destruct (S6 g0 id X) as [A B]; split; [apply DM; auto|intros Hh; apply LM, B, Hh]|].
  all: cbn; unfold upd; cbn.
  all: split; intros g0 m0.
  all: eqs.
  all: eauto; try discriminate; try congruence.
  - intros [].
  - rewrite in_app_iff. intros [X|[X|[]]]; subst; auto.
Qed.

Lemma chk_run_app es : forall k e, chk_run k (es ++ [e]) = match chk_run k es with Some k' => chk_step k' e | None => None end.
Proof. induction es as [|x r IH]; cbn; intros. - now destruct (chk_step k e). - destruct (chk_step k x); auto. Qed.

Lemma Sim_log s l s' k : InvX s -> Inv4 s -> InvU s -> Inv5 s -> Sim s k -> logs l = true -> step true s l = Some s' ->
  exists e k', log s' = log s ++ [e] /\ chk_step k e = Some k' /\ Sim s' k'.
Proof.
  intros ((I1 & I2 & HN) & I3) (J1 & J2 & J3 & J4 & J5) IU I5 (S1 & S2 & S3 & S4 & S5 & S6 & S7 & S8) LG H.
  destruct l; try discriminate LG; cbn [step] in H.
  all: dstep H.
  all: eexists; eexists; split; [reflexivity|].
  - (* LSHook *)
    destruct I1 as (HA & HC). destruct I2 as (_ & HE & _ & _ & _ & HH & _).
    assert (Hh : In m (hist s)). { apply (HH g). rewrite Heqs0. reflexivity. }
    assert (E1 : memn m (k_enq k) = true). { rewrite S3. apply memn_In. auto. }
    assert (E2 : memp g m (k_late k) = false).
    { destruct (memp g m (k_late k)) eqn:E; auto. apply memp_In in E. destruct (S6 g m E) as [_ B].
      exfalso. apply (HE g m); [rewrite Heqs0; reflexivity|auto]. }
    assert (E3 : negb (dead (gens s g) || negb (is_cur s g)) || memn g (k_pclosed k) = true).
    { destruct (dead (gens s g) || negb (is_cur s g)) eqn:E; [|reflexivity]. cbn. rewrite S2. apply memn_In. apply J3, J2.
      apply orb_prop in E. destruct E as [E|E]; auto. apply negb_true_iff in E.
      apply HC. - apply lt_ngen_of_sp; auto. congruence.
      - unfold is_cur in E. destruct (cur s); [|congruence]. intros [= ->]. now rewrite Nat.eqb_refl in E. }
    cbn [chk_step]. rewrite E1, E2, E3. cbn. split; [reflexivity|].
    unfold Sim; cbn. split; [exact S1|]. split; [exact S2|]. split; [exact S3|]. split; [exact S4|].
    unfold upd.
    split. { intros g0 X. destruct (g0 =? g) eqn:Q; cbn; auto. apply Nat.eqb_eq in Q. subst. auto. }
    split. { intros g0 id X. destruct (S6 g0 id X) as [A B]. destruct (g0 =? g) eqn:Q; cbn; auto. apply Nat.eqb_eq in Q. subst. auto. }
    split. { intros g0 m0. rewrite in_app_iff. destruct (g0 =? g) eqn:Q; cbn. - apply Nat.eqb_eq in Q. subst. intros [= ->]. right. now left. - intros X. left. auto. }
    { intros g0 m0. rewrite in_app_iff. destruct (g0 =? g) eqn:Q; cbn. - apply Nat.eqb_eq in Q. subst. intros X. left. auto. - intros X. left. auto. }
  - (* LLogEnq *)
    cbn [chk_step]. rewrite S3, Heqb. split; [reflexivity|].
    unfold Sim; cbn. split; [exact S1|]. split; [exact S2|]. split; [rewrite ?S3; reflexivity|]. split; [exact S4|].
    split; [exact S5|]. split; [|split; [exact S7|exact S8]].
    intros g id0. rewrite in_app_iff, in_map_iff. intros [X|(g' & [= <- <-] & X)]; [apply S6; auto|].
    split; [apply S5; auto|]. intros Hh. apply J1 in Hh. apply memn_In in Hh. congruence.
  - (* LLogPClose *)
    apply andb_prop in Heqb. destruct Heqb as [_ Heqb]. apply negb_true_iff in Heqb.
    cbn [chk_step]. rewrite S2, Heqb. split; [reflexivity|].
    unfold Sim; cbn. split; [exact S1|]. split; [rewrite ?S2; reflexivity|]. split; [exact S3|]. split; [exact S4|]. auto.
  - (* LLogObs *)
    apply andb_prop in Heqb. destruct Heqb as [C1 C2]. destruct I1 as (HA & _). unfold is_cur in C2.
    destruct (cur s) as [c|] eqn:EC; [|discriminate]. apply Nat.eqb_eq in C2. subst c. destruct HA as [HA _].
    assert (D : dead (gens s g) = true) by congruence.
    assert (E1 : memn g (k_pclosed k) = true). { rewrite S2. apply memn_In. auto. }
    cbn [chk_step]. rewrite E1. split; [reflexivity|].
    unfold Sim; cbn. split; [exact S1|]. split; [exact S2|]. split; [exact S3|]. split; [exact S4|].
    split; [|auto]. intros g0. destruct (memn g (k_obs k)); [apply S5|]. rewrite in_app_iff. intros [X|[<-|[]]]; auto.
  - (* LLogSrv *)
    apply andb_prop in Heqb. destruct Heqb as [Heqb NL]. apply andb_prop in Heqb. destruct Heqb as [LT G].
    apply memn_In in G. apply Nat.ltb_lt in LT. apply negb_true_iff in NL.
    assert (E1 : memp g id (k_writes k) = true). { apply memp_In. auto. }
    assert (E2 : mem2 id (k_srvs k) = false).
    { destruct (mem2 id (k_srvs k)) eqn:E; auto. apply mem2_In in E. destruct E as (g' & E). rewrite S4 in E.
      destruct (I5 g' id E) as [L' G']. assert (g' = g) by (eapply amo_state; eauto). subst g'.
      apply memp_In in E. congruence. }
    cbn [chk_step]. rewrite E1, E2. split; [reflexivity|].
    unfold Sim; cbn. split; [exact S1|]. split; [exact S2|]. split; [exact S3|]. split; [rewrite S4; reflexivity|]. auto.
  - (* LLogReply *)
    cbn [chk_step]. rewrite S4, Heqb. split; [reflexivity|].
    unfold Sim; cbn. rewrite <- S4. auto 10.
  - (* LLogFail *)
    cbn [chk_step]. rewrite S3, Heqb. split; [reflexivity|].
    unfold Sim; cbn. rewrite <- S3. auto 10.
  - (* LLogDial *)
    apply andb_prop in Heqb. destruct Heqb as [G1 G2]. apply Nat.eqb_eq in G1. apply Nat.ltb_lt in G2. subst g.
    assert (E1 : (match ldial s with 0 => true | S p => memn p (k_pclosed k) end) = true).
    { destruct (ldial s) as [|p] eqn:EL; auto. rewrite S2. apply memn_In, J3, J2.
      destruct I1 as (HA & HC). apply HC; [lia|]. intros EC. apply J4 in EC. lia. }
    cbn [chk_step]. rewrite S1, Nat.eqb_refl, E1. split; [reflexivity|].
    unfold Sim; cbn. auto 10.
  - (* LLogCliClose *)
    apply andb_prop in Heqb. destruct Heqb as [_ D].
    assert (E1 : memn g (k_pclosed k) = true). { rewrite S2. apply memn_In. auto. }
    cbn [chk_step]. rewrite E1. split; [reflexivity|]. unfold Sim; cbn. auto 10.
  - (* LLogCFlag *)
    assert (E1 : negb (closedF s) || memn g (k_pclosed k) = true).
    { destruct (closedF s) eqn:C; [|reflexivity]. cbn. rewrite S2. apply memn_In, J3, J2.
      destruct I1 as (HA & _). unfold is_cur in Heqb. destruct (cur s) as [c|]; [|discriminate].
      apply Nat.eqb_eq in Heqb. subst c. destruct HA as [HA _]. congruence. }
    cbn [chk_step]. rewrite E1. split; [reflexivity|]. unfold Sim; cbn. auto 10.
Qed.

Lemma Inv4_init : Inv4 init.
Proof. unfold Inv4, init; cbn. repeat split; intros; try discriminate; try contradiction; auto. Qed.
Lemma Sim_init : Sim init chk0.
Proof. unfold Sim, init, chk0; cbn. repeat split; intros; try discriminate; try contradiction; auto. Qed.

Lemma Inv5_init : Inv5 init.
Proof. intros g id []. Qed.

Lemma spec_sim ls : forall s k s', InvX s -> Inv4 s -> InvU s -> Inv5 s -> Sim s k -> chk_run chk0 (log s) = Some k ->
  Forall (fun l => client_close l = false) ls -> run true s ls = Some s' ->
  exists k', chk_run chk0 (log s') = Some k' /\ Sim s' k'.
Proof.
  induction ls as [|l r IH]; cbn [run]; intros s k s' I J U V S K F R.
  - injection R as <-. eauto.
  - destruct (step true s l) as [s1|] eqn:E; [|discriminate]. inversion F as [|? ? Fl Fr]; subst.
    assert (I' : InvX s1) by (eapply InvX_step; eauto).
    assert (J' : Inv4 s1). { destruct I as ((_ & _ & HN) & I3). eapply Inv4_step; eauto. }
    assert (U' : InvU s1). { destruct I as ((I1 & _ & HN) & _). eapply InvU_step; eauto. }
    assert (V' : Inv5 s1). { destruct I as ((_ & _ & HN) & _). eapply Inv5_step; eauto. }
    destruct (logs l) eqn:LG.
    + destruct (Sim_log s l s1 k I J U V S LG E) as (e & k1 & L1 & C1 & S1).
      eapply (IH s1 k1); eauto. rewrite L1, chk_run_app, K. exact C1.
    + destruct I as ((_ & _ & HN) & _). destruct (Sim_silent s l s1 k HN S LG E) as (L1 & S1).
      eapply (IH s1 k); eauto. now rewrite L1.
Qed.

(* every log the model can produce (all schedules; no TarsClient.Close, no idle close) is accepted *)
Theorem spec_machine_sound ls s : run true init ls = Some s -> Forall (fun l => client_close l = false) ls ->
  c11_accepts (log s) = true.
Proof.
  intros R F. destruct (spec_sim ls init chk0 s InvX_init Inv4_init InvU_init Inv5_init Sim_init eq_refl F R) as (k & K & _).
  unfold c11_accepts. now rewrite K.
Qed.

(* ------------------------------------------------------------------------------------------------ *)
(* every schedule of the client's own goroutines terminates, and when nothing more can be done every request
   that was pending has reached the peer over the healthy current connection *)
Definition spot (p : spc) : nat :=
  match p with
  | STop => 13 | SPollFail => 12 | SBlock => 11 | STick => 15 | SIdle => 14
  | SCheck _ => 16 | SHook _ => 15 | SWrite _ => 14 | SRequeue _ => 8 | SFailPush _ => 13 | SFailClose => 1 | SExit => 0
  end.
Definition rpot (r : rpc) : nat := match r with RRun => 2 | RSignal => 1 | RExit => 0 end.
Definition gpot (x : gen) : nat := spot (sp x) + rpot (rp x).
Fixpoint sumg (f : nat -> gen) (n : nat) : nat := match n with 0 => 0 | S k => sumg f k + gpot (f k) end.
Definition mu (s : st) : nat := sumg (gens s) (ngen s) + 6 * (length (sendQ s) + length (failQ s)).

Lemma sumg_ext f f' n : (forall k, k < n -> f' k = f k) -> sumg f' n = sumg f n.
Proof. induction n as [|n IH]; cbn; intros H; auto. rewrite IH, H; auto. Qed.

Lemma sumg_change f f' g n : g < n -> (forall k, k <> g -> f' k = f k) -> sumg f' n + gpot (f g) = sumg f n + gpot (f' g).
Proof.
  induction n as [|n IH]; intros L H; [lia|]. cbn. destruct (Nat.eq_dec g n) as [->|N].
  - rewrite (sumg_ext f f' n); [lia|]. intros k Hk. apply H. lia.
  - rewrite (H n) by auto. assert (g < n) by lia. specialize (IH H0 H). lia.
Qed.

Lemma mu_step s l s' : Inv0 s -> internal l = true -> step true s l = Some s' -> mu s' < mu s.
Proof.
  intros HN IL H. destruct l; try discriminate IL; cbn [step] in H.
  all: dstep H.
  all: match goal with
       | E : sp (gens ?s ?g) = _ |- _ => assert (L : g < ngen s) by (apply lt_ngen_of_sp; [auto|congruence])
       | E : rp (gens ?s ?g) = RSignal |- _ => assert (L : g < ngen s) by (destruct (Nat.lt_ge_cases g (ngen s)); auto; rewrite (HN g) in E by lia; discriminate E)
       | E : (?g <? ngen ?s) && _ = true |- _ => assert (L : g < ngen s) by (apply andb_prop in E; destruct E as [E _]; now apply Nat.ltb_lt in E)
       | E : (?g <? ngen ?s) = true |- _ => assert (L : g < ngen s) by (now apply Nat.ltb_lt in E)
       end.
  all: unfold mu, do_close, w_sp, w_gen, w_gens; cbn [gens ngen sendQ failQ w_closedF w_failQ w_sendQ w_atts w_log].
  all: match goal with L : ?g < ?n |- sumg ?f' ?n + _ < sumg ?f ?n + _ =>
         let X := fresh "X" in assert (X := sumg_change f f' g n L);
         let Y := fresh "Y" in assert (Y : forall k, k <> g -> f' k = f k) by (intros k Hk; unfold upd; apply Nat.eqb_neq in Hk; cbn; rewrite ?Hk; reflexivity);
         specialize (X Y); clear Y; set (A := sumg f' n) in *; set (B := sumg f n) in * end.
  all: unfold upd in X; cbn in X; rewrite ?Nat.eqb_refl in X; cbn in X; unfold gpot in X; cbn in X.
  all: repeat match goal with E : sp (gens _ _) = _ |- _ => rewrite E in *; clear E | E : rp (gens _ _) = _ |- _ => rewrite E in *; clear E | E : failQ _ = _ |- _ => rewrite E in *; clear E | E : sendQ _ = _ |- _ => rewrite E in *; clear E end.
  all: cbn in *; try lia.
Qed.

Lemma mu_run ls : forall s s', Inv s -> Forall (fun l => internal l = true) ls -> run true s ls = Some s' -> length ls + mu s' <= mu s.
Proof.
  induction ls as [|l r IH]; cbn [run]; intros s s' I F R.
  - injection R as <-. cbn. lia.
  - destruct (step true s l) as [s1|] eqn:E; [|discriminate]. inversion F as [|? ? Fl Fr]; subst.
    pose proof (Inv_step _ _ _ I E) as I1. specialize (IH s1 s' I1 Fr R).
    destruct I as (_ & _ & HN). pose proof (mu_step s l s1 HN Fl E). cbn. lia.
Qed.

Lemma healthy_internal_step s l s' c : InvX s -> healthy s c -> internal l = true -> step true s l = Some s' -> healthy s' c.
Proof.
  intros (_ & (_ & _ & HL & _)) (H1 & H2 & H3 & H4) IL H. destruct l; try discriminate IL; cbn [step] in H.
  all: dstep H.
  all: unfold healthy, do_close, w_sp, w_gen, w_gens, is_cur; cbn; rewrite ?H1; unfold upd; cbn.
  all: repeat match goal with |- context [Nat.eqb ?a ?b] => destruct (Nat.eqb_spec a b); subst; cbn end.
  all: repeat split; auto; try congruence.
  all: exfalso.
  all: try (rewrite H3, H4 in Heqb; cbn in Heqb; rewrite andb_false_r in Heqb; discriminate Heqb).
  all: try (match goal with E : sp (gens _ ?g) = SFailClose |- _ => destruct (HL g) as [X|X]; [rewrite E; reflexivity|congruence|congruence] end).
Qed.

Definition quiescent (s : st) : Prop := forall l, internal l = true -> step true s l = None.

(* in a state where none of the client's goroutines can move, nothing is pending *)
Lemma quiescent_none_pending s c m : InvX s -> healthy s c -> quiescent s -> ~ pending s m.
Proof.
  intros (((HA & HC) & _ & HN) & (HD & _ & HL & HQ)) H Q PE.
  pose proof (healthy_current _ _ H) as CU. destruct H as (H1 & H2 & H3 & H4).
  assert (L : c < ngen s). { rewrite H1 in HA. tauto. }
  assert (D : done (gens s c) = false). { destruct (done (gens s c)) eqn:E; auto. apply HD in E. congruence. }
  assert (ST : forall g, g <> c -> sp (gens s g) <> STop -> dead (gens s g) = true /\ isCurrent s g = false).
  { intros g N P. split.
    - apply HC; [apply lt_ngen_of_sp; auto|congruence].
    - unfold isCurrent, is_cur. rewrite H1. apply Nat.eqb_neq in N. rewrite Nat.eqb_sym, N. apply andb_false_r. }
  apply Nat.ltb_lt in L.
  destruct (sp (gens s c)) eqn:P.
  - specialize (Q (LSTop c) eq_refl). cbn in Q. rewrite L, P in Q. discriminate.
  - specialize (Q (LSPoll c) eq_refl). cbn in Q. rewrite P in Q. destruct (failQ s); discriminate.
  - (* SBlock *)
    destruct (failQ s) as [|x r] eqn:EF.
    2: { specialize (Q (LSBlkFail c) eq_refl). cbn in Q. rewrite P, EF in Q. discriminate. }
    destruct (sendQ s) as [|y r] eqn:ES.
    2: { specialize (Q (LSBlkQueue c) eq_refl). cbn in Q. rewrite P, ES in Q. discriminate. }
    unfold pending in PE. rewrite ES, EF in PE. destruct PE as [[]|[[]|(g & X)]].
    destruct (Nat.eq_dec g c) as [->|N]. { rewrite P in X. discriminate. }
    destruct (sp (gens s g)) eqn:PG; cbn in X; try discriminate; injection X as ->.
    + specialize (Q (LSCheck g) eq_refl). cbn in Q. rewrite PG in Q. discriminate.
    + specialize (Q (LSHook g) eq_refl). cbn in Q. rewrite PG in Q. discriminate.
    + destruct (ST g N) as [DG _]; [congruence|]. specialize (Q (LSWriteErr g) eq_refl). cbn in Q. rewrite PG, DG in Q. discriminate.
    + specialize (Q (LSRequeue g) eq_refl). cbn in Q. rewrite PG, EF in Q. discriminate.
    + specialize (Q (LSFailPush g) eq_refl). cbn in Q. rewrite PG, EF in Q. discriminate.
  - specialize (Q (LSTick c) eq_refl). cbn in Q. rewrite P in Q. discriminate.
  - specialize (Q (LSIdleNo c) eq_refl). cbn in Q. rewrite P in Q. discriminate.
  - specialize (Q (LSCheck c) eq_refl). cbn in Q. rewrite P in Q. discriminate.
  - specialize (Q (LSHook c) eq_refl). cbn in Q. rewrite P in Q. discriminate.
  - specialize (Q (LSWriteOk c) eq_refl). cbn in Q. rewrite P, H3 in Q. discriminate.
  - destruct (HL c); [rewrite P; reflexivity|congruence|congruence].
  - destruct (HL c); [rewrite P; reflexivity|congruence|congruence].
  - destruct (HL c); [rewrite P; reflexivity|congruence|congruence].
  - destruct (HL c); [rewrite P; reflexivity|congruence|congruence].
Qed.


(* a pending request stays pending until it has reached the peer over the current connection *)
Lemma keep_step s l s' c m : InvX s -> healthy s c -> internal l = true -> step true s l = Some s' ->
  pending s m \/ In m (got (gens s c)) -> pending s' m \/ In m (got (gens s' c)).
Proof.
  intros (((HA & HC) & _ & HN) & _) (H1 & H2 & H3 & H4) IL H PE.
  assert (OC : forall g, sp (gens s g) <> STop -> dead (gens s g) = false -> g = c).
  { intros g P D. destruct (Nat.eq_dec g c); auto. rewrite HC in D; [discriminate|apply lt_ngen_of_sp; auto|congruence]. }
  destruct l; try discriminate IL; cbn [step] in H.
  all: dstep H.
  all: unfold pending, do_close, w_sp, w_gen, w_gens in *; cbn; unfold upd; cbn.
  all: destruct PE as [[PE|[PE|(g0 & PE)]]|PE].
  all: try (match goal with E : failQ _ = _, P : In _ (failQ _) |- _ => rewrite E in P; cbn in P end).
  all: try (match goal with E : sendQ _ = _, P : In _ (sendQ _) |- _ => rewrite E in P; cbn in P end).
  all: try contradiction.
  (* the request is where it was *)
  all: try solve [left; left; assumption | left; right; left; assumption].
  all: try solve [right; repeat match goal with |- context [Nat.eqb ?a ?b] => destruct (Nat.eqb_spec a b); subst; cbn end; rewrite ?H4; cbn; rewrite ?in_app_iff; auto].
  all: try solve [left; right; right; exists g0; destruct (Nat.eqb_spec g0 g); subst; cbn; auto; match goal with E : sp (gens _ _) = _ |- _ => rewrite E in PE; cbn in PE; try discriminate PE; try (destruct (isCurrent _ _)); cbn; auto end].
  (* taken from a queue by g *)
  all: try solve [destruct PE as [<-|PE]; [left; right; right; exists g; rewrite Nat.eqb_refl; reflexivity | (left; right; left; assumption) || (left; left; assumption)]].
  - (* LRClose *) left; right; right. exists g0. destruct (Nat.eqb_spec g0 g); subst; cbn; rewrite ?Nat.eqb_refl; cbn; auto.
  - (* LSRequeue *) destruct (Nat.eqb_spec g0 g).
    + subst. rewrite Heqs0 in PE. cbn in PE. injection PE as ->. left; right; left; left. reflexivity.
    + left; right; right. exists g0. apply Nat.eqb_neq in n. rewrite n. exact PE.
  - (* LSWriteOk, peer closed: not the healthy connection *)
    exfalso. cbn in Heqb0. assert (g = c) by (apply OC; congruence). subst. congruence.
  - (* LSWriteOk *) destruct (Nat.eqb_spec g0 g).
    + subst. rewrite Heqs0 in PE. cbn in PE. injection PE as ->. assert (g = c) by (apply OC; congruence). subst.
      right. rewrite Nat.eqb_refl. cbn. rewrite in_app_iff. right. now left.
    + left; right; right. exists g0. apply Nat.eqb_neq in n. rewrite n. exact PE.
  - (* LSFailPush *) destruct (Nat.eqb_spec g0 g).
    + subst. rewrite Heqs0 in PE. cbn in PE. injection PE as ->. left; right; left; left. reflexivity.
    + left; right; right. exists g0. apply Nat.eqb_neq in n. rewrite n. exact PE.
Qed.

Lemma keep_run ls : forall s s' c m, InvX s -> healthy s c -> Forall (fun l => internal l = true) ls -> run true s ls = Some s' ->
  pending s m \/ In m (got (gens s c)) -> healthy s' c /\ InvX s' /\ (pending s' m \/ In m (got (gens s' c))).
Proof.
  induction ls as [|l r IH]; cbn [run]; intros s s' c m I H F R PE.
  - injection R as <-. auto.
  - destruct (step true s l) as [s1|] eqn:E; [|discriminate]. inversion F as [|? ? Fl Fr]; subst.
    eapply (IH s1); eauto.
    + eapply InvX_step; eauto.
    + eapply healthy_internal_step; eauto.
    + eapply keep_step; eauto.
Qed.

(* INEVITABILITY: from a reachable state with a healthy current connection and a pending request, let the client's
   goroutines run under ANY schedule (no further call, peer action or ticker).  (a) Every such run has at most
   [mu s] steps; (b) when it has come to a state in which no goroutine can move, the request has reached the
   peer over the current connection, which is still healthy. *)
Theorem delivery_inevitable ls s c m ls' s' : run true init ls = Some s ->
  cur s = Some c -> dead (gens s c) = false -> peerc (gens s c) = false -> pending s m ->
  Forall (fun l => internal l = true) ls' -> run true s ls' = Some s' ->
  length ls' + mu s' <= mu s /\
  (quiescent s' -> In m (got (gens s' c)) /\ cur s' = Some c /\ dead (gens s' c) = false /\ peerc (gens s' c) = false).
Proof.
  intros R C D P PE F R'.
  assert (I : InvX s). { eapply InvX_run; [apply InvX_init|exact R]. }
  assert (H : healthy s c).
  { unfold healthy. repeat split; auto. destruct I as (((HA & _) & _) & _). rewrite C in HA. destruct HA. congruence. }
  split. { eapply mu_run; eauto. apply I. }
  intros Q. destruct (keep_run ls' s s' c m I H F R' (or_introl PE)) as (H' & I' & [PE'|G]).
  - exfalso. eapply quiescent_none_pending; eauto.
  - destruct H' as (A & _ & B & B'). auto.
Qed.


(* ------------------------------------------------------------------------------------------------ *)
(* as long as the client itself does not give up a connection (no TarsClient.Close, no idle close) it only closes
   connections the peer has closed (or announced to close: the harness logs both as EPeerClose) *)
Lemma Inv4_run ls : forall s s', InvX s -> Inv4 s -> Forall (fun l => client_close l = false) ls -> run true s ls = Some s' -> Inv4 s'.
Proof.
  induction ls as [|l r IH]; cbn [run]; intros s s' I J F R. { now injection R as <-. }
  destruct (step true s l) as [s1|] eqn:E; [|discriminate]. inversion F as [|? ? Fl Fr]; subst.
  eapply (IH s1); eauto. { eapply InvX_step; eauto. } destruct I as ((_ & _ & HN) & I3). eapply Inv4_step; eauto.
Qed.

Theorem dead_only_after_peer_close ls s g : run true init ls = Some s -> Forall (fun l => client_close l = false) ls ->
  dead (gens s g) = true -> peerc (gens s g) = true /\ In g (lpc s).
Proof.
  intros R F D. destruct (Inv4_run ls init s InvX_init Inv4_init F R) as (_ & J2 & J3 & _). split; auto.
Qed.

(* ------------------------------------------------------------------------------------------------ *)
(* failed dial (endpoint down): the client stays closed, so the next call dials again *)
Theorem failed_dial_leaves_closed s s' : step true s LReconnectFail = Some s' -> s' = s /\ closedF s' = true.
Proof. cbn. destruct (closedF s) eqn:C; [|discriminate]. intros [= <-]. auto. Qed.

Theorem call_after_failed_dial ls s s1 m s2 : run true init ls = Some s -> step true s LReconnectFail = Some s1 ->
  run true s1 [LReconnect; LEnq m] = Some s2 ->
  cur s2 = Some (ngen s) /\ closedF s2 = false /\
  exists s', reach_int s2 s' /\ cur s' = Some (ngen s) /\ dead (gens s' (ngen s)) = false /\ In m (got (gens s' (ngen s))).
Proof.
  intros R F R2. destruct (failed_dial_leaves_closed _ _ F) as [-> C]. eapply call_after_known_close; eauto.
Qed.

(* the seeded variant C11-m3 (flag cleared before the dial): after the server closed the connection and one dial
   failed, the next call does not dial: its request sits in the send queue, the flag says open, there is no
   connection and every goroutine of the client has left *)
Definition sched_down : list label := [LReconnect; LLogPClose 0; LPeerClose 0; LRClose 0; LRSignal 0; LSTop 0].

Lemma m3_refuted : exists s0 s2, run true init sched_down = Some s0 /\ closedF s0 = true /\
  run true (dial_fail_m3 s0) [LReconnect; LLogEnq 1; LEnq 1] = Some s2 /\
  closedF s2 = false /\ cur s2 = None /\ ngen s2 = 1 /\ sendQ s2 = [1] /\
  sp (gens s2 0) = SExit /\ rp (gens s2 0) = RExit /\ got (gens s2 0) = [].
Proof. eexists. eexists. split; [vm_compute; reflexivity|]. split; [reflexivity|]. split; [vm_compute; reflexivity|]. cbn. repeat split. Qed.

Lemma failed_dial_example : exists s0 s1 s2, run true init sched_down = Some s0 /\ step true s0 LReconnectFail = Some s1 /\
  run true s1 [LReconnect; LLogEnq 1; LEnq 1; LSTop 1; LSPoll 1; LSBlkQueue 1; LSCheck 1; LSHook 1; LSWriteOk 1] = Some s2 /\
  cur s2 = Some 1 /\ got (gens s2 1) = [1] /\ c11_accepts (log s2) = true.
Proof. eexists. eexists. eexists. split; [vm_compute; reflexivity|]. split; [vm_compute; reflexivity|]. split; [vm_compute; reflexivity|]. vm_compute. repeat split. Qed.

(* ------------------------------------------------------------------------------------------------ *)
(* connection.close is atomic with respect to the swap of the current connection: the identity test and the
   write of the flag happen in ONE step (under connLock, which ReConnect holds for the whole dial), so the test
   is decided on the state in which the flag is written *)
Theorem close_atomic s l s' g : step true s l = Some s' -> closes l = Some g ->
  closedF s' = (if is_cur s g then true else closedF s) /\ cur s' = cur s.
Proof.
  intros H CL. destruct l; cbn in CL; try discriminate; injection CL as ->; cbn [step] in H.
  all: dstep H.
  all: unfold do_close, w_sp, w_gen, w_gens; cbn; destruct (is_cur s g); auto.
Qed.

(* the seeded variant C11-m11 (test before the lock, flag after it): the loss of connection 0 is reported a second
   time while the re-dial is in progress; the test sees 0 still current, the flag lands on the new connection 1 *)
Lemma m11_refuted : exists s0 s1, run true init [LReconnect; LLogPClose 0; LPeerClose 0; LRClose 0] = Some s0 /\
  close_decide_m11 s0 0 = true /\ step true s0 LReconnect = Some s1 /\
  let s2 := close_commit_m11 s1 0 in
  closedF s2 = true /\ cur s2 = Some 1 /\ dead (gens s2 1) = false /\ peerc (gens s2 1) = false /\
  (* whereas the atomic close of the model, taken in the same state, leaves the new connection alone *)
  closedF (do_close true s1 0) = false.
Proof. eexists. eexists. split; [vm_compute; reflexivity|]. split; [reflexivity|]. split; [vm_compute; reflexivity|]. cbn. repeat split. Qed.
