(* C11 — proofs about the client connection model. *)
From Coq Require Import List Arith Bool Lia NArith.
From TarsV Require Import Conc.ClientConn.
Import ListNotations.

(* the pinned code: the stale send goroutine takes the request of the next call, writes it to the connection
   the client has already closed, and its close marks the new, healthy connection closed *)
Definition sched_defect : list label :=
  [LLogEnq 0; LReconnect; LEnq 0; LSTop 0; LSPoll 0; LSBlkQueue 0; LSHook 0; LSWriteOk 0; LSTop 0; LSPoll 0;
   LLogPClose 0; LPeerClose 0; LRClose 0; LRSignal 0;
   LLogEnq 1; LReconnect; LEnq 1; LSTop 1; LSPoll 1;
   LSBlkQueue 0; LSHook 0; LSWriteErr 0; LSFailPush 0; LSFailClose 0;
   LSBlkTick 1; LSTick 1].
