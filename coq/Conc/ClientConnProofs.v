(* C11 — proofs about the client connection model (Conc/ClientConn.v), repaired code ([fixed = true]) unless
   stated otherwise.  Invariants by induction over all label sequences. *)
From Coq Require Import List Arith Bool Lia NArith.
From TarsV Require Import Conc.ClientConn.
Import ListNotations.
Local Arguments Nat.ltb : simpl never.
Local Arguments Nat.leb : simpl never.

Lemma al_dead x m : dead (add_late x m) = dead x. Proof. unfold add_late. now destruct (dead x) eqn:E. Qed.
Lemma al_sp x m : sp (add_late x m) = sp x. Proof. unfold add_late. now destruct (dead x). Qed.
Lemma al_rp x m : rp (add_late x m) = rp x. Proof. unfold add_late. now destruct (dead x). Qed.
Lemma al_peerc x m : peerc (add_late x m) = peerc x. Proof. unfold add_late. now destruct (dead x). Qed.
Lemma al_done x m : done (add_late x m) = done x. Proof. unfold add_late. now destruct (dead x). Qed.
Lemma al_got x m : got (add_late x m) = got x. Proof. unfold add_late. now destruct (dead x). Qed.

Definition Inv1 (s : st) : Prop :=
  match cur s with
  | None => closedF s = true /\ ngen s = 0
  | Some c => closedF s = dead (gens s c) /\ c < ngen s
  end /\
  (forall g, g < ngen s -> cur s <> Some g -> dead (gens s g) = true).

Ltac dstep H :=
  repeat match type of H with
  | context [match ?x with _ => _ end] => destruct x eqn:?; try discriminate H
  end; try (injection H as <-).

Ltac eqs := repeat match goal with
       | |- context [Nat.eqb ?a ?b] => destruct (Nat.eqb_spec a b); subst; cbn in *
       | H : context [Nat.eqb ?a ?b] |- _ => destruct (Nat.eqb_spec a b); subst; cbn in *
       end.

Lemma Inv1_step s l s' : Inv1 s -> step true s l = Some s' -> Inv1 s'.
Proof.
  intros (HA & HC) H. destruct l; cbn [step] in H.
  all: dstep H.
  all: unfold Inv1, do_close, w_sp, w_gen, w_gens, is_cur in *; cbn in *.
  all: destruct (cur s) as [c|] eqn:EC; cbn in *.
  all: try (destruct HA as [HA1 HA2]).
  all: repeat split; intros; cbn in *.
  all: unfold upd in *; cbn in *; rewrite ?al_dead in *.
  all: eqs.
  all: try lia; try congruence; eauto.
  all: try (apply HC; [lia|congruence]).
  destruct (Nat.eq_dec g c); subst; [congruence|apply HC; [lia|congruence]].
Qed.

Lemma memn_In x l : memn x l = true <-> In x l.
Proof. unfold memn. rewrite existsb_exists. split. - intros (y & Hy & E). apply Nat.eqb_eq in E. now subst. - intros H. exists x. split; auto. apply Nat.eqb_refl. Qed.
Lemma al_late x m : late (add_late x m) = if dead x then late x ++ [m] else late x.
Proof. unfold add_late. now destruct (dead x). Qed.

Definition holds (p : spc) : option nat :=
  match p with SCheck m | SHook m | SWrite m | SRequeue m | SFailPush m => Some m | _ => None end.
Definition committed (p : spc) : option nat := match p with SHook m | SWrite m => Some m | _ => None end.

Definition Inv2 (s : st) : Prop :=
  (forall g, dead (gens s g) = false -> late (gens s g) = []) /\
  (forall g m, committed (sp (gens s g)) = Some m -> ~ In m (late (gens s g))) /\
  (forall g m b, In (g, m, b) (atts s) -> ~ In m (late (gens s g))) /\
  (forall m, In m (sendQ s) -> In m (hist s)) /\
  (forall m, In m (failQ s) -> In m (hist s)) /\
  (forall g m, holds (sp (gens s g)) = Some m -> In m (hist s)) /\
  (forall g m b, In (g, m, b) (atts s) -> In m (hist s)).

Lemma Inv2_step s l s' : Inv1 s -> Inv2 s -> step true s l = Some s' -> Inv2 s'.
Proof.
  intros (HA & HC) (HD & HE & HF & HQ & HFQ & HH & HAH) H. destruct l; cbn [step] in H.
  2: { (* LEnq *)
    destruct (memn m (lenq s) && negb (memn m (hist s))) eqn:E; [|discriminate]. injection H as <-.
    apply andb_prop in E. destruct E as [_ E]. apply negb_true_iff in E.
    assert (Hm : ~ In m (hist s)). { intros X. apply memn_In in X. congruence. }
    unfold Inv2; cbn. repeat split; intros; rewrite ?al_dead, ?al_sp, ?al_late in *.
    - rewrite H. auto.
    - destruct (dead (gens s g)); [|eauto]. rewrite in_app_iff. cbn. intros [X|[X|[]]]; [eapply HE; eauto|]. subst. apply Hm. apply (HH g). unfold committed in H. destruct (sp (gens s g)); try discriminate; cbn; congruence.
    - destruct (dead (gens s g)); [|eauto]. rewrite in_app_iff. cbn. intros [X|[X|[]]]; [eapply HF; eauto|]. subst. apply Hm. eapply HAH; eauto.
    - rewrite in_app_iff in *. cbn in *. intuition.
    - rewrite in_app_iff. left. eauto.
    - rewrite in_app_iff. left. eauto.
    - rewrite in_app_iff. left. eauto. }
  all: dstep H.
  all: unfold Inv2, do_close, w_sp, w_gen, w_gens, is_cur, isCurrent in *; cbn in *.
  all: repeat split; intros; cbn in *.
  all: unfold upd in *; cbn in *; rewrite ?al_dead, ?al_sp, ?al_late in *.
  all: eqs.
  all: eauto.
  all: try solve [ discriminate | congruence | rewrite ?in_app_iff in *; cbn in *; intuition (subst; try congruence; eauto) ].
  all: repeat match goal with H : Some _ = Some _ |- _ => injection H as H; subst end.
  all: repeat match goal with
       | E : failQ _ = _, H : In _ (failQ _) |- _ => rewrite E in H; cbn in H
       | E : sendQ _ = _, H : In _ (sendQ _) |- _ => rewrite E in H; cbn in H
       end.
  all: try solve [ discriminate | congruence | rewrite ?in_app_iff in *; cbn in *; intuition (subst; try congruence; eauto) ].
  all: try match goal with E : sp (gens _ ?g) = _ |- _ => solve [apply (HH g); rewrite E; reflexivity | apply (HE g); rewrite E; reflexivity] end.
  all: try (match goal with H : In _ (_ ++ [_]) |- _ => apply in_app_or in H; destruct H as [H|[H|[]]]; [solve [eauto | eapply HF; eauto] | inversion H; subst] end).
  all: try (match goal with H : _ = _ \/ False |- _ => destruct H as [H|[]]; subst end).
  all: try match goal with E : sp (gens _ ?g) = _ |- _ => solve [apply (HH g); rewrite E; reflexivity | apply (HE g); rewrite E; reflexivity] end.
  (* LSCheck, current: the connection is not known dead, so nothing is late for it *)
  apply andb_prop in Heqb. destruct Heqb as [F C]. apply negb_true_iff in F. unfold is_cur in C.
  destruct (cur s) as [c|]; [|discriminate]. apply Nat.eqb_eq in C. subst c. destruct HA as [HA _].
  rewrite HD by congruence. intros [].
Qed.


(* generations not yet dialled are untouched *)
Definition Inv0 (s : st) : Prop := forall g, ngen s <= g -> gens s g = gen0.

Lemma add_late_gen0 m : add_late gen0 m = gen0. Proof. reflexivity. Qed.

Lemma Inv0_step s l s' : Inv1 s -> Inv0 s -> step true s l = Some s' -> Inv0 s'.
Proof.
  intros [HA _] HN H. destruct l; cbn [step] in H.
  all: dstep H.
  all: unfold Inv0, do_close, w_sp, w_gen, w_gens, is_cur in *; cbn in *; intros g0 Hg0.
  all: unfold upd; cbn.
  all: try (rewrite HN by lia; reflexivity).
  all: try match goal with |- context [Nat.eqb ?a ?b] => destruct (Nat.eqb_spec a b); subst; cbn in * end.
  all: try (apply HN; lia).
  all: try (match goal with E : sp (gens _ ?g) = _ |- _ => rewrite (HN g) in E by lia; discriminate E end).
  all: try (match goal with E : rp (gens _ ?g) = _ |- _ => rewrite (HN g) in E by lia; discriminate E end).
  all: try (match goal with E : (?g <? ngen _) = true |- _ => apply Nat.ltb_lt in E; lia end).
  all: try (match goal with E : (?g <? ngen _) && _ = true |- _ => apply andb_prop in E; destruct E as [E _]; try (apply andb_prop in E; destruct E as [E _]); apply Nat.ltb_lt in E; lia end).
  all: try reflexivity.
  all: try (match goal with E : cur _ = Some _ |- _ => rewrite E in HA; lia end).
  all: try lia.
  apply andb_prop in Heqb. destruct Heqb as [E _]. apply andb_prop in E. destruct E as [E _]. apply Nat.ltb_lt in E. lia.
Qed.

(* ------------------------------------------------------------------------------------------------ *)
Definition Inv (s : st) : Prop := Inv1 s /\ Inv2 s /\ Inv0 s.

Lemma Inv_init : Inv init.
Proof.
  unfold Inv, Inv1, Inv2, Inv0, init; cbn. repeat split; intros; try lia; try contradiction; try discriminate; auto.
Qed.

Lemma Inv_step s l s' : Inv s -> step true s l = Some s' -> Inv s'.
Proof.
  intros (H1 & H2 & H0) H. split; [|split].
  - eapply Inv1_step; eauto. - eapply Inv2_step; eauto. - eapply Inv0_step; eauto.
Qed.

Lemma run_app f ls1 : forall ls2 s, run f s (ls1 ++ ls2) = match run f s ls1 with Some s1 => run f s1 ls2 | None => None end.
Proof. induction ls1 as [|l r IH]; cbn; intros; auto. destruct (step f s l); auto. Qed.

Lemma Inv_run ls : forall s s', Inv s -> run true s ls = Some s' -> Inv s'.
Proof.
  induction ls as [|l r IH]; cbn; intros s s' HI H. { now injection H as <-. }
  destruct (step true s l) eqn:E; [|discriminate]. eapply IH; [eapply Inv_step; eauto|eauto].
Qed.

Lemma reach_Inv ls s : run true init ls = Some s -> Inv s.
Proof. apply Inv_run, Inv_init. Qed.

(* known dead is stable, and so is being late for a generation *)
Lemma dead_mono_step s l s' g : Inv0 s -> step true s l = Some s' -> dead (gens s g) = true -> dead (gens s' g) = true.
Proof.
  intros HN H D. destruct l; cbn [step] in H.
  all: dstep H.
  all: unfold do_close, w_sp, w_gen, w_gens in *; cbn in *; unfold upd; cbn; rewrite ?al_dead.
  all: repeat match goal with |- context [Nat.eqb ?a ?b] => destruct (Nat.eqb_spec a b); subst; cbn in * end.
  all: auto.
  rewrite (HN (ngen s)) in D by lia. discriminate D.
Qed.

Lemma late_mono_step s l s' g m : Inv0 s -> step true s l = Some s' -> In m (late (gens s g)) -> In m (late (gens s' g)).
Proof.
  intros HN H D. destruct l; cbn [step] in H.
  all: dstep H.
  all: unfold do_close, w_sp, w_gen, w_gens in *; cbn in *; unfold upd; cbn; rewrite ?al_late.
  all: repeat match goal with |- context [Nat.eqb ?a ?b] => destruct (Nat.eqb_spec a b); subst; cbn in * end.
  all: auto.
  all: try (destruct (dead (gens s g)); [rewrite in_app_iff; auto|auto]).
  rewrite (HN (ngen s)) in D by lia. destruct D.
Qed.

Lemma mono_run ls : forall s s' g, Inv s -> run true s ls = Some s' ->
  (dead (gens s g) = true -> dead (gens s' g) = true) /\ (forall m, In m (late (gens s g)) -> In m (late (gens s' g))).
Proof.
  induction ls as [|l r IH]; cbn; intros s s' g HI H. { injection H as <-. auto. }
  destruct (step true s l) eqn:E; [|discriminate].
  destruct (IH s0 s' g (Inv_step _ _ _ HI E) H) as [A B]. destruct HI as (_ & _ & HN). split.
  - intros D. apply A. eapply dead_mono_step; eauto.
  - intros m D. apply B. eapply late_mono_step; eauto.
Qed.


(* ------------------------------------------------------------------------------------------------ *)
(* the theorems *)

(* the closed flag says exactly whether the CURRENT connection is known dead *)
Theorem closed_flag_is_current ls s : run true init ls = Some s ->
  match cur s with
  | Some c => closedF s = dead (gens s c) /\ c < ngen s
  | None => closedF s = true /\ ngen s = 0
  end.
Proof. intros H. destruct (reach_Inv _ _ H) as ((HA & _) & _). exact HA. Qed.

(* every generation other than the current one is known dead: a connection is only replaced after its loss *)
Theorem only_current_alive ls s g : run true init ls = Some s -> g < ngen s -> dead (gens s g) = false -> cur s = Some g.
Proof.
  intros H L D. destruct (reach_Inv _ _ H) as ((_ & HC) & _).
  destruct (cur s) as [c|] eqn:E.
  - destruct (Nat.eq_dec c g); [now subst|]. rewrite HC in D; [discriminate|auto|congruence].
  - rewrite HC in D; [discriminate|auto|congruence].
Qed.

(* steps by which a goroutine bound to generation g gives that generation up *)
Definition closes (l : label) : option nat :=
  match l with LRClose g | LSIdleClose g | LSFailClose g => Some g | _ => None end.

(* the loss of generation g does not touch the closed flag, the current connection or its state
   when g is not the current connection (any state, reachable or not) *)
Theorem close_is_local s l s' g c : step true s l = Some s' -> closes l = Some g -> cur s = Some c -> c <> g ->
  closedF s' = closedF s /\ cur s' = Some c /\ dead (gens s' c) = dead (gens s c) /\ sp (gens s' c) = sp (gens s c).
Proof.
  intros H CL EC NE. destruct l; cbn in CL; try discriminate; injection CL as ->; cbn [step] in H.
  all: dstep H.
  all: unfold do_close, w_sp, w_gen, w_gens, is_cur; cbn; rewrite EC; unfold upd; cbn.
  all: repeat match goal with |- context [Nat.eqb ?a ?b] => destruct (Nat.eqb_spec a b); subst; cbn in * end.
  all: try congruence; auto.
Qed.

(* ... hence a healthy current connection is never treated as closed because an earlier one was lost *)
Corollary healthy_not_closed ls s c : run true init ls = Some s -> cur s = Some c -> dead (gens s c) = false -> closedF s = false.
Proof. intros H E D. pose proof (closed_flag_is_current _ _ H) as X. rewrite E in X. destruct X as [X _]. congruence. Qed.

(* no write attempt on generation g ever carries a request that was enqueued while g was known dead *)
Theorem no_late_write ls s g m b : run true init ls = Some s -> In (g, m, b) (atts s) -> ~ In m (late (gens s g)).
Proof. intros H. destruct (reach_Inv _ _ H) as (_ & (_ & _ & HF & _) & _). apply HF. Qed.

(* the same in terms of the history alone: once g is known dead, a request enqueued later is never written to g *)
Theorem no_write_after_known_dead l1 l2 m g s1 s : run true init l1 = Some s1 -> dead (gens s1 g) = true ->
  run true s1 (LEnq m :: l2) = Some s -> forall b, ~ In (g, m, b) (atts s).
Proof.
  intros H1 D H2 b HIn. pose proof (reach_Inv _ _ H1) as I1.
  cbn [run] in H2. destruct (step true s1 (LEnq m)) as [s2|] eqn:E; [|discriminate].
  assert (L2 : In m (late (gens s2 g))).
  { cbn [step] in E. destruct (memn m (lenq s1) && negb (memn m (hist s1))); [|discriminate]. injection E as <-.
    cbn. rewrite al_late, D, in_app_iff. right. now left. }
  destruct (mono_run l2 s2 s g (Inv_step _ _ _ I1 E) H2) as [_ M].
  assert (R : run true init (l1 ++ LEnq m :: l2) = Some s).
  { rewrite run_app, H1. cbn [run]. now rewrite E. }
  eapply no_late_write; eauto.
Qed.

(* a send goroutine that is about to write (hook position) or writing holds a request that is not late for its generation *)
Theorem committed_not_late ls s g m : run true init ls = Some s -> committed (sp (gens s g)) = Some m -> ~ In m (late (gens s g)).
Proof. intros H. destruct (reach_Inv _ _ H) as (_ & (_ & HE & _) & _). apply HE. Qed.

(* ------------------------------------------------------------------------------------------------ *)
(* the pinned code ([fixed = false]) violates all three; the schedule is the one observed on the real client:
   the send goroutine of the closed connection 0 takes the request of the next call, writes it to the dead
   connection, its close marks the healthy connection 1 closed, and the send goroutine of 1 leaves at its next tick *)
Definition sched_defect : list label :=
  [LLogEnq 0; LReconnect; LEnq 0; LSTop 0; LSPoll 0; LSBlkQueue 0; LSHook 0; LSWriteOk 0; LSTop 0; LSPoll 0;
   LLogPClose 0; LPeerClose 0; LRClose 0; LRSignal 0; LLogObs 0;
   LLogEnq 1; LReconnect; LEnq 1; LSTop 1; LSPoll 1;
   LSBlkQueue 0; LSHook 0; LSWriteErr 0; LSFailPush 0; LSFailClose 0;
   LSBlkTick 1; LSTick 1].

Lemma pinned_refuted : exists s, run false init sched_defect = Some s /\
  In (0, 1, true) (atts s) /\ In 1 (late (gens s 0)) /\                       (* written to the connection known dead *)
  cur s = Some 1 /\ dead (gens s 1) = false /\ peerc (gens s 1) = false /\ closedF s = true /\   (* healthy, treated as closed *)
  failQ s = [1] /\ sp (gens s 1) = SExit /\ sp (gens s 0) = SExit /\ got (gens s 1) = [] /\       (* request 1 waits for another call *)
  c11_accepts (log s) = false.                                        (* and the specification machine rejects the log *)
Proof. eexists. split; [vm_compute; reflexivity|]. vm_compute. repeat split; auto. Qed.

(* the repaired code under the corresponding schedule: the stale goroutine hands the request over *)
Definition sched_repaired : list label :=
  [LLogEnq 0; LReconnect; LEnq 0; LSTop 0; LSPoll 0; LSBlkQueue 0; LSCheck 0; LSHook 0; LSWriteOk 0; LSTop 0; LSPoll 0;
   LLogPClose 0; LPeerClose 0; LRClose 0; LRSignal 0; LLogObs 0;
   LLogEnq 1; LReconnect; LEnq 1; LSTop 1; LSPoll 1;
   LSBlkQueue 0; LSCheck 0; LSRequeue 0;
   LSBlkFail 1; LSCheck 1; LSHook 1; LSWriteOk 1].

Lemma repaired_example : exists s, run true init sched_repaired = Some s /\
  atts s = [(0, 0, false); (1, 1, false)] /\ got (gens s 1) = [1] /\ closedF s = false /\ cur s = Some 1 /\
  sp (gens s 0) = SExit /\ failQ s = [] /\ sendQ s = [] /\ c11_accepts (log s) = true.
Proof. eexists. split; [vm_compute; reflexivity|]. vm_compute. repeat split; auto. Qed.

(* the pinned schedule is not a behaviour of the repaired code *)
Lemma repaired_rejects_defect : run true init sched_defect = None.
Proof. vm_compute. reflexivity. Qed.

(* the literal reading "no write attempt while the generation is known dead" fails for any client that does
   not hold a lock across test and write: the connection is lost between isCurrent and conn.Write *)
Definition sched_window : list label :=
  [LLogEnq 0; LReconnect; LEnq 0; LSTop 0; LSPoll 0; LSBlkQueue 0; LSCheck 0; LLogPClose 0; LPeerClose 0; LRClose 0;
   LSHook 0; LSWriteErr 0].

Lemma literal_no_write_to_dead_refuted : exists s, run true init sched_window = Some s /\ In (0, 0, true) (atts s) /\ late (gens s 0) = [].
Proof. eexists. split; [vm_compute; reflexivity|]. cbn. split; auto. Qed.

