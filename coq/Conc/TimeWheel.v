(* C09 model of tars/util/rtimer/timewheel.go: the time wheel behind rtimer.After (the enqueue wait of
   TarsClient.Send and the give-up of AdapterProxy.Recv use it).  Model only; proofs in TimeWheelProofs.v.

   A wheel has [size] slots, each holding a channel; the ticker closes the channel of the current slot, puts a fresh one
   in its place and advances.  A channel is identified by (slot, generation); closing = the slot's generation moves on. *)
From Coq Require Import List NArith Arith Bool.
From TarsV Require Import Gen.C09Consts.
Import ListNotations.
Open Scope nat_scope.

Record wheel := mkwheel { w_size : nat; w_cur : nat; w_gen : list nat }.

Definition new_wheel (size : nat) : wheel := mkwheel size 0 (repeat 0 size).

Fixpoint bump (i : nat) (l : list nat) : list nat :=
  match l, i with
  | [], _ => []
  | g :: t, O => S g :: t
  | g :: t, S j => g :: bump j t
  end.

(* TimeWheel.run, one ticker event *)
Definition wtick (w : wheel) : wheel :=
  mkwheel (w_size w) ((w_cur w + 1) mod w_size w) (bump (w_cur w) (w_gen w)).
Fixpoint wticks (n : nat) (w : wheel) : wheel := match n with O => w | S m => wticks m (wtick w) end.

(* the slot offset TimeWheel.After computes: pos := int(timeout / tw.t); if 0 < pos { pos-- } *)
Definition after_pos (t timeout : N) : nat := pred (N.to_nat (timeout / t)).

(* TimeWheel.After(timeout) on a wheel whose tick is t: None = panic("timeout is bigger than maxT") *)
Definition after (t timeout : N) (w : wheel) : option (nat * nat) :=
  if (t * N.of_nat (w_size w) <=? timeout)%N then None
  else let p := (w_cur w + after_pos t timeout) mod w_size w in Some (p, nth p (w_gen w) 0).

Definition closed (w : wheel) (ch : nat * nat) : bool := negb (Nat.eqb (nth (fst ch) (w_gen w) 0) (snd ch)).

(* rtimer.After(T): the wheel of duration T ticks every T/accuracy and has accuracy+1 slots *)
Definition rt_tick (T : N) : N := (T / c_rtimer_accuracy)%N.
Definition rt_size : nat := S (N.to_nat c_rtimer_accuracy).
Definition rt_after (T : N) (w : wheel) : option (nat * nat) := after (rt_tick T) T w.

(* ---------- correspondence with the real rtimer.TimeWheel ----------
   case = (tick period ms, slots, timeout ms, After panicked, channel closed after .. ms, After was called right after a tick) *)
Definition wheel_case := (N * nat * N * bool * N * bool)%type.
Definition wheel_check (x : wheel_case) : bool :=
  let '(t, size, timeout, panicked, el, aligned) := x in
  match after t timeout (new_wheel size) with
  | None => panicked
  | Some _ =>
      let pos := N.of_nat (after_pos t timeout) in
      negb panicked &&
      (if aligned then ((pos + 1) * t <=? el + 40)%N else (pos * t <=? el + 2)%N) &&   (* never early *)
      (el <=? (pos + 1) * t + 120)%N                                                   (* scheduling latency tolerated *)
  end.
Fixpoint wheel_failing (i : N) (l : list wheel_case) : list N :=
  match l with
  | [] => []
  | x :: r => if wheel_check x then wheel_failing (i + 1) r else i :: wheel_failing (i + 1) r
  end.
Definition wheel_mismatches (off : N) (cs : list wheel_case) : list N := wheel_failing off cs.

(* ---------- rtimer.After as a whole: the table of wheels and its lock ----------
   After(T) locks the table, looks the wheel of duration T up or creates it (NewTimeWheel panics when the tick period
   T/accuracy is 0: time.NewTicker), asks the wheel (panics when T >= maxT) and unlocks the table on EVERY path (the
   unlock is deferred): a panic that the caller recovers (AdapterProxy.Recv does) must not leave the table locked, or
   every later After - the one in TarsClient.Send included - blocks for ever. *)
Inductive after_result := AChan (ch : nat * nat) | APanicTicker | APanicMaxT.
Definition rt_after_full (T : N) (w : wheel) : after_result * bool (* table still locked afterwards *) :=
  if (rt_tick T =? 0)%N then (APanicTicker, false)
  else match rt_after T w with Some ch => (AChan ch, false) | None => (APanicMaxT, false) end.
Definition rt_panics (T : N) : bool :=
  match fst (rt_after_full T (new_wheel rt_size)) with AChan _ => false | _ => true end.

(* case = (duration in ns, After panicked, a later After(50 ms) in another goroutine did not return within 2 s) *)
Definition lock_case := (N * bool * bool)%type.
Definition lock_check (x : lock_case) : bool :=
  let '(T, panicked, blocked) := x in
  Bool.eqb panicked (rt_panics T) && Bool.eqb blocked (snd (rt_after_full T (new_wheel rt_size))).
Fixpoint lock_failing (i : N) (l : list lock_case) : list N :=
  match l with
  | [] => []
  | x :: r => if lock_check x then lock_failing (i + 1)%N r else i :: lock_failing (i + 1)%N r
  end.
