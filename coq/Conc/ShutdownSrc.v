(* C12 — what the model of Conc/Shutdown.v takes from the SOURCE of tars/transport, re-read on every run
   (harness/c12src.go parses tarsserver.go / tcphandler.go and prints the facts into Gen/Consts.v): an edit of that
   source that changes one of them makes this file fail to compile (L1), independently of any scenario. *)
From Coq Require Import NArith.
From TarsV Require Import Gen.Consts.
Local Open Scope N_scope.

(* Shutdown's poller and a receive loop's deferred drain loop tick with the same period: between a receive loop's
   return and its first drain tick lies a poller tick (model: guard [polled] of LRecvClose) *)
Theorem src_tickers_same_period :
  c_c12_shutdown_tick_ms = c_c12_recv_drain_tick_ms /\ 0 < c_c12_shutdown_tick_ms.
Proof. split; reflexivity. Qed.

(* a receive loop that reads during shutdown gives up (100 ms) before the next poller tick (500 ms) *)
Theorem src_read_deadline_below_tick : c_c12_shutdown_read_deadline_ms < c_c12_shutdown_tick_ms.
Proof. reflexivity. Qed.

(* the idle threshold passed to CloseIdles (the harness's "quiet" scenarios stay quiet for longer) *)
Theorem src_idle_threshold_s : c_c12_closeidles_idle_s = 2.
Proof. reflexivity. Qed.

(* the shape of the steps:
   - CloseIdles writes the close message BEFORE its sweep (LPollBegin notifies, then LPollCheck/LPollClose);
   - the accept loop goes on after a non-timeout Accept error (LAcceptErr is a no-op);
   - handleConn does numInvoke++ BEFORE the handler is spawned / sent to JobQueue (LRead counts, then LEnqueue/LStart);
   - `allClosed` starts true and is only ever cleared (LPollReturn needs every connection closed);
   - sendCloseMsg's Range callback always returns true (LPollBegin notifies each connection on its own);
   - the handler's first statement defers numInvoke-- (LFinish: response written, then the decrement);
   - the receive loop's deferred drain wait has no other exit than numInvoke = 0 (LRecvClose / LRecvGone need busy = []). *)
Theorem src_step_shape :
  c_c12_closemsg_before_sweep = 1 /\ c_c12_accept_error_continues = 1 /\ c_c12_count_before_dispatch = 1 /\
  c_c12_allclosed_only_cleared = 1 /\ c_c12_closemsg_range_continues = 1 /\ c_c12_decrement_deferred_in_handler = 1 /\
  c_c12_drain_wait_only_exit = 1.
Proof. repeat split; reflexivity. Qed.
