(* C19 — the pool where the TCP handler uses it: transition system of tcpHandler.Handle (accept loop, shutdown tail),
   of the per-connection goroutines (recv loop, handleConn, the drain of the in-flight counter) and of an abstract pool,
   PARAMETERISED by the three facts about the order of statements that Conc/PoolSrc.handle_flags reads off the source:
     add_before_go        recvDone.Add(1) is executed by the accept loop before `go` (not inside the new goroutine),
     wait_before_release  recvDone.Wait() precedes pool.Release(),
     inc_at_submit        numInvoke is incremented before the request is handed to the pool (not when it starts to run).
   Code reading (tcphandler.go):
     Handle : for { if isClosed { break } ; conn, err := Accept() ; if err { continue } ; recvDone.Add(1) ;
                    go func { defer recvDone.Done() ; recv(conn) } } ; recvDone.Wait() ; pool.Release()
     recv   : defer { poll until numInvoke == 0 ; conn.Close() } ; for { read ; on error/closed: return ; handleConn(pkg) ... }
     handleConn : numInvoke++ ; handler := { defer numInvoke-- ; invoke ; write } ; pool.JobQueue <- handler
   One label per statement that matters; the pool is abstract (pending, running, executed; Release accepted = no further
   start; Release returns when nothing runs — the properties of the pool itself are Conc/Gpool*.v). Definitions only. *)
From Coq Require Import List Arith NArith Lia Bool Permutation.
From TarsV Require Import Conc.Gpool Conc.PoolSrc.
Import ListNotations.

Definition pj := (nat * N)%type.            (* a request: index of its connection, number *)
Definition pj_eqb (a b : pj) : bool := Nat.eqb (fst a) (fst b) && N.eqb (snd a) (snd b).
Fixpoint rmp (x : pj) (l : list pj) : list pj :=
  match l with [] => [] | y :: r => if pj_eqb x y then r else y :: rmp x r end.
Definition memp (x : pj) (l : list pj) : bool := existsb (pj_eqb x) l.
Definition ownedb (i : nat) (p : pj) : bool := Nat.eqb (fst p) i.
Definition owned (i : nat) (l : list pj) : nat := length (filter (ownedb i) l).

Inductive cpc := CNew | CRecv | CDrain | CDone.
Record conn := mkconn { c_pc : cpc; c_ninv : nat; c_added : bool }.
Inductive apc := ALoop | AAccepting | AGot | AAdded | ATail | AWaited | AReleasing | AReleased | ADone.

Record tst := mkt {
  t_closed : bool;          (* server.isClosed *)
  t_ap : apc;               (* the goroutine running Handle *)
  t_conns : list conn;      (* connection goroutines, in the order of their `go` *)
  t_wg : nat;               (* recvDone *)
  t_pend : list pj;         (* handed to the pool, not started *)
  t_runn : list pj;         (* handlers running *)
  t_exec : list pj;         (* handlers finished *)
  t_handed : list pj;       (* ghost: every request ever handed to the pool *)
  t_released : bool }.      (* the pool has accepted Release: nothing starts any more *)

Inductive tlabel :=
| TShutdown | ACheck | AAccept | ATimeout | AWgAdd | ASpawn
| CBegin (i : nat) | CSubmit (i : nat) (n : N) | CLeave (i : nat) | CDrained (i : nat)
| PStart (p : pj) | PEnd (p : pj) | AWait | ARelCall | ARelRet.

Definition set_closed s x := mkt x (t_ap s) (t_conns s) (t_wg s) (t_pend s) (t_runn s) (t_exec s) (t_handed s) (t_released s).
Definition set_ap s x := mkt (t_closed s) x (t_conns s) (t_wg s) (t_pend s) (t_runn s) (t_exec s) (t_handed s) (t_released s).
Definition set_conns s x := mkt (t_closed s) (t_ap s) x (t_wg s) (t_pend s) (t_runn s) (t_exec s) (t_handed s) (t_released s).
Definition set_wg s x := mkt (t_closed s) (t_ap s) (t_conns s) x (t_pend s) (t_runn s) (t_exec s) (t_handed s) (t_released s).
Definition set_pend s x := mkt (t_closed s) (t_ap s) (t_conns s) (t_wg s) x (t_runn s) (t_exec s) (t_handed s) (t_released s).
Definition set_runn s x := mkt (t_closed s) (t_ap s) (t_conns s) (t_wg s) (t_pend s) x (t_exec s) (t_handed s) (t_released s).
Definition set_exec s x := mkt (t_closed s) (t_ap s) (t_conns s) (t_wg s) (t_pend s) (t_runn s) x (t_handed s) (t_released s).
Definition set_handed s x := mkt (t_closed s) (t_ap s) (t_conns s) (t_wg s) (t_pend s) (t_runn s) (t_exec s) x (t_released s).
Definition set_released s x := mkt (t_closed s) (t_ap s) (t_conns s) (t_wg s) (t_pend s) (t_runn s) (t_exec s) (t_handed s) x.

Definition tinit : tst := mkt false ALoop [] 0 [] [] [] [] false.

(* change the in-flight counter of connection i *)
Definition bump (up : bool) (i : nat) (l : list conn) : list conn :=
  match nth_error l i with
  | Some c => upd i (mkconn (c_pc c) (if up then S (c_ninv c) else pred (c_ninv c)) (c_added c)) l
  | None => l
  end.

Section Sys.
Variable f : flags.

Definition tstep (s : tst) (l : tlabel) : option tst :=
  match l with
  | TShutdown => Some (set_closed s true)                     (* Shutdown: isClosed := 1 (the listener's deadline makes Accept return) *)
  | ACheck =>                                                  (* top of the accept loop *)
      match t_ap s with ALoop => Some (set_ap s (if t_closed s then ATail else AAccepting)) | _ => None end
  | AAccept => match t_ap s with AAccepting => Some (set_ap s AGot) | _ => None end      (* Accept returns a connection *)
  | ATimeout => match t_ap s with AAccepting => Some (set_ap s ALoop) | _ => None end    (* Accept returns an error: continue *)
  | AWgAdd =>                                                  (* recvDone.Add(1) in the accept loop *)
      match t_ap s with AGot => if add_before_go f then Some (set_ap (set_wg s (S (t_wg s))) AAdded) else None | _ => None end
  | ASpawn =>                                                  (* go func(conn) {...} *)
      match t_ap s, add_before_go f with
      | AAdded, true | AGot, false => Some (set_ap (set_conns s (t_conns s ++ [mkconn CNew 0 (add_before_go f)])) ALoop)
      | _, _ => None end
  | CBegin i =>                                                (* the connection goroutine starts (and, in the other variant, does the Add itself) *)
      match nth_error (t_conns s) i with
      | Some c => match c_pc c with
                  | CNew => if add_before_go f then Some (set_conns s (upd i (mkconn CRecv (c_ninv c) (c_added c)) (t_conns s)))
                            else Some (set_wg (set_conns s (upd i (mkconn CRecv (c_ninv c) true) (t_conns s))) (S (t_wg s)))
                  | _ => None end
      | None => None end
  | CSubmit i n =>                                             (* recv reads a request; handleConn hands it to the pool *)
      match nth_error (t_conns s) i with
      | Some c => match c_pc c with
                  | CRecv => if memp (i, n) (t_handed s) then None
                             else let s1 := set_handed (set_pend s (t_pend s ++ [(i, n)])) (t_handed s ++ [(i, n)]) in
                                  Some (if inc_at_submit f then set_conns s1 (bump true i (t_conns s)) else s1)
                  | _ => None end
      | None => None end
  | CLeave i =>                                                (* the recv loop returns (closed flag seen, or the peer went away) *)
      match nth_error (t_conns s) i with
      | Some c => match c_pc c with
                  | CRecv => Some (set_conns s (upd i (mkconn CDrain (c_ninv c) (c_added c)) (t_conns s)))
                  | _ => None end
      | None => None end
  | CDrained i =>                                              (* the deferred poll sees numInvoke == 0; the goroutine ends: recvDone.Done() *)
      match nth_error (t_conns s) i with
      | Some c => match c_pc c, c_ninv c with
                  | CDrain, O => Some (set_wg (set_conns s (upd i (mkconn CDone 0 (c_added c)) (t_conns s))) (pred (t_wg s)))
                  | _, _ => None end
      | None => None end
  | PStart p =>                                                (* the pool starts a handler *)
      if memp p (t_pend s) && negb (t_released s)
      then let s1 := set_runn (set_pend s (rmp p (t_pend s))) (t_runn s ++ [p]) in
           Some (if inc_at_submit f then s1 else set_conns s1 (bump true (fst p) (t_conns s)))
      else None
  | PEnd p =>                                                  (* a handler returns: deferred numInvoke-- *)
      if memp p (t_runn s)
      then Some (set_conns (set_exec (set_runn s (rmp p (t_runn s))) (t_exec s ++ [p])) (bump false (fst p) (t_conns s)))
      else None
  | AWait =>                                                   (* recvDone.Wait() returns *)
      match t_wg s, t_ap s, wait_before_release f with
      | O, ATail, true => Some (set_ap s AWaited)
      | O, AReleased, false => Some (set_ap s ADone)
      | _, _, _ => None end
  | ARelCall =>                                                (* pool.Release() is accepted by the pool *)
      match t_ap s, wait_before_release f with
      | AWaited, true | ATail, false => Some (set_ap (set_released s true) AReleasing)
      | _, _ => None end
  | ARelRet =>                                                 (* pool.Release() returns: nothing runs *)
      match t_ap s, t_runn s with
      | AReleasing, [] => Some (set_ap s (if wait_before_release f then ADone else AReleased))
      | _, _ => None end
  end.

Fixpoint trun (s : tst) (ls : list tlabel) : option tst :=
  match ls with [] => Some s | l :: r => match tstep s l with Some s' => trun s' r | None => None end end.
Definition treachable (s : tst) : Prop := exists ls, trun tinit ls = Some s.
End Sys.

Definition good_flags : flags := mkflags true true true.
(* a request handed to the pool that will never run: the pool has been released and the request is still pending *)
Definition lost_request (s : tst) : bool := t_released s && negb (match t_pend s with [] => true | _ => false end).

(* ---------- what a recorded trace of a server scenario must look like ---------- *)
(* events: the server has read request p (a whole packet cut out of the stream: it is handed to the pool right away), the
   handler of p starts / ends, Handle has returned (the pool is released, Release has returned) *)
Inductive pevent := PRead (p : pj) | PStartE (p : pj) | PEndE (p : pj) | PRelRetE | POther.
Record pst := mkp { p_read : list pj; p_started : list pj; p_ended : list pj; p_rel : bool }.
Definition pinit : pst := mkp [] [] [] false.
Definition pstep (σ : pst) (e : pevent) : option pst :=
  match e with
  | PRead p =>        (* nothing is read (hence handed to the pool) once Handle has returned; identifiers are fresh *)
      if p_rel σ || memp p (p_read σ) then None else Some (mkp (p_read σ ++ [p]) (p_started σ) (p_ended σ) (p_rel σ))
  | PStartE p =>      (* only what was read starts, once, and not after Handle has returned *)
      if p_rel σ || negb (memp p (p_read σ)) || memp p (p_started σ) then None
      else Some (mkp (p_read σ) (p_started σ ++ [p]) (p_ended σ) (p_rel σ))
  | PEndE p =>
      if memp p (p_started σ) && negb (memp p (p_ended σ)) then Some (mkp (p_read σ) (p_started σ) (p_ended σ ++ [p]) (p_rel σ)) else None
  | PRelRetE =>       (* Handle returns only when every request read has been executed *)
      if negb (p_rel σ) && forallb (fun p => memp p (p_ended σ)) (p_read σ)
      then Some (mkp (p_read σ) (p_started σ) (p_ended σ) true) else None
  | POther => Some σ
  end.
Fixpoint pruns (σ : pst) (tr : list pevent) : option pst :=
  match tr with [] => Some σ | e :: r => match pstep σ e with Some σ' => pruns σ' r | None => None end end.
Definition puse_ok (tr : list pevent) : bool := match pruns pinit tr with Some _ => true | None => false end.

(* the events of a step of the transition system *)
Definition pev (l : tlabel) : list pevent :=
  match l with
  | CSubmit i n => [PRead (i, n)] | PStart p => [PStartE p] | PEnd p => [PEndE p] | ARelRet => [PRelRetE] | _ => []
  end.
Fixpoint ptrace (f : flags) (s : tst) (ls : list tlabel) : list pevent :=
  match ls with
  | [] => []
  | l :: r => match tstep f s l with Some s' => pev l ++ ptrace f s' r | None => [] end
  end.
