(* C19 — progress of ONE job while other submitters keep sending (the pool never becomes quiescent).
   [mu j s] ranks how far job j is from having finished: its position in the FIFO JobQueue, the dispatcher's and the
   workers' distance from taking it, then the three steps of the job itself. Before Release is accepted by the dispatcher:
     * no step of anybody increases [mu j] (later submits queue up BEHIND j and cannot delay it),
     * while j waits in the queue or in the dispatcher's hand EVERY step of the pool and of running jobs decreases it,
       and one is always enabled; while j occupies a worker its own next step decreases it and is always enabled,
     * an enabled step of the pool stays enabled until it is taken (so weak fairness is enough).
   These are the premises of the usual weak-fairness rule; the finite consequence proved here: an execution that contains
   [mu j s] helpful steps has finished j. *)
From Coq Require Import List Arith NArith Lia Bool Permutation.
From TarsV Require Import Conc.Gpool Conc.GpoolProofs Conc.GpoolLive.
Import ListNotations.

(* position of j in the queue counted from 1; 0 when it is not there *)
Fixpoint qpos (j : job) (l : list job) : nat :=
  match l with
  | [] => 0
  | x :: r => if N.eqb j x then 1 else match qpos j r with O => O | S k => S (S k) end
  end.
Definition wrank1 (j : job) (p : wpc) : nat :=
  match p with
  | WGot x => if N.eqb j x then 3 else 0
  | WRun x => if N.eqb j x then 2 else 0
  | WEnded x => if N.eqb j x then 1 else 0
  | _ => 0
  end.
Fixpoint wrank (j : job) (l : list wpc) : nat := match l with [] => 0 | p :: r => wrank1 j p + wrank j r end.

Definition mu1 (j : job) (s : st) : nat := 8 * qpos j (jobq s) + length (wq s) + wsum (wk s) + dcost (dp s).
Definition mu (j : job) (s : st) : nat :=
  if mem j (fin s) then 0 else match wrank j (wk s) with S r => S r | O => 4 + mu1 j s end.

Lemma mem_app j a b : mem j (a ++ b) = mem j a || mem j b.
Proof. unfold mem. apply existsb_app. Qed.

Lemma qpos_notin j l : ~ In j l -> qpos j l = 0.
Proof.
  induction l as [|x l IH]; cbn; [reflexivity|]. intros H. destruct (N.eqb j x) eqn:E.
  - apply N.eqb_eq in E. subst. tauto.
  - rewrite IH; tauto.
Qed.
Lemma qpos_in j l : In j l -> 1 <= qpos j l.
Proof.
  induction l as [|x l IH]; cbn; [tauto|]. intros H. destruct (N.eqb j x) eqn:E; [lia|].
  destruct H as [H|H]; [subst; rewrite N.eqb_refl in E; discriminate|]. specialize (IH H). destruct (qpos j l); lia.
Qed.
Lemma qpos_app_in j l l' : In j l -> qpos j (l ++ l') = qpos j l.
Proof.
  induction l as [|x l IH]; cbn; [tauto|]. intros H. destruct (N.eqb j x) eqn:E; [reflexivity|].
  destruct H as [H|H]; [subst; rewrite N.eqb_refl in E; discriminate|]. now rewrite IH.
Qed.
Lemma qpos_cons_other j x r : N.eqb j x = false -> In j r -> qpos j (x :: r) = S (qpos j r).
Proof. intros E H. cbn. rewrite E. pose proof (qpos_in j r H). destruct (qpos j r); lia. Qed.

Lemma wrank_upd j l : forall w p x, nth_error l w = Some p -> wrank j (upd w x l) + wrank1 j p = wrank j l + wrank1 j x.
Proof.
  induction l as [|a l IH]; intros [|w] p x H; cbn [nth_error upd wrank] in *; try discriminate.
  - inversion H; subst. lia.
  - specialize (IH _ _ x H). lia.
Qed.
Lemma wrank_ge j l : forall w p, nth_error l w = Some p -> wrank1 j p <= wrank j l.
Proof.
  induction l as [|a l IH]; intros [|w] p H; cbn [nth_error wrank] in *; try discriminate.
  - inversion H; subst. lia.
  - specialize (IH _ _ H). lia.
Qed.
Lemma wrank_notin j l : ~ In j (occupying l) -> wrank j l = 0.
Proof.
  unfold occupying, jobs_of. induction l as [|a l IH]; cbn [flat_map wrank]; [reflexivity|]. intros H.
  rewrite IH; [|intros X; apply H; apply in_or_app; now right].
  assert (wrank1 j a = 0); [|lia].
  destruct a; cbn in *; try reflexivity; destruct (N.eqb j j0) eqn:E; try reflexivity; apply N.eqb_eq in E; subst; tauto.
Qed.
Lemma wrank_in j l : In j (occupying l) -> exists w p, nth_error l w = Some p /\ f_occ p = Some j /\ 1 <= wrank1 j p.
Proof.
  unfold occupying, jobs_of. induction l as [|a l IH]; cbn [flat_map]; [intros []|]. intros H. apply in_app_or in H.
  destruct H as [H|H].
  - exists 0, a. destruct a; cbn in H; try tauto; destruct H as [<-|[]]; cbn; rewrite N.eqb_refl; repeat split; lia.
  - destruct (IH H) as (w & p & A & B & C). exists (S w), p. auto.
Qed.

Section Fair.
Variable W Q : nat.
Notation step := (step W Q). Notation run := (run W Q).
Notation init := (init W). Notation reachable := (reachable W Q).

(* ---------- small facts about steps ---------- *)
Lemma step_subm_mono s l s' j : step s l = Some s' -> In j (subm s) -> In j (subm s').
Proof.
  intros Hs Hj. destruct l; unfold Gpool.step in Hs; brk; injection Hs as <-; simp; auto; apply in_or_app; now left.
Qed.
Lemma step_fin_mono s l s' j : step s l = Some s' -> In j (fin s) -> In j (fin s').
Proof.
  intros Hs Hj. destruct l; unfold Gpool.step in Hs; brk; injection Hs as <-; simp; auto; apply in_or_app; now left.
Qed.
Lemma pre_release_step s l s' : pre_release (dp s) = true -> l <> RelCall -> step s l = Some s' -> pre_release (dp s') = true.
Proof.
  intros Hp Hl Hs. destruct l; try congruence; unfold Gpool.step in Hs; brk; injection Hs as <-; simp; auto;
    match goal with H : dp _ = _ |- _ => rewrite H in Hp; discriminate end.
Qed.
Lemma calling_not_subm s j : reachable s -> In j (calling s) -> ~ In j (subm s).
Proof.
  intros Hr Hc Hs. destruct (reachable_inv _ _ _ Hr) as (_ & _ & (C1 & C2 & C3 & _)).
  apply (Permutation_NoDup C2) in C1. apply (Permutation_in _ C3) in Hs.
  eapply NoDup_app_disj; eauto.
Qed.
Lemma pre_release_rp s : reachable s -> pre_release (dp s) = true -> rp s = RNot \/ rp s = RCalled.
Proof.
  intros Hr Hp. destruct (reachable_inv _ _ _ Hr) as ((_ & _ & _ & _ & _ & _ & _ & _ & _ & _ & HR & _) & _).
  pose proof (reachable_invD _ _ _ Hr) as B5. unfold InvD in B5.
  destruct (rp s) eqn:E; auto.
  - destruct (B5 eq_refl) as [Z _]. congruence.
  - rewrite (HR (or_intror eq_refl)) in Hp. discriminate.
  - rewrite (HR (or_introl eq_refl)) in Hp. discriminate.
Qed.

(* where a job that has been sent and has not finished is *)
Lemma job_place s j : reachable s -> In j (subm s) -> ~ In j (fin s) ->
  (In j (jobq s ++ held (dp s)) /\ ~ In j (occupying (wk s))) \/
  (In j (occupying (wk s)) /\ ~ In j (jobq s) /\ ~ In j (held (dp s))).
Proof.
  intros Hr Hs Hf. destruct (conservation W Q s Hr) as [HP HN].
  apply (Permutation_in _ HP) in Hs. rewrite app_assoc in Hs, HN. apply in_app_or in Hs. destruct Hs as [Hs|Hs].
  - left. split; auto. intros X. eapply NoDup_app_disj; [exact HN|exact Hs|]. apply in_or_app. now left.
  - apply in_app_or in Hs. destruct Hs as [Hs|Hs]; [|tauto]. right. split; auto.
    assert (~ In j (jobq s ++ held (dp s))).
    { intros X. eapply NoDup_app_disj; [exact HN|exact X|]. apply in_or_app. now left. }
    split; intros X; apply H; apply in_or_app; tauto.
Qed.

(* the facts about an updated worker list are left in the goal, so that a case split on [N.eqb j x] reaches them *)
Ltac wr_facts j :=
  repeat match goal with
  | H : nth_error ?l ?w = Some ?p |- context [wrank j (upd ?w ?x ?l)] =>
      let F := fresh "F" in let G := fresh "G" in
      pose proof (wrank_upd j l w p x H) as F; pose proof (wrank_ge j l w p H) as G; cbn [wrank1] in F, G;
      revert F G; generalize (wrank j (upd w x l))
  end.
Ltac ws_facts :=
  repeat match goal with
  | H : nth_error ?l ?w = Some ?p |- context [wsum (upd ?w ?x ?l)] =>
      let F := fresh "F" in pose proof (wsum_upd l w p x H) as F; cbn [wcost] in F; revert F; generalize (wsum (upd w x l))
  end.
Ltac fin_tac j :=
  wr_facts j; ws_facts; rewrite ?app_length; cbn [length dcost orb];
  repeat match goal with |- context [N.eqb j ?x] => destruct (N.eqb j x) eqn:? end;
  intros;
  repeat match goal with |- context [match ?n with O => _ | S _ => _ end] => destruct n end;
  cbn [orb]; try lia.

(* ---------- phase 1: j waits in the queue or in the dispatcher's hand ---------- *)
Lemma pending_step s l s' j : reachable s -> pre_release (dp s) = true -> In j (jobq s ++ held (dp s)) ->
  ~ In j (occupying (wk s)) -> ~ In j (fin s) -> l <> RelCall -> step s l = Some s' ->
  mu j s = 4 + mu1 j s /\ (if internal l then mu j s' < mu j s else mu j s' = mu j s).
Proof.
  intros Hr Hp Hpend Hocc Hfin Hl Hs.
  pose proof (wrank_notin _ _ Hocc) as Hw0. apply mem_nIn in Hfin.
  assert (Hmu : mu j s = 4 + mu1 j s) by (unfold mu; now rewrite Hfin, Hw0).
  split; [exact Hmu|]. rewrite Hmu. clear Hmu.
  destruct (conservation W Q s Hr) as [_ HN].
  destruct l; try congruence; unfold Gpool.step in Hs; brk; injection Hs as <-; cbn [internal]; unfold mu, mu1; simp;
    rewrite ?Hfin, ?Hw0; try reflexivity;
    try (match goal with H : dp _ = _ |- _ => rewrite H in Hp; discriminate end).
  - (* Submit *)
    match goal with H : (_ && _) = true |- _ => apply andb_true_iff in H; destruct H as [Hc _]; apply mem_In in Hc end.
    assert (Hne : j <> j0).
    { intros ->. apply (calling_not_subm s j0 Hr Hc).
      destruct (conservation W Q s Hr) as [HP _]. apply (Permutation_in _ (Permutation_sym HP)).
      rewrite app_assoc. apply in_or_app. now left. }
    assert (Eq : qpos j (jobq s ++ [j0]) = qpos j (jobq s)).
    { destruct (in_dec N.eq_dec j (jobq s)) as [I|I]; [now apply qpos_app_in|].
      rewrite (qpos_notin j (jobq s) I). apply qpos_notin. intros X. apply in_app_or in X. destruct X as [X|[X|[]]]; [tauto|congruence]. }
    rewrite Eq. reflexivity.
  - (* SubmitH: the queue is empty and the dispatcher holds nothing *)
    exfalso. exact Hpend.
  - (* WorkerReg *) fin_tac j.
  - (* DTake *)
    match goal with H : dp s = DSel |- _ => rewrite H; clear H end.
    match goal with H : jobq s = _ |- _ => rewrite H; clear H end.
    cbn [held app dcost] in *. rewrite app_nil_r in Hpend.
    destruct (N.eqb j j0) eqn:E.
    + apply N.eqb_eq in E. subst j0. inversion HN; subst.
      rewrite (qpos_notin j l). 2:{ intros X. apply H1. apply in_or_app. now left. }
      cbn [qpos]. rewrite N.eqb_refl. lia.
    + destruct Hpend as [X|X]; [subst; rewrite N.eqb_refl in E; discriminate|].
      pose proof (qpos_in j l X) as Hq1. cbn [qpos]. rewrite E. destruct (qpos j l); lia.
  - (* DWorker *)
    match goal with H : dp s = _ |- _ => rewrite H; clear H end.
    match goal with H : wq s = _ |- _ => rewrite H; clear H end. cbn [length dcost]. lia.
  - (* Hand *)
    match goal with H : dp s = _ |- _ => rewrite H; clear H end. fin_tac j.
  - (* JStart *) fin_tac j.
  - (* JEnd *) fin_tac j.
  - (* JobEnd *) rewrite mem_app, Hfin. cbn [mem existsb]. fin_tac j.
  - (* RelRetLog: Release cannot have been acknowledged while the dispatcher is still dispatching *)
    exfalso. destruct (pre_release_rp s Hr Hp); congruence.
Qed.

(* ---------- phase 2: j occupies a worker ---------- *)
Lemma occupying_step s l s' j : reachable s -> pre_release (dp s) = true -> In j (occupying (wk s)) ->
  ~ In j (held (dp s)) -> ~ In j (fin s) -> l <> RelCall -> step s l = Some s' ->
  mu j s = wrank j (wk s) /\ 1 <= wrank j (wk s) /\ mu j s' <= mu j s.
Proof.
  intros Hr Hp Hocc Hheld Hfin Hl Hs. apply mem_nIn in Hfin.
  destruct (wrank_in _ _ Hocc) as (w0 & p0 & Hw0 & _ & Hp0). pose proof (wrank_ge j _ _ _ Hw0) as Hge.
  assert (Hmu : mu j s = wrank j (wk s)).
  { unfold mu. rewrite Hfin. destruct (wrank j (wk s)); [lia|reflexivity]. }
  split; [exact Hmu|]. split; [lia|]. rewrite Hmu. clear Hmu.
  destruct l; try congruence; unfold Gpool.step in Hs; brk; injection Hs as <-; unfold mu; simp; rewrite ?Hfin;
    try (destruct (wrank j (wk s)); lia);
    try (match goal with H : dp _ = _ |- _ => rewrite H in Hp; discriminate end).
  - (* WorkerReg *) fin_tac j.
  - (* Hand: the job in the dispatcher's hand is not j *)
    cbn [held] in Hheld.
    assert (E : N.eqb j j0 = false). { apply N.eqb_neq. intros ->. apply Hheld. now left. }
    wr_facts j. rewrite E. intros. destruct n; lia.
  - (* JStart *) fin_tac j.
  - (* JEnd *) fin_tac j.
  - (* JobEnd *) rewrite mem_app, Hfin. cbn [mem existsb]. fin_tac j.
Qed.

(* ---------- the three premises ---------- *)
Theorem mu_zero_iff s j : mu j s = 0 <-> In j (fin s).
Proof.
  unfold mu. destruct (mem j (fin s)) eqn:E.
  - apply mem_In in E. tauto.
  - apply mem_nIn in E. split; [|tauto]. destruct (wrank j (wk s)); lia.
Qed.

(* (a) nobody's step moves j further away from completion — in particular not the submits of other jobs *)
Theorem mu_nonincreasing s l s' j : reachable s -> pre_release (dp s) = true -> In j (subm s) -> l <> RelCall ->
  step s l = Some s' -> mu j s' <= mu j s.
Proof.
  intros Hr Hp Hj Hl Hs. destruct (in_dec N.eq_dec j (fin s)) as [Hf|Hf].
  - apply (step_fin_mono _ _ _ _ Hs) in Hf. apply mu_zero_iff in Hf. lia.
  - destruct (job_place s j Hr Hj Hf) as [[A B]|[A [B C]]].
    + destruct (pending_step s l s' j Hr Hp A B Hf Hl Hs) as [_ H]. destruct (internal l); lia.
    + destruct (occupying_step s l s' j Hr Hp A C Hf Hl Hs) as (_ & _ & H). exact H.
Qed.

(* (b) while j has not finished, a step of the pool or of a running job that brings it closer is enabled; while j waits in the
   queue or in the dispatcher's hand EVERY such step brings it closer *)
Theorem helpful_step_enabled s j : 1 <= W -> reachable s -> pre_release (dp s) = true -> In j (subm s) -> ~ In j (fin s) ->
  exists l s', internal l = true /\ l <> RelCall /\ step s l = Some s' /\ mu j s' < mu j s.
Proof.
  intros HW Hr Hp Hj Hf. destruct (job_place s j Hr Hj Hf) as [[A B]|[A [B C]]].
  - assert (E : exists l s', internal l = true /\ l <> RelCall /\ step s l = Some s').
    { destruct (no_deadlock W Q s HW Hr) as (l & s' & Hi & Hs).
      { left. split; [apply pre_release_rp; auto|]. apply in_app_or in A. destruct A as [A|A]; [left|right]; intros X; rewrite X in A; destruct A. }
      destruct l; try (exists l; fail); try (eexists; eexists; split; [exact Hi|split; [discriminate|exact Hs]]; fail).
      (* the enabled step is RelCall: the dispatcher is at its select, so j is in the queue and DTake is enabled as well *)
      unfold Gpool.step in Hs. destruct (rp s); try discriminate. destruct (dp s) eqn:Hd; try discriminate.
      cbn [held] in A. rewrite app_nil_r in A. destruct (jobq s) as [|x r] eqn:Hq; [destruct A|].
      exists DTake. eexists. split; [reflexivity|]. split; [discriminate|]. unfold Gpool.step. rewrite Hd, Hq. reflexivity. }
    destruct E as (l & s' & Hi & Hl & Hs). exists l, s'. repeat split; auto.
    destruct (pending_step s l s' j Hr Hp A B Hf Hl Hs) as [_ H]. rewrite Hi in H. exact H.
  - destruct (wrank_in _ _ A) as (w & p & Hw & Ho & _).
    destruct p; cbn in Ho; try discriminate; injection Ho as ->.
    + exists (JStart w). eexists. split; [reflexivity|]. split; [discriminate|]. unfold Gpool.step. rewrite Hw. split; [reflexivity|].
      destruct (occupying_step s (JStart w) _ j Hr Hp A C Hf ltac:(discriminate) ltac:(unfold Gpool.step; rewrite Hw; reflexivity)) as (E1 & E2 & _).
      rewrite E1. unfold mu; simp. apply mem_nIn in Hf. rewrite Hf.
      pose proof (wrank_upd j _ _ _ (WRun j) Hw) as F. cbn [wrank1] in F. rewrite N.eqb_refl in F.
      pose proof (wrank_ge j _ _ _ Hw) as G. cbn [wrank1] in G. rewrite N.eqb_refl in G.
      destruct (wrank j (upd w (WRun j) (wk s))); lia.
    + exists (JEnd w). eexists. split; [reflexivity|]. split; [discriminate|]. unfold Gpool.step. rewrite Hw. split; [reflexivity|].
      destruct (occupying_step s (JEnd w) _ j Hr Hp A C Hf ltac:(discriminate) ltac:(unfold Gpool.step; rewrite Hw; reflexivity)) as (E1 & E2 & _).
      rewrite E1. unfold mu; simp. apply mem_nIn in Hf. rewrite Hf.
      pose proof (wrank_upd j _ _ _ (WEnded j) Hw) as F. cbn [wrank1] in F. rewrite N.eqb_refl in F.
      pose proof (wrank_ge j _ _ _ Hw) as G. cbn [wrank1] in G. rewrite N.eqb_refl in G.
      destruct (wrank j (upd w (WEnded j) (wk s))); lia.
    + exists (JobEnd w). eexists. split; [reflexivity|]. split; [discriminate|]. unfold Gpool.step. rewrite Hw. split; [reflexivity|].
      destruct (occupying_step s (JobEnd w) _ j Hr Hp A C Hf ltac:(discriminate) ltac:(unfold Gpool.step; rewrite Hw; reflexivity)) as (E1 & E2 & _).
      rewrite E1. unfold mu; simp. rewrite mem_app. cbn [mem existsb]. rewrite N.eqb_refl, orb_true_r. cbn. lia.
Qed.

(* (c) an enabled step of the pool or of a running job stays enabled until it is taken: no other step disables it *)
Ltac pers_fin :=
  simp; try congruence;
  repeat match goal with
  | |- context [nth_error (upd ?a ?x ?l) ?b] =>
      destruct (Nat.eq_dec a b) as [?|?]; [subst; try congruence|rewrite (nth_upd_neq a b x l) by assumption]
  end;
  repeat match goal with H : _ = _ |- _ => rewrite H end; try discriminate; try congruence.

Theorem enabled_step_persists s l l' s' : pre_release (dp s) = true -> internal l = true -> l <> RelCall ->
  step s l <> None -> step s l' = Some s' -> l' <> l -> l' <> RelCall -> step s' l <> None.
Proof.
  intros Hp Hi Hl Hen Hs Hne Hl'.
  destruct l; cbn in Hi; try discriminate; try congruence; unfold Gpool.step in Hen;
    repeat match goal with
    | H : context [match ?x with _ => _ end] |- _ => destruct x eqn:?; try discriminate; try (exfalso; apply Hen; reflexivity)
    end.
  all: destruct l'; try congruence; unfold Gpool.step in Hs; brk; injection Hs as <-; unfold Gpool.step; pers_fin.
  all: pers_fin.
Qed.

(* ---------- finite form of the conclusion ---------- *)
(* number of steps of an execution that bring j closer to completion *)
Fixpoint helpful (j : job) (s : st) (ls : list label) : nat :=
  match ls with
  | [] => 0
  | l :: r => match step s l with
              | Some s1 => (if mu j s1 <? mu j s then 1 else 0) + helpful j s1 r
              | None => 0 end
  end.

Theorem helpful_steps_finish ls : forall s s' j, reachable s -> pre_release (dp s) = true -> In j (subm s) ->
  ~ In RelCall ls -> run s ls = Some s' ->
  helpful j s ls + mu j s' <= mu j s /\ (mu j s <= helpful j s ls -> In j (fin s')).
Proof.
  assert (G : forall s s' j, reachable s -> pre_release (dp s) = true -> In j (subm s) ->
              ~ In RelCall ls -> run s ls = Some s' -> helpful j s ls + mu j s' <= mu j s).
  { induction ls as [|l ls IH]; cbn [Gpool.run helpful]; intros s s' j Hr Hp Hj Hn Hrun.
    - inversion Hrun; subst. lia.
    - destruct (step s l) as [s1|] eqn:E; [|discriminate].
      assert (Hl : l <> RelCall) by (intros ->; apply Hn; now left).
      pose proof (mu_nonincreasing s l s1 j Hr Hp Hj Hl E) as Hle.
      specialize (IH s1 s' j (reachable_step _ _ _ _ _ Hr E) (pre_release_step _ _ _ Hp Hl E) (step_subm_mono _ _ _ _ E Hj)
                     (fun X => Hn (or_intror X)) Hrun).
      destruct (mu j s1 <? mu j s) eqn:C; [apply Nat.ltb_lt in C|]; lia. }
  intros s s' j Hr Hp Hj Hn Hrun. pose proof (G s s' j Hr Hp Hj Hn Hrun) as H. split; [exact H|].
  intros Hge. apply mu_zero_iff. lia.
Qed.
End Fair.

(* a concrete instance: two workers, a queue of one; job 3 is queued behind job 2 (in the dispatcher's hand) and job 1 (running);
   while jobs 4 and 5 are sent behind it, 13 of the 19 steps bring job 3 closer and it finishes; job 5 is still queued *)
Example fair_example :
  let s := match run 2 1 (init 2) [SubCall 1; SubCall 2; SubCall 3; Submit 1; DTake; Submit 2; WorkerReg 0; DWorker; Hand; DTake; Submit 3]%N with
           | Some s => s | None => init 2 end in
  let sched := [SubCall 4; JStart 0; WorkerReg 1; DWorker; Hand; DTake; Submit 4; SubCall 5; JEnd 0; JobEnd 0; WorkerReg 0;
                DWorker; Hand; DTake; Submit 5; JStart 0; SubCall 6; JEnd 0; JobEnd 0]%N in
  pre_release (dp s) = true /\ In 3%N (subm s) /\ mu 3%N s = 33 /\ mu 1%N s = 3 /\ mu 2%N s = 25 /\ helpful 2 1 3%N s sched = 13 /\
  match run 2 1 s sched with Some s' => mu 3%N s' = 0 /\ fin s' = [1; 3]%N /\ jobq s' = [5]%N | None => False end.
Proof. vm_compute. repeat split; auto. Qed.
