(* C19 — proofs about Conc/PoolUse.v: with the statement order that the source has (flags read off it by
   PoolSrc.handle_flags) the pool is released only when every request ever handed to it has been executed, for every number
   of connections and requests and every schedule, Shutdown racing with accepts and submissions included; with any one of
   the three orders reversed there is a schedule that releases the pool over a pending request (witnesses). *)
From Coq Require Import List Arith NArith Lia Bool Permutation.
From TarsV Require Import Conc.Gpool Conc.GpoolProofs Conc.PoolSrc Conc.PoolUse.
Import ListNotations.

(* ---------- lists of requests ---------- *)
Lemma pj_eqb_eq a b : pj_eqb a b = true <-> a = b.
Proof.
  unfold pj_eqb. destruct a as [a1 a2], b as [b1 b2]; cbn. rewrite andb_true_iff, Nat.eqb_eq, N.eqb_eq.
  split; [intros [-> ->]; reflexivity|intros E; inversion E; auto].
Qed.
Lemma memp_In p l : memp p l = true <-> In p l.
Proof.
  unfold memp. rewrite existsb_exists. split.
  - intros (x & Hx & E). apply pj_eqb_eq in E. now subst.
  - intros H. exists p. split; auto. now apply pj_eqb_eq.
Qed.
Lemma memp_nIn p l : memp p l = false <-> ~ In p l.
Proof. rewrite <- memp_In. destruct (memp p l); split; intros; try congruence; tauto. Qed.
Lemma rmp_perm p l : In p l -> Permutation l (p :: rmp p l).
Proof.
  induction l as [|x l IH]; cbn; [tauto|]. intros H.
  destruct (pj_eqb p x) eqn:E. { apply pj_eqb_eq in E. now subst. }
  destruct H as [H|H]. { subst. assert (pj_eqb p p = true) by now apply pj_eqb_eq. congruence. }
  rewrite (IH H) at 1. apply perm_swap.
Qed.
Lemma in_rmp p x l : In x (rmp p l) -> In x l.
Proof.
  induction l as [|y l IH]; cbn; [tauto|]. destruct (pj_eqb p y); [tauto|]. intros [H|H]; [now left|right; auto].
Qed.
Lemma owned_app i a b : owned i (a ++ b) = owned i a + owned i b.
Proof. unfold owned. rewrite filter_app, app_length. reflexivity. Qed.
Lemma owned_single i p : owned i [p] = if ownedb i p then 1 else 0.
Proof. unfold owned. cbn. destruct (ownedb i p); reflexivity. Qed.
Lemma owned_insert i a p b : owned i ((a ++ [p]) ++ b) = owned i (a ++ b) + (if ownedb i p then 1 else 0).
Proof. rewrite !owned_app. unfold owned at 2. cbn [filter]. destruct (ownedb i p); cbn [length]; lia. Qed.
Lemma owned_rmp i p l : In p l -> owned i l = owned i (rmp p l) + (if ownedb i p then 1 else 0).
Proof.
  intros H. unfold owned. pose proof (rmp_perm p l H) as P.
  assert (E : length (filter (ownedb i) l) = length (filter (ownedb i) (p :: rmp p l))).
  { apply Permutation_length. clear - P. induction P; cbn; auto.
    - destruct (ownedb i x); auto.
    - destruct (ownedb i x), (ownedb i y); auto. apply perm_swap.
    - etransitivity; eauto. }
  rewrite E. cbn. destruct (ownedb i p); cbn; lia.
Qed.
Lemma owned_zero_nil n l : (forall p, In p l -> fst p < n) -> (forall i, i < n -> owned i l = 0) -> l = [].
Proof.
  intros Hb Hz. destruct l as [|p l]; [reflexivity|]. exfalso.
  specialize (Hz (fst p) (Hb p (or_introl eq_refl))). unfold owned, ownedb in Hz. cbn in Hz. rewrite Nat.eqb_refl in Hz. discriminate.
Qed.

(* ---------- connections ---------- *)
Definition isdonec (p : cpc) : bool := match p with CDone => true | _ => false end.
Definition act (c : conn) : nat := if c_added c && negb (isdonec (c_pc c)) then 1 else 0.
Fixpoint active (l : list conn) : nat := match l with [] => 0 | c :: r => act c + active r end.
Lemma active_upd l : forall i c x, nth_error l i = Some c -> active (upd i x l) + act c = active l + act x.
Proof.
  induction l as [|a l IH]; intros [|i] c x H; cbn [nth_error upd active] in *; try discriminate.
  - inversion H; subst. lia.
  - specialize (IH _ _ x H). lia.
Qed.
Lemma active_app a b : active (a ++ b) = active a + active b.
Proof. induction a; cbn; lia. Qed.
Lemma active_zero l : active l = 0 -> Forall (fun c => c_added c = true) l -> Forall (fun c => c_pc c = CDone) l.
Proof.
  induction l as [|c l IH]; intros H F; [constructor|]. inversion F; subst. cbn in H. unfold act in H. rewrite H2 in H.
  constructor; [destruct (c_pc c); cbn in H; try lia; reflexivity|apply IH; auto; lia].
Qed.
Lemma Forall_upd {A} (P : A -> Prop) l : forall i x, Forall P l -> P x -> Forall P (upd i x l).
Proof.
  induction l as [|a l IH]; intros [|i] x F Hx; cbn; auto; inversion F; subst; constructor; auto.
Qed.
Lemma Forall_nth {A} (P : A -> Prop) l i x : Forall P l -> nth_error l i = Some x -> P x.
Proof. intros F H. rewrite Forall_forall in F. apply F. eapply nth_error_In; eauto. Qed.

Lemma bump_length up i l : length (bump up i l) = length l.
Proof. unfold bump. destruct (nth_error l i); [apply upd_length|reflexivity]. Qed.
Lemma nth_bump_eq up i l c : nth_error l i = Some c ->
  nth_error (bump up i l) i = Some (mkconn (c_pc c) (if up then S (c_ninv c) else pred (c_ninv c)) (c_added c)).
Proof. intros H. unfold bump. rewrite H. apply nth_upd_eq. eapply nth_some_lt; eauto. Qed.
Lemma nth_bump_neq up i k l : i <> k -> nth_error (bump up i l) k = nth_error l k.
Proof. intros H. unfold bump. destruct (nth_error l i); [now apply nth_upd_neq|reflexivity]. Qed.
Lemma active_bump up i l : active (bump up i l) = active l.
Proof.
  unfold bump. destruct (nth_error l i) as [c|] eqn:E; [|reflexivity].
  pose proof (active_upd l i c (mkconn (c_pc c) (if up then S (c_ninv c) else pred (c_ninv c)) (c_added c)) E) as H.
  unfold act in H. cbn [c_added c_pc] in H. lia.
Qed.
Lemma Forall_bump (P : conn -> Prop) up i l :
  (forall c n, P c -> P (mkconn (c_pc c) n (c_added c))) -> Forall P l -> Forall P (bump up i l).
Proof.
  intros HP F. unfold bump. destruct (nth_error l i) as [c|] eqn:E; [|exact F].
  apply Forall_upd; auto. apply HP. eapply Forall_nth; eauto.
Qed.

Definition pj_dec (a b : pj) : {a = b} + {a <> b}.
Proof. decide equality; [apply N.eq_dec|apply Nat.eq_dec]. Defined.
(* permutation goals over request lists, decided by counting occurrences *)
Ltac ppc :=
  let x0 := fresh "x0" in
  apply (Permutation_count_occ pj_dec); intros x0;
  repeat match goal with H : Permutation ?a ?b |- _ =>
    let H' := fresh in pose proof (proj1 (Permutation_count_occ pj_dec a b) H x0) as H'; clear H end;
  rewrite ?count_occ_app in *; cbn [count_occ] in *;
  repeat match goal with
         | |- context [pj_dec ?a x0] => destruct (pj_dec a x0)
         | H : context [pj_dec ?a x0] |- _ => destruct (pj_dec a x0)
         end; lia.

Ltac tsimp := cbn [t_closed t_ap t_conns t_wg t_pend t_runn t_exec t_handed t_released
                   set_closed set_ap set_conns set_wg set_pend set_runn set_exec set_handed set_released] in *.

(* ---------- the invariant, for the statement order of the source ---------- *)
Definition after_wait (a : apc) : bool := match a with AWaited | AReleasing | AReleased | ADone => true | _ => false end.
Definition rel_of (a : apc) : bool := match a with AReleasing | AReleased | ADone => true | _ => false end.

Record Inv (s : tst) : Prop := mkInv {
  iA : t_wg s = active (t_conns s) + (match t_ap s with AAdded => 1 | _ => 0 end);
  iB : Forall (fun c => c_added c = true) (t_conns s);
  iC : forall i c, nth_error (t_conns s) i = Some c -> c_ninv c = owned i (t_pend s ++ t_runn s);
  iD : forall p, In p (t_pend s ++ t_runn s) -> fst p < length (t_conns s);
  iE : forall i c, nth_error (t_conns s) i = Some c -> c_pc c = CDone -> c_ninv c = 0;
  iF : after_wait (t_ap s) = true -> Forall (fun c => c_pc c = CDone) (t_conns s);
  iG : t_released s = rel_of (t_ap s) /\ t_ap s <> AReleased;
  iH : Permutation (t_handed s) (t_pend s ++ t_runn s ++ t_exec s) /\ NoDup (t_handed s) }.

Notation gstep := (tstep good_flags).

Lemma Inv_init : Inv tinit.
Proof.
  constructor; cbn; auto; try (intros [|i] c H; discriminate); try tauto.
  - split; [reflexivity|discriminate].
  - split; [reflexivity|constructor].
Qed.

Lemma nodup_snoc (l : list pj) x : NoDup l -> ~ In x l -> NoDup (l ++ [x]).
Proof. intros H1 H2. eapply Permutation_NoDup; [apply Permutation_cons_append|]. now constructor. Qed.

Lemma Inv_step s l s' : Inv s -> gstep s l = Some s' -> Inv s'.
Proof.
  intros [A B C D E F [G G'] [H H']] Hs.
  destruct l; unfold tstep in Hs; cbn [add_before_go wait_before_release inc_at_submit good_flags] in Hs.
  - (* TShutdown *) injection Hs as <-. constructor; tsimp; auto.
  - (* ACheck *)
    destruct (t_ap s) eqn:Ha; try discriminate. injection Hs as <-.
    constructor; tsimp; auto; destruct (t_closed s); cbn; auto; try discriminate; try (split; [auto|discriminate]).
  - (* AAccept *)
    destruct (t_ap s) eqn:Ha; try discriminate. injection Hs as <-.
    constructor; tsimp; auto; cbn; try discriminate. split; [auto|discriminate].
  - (* ATimeout *)
    destruct (t_ap s) eqn:Ha; try discriminate. injection Hs as <-.
    constructor; tsimp; auto; cbn; try discriminate. split; [auto|discriminate].
  - (* AWgAdd *)
    destruct (t_ap s) eqn:Ha; try discriminate. injection Hs as <-.
    constructor; tsimp; auto; cbn; try discriminate; [lia|split; [auto|discriminate]].
  - (* ASpawn *)
    destruct (t_ap s) eqn:Ha; try discriminate. injection Hs as <-.
    constructor; tsimp; cbn; try discriminate.
    + rewrite active_app. cbn. lia.
    + apply Forall_app. split; [exact B|repeat constructor].
    + intros i c Hn. destruct (Nat.lt_ge_cases i (length (t_conns s))) as [Hl|Hl].
      * rewrite nth_error_app1 in Hn by exact Hl. auto.
      * rewrite nth_error_app2 in Hn by exact Hl. destruct (i - length (t_conns s)) as [|k] eqn:Ek; cbn in Hn; [|destruct k; discriminate].
        injection Hn as <-. cbn. symmetry.
        assert (Z : forall q, In q (t_pend s ++ t_runn s) -> ownedb i q = false).
        { intros q Hq. apply D in Hq. unfold ownedb. apply Nat.eqb_neq. lia. }
        unfold owned. clear - Z. induction (t_pend s ++ t_runn s) as [|q r IH]; [reflexivity|]. cbn.
        rewrite (Z q (or_introl eq_refl)). apply IH. intros x Hx. apply Z. now right.
    + intros p Hp. apply D in Hp. rewrite app_length. cbn. lia.
    + intros i c Hn Hd. destruct (Nat.lt_ge_cases i (length (t_conns s))) as [Hl|Hl].
      * rewrite nth_error_app1 in Hn by exact Hl. eauto.
      * rewrite nth_error_app2 in Hn by exact Hl. destruct (i - length (t_conns s)) as [|k]; cbn in Hn; [|destruct k; discriminate].
        injection Hn as <-. reflexivity.
    + split; [auto|discriminate].
    + split; auto.
  - (* CBegin *)
    destruct (nth_error (t_conns s) i) as [c|] eqn:Hc; try discriminate. destruct (c_pc c) eqn:Hp; try discriminate.
    injection Hs as <-. pose proof (Forall_nth _ _ _ _ B Hc) as Hadd. cbn in Hadd.
    destruct c as [cp cn ca]. cbn [c_pc c_ninv c_added] in *. subst ca.
    pose proof (active_upd _ _ _ (mkconn CRecv cn true) Hc) as U. unfold act in U. cbn [c_added c_pc] in U.
    rewrite Hp in U. cbn in U.
    constructor; tsimp; auto.
    + lia.
    + apply Forall_upd; auto.
    + intros k c' Hn. destruct (Nat.eq_dec i k) as [->|Hne].
      * rewrite nth_upd_eq in Hn by (eapply nth_some_lt; eauto). injection Hn as <-. cbn. apply (C _ _ Hc).
      * rewrite nth_upd_neq in Hn by exact Hne. eauto.
    + rewrite upd_length. exact D.
    + intros k c' Hn Hd. destruct (Nat.eq_dec i k) as [->|Hne].
      * rewrite nth_upd_eq in Hn by (eapply nth_some_lt; eauto). injection Hn as <-. discriminate.
      * rewrite nth_upd_neq in Hn by exact Hne. eauto.
    + intros Hw. specialize (F Hw). pose proof (Forall_nth _ _ _ _ F Hc) as Z. cbn in Z. congruence.
  - (* CSubmit *)
    destruct (nth_error (t_conns s) i) as [c|] eqn:Hc; try discriminate. destruct (c_pc c) eqn:Hp; try discriminate.
    destruct (memp (i, n) (t_handed s)) eqn:Hm; try discriminate. injection Hs as <-. apply memp_nIn in Hm.
    constructor; tsimp; auto.
    + rewrite active_bump. exact A.
    + apply Forall_bump; auto.
    + intros k c' Hn. rewrite owned_insert. unfold ownedb. cbn [fst].
      destruct (Nat.eq_dec i k) as [->|Hne].
      * rewrite (nth_bump_eq _ _ _ _ Hc) in Hn. injection Hn as <-. cbn [c_ninv]. rewrite Nat.eqb_refl.
        rewrite (C _ _ Hc). lia.
      * rewrite nth_bump_neq in Hn by exact Hne. apply Nat.eqb_neq in Hne. rewrite Hne.
        rewrite (C _ _ Hn). lia.
    + intros p Hin. rewrite bump_length. rewrite <- app_assoc in Hin. apply in_app_or in Hin. destruct Hin as [Hin|Hin].
      * apply D. apply in_or_app. now left.
      * destruct Hin as [<-|Hin]; [cbn; eapply nth_some_lt; eauto|apply D; apply in_or_app; now right].
    + intros k c' Hn Hd. destruct (Nat.eq_dec i k) as [->|Hne].
      * rewrite (nth_bump_eq _ _ _ _ Hc) in Hn. injection Hn as <-. cbn in Hd. congruence.
      * rewrite nth_bump_neq in Hn by exact Hne. eauto.
    + intros Hw. specialize (F Hw). pose proof (Forall_nth _ _ _ _ F Hc) as Z. cbn in Z. congruence.
    + split.
      * clear - H. ppc.
      * apply nodup_snoc; auto.
  - (* CLeave *)
    destruct (nth_error (t_conns s) i) as [c|] eqn:Hc; try discriminate. destruct (c_pc c) eqn:Hp; try discriminate.
    injection Hs as <-. pose proof (Forall_nth _ _ _ _ B Hc) as Hadd. cbn in Hadd.
    destruct c as [cp cn ca]. cbn [c_pc c_ninv c_added] in *. subst ca.
    pose proof (active_upd _ _ _ (mkconn CDrain cn true) Hc) as U. unfold act in U. cbn [c_added c_pc] in U.
    rewrite Hp in U. cbn in U.
    constructor; tsimp; auto.
    + lia.
    + apply Forall_upd; auto.
    + intros k c' Hn. destruct (Nat.eq_dec i k) as [->|Hne].
      * rewrite nth_upd_eq in Hn by (eapply nth_some_lt; eauto). injection Hn as <-. cbn. apply (C _ _ Hc).
      * rewrite nth_upd_neq in Hn by exact Hne. eauto.
    + rewrite upd_length. exact D.
    + intros k c' Hn Hd. destruct (Nat.eq_dec i k) as [->|Hne].
      * rewrite nth_upd_eq in Hn by (eapply nth_some_lt; eauto). injection Hn as <-. discriminate.
      * rewrite nth_upd_neq in Hn by exact Hne. eauto.
    + intros Hw. specialize (F Hw). pose proof (Forall_nth _ _ _ _ F Hc) as Z. cbn in Z. congruence.
  - (* CDrained *)
    destruct (nth_error (t_conns s) i) as [c|] eqn:Hc; try discriminate. destruct (c_pc c) eqn:Hp; try discriminate.
    destruct (c_ninv c) eqn:Hn0; try discriminate.
    injection Hs as <-. pose proof (Forall_nth _ _ _ _ B Hc) as Hadd. cbn in Hadd.
    destruct c as [cp cn ca]. cbn [c_pc c_ninv c_added] in *. subst ca.
    pose proof (active_upd _ _ _ (mkconn CDone 0 true) Hc) as U. unfold act in U. cbn [c_added c_pc] in U.
    rewrite Hp in U. cbn in U.
    constructor; tsimp; auto.
    + lia.
    + apply Forall_upd; auto.
    + intros k c' Hn. destruct (Nat.eq_dec i k) as [->|Hne].
      * rewrite nth_upd_eq in Hn by (eapply nth_some_lt; eauto). injection Hn as <-. cbn. rewrite <- (C _ _ Hc). cbn. congruence.
      * rewrite nth_upd_neq in Hn by exact Hne. eauto.
    + rewrite upd_length. exact D.
    + intros k c' Hn Hd. destruct (Nat.eq_dec i k) as [->|Hne].
      * rewrite nth_upd_eq in Hn by (eapply nth_some_lt; eauto). injection Hn as <-. reflexivity.
      * rewrite nth_upd_neq in Hn by exact Hne. eauto.
    + intros Hw. specialize (F Hw). pose proof (Forall_nth _ _ _ _ F Hc) as Z. cbn in Z. congruence.
  - (* PStart *)
    destruct (memp p (t_pend s) && negb (t_released s)) eqn:Hm; try discriminate. injection Hs as <-.
    apply andb_true_iff in Hm. destruct Hm as [Hm _]. apply memp_In in Hm.
    constructor; tsimp; auto.
    + intros k c Hn. rewrite (C _ _ Hn). rewrite !owned_app. rewrite (owned_rmp k p _ Hm), owned_single.
      destruct (ownedb k p); lia.
    + intros q Hq. apply D. apply in_app_or in Hq. apply in_or_app. destruct Hq as [Hq|Hq]; [left; eapply in_rmp; eauto|].
      apply in_app_or in Hq. destruct Hq as [Hq|[<-|[]]]; [now right|now left].
    + split; [|exact H']. pose proof (rmp_perm p _ Hm) as P. clear - H P. ppc.
  - (* PEnd *)
    destruct (memp p (t_runn s)) eqn:Hm; try discriminate. injection Hs as <-. apply memp_In in Hm.
    assert (Hlt : fst p < length (t_conns s)) by (apply D; apply in_or_app; now right).
    destruct (nth_error (t_conns s) (fst p)) as [cp|] eqn:Hcp; [|apply nth_error_None in Hcp; lia].
    assert (Own : ownedb (fst p) p = true) by (unfold ownedb; apply Nat.eqb_refl).
    assert (Hown : 1 <= c_ninv cp).
    { rewrite (C _ _ Hcp), owned_app, (owned_rmp (fst p) p _ Hm), Own. lia. }
    constructor; tsimp; auto.
    + rewrite active_bump. exact A.
    + apply Forall_bump; auto.
    + intros k c Hn. rewrite owned_app. destruct (Nat.eq_dec (fst p) k) as [<-|Hne].
      * rewrite (nth_bump_eq _ _ _ _ Hcp) in Hn. injection Hn as <-. cbn [c_ninv].
        pose proof (C _ _ Hcp) as Z. rewrite owned_app, (owned_rmp (fst p) p _ Hm), Own in Z. lia.
      * rewrite nth_bump_neq in Hn by exact Hne. rewrite (C _ _ Hn), owned_app, (owned_rmp k p _ Hm).
        assert (Oth : ownedb k p = false) by (unfold ownedb; now apply Nat.eqb_neq). rewrite Oth. lia.
    + intros q Hq. rewrite bump_length. apply D. apply in_app_or in Hq. apply in_or_app.
      destruct Hq as [Hq|Hq]; [now left|right; eapply in_rmp; eauto].
    + intros k c Hn Hd. destruct (Nat.eq_dec (fst p) k) as [<-|Hne].
      * rewrite (nth_bump_eq _ _ _ _ Hcp) in Hn. injection Hn as <-. cbn in Hd. pose proof (E _ _ Hcp Hd). lia.
      * rewrite nth_bump_neq in Hn by exact Hne. eauto.
    + intros Hw. apply Forall_bump; auto.
    + split; [|exact H']. pose proof (rmp_perm p _ Hm) as P. clear - H P. ppc.
  - (* AWait *)
    destruct (t_wg s) eqn:Hw; try discriminate. destruct (t_ap s) eqn:Ha; try discriminate. injection Hs as <-.
    constructor; tsimp; auto; cbn; try discriminate.
    + lia.
    + intros _. apply active_zero; auto. lia.
    + split; [auto|discriminate].
  - (* ARelCall *)
    destruct (t_ap s) eqn:Ha; try discriminate. injection Hs as <-.
    constructor; tsimp; auto; cbn; try discriminate; try lia; try (split; [reflexivity|discriminate]).
  - (* ARelRet *)
    destruct (t_ap s) eqn:Ha; try discriminate. destruct (t_runn s) eqn:Hr; try discriminate. injection Hs as <-.
    constructor; tsimp; auto; cbn; try discriminate; try (rewrite Hr; auto; fail); try lia.
    split; [rewrite G; reflexivity|discriminate].
Qed.

Lemma run_Inv ls : forall s s', Inv s -> trun good_flags s ls = Some s' -> Inv s'.
Proof.
  induction ls as [|l ls IH]; cbn; intros s s' HI Hr. { now inversion Hr; subst. }
  destruct (gstep s l) eqn:Es; [|discriminate]. eapply IH; [eapply Inv_step; eauto|eauto].
Qed.
Lemma reachable_Inv s : treachable good_flags s -> Inv s.
Proof. intros [ls H]. eapply run_Inv; [apply Inv_init|exact H]. Qed.

(* ---------- the property ---------- *)
(* every request handed to the pool is, at any time, pending, running or executed — once each *)
Theorem handed_once s : treachable good_flags s ->
  Permutation (t_handed s) (t_pend s ++ t_runn s ++ t_exec s) /\ NoDup (t_pend s ++ t_runn s ++ t_exec s).
Proof.
  intros Hr. destruct (reachable_Inv s Hr) as [_ _ _ _ _ _ _ [H H']]. split; auto. eapply Permutation_NoDup; eauto.
Qed.

(* the pool accepts Release only when every request ever handed to it has been executed, and every connection goroutine has
   ended: nothing is pending, nothing runs, nothing can be handed over afterwards *)
Theorem released_only_when_drained s : treachable good_flags s -> t_released s = true ->
  t_pend s = [] /\ t_runn s = [] /\ Permutation (t_handed s) (t_exec s) /\ Forall (fun c => c_pc c = CDone) (t_conns s).
Proof.
  intros Hr Hrel. destruct (reachable_Inv s Hr) as [A B C D E F [G G'] [H H']].
  assert (Hw : after_wait (t_ap s) = true).
  { rewrite G in Hrel. destruct (t_ap s); cbn in *; congruence. }
  specialize (F Hw).
  assert (Z : t_pend s ++ t_runn s = []).
  { apply (owned_zero_nil (length (t_conns s))); [exact D|]. intros i Hi.
    destruct (nth_error (t_conns s) i) as [c|] eqn:Hc; [|apply nth_error_None in Hc; lia].
    rewrite <- (C _ _ Hc). apply (E _ _ Hc). exact (Forall_nth _ _ _ _ F Hc). }
  apply app_eq_nil in Z. destruct Z as [Z1 Z2]. rewrite Z1, Z2 in H. repeat split; auto.
Qed.

Corollary nothing_handed_over_after_release s i n s' : treachable good_flags s -> t_released s = true ->
  gstep s (CSubmit i n) = Some s' -> False.
Proof.
  intros Hr Hrel Hs. destruct (released_only_when_drained s Hr Hrel) as (_ & _ & _ & F).
  unfold tstep in Hs. destruct (nth_error (t_conns s) i) as [c|] eqn:Hc; try discriminate.
  pose proof (Forall_nth _ _ _ _ F Hc) as Z. cbn in Z. rewrite Z in Hs. discriminate.
Qed.

(* and the shutdown is not stuck: a step is enabled until Handle has returned (jobs terminate, peers may leave) *)
Theorem shutdown_progress s : treachable good_flags s -> t_closed s = true -> t_ap s <> ADone ->
  exists l s', l <> TShutdown /\ gstep s l = Some s'.
Proof.
  intros Hr Hcl Hnd. destruct (reachable_Inv s Hr) as [A B C D E F [G G'] [H H']].
  (* a connection that has not ended, or a request in the pool, can move *)
  assert (Hconn : forall i c, nth_error (t_conns s) i = Some c -> c_pc c <> CDone -> t_released s = false ->
                  exists l s', l <> TShutdown /\ gstep s l = Some s').
  { intros i c Hc Hp Hrel. destruct (c_pc c) eqn:Ep; try congruence.
    - exists (CBegin i). eexists. split; [discriminate|]. unfold tstep. rewrite Hc, Ep. reflexivity.
    - exists (CLeave i). eexists. split; [discriminate|]. unfold tstep. rewrite Hc, Ep. reflexivity.
    - destruct (c_ninv c) eqn:En.
      + exists (CDrained i). eexists. split; [discriminate|]. unfold tstep. rewrite Hc, Ep, En. reflexivity.
      + (* one of its requests is pending or running *)
        pose proof (C _ _ Hc) as Z. rewrite En, owned_app in Z.
        destruct (t_runn s) as [|q r] eqn:Er.
        * destruct (t_pend s) as [|q r] eqn:Epd; [cbn in Z; lia|].
          exists (PStart q). eexists. split; [discriminate|]. unfold tstep. rewrite Epd, Hrel. cbn [memp existsb].
          assert (pj_eqb q q = true) by now apply pj_eqb_eq. rewrite H0. reflexivity.
        * exists (PEnd q). eexists. split; [discriminate|]. unfold tstep. rewrite Er. cbn [memp existsb].
          assert (pj_eqb q q = true) by now apply pj_eqb_eq. rewrite H0. reflexivity. }
  destruct (t_ap s) eqn:Ha; try congruence.
  - exists ACheck. eexists. split; [discriminate|]. unfold tstep. rewrite Ha. reflexivity.
  - exists ATimeout. eexists. split; [discriminate|]. unfold tstep. rewrite Ha. reflexivity.
  - exists AWgAdd. eexists. split; [discriminate|]. unfold tstep. rewrite Ha. reflexivity.
  - exists ASpawn. eexists. split; [discriminate|]. unfold tstep. rewrite Ha. reflexivity.
  - (* ATail: either recvDone is zero, or a counted connection has not ended *)
    destruct (t_wg s) eqn:Hw.
    + exists AWait. eexists. split; [discriminate|]. unfold tstep. rewrite Hw, Ha. reflexivity.
    + assert (Hex : exists i c, nth_error (t_conns s) i = Some c /\ c_pc c <> CDone).
      { assert (Hact : 0 < active (t_conns s)) by lia. clear - Hact. induction (t_conns s) as [|c l IH]; cbn in Hact; [lia|].
        unfold act in Hact at 1. destruct (c_added c && negb (isdonec (c_pc c))) eqn:Ec.
        - exists 0, c. split; [reflexivity|]. apply andb_true_iff in Ec. destruct Ec as [_ Ec]. destruct (c_pc c); cbn in Ec; congruence.
        - destruct IH as (i & c' & Hc' & Hp'); [lia|]. exists (S i), c'. auto. }
      destruct Hex as (i & c & Hc & Hp). apply (Hconn i c Hc Hp). rewrite G. reflexivity.
  - exists ARelCall. eexists. split; [discriminate|]. unfold tstep. rewrite Ha. reflexivity.
  - (* AReleasing: nothing runs (everything was drained before the release) *)
    assert (Hrel : t_released s = true) by (rewrite G; reflexivity).
    destruct (released_only_when_drained s Hr Hrel) as (_ & Hrn & _).
    exists ARelRet. eexists. split; [discriminate|]. unfold tstep. rewrite Ha, Hrn. reflexivity.
Qed.

(* ---------- refinement: the events of every execution pass the check applied to the recorded server traces ---------- *)
Lemma pruns_app σ a b : pruns σ (a ++ b) = match pruns σ a with Some σ' => pruns σ' b | None => None end.
Proof. revert σ. induction a as [|e a IH]; intros σ; cbn; [reflexivity|]. destruct (pstep σ e); auto. Qed.

Definition PSim (s : tst) (σ : pst) : Prop :=
  p_read σ = t_handed s /\
  (forall x, In x (p_started σ) <-> In x (t_runn s ++ t_exec s)) /\
  (forall x, In x (p_ended σ) <-> In x (t_exec s)) /\
  (p_rel σ = true <-> t_ap s = ADone).

Lemma reachable_tstep s l s' : treachable good_flags s -> gstep s l = Some s' -> treachable good_flags s'.
Proof.
  intros [ls H] Hs. exists (ls ++ [l]). revert H. generalize tinit. induction ls as [|a ls IH]; cbn; intros s0 H.
  - inversion H; subst. now rewrite Hs.
  - destruct (gstep s0 a); [|discriminate]. auto.
Qed.

Lemma psim_step s l s' σ : treachable good_flags s -> gstep s l = Some s' -> PSim s σ ->
  exists σ', pruns σ (pev l) = Some σ' /\ PSim s' σ'.
Proof.
  intros Hr Hs (S1 & S2 & S3 & S4).
  destruct (reachable_Inv s Hr) as [A B C D E F [G G'] [H H']].
  destruct (handed_once s Hr) as [_ HN].
  assert (Hrel : p_rel σ = true -> t_released s = true).
  { intros X. apply S4 in X. rewrite G, X. reflexivity. }
  assert (Hnrel : t_released s = false -> p_rel σ = false).
  { intros X. destruct (p_rel σ) eqn:Y; [|reflexivity]. rewrite (Hrel eq_refl) in X. discriminate. }
  destruct l; cbn [pev pruns].
  1-7, 9-10, 13-14: (exists σ; split; [reflexivity|]; unfold tstep in Hs;
    cbn [add_before_go wait_before_release inc_at_submit good_flags] in Hs;
    repeat match goal with H : context [match ?x with _ => _ end] |- _ => destruct x eqn:?; try discriminate end;
    injection Hs as <-; unfold PSim; tsimp; repeat split; auto; try apply S2; try apply S3; try apply S4;
    try (intros X; apply S4 in X; congruence); try (intros X; discriminate); try (intros X; apply S4; congruence)).
  - (* CSubmit *)
    pose proof Hs as Hs0. unfold tstep in Hs. cbn [inc_at_submit good_flags] in Hs.
    destruct (nth_error (t_conns s) i) as [c|] eqn:Hc; try discriminate. destruct (c_pc c) eqn:Hp; try discriminate.
    destruct (memp (i, n) (t_handed s)) eqn:Hm; try discriminate. injection Hs as <-.
    assert (R : p_rel σ = false).
    { destruct (p_rel σ) eqn:Y; [|reflexivity]. exfalso. eapply nothing_handed_over_after_release; eauto. }
    unfold pstep. rewrite R, S1, Hm. cbn [orb]. eexists. split; [reflexivity|].
    unfold PSim; tsimp; cbn [p_read p_started p_ended p_rel]. repeat split; auto; try apply S2; try apply S3; try apply S4.
    + intros X. discriminate.
    + intros X. rewrite <- R. now apply S4.
  - (* PStart *)
    unfold tstep in Hs. cbn [inc_at_submit good_flags] in Hs.
    destruct (memp p (t_pend s) && negb (t_released s)) eqn:Hm; try discriminate. injection Hs as <-.
    apply andb_true_iff in Hm. destruct Hm as [Hm Hnr]. apply memp_In in Hm. apply negb_true_iff in Hnr.
    assert (R1 : memp p (p_read σ) = true).
    { apply memp_In. rewrite S1. eapply Permutation_in; [symmetry; exact H|]. apply in_or_app. now left. }
    assert (R2 : memp p (p_started σ) = false).
    { apply memp_nIn. intros X. apply S2 in X. eapply NoDup_app_disj; [exact HN|exact Hm|exact X]. }
    unfold pstep. rewrite (Hnrel Hnr), R1, R2. cbn [orb negb]. eexists. split; [reflexivity|].
    unfold PSim; tsimp; cbn [p_read p_started p_ended p_rel]. repeat split; auto; try apply S3; try apply S4.
    + intros X. apply in_app_or in X. destruct X as [X|[<-|[]]].
      * apply S2 in X. apply in_app_or in X. apply in_or_app. destruct X as [X|X]; [left; apply in_or_app; now left|now right].
      * apply in_or_app. left. apply in_or_app. right. now left.
    + intros X. apply in_or_app. apply in_app_or in X. destruct X as [X|X].
      * apply in_app_or in X. destruct X as [X|[<-|[]]]; [left; apply S2; apply in_or_app; now left|right; now left].
      * left. apply S2. apply in_or_app. now right.
    + intros X. discriminate.
    + intros X. rewrite <- (Hnrel Hnr). now apply S4.
  - (* PEnd *)
    unfold tstep in Hs. destruct (memp p (t_runn s)) eqn:Hm; try discriminate. injection Hs as <-. apply memp_In in Hm.
    assert (R1 : memp p (p_started σ) = true). { apply memp_In. apply S2. apply in_or_app. now left. }
    assert (R2 : memp p (p_ended σ) = false).
    { apply memp_nIn. intros X. apply S3 in X. apply NoDup_app_tail in HN. eapply NoDup_app_disj; [exact HN|exact Hm|exact X]. }
    unfold pstep. rewrite R1, R2. cbn [andb negb]. eexists. split; [reflexivity|].
    pose proof (rmp_perm p _ Hm) as P.
    unfold PSim; tsimp; cbn [p_read p_started p_ended p_rel]. repeat split; auto; try apply S4.
    + intros X. apply S2 in X. apply in_app_or in X. apply in_or_app. destruct X as [X|X].
      * apply (Permutation_in _ P) in X. destruct X as [<-|X]; [right; apply in_or_app; right; now left|now left].
      * right. apply in_or_app. now left.
    + intros X. apply S2. apply in_app_or in X. apply in_or_app. destruct X as [X|X]; [left; eapply in_rmp; eauto|].
      apply in_app_or in X. destruct X as [X|[<-|[]]]; [now right|now left].
    + intros X. apply in_app_or in X. apply in_or_app. destruct X as [X|[<-|[]]]; [left; now apply S3|right; now left].
    + intros X. apply in_app_or in X. apply in_or_app. destruct X as [X|X]; [left; now apply S3|now right].
  - (* ARelRet *)
    unfold tstep in Hs. cbn [wait_before_release good_flags] in Hs.
    destruct (t_ap s) eqn:Ha; try discriminate. destruct (t_runn s) eqn:Hrn; try discriminate. injection Hs as <-.
    assert (Hrl : t_released s = true) by (rewrite G; reflexivity).
    destruct (released_only_when_drained s Hr Hrl) as (_ & _ & HP & _).
    assert (R : p_rel σ = false).
    { destruct (p_rel σ) eqn:Y; [|reflexivity]. destruct S4 as [S4a _]. specialize (S4a eq_refl). discriminate. }
    assert (R2 : forallb (fun p => memp p (p_ended σ)) (p_read σ) = true).
    { apply forallb_forall. intros x Hx. apply memp_In. apply S3. rewrite S1 in Hx. eapply Permutation_in; eauto. }
    unfold pstep. rewrite R, R2. cbn [negb andb]. eexists. split; [reflexivity|].
    unfold PSim; tsimp; cbn [p_read p_started p_ended p_rel]. repeat split; auto; try apply S2; try apply S3.
    all: rewrite Hrn; apply S2.
Qed.

Theorem server_traces_accepted ls s : trun good_flags tinit ls = Some s -> puse_ok (ptrace good_flags tinit ls) = true.
Proof.
  intros Hrun.
  assert (G : forall ls s0 s1 σ, treachable good_flags s0 -> trun good_flags s0 ls = Some s1 -> PSim s0 σ ->
              exists σ', pruns σ (ptrace good_flags s0 ls) = Some σ').
  { clear. induction ls as [|l ls IH]; cbn; intros s0 s1 σ Hr Hrun HS. { eauto. }
    destruct (gstep s0 l) as [s'|] eqn:E; [|discriminate].
    destruct (psim_step s0 l s' σ Hr E HS) as (σ1 & P1 & S1).
    destruct (IH s' s1 σ1 (reachable_tstep _ _ _ Hr E) Hrun S1) as (σ' & P').
    exists σ'. rewrite pruns_app, P1. exact P'. }
  assert (R0 : treachable good_flags tinit) by (exists []; reflexivity).
  assert (S0 : PSim tinit pinit).
  { unfold PSim. cbn. repeat split; auto; try tauto; intros X; discriminate. }
  destruct (G ls tinit s pinit R0 Hrun S0) as (σ' & P). unfold puse_ok. now rewrite P.
Qed.

(* the check is not vacuous: it rejects a return of Handle over a request that was read and not executed, a request read after the
   return, a start after the return *)
Example puse_rejects :
  let a : pj := (0, 1%N) in let b : pj := (0, 2%N) in
  puse_ok [PRead a; PStartE a; PEndE a; PRead b; PRelRetE] = false /\
  puse_ok [PRead a; PStartE a; PEndE a; PRelRetE; PRead b] = false /\
  puse_ok [PRead a; PRead b; PStartE a; PEndE a; PRelRetE] = false /\
  puse_ok [PRead a; PRead b; PStartE a; PStartE b; PEndE b; PEndE a; PRelRetE] = true.
Proof. vm_compute. repeat split. Qed.

(* ---------- the other statement orders lose requests: witnesses ---------- *)
Definition witness_add_inside : list tlabel :=      (* recvDone.Add(1) inside the connection goroutine (seeded C19-m14) *)
  [ACheck; AAccept; ASpawn; TShutdown; ACheck; AWait; ARelCall; ARelRet; CBegin 0; CSubmit 0 1%N].
Definition witness_release_first : list tlabel :=   (* pool.Release() before recvDone.Wait() (seeded C19-m8 / the unrepaired Handle) *)
  [ACheck; AAccept; AWgAdd; ASpawn; CBegin 0; CSubmit 0 1%N; TShutdown; ACheck; ARelCall].
Definition witness_count_at_start : list tlabel :=  (* numInvoke incremented when the handler starts (seeded C19-m5) *)
  [ACheck; AAccept; AWgAdd; ASpawn; CBegin 0; CSubmit 0 1%N; TShutdown; CLeave 0; CDrained 0; ACheck; AWait; ARelCall].

Theorem add_inside_loses_requests :
  exists s, trun (mkflags false true true) tinit witness_add_inside = Some s /\ lost_request s = true /\ t_ap s = ADone.
Proof. eexists. split; [vm_compute; reflexivity|]. split; reflexivity. Qed.
Theorem release_first_loses_requests :
  exists s, trun (mkflags true false true) tinit witness_release_first = Some s /\ lost_request s = true.
Proof. eexists. split; [vm_compute; reflexivity|]. reflexivity. Qed.
Theorem count_at_start_loses_requests :
  exists s, trun (mkflags true true false) tinit witness_count_at_start = Some s /\ lost_request s = true.
Proof. eexists. split; [vm_compute; reflexivity|]. reflexivity. Qed.
(* with the order of the source no reachable state has a lost request *)
Theorem no_lost_request s : treachable good_flags s -> lost_request s = false.
Proof.
  intros Hr. unfold lost_request. destruct (t_released s) eqn:Hrel; [|reflexivity].
  destruct (released_only_when_drained s Hr Hrel) as (-> & _). reflexivity.
Qed.

(* a concrete run of the good order: two connections, three requests, Shutdown while two of them are queued; Handle returns with
   all three executed *)
Example pooluse_example :
  let a : pj := (0, 1%N) in let b : pj := (1, 1%N) in let c : pj := (1, 2%N) in
  match trun good_flags tinit
    [ACheck; AAccept; AWgAdd; ASpawn; ACheck; AAccept; AWgAdd; ASpawn; CBegin 0; CBegin 1; CSubmit 0 1%N; CSubmit 1 1%N; CSubmit 1 2%N;
     PStart a; TShutdown; ACheck; CLeave 1; CLeave 0; PEnd a; CDrained 0; PStart b; PStart c; PEnd c; PEnd b;
     CDrained 1; AWait; ARelCall; ARelRet] with
  | Some s => t_ap s = ADone /\ t_released s = true /\ t_exec s = [a; c; b] /\ t_pend s = [] /\ t_wg s = 0
  | None => False end.
Proof. vm_compute. repeat split. Qed.
