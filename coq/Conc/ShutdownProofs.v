(* C12 — proofs about the shutdown transition system of Conc/Shutdown.v: invariants over ALL label sequences
   (any number of connections and requests, any pool size and queue capacity, any interleaving). *)
From Coq Require Import List NArith Bool Arith Lia.
From TarsV Require Import Conc.Shutdown.
Import ListNotations.

(* ---------------------------------------------------------------------------------------------------------- *)
(* small facts *)

Lemma req_eqb_eq : forall a b, req_eqb a b = true <-> a = b.
Proof.
  intros [a1 a2] [b1 b2]. unfold req_eqb. cbn. rewrite andb_true_iff, !Nat.eqb_eq. split.
  - intros [-> ->]. reflexivity.
  - intros H. inversion H. auto.
Qed.

Lemma req_eqb_refl : forall a, req_eqb a a = true.
Proof. intros. apply req_eqb_eq. reflexivity. Qed.

Lemma in_remove_req : forall q x l, In x (remove_req q l) <-> In x l /\ x <> q.
Proof.
  intros. unfold remove_req. rewrite filter_In. split; intros [H1 H2]; split; auto.
  - intros ->. rewrite req_eqb_refl in H2. discriminate.
  - destruct (req_eqb x q) eqn:E; auto. apply req_eqb_eq in E. contradiction.
Qed.

Lemma in_remove_nat : forall r x l, In x (remove_nat r l) <-> In x l /\ x <> r.
Proof.
  intros. unfold remove_nat. rewrite filter_In. split; intros [H1 H2]; split; auto.
  - intros ->. rewrite Nat.eqb_refl in H2. discriminate.
  - destruct (x =? r) eqn:E; auto. apply Nat.eqb_eq in E. contradiction.
Qed.

Lemma existsb_req_in : forall q l, existsb (req_eqb q) l = true <-> In q l.
Proof.
  intros. rewrite existsb_exists. split.
  - intros [x [Hin He]]. apply req_eqb_eq in He. subst. auto.
  - intros. exists q. split; auto. apply req_eqb_refl.
Qed.

Lemma cstate_eqb_eq : forall a b, cstate_eqb a b = true <-> a = b.
Proof. destruct a, b; cbn; split; intros; congruence. Qed.

Lemma rstate_eqb_eq : forall a b, rstate_eqb a b = true <-> a = b.
Proof. destruct a, b; cbn; split; intros; congruence. Qed.

Lemma upd_eq : forall A (f : nat -> A) k v, upd f k v k = v.
Proof. intros. unfold upd. rewrite Nat.eqb_refl. reflexivity. Qed.

Lemma upd_neq : forall A (f : nat -> A) k v x, x <> k -> upd f k v x = f x.
Proof. intros. unfold upd. destruct (x =? k) eqn:E; auto. apply Nat.eqb_eq in E. contradiction. Qed.

Lemma upd2_eq : forall A (f : nat -> nat -> A) k1 k2 v, upd2 f k1 k2 v k1 k2 = v.
Proof. intros. unfold upd2. rewrite !Nat.eqb_refl. reflexivity. Qed.

Lemma upd2_neq : forall A (f : nat -> nat -> A) k1 k2 v x y, (x, y) <> (k1, k2) -> upd2 f k1 k2 v x y = f x y.
Proof.
  intros. unfold upd2. destruct (x =? k1) eqn:E1; destruct (y =? k2) eqn:E2; cbn; auto.
  apply Nat.eqb_eq in E1, E2. subst. contradiction.
Qed.

(* case analysis on a key against an updated key *)
Ltac key1 x k :=
  let E := fresh "E" in
  destruct (Nat.eq_dec x k) as [E | E];
  [ subst; rewrite ?upd_eq in * | rewrite ?(upd_neq _ _ k _ x E) in * ].

Ltac key2 x y k1 k2 :=
  let E := fresh "E" in
  destruct (Nat.eq_dec x k1) as [E | E];
  [ subst; destruct (Nat.eq_dec y k2) as [E | E];
    [ subst; rewrite ?upd2_eq in *
    | assert ((k1, y) <> (k1, k2)) by congruence ]
  | assert ((x, y) <> (k1, k2)) by congruence ].

(* open one step: case analysis on the label and on every guard *)
Ltac open_step H :=
  unfold step in H;
  match type of H with
  | (if negb (alive ?p) then _ else _) = _ => destruct (alive p) eqn:Halive; cbn [negb] in H; [|discriminate H]
  end;
  match type of H with
  | match ?l with LConnect _ => _ | _ => _ end = _ => destruct l
  end;
  repeat match type of H with
  | (if ?b then _ else _) = Some _ => destruct b eqn:?; try discriminate H
  | match ?x with _ => _ end = Some _ => destruct x eqn:?; try discriminate H
  end;
  inversion H; subst; clear H;
  unfold set_aux, set_conn, set_srv, set_req in *; cbn [ph listen inpoll known cst inmap notified polled busy pend rs queue hand running stopped earlypoll rdbuf chk raced] in *.

Ltac split_guards :=
  repeat match goal with
  | H : _ && _ = true |- _ => apply andb_true_iff in H; destruct H
  | H : negb _ = true |- _ => apply negb_true_iff in H
  | H : cstate_eqb _ _ = true |- _ => apply cstate_eqb_eq in H
  | H : rstate_eqb _ _ = true |- _ => apply rstate_eqb_eq in H
  | H : req_eqb _ _ = true |- _ => apply req_eqb_eq in H
  | H : (_ =? _) = true |- _ => apply Nat.eqb_eq in H
  | H : (_ =? _) = false |- _ => apply Nat.eqb_neq in H
  end.

(* split on whether a looked-up key is the updated key *)
Ltac upd_cases :=
  repeat first
  [ match goal with
    | |- context[upd _ ?k _ ?x] =>
        destruct (Nat.eq_dec x k); [subst; rewrite ?upd_eq in * | rewrite ?(upd_neq _ _ k _ x) in * by assumption]
    | H : context[upd _ ?k _ ?x] |- _ =>
        destruct (Nat.eq_dec x k); [subst; rewrite ?upd_eq in * | rewrite ?(upd_neq _ _ k _ x) in * by assumption]
    end
  | match goal with
    | |- context[upd2 _ ?k1 ?k2 _ ?x ?y] =>
        destruct (Nat.eq_dec x k1); [subst; destruct (Nat.eq_dec y k2); [subst; rewrite ?upd2_eq in *
          | rewrite ?(upd2_neq _ _ k1 k2 _ k1 y) in * by congruence]
          | rewrite ?(upd2_neq _ _ k1 k2 _ x y) in * by congruence]
    | H : context[upd2 _ ?k1 ?k2 _ ?x ?y] |- _ =>
        destruct (Nat.eq_dec x k1); [subst; destruct (Nat.eq_dec y k2); [subst; rewrite ?upd2_eq in *
          | rewrite ?(upd2_neq _ _ k1 k2 _ k1 y) in * by congruence]
          | rewrite ?(upd2_neq _ _ k1 k2 _ x y) in * by congruence]
    end ].

Section Proofs.
Variable W : nat.
Variable cap : N.
Variable early : bool.
Notation stepW := (step W cap early).
Notation runW := (run W cap early).

Definition reachable (s : state) : Prop := exists ls, runW init ls = Some s.

Lemma run_app : forall l1 l2 s, runW s (l1 ++ l2) = match runW s l1 with Some s' => runW s' l2 | None => None end.
Proof.
  induction l1; intros; cbn; auto. destruct (stepW s a); auto.
Qed.

Lemma reachable_ind' : forall P : state -> Prop,
  P init ->
  (forall s l s', reachable s -> P s -> stepW s l = Some s' -> P s') ->
  forall s, reachable s -> P s.
Proof.
  intros P H0 HS s [ls Hr]. revert s Hr.
  induction ls using rev_ind; intros s Hr.
  - cbn in Hr. inversion Hr. subst. exact H0.
  - rewrite run_app in Hr. destruct (runW init ls) as [s1|] eqn:E; [|discriminate].
    cbn in Hr. destruct (stepW s1 x) as [s2|] eqn:E2; [|discriminate]. inversion Hr. subst.
    apply (HS s1 x s); auto. exists ls. exact E.
Qed.

Lemma reachable_step : forall s l s', reachable s -> stepW s l = Some s' -> reachable s'.
Proof.
  intros s l s' [ls H] Hs. exists (ls ++ [l]). rewrite run_app, H. cbn. rewrite Hs. reflexivity.
Qed.


(* ---------------------------------------------------------------------------------------------------------- *)
(* Safety invariant: numInvoke (the ghost list busy) covers every request read and not answered; a connection is
   only ever closed with busy = []; nothing is ever Lost. *)

Record Safe (s : state) : Prop := {
  S_known : forall c, cst s c <> CNone <-> In c (known s);
  S_map : forall c, inmap s c = false -> cst s c = CClosed \/ cst s c = CNone;
  S_nomap : forall c, cst s c = CNone -> inmap s c = false;
  S_busy : forall c r, unanswered (rs s c r) = true -> In r (busy s c);
  S_none : forall c, cst s c = CNone -> busy s c = [] /\ rdbuf s c = None;
  S_queue : forall c r, In (c, r) (queue s) -> rs s c r = Queued;
  S_hand : forall c r, hand s = Some (c, r) -> rs s c r = InHand;
  S_rd : forall c r, rdbuf s c = Some r -> rs s c r = InFlight /\ pend s c = None /\ (cst s c = COpen \/ cst s c = CClosed);
  S_live : forall c, busy s c <> [] \/ rdbuf s c <> None -> inmap s c = true;
  S_chk : forall c, chk s c = true -> inpoll s = true /\ In c (known s) /\ ph s <> SRun
}.

Lemma init_Safe : Safe init.
Proof.
  constructor; cbn; intros; try discriminate; auto; try contradiction.
  - split; intros; [congruence | contradiction].
  - destruct H; congruence.
Qed.

Lemma nochk_false : forall s, nochk s = true -> forall c, In c (known s) -> chk s c = false.
Proof.
  unfold nochk. intros s H c Hc. rewrite forallb_forall in H. apply H in Hc. apply negb_true_iff in Hc. exact Hc.
Qed.

Lemma step_S_known : forall s l s', Safe s -> stepW s l = Some s' -> forall c, cst s' c <> CNone <-> In c (known s').
Proof.
  intros s l s' [J1 J2 J2' J3 J4 J6 J7 J8 J9 J10] H c0.
  open_step H; split_guards; upd_cases; try apply J1.
  all: match goal with |- _ <-> In ?c _ => pose proof (J1 c) as Hk; cbn [In]; intuition congruence end.
Qed.

Lemma step_S_map : forall s l s', Safe s -> stepW s l = Some s' ->
  forall c, inmap s' c = false -> cst s' c = CClosed \/ cst s' c = CNone.
Proof.
  intros s l s' [J1 J2 J2' J3 J4 J6 J7 J8 J9 J10] H c0 Hm.
  open_step H; split_guards; upd_cases; try (apply J2; assumption); try discriminate; auto.
Qed.

Lemma step_S_nomap : forall s l s', Safe s -> stepW s l = Some s' ->
  forall c, cst s' c = CNone -> inmap s' c = false.
Proof.
  intros s l s' [J1 J2 J2' J3 J4 J6 J7 J8 J9 J10] H c0 Hm.
  open_step H; split_guards; upd_cases; try (apply J2'; assumption); try discriminate; auto.
Qed.

Lemma step_S_none : forall s l s', Safe s -> stepW s l = Some s' ->
  forall c, cst s' c = CNone -> busy s' c = [] /\ rdbuf s' c = None.
Proof.
  intros s l s' [J1 J2 J2' J3 J4 J6 J7 J8 J9 J10] H c0 Hm.
  open_step H; split_guards; upd_cases; try (apply J4; assumption); auto; try congruence; try discriminate.
  all: try (destruct (J4 _ Hm) as [Hb Hr]; split; auto; try (rewrite Hb; reflexivity); congruence).
  all: try (destruct (J8 _ _ ltac:(eassumption)) as [_ [_ [Hx | Hx]]]; congruence).
Qed.

Lemma step_S_busy : forall s l s', Safe s -> stepW s l = Some s' ->
  forall c r, unanswered (rs s' c r) = true -> In r (busy s' c).
Proof.
  intros s l s' [J1 J2 J2' J3 J4 J6 J7 J8 J9 J10] H c0 r0 Hu.
  open_step H; split_guards; upd_cases; try (apply J3; assumption); try discriminate; cbn [In]; auto.
  all: try (apply J3; match goal with Hx : rs _ ?c ?r = _ |- context[rs _ ?c ?r] => rewrite Hx; reflexivity end).
  all: try (apply in_remove_nat; split; auto; fail).
  all: try (match goal with Hx : unanswered (if ?b then _ else _) = true |- _ => destruct b; discriminate end).
  - apply J3. rewrite (J6 c r) by (apply existsb_req_in; assumption). reflexivity.
  - subst. apply J3. rewrite (J7 c r) by reflexivity. reflexivity.
Qed.

Lemma step_S_queue : forall s l s', Safe s -> stepW s l = Some s' ->
  forall c r, In (c, r) (queue s') -> rs s' c r = Queued.
Proof.
  intros s l s' [J1 J2 J2' J3 J4 J6 J7 J8 J9 J10] H c0 r0 Hq.
  open_step H; split_guards.
  all: try (apply in_remove_req in Hq; destruct Hq as [Hq Hne]).
  all: try (apply in_app_iff in Hq; cbn [In] in Hq; destruct Hq as [Hq | [Hq | []]]; [| inversion Hq; subst ]).
  all: upd_cases; try (apply J6; assumption); auto; try congruence.
  all: try (pose proof (J6 _ _ Hq); congruence).
  pose proof (J6 _ _ Hq). pose proof (J7 c r eq_refl). congruence.
Qed.

Lemma step_S_hand : forall s l s', Safe s -> stepW s l = Some s' ->
  forall c r, hand s' = Some (c, r) -> rs s' c r = InHand.
Proof.
  intros s l s' [J1 J2 J2' J3 J4 J6 J7 J8 J9 J10] H c0 r0 Hq.
  open_step H; split_guards; try discriminate.
  all: try (inversion Hq; subst).
  all: upd_cases; try (apply J7; assumption); auto; try congruence.
  all: try (pose proof (J7 _ _ Hq); congruence).
Qed.

Lemma step_S_rd : forall s l s', Safe s -> stepW s l = Some s' ->
  forall c r, rdbuf s' c = Some r -> rs s' c r = InFlight /\ pend s' c = None /\ (cst s' c = COpen \/ cst s' c = CClosed).
Proof.
  intros s l s' [J1 J2 J2' J3 J4 J6 J7 J8 J9 J10] H c0 r0 Hq.
  open_step H; split_guards; upd_cases; try (apply J8; assumption); try discriminate; auto.
  all: try (destruct (J8 _ _ Hq) as [Ha [Hb Hc]]; repeat split; auto; try congruence; destruct Hc; congruence).
  all: try (inversion Hq; subst; repeat split; auto; congruence).
  - destruct (J8 _ _ Hq) as [Ha _]. apply existsb_req_in in H0. pose proof (J6 _ _ H0). congruence.
  - subst. destruct (J8 _ _ Hq) as [Ha _]. pose proof (J7 c r eq_refl). congruence.
Qed.

Lemma step_S_live : forall s l s', Safe s -> stepW s l = Some s' ->
  forall c, busy s' c <> [] \/ rdbuf s' c <> None -> inmap s' c = true.
Proof.
  intros s l s' [J1 J2 J2' J3 J4 J6 J7 J8 J9 J10] H c0 Hq.
  open_step H; split_guards; upd_cases; try (apply J9; assumption); auto.
  all: try (apply J9; right; congruence).
  all: try (apply J9; destruct Hq as [Hq | Hq]; [left; intro Hb; rewrite Hb in Hq; cbn in Hq; contradiction | right; auto]; fail).
  all: try (destruct (inmap s c) eqn:E; auto; destruct (J2 c E); congruence).
  all: try (exfalso; destruct Hq as [Hq | Hq]; [congruence|];
            destruct (rdbuf s c) as [r1|] eqn:Er; [destruct (J8 _ _ Er) as [_ [_ [Hx | Hx]]]; congruence | congruence]).
Qed.

Lemma step_S_chk : forall s l s', Safe s -> stepW s l = Some s' ->
  forall c, chk s' c = true -> inpoll s' = true /\ In c (known s') /\ ph s' <> SRun.
Proof.
  intros s l s' [J1 J2 J2' J3 J4 J6 J7 J8 J9 J10] H c0 Hq.
  open_step H; split_guards; upd_cases; try (apply J10; assumption); try discriminate; cbn [In]; auto.
  all: try (destruct (J10 _ Hq) as [Ha [Hb Hc]]; repeat split; auto; congruence).
  all: try (split; [assumption|]; split; [apply J1; congruence|]; destruct (ph s); cbn in *; congruence).
  all: try (exfalso; destruct (J10 _ Hq) as [_ [Hb _]];
            match goal with Hn : nochk _ = true |- _ => rewrite (nochk_false _ Hn _ Hb) in Hq; discriminate end).
Qed.

Lemma step_Safe : forall s l s', Safe s -> stepW s l = Some s' -> Safe s'.
Proof.
  intros s l s' HS H. constructor.
  - eapply step_S_known; eauto.
  - eapply step_S_map; eauto.
  - eapply step_S_nomap; eauto.
  - eapply step_S_busy; eauto.
  - eapply step_S_none; eauto.
  - eapply step_S_queue; eauto.
  - eapply step_S_hand; eauto.
  - eapply step_S_rd; eauto.
  - eapply step_S_live; eauto.
  - eapply step_S_chk; eauto.
Qed.

Lemma reachable_Safe : forall s, reachable s -> Safe s.
Proof.
  apply reachable_ind'. apply init_Safe. intros. eapply step_Safe; eauto.
Qed.

(* the ghost flag only ever goes up *)
Lemma raced_mono : forall s l s', stepW s l = Some s' -> raced s' = false -> raced s = false.
Proof.
  intros s l s' H Hr. open_step H; auto.
  all: apply orb_false_iff in Hr; destruct Hr; auto.
Qed.

(* What holds as long as neither window was hit: a connection is closed (and tested by the poller) only with
   numInvoke = 0 and nothing read-and-uncounted; nothing is ever Lost. *)
Record NoRace (s : state) : Prop := {
  Q_closed : forall c, cst s c = CClosed -> busy s c = [] /\ rdbuf s c = None;
  Q_lost : forall c r, rs s c r <> Lost;
  Q_chk : forall c, chk s c = true -> busy s c = [] /\ rdbuf s c = None
}.

Lemma init_NoRace : NoRace init.
Proof. constructor; cbn; intros; try discriminate; auto. Qed.

Lemma step_NoRace : forall s l s', Safe s -> NoRace s -> stepW s l = Some s' -> raced s' = false -> NoRace s'.
Proof.
  intros s l s' [J1 J2 J2' J3 J4 J6 J7 J8 J9 J10] [Q1 Q2 Q3] H Hr. constructor.
  - intros c0 Hc. open_step H; split_guards; upd_cases; try (apply Q1; assumption); try discriminate; auto.
    all: try congruence.
    all: try (destruct (Q1 _ Hc) as [Ha Hb]; try congruence; rewrite Ha; split; auto; fail).
    all: try (apply Q3; assumption).
    split; auto. destruct (rdbuf s c) as [r1|] eqn:Er; auto.
    destruct (J8 _ _ Er) as [_ [_ [Hx | Hx]]]; congruence.
  - intros c0 r0. open_step H; split_guards; upd_cases; try apply Q2; try discriminate.
    destruct (cstate_eqb (cst s c) CClosed) eqn:E; [|discriminate].
    apply cstate_eqb_eq in E. destruct (Q1 _ E) as [Hb _].
    assert (Hin : In r (busy s c)) by (apply J3; match goal with Hx : rs s c r = _ |- _ => rewrite Hx end; reflexivity).
    rewrite Hb in Hin. contradiction.
  - intros c0 Hc. open_step H; split_guards; upd_cases; try (apply Q3; assumption); try discriminate; auto.
    all: try (rewrite Hc, orb_true_r in Hr; discriminate).
    all: try (destruct (Q3 _ Hc) as [Ha Hb]; try congruence; rewrite Ha; split; auto; fail).
    all: try (apply orb_false_iff in Hr; destruct Hr as [_ Hr]; split; auto;
              match goal with |- rdbuf ?s ?c = None => destruct (rdbuf s c); [discriminate Hr | reflexivity] end).
  Qed.

Lemma reachable_NoRace : forall s, reachable s -> raced s = false -> NoRace s.
Proof.
  apply (reachable_ind' (fun s => raced s = false -> NoRace s)).
  - intros _. apply init_NoRace.
  - intros s l s' Hr IH H Hrc. eapply step_NoRace; eauto.
    + apply reachable_Safe; auto.
    + apply IH. eapply raced_mono; eauto.
Qed.

(* C12, clause 1, for every run in which neither two-instruction window was hit (ghost raced = false): a closed
   connection has no request that was read — counted or not — and not answered, and no response was ever lost to a
   closed socket. *)
Theorem answered_before_close : forall s, reachable s -> raced s = false ->
  forall c, cst s c = CClosed -> rdbuf s c = None /\ forall r, unanswered (rs s c r) = false /\ rs s c r <> Lost.
Proof.
  intros s Hr Hrc c Hc. destruct (reachable_Safe s Hr) as [J1 J2 J2' J3 J4 J6 J7 J8 J9 J10].
  destruct (reachable_NoRace s Hr Hrc) as [Q1 Q2 Q3]. destruct (Q1 c Hc) as [Hb Hd].
  split; auto. intros r. split; [|apply Q2].
  destruct (unanswered (rs s c r)) eqn:E; auto.
  apply J3 in E. rewrite Hb in E. contradiction.
Qed.

(* the closing steps themselves: one of the two close sites, taken with numInvoke = 0 and nothing read-and-uncounted *)
Theorem close_step_all_answered : forall s l s' c, reachable s -> stepW s l = Some s' -> raced s' = false ->
  cst s c <> CClosed -> cst s' c = CClosed ->
  (l = LPollClose c \/ l = LRecvClose c) /\ busy s c = [] /\ rdbuf s c = None /\
  forall r, unanswered (rs s c r) = false /\ rs s' c r = rs s c r.
Proof.
  intros s l s' c Hr H Hrc Hn Hc.
  assert (Hr' : reachable s') by (eapply reachable_step; eauto).
  destruct (reachable_NoRace s' Hr' Hrc) as [Q1 _ _]. destruct (Q1 c Hc) as [Hb' Hd'].
  destruct (reachable_Safe s Hr) as [J1 J2 J2' J3 J4 J6 J7 J8 J9 J10].
  open_step H; split_guards; upd_cases; try contradiction; try discriminate; try congruence.
  all: (split; [auto|]; split; [assumption|]; split; [assumption|]; intros r0; split; [|reflexivity]).
  all: match goal with |- ?u = false => destruct u eqn:E; auto end; apply J3 in E;
       match goal with Hb : busy _ _ = [] |- _ => rewrite Hb in E end; contradiction.
Qed.

(* ---------------------------------------------------------------------------------------------------------- *)
(* Pipeline invariant: where a request that was read and is not answered sits. *)

Record Pipe (s : state) : Prop := {
  P_run : forall c r, In (c, r) (running s) -> rs s c r = Running;
  P_queued : forall c r, rs s c r = Queued -> In (c, r) (queue s);
  P_inhand : forall c r, rs s c r = InHand -> hand s = Some (c, r);
  P_pend : forall c r, rs s c r = Pending -> pend s c = Some r;
  P_w0 : W = 0 -> forall c r, rs s c r <> Pending /\ rs s c r <> Queued /\ rs s c r <> InHand;
  P_wn : W <> 0 -> forall c r, rs s c r <> Spawned;
  P_stop : stopped s = true -> early = false -> listen s <> 0 /\ forall c, In c (known s) -> inmap s c = false;
  P_running : forall c r, rs s c r = Running -> In (c, r) (running s)
}.

Lemma init_Pipe : Pipe init.
Proof.
  constructor; cbn; intros; try discriminate; try contradiction; auto.
  all: repeat split; discriminate.
Qed.

Lemma step_P_run : forall s l s', Safe s -> Pipe s -> stepW s l = Some s' ->
  forall c r, In (c, r) (running s') -> rs s' c r = Running.
Proof.
  intros s l s' [J1 J2 J2' J3 J4 J6 J7 J8 J9 J10] [K1 K2 K3 K4 K5 K6 K7 K8] H c0 r0 Hq.
  open_step H; split_guards.
  all: try (apply in_remove_req in Hq; destruct Hq as [Hq Hne]).
  all: try (cbn [In] in Hq; destruct Hq as [Hq | Hq]; [inversion Hq; subst|]).
  all: upd_cases; try (apply K1; assumption); auto; try congruence.
  all: try (pose proof (K1 _ _ Hq); congruence).
  apply existsb_req_in in H0. pose proof (J6 _ _ H0). pose proof (K1 _ _ Hq). congruence.
Qed.

Lemma step_P_queued : forall s l s', Safe s -> Pipe s -> stepW s l = Some s' ->
  forall c r, rs s' c r = Queued -> In (c, r) (queue s').
Proof.
  intros s l s' [J1 J2 J2' J3 J4 J6 J7 J8 J9 J10] [K1 K2 K3 K4 K5 K6 K7 K8] H c0 r0 Hq.
  open_step H; split_guards.
  all: upd_cases; try (apply K2; assumption); auto; try congruence.
  all: try (apply in_app_iff; cbn [In]; auto; fail).
  all: try (apply in_remove_req; split; [apply K2; assumption | congruence]).
  all: try (match goal with Hx : (if ?b then _ else _) = Queued |- _ => destruct b; discriminate end).
Qed.

Lemma step_P_inhand : forall s l s', Safe s -> Pipe s -> stepW s l = Some s' ->
  forall c r, rs s' c r = InHand -> hand s' = Some (c, r).
Proof.
  intros s l s' [J1 J2 J2' J3 J4 J6 J7 J8 J9 J10] [K1 K2 K3 K4 K5 K6 K7 K8] H c0 r0 Hq.
  open_step H; split_guards.
  all: upd_cases; try (apply K3; assumption); auto; try congruence.
  all: try (match goal with Hx : (if ?b then _ else _) = InHand |- _ => destruct b; discriminate end).
  all: try (pose proof (K3 _ _ Hq); congruence).
Qed.

Lemma step_P_pend : forall s l s', Safe s -> Pipe s -> stepW s l = Some s' ->
  forall c r, rs s' c r = Pending -> pend s' c = Some r.
Proof.
  intros s l s' [J1 J2 J2' J3 J4 J6 J7 J8 J9 J10] [K1 K2 K3 K4 K5 K6 K7 K8] H c0 r0 Hq.
  open_step H; split_guards.
  all: upd_cases; try (apply K4; assumption); auto; try congruence.
  all: try (match goal with Hx : (if ?b then _ else _) = Pending |- _ => destruct b; discriminate end).
  all: try (pose proof (K4 _ _ Hq); congruence).
  all: try (pose proof (K4 _ _ Hq) as Hk; match goal with Hx : rdbuf _ ?c = Some _ |- _ => destruct (J8 _ _ Hx) as [_ [Hy _]] end; congruence).
Qed.

Lemma step_P_w0 : forall s l s', Safe s -> Pipe s -> stepW s l = Some s' ->
  W = 0 -> forall c r, rs s' c r <> Pending /\ rs s' c r <> Queued /\ rs s' c r <> InHand.
Proof.
  intros s l s' [J1 J2 J2' J3 J4 J6 J7 J8 J9 J10] [K1 K2 K3 K4 K5 K6 K7 K8] H HW c0 r0.
  open_step H; split_guards.
  all: upd_cases; try (apply K5; assumption); auto; try congruence.
  all: try (repeat split; discriminate).
  all: try (destruct (cstate_eqb (cst s c) CClosed); repeat split; discriminate).
  exfalso. destruct (K5 eq_refl c r) as [Hx _]. congruence.
Qed.

Lemma step_P_wn : forall s l s', Safe s -> Pipe s -> stepW s l = Some s' ->
  W <> 0 -> forall c r, rs s' c r <> Spawned.
Proof.
  intros s l s' [J1 J2 J2' J3 J4 J6 J7 J8 J9 J10] [K1 K2 K3 K4 K5 K6 K7 K8] H HW c0 r0.
  open_step H; split_guards.
  all: upd_cases; try (apply K6; assumption); auto; try congruence.
  all: try discriminate.
  all: try (destruct (cstate_eqb (cst s c) CClosed); discriminate).
Qed.

Lemma forallb_all_gone : forall s, all_gone s = true -> forall c, In c (known s) -> inmap s c = false.
Proof.
  unfold all_gone. intros s H c Hc. rewrite forallb_forall in H. apply H in Hc. apply negb_true_iff in Hc. exact Hc.
Qed.

Lemma step_P_stop : forall s l s', Safe s -> Pipe s -> stepW s l = Some s' ->
  stopped s' = true -> early = false -> listen s' <> 0 /\ forall c, In c (known s') -> inmap s' c = false.
Proof.
  intros s l s' [J1 J2 J2' J3 J4 J6 J7 J8 J9 J10] [K1 K2 K3 K4 K5 K6 K7 K8] H Hst He.
  open_step H; split_guards;
    try (destruct (K7 Hst eq_refl) as [K7a K7b]);
    try (split; [assumption|]; intros c0 Hc0; upd_cases; auto; fail);
    try contradiction;
    try (exfalso;
         match goal with Hc : cst s ?c = _ |- _ =>
           assert (Hk : In c (known s)) by (apply J1; congruence);
           destruct (J2 c (K7b c Hk)); congruence end).
  - split; [assumption|]. apply forallb_all_gone. cbn in H0. exact H0.
  - split; auto. destruct (listen s =? 1); auto.
Qed.

Lemma step_P_running : forall s l s', Safe s -> Pipe s -> stepW s l = Some s' ->
  forall c r, rs s' c r = Running -> In (c, r) (running s').
Proof.
  intros s l s' [J1 J2 J2' J3 J4 J6 J7 J8 J9 J10] [K1 K2 K3 K4 K5 K6 K7 K8] H c0 r0 Hq.
  open_step H; split_guards.
  all: upd_cases; try (apply K8; assumption); auto; try congruence.
  all: try (cbn [In]; auto; fail).
  all: try (match goal with Hx : (if ?b then _ else _) = Running |- _ => destruct b; discriminate end).
  all: try (apply in_remove_req; split; [apply K8; assumption | congruence]).
Qed.

Lemma step_Pipe : forall s l s', Safe s -> Pipe s -> stepW s l = Some s' -> Pipe s'.
Proof.
  intros s l s' HS HP H. constructor.
  - eapply step_P_run; eauto.
  - eapply step_P_queued; eauto.
  - eapply step_P_inhand; eauto.
  - eapply step_P_pend; eauto.
  - eapply step_P_w0; eauto.
  - eapply step_P_wn; eauto.
  - eapply step_P_stop; eauto.
  - eapply step_P_running; eauto.
Qed.

Lemma reachable_Pipe : forall s, reachable s -> Pipe s.
Proof.
  apply reachable_ind'. apply init_Pipe. intros. eapply step_Pipe; eauto. apply reachable_Safe; auto.
Qed.



(* C12, clause "every request already read is executed and answered" — no read request is ever stuck: as long as
   the process lives and some request is read-and-unanswered, a step of the request pipeline (enqueue, take, start,
   finish) is enabled, whatever the shutdown phase. (With the pool released early this is false: see below.) *)
Definition pipeline_label (l : label) : Prop :=
  match l with LEnqueue _ _ | LTake _ _ | LStart _ _ | LFinish _ _ => True | _ => False end.

(* a request that is counted and not answered keeps its connection in the table — race or not *)
Lemma unanswered_in_table : forall s, Safe s -> forall c r, unanswered (rs s c r) = true ->
  In c (known s) /\ inmap s c = true.
Proof.
  intros s [J1 J2 J2' J3 J4 J6 J7 J8 J9 J10] c r Hu.
  apply J3 in Hu.
  assert (Hm : inmap s c = true). { apply J9. left. intro Hb. rewrite Hb in Hu. contradiction. }
  split; auto. apply J1. intro Hn. rewrite (J2' c Hn) in Hm. discriminate.
Qed.

Lemma unanswered_conn_live : forall s, Safe s -> NoRace s -> forall c r, unanswered (rs s c r) = true ->
  (cst s c = COpen \/ cst s c = CExited) /\ In c (known s) /\ inmap s c = true.
Proof.
  intros s HS [Q1 Q2 Q3] c r Hu. destruct (unanswered_in_table s HS c r Hu) as [Hk Hm].
  destruct HS as [J1 J2 J2' J3 J4 J6 J7 J8 J9 J10].
  split; auto. apply J3 in Hu.
  destruct (cst s c) eqn:E; auto.
  - destruct (J4 c E) as [Hb _]. rewrite Hb in Hu. contradiction.
  - destruct (Q1 c E) as [Hb _]. rewrite Hb in Hu. contradiction.
Qed.

Theorem read_requests_progress : early = false -> (0 < cap)%N ->
  forall s, reachable s -> alive (ph s) = true ->
  forall c r, unanswered (rs s c r) = true ->
  exists l, pipeline_label l /\ stepW s l <> None.
Proof.
  intros He Hcap s Hr Halive c r Hu.
  pose proof (reachable_Safe s Hr) as HS. pose proof (reachable_Pipe s Hr) as HP.
  destruct (unanswered_in_table s HS c r Hu) as [Hk Hm].
  destruct HS as [J1 J2 J2' J3 J4 J6 J7 J8 J9 J10]. destruct HP as [K1 K2 K3 K4 K5 K6 K7 K8].
  assert (Hns : stopped s = false).
  { destruct (stopped s) eqn:E; auto. destruct (K7 eq_refl He) as [_ Hg]. rewrite (Hg c Hk) in Hm. discriminate. }
  destruct (running s) as [|[c1 r1] ru] eqn:Hrun.
  - destruct (Nat.eq_dec W 0) as [HW | HW].
    + (* one goroutine per request *)
      exists (LStart c r). split; [exact I|]. unfold step. rewrite Halive. cbn [negb].
      apply Nat.eqb_eq in HW. rewrite HW. apply Nat.eqb_eq in HW.
      destruct (K5 HW c r) as [N1 [N2 N3]].
      destruct (rs s c r) eqn:E; try discriminate; try congruence.
      apply K8 in E. contradiction.
    + destruct (hand s) as [[c2 r2]|] eqn:Hh.
      * exists (LStart c2 r2). split; [exact I|]. unfold step. rewrite Halive. cbn [negb].
        apply Nat.eqb_neq in HW. rewrite HW, Hh, req_eqb_refl, Hrun. cbn [length andb].
        apply Nat.eqb_neq in HW. assert (Hlt : (0 <? W) = true) by (apply Nat.ltb_lt; lia). rewrite Hlt. discriminate.
      * destruct (queue s) as [|[c3 r3] qs] eqn:Hq.
        -- destruct (rs s c r) eqn:E; try discriminate.
           ++ exists (LEnqueue c r). split; [exact I|]. unfold step. rewrite Halive. cbn [negb].
              rewrite (K4 c r E), E, Nat.eqb_refl, Hq. cbn [length andb N.of_nat].
              assert (Hlt : (0 <? cap)%N = true) by (apply N.ltb_lt; exact Hcap). rewrite Hlt. discriminate.
           ++ exfalso. exact (K6 HW c r E).
           ++ apply K2 in E. contradiction.
           ++ apply K3 in E. congruence.
           ++ apply K8 in E. contradiction.
        -- exists (LTake c3 r3). split; [exact I|]. unfold step. rewrite Halive. cbn [negb].
           apply Nat.eqb_neq in HW. rewrite Hh, HW, Hns, Hq. cbn [negb andb existsb]. rewrite req_eqb_refl. cbn. discriminate.
  - exists (LFinish c1 r1). split; [exact I|]. unfold step. rewrite Halive. cbn [negb].
    rewrite (K1 c1 r1) by (left; reflexivity). cbn. discriminate.
Qed.


(* each request moves forward only: no step lowers its rank, and a pipeline step raises the rank of a request that
   was read and not answered. A request therefore takes at most four pipeline steps, and with finitely many
   requests sent, [read_requests_progress] and weak fairness of the pipeline give: every request read is answered. *)
Definition rank (x : rstate) : nat :=
  match x with Fresh => 0 | InFlight => 1 | Pending => 2 | Queued => 3 | InHand => 4 | Spawned => 4
             | Running => 5 | Answered => 6 | Lost => 6 end.

Lemma step_rank_mono : forall s l s', reachable s -> stepW s l = Some s' ->
  forall c r, rank (rs s c r) <= rank (rs s' c r).
Proof.
  intros s l s' Hr H c0 r0. destruct (reachable_Safe s Hr) as [J1 J2 J2' J3 J4 J6 J7 J8 J9 J10].
  open_step H; split_guards; upd_cases; auto;
    try (match goal with Hx : rs _ ?c ?r = _ |- context[rs _ ?c ?r] => rewrite Hx; cbn; lia end).
  - rewrite (J6 c r) by (apply existsb_req_in; assumption). cbn. lia.
  - subst. rewrite (J7 c r) by reflexivity. cbn. lia.
  - rewrite Heqb. destruct (cstate_eqb (cst s c) CClosed); cbn; lia.
Qed.

Lemma pipeline_step_advances : forall s l s', reachable s -> stepW s l = Some s' -> pipeline_label l ->
  exists c r, unanswered (rs s c r) = true /\ rank (rs s c r) < rank (rs s' c r).
Proof.
  intros s l s' Hr H Hp. destruct (reachable_Safe s Hr) as [J1 J2 J2' J3 J4 J6 J7 J8 J9 J10].
  open_step H; split_guards; try contradiction; exists c, r; rewrite upd2_eq.
  all: try (match goal with Hx : rs _ ?c ?r = _ |- context[rs _ ?c ?r] => rewrite Hx; cbn; split; [reflexivity | lia] end).
  - rewrite (J6 c r) by (apply existsb_req_in; assumption). cbn. split; [reflexivity | lia].
  - subst. rewrite (J7 c r) by reflexivity. cbn. split; [reflexivity | lia].
  - rewrite Heqb. destruct (cstate_eqb (cst s c) CClosed); cbn; split; auto; lia.
Qed.

(* C12, clause "Shutdown returns once all connections have drained": the drained return happens only when every
   connection ever accepted is closed, and then nothing that was read is unanswered *)
Lemma drained_return_all_closed : forall s s', reachable s -> stepW s LPollReturn = Some s' ->
  ph s' = SRetDrained /\ forall c, In c (known s') -> cst s' c = CClosed.
Proof.
  intros s s' Hr H. destruct (reachable_Safe s Hr) as [J1 J2 J2' J3 J4 J6 J7 J8 J9 J10].
  remember LPollReturn as l eqn:Hl.
  open_step H; try discriminate Hl; split_guards. split; [reflexivity|].
  intros c Hc. assert (Ha : all_closed s = true) by assumption.
  unfold all_closed in Ha. rewrite forallb_forall in Ha. specialize (Ha c Hc).
  apply orb_true_iff in Ha. destruct Ha as [Ha | Ha].
  - apply negb_true_iff in Ha. destruct (J2 c Ha) as [Hx | Hx]; auto. apply J1 in Hc. contradiction.
  - apply cstate_eqb_eq in Ha. exact Ha.
Qed.

Theorem drained_return_sound : forall s s', reachable s -> raced s = false -> stepW s LPollReturn = Some s' ->
  ph s' = SRetDrained /\ (forall c, In c (known s') -> cst s' c = CClosed) /\
  (forall c r, unanswered (rs s' c r) = false) /\ (forall c, rdbuf s' c = None).
Proof.
  intros s s' Hr Hrc H. pose proof (reachable_Safe s Hr) as HS. pose proof (reachable_NoRace s Hr Hrc) as HQ.
  destruct HS as [J1 J2 J2' J3 J4 J6 J7 J8 J9 J10].
  remember LPollReturn as l eqn:Hl.
  open_step H; try discriminate Hl; split_guards.
  assert (Hall : forall c, In c (known s) -> cst s c = CClosed).
  { intros c Hc. assert (Ha : all_closed s = true) by assumption.
    unfold all_closed in Ha. rewrite forallb_forall in Ha. specialize (Ha c Hc).
    apply orb_true_iff in Ha. destruct Ha as [Ha | Ha].
    - apply negb_true_iff in Ha. destruct (J2 c Ha) as [Hx | Hx]; auto. apply J1 in Hc. contradiction.
    - apply cstate_eqb_eq in Ha. exact Ha. }
  split; [reflexivity|]. split; [exact Hall|]. split.
  - intros c r. destruct (unanswered (rs s c r)) eqn:E; auto.
    destruct (unanswered_conn_live s (reachable_Safe s Hr) HQ c r E) as [Hc [Hk _]].
    rewrite (Hall c Hk) in Hc. destruct Hc; discriminate.
  - intros c. destruct (rdbuf s c) as [r|] eqn:E; auto.
    assert (Hm : inmap s c = true) by (apply J9; right; congruence).
    assert (Hk : In c (known s)). { apply J1. intro Hn. rewrite (J2' c Hn) in Hm. discriminate. }
    destruct HQ as [Q1 _ _]. destruct (Q1 c (Hall c Hk)) as [_ Hx]. congruence.
Qed.

(* ... and it is available as soon as they are: with every connection closed (and the poller between two
   connections of its sweep), the poller's next tick returns *)
Theorem drained_return_enabled : forall s, is_down (ph s) = true -> all_closed s = true -> nochk s = true ->
  exists s', runW s (if inpoll s then [LPollReturn] else [LPollBegin; LPollReturn]) = Some s' /\ ph s' = SRetDrained.
Proof.
  intros s Hd Ha Hn. assert (Hal : alive (ph s) = true) by (destruct (ph s); cbn in *; congruence).
  destruct (inpoll s) eqn:Hi.
  - cbn [run]. unfold step. rewrite Hal, Hd, Hi, Ha, Hn. cbn. eexists. split; reflexivity.
  - cbn [run]. unfold step at 1. rewrite Hal, Hd, Hi. cbn [negb andb].
    unfold step. cbn [ph listen inpoll known cst inmap notified polled busy pend rs queue hand running stopped earlypoll rdbuf chk raced].
    rewrite Hal, Hd. cbn [negb andb].
    unfold all_closed, nochk in *. cbn [ph listen inpoll known cst inmap notified polled busy pend rs queue hand running stopped earlypoll rdbuf chk raced].
    rewrite Ha, Hn. eexists. split; reflexivity.
Qed.

(* the context ends Shutdown from any point of the drain *)
Theorem ctx_expiry_enabled : forall s, is_down (ph s) = true ->
  exists s', stepW s LCtxExpire = Some s' /\ ph s' = SRetCtx.
Proof.
  intros s Hd. assert (Hal : alive (ph s) = true) by (destruct (ph s); cbn in *; congruence).
  unfold step. rewrite Hal, Hd. cbn. eexists. split; reflexivity.
Qed.


(* ---------------------------------------------------------------------------------------------------------- *)
(* Close notification. *)

Record Notif (s : state) : Prop := {
  N_listen : listen s = 0 \/ listen s = 1 \/ listen s = 2;
  N_closed : earlypoll s = false -> returned (ph s) = false -> forall c, cst s c = CClosed -> notified s c = true;
  N_two : listen s = 2 -> forall c, inmap s c = true -> cst s c <> CClosed -> notified s c = true;
  N_inpoll : inpoll s = true -> earlypoll s = false -> listen s = 2;
  N_polled : forall c, polled s c = true -> earlypoll s = false -> listen s = 2
}.

Lemma init_Notif : Notif init.
Proof. constructor; cbn; intros; try discriminate; auto. Qed.

Lemma step_N_listen : forall s l s', Notif s -> stepW s l = Some s' -> listen s' = 0 \/ listen s' = 1 \/ listen s' = 2.
Proof.
  intros s l s' [M0 M1 M2 M3 M4] H.
  open_step H; split_guards; auto.
  destruct (listen s =? 1); auto.
Qed.

Lemma step_N_two : forall s l s', Safe s -> Notif s -> stepW s l = Some s' ->
  listen s' = 2 -> forall c, inmap s' c = true -> cst s' c <> CClosed -> notified s' c = true.
Proof.
  intros s l s' [J1 J2 J2' J3 J4 J6 J7 J8 J9 J10] [M0 M1 M2 M3 M4] H Hl c0 Hm Hc.
  open_step H; split_guards; upd_cases; try (apply M2; assumption); try congruence; try discriminate.
  - destruct (listen s =? 1) eqn:E.
    + rewrite Hm. destruct (cstate_eqb (cst s c0) CClosed) eqn:E2.
      * apply cstate_eqb_eq in E2. contradiction.
      * cbn. apply orb_true_r.
    + apply M2; auto.
  - apply M2; auto; try congruence. destruct (inmap s c) eqn:E; auto. destruct (J2 c E); congruence.
Qed.

Lemma step_N_inpoll : forall s l s', Notif s -> stepW s l = Some s' ->
  inpoll s' = true -> earlypoll s' = false -> listen s' = 2.
Proof.
  intros s l s' [M0 M1 M2 M3 M4] H Hi He.
  open_step H; split_guards; try (apply M3; assumption); try discriminate.
  - specialize (M3 Hi He). congruence.
  - apply orb_false_iff in He. destruct He as [He1 He2]. apply Nat.eqb_neq in He2.
    destruct (listen s =? 1) eqn:E; auto. apply Nat.eqb_neq in E. destruct M0 as [M0 | [M0 | M0]]; congruence.
Qed.

Lemma step_N_polled : forall s l s', Notif s -> stepW s l = Some s' ->
  forall c, polled s' c = true -> earlypoll s' = false -> listen s' = 2.
Proof.
  intros s l s' [M0 M1 M2 M3 M4] H c0 Hi He.
  open_step H; split_guards; upd_cases; try (eapply M4; eassumption); try discriminate.
  - specialize (M4 _ Hi He). congruence.
  - apply orb_false_iff in He. destruct He as [He1 He2]. apply Nat.eqb_neq in He2.
    destruct (listen s =? 1) eqn:E; auto. apply Nat.eqb_neq in E. destruct M0 as [M0 | [M0 | M0]]; congruence.
Qed.

Lemma step_N_closed : forall s l s', Safe s -> Notif s -> stepW s l = Some s' ->
  earlypoll s' = false -> returned (ph s') = false -> forall c, cst s' c = CClosed -> notified s' c = true.
Proof.
  intros s l s' [J1 J2 J2' J3 J4 J6 J7 J8 J9 J10] [M0 M1 M2 M3 M4] H He Hp c0 Hc.
  open_step H; split_guards; try discriminate Hp; upd_cases;
    try (apply M1; solve [assumption | match goal with Hx : ph s = _ |- _ => rewrite Hx; reflexivity end]);
    try congruence; try discriminate.
  - apply orb_false_iff in He. destruct He as [He1 He2].
    destruct (listen s =? 1); [rewrite (M1 He1 Hp c0 Hc); reflexivity | apply M1; assumption].
  - apply M2; try congruence.
    + apply M3; auto. apply (J10 c). assumption.
    + destruct (inmap s c) eqn:E; auto. destruct (J2 c E); congruence.
  - apply M2; try congruence.
    + apply M3; auto. apply (J10 c). assumption.
    + destruct (inmap s c) eqn:E; auto. destruct (J2 c E); congruence.
  - rewrite Hp, orb_false_r in *. apply M2; try congruence.
    + eapply M4; eauto.
    + destruct (inmap s c) eqn:E; auto. destruct (J2 c E); congruence.
Qed.

Lemma step_Notif : forall s l s', Safe s -> Notif s -> stepW s l = Some s' -> Notif s'.
Proof.
  intros s l s' HS HN H. constructor.
  - eapply step_N_listen; eauto.
  - eapply step_N_closed; eauto.
  - eapply step_N_two; eauto.
  - eapply step_N_inpoll; eauto.
  - eapply step_N_polled; eauto.
Qed.

Lemma reachable_Notif : forall s, reachable s -> Notif s.
Proof.
  apply reachable_ind'. apply init_Notif. intros. eapply step_Notif; eauto. apply reachable_Safe; auto.
Qed.

(* C12, clause "connected clients are sent the reconnect notification": provided no poller tick began while the
   listener was still up, every connection closed by the server until Shutdown returns was closed only after the
   close message had been written to it *)
Theorem closed_after_notification : forall s, reachable s -> earlypoll s = false -> returned (ph s) = false ->
  forall c, cst s c = CClosed -> notified s c = true.
Proof. intros s Hr. apply (N_closed s (reachable_Notif s Hr)). Qed.

(* at the closing step itself the message had already been written *)
Theorem close_step_notified : forall s l s' c, reachable s -> stepW s l = Some s' ->
  cst s c <> CClosed -> cst s' c = CClosed -> earlypoll s' = false -> returned (ph s') = false -> notified s c = true.
Proof.
  intros s l s' c Hr H Hn Hc He Hp.
  assert (Hs' : notified s' c = true).
  { apply closed_after_notification; auto. eapply reachable_step; eauto. }
  open_step H; split_guards; upd_cases; try contradiction; try discriminate; auto.
Qed.

(* once the listener is down and a tick has passed (isListenClosed = 2), every connection still in the table has
   the message *)
Theorem all_open_notified : forall s, reachable s -> listen s = 2 ->
  forall c, inmap s c = true -> cst s c <> CClosed -> notified s c = true.
Proof. intros s Hr. apply (N_two s (reachable_Notif s Hr)). Qed.

(* the notifying tick treats every connection of the table on its own: whether connection c gets the message depends
   on c alone (in the table, not yet closed) — not on the other connections, their number, their order in the table or
   the outcome of the writes to them (sendCloseMsg's Range goes on after a failed write) *)
Theorem notifying_tick_per_connection : forall s s', stepW s LPollBegin = Some s' -> listen s = 1 ->
  listen s' = 2 /\
  forall c, notified s' c = notified s c || (inmap s c && negb (cstate_eqb (cst s c) CClosed)).
Proof.
  intros s s' H Hl. remember LPollBegin as l eqn:El.
  open_step H; try discriminate El. rewrite Hl. cbn. split; reflexivity.
Qed.

(* when Shutdown returns drained, every connection ever accepted has been sent the message *)
Theorem drained_return_notified : forall s s', reachable s -> stepW s LPollReturn = Some s' ->
  earlypoll s' = false -> forall c, In c (known s') -> notified s' c = true.
Proof.
  intros s s' Hr H He c Hk.
  destruct (drained_return_all_closed s s' Hr H) as [_ Hall].
  pose proof (Hall c Hk) as Hc.
  pose proof (reachable_Notif s Hr) as HN.
  remember LPollReturn as l eqn:Hl.
  open_step H; try discriminate Hl; split_guards.
  apply (N_closed s HN He); auto. destruct (ph s); cbn in *; congruence.
Qed.


End Proofs.

(* ---------------------------------------------------------------------------------------------------------- *)
(* The code before fix 0e6f835 (early = true: the pool is released when the accept loop ends) violates the
   progress clause: a request that was read and queued is never executed, its connection is never closed and
   Shutdown can only end through its context. *)

Lemma stuck_step : forall W cap early s l s' c r, reachable W cap early s ->
  stopped s = true -> rs s c r = Queued -> chk s c = false -> cst s c <> CClosed ->
  step W cap early s l = Some s' ->
  stopped s' = true /\ rs s' c r = Queued /\ chk s' c = false /\ cst s' c <> CClosed.
Proof.
  intros W cap early s l s' c0 r0 Hr Hst Hq Hck Hcl H.
  destruct (reachable_Safe W cap early s Hr) as [J1 J2 J2' J3 J4 J6 J7 J8 J9 J10].
  assert (Hb : In r0 (busy s c0)) by (apply J3; rewrite Hq; reflexivity).
  open_step H; split_guards; upd_cases; auto; try congruence; try discriminate.
  all: try (repeat split; auto; congruence).
  all: try (match goal with Hx : busy _ _ = [] |- _ => rewrite Hx in Hb; contradiction end).
  subst. pose proof (J7 c r eq_refl). congruence.
Qed.

Lemma ph_drained_step : forall W cap early s l s', step W cap early s l = Some s' -> ph s' = SRetDrained ->
  ph s = SRetDrained \/ l = LPollReturn.
Proof.
  intros W cap early s l s' H Hp.
  open_step H; auto; try discriminate.
Qed.

Lemma stuck_forever : forall W cap early ls s s' c r, reachable W cap early s ->
  stopped s = true -> rs s c r = Queued -> chk s c = false -> cst s c <> CClosed ->
  ph s <> SRetDrained -> run W cap early s ls = Some s' ->
  reachable W cap early s' /\ rs s' c r = Queued /\ cst s' c <> CClosed /\ ph s' <> SRetDrained.
Proof.
  induction ls as [|l ls IH]; intros s s' c r Hr Hst Hq Hck Hcl Hp H; cbn in H.
  - inversion H. subst. auto.
  - destruct (step W cap early s l) as [s1|] eqn:E; [|discriminate].
    destruct (stuck_step W cap early s l s1 c r Hr Hst Hq Hck Hcl E) as [Hst1 [Hq1 [Hck1 Hcl1]]].
    eapply (IH s1); eauto.
    + eapply reachable_step; eauto.
    + intros Hp1. destruct (ph_drained_step _ _ _ _ _ _ E Hp1) as [Hx | Hx]; [contradiction|]. subst l.
      destruct (drained_return_all_closed W cap early s s1 Hr E) as [_ Hall].
      assert (Hr1 : reachable W cap early s1) by (eapply reachable_step; eauto).
      destruct (unanswered_in_table s1 (reachable_Safe W cap early s1 Hr1) c r) as [Hk _]; [rewrite Hq1; reflexivity|].
      exact (Hcl1 (Hall c Hk)).
Qed.

Definition release_before_drain : list label :=
  [LConnect 0; LSend 0 0; LSend 0 1; LReadBytes 0 0; LRead 0 0; LEnqueue 0 0; LReadBytes 0 1; LRead 0 1; LEnqueue 0 1;
   LTake 0 0; LStart 0 0; LShutdown; LAcceptExit; LPoolStop; LFinish 0 0].

Theorem progress_refuted_with_early_release :
  exists s, run 1 10 true init release_before_drain = Some s /\
    unanswered (rs s 0 1) = true /\ raced s = false /\
    forall ls s', run 1 10 true s ls = Some s' ->
      rs s' 0 1 = Queued /\                      (* never executed *)
      cst s' 0 <> CClosed /\                     (* its connection is never closed by the server *)
      ph s' <> SRetDrained.                      (* Shutdown never returns drained: only its context ends it *)
Proof.
  destruct (run 1 10 true init release_before_drain) as [s|] eqn:E; [|vm_compute in E; discriminate].
  exists s. split; [reflexivity|].
  assert (Hr : reachable 1 10 true s) by (exists release_before_drain; exact E).
  assert (Hst : stopped s = true) by (vm_compute in E; inversion E; reflexivity).
  assert (Hq : rs s 0 1 = Queued) by (vm_compute in E; inversion E; reflexivity).
  assert (Hph : ph s = SDown) by (vm_compute in E; inversion E; reflexivity).
  assert (Hck : chk s 0 = false) by (vm_compute in E; inversion E; reflexivity).
  assert (Hcl : cst s 0 = COpen) by (vm_compute in E; inversion E; reflexivity).
  assert (Hrc : raced s = false) by (vm_compute in E; inversion E; reflexivity).
  split; [rewrite Hq; reflexivity|]. split; [exact Hrc|].
  intros ls s' H.
  destruct (stuck_forever 1 10 true ls s s' 0 1 Hr Hst Hq Hck) as [Hr' [Hq' [Hc' Hp']]]; auto; congruence.
Qed.

(* the same trace is not a trace of the repaired code: LPoolStop is refused while a connection is in the table *)
Example release_before_drain_not_repaired : run 1 10 false init release_before_drain = None.
Proof. vm_compute. reflexivity. Qed.

(* The notification clause needs its hypothesis: a tick that begins while the listener is still up closes an idle
   connection without the message (CloseIdles with isListenClosed = 0 skips sendCloseMsg and still closes). In the
   code this needs the accept loop to miss the SetDeadline(now) wake-up for 500 ms (it re-arms its own accept
   deadline between its isClosed test and Accept) — a window of microseconds that was not exhibited on the code. *)
Theorem notification_needs_listener_down :
  exists s, run 0 10 false init [LConnect 0; LShutdown; LPollBegin; LPollCheck 0; LPollClose 0] = Some s /\
            cst s 0 = CClosed /\ notified s 0 = false /\ earlypoll s = true /\ returned (ph s) = false.
Proof. eexists. split; [vm_compute; reflexivity|]. cbn. auto. Qed.

(* non-trivial instances of the hypotheses used above *)
Example notification_hypotheses_instance :
  exists s, run 1 10 false init [LConnect 0; LConnect 1; LShutdown; LAcceptExit; LPollBegin; LPollCheck 0; LPollClose 0;
                                 LRecvExit 1; LPollEnd; LPollBegin; LRecvClose 1] = Some s /\
            earlypoll s = false /\ returned (ph s) = false /\ cst s 0 = CClosed /\ cst s 1 = CClosed /\
            notified s 0 = true /\ notified s 1 = true.
Proof. eexists. split; [vm_compute; reflexivity|]. cbn. repeat split; reflexivity. Qed.

Example drained_return_instance :
  exists s s', run 1 10 false init [LConnect 0; LSend 0 0; LReadBytes 0 0; LRead 0 0; LEnqueue 0 0; LShutdown; LAcceptExit; LTake 0 0;
                                    LStart 0 0; LPollBegin; LPollEnd; LFinish 0 0; LPollBegin; LPollCheck 0; LPollClose 0] = Some s /\
               step 1 10 false s LPollReturn = Some s' /\ ph s' = SRetDrained /\ rs s' 0 0 = Answered.
Proof. eexists. eexists. split; [vm_compute; reflexivity|]. split; [vm_compute; reflexivity|]. cbn. split; reflexivity. Qed.

Example progress_hypotheses_instance :
  exists s, run 2 10 false init [LConnect 0; LSend 0 0; LReadBytes 0 0; LRead 0 0; LEnqueue 0 0; LShutdown; LAcceptExit; LPollBegin] = Some s /\
            alive (ph s) = true /\ unanswered (rs s 0 0) = true /\ earlypoll s = false /\ (0 < 10)%N.
Proof. eexists. split; [vm_compute; reflexivity|]. cbn. repeat split; reflexivity. Qed.

(* ---------------------------------------------------------------------------------------------------------- *)
(* Trace validation is sound: a trace accepted by [accepts] is explained by a run of the transition system of the
   repaired code that ends with the process exit — so every theorem above holds of the explanation of every
   recorded shutdown. *)
Section AcceptsSound.
Variable W : nat.
Variable cap : N.
Notation stepR := (step W cap false).
Notation runR := (run W cap false).

Definition reach (s s' : state) : Prop := exists ls, runR s ls = Some s'.

Lemma reach_refl : forall s, reach s s.
Proof. intros. exists []. reflexivity. Qed.

Lemma reach_trans : forall a b c, reach a b -> reach b c -> reach a c.
Proof. intros a b c [l1 H1] [l2 H2]. exists (l1 ++ l2). rewrite run_app, H1. exact H2. Qed.

Lemma reach_step : forall s l s', stepR s l = Some s' -> reach s s'.
Proof. intros. exists [l]. cbn. rewrite H. reflexivity. Qed.

Lemma reach_try : forall s l, reach s (try W cap s l).
Proof. intros. unfold try. destruct (stepR s l) eqn:E; [eapply reach_step; eauto | apply reach_refl]. Qed.

Lemma reach_fold : forall A (f : state -> A -> state), (forall st x, reach st (f st x)) ->
  forall l s, reach s (fold_left f l s).
Proof.
  intros A f Hf. induction l; intros; cbn; [apply reach_refl|].
  eapply reach_trans; [apply Hf | apply IHl].
Qed.

Lemma reach_fold_opt : forall A (f : option state -> A -> option state),
  (forall st x s', f (Some st) x = Some s' -> reach st s') -> (forall x, f None x = None) ->
  forall l s s', fold_left f l (Some s) = Some s' -> reach s s'.
Proof.
  intros A f Hf Hn. induction l; intros s s' H; cbn in H.
  - inversion H. apply reach_refl.
  - destruct (f (Some s) a) as [s1|] eqn:E.
    + eapply reach_trans; [eapply Hf; eauto | apply IHl; auto].
    + exfalso. clear -H Hn. induction l; cbn in H; [discriminate|]. rewrite Hn in H. auto.
Qed.

Lemma reach_pump : forall s, reach s (pump W cap s).
Proof.
  intros. unfold pump. apply reach_fold. intros st c. destruct (pend st c); [apply reach_try | apply reach_refl].
Qed.

Lemma reach_settle : forall s e, reach s (settle W cap s e).
Proof.
  intros. unfold settle. apply reach_fold. intros st q.
  destruct (rstate_eqb (rs st (fst q) (snd q)) Running); [apply reach_try | apply reach_refl].
Qed.

Lemma reach_ensure_read : forall s c r s', ensure_read W cap (Some s) c r = Some s' -> reach s s'.
Proof.
  intros s c r s' H. unfold ensure_read in H.
  destruct (unanswered (rs s c r) || rstate_eqb (rs s c r) Answered).
  - inversion H. apply reach_refl.
  - destruct (stepR (pump W cap s) (LReadBytes c r)) as [s0|] eqn:E0; [|discriminate].
    destruct (stepR s0 (LRead c r)) eqn:E; [|discriminate]. inversion H. subst.
    eapply reach_trans; [apply reach_pump|]. eapply reach_trans; [eapply reach_step; eauto|].
    eapply reach_trans; [eapply reach_step; eauto | apply reach_pump].
Qed.

Lemma reach_ensure_started : forall s e c r s', ensure_started W cap s e c r = Some s' -> reach s s'.
Proof.
  intros s e c r s' H. unfold ensure_started in H.
  destruct (ensure_read W cap (Some s) c r) as [s1|] eqn:E1; [|discriminate].
  apply reach_ensure_read in E1. eapply reach_trans; [exact E1|].
  destruct (rstate_eqb (rs s1 c r) Running || rstate_eqb (rs s1 c r) Answered).
  - inversion H. apply reach_refl.
  - destruct (W =? 0).
    + eapply reach_step; eauto.
    + set (s2 := if length (running s1) <? W then s1 else settle W cap s1 e) in *.
      assert (R2 : reach s1 s2) by (unfold s2; destruct (length (running s1) <? W); [apply reach_refl | apply reach_settle]).
      destruct (stepR s2 (LTake c r)) as [s3|] eqn:E3; [|discriminate].
      destruct (stepR s3 (LStart c r)) as [s4|] eqn:E4; [|discriminate]. inversion H. subst.
      eapply reach_trans; [exact R2|]. eapply reach_trans; [eapply reach_step; eauto|].
      eapply reach_trans; [eapply reach_step; eauto | apply reach_pump].
Qed.

Lemma reach_ensure_down : forall s, reach s (ensure_down W cap s).
Proof. intros. unfold ensure_down. eapply reach_trans; apply reach_try. Qed.

Lemma reach_poll_tick : forall s, reach s (poll_tick W cap s).
Proof.
  intros. unfold poll_tick. eapply reach_trans; [apply reach_ensure_down|]. eapply reach_trans; apply reach_try.
Qed.

Lemma reach_ensure_closed : forall s e c s', ensure_closed W cap s e c = Some s' -> reach s s'.
Proof.
  intros s e c s' H. unfold ensure_closed in H.
  assert (G : forall s', (let s0 := settle W cap (pump W cap s) e in
      let s1 := match cst s0 c with COpen => try W cap (try W cap s0 LShutdown) (LRecvExit c) | _ => s0 end in
      let s2 := if polled s1 c then s1 else poll_tick W cap s1 in stepR s2 (LRecvClose c)) = Some s' -> reach s s').
  { clear. intros s' H. cbv zeta in H.
    eapply reach_trans; [apply reach_pump|]. eapply reach_trans; [apply reach_settle|].
    set (s0 := settle W cap (pump W cap s) e) in *.
    set (s1 := match cst s0 c with COpen => try W cap (try W cap s0 LShutdown) (LRecvExit c) | _ => s0 end) in *.
    assert (R1 : reach s0 s1).
    { unfold s1. destruct (cst s0 c); try apply reach_refl. eapply reach_trans; apply reach_try. }
    eapply reach_trans; [exact R1|].
    set (s2 := if polled s1 c then s1 else poll_tick W cap s1) in *.
    assert (R2 : reach s1 s2) by (unfold s2; destruct (polled s1 c); [apply reach_refl | apply reach_poll_tick]).
    eapply reach_trans; [exact R2|]. eapply reach_step; eauto. }
  destruct (cst s c); try discriminate; auto.
  inversion H. apply reach_refl.
Qed.

Lemma reach_obs_step : forall s e o s' e', obs_step W cap (s, e) o = Some (s', e') -> reach s s'.
Proof.
  intros s e o s' e' H. unfold obs_step in H.
  destruct o.
  - destruct (stepR s (LConnect c)) eqn:E; inversion H; subst. eapply reach_step; eauto.
  - destruct (stepR s (LSend c r)) eqn:E; inversion H; subst. eapply reach_step; eauto.
  - destruct (fold_left (fun st r => ensure_read W cap st c r) (seq 0 n) (Some s)) eqn:E; inversion H; subst.
    eapply reach_fold_opt; [| |exact E].
    + intros st x s2 Hx. cbn beta in Hx. eapply reach_ensure_read. exact Hx.
    + reflexivity.
  - destruct (ensure_started W cap s e c r) eqn:E; inversion H; subst. eapply reach_ensure_started; eauto.
  - destruct (ensure_started W cap s e c r) eqn:E; [|discriminate].
    destruct (rstate_eqb (rs s0 c r) Running); inversion H; subst. eapply reach_ensure_started; eauto.
  - destruct (existsb (req_eqb (c, r)) e); [|discriminate].
    destruct (rs s c r); try discriminate.
    + destruct (stepR s (LFinish c r)) eqn:E; [|discriminate].
      destruct (rstate_eqb (rs s0 c r) Answered); inversion H; subst.
      eapply reach_trans; [eapply reach_step; eauto | apply reach_pump].
    + inversion H. apply reach_refl.
  - unfold ensure_notified in H. destruct (notified s c).
    + inversion H. apply reach_refl.
    + destruct (notified (poll_tick W cap s) c); inversion H; subst. apply reach_poll_tick.
  - destruct (ensure_closed W cap s e c) eqn:E; inversion H; subst. eapply reach_ensure_closed; eauto.
  - destruct (stepR s LShutdown) eqn:E; inversion H; subst. eapply reach_step; eauto.
  - destruct (listen (ensure_down W cap s) =? 0); inversion H; subst. apply reach_ensure_down.
  - unfold ensure_returned in H. destruct drained.
    + destruct (fold_left _ (known s) (Some s)) as [s1|] eqn:E; [|discriminate].
      destruct (stepR (poll_tick W cap s1) LPollReturn) eqn:E2; inversion H; subst.
      eapply reach_trans.
      * eapply reach_fold_opt; [| |exact E].
        -- intros st x s2 Hx. cbn in Hx. destruct (inmap st x); [eapply reach_ensure_closed; eauto | inversion Hx; apply reach_refl].
        -- reflexivity.
      * eapply reach_trans; [apply reach_poll_tick | eapply reach_step; eauto].
    + destruct (stepR (poll_tick W cap (try W cap s LShutdown)) LCtxExpire) eqn:E; inversion H; subst.
      eapply reach_trans; [apply reach_try|]. eapply reach_trans; [apply reach_poll_tick | eapply reach_step; eauto].
  - destruct (stepR s LExit) eqn:E; inversion H; subst. eapply reach_step; eauto.
Qed.

Lemma reach_obs_run : forall tr s e s' e', obs_run W cap (s, e) tr = Some (s', e') -> reach s s'.
Proof.
  induction tr; intros s e s' e' H; cbn [obs_run] in H.
  - inversion H. apply reach_refl.
  - destruct (obs_step W cap (s, e) a) as [[s1 e1]|] eqn:E; [|discriminate].
    eapply reach_trans; [eapply reach_obs_step; eauto | eapply IHtr; eauto].
Qed.

Theorem accepts_sound : forall tr, accepts W cap tr = true ->
  exists ls s, runR init ls = Some s /\ ph s = SExited.
Proof.
  intros tr H. unfold accepts in H.
  destruct (obs_run W cap (init, []) tr) as [[s e]|] eqn:E; [|discriminate].
  destruct (reach_obs_run _ _ _ _ _ E) as [ls Hls].
  exists ls, s. split; auto. destruct (ph s); try discriminate. reflexivity.
Qed.

End AcceptsSound.

(* ---------------------------------------------------------------------------------------------------------- *)
(* The pipeline work of a whole run is bounded by the requests that were sent: every pipeline step raises the rank
   of one request and no step lowers any, so a run contains at most 6 pipeline steps per request. Together with
   [read_requests_progress] (a pipeline step is enabled whenever something read is unanswered) this is termination
   of the drain: a run cannot keep a read request unanswered for ever without withholding an enabled pipeline step. *)
Definition is_pipeline (l : label) : bool :=
  match l with LEnqueue _ _ | LTake _ _ | LStart _ _ | LFinish _ _ => true | _ => false end.

Lemma is_pipeline_label : forall l, is_pipeline l = true <-> pipeline_label l.
Proof. destruct l; cbn; split; intros; auto; try discriminate; try contradiction. Qed.

Definition count_pipeline (ls : list label) : nat := length (filter is_pipeline ls).

Fixpoint rank_sum (s : state) (L : list req) : nat :=
  match L with
  | [] => 0
  | q :: L' => rank (rs s (fst q) (snd q)) + rank_sum s L'
  end.

Lemma rank_sum_mono : forall s s' L, (forall c r, rank (rs s c r) <= rank (rs s' c r)) -> rank_sum s L <= rank_sum s' L.
Proof. induction L; intros; cbn; auto. specialize (H (fst a) (snd a)) as Ha. specialize (IHL H). lia. Qed.

Lemma rank_sum_strict : forall s s' L c r, (forall c r, rank (rs s c r) <= rank (rs s' c r)) ->
  In (c, r) L -> rank (rs s c r) < rank (rs s' c r) -> rank_sum s L < rank_sum s' L.
Proof.
  induction L; intros c r Hm Hin Hlt; cbn; [contradiction|].
  destruct Hin as [Ha | Hin].
  - subst a. cbn [fst snd]. pose proof (rank_sum_mono s s' L Hm). lia.
  - specialize (IHL c r Hm Hin Hlt). specialize (Hm (fst a) (snd a)). lia.
Qed.

Lemma rank_sum_bound : forall s L, rank_sum s L <= 6 * length L.
Proof. induction L; cbn; auto. assert (rank (rs s (fst a) (snd a)) <= 6) by (destruct (rs s (fst a) (snd a)); cbn; lia). lia. Qed.

Lemma count_pipeline_app : forall l1 l2, count_pipeline (l1 ++ l2) = count_pipeline l1 + count_pipeline l2.
Proof. intros. unfold count_pipeline. rewrite filter_app, app_length. reflexivity. Qed.

Theorem pipeline_work_bounded : forall W cap early ls s (L : list req),
  run W cap early init ls = Some s ->
  (forall c r, rs s c r <> Fresh -> In (c, r) L) ->
  count_pipeline ls <= rank_sum s L /\ rank_sum s L <= 6 * length L.
Proof.
  intros W cap early ls s L Hrun Hcov. split; [|apply rank_sum_bound].
  revert s Hrun Hcov. induction ls as [|l ls IH] using rev_ind; intros s Hrun Hcov.
  - cbn. lia.
  - rewrite run_app in Hrun. destruct (run W cap early init ls) as [s1|] eqn:E1; [|discriminate].
    cbn in Hrun. destruct (step W cap early s1 l) as [s2|] eqn:E2; [|discriminate]. inversion Hrun. subst s2.
    assert (Hr1 : reachable W cap early s1) by (exists ls; exact E1).
    pose proof (step_rank_mono W cap early s1 l s Hr1 E2) as Hm.
    assert (Hcov1 : forall c r, rs s1 c r <> Fresh -> In (c, r) L).
    { intros c r Hn. apply Hcov. intros Hf. specialize (Hm c r). rewrite Hf in Hm. cbn in Hm.
      destruct (rs s1 c r); cbn in Hm; try lia. contradiction. }
    specialize (IH s1 eq_refl Hcov1).
    rewrite count_pipeline_app. unfold count_pipeline at 2. cbn [filter].
    destruct (is_pipeline l) eqn:Hp; cbn [length].
    + apply is_pipeline_label in Hp.
      destruct (pipeline_step_advances W cap early s1 l s Hr1 E2 Hp) as [c [r [Hu Hlt]]].
      assert (Hin : In (c, r) L). { apply Hcov1. intros Hf. rewrite Hf in Hu. discriminate. }
      pose proof (rank_sum_strict s1 s L c r Hm Hin Hlt). lia.
    + pose proof (rank_sum_mono s1 s L Hm). lia.
Qed.

(* The drain can always complete (repaired code): from every reachable live state some sequence of pipeline steps
   alone leads to a state in which nothing that was read is unanswered — in every shutdown phase, for every pool
   size. *)
Definition sends (ls : list label) : list req :=
  flat_map (fun l => match l with LSend c r => [(c, r)] | _ => [] end) ls.

Lemma sends_app : forall a b, sends (a ++ b) = sends a ++ sends b.
Proof. intros. unfold sends. apply flat_map_app. Qed.

Lemma sends_cover : forall W cap early ls s, run W cap early init ls = Some s ->
  forall c r, rs s c r <> Fresh -> In (c, r) (sends ls).
Proof.
  intros W cap early ls. induction ls as [|l ls IH] using rev_ind; intros s Hrun c0 r0 Hn.
  - cbn in Hrun. inversion Hrun. subst. cbn in Hn. contradiction.
  - rewrite run_app in Hrun. destruct (run W cap early init ls) as [s1|] eqn:E1; [|discriminate].
    cbn in Hrun. destruct (step W cap early s1 l) as [s2|] eqn:E2; [|discriminate]. inversion Hrun. subst s2.
    rewrite sends_app. apply in_app_iff.
    destruct (rstate_eqb (rs s1 c0 r0) Fresh) eqn:Ef.
    + right. apply rstate_eqb_eq in Ef.
      assert (Hr1 : reachable W cap early s1) by (exists ls; exact E1).
      destruct (reachable_Safe W cap early s1 Hr1) as [J1 J2 J2' J3 J4 J6 J7 J8 J9 J10].
      open_step E2; split_guards; upd_cases; try contradiction; try congruence; cbn; auto.
      * pose proof (J6 c r) as Hq. rewrite Ef in Hq. apply existsb_req_in in H0. specialize (Hq H0). discriminate.
      * subst. pose proof (J7 c r eq_refl). congruence.
    + left. apply (IH s1 eq_refl). intros Hf. rewrite Hf in Ef. discriminate.
Qed.

Lemma pipeline_step_ph : forall W cap early s l s', step W cap early s l = Some s' -> pipeline_label l -> ph s' = ph s.
Proof. intros W cap early s l s' H Hp. open_step H; try contradiction; reflexivity. Qed.

Lemma all_answered_dec : forall s L, (forall c r, rs s c r <> Fresh -> In (c, r) L) ->
  (forall c r, unanswered (rs s c r) = false) \/ (exists c r, In (c, r) L /\ unanswered (rs s c r) = true).
Proof.
  intros s L Hcov.
  destruct (existsb (fun q => unanswered (rs s (fst q) (snd q))) L) eqn:E.
  - right. apply existsb_exists in E. destruct E as [[c r] [Hin Hu]]. exists c, r. auto.
  - left. intros c r. destruct (unanswered (rs s c r)) eqn:Eu; auto.
    assert (Hin : In (c, r) L). { apply Hcov. intros Hf. rewrite Hf in Eu. discriminate. }
    assert (Ht : existsb (fun q => unanswered (rs s (fst q) (snd q))) L = true).
    { apply existsb_exists. exists (c, r). auto. }
    congruence.
Qed.

Theorem can_always_drain : forall W cap, (0 < cap)%N -> forall ls s, run W cap false init ls = Some s ->
  alive (ph s) = true ->
  exists ls' s', Forall pipeline_label ls' /\ run W cap false s ls' = Some s' /\
                 ph s' = ph s /\ forall c r, unanswered (rs s' c r) = false.
Proof.
  intros W cap Hcap ls s Hrun Halive.
  remember (6 * length (sends ls) - rank_sum s (sends ls)) as n eqn:Hn.
  assert (Hle : 6 * length (sends ls) - rank_sum s (sends ls) <= n) by lia. clear Hn.
  revert ls s Hrun Halive Hle. induction n as [|n IH]; intros ls s Hrun Halive Hle.
  all: pose proof (sends_cover W cap false ls s Hrun) as Hcov.
  all: destruct (all_answered_dec s (sends ls) Hcov) as [Hall | [c [r [Hin Hu]]]];
       [exists [], s; repeat split; auto; constructor|].
  all: assert (Hr : reachable W cap false s) by (exists ls; exact Hrun).
  all: destruct (read_requests_progress W cap false eq_refl Hcap s Hr Halive c r Hu) as [l [Hp Hen]].
  all: destruct (step W cap false s l) as [s1|] eqn:E1; [|contradiction].
  all: destruct (pipeline_step_advances W cap false s l s1 Hr E1 Hp) as [c1 [r1 [Hu1 Hlt1]]].
  all: assert (Hin1 : In (c1, r1) (sends ls)) by (apply Hcov; intros Hf; rewrite Hf in Hu1; discriminate).
  all: pose proof (rank_sum_strict s s1 (sends ls) c1 r1 (step_rank_mono W cap false s l s1 Hr E1) Hin1 Hlt1) as Hstrict.
  all: pose proof (rank_sum_bound s1 (sends ls)) as Hb.
  - lia.
  - assert (Hrun1 : run W cap false init (ls ++ [l]) = Some s1) by (rewrite run_app, Hrun; cbn; rewrite E1; reflexivity).
    assert (Hs : sends (ls ++ [l]) = sends ls).
    { rewrite sends_app. destruct l; cbn in Hp; try contradiction; cbn; apply app_nil_r. }
    pose proof (pipeline_step_ph _ _ _ _ _ _ E1 Hp) as Hph.
    destruct (IH (ls ++ [l]) s1 Hrun1) as [ls' [s' [Hf [Hr' [Hph' Hall']]]]].
    + rewrite Hph. exact Halive.
    + rewrite Hs. lia.
    + exists (l :: ls'), s'. split; [constructor; auto|]. split; [cbn; rewrite E1; exact Hr'|].
      split; [congruence | exact Hall'].
Qed.

(* Shutdown can always return drained (repaired code): from every reachable state in which Shutdown is in progress,
   some continuation — the pipeline finishing what was read, then one poller tick closing every connection — reaches
   the drained return. (With the pool released early this is false: progress_refuted_with_early_release.) *)
Lemma busy_unanswered : forall W cap early s, reachable W cap early s ->
  forall c r, In r (busy s c) -> unanswered (rs s c r) = true.
Proof.
  intros W cap early. apply (reachable_ind' W cap early (fun s => forall c r, In r (busy s c) -> unanswered (rs s c r) = true)).
  - cbn. intros. contradiction.
  - intros s l s' Hr IH H c0 r0 Hin. destruct (reachable_Safe W cap early s Hr) as [J1 J2 J2' J3 J4 J6 J7 J8 J9 J10].
    open_step H; split_guards; upd_cases; auto; try (cbn [In] in Hin);
      try (match goal with |- unanswered ?x = true => reflexivity end).
    all: try (destruct Hin as [Hin | Hin]; [congruence | auto]; fail).
    all: try (apply in_remove_nat in Hin; destruct Hin as [Hin Hne]; try contradiction; auto; fail).
    all: try (specialize (IH _ _ Hin); match goal with Hx : rs _ ?c ?r = _ |- _ => rewrite Hx in IH; discriminate IH end).
Qed.

Lemma pipeline_step_aux : forall W cap early s l s', step W cap early s l = Some s' -> pipeline_label l ->
  rdbuf s' = rdbuf s /\ chk s' = chk s /\ raced s' = raced s /\ known s' = known s /\ inpoll s' = inpoll s.
Proof. intros W cap early s l s' H Hp. open_step H; try contradiction; repeat split; reflexivity. Qed.

Lemma pipeline_run_aux : forall W cap early ls s s', Forall pipeline_label ls -> run W cap early s ls = Some s' ->
  rdbuf s' = rdbuf s /\ chk s' = chk s /\ raced s' = raced s /\ known s' = known s /\ inpoll s' = inpoll s.
Proof.
  induction ls as [|l ls IH]; intros s s' Hf H; cbn in H.
  - inversion H. subst. repeat split; reflexivity.
  - inversion Hf; subst. destruct (step W cap early s l) as [s1|] eqn:E; [|discriminate].
    destruct (pipeline_step_aux _ _ _ _ _ _ E H2) as [A1 [A2 [A3 [A4 A5]]]].
    destruct (IH s1 s' H3 H) as [B1 [B2 [B3 [B4 B5]]]]. repeat split; congruence.
Qed.

Lemma reachable_run : forall W cap early s ls s', reachable W cap early s -> run W cap early s ls = Some s' ->
  reachable W cap early s'.
Proof. intros W cap early s ls s' [l0 Hl0] H. exists (l0 ++ ls). rewrite run_app, Hl0. exact H. Qed.

(* requests that a receive loop holds read-and-uncounted are counted (handleConn goes on): for the connections of l *)
Lemma flush_rdbuf : forall W cap early (l : list cid) s, reachable W cap early s -> alive (ph s) = true ->
  exists ls s', run W cap early s ls = Some s' /\ ph s' = ph s /\ raced s' = raced s /\ known s' = known s /\
    (forall c, In c l -> rdbuf s' c = None) /\ (forall c, rdbuf s c = None -> rdbuf s' c = None).
Proof.
  intros W cap early. induction l as [|c l IH]; intros s Hr Hal.
  - exists [], s. cbn. repeat split; auto. intros c Hc. contradiction.
  - destruct (IH s Hr Hal) as [ls [s1 [Hrun [Hp1 [Hrc1 [Hkn1 [Hl1 Hk1]]]]]]].
    assert (Hr1 : reachable W cap early s1) by (eapply reachable_run; eauto).
    destruct (rdbuf s1 c) as [r|] eqn:E.
    2:{ exists ls, s1. repeat split; auto. intros c0 [Hc0 | Hc0]; [subst; auto | auto]. }
    destruct (reachable_Safe W cap early s1 Hr1) as [J1 J2 J2' J3 J4 J6 J7 J8 J9 J10].
    destruct (J8 c r E) as [Hfl _].
    assert (Hstep : exists s2, step W cap early s1 (LRead c r) = Some s2 /\ ph s2 = ph s1 /\ raced s2 = raced s1 /\
                               known s2 = known s1 /\ rdbuf s2 = upd (rdbuf s1) c None).
    { assert (Hal1 : alive (ph s1) = true) by (rewrite Hp1; exact Hal).
      unfold step. rewrite Hal1. cbn [negb]. rewrite E, Hfl, Nat.eqb_refl.
      destruct (W =? 0); eexists; (split; [reflexivity|]); cbn; repeat split; reflexivity. }
    destruct Hstep as [s2 [Hs2 [Hp2 [Hrc2 [Hkn2 Hrd2]]]]].
    exists (ls ++ [LRead c r]), s2. split; [rewrite run_app, Hrun; cbn; rewrite Hs2; reflexivity|].
    split; [congruence|]. split; [congruence|]. split; [congruence|]. rewrite Hrd2. split.
    + intros c0 [Hc0 | Hc0]; [subst; apply upd_eq|].
      destruct (Nat.eq_dec c0 c) as [Ec | Ec]; [subst; apply upd_eq | rewrite upd_neq by assumption; auto].
    + intros c0 Hn. destruct (Nat.eq_dec c0 c) as [Ec | Ec]; [subst; apply upd_eq | rewrite upd_neq by assumption; auto].
Qed.

Definition conn_done (s : state) (c : cid) : Prop := inmap s c = false \/ cst s c = CClosed.

(* one tick of the poller closes the connections of l, one after the other: pending test first, else test and close *)
Lemma close_all_in_tick : forall W cap early (l : list cid) s, reachable W cap early s ->
  ph s = SDown -> inpoll s = true -> (forall c, busy s c = []) -> (forall c, rdbuf s c = None) ->
  exists ls s', run W cap early s ls = Some s' /\ reachable W cap early s' /\
    ph s' = SDown /\ inpoll s' = true /\ known s' = known s /\ (forall c, busy s' c = []) /\
    (forall c, rdbuf s' c = None) /\ raced s' = raced s /\
    (forall c, In c l -> conn_done s' c /\ chk s' c = false) /\
    (forall c, conn_done s c -> conn_done s' c) /\ (forall c, chk s c = false -> chk s' c = false).
Proof.
  intros W cap early. induction l as [|c l IH]; intros s Hr Hp Hi Hb Hd.
  - exists [], s. cbn. repeat split; auto; try contradiction; try (intros c0 Hc0; contradiction).
  - destruct (IH s Hr Hp Hi Hb Hd) as [ls [s1 [Hrun [Hr1 [Hp1 [Hi1 [Hk1 [Hb1 [Hd1 [Hrc1 [Hl1 [Hkeep1 Hck1]]]]]]]]]]]].
    destruct (reachable_Safe W cap early s1 Hr1) as [J1 J2 J2' J3 J4 J6 J7 J8 J9 J10].
    (* first: a test of c that is still pending is completed *)
    assert (Hclr : exists la sa, run W cap early s1 la = Some sa /\ reachable W cap early sa /\ ph sa = SDown /\
              inpoll sa = true /\ known sa = known s1 /\ (forall c, busy sa c = []) /\ (forall c, rdbuf sa c = None) /\
              raced sa = raced s1 /\ chk sa c = false /\
              (forall c0, conn_done s1 c0 -> conn_done sa c0) /\ (forall c0, chk s1 c0 = false -> chk sa c0 = false)).
    { destruct (chk s1 c) eqn:Ec.
      2:{ exists [], s1. cbn. repeat split; auto. }
      destruct (J10 c Ec) as [_ [Hkn _]]. apply J1 in Hkn.
      assert (Hstep : exists s2, step W cap early s1 (LPollClose c) = Some s2 /\ ph s2 = ph s1 /\ inpoll s2 = inpoll s1 /\
                known s2 = known s1 /\ busy s2 = busy s1 /\ rdbuf s2 = rdbuf s1 /\ raced s2 = raced s1 /\
                chk s2 = upd (chk s1) c false /\
                (forall c0, conn_done s1 c0 -> conn_done s2 c0)).
      { unfold step. rewrite Hp1. cbn [alive negb]. rewrite Ec.
        destruct (cst s1 c) eqn:Es; try contradiction; eexists; (split; [reflexivity|]); cbn; repeat split; auto.
        all: unfold conn_done; cbn; intros c0 Hx; destruct (Nat.eq_dec c0 c) as [E0 | E0];
             [subst; right; apply upd_eq | rewrite !(upd_neq _ _ c _ c0 E0); auto]. }
      destruct Hstep as [s2 [Hs2 [A1 [A2 [A3 [A4 [A5 [A6 [A7 A8]]]]]]]]].
      exists [LPollClose c], s2. cbn. rewrite Hs2. split; auto. split; [eapply reachable_step; eauto|].
      split; [congruence|]. split; [congruence|]. split; [congruence|]. split; [intros c0; rewrite A4; auto|].
      split; [intros c0; rewrite A5; auto|]. split; [congruence|]. split; [rewrite A7; apply upd_eq|]. split; [exact A8|].
      intros c0 Hx. rewrite A7. destruct (Nat.eq_dec c0 c) as [E0 | E0]; [subst; apply upd_eq | rewrite upd_neq by assumption; auto]. }
    destruct Hclr as [la [sa [Hra [Hrea [Hpa [Hia [Hka [Hba [Hda [Hrca [Hcka [Hkeepa Hckk]]]]]]]]]]]].
    destruct (reachable_Safe W cap early sa Hrea) as [I1 I2 I2' I3 I4 I6 I7 I8 I9 I10].
    assert (Hdec : conn_done sa c \/ (inmap sa c = true /\ (cst sa c = COpen \/ cst sa c = CExited))).
    { unfold conn_done. destruct (inmap sa c) eqn:Hm; auto. destruct (cst sa c) eqn:Es; auto.
      rewrite (I2' c Es) in Hm. discriminate. }
    destruct Hdec as [Hdone | [Hm Hopen]].
    { exists (ls ++ la), sa. split; [rewrite run_app, Hrun; exact Hra|]. split; auto.
      split; auto. split; auto. split; [congruence|]. split; auto. split; auto. split; [congruence|].
      split; [|split].
      - intros c0 [Hc0 | Hc0]; [subst; auto|]. destruct (Hl1 c0 Hc0) as [X1 X2]. split; [apply Hkeepa, X1 | apply Hckk, X2].
      - intros c0 Hx. apply Hkeepa, Hkeep1, Hx.
      - intros c0 Hx. apply Hckk, Hck1, Hx. }
    (* test, then close *)
    assert (Hstep : exists s3, run W cap early sa [LPollCheck c; LPollClose c] = Some s3 /\ ph s3 = SDown /\ inpoll s3 = true /\
              known s3 = known sa /\ busy s3 = busy sa /\ rdbuf s3 = rdbuf sa /\ raced s3 = raced sa /\
              chk s3 = upd (upd (chk sa) c true) c false /\ cst s3 = upd (cst sa) c CClosed /\ inmap s3 = upd (inmap sa) c true).
    { cbn [run]. unfold step at 1. rewrite Hpa. cbn [alive negb poller_live]. rewrite Hia, Hm. cbn [andb]. rewrite (Hba c).
      destruct Hopen as [Es | Es]; rewrite Es.
      all: unfold step; cbn [ph listen inpoll known cst inmap notified polled busy pend rs queue hand running stopped earlypoll rdbuf chk raced set_aux].
      all: rewrite Hpa; cbn [alive negb]; rewrite upd_eq, Es, (Hda c); cbn [is_some orb].
      all: eexists; (split; [reflexivity|]); cbn; rewrite ?orb_false_r; repeat split; auto. }
    destruct Hstep as [s3 [Hs3 [B1 [B2 [B3 [B4 [B5 [B6 [B7 [B8 B9]]]]]]]]]].
    exists (ls ++ la ++ [LPollCheck c; LPollClose c]), s3.
    split; [rewrite run_app, Hrun, run_app, Hra; exact Hs3|].
    split; [eapply reachable_run; [exact Hrea | exact Hs3]|].
    split; auto. split; auto. split; [congruence|]. split; [intros c0; rewrite B4; auto|].
    split; [intros c0; rewrite B5; auto|]. split; [congruence|].
    assert (Hcd : forall c0, conn_done sa c0 -> conn_done s3 c0).
    { unfold conn_done. intros c0 Hx. rewrite B8, B9. destruct (Nat.eq_dec c0 c) as [E0 | E0];
        [subst; right; apply upd_eq | rewrite !(upd_neq _ _ c _ c0 E0); auto]. }
    assert (Hcf : forall c0, chk sa c0 = false -> chk s3 c0 = false).
    { intros c0 Hx. rewrite B7. destruct (Nat.eq_dec c0 c) as [E0 | E0]; [subst; apply upd_eq | rewrite !(upd_neq _ _ c _ c0 E0); auto]. }
    split; [|split].
    + intros c0 [Hc0 | Hc0].
      * subst c0. split; [unfold conn_done; right; rewrite B8; apply upd_eq | rewrite B7; apply upd_eq].
      * destruct (Hl1 c0 Hc0) as [X1 X2]. split; [apply Hcd, Hkeepa, X1 | apply Hcf, Hckk, X2].
    + intros c0 Hx. apply Hcd, Hkeepa, Hkeep1, Hx.
    + intros c0 Hx. apply Hcf, Hckk, Hck1, Hx.
Qed.

Theorem can_always_return_drained : forall W cap, (0 < cap)%N -> forall ls s, run W cap false init ls = Some s ->
  ph s = SDown -> exists ls' s', run W cap false s ls' = Some s' /\ ph s' = SRetDrained /\ raced s' = raced s.
Proof.
  intros W cap Hcap ls s Hrun Hp.
  assert (Halive : alive (ph s) = true) by (rewrite Hp; reflexivity).
  assert (Hreach : reachable W cap false s) by (exists ls; exact Hrun).
  (* 1. what the receive loops hold is counted *)
  destruct (flush_rdbuf W cap false (known s) s Hreach Halive) as [l0 [s0 [Hr0 [Hp0 [Hrc0 [Hkn0 [Hfl0 _]]]]]]].
  assert (Hreach0 : reachable W cap false s0) by (eapply reachable_run; eauto).
  assert (Hrun0 : run W cap false init (ls ++ l0) = Some s0) by (rewrite run_app, Hrun; exact Hr0).
  assert (Hrd0 : forall c, rdbuf s0 c = None).
  { intros c. destruct (reachable_Safe W cap false s0 Hreach0) as [J1 _ _ _ J4 _ _ _ _ _].
    destruct (cst s0 c) eqn:E; try (apply Hfl0; rewrite <- Hkn0; apply J1; congruence).
    apply (J4 c E). }
  (* 2. the pipeline answers everything that is counted *)
  assert (Halive0 : alive (ph s0) = true) by (rewrite Hp0; exact Halive).
  destruct (can_always_drain W cap Hcap (ls ++ l0) s0 Hrun0 Halive0) as [l1 [s1 [Hf1 [Hr1 [Hp1 Hall1]]]]].
  destruct (pipeline_run_aux _ _ _ _ _ _ Hf1 Hr1) as [A1 [A2 [A3 [A4 A5]]]].
  assert (Hreach1 : reachable W cap false s1) by (eapply reachable_run; eauto).
  assert (Hb1 : forall c, busy s1 c = []).
  { intros c. destruct (busy s1 c) as [|r rest] eqn:E; auto.
    pose proof (busy_unanswered W cap false s1 Hreach1 c r) as Hu. rewrite E in Hu. specialize (Hu (or_introl eq_refl)).
    rewrite Hall1 in Hu. discriminate. }
  assert (Hrd1 : forall c, rdbuf s1 c = None) by (intros c; rewrite A1; apply Hrd0).
  rewrite Hp0, Hp in Hp1.
  (* 3. a tick *)
  assert (Htick : exists l2 s2, run W cap false s1 l2 = Some s2 /\ reachable W cap false s2 /\ ph s2 = SDown /\
                    inpoll s2 = true /\ known s2 = known s1 /\ (forall c, busy s2 c = []) /\
                    (forall c, rdbuf s2 c = None) /\ raced s2 = raced s1).
  { destruct (inpoll s1) eqn:Hi.
    - exists [], s1. cbn. repeat split; auto.
    - destruct (step W cap false s1 LPollBegin) as [s2|] eqn:E.
      + exists [LPollBegin], s2. cbn. rewrite E. split; auto. split; [eapply reachable_step; eauto|].
        unfold step in E. rewrite Hp1, Hi in E. cbn in E. inversion E. subst s2. cbn. repeat split; auto.
      + exfalso. unfold step in E. rewrite Hp1, Hi in E. cbn in E. discriminate. }
  destruct Htick as [l2 [s2 [Hr2 [Hreach2 [Hp2 [Hi2 [Hk2 [Hb2 [Hrd2 Hrc2]]]]]]]]].
  (* 4. it closes every connection *)
  destruct (close_all_in_tick W cap false (known s2) s2 Hreach2 Hp2 Hi2 Hb2 Hrd2)
    as [l3 [s3 [Hr3 [Hreach3 [Hp3 [Hi3 [Hk3 [Hb3 [Hrd3 [Hrc3 [Hdone _]]]]]]]]]]].
  assert (Hac : all_closed s3 = true).
  { unfold all_closed. apply forallb_forall. intros c Hc. rewrite Hk3 in Hc. destruct (Hdone c Hc) as [[Hd | Hd] _].
    - rewrite Hd. reflexivity.
    - rewrite Hd. apply orb_true_r. }
  assert (Hnc : nochk s3 = true).
  { unfold nochk. apply forallb_forall. intros c Hc. rewrite Hk3 in Hc. destruct (Hdone c Hc) as [_ Hx]. rewrite Hx. reflexivity. }
  destruct (drained_return_enabled W cap false s3) as [s4 [Hr4 Hp4]]; [rewrite Hp3; reflexivity | exact Hac | exact Hnc |].
  rewrite Hi3 in Hr4.
  exists (l0 ++ l1 ++ l2 ++ l3 ++ [LPollReturn]), s4. split; [|split; auto].
  - rewrite run_app, Hr0, run_app, Hr1, run_app, Hr2, run_app, Hr3. exact Hr4.
  - cbn in Hr4. destruct (step W cap false s3 LPollReturn) as [s5|] eqn:E5; [|discriminate]. inversion Hr4; subst s5.
    clear Halive Halive0. remember LPollReturn as lr eqn:Elr. open_step E5; try discriminate Elr. cbn. congruence.
Qed.

(* Every request is started at most once and answered at most once (no duplicate execution, no duplicate response),
   on every schedule: the finishing step needs rank 5 and leaves rank 6, the starting step needs rank 4 and leaves
   rank 5, and ranks never go down. *)
Definition is_finish (c : cid) (r : rid) (l : label) : bool :=
  match l with LFinish c' r' => (c' =? c) && (r' =? r) | _ => false end.
Definition is_start (c : cid) (r : rid) (l : label) : bool :=
  match l with LStart c' r' => (c' =? c) && (r' =? r) | _ => false end.
Definition count_lab (f : label -> bool) (ls : list label) : nat := length (filter f ls).

Lemma count_lab_app : forall f a b, count_lab f (a ++ b) = count_lab f a + count_lab f b.
Proof. intros. unfold count_lab. rewrite filter_app, app_length. reflexivity. Qed.

Lemma finish_rank : forall W cap early s c r s', step W cap early s (LFinish c r) = Some s' ->
  rank (rs s c r) = 5 /\ rank (rs s' c r) = 6.
Proof.
  intros W cap early s c r s' H. remember (LFinish c r) as l eqn:El.
  open_step H; try discriminate El. inversion El; subst. split_guards.
  match goal with Hx : rs s c r = Running |- _ => rewrite Hx end. rewrite upd2_eq.
  destruct (cstate_eqb (cst s c) CClosed); split; reflexivity.
Qed.

Lemma start_rank : forall W cap early s c r s', reachable W cap early s -> step W cap early s (LStart c r) = Some s' ->
  rank (rs s c r) = 4 /\ rank (rs s' c r) = 5.
Proof.
  intros W cap early s c r s' Hr H. destruct (reachable_Safe W cap early s Hr) as [J1 J2 J2' J3 J4 J6 J7 J8 J9 J10].
  remember (LStart c r) as l eqn:El.
  open_step H; try discriminate El; inversion El; subst; split_guards; rewrite upd2_eq.
  - match goal with Hx : rs s c r = Spawned |- _ => rewrite Hx end. split; reflexivity.
  - subst. rewrite (J7 c r) by reflexivity. split; reflexivity.
Qed.

Lemma at_most_once_arith : forall nf ns k bf bs : nat, k <= 6 ->
  nf <= 1 -> (nf = 1 -> k = 6) -> ns <= 1 -> (ns = 1 -> 5 <= k) ->
  forall k', k <= k' -> k' <= 6 ->
  (bf = 1 -> k = 5 /\ k' = 6) -> (bs = 1 -> k = 4 /\ k' = 5) -> bf <= 1 -> bs <= 1 -> bf + bs <= 1 ->
  nf + bf <= 1 /\ (nf + bf = 1 -> k' = 6) /\ ns + bs <= 1 /\ (ns + bs = 1 -> 5 <= k').
Proof. intros. lia. Qed.

Theorem answered_at_most_once : forall W cap early ls s c r, run W cap early init ls = Some s ->
  count_lab (is_finish c r) ls <= 1 /\ (count_lab (is_finish c r) ls = 1 -> rank (rs s c r) = 6) /\
  count_lab (is_start c r) ls <= 1 /\ (count_lab (is_start c r) ls = 1 -> 5 <= rank (rs s c r)).
Proof.
  intros W cap early ls. induction ls as [|l ls IH] using rev_ind; intros s c r Hrun.
  - cbn. repeat split; auto; intros; discriminate.
  - rewrite run_app in Hrun. destruct (run W cap early init ls) as [s1|] eqn:E1; [|discriminate].
    cbn in Hrun. destruct (step W cap early s1 l) as [s2|] eqn:E2; [|discriminate]. inversion Hrun. subst s2.
    assert (Hr1 : reachable W cap early s1) by (exists ls; exact E1).
    pose proof (step_rank_mono W cap early s1 l s Hr1 E2 c r) as Hm.
    assert (Hle : rank (rs s c r) <= 6) by (destruct (rs s c r); cbn; lia).
    assert (Hle1 : rank (rs s1 c r) <= 6) by (destruct (rs s1 c r); cbn; lia).
    destruct (IH s1 c r eq_refl) as [F1 [F2 [S1 S2]]].
    rewrite !count_lab_app.
    assert (Bf : count_lab (is_finish c r) [l] = if is_finish c r l then 1 else 0)
      by (unfold count_lab; cbn; destruct (is_finish c r l); reflexivity).
    assert (Bs : count_lab (is_start c r) [l] = if is_start c r l then 1 else 0)
      by (unfold count_lab; cbn; destruct (is_start c r l); reflexivity).
    rewrite Bf, Bs.
    apply (at_most_once_arith _ _ (rank (rs s1 c r))); auto.
    + destruct (is_finish c r l) eqn:Ef; [|discriminate]. intros _.
      destruct l; try discriminate. cbn in Ef. apply andb_true_iff in Ef. destruct Ef as [A B].
      apply Nat.eqb_eq in A, B. subst. exact (finish_rank _ _ _ _ _ _ _ E2).
    + destruct (is_start c r l) eqn:Es; [|discriminate]. intros _.
      destruct l; try discriminate. cbn in Es. apply andb_true_iff in Es. destruct Es as [A B].
      apply Nat.eqb_eq in A, B. subst. exact (start_rank _ _ _ _ _ _ _ Hr1 E2).
    + destruct (is_finish c r l); auto.
    + destruct (is_start c r l); auto.
    + destruct l; cbn; auto; destruct ((c0 =? c) && (r0 =? r)); auto.
Qed.

(* ---------------------------------------------------------------------------------------------------------- *)
(* The statements of Props/C12.v, with the run spelled out. *)

Lemma is_reachable : forall W cap early ls s, run W cap early init ls = Some s -> reachable W cap early s.
Proof. intros. exists ls. assumption. Qed.

(* Clause 1 at full strength (no hypothesis on the schedule) — false of the two-instruction model, see below. *)
Definition c12_answered_before_close_statement : Prop :=
  forall W cap early ls s, run W cap early init ls = Some s ->
  forall c, cst s c = CClosed -> rdbuf s c = None /\ forall r, unanswered (rs s c r) = false /\ rs s c r <> Lost.

Theorem c12_answered_before_close : forall W cap early ls s, run W cap early init ls = Some s -> raced s = false ->
  forall c, cst s c = CClosed -> rdbuf s c = None /\ forall r, unanswered (rs s c r) = false /\ rs s c r <> Lost.
Proof. intros. eapply answered_before_close; eauto using is_reachable. Qed.

(* Window 1 (recv): Read has returned a request, numInvoke++ has not happened yet; the poller tests numInvoke = 0 and
   closes. The request was read 4 steps before the close and is never answered. Replayed on the code (known finding). *)
Definition race_read_then_count : list label :=
  [LConnect 0; LSend 0 0; LShutdown; LAcceptExit; LReadBytes 0 0; LPollBegin; LPollCheck 0; LPollClose 0; LRead 0 0;
   LStart 0 0; LFinish 0 0].
(* Window 2 (poller): numInvoke = 0 tested, then a request is read and counted, then Close. *)
Definition race_check_then_close : list label :=
  [LConnect 0; LSend 0 0; LShutdown; LAcceptExit; LPollBegin; LPollCheck 0; LReadBytes 0 0; LRead 0 0; LPollClose 0;
   LStart 0 0; LFinish 0 0].

Theorem c12_answered_before_close_refuted :
  (exists s, run 0 10 false init race_read_then_count = Some s /\ cst s 0 = CClosed /\ rs s 0 0 = Lost /\ raced s = true) /\
  (exists s, run 0 10 false init race_check_then_close = Some s /\ cst s 0 = CClosed /\ rs s 0 0 = Lost /\ raced s = true) /\
  ~ c12_answered_before_close_statement.
Proof.
  split; [eexists; split; [vm_compute; reflexivity|]; cbn; auto|].
  split; [eexists; split; [vm_compute; reflexivity|]; cbn; auto|].
  intros H. destruct (run 0 10 false init race_read_then_count) as [s|] eqn:E; [|vm_compute in E; discriminate].
  assert (Hc : cst s 0 = CClosed) by (vm_compute in E; inversion E; reflexivity).
  assert (Hl : rs s 0 0 = Lost) by (vm_compute in E; inversion E; reflexivity).
  destruct (H _ _ _ _ _ E 0 Hc) as [_ Hx]. destruct (Hx 0) as [_ Hy]. contradiction.
Qed.

(* ... also with a pool, and the drained return is then taken with a request read and unanswered *)
Theorem c12_drained_return_refuted_by_race :
  exists s s', run 2 10 false init [LConnect 0; LSend 0 0; LShutdown; LAcceptExit; LReadBytes 0 0; LPollBegin; LPollCheck 0;
                                    LPollClose 0; LRead 0 0] = Some s /\
    step 2 10 false s LPollReturn = Some s' /\ ph s' = SRetDrained /\ unanswered (rs s' 0 0) = true /\ raced s' = true.
Proof. eexists. eexists. split; [vm_compute; reflexivity|]. split; [vm_compute; reflexivity|]. cbn. auto. Qed.

Theorem c12_close_step : forall W cap early ls s l s' c, run W cap early init ls = Some s ->
  step W cap early s l = Some s' -> raced s' = false -> cst s c <> CClosed -> cst s' c = CClosed ->
  (l = LPollClose c \/ l = LRecvClose c) /\ busy s c = [] /\ rdbuf s c = None /\
  forall r, unanswered (rs s c r) = false /\ rs s' c r = rs s c r.
Proof. intros. eapply close_step_all_answered; eauto using is_reachable. Qed.

(* a request that was read and counted and is not answered — also one that only waits in JobQueue or in the
   dispatcher's hand — is in numInvoke and its connection is in the table (any schedule); without a race the
   connection is also still open *)
Theorem c12_unanswered_keeps_connection : forall W cap early ls s, run W cap early init ls = Some s ->
  forall c r, unanswered (rs s c r) = true ->
  In r (busy s c) /\ inmap s c = true /\ (raced s = false -> cst s c = COpen \/ cst s c = CExited).
Proof.
  intros W cap early ls s Hrun c r Hu. pose proof (is_reachable _ _ _ _ _ Hrun) as Hr.
  pose proof (reachable_Safe W cap early s Hr) as HS.
  destruct (unanswered_in_table s HS c r Hu) as [_ Hm].
  split; [apply (S_busy s HS); exact Hu|]. split; auto.
  intros Hrc. destruct (unanswered_conn_live s HS (reachable_NoRace W cap early s Hr Hrc) c r Hu) as [Hc _]. exact Hc.
Qed.

(* a non-timeout Accept error leaves the server exactly as it was: the accept loop goes on *)
Theorem c12_accept_error_is_noop : forall W cap early s s', step W cap early s LAcceptErr = Some s' -> s' = s.
Proof.
  intros W cap early s s' H. unfold step in H. destruct (negb (alive (ph s))); [discriminate|].
  destruct (listen s =? 0); inversion H. reflexivity.
Qed.
Theorem c12_accept_error_enabled : forall W cap early s, alive (ph s) = true -> listen s = 0 ->
  step W cap early s LAcceptErr = Some s.
Proof. intros W cap early s Ha Hl. unfold step. rewrite Ha, Hl. reflexivity. Qed.

(* CloseIdles reports "all closed" only as a conjunction over the whole table: whatever the schedule, the drained
   return is taken only when EVERY accepted connection is closed (not: the last one visited) *)
Theorem c12_drained_return_needs_all : forall W cap early ls s s', run W cap early init ls = Some s ->
  step W cap early s LPollReturn = Some s' ->
  ph s' = SRetDrained /\ forall c, In c (known s') -> cst s' c = CClosed.
Proof. intros. eapply drained_return_all_closed; eauto using is_reachable. Qed.

Theorem c12_progress : forall W cap ls s, (0 < cap)%N -> run W cap false init ls = Some s -> alive (ph s) = true ->
  forall c r, unanswered (rs s c r) = true -> exists l, pipeline_label l /\ step W cap false s l <> None.
Proof. intros. eapply read_requests_progress; eauto using is_reachable. Qed.

Theorem c12_rank_mono : forall W cap early ls s l s', run W cap early init ls = Some s ->
  step W cap early s l = Some s' -> forall c r, rank (rs s c r) <= rank (rs s' c r) <= 6.
Proof.
  intros. split; [eapply step_rank_mono; eauto using is_reachable|]. destruct (rs s' c r); cbn; lia.
Qed.

Theorem c12_pipeline_advances : forall W cap early ls s l s', run W cap early init ls = Some s ->
  step W cap early s l = Some s' -> pipeline_label l ->
  exists c r, unanswered (rs s c r) = true /\ rank (rs s c r) < rank (rs s' c r).
Proof. intros. eapply pipeline_step_advances; eauto using is_reachable. Qed.

Definition c12_notification_statement : Prop :=
  forall W cap early ls s, run W cap early init ls = Some s -> returned (ph s) = false ->
  forall c, cst s c = CClosed -> notified s c = true.

Theorem c12_notification_partial : forall W cap early ls s, run W cap early init ls = Some s ->
  earlypoll s = false -> returned (ph s) = false -> forall c, cst s c = CClosed -> notified s c = true.
Proof. intros. eapply closed_after_notification; eauto using is_reachable. Qed.

Theorem c12_notification_refuted : ~ c12_notification_statement.
Proof.
  intros H. destruct notification_needs_listener_down as [s [Hr [Hc [Hn [_ Hp]]]]].
  specialize (H _ _ _ _ _ Hr Hp 0 Hc). congruence.
Qed.

Theorem c12_close_step_notified : forall W cap early ls s l s' c, run W cap early init ls = Some s ->
  step W cap early s l = Some s' -> cst s c <> CClosed -> cst s' c = CClosed -> earlypoll s' = false ->
  returned (ph s') = false -> notified s c = true.
Proof. intros. eapply close_step_notified; eauto using is_reachable. Qed.

Theorem c12_notifying_tick_per_connection : forall W cap early s s', step W cap early s LPollBegin = Some s' ->
  listen s = 1 -> listen s' = 2 /\
  forall c, notified s' c = notified s c || (inmap s c && negb (cstate_eqb (cst s c) CClosed)).
Proof. exact notifying_tick_per_connection. Qed.

Theorem c12_all_open_notified : forall W cap early ls s, run W cap early init ls = Some s -> listen s = 2 ->
  forall c, inmap s c = true -> cst s c <> CClosed -> notified s c = true.
Proof. intros. eapply all_open_notified; eauto using is_reachable. Qed.

Theorem c12_drained_return_sound : forall W cap early ls s s', run W cap early init ls = Some s -> raced s = false ->
  step W cap early s LPollReturn = Some s' ->
  ph s' = SRetDrained /\ (forall c, In c (known s') -> cst s' c = CClosed) /\
  (forall c r, unanswered (rs s' c r) = false) /\ (forall c, rdbuf s' c = None).
Proof. intros. eapply drained_return_sound; eauto using is_reachable. Qed.

Theorem c12_drained_return_notified : forall W cap early ls s s', run W cap early init ls = Some s ->
  step W cap early s LPollReturn = Some s' -> earlypoll s' = false ->
  forall c, In c (known s') -> notified s' c = true.
Proof. intros. eapply drained_return_notified; eauto using is_reachable. Qed.

Theorem c12_progress_refuted_before_fix :
  exists ls s, run 1 10 true init ls = Some s /\ alive (ph s) = true /\ unanswered (rs s 0 1) = true /\
    forall ls' s', run 1 10 true s ls' = Some s' ->
      rs s' 0 1 = Queued /\ cst s' 0 <> CClosed /\ ph s' <> SRetDrained.
Proof.
  destruct progress_refuted_with_early_release as [s [Hr [Hu [_ Hf]]]].
  exists release_before_drain, s. split; auto. split; auto.
  vm_compute in Hr. inversion Hr. reflexivity.
Qed.
