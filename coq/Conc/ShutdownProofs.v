(* C12 — proofs about the shutdown transition system of Conc/Shutdown.v: invariants over ALL label sequences
   (any number of connections and requests, any pool size and queue capacity, any interleaving). *)
From Coq Require Import List NArith Bool Arith Lia.
From TarsV Require Import Conc.Shutdown.
Import ListNotations.

(* ---------------------------------------------------------------------------------------------------------- *)
(* small facts *)

Lemma req_eqb_eq : forall a b, req_eqb a b = true <-> a = b.
Proof.
  intros [a1 a2] [b1 b2]. unfold req_eqb. cbn. rewrite andb_true_iff, !Nat.eqb_eq. split.
  - intros [-> ->]. reflexivity.
  - intros H. inversion H. auto.
Qed.

Lemma req_eqb_refl : forall a, req_eqb a a = true.
Proof. intros. apply req_eqb_eq. reflexivity. Qed.

Lemma in_remove_req : forall q x l, In x (remove_req q l) <-> In x l /\ x <> q.
Proof.
  intros. unfold remove_req. rewrite filter_In. split; intros [H1 H2]; split; auto.
  - intros ->. rewrite req_eqb_refl in H2. discriminate.
  - destruct (req_eqb x q) eqn:E; auto. apply req_eqb_eq in E. contradiction.
Qed.

Lemma in_remove_nat : forall r x l, In x (remove_nat r l) <-> In x l /\ x <> r.
Proof.
  intros. unfold remove_nat. rewrite filter_In. split; intros [H1 H2]; split; auto.
  - intros ->. rewrite Nat.eqb_refl in H2. discriminate.
  - destruct (x =? r) eqn:E; auto. apply Nat.eqb_eq in E. contradiction.
Qed.

Lemma existsb_req_in : forall q l, existsb (req_eqb q) l = true <-> In q l.
Proof.
  intros. rewrite existsb_exists. split.
  - intros [x [Hin He]]. apply req_eqb_eq in He. subst. auto.
  - intros. exists q. split; auto. apply req_eqb_refl.
Qed.

Lemma cstate_eqb_eq : forall a b, cstate_eqb a b = true <-> a = b.
Proof. destruct a, b; cbn; split; intros; congruence. Qed.

Lemma rstate_eqb_eq : forall a b, rstate_eqb a b = true <-> a = b.
Proof. destruct a, b; cbn; split; intros; congruence. Qed.

Lemma upd_eq : forall A (f : nat -> A) k v, upd f k v k = v.
Proof. intros. unfold upd. rewrite Nat.eqb_refl. reflexivity. Qed.

Lemma upd_neq : forall A (f : nat -> A) k v x, x <> k -> upd f k v x = f x.
Proof. intros. unfold upd. destruct (x =? k) eqn:E; auto. apply Nat.eqb_eq in E. contradiction. Qed.

Lemma upd2_eq : forall A (f : nat -> nat -> A) k1 k2 v, upd2 f k1 k2 v k1 k2 = v.
Proof. intros. unfold upd2. rewrite !Nat.eqb_refl. reflexivity. Qed.

Lemma upd2_neq : forall A (f : nat -> nat -> A) k1 k2 v x y, (x, y) <> (k1, k2) -> upd2 f k1 k2 v x y = f x y.
Proof.
  intros. unfold upd2. destruct (x =? k1) eqn:E1; destruct (y =? k2) eqn:E2; cbn; auto.
  apply Nat.eqb_eq in E1, E2. subst. contradiction.
Qed.

(* case analysis on a key against an updated key *)
Ltac key1 x k :=
  let E := fresh "E" in
  destruct (Nat.eq_dec x k) as [E | E];
  [ subst; rewrite ?upd_eq in * | rewrite ?(upd_neq _ _ k _ x E) in * ].

Ltac key2 x y k1 k2 :=
  let E := fresh "E" in
  destruct (Nat.eq_dec x k1) as [E | E];
  [ subst; destruct (Nat.eq_dec y k2) as [E | E];
    [ subst; rewrite ?upd2_eq in *
    | assert ((k1, y) <> (k1, k2)) by congruence ]
  | assert ((x, y) <> (k1, k2)) by congruence ].

(* open one step: case analysis on the label and on every guard *)
Ltac open_step H :=
  unfold step in H;
  match type of H with
  | (if negb (alive ?p) then _ else _) = _ => destruct (alive p) eqn:Halive; cbn [negb] in H; [|discriminate H]
  end;
  match type of H with
  | match ?l with LConnect _ => _ | _ => _ end = _ => destruct l
  end;
  repeat match type of H with
  | (if ?b then _ else _) = Some _ => destruct b eqn:?; try discriminate H
  | match ?x with _ => _ end = Some _ => destruct x eqn:?; try discriminate H
  end;
  inversion H; subst; clear H;
  unfold set_conn, set_srv, set_req in *; cbn [ph listen inpoll known cst inmap notified polled busy pend rs queue hand running stopped earlypoll] in *.

Ltac split_guards :=
  repeat match goal with
  | H : _ && _ = true |- _ => apply andb_true_iff in H; destruct H
  | H : negb _ = true |- _ => apply negb_true_iff in H
  | H : cstate_eqb _ _ = true |- _ => apply cstate_eqb_eq in H
  | H : rstate_eqb _ _ = true |- _ => apply rstate_eqb_eq in H
  | H : req_eqb _ _ = true |- _ => apply req_eqb_eq in H
  | H : (_ =? _) = true |- _ => apply Nat.eqb_eq in H
  | H : (_ =? _) = false |- _ => apply Nat.eqb_neq in H
  end.

(* split on whether a looked-up key is the updated key *)
Ltac upd_cases :=
  repeat first
  [ match goal with
    | |- context[upd _ ?k _ ?x] =>
        destruct (Nat.eq_dec x k); [subst; rewrite ?upd_eq in * | rewrite ?(upd_neq _ _ k _ x) in * by assumption]
    | H : context[upd _ ?k _ ?x] |- _ =>
        destruct (Nat.eq_dec x k); [subst; rewrite ?upd_eq in * | rewrite ?(upd_neq _ _ k _ x) in * by assumption]
    end
  | match goal with
    | |- context[upd2 _ ?k1 ?k2 _ ?x ?y] =>
        destruct (Nat.eq_dec x k1); [subst; destruct (Nat.eq_dec y k2); [subst; rewrite ?upd2_eq in *
          | rewrite ?(upd2_neq _ _ k1 k2 _ k1 y) in * by congruence]
          | rewrite ?(upd2_neq _ _ k1 k2 _ x y) in * by congruence]
    | H : context[upd2 _ ?k1 ?k2 _ ?x ?y] |- _ =>
        destruct (Nat.eq_dec x k1); [subst; destruct (Nat.eq_dec y k2); [subst; rewrite ?upd2_eq in *
          | rewrite ?(upd2_neq _ _ k1 k2 _ k1 y) in * by congruence]
          | rewrite ?(upd2_neq _ _ k1 k2 _ x y) in * by congruence]
    end ].

Section Proofs.
Variable W : nat.
Variable cap : N.
Variable early : bool.
Notation stepW := (step W cap early).
Notation runW := (run W cap early).

Definition reachable (s : state) : Prop := exists ls, runW init ls = Some s.

Lemma run_app : forall l1 l2 s, runW s (l1 ++ l2) = match runW s l1 with Some s' => runW s' l2 | None => None end.
Proof.
  induction l1; intros; cbn; auto. destruct (stepW s a); auto.
Qed.

Lemma reachable_ind' : forall P : state -> Prop,
  P init ->
  (forall s l s', reachable s -> P s -> stepW s l = Some s' -> P s') ->
  forall s, reachable s -> P s.
Proof.
  intros P H0 HS s [ls Hr]. revert s Hr.
  induction ls using rev_ind; intros s Hr.
  - cbn in Hr. inversion Hr. subst. exact H0.
  - rewrite run_app in Hr. destruct (runW init ls) as [s1|] eqn:E; [|discriminate].
    cbn in Hr. destruct (stepW s1 x) as [s2|] eqn:E2; [|discriminate]. inversion Hr. subst.
    apply (HS s1 x s); auto. exists ls. exact E.
Qed.

Lemma reachable_step : forall s l s', reachable s -> stepW s l = Some s' -> reachable s'.
Proof.
  intros s l s' [ls H] Hs. exists (ls ++ [l]). rewrite run_app, H. cbn. rewrite Hs. reflexivity.
Qed.


(* ---------------------------------------------------------------------------------------------------------- *)
(* Safety invariant: numInvoke (the ghost list busy) covers every request read and not answered; a connection is
   only ever closed with busy = []; nothing is ever Lost. *)

Record Safe (s : state) : Prop := {
  S_known : forall c, cst s c <> CNone <-> In c (known s);
  S_map : forall c, inmap s c = false -> cst s c = CClosed \/ cst s c = CNone;
  S_nomap : forall c, cst s c = CNone -> inmap s c = false;
  S_busy : forall c r, unanswered (rs s c r) = true -> In r (busy s c);
  S_closed : forall c, cst s c = CClosed \/ cst s c = CNone -> busy s c = [];
  S_lost : forall c r, rs s c r <> Lost;
  S_queue : forall c r, In (c, r) (queue s) -> rs s c r = Queued;
  S_hand : forall c r, hand s = Some (c, r) -> rs s c r = InHand
}.

Lemma init_Safe : Safe init.
Proof.
  constructor; cbn; intros; try discriminate; auto; try contradiction.
  split; intros; [congruence | contradiction].
Qed.


Lemma step_S_known : forall s l s', Safe s -> stepW s l = Some s' -> forall c, cst s' c <> CNone <-> In c (known s').
Proof.
  intros s l s' [J1 J2 J2' J3 J4 J5 J6 J7] H c0.
  open_step H; split_guards; upd_cases; try apply J1.
  all: match goal with |- _ <-> In ?c _ => pose proof (J1 c) as Hk; cbn [In]; intuition congruence end.
Qed.

Lemma step_S_map : forall s l s', Safe s -> stepW s l = Some s' ->
  forall c, inmap s' c = false -> cst s' c = CClosed \/ cst s' c = CNone.
Proof.
  intros s l s' [J1 J2 J2' J3 J4 J5 J6 J7] H c0 Hm.
  open_step H; split_guards; upd_cases; try (apply J2; assumption); try discriminate; auto.
Qed.

Lemma step_S_nomap : forall s l s', Safe s -> stepW s l = Some s' ->
  forall c, cst s' c = CNone -> inmap s' c = false.
Proof.
  intros s l s' [J1 J2 J2' J3 J4 J5 J6 J7] H c0 Hm.
  open_step H; split_guards; upd_cases; try (apply J2'; assumption); try discriminate; auto.
Qed.

Lemma step_S_closed : forall s l s', Safe s -> stepW s l = Some s' ->
  forall c, cst s' c = CClosed \/ cst s' c = CNone -> busy s' c = [].
Proof.
  intros s l s' [J1 J2 J2' J3 J4 J5 J6 J7] H c0 Hm.
  open_step H; split_guards; upd_cases; try (apply J4; assumption); auto.
  all: try (destruct Hm; congruence).
  rewrite (J4 _ Hm). reflexivity.
Qed.

Lemma step_S_busy : forall s l s', Safe s -> stepW s l = Some s' ->
  forall c r, unanswered (rs s' c r) = true -> In r (busy s' c).
Proof.
  intros s l s' [J1 J2 J2' J3 J4 J5 J6 J7] H c0 r0 Hu.
  open_step H; split_guards; upd_cases; try (apply J3; assumption); try discriminate; cbn [In]; auto.
  all: try (apply J3; match goal with Hx : rs _ ?c ?r = _ |- context[rs _ ?c ?r] => rewrite Hx; reflexivity end).
  all: try (apply in_remove_nat; split; auto; fail).
  all: try (match goal with Hx : unanswered (if ?b then _ else _) = true |- _ => destruct b; discriminate end).
  - apply J3. rewrite (J6 c r) by (apply existsb_req_in; assumption). reflexivity.
  - subst. apply J3. rewrite (J7 c r) by reflexivity. reflexivity.
Qed.

Lemma step_S_lost : forall s l s', Safe s -> stepW s l = Some s' -> forall c r, rs s' c r <> Lost.
Proof.
  intros s l s' [J1 J2 J2' J3 J4 J5 J6 J7] H c0 r0.
  open_step H; split_guards; upd_cases; try apply J5; try discriminate.
  destruct (cstate_eqb (cst s c) CClosed) eqn:E; [|discriminate].
  apply cstate_eqb_eq in E.
  assert (Hb : In r (busy s c)) by (apply J3; rewrite Heqb; reflexivity).
  rewrite (J4 c) in Hb by auto. contradiction.
Qed.

Lemma step_S_queue : forall s l s', Safe s -> stepW s l = Some s' ->
  forall c r, In (c, r) (queue s') -> rs s' c r = Queued.
Proof.
  intros s l s' [J1 J2 J2' J3 J4 J5 J6 J7] H c0 r0 Hq.
  open_step H; split_guards.
  all: try (apply in_remove_req in Hq; destruct Hq as [Hq Hne]).
  all: try (apply in_app_iff in Hq; cbn [In] in Hq; destruct Hq as [Hq | [Hq | []]]; [| inversion Hq; subst ]).
  all: upd_cases; try (apply J6; assumption); auto; try congruence.
  all: try (pose proof (J6 _ _ Hq); congruence).
  pose proof (J6 _ _ Hq). pose proof (J7 c r eq_refl). congruence.
Qed.

Lemma step_S_hand : forall s l s', Safe s -> stepW s l = Some s' ->
  forall c r, hand s' = Some (c, r) -> rs s' c r = InHand.
Proof.
  intros s l s' [J1 J2 J2' J3 J4 J5 J6 J7] H c0 r0 Hq.
  open_step H; split_guards; try discriminate.
  all: try (inversion Hq; subst).
  all: upd_cases; try (apply J7; assumption); auto; try congruence.
  all: try (pose proof (J7 _ _ Hq); congruence).
Qed.

Lemma step_Safe : forall s l s', Safe s -> stepW s l = Some s' -> Safe s'.
Proof.
  intros s l s' HS H. constructor.
  - eapply step_S_known; eauto.
  - eapply step_S_map; eauto.
  - eapply step_S_nomap; eauto.
  - eapply step_S_busy; eauto.
  - eapply step_S_closed; eauto.
  - eapply step_S_lost; eauto.
  - eapply step_S_queue; eauto.
  - eapply step_S_hand; eauto.
Qed.

Lemma reachable_Safe : forall s, reachable s -> Safe s.
Proof.
  apply reachable_ind'. apply init_Safe. intros. eapply step_Safe; eauto.
Qed.

(* C12, clause 1: a closed connection has no request that was read and not answered, and no response was ever
   lost to a closed socket. *)
Theorem answered_before_close : forall s, reachable s ->
  forall c, cst s c = CClosed -> forall r, unanswered (rs s c r) = false /\ rs s c r <> Lost.
Proof.
  intros s Hr c Hc r. destruct (reachable_Safe s Hr) as [J1 J2 J2' J3 J4 J5 J6 J7]. split; [|apply J5].
  destruct (unanswered (rs s c r)) eqn:E; auto.
  apply J3 in E. rewrite (J4 c) in E by auto. contradiction.
Qed.

(* the closing steps themselves: the step is only taken with numInvoke = 0, and then nothing of c is outstanding *)
Theorem close_step_all_answered : forall s l s' c, reachable s -> stepW s l = Some s' ->
  cst s c <> CClosed -> cst s' c = CClosed ->
  (l = LPollClose c \/ l = LRecvClose c) /\ busy s c = [] /\ forall r, unanswered (rs s c r) = false /\ rs s' c r = rs s c r.
Proof.
  intros s l s' c Hr H Hn Hc. destruct (reachable_Safe s Hr) as [J1 J2 J2' J3 J4 J5 J6 J7].
  open_step H; split_guards; upd_cases; try contradiction; try discriminate.
  all: (split; [auto|]; split; [assumption|]; intros r0; split; [|reflexivity]).
  all: match goal with |- ?u = false => destruct u eqn:E; auto end; apply J3 in E;
       match goal with Hb : busy _ _ = [] |- _ => rewrite Hb in E end; contradiction.
Qed.



(* ---------------------------------------------------------------------------------------------------------- *)
(* Pipeline invariant: where a request that was read and is not answered sits. *)

Record Pipe (s : state) : Prop := {
  P_run : forall c r, In (c, r) (running s) -> rs s c r = Running;
  P_queued : forall c r, rs s c r = Queued -> In (c, r) (queue s);
  P_inhand : forall c r, rs s c r = InHand -> hand s = Some (c, r);
  P_pend : forall c r, rs s c r = Pending -> pend s c = Some r;
  P_w0 : W = 0 -> forall c r, rs s c r <> Pending /\ rs s c r <> Queued /\ rs s c r <> InHand;
  P_wn : W <> 0 -> forall c r, rs s c r <> Spawned;
  P_stop : stopped s = true -> early = false -> listen s <> 0 /\ forall c, In c (known s) -> inmap s c = false;
  P_running : forall c r, rs s c r = Running -> In (c, r) (running s)
}.

Lemma init_Pipe : Pipe init.
Proof.
  constructor; cbn; intros; try discriminate; try contradiction; auto.
  all: repeat split; discriminate.
Qed.

Lemma step_P_run : forall s l s', Safe s -> Pipe s -> stepW s l = Some s' ->
  forall c r, In (c, r) (running s') -> rs s' c r = Running.
Proof.
  intros s l s' [J1 J2 J2' J3 J4 J5 J6 J7] [K1 K2 K3 K4 K5 K6 K7 K8] H c0 r0 Hq.
  open_step H; split_guards.
  all: try (apply in_remove_req in Hq; destruct Hq as [Hq Hne]).
  all: try (cbn [In] in Hq; destruct Hq as [Hq | Hq]; [inversion Hq; subst|]).
  all: upd_cases; try (apply K1; assumption); auto; try congruence.
  all: try (pose proof (K1 _ _ Hq); congruence).
  apply existsb_req_in in H0. pose proof (J6 _ _ H0). pose proof (K1 _ _ Hq). congruence.
Qed.

Lemma step_P_queued : forall s l s', Safe s -> Pipe s -> stepW s l = Some s' ->
  forall c r, rs s' c r = Queued -> In (c, r) (queue s').
Proof.
  intros s l s' [J1 J2 J2' J3 J4 J5 J6 J7] [K1 K2 K3 K4 K5 K6 K7 K8] H c0 r0 Hq.
  open_step H; split_guards.
  all: upd_cases; try (apply K2; assumption); auto; try congruence.
  all: try (apply in_app_iff; cbn [In]; auto; fail).
  all: try (apply in_remove_req; split; [apply K2; assumption | congruence]).
  all: try (match goal with Hx : (if ?b then _ else _) = Queued |- _ => destruct b; discriminate end).
Qed.

Lemma step_P_inhand : forall s l s', Safe s -> Pipe s -> stepW s l = Some s' ->
  forall c r, rs s' c r = InHand -> hand s' = Some (c, r).
Proof.
  intros s l s' [J1 J2 J2' J3 J4 J5 J6 J7] [K1 K2 K3 K4 K5 K6 K7 K8] H c0 r0 Hq.
  open_step H; split_guards.
  all: upd_cases; try (apply K3; assumption); auto; try congruence.
  all: try (match goal with Hx : (if ?b then _ else _) = InHand |- _ => destruct b; discriminate end).
  all: try (pose proof (K3 _ _ Hq); congruence).
Qed.

Lemma step_P_pend : forall s l s', Safe s -> Pipe s -> stepW s l = Some s' ->
  forall c r, rs s' c r = Pending -> pend s' c = Some r.
Proof.
  intros s l s' [J1 J2 J2' J3 J4 J5 J6 J7] [K1 K2 K3 K4 K5 K6 K7 K8] H c0 r0 Hq.
  open_step H; split_guards.
  all: upd_cases; try (apply K4; assumption); auto; try congruence.
  all: try (match goal with Hx : (if ?b then _ else _) = Pending |- _ => destruct b; discriminate end).
  all: try (pose proof (K4 _ _ Hq); congruence).
Qed.

Lemma step_P_w0 : forall s l s', Safe s -> Pipe s -> stepW s l = Some s' ->
  W = 0 -> forall c r, rs s' c r <> Pending /\ rs s' c r <> Queued /\ rs s' c r <> InHand.
Proof.
  intros s l s' [J1 J2 J2' J3 J4 J5 J6 J7] [K1 K2 K3 K4 K5 K6 K7 K8] H HW c0 r0.
  open_step H; split_guards.
  all: upd_cases; try (apply K5; assumption); auto; try congruence.
  all: try (repeat split; discriminate).
  all: try (destruct (cstate_eqb (cst s c) CClosed); repeat split; discriminate).
  exfalso. destruct (K5 eq_refl c r) as [Hx _]. congruence.
Qed.

Lemma step_P_wn : forall s l s', Safe s -> Pipe s -> stepW s l = Some s' ->
  W <> 0 -> forall c r, rs s' c r <> Spawned.
Proof.
  intros s l s' [J1 J2 J2' J3 J4 J5 J6 J7] [K1 K2 K3 K4 K5 K6 K7 K8] H HW c0 r0.
  open_step H; split_guards.
  all: upd_cases; try (apply K6; assumption); auto; try congruence.
  all: try discriminate.
  all: try (destruct (cstate_eqb (cst s c) CClosed); discriminate).
Qed.

Lemma forallb_all_gone : forall s, all_gone s = true -> forall c, In c (known s) -> inmap s c = false.
Proof.
  unfold all_gone. intros s H c Hc. rewrite forallb_forall in H. apply H in Hc. apply negb_true_iff in Hc. exact Hc.
Qed.

Lemma step_P_stop : forall s l s', Safe s -> Pipe s -> stepW s l = Some s' ->
  stopped s' = true -> early = false -> listen s' <> 0 /\ forall c, In c (known s') -> inmap s' c = false.
Proof.
  intros s l s' [J1 J2 J2' J3 J4 J5 J6 J7] [K1 K2 K3 K4 K5 K6 K7 K8] H Hst He.
  open_step H; split_guards;
    try (destruct (K7 Hst eq_refl) as [K7a K7b]);
    try (split; [assumption|]; intros c0 Hc0; upd_cases; auto; fail);
    try contradiction;
    try (exfalso;
         match goal with Hc : cst s ?c = _ |- _ =>
           assert (Hk : In c (known s)) by (apply J1; congruence);
           destruct (J2 c (K7b c Hk)); congruence end).
  - split; [assumption|]. apply forallb_all_gone. cbn in H0. exact H0.
  - split; auto. destruct (listen s =? 1); auto.
Qed.

Lemma step_P_running : forall s l s', Safe s -> Pipe s -> stepW s l = Some s' ->
  forall c r, rs s' c r = Running -> In (c, r) (running s').
Proof.
  intros s l s' [J1 J2 J2' J3 J4 J5 J6 J7] [K1 K2 K3 K4 K5 K6 K7 K8] H c0 r0 Hq.
  open_step H; split_guards.
  all: upd_cases; try (apply K8; assumption); auto; try congruence.
  all: try (cbn [In]; auto; fail).
  all: try (match goal with Hx : (if ?b then _ else _) = Running |- _ => destruct b; discriminate end).
  all: try (apply in_remove_req; split; [apply K8; assumption | congruence]).
Qed.

Lemma step_Pipe : forall s l s', Safe s -> Pipe s -> stepW s l = Some s' -> Pipe s'.
Proof.
  intros s l s' HS HP H. constructor.
  - eapply step_P_run; eauto.
  - eapply step_P_queued; eauto.
  - eapply step_P_inhand; eauto.
  - eapply step_P_pend; eauto.
  - eapply step_P_w0; eauto.
  - eapply step_P_wn; eauto.
  - eapply step_P_stop; eauto.
  - eapply step_P_running; eauto.
Qed.

Lemma reachable_Pipe : forall s, reachable s -> Pipe s.
Proof.
  apply reachable_ind'. apply init_Pipe. intros. eapply step_Pipe; eauto. apply reachable_Safe; auto.
Qed.



(* C12, clause "every request already read is executed and answered" — no read request is ever stuck: as long as
   the process lives and some request is read-and-unanswered, a step of the request pipeline (enqueue, take, start,
   finish) is enabled, whatever the shutdown phase. (With the pool released early this is false: see below.) *)
Definition pipeline_label (l : label) : Prop :=
  match l with LEnqueue _ _ | LTake _ _ | LStart _ _ | LFinish _ _ => True | _ => False end.

Lemma unanswered_conn_live : forall s, Safe s -> forall c r, unanswered (rs s c r) = true ->
  (cst s c = COpen \/ cst s c = CExited) /\ In c (known s) /\ inmap s c = true.
Proof.
  intros s [J1 J2 J2' J3 J4 J5 J6 J7] c r Hu.
  apply J3 in Hu.
  assert (Hc : cst s c = COpen \/ cst s c = CExited).
  { destruct (cst s c) eqn:E; auto; rewrite (J4 c) in Hu by auto; contradiction. }
  split; auto. split.
  - apply J1. destruct Hc; congruence.
  - destruct (inmap s c) eqn:E; auto. destruct (J2 c E); destruct Hc; congruence.
Qed.

Theorem read_requests_progress : early = false -> (0 < cap)%N ->
  forall s, reachable s -> alive (ph s) = true ->
  forall c r, unanswered (rs s c r) = true ->
  exists l, pipeline_label l /\ stepW s l <> None.
Proof.
  intros He Hcap s Hr Halive c r Hu.
  pose proof (reachable_Safe s Hr) as HS. pose proof (reachable_Pipe s Hr) as HP.
  destruct (unanswered_conn_live s HS c r Hu) as [Hc [Hk Hm]].
  destruct HS as [J1 J2 J2' J3 J4 J5 J6 J7]. destruct HP as [K1 K2 K3 K4 K5 K6 K7 K8].
  assert (Hns : stopped s = false).
  { destruct (stopped s) eqn:E; auto. destruct (K7 eq_refl He) as [_ Hg]. rewrite (Hg c Hk) in Hm. discriminate. }
  destruct (running s) as [|[c1 r1] ru] eqn:Hrun.
  - destruct (Nat.eq_dec W 0) as [HW | HW].
    + (* one goroutine per request *)
      exists (LStart c r). split; [exact I|]. unfold step. rewrite Halive. cbn [negb].
      apply Nat.eqb_eq in HW. rewrite HW. apply Nat.eqb_eq in HW.
      destruct (K5 HW c r) as [N1 [N2 N3]].
      destruct (rs s c r) eqn:E; try discriminate; try congruence.
      apply K8 in E. contradiction.
    + destruct (hand s) as [[c2 r2]|] eqn:Hh.
      * exists (LStart c2 r2). split; [exact I|]. unfold step. rewrite Halive. cbn [negb].
        apply Nat.eqb_neq in HW. rewrite HW, Hh, req_eqb_refl, Hrun. cbn [length andb].
        apply Nat.eqb_neq in HW. assert (Hlt : (0 <? W) = true) by (apply Nat.ltb_lt; lia). rewrite Hlt. discriminate.
      * destruct (queue s) as [|[c3 r3] qs] eqn:Hq.
        -- destruct (rs s c r) eqn:E; try discriminate.
           ++ exists (LEnqueue c r). split; [exact I|]. unfold step. rewrite Halive. cbn [negb].
              rewrite (K4 c r E), E, Nat.eqb_refl, Hq. cbn [length andb N.of_nat].
              assert (Hlt : (0 <? cap)%N = true) by (apply N.ltb_lt; exact Hcap). rewrite Hlt. discriminate.
           ++ exfalso. exact (K6 HW c r E).
           ++ apply K2 in E. contradiction.
           ++ apply K3 in E. congruence.
           ++ apply K8 in E. contradiction.
        -- exists (LTake c3 r3). split; [exact I|]. unfold step. rewrite Halive. cbn [negb].
           apply Nat.eqb_neq in HW. rewrite Hh, HW, Hns, Hq. cbn [negb andb existsb]. rewrite req_eqb_refl. cbn. discriminate.
  - exists (LFinish c1 r1). split; [exact I|]. unfold step. rewrite Halive. cbn [negb].
    rewrite (K1 c1 r1) by (left; reflexivity). cbn. discriminate.
Qed.


(* each request moves forward only: no step lowers its rank, and a pipeline step raises the rank of a request that
   was read and not answered. A request therefore takes at most four pipeline steps, and with finitely many
   requests sent, [read_requests_progress] and weak fairness of the pipeline give: every request read is answered. *)
Definition rank (x : rstate) : nat :=
  match x with Fresh => 0 | InFlight => 1 | Pending => 2 | Queued => 3 | InHand => 4 | Spawned => 4
             | Running => 5 | Answered => 6 | Lost => 6 end.

Lemma step_rank_mono : forall s l s', reachable s -> stepW s l = Some s' ->
  forall c r, rank (rs s c r) <= rank (rs s' c r).
Proof.
  intros s l s' Hr H c0 r0. destruct (reachable_Safe s Hr) as [J1 J2 J2' J3 J4 J5 J6 J7].
  open_step H; split_guards; upd_cases; auto;
    try (match goal with Hx : rs _ ?c ?r = _ |- context[rs _ ?c ?r] => rewrite Hx; cbn; lia end).
  - rewrite (J6 c r) by (apply existsb_req_in; assumption). cbn. lia.
  - subst. rewrite (J7 c r) by reflexivity. cbn. lia.
  - rewrite Heqb. destruct (cstate_eqb (cst s c) CClosed); cbn; lia.
Qed.

Lemma pipeline_step_advances : forall s l s', reachable s -> stepW s l = Some s' -> pipeline_label l ->
  exists c r, unanswered (rs s c r) = true /\ rank (rs s c r) < rank (rs s' c r).
Proof.
  intros s l s' Hr H Hp. destruct (reachable_Safe s Hr) as [J1 J2 J2' J3 J4 J5 J6 J7].
  open_step H; split_guards; try contradiction; exists c, r; rewrite upd2_eq.
  all: try (match goal with Hx : rs _ ?c ?r = _ |- context[rs _ ?c ?r] => rewrite Hx; cbn; split; [reflexivity | lia] end).
  - rewrite (J6 c r) by (apply existsb_req_in; assumption). cbn. split; [reflexivity | lia].
  - subst. rewrite (J7 c r) by reflexivity. cbn. split; [reflexivity | lia].
  - rewrite Heqb. destruct (cstate_eqb (cst s c) CClosed); cbn; split; auto; lia.
Qed.

(* C12, clause "Shutdown returns once all connections have drained": the drained return happens only when every
   connection ever accepted is closed, and then nothing that was read is unanswered *)
Theorem drained_return_sound : forall s s', reachable s -> stepW s LPollReturn = Some s' ->
  ph s' = SRetDrained /\ (forall c, In c (known s') -> cst s' c = CClosed) /\
  (forall c r, unanswered (rs s' c r) = false).
Proof.
  intros s s' Hr H. pose proof (reachable_Safe s Hr) as HS. destruct HS as [J1 J2 J2' J3 J4 J5 J6 J7].
  remember LPollReturn as l eqn:Hl.
  open_step H; try discriminate Hl; split_guards.
  assert (Hall : forall c, In c (known s) -> cst s c = CClosed).
  { intros c Hc. unfold all_closed in H0. rewrite forallb_forall in H0. specialize (H0 c Hc).
    apply orb_true_iff in H0. destruct H0 as [H0 | H0].
    - apply negb_true_iff in H0. destruct (J2 c H0) as [Hx | Hx]; auto. apply J1 in Hc. contradiction.
    - apply cstate_eqb_eq in H0. exact H0. }
  split; [reflexivity|]. split; [exact Hall|].
  intros c r. destruct (unanswered (rs s c r)) eqn:E; auto.
  destruct (unanswered_conn_live s (reachable_Safe s Hr) c r E) as [Hc [Hk _]].
  rewrite (Hall c Hk) in Hc. destruct Hc; discriminate.
Qed.

(* ... and it is available as soon as they are: with every connection closed, the poller's next tick returns *)
Theorem drained_return_enabled : forall s, is_down (ph s) = true -> all_closed s = true ->
  exists s', runW s (if inpoll s then [LPollReturn] else [LPollBegin; LPollReturn]) = Some s' /\ ph s' = SRetDrained.
Proof.
  intros s Hd Ha. assert (Hal : alive (ph s) = true) by (destruct (ph s); cbn in *; congruence).
  destruct (inpoll s) eqn:Hi.
  - cbn [run]. unfold step. rewrite Hal, Hd, Hi, Ha. cbn. eexists. split; reflexivity.
  - cbn [run]. unfold step at 1. rewrite Hal, Hd, Hi. cbn [negb andb].
    unfold step. cbn [ph listen inpoll known cst inmap notified polled busy pend rs queue hand running stopped earlypoll].
    rewrite Hal, Hd. cbn [negb andb].
    unfold all_closed in *. cbn [ph listen inpoll known cst inmap notified polled busy pend rs queue hand running stopped earlypoll].
    rewrite Ha. eexists. split; reflexivity.
Qed.

(* the context ends Shutdown from any point of the drain *)
Theorem ctx_expiry_enabled : forall s, is_down (ph s) = true ->
  exists s', stepW s LCtxExpire = Some s' /\ ph s' = SRetCtx.
Proof.
  intros s Hd. assert (Hal : alive (ph s) = true) by (destruct (ph s); cbn in *; congruence).
  unfold step. rewrite Hal, Hd. cbn. eexists. split; reflexivity.
Qed.


(* ---------------------------------------------------------------------------------------------------------- *)
(* Close notification. *)

Record Notif (s : state) : Prop := {
  N_listen : listen s = 0 \/ listen s = 1 \/ listen s = 2;
  N_closed : earlypoll s = false -> returned (ph s) = false -> forall c, cst s c = CClosed -> notified s c = true;
  N_two : listen s = 2 -> forall c, inmap s c = true -> cst s c <> CClosed -> notified s c = true;
  N_inpoll : inpoll s = true -> earlypoll s = false -> listen s = 2;
  N_polled : forall c, polled s c = true -> earlypoll s = false -> listen s = 2
}.

Lemma init_Notif : Notif init.
Proof. constructor; cbn; intros; try discriminate; auto. Qed.

Lemma step_N_listen : forall s l s', Notif s -> stepW s l = Some s' -> listen s' = 0 \/ listen s' = 1 \/ listen s' = 2.
Proof.
  intros s l s' [M0 M1 M2 M3 M4] H.
  open_step H; split_guards; auto.
  destruct (listen s =? 1); auto.
Qed.

Lemma step_N_two : forall s l s', Safe s -> Notif s -> stepW s l = Some s' ->
  listen s' = 2 -> forall c, inmap s' c = true -> cst s' c <> CClosed -> notified s' c = true.
Proof.
  intros s l s' [J1 J2 J2' J3 J4 J5 J6 J7] [M0 M1 M2 M3 M4] H Hl c0 Hm Hc.
  open_step H; split_guards; upd_cases; try (apply M2; assumption); try congruence; try discriminate.
  - destruct (listen s =? 1) eqn:E.
    + rewrite Hm. destruct (cstate_eqb (cst s c0) CClosed) eqn:E2.
      * apply cstate_eqb_eq in E2. contradiction.
      * cbn. apply orb_true_r.
    + apply M2; auto.
  - apply M2; auto; try congruence. destruct (inmap s c) eqn:E; auto. destruct (J2 c E); congruence.
Qed.

Lemma step_N_inpoll : forall s l s', Notif s -> stepW s l = Some s' ->
  inpoll s' = true -> earlypoll s' = false -> listen s' = 2.
Proof.
  intros s l s' [M0 M1 M2 M3 M4] H Hi He.
  open_step H; split_guards; try (apply M3; assumption); try discriminate.
  - specialize (M3 Hi He). congruence.
  - apply orb_false_iff in He. destruct He as [He1 He2]. apply Nat.eqb_neq in He2.
    destruct (listen s =? 1) eqn:E; auto. apply Nat.eqb_neq in E. destruct M0 as [M0 | [M0 | M0]]; congruence.
Qed.

Lemma step_N_polled : forall s l s', Notif s -> stepW s l = Some s' ->
  forall c, polled s' c = true -> earlypoll s' = false -> listen s' = 2.
Proof.
  intros s l s' [M0 M1 M2 M3 M4] H c0 Hi He.
  open_step H; split_guards; upd_cases; try (eapply M4; eassumption); try discriminate.
  - specialize (M4 _ Hi He). congruence.
  - apply orb_false_iff in He. destruct He as [He1 He2]. apply Nat.eqb_neq in He2.
    destruct (listen s =? 1) eqn:E; auto. apply Nat.eqb_neq in E. destruct M0 as [M0 | [M0 | M0]]; congruence.
Qed.

Lemma step_N_closed : forall s l s', Safe s -> Notif s -> stepW s l = Some s' ->
  earlypoll s' = false -> returned (ph s') = false -> forall c, cst s' c = CClosed -> notified s' c = true.
Proof.
  intros s l s' [J1 J2 J2' J3 J4 J5 J6 J7] [M0 M1 M2 M3 M4] H He Hp c0 Hc.
  open_step H; split_guards; try discriminate Hp; upd_cases;
    try (apply M1; solve [assumption | match goal with Hx : ph s = _ |- _ => rewrite Hx; reflexivity end]);
    try congruence; try discriminate.
  - apply orb_false_iff in He. destruct He as [He1 He2].
    destruct (listen s =? 1); [rewrite (M1 He1 Hp c0 Hc); reflexivity | apply M1; assumption].
  - apply M2; auto; congruence.
  - apply M2; auto; congruence.
  - rewrite Hp, orb_false_r in *. apply M2; try congruence.
    + eapply M4; eauto.
    + destruct (inmap s c) eqn:E; auto. destruct (J2 c E); congruence.
Qed.

Lemma step_Notif : forall s l s', Safe s -> Notif s -> stepW s l = Some s' -> Notif s'.
Proof.
  intros s l s' HS HN H. constructor.
  - eapply step_N_listen; eauto.
  - eapply step_N_closed; eauto.
  - eapply step_N_two; eauto.
  - eapply step_N_inpoll; eauto.
  - eapply step_N_polled; eauto.
Qed.

Lemma reachable_Notif : forall s, reachable s -> Notif s.
Proof.
  apply reachable_ind'. apply init_Notif. intros. eapply step_Notif; eauto. apply reachable_Safe; auto.
Qed.

(* C12, clause "connected clients are sent the reconnect notification": provided no poller tick began while the
   listener was still up, every connection closed by the server until Shutdown returns was closed only after the
   close message had been written to it *)
Theorem closed_after_notification : forall s, reachable s -> earlypoll s = false -> returned (ph s) = false ->
  forall c, cst s c = CClosed -> notified s c = true.
Proof. intros s Hr. apply (N_closed s (reachable_Notif s Hr)). Qed.

(* at the closing step itself the message had already been written *)
Theorem close_step_notified : forall s l s' c, reachable s -> stepW s l = Some s' ->
  cst s c <> CClosed -> cst s' c = CClosed -> earlypoll s' = false -> returned (ph s') = false -> notified s c = true.
Proof.
  intros s l s' c Hr H Hn Hc He Hp.
  assert (Hs' : notified s' c = true).
  { apply closed_after_notification; auto. eapply reachable_step; eauto. }
  open_step H; split_guards; upd_cases; try contradiction; try discriminate; auto.
Qed.

(* once the listener is down and a tick has passed (isListenClosed = 2), every connection still in the table has
   the message *)
Theorem all_open_notified : forall s, reachable s -> listen s = 2 ->
  forall c, inmap s c = true -> cst s c <> CClosed -> notified s c = true.
Proof. intros s Hr. apply (N_two s (reachable_Notif s Hr)). Qed.

(* the notifying tick treats every connection of the table on its own: whether connection c gets the message depends
   on c alone (in the table, not yet closed) — not on the other connections, their number, their order in the table or
   the outcome of the writes to them (sendCloseMsg's Range goes on after a failed write) *)
Theorem notifying_tick_per_connection : forall s s', stepW s LPollBegin = Some s' -> listen s = 1 ->
  listen s' = 2 /\
  forall c, notified s' c = notified s c || (inmap s c && negb (cstate_eqb (cst s c) CClosed)).
Proof.
  intros s s' H Hl. remember LPollBegin as l eqn:El.
  open_step H; try discriminate El. rewrite Hl. cbn. split; reflexivity.
Qed.

(* when Shutdown returns drained, every connection ever accepted has been sent the message *)
Theorem drained_return_notified : forall s s', reachable s -> stepW s LPollReturn = Some s' ->
  earlypoll s' = false -> forall c, In c (known s') -> notified s' c = true.
Proof.
  intros s s' Hr H He c Hk.
  destruct (drained_return_sound s s' Hr H) as [_ [Hall _]].
  pose proof (Hall c Hk) as Hc.
  pose proof (reachable_Notif s Hr) as HN.
  remember LPollReturn as l eqn:Hl.
  open_step H; try discriminate Hl; split_guards.
  apply (N_closed s HN He); auto. destruct (ph s); cbn in *; congruence.
Qed.


End Proofs.

(* ---------------------------------------------------------------------------------------------------------- *)
(* The code before fix 0e6f835 (early = true: the pool is released when the accept loop ends) violates the
   progress clause: a request that was read and queued is never executed, its connection is never closed and
   Shutdown can only end through its context. *)

Lemma stuck_step : forall W cap early s l s' c r, reachable W cap early s ->
  stopped s = true -> rs s c r = Queued -> step W cap early s l = Some s' ->
  stopped s' = true /\ rs s' c r = Queued.
Proof.
  intros W cap early s l s' c0 r0 Hr Hst Hq H. destruct (reachable_Safe W cap early s Hr) as [J1 J2 J2' J3 J4 J5 J6 J7].
  open_step H; split_guards; upd_cases; auto; try congruence.
  subst. pose proof (J7 c r eq_refl). congruence.
Qed.

Lemma ph_drained_step : forall W cap early s l s', step W cap early s l = Some s' -> ph s' = SRetDrained ->
  ph s = SRetDrained \/ l = LPollReturn.
Proof.
  intros W cap early s l s' H Hp.
  open_step H; auto; try discriminate.
Qed.

Lemma stuck_forever : forall W cap early ls s s' c r, reachable W cap early s ->
  stopped s = true -> rs s c r = Queued -> ph s <> SRetDrained -> run W cap early s ls = Some s' ->
  reachable W cap early s' /\ rs s' c r = Queued /\ ph s' <> SRetDrained.
Proof.
  induction ls as [|l ls IH]; intros s s' c r Hr Hst Hq Hp H; cbn in H.
  - inversion H. subst. auto.
  - destruct (step W cap early s l) as [s1|] eqn:E; [|discriminate].
    destruct (stuck_step W cap early s l s1 c r Hr Hst Hq E) as [Hst1 Hq1].
    eapply (IH s1); eauto.
    + eapply reachable_step; eauto.
    + intros Hp1. destruct (ph_drained_step _ _ _ _ _ _ E Hp1) as [Hx | Hx]; [contradiction|]. subst l.
      destruct (drained_return_sound W cap early s s1 Hr E) as [_ [_ Hu]].
      specialize (Hu c r). rewrite Hq1 in Hu. discriminate.
Qed.

Definition release_before_drain : list label :=
  [LConnect 0; LSend 0 0; LSend 0 1; LRead 0 0; LEnqueue 0 0; LRead 0 1; LEnqueue 0 1; LTake 0 0; LStart 0 0;
   LShutdown; LAcceptExit; LPoolStop; LFinish 0 0].

Theorem progress_refuted_with_early_release :
  exists s, run 1 10 true init release_before_drain = Some s /\
    unanswered (rs s 0 1) = true /\
    forall ls s', run 1 10 true s ls = Some s' ->
      rs s' 0 1 = Queued /\                      (* never executed *)
      cst s' 0 <> CClosed /\                     (* its connection is never closed by the server *)
      ph s' <> SRetDrained.                      (* Shutdown never returns drained: only its context ends it *)
Proof.
  destruct (run 1 10 true init release_before_drain) as [s|] eqn:E; [|vm_compute in E; discriminate].
  exists s. split; [reflexivity|].
  assert (Hr : reachable 1 10 true s) by (exists release_before_drain; exact E).
  assert (Hst : stopped s = true) by (vm_compute in E; inversion E; reflexivity).
  assert (Hq : rs s 0 1 = Queued) by (vm_compute in E; inversion E; reflexivity).
  assert (Hph : ph s = SDown) by (vm_compute in E; inversion E; reflexivity).
  split; [rewrite Hq; reflexivity|].
  intros ls s' H.
  destruct (stuck_forever 1 10 true ls s s' 0 1 Hr Hst Hq) as [Hr' [Hq' Hp']]; auto; [congruence|].
  split; auto. split; auto.
  intros Hc. destruct (answered_before_close 1 10 true s' Hr' 0 Hc 1) as [Hu _].
  rewrite Hq' in Hu. discriminate.
Qed.

(* the same trace is not a trace of the repaired code: LPoolStop is refused while a connection is in the table *)
Example release_before_drain_not_repaired : run 1 10 false init release_before_drain = None.
Proof. vm_compute. reflexivity. Qed.

(* The notification clause needs its hypothesis: a tick that begins while the listener is still up closes an idle
   connection without the message (CloseIdles with isListenClosed = 0 skips sendCloseMsg and still closes). In the
   code this needs the accept loop to miss the SetDeadline(now) wake-up for 500 ms (it re-arms its own accept
   deadline between its isClosed test and Accept) — a window of microseconds that was not exhibited on the code. *)
Theorem notification_needs_listener_down :
  exists s, run 0 10 false init [LConnect 0; LShutdown; LPollBegin; LPollClose 0] = Some s /\
            cst s 0 = CClosed /\ notified s 0 = false /\ earlypoll s = true /\ returned (ph s) = false.
Proof. eexists. split; [vm_compute; reflexivity|]. cbn. auto. Qed.

(* non-trivial instances of the hypotheses used above *)
Example notification_hypotheses_instance :
  exists s, run 1 10 false init [LConnect 0; LConnect 1; LShutdown; LAcceptExit; LPollBegin; LPollClose 0;
                                 LRecvExit 1; LPollEnd; LPollBegin; LRecvClose 1] = Some s /\
            earlypoll s = false /\ returned (ph s) = false /\ cst s 0 = CClosed /\ cst s 1 = CClosed /\
            notified s 0 = true /\ notified s 1 = true.
Proof. eexists. split; [vm_compute; reflexivity|]. cbn. repeat split; reflexivity. Qed.

Example drained_return_instance :
  exists s s', run 1 10 false init [LConnect 0; LSend 0 0; LRead 0 0; LEnqueue 0 0; LShutdown; LAcceptExit; LTake 0 0;
                                    LStart 0 0; LPollBegin; LPollEnd; LFinish 0 0; LPollBegin; LPollClose 0] = Some s /\
               step 1 10 false s LPollReturn = Some s' /\ ph s' = SRetDrained /\ rs s' 0 0 = Answered.
Proof. eexists. eexists. split; [vm_compute; reflexivity|]. split; [vm_compute; reflexivity|]. cbn. split; reflexivity. Qed.

Example progress_hypotheses_instance :
  exists s, run 2 10 false init [LConnect 0; LSend 0 0; LRead 0 0; LEnqueue 0 0; LShutdown; LAcceptExit; LPollBegin] = Some s /\
            alive (ph s) = true /\ unanswered (rs s 0 0) = true /\ earlypoll s = false /\ (0 < 10)%N.
Proof. eexists. split; [vm_compute; reflexivity|]. cbn. repeat split; reflexivity. Qed.

(* ---------------------------------------------------------------------------------------------------------- *)
(* Trace validation is sound: a trace accepted by [accepts] is explained by a run of the transition system of the
   repaired code that ends with the process exit — so every theorem above holds of the explanation of every
   recorded shutdown. *)
Section AcceptsSound.
Variable W : nat.
Variable cap : N.
Notation stepR := (step W cap false).
Notation runR := (run W cap false).

Definition reach (s s' : state) : Prop := exists ls, runR s ls = Some s'.

Lemma reach_refl : forall s, reach s s.
Proof. intros. exists []. reflexivity. Qed.

Lemma reach_trans : forall a b c, reach a b -> reach b c -> reach a c.
Proof. intros a b c [l1 H1] [l2 H2]. exists (l1 ++ l2). rewrite run_app, H1. exact H2. Qed.

Lemma reach_step : forall s l s', stepR s l = Some s' -> reach s s'.
Proof. intros. exists [l]. cbn. rewrite H. reflexivity. Qed.

Lemma reach_try : forall s l, reach s (try W cap s l).
Proof. intros. unfold try. destruct (stepR s l) eqn:E; [eapply reach_step; eauto | apply reach_refl]. Qed.

Lemma reach_fold : forall A (f : state -> A -> state), (forall st x, reach st (f st x)) ->
  forall l s, reach s (fold_left f l s).
Proof.
  intros A f Hf. induction l; intros; cbn; [apply reach_refl|].
  eapply reach_trans; [apply Hf | apply IHl].
Qed.

Lemma reach_fold_opt : forall A (f : option state -> A -> option state),
  (forall st x s', f (Some st) x = Some s' -> reach st s') -> (forall x, f None x = None) ->
  forall l s s', fold_left f l (Some s) = Some s' -> reach s s'.
Proof.
  intros A f Hf Hn. induction l; intros s s' H; cbn in H.
  - inversion H. apply reach_refl.
  - destruct (f (Some s) a) as [s1|] eqn:E.
    + eapply reach_trans; [eapply Hf; eauto | apply IHl; auto].
    + exfalso. clear -H Hn. induction l; cbn in H; [discriminate|]. rewrite Hn in H. auto.
Qed.

Lemma reach_pump : forall s, reach s (pump W cap s).
Proof.
  intros. unfold pump. apply reach_fold. intros st c. destruct (pend st c); [apply reach_try | apply reach_refl].
Qed.

Lemma reach_settle : forall s e, reach s (settle W cap s e).
Proof.
  intros. unfold settle. apply reach_fold. intros st q.
  destruct (rstate_eqb (rs st (fst q) (snd q)) Running); [apply reach_try | apply reach_refl].
Qed.

Lemma reach_ensure_read : forall s c r s', ensure_read W cap (Some s) c r = Some s' -> reach s s'.
Proof.
  intros s c r s' H. unfold ensure_read in H.
  destruct (unanswered (rs s c r) || rstate_eqb (rs s c r) Answered).
  - inversion H. apply reach_refl.
  - destruct (stepR (pump W cap s) (LRead c r)) eqn:E; [|discriminate]. inversion H. subst.
    eapply reach_trans; [apply reach_pump|]. eapply reach_trans; [eapply reach_step; eauto | apply reach_pump].
Qed.

Lemma reach_ensure_started : forall s e c r s', ensure_started W cap s e c r = Some s' -> reach s s'.
Proof.
  intros s e c r s' H. unfold ensure_started in H.
  destruct (ensure_read W cap (Some s) c r) as [s1|] eqn:E1; [|discriminate].
  apply reach_ensure_read in E1. eapply reach_trans; [exact E1|].
  destruct (rstate_eqb (rs s1 c r) Running || rstate_eqb (rs s1 c r) Answered).
  - inversion H. apply reach_refl.
  - destruct (W =? 0).
    + eapply reach_step; eauto.
    + set (s2 := if length (running s1) <? W then s1 else settle W cap s1 e) in *.
      assert (R2 : reach s1 s2) by (unfold s2; destruct (length (running s1) <? W); [apply reach_refl | apply reach_settle]).
      destruct (stepR s2 (LTake c r)) as [s3|] eqn:E3; [|discriminate].
      destruct (stepR s3 (LStart c r)) as [s4|] eqn:E4; [|discriminate]. inversion H. subst.
      eapply reach_trans; [exact R2|]. eapply reach_trans; [eapply reach_step; eauto|].
      eapply reach_trans; [eapply reach_step; eauto | apply reach_pump].
Qed.

Lemma reach_ensure_down : forall s, reach s (ensure_down W cap s).
Proof. intros. unfold ensure_down. eapply reach_trans; apply reach_try. Qed.

Lemma reach_poll_tick : forall s, reach s (poll_tick W cap s).
Proof.
  intros. unfold poll_tick. eapply reach_trans; [apply reach_ensure_down|]. eapply reach_trans; apply reach_try.
Qed.

Lemma reach_ensure_closed : forall s e c s', ensure_closed W cap s e c = Some s' -> reach s s'.
Proof.
  intros s e c s' H. unfold ensure_closed in H.
  assert (G : forall s', (let s0 := settle W cap (pump W cap s) e in
      let s1 := match cst s0 c with COpen => try W cap (try W cap s0 LShutdown) (LRecvExit c) | _ => s0 end in
      let s2 := if polled s1 c then s1 else poll_tick W cap s1 in stepR s2 (LRecvClose c)) = Some s' -> reach s s').
  { clear. intros s' H. cbv zeta in H.
    eapply reach_trans; [apply reach_pump|]. eapply reach_trans; [apply reach_settle|].
    set (s0 := settle W cap (pump W cap s) e) in *.
    set (s1 := match cst s0 c with COpen => try W cap (try W cap s0 LShutdown) (LRecvExit c) | _ => s0 end) in *.
    assert (R1 : reach s0 s1).
    { unfold s1. destruct (cst s0 c); try apply reach_refl. eapply reach_trans; apply reach_try. }
    eapply reach_trans; [exact R1|].
    set (s2 := if polled s1 c then s1 else poll_tick W cap s1) in *.
    assert (R2 : reach s1 s2) by (unfold s2; destruct (polled s1 c); [apply reach_refl | apply reach_poll_tick]).
    eapply reach_trans; [exact R2|]. eapply reach_step; eauto. }
  destruct (cst s c); try discriminate; auto.
  inversion H. apply reach_refl.
Qed.

Lemma reach_obs_step : forall s e o s' e', obs_step W cap (s, e) o = Some (s', e') -> reach s s'.
Proof.
  intros s e o s' e' H. unfold obs_step in H.
  destruct o.
  - destruct (stepR s (LConnect c)) eqn:E; inversion H; subst. eapply reach_step; eauto.
  - destruct (stepR s (LSend c r)) eqn:E; inversion H; subst. eapply reach_step; eauto.
  - destruct (fold_left (fun st r => ensure_read W cap st c r) (seq 0 n) (Some s)) eqn:E; inversion H; subst.
    eapply reach_fold_opt; [| |exact E].
    + intros st x s2 Hx. cbn beta in Hx. eapply reach_ensure_read. exact Hx.
    + reflexivity.
  - destruct (ensure_started W cap s e c r) eqn:E; inversion H; subst. eapply reach_ensure_started; eauto.
  - destruct (ensure_started W cap s e c r) eqn:E; [|discriminate].
    destruct (rstate_eqb (rs s0 c r) Running); inversion H; subst. eapply reach_ensure_started; eauto.
  - destruct (existsb (req_eqb (c, r)) e); [|discriminate].
    destruct (rs s c r); try discriminate.
    + destruct (stepR s (LFinish c r)) eqn:E; [|discriminate].
      destruct (rstate_eqb (rs s0 c r) Answered); inversion H; subst.
      eapply reach_trans; [eapply reach_step; eauto | apply reach_pump].
    + inversion H. apply reach_refl.
  - unfold ensure_notified in H. destruct (notified s c).
    + inversion H. apply reach_refl.
    + destruct (notified (poll_tick W cap s) c); inversion H; subst. apply reach_poll_tick.
  - destruct (ensure_closed W cap s e c) eqn:E; inversion H; subst. eapply reach_ensure_closed; eauto.
  - destruct (stepR s LShutdown) eqn:E; inversion H; subst. eapply reach_step; eauto.
  - destruct (listen (ensure_down W cap s) =? 0); inversion H; subst. apply reach_ensure_down.
  - unfold ensure_returned in H. destruct drained.
    + destruct (fold_left _ (known s) (Some s)) as [s1|] eqn:E; [|discriminate].
      destruct (stepR (poll_tick W cap s1) LPollReturn) eqn:E2; inversion H; subst.
      eapply reach_trans.
      * eapply reach_fold_opt; [| |exact E].
        -- intros st x s2 Hx. cbn in Hx. destruct (inmap st x); [eapply reach_ensure_closed; eauto | inversion Hx; apply reach_refl].
        -- reflexivity.
      * eapply reach_trans; [apply reach_poll_tick | eapply reach_step; eauto].
    + destruct (stepR (poll_tick W cap (try W cap s LShutdown)) LCtxExpire) eqn:E; inversion H; subst.
      eapply reach_trans; [apply reach_try|]. eapply reach_trans; [apply reach_poll_tick | eapply reach_step; eauto].
  - destruct (stepR s LExit) eqn:E; inversion H; subst. eapply reach_step; eauto.
Qed.

Lemma reach_obs_run : forall tr s e s' e', obs_run W cap (s, e) tr = Some (s', e') -> reach s s'.
Proof.
  induction tr; intros s e s' e' H; cbn [obs_run] in H.
  - inversion H. apply reach_refl.
  - destruct (obs_step W cap (s, e) a) as [[s1 e1]|] eqn:E; [|discriminate].
    eapply reach_trans; [eapply reach_obs_step; eauto | eapply IHtr; eauto].
Qed.

Theorem accepts_sound : forall tr, accepts W cap tr = true ->
  exists ls s, runR init ls = Some s /\ ph s = SExited.
Proof.
  intros tr H. unfold accepts in H.
  destruct (obs_run W cap (init, []) tr) as [[s e]|] eqn:E; [|discriminate].
  destruct (reach_obs_run _ _ _ _ _ E) as [ls Hls].
  exists ls, s. split; auto. destruct (ph s); try discriminate. reflexivity.
Qed.

End AcceptsSound.

(* ---------------------------------------------------------------------------------------------------------- *)
(* The pipeline work of a whole run is bounded by the requests that were sent: every pipeline step raises the rank
   of one request and no step lowers any, so a run contains at most 6 pipeline steps per request. Together with
   [read_requests_progress] (a pipeline step is enabled whenever something read is unanswered) this is termination
   of the drain: a run cannot keep a read request unanswered for ever without withholding an enabled pipeline step. *)
Definition is_pipeline (l : label) : bool :=
  match l with LEnqueue _ _ | LTake _ _ | LStart _ _ | LFinish _ _ => true | _ => false end.

Lemma is_pipeline_label : forall l, is_pipeline l = true <-> pipeline_label l.
Proof. destruct l; cbn; split; intros; auto; try discriminate; try contradiction. Qed.

Definition count_pipeline (ls : list label) : nat := length (filter is_pipeline ls).

Fixpoint rank_sum (s : state) (L : list req) : nat :=
  match L with
  | [] => 0
  | q :: L' => rank (rs s (fst q) (snd q)) + rank_sum s L'
  end.

Lemma rank_sum_mono : forall s s' L, (forall c r, rank (rs s c r) <= rank (rs s' c r)) -> rank_sum s L <= rank_sum s' L.
Proof. induction L; intros; cbn; auto. specialize (H (fst a) (snd a)) as Ha. specialize (IHL H). lia. Qed.

Lemma rank_sum_strict : forall s s' L c r, (forall c r, rank (rs s c r) <= rank (rs s' c r)) ->
  In (c, r) L -> rank (rs s c r) < rank (rs s' c r) -> rank_sum s L < rank_sum s' L.
Proof.
  induction L; intros c r Hm Hin Hlt; cbn; [contradiction|].
  destruct Hin as [Ha | Hin].
  - subst a. cbn [fst snd]. pose proof (rank_sum_mono s s' L Hm). lia.
  - specialize (IHL c r Hm Hin Hlt). specialize (Hm (fst a) (snd a)). lia.
Qed.

Lemma rank_sum_bound : forall s L, rank_sum s L <= 6 * length L.
Proof. induction L; cbn; auto. assert (rank (rs s (fst a) (snd a)) <= 6) by (destruct (rs s (fst a) (snd a)); cbn; lia). lia. Qed.

Lemma count_pipeline_app : forall l1 l2, count_pipeline (l1 ++ l2) = count_pipeline l1 + count_pipeline l2.
Proof. intros. unfold count_pipeline. rewrite filter_app, app_length. reflexivity. Qed.

Theorem pipeline_work_bounded : forall W cap early ls s (L : list req),
  run W cap early init ls = Some s ->
  (forall c r, rs s c r <> Fresh -> In (c, r) L) ->
  count_pipeline ls <= rank_sum s L /\ rank_sum s L <= 6 * length L.
Proof.
  intros W cap early ls s L Hrun Hcov. split; [|apply rank_sum_bound].
  revert s Hrun Hcov. induction ls as [|l ls IH] using rev_ind; intros s Hrun Hcov.
  - cbn. lia.
  - rewrite run_app in Hrun. destruct (run W cap early init ls) as [s1|] eqn:E1; [|discriminate].
    cbn in Hrun. destruct (step W cap early s1 l) as [s2|] eqn:E2; [|discriminate]. inversion Hrun. subst s2.
    assert (Hr1 : reachable W cap early s1) by (exists ls; exact E1).
    pose proof (step_rank_mono W cap early s1 l s Hr1 E2) as Hm.
    assert (Hcov1 : forall c r, rs s1 c r <> Fresh -> In (c, r) L).
    { intros c r Hn. apply Hcov. intros Hf. specialize (Hm c r). rewrite Hf in Hm. cbn in Hm.
      destruct (rs s1 c r); cbn in Hm; try lia. contradiction. }
    specialize (IH s1 eq_refl Hcov1).
    rewrite count_pipeline_app. unfold count_pipeline at 2. cbn [filter].
    destruct (is_pipeline l) eqn:Hp; cbn [length].
    + apply is_pipeline_label in Hp.
      destruct (pipeline_step_advances W cap early s1 l s Hr1 E2 Hp) as [c [r [Hu Hlt]]].
      assert (Hin : In (c, r) L). { apply Hcov1. intros Hf. rewrite Hf in Hu. discriminate. }
      pose proof (rank_sum_strict s1 s L c r Hm Hin Hlt). lia.
    + pose proof (rank_sum_mono s1 s L Hm). lia.
Qed.

(* The drain can always complete (repaired code): from every reachable live state some sequence of pipeline steps
   alone leads to a state in which nothing that was read is unanswered — in every shutdown phase, for every pool
   size. *)
Definition sends (ls : list label) : list req :=
  flat_map (fun l => match l with LSend c r => [(c, r)] | _ => [] end) ls.

Lemma sends_app : forall a b, sends (a ++ b) = sends a ++ sends b.
Proof. intros. unfold sends. apply flat_map_app. Qed.

Lemma sends_cover : forall W cap early ls s, run W cap early init ls = Some s ->
  forall c r, rs s c r <> Fresh -> In (c, r) (sends ls).
Proof.
  intros W cap early ls. induction ls as [|l ls IH] using rev_ind; intros s Hrun c0 r0 Hn.
  - cbn in Hrun. inversion Hrun. subst. cbn in Hn. contradiction.
  - rewrite run_app in Hrun. destruct (run W cap early init ls) as [s1|] eqn:E1; [|discriminate].
    cbn in Hrun. destruct (step W cap early s1 l) as [s2|] eqn:E2; [|discriminate]. inversion Hrun. subst s2.
    rewrite sends_app. apply in_app_iff.
    destruct (rstate_eqb (rs s1 c0 r0) Fresh) eqn:Ef.
    + right. apply rstate_eqb_eq in Ef.
      assert (Hr1 : reachable W cap early s1) by (exists ls; exact E1).
      destruct (reachable_Safe W cap early s1 Hr1) as [J1 J2 J2' J3 J4 J5 J6 J7].
      open_step E2; split_guards; upd_cases; try contradiction; try congruence; cbn; auto.
      * pose proof (J6 c r) as Hq. rewrite Ef in Hq. apply existsb_req_in in H0. specialize (Hq H0). discriminate.
      * subst. pose proof (J7 c r eq_refl). congruence.
    + left. apply (IH s1 eq_refl). intros Hf. rewrite Hf in Ef. discriminate.
Qed.

Lemma pipeline_step_ph : forall W cap early s l s', step W cap early s l = Some s' -> pipeline_label l -> ph s' = ph s.
Proof. intros W cap early s l s' H Hp. open_step H; try contradiction; reflexivity. Qed.

Lemma all_answered_dec : forall s L, (forall c r, rs s c r <> Fresh -> In (c, r) L) ->
  (forall c r, unanswered (rs s c r) = false) \/ (exists c r, In (c, r) L /\ unanswered (rs s c r) = true).
Proof.
  intros s L Hcov.
  destruct (existsb (fun q => unanswered (rs s (fst q) (snd q))) L) eqn:E.
  - right. apply existsb_exists in E. destruct E as [[c r] [Hin Hu]]. exists c, r. auto.
  - left. intros c r. destruct (unanswered (rs s c r)) eqn:Eu; auto.
    assert (Hin : In (c, r) L). { apply Hcov. intros Hf. rewrite Hf in Eu. discriminate. }
    assert (Ht : existsb (fun q => unanswered (rs s (fst q) (snd q))) L = true).
    { apply existsb_exists. exists (c, r). auto. }
    congruence.
Qed.

Theorem can_always_drain : forall W cap, (0 < cap)%N -> forall ls s, run W cap false init ls = Some s ->
  alive (ph s) = true ->
  exists ls' s', Forall pipeline_label ls' /\ run W cap false s ls' = Some s' /\
                 ph s' = ph s /\ forall c r, unanswered (rs s' c r) = false.
Proof.
  intros W cap Hcap ls s Hrun Halive.
  remember (6 * length (sends ls) - rank_sum s (sends ls)) as n eqn:Hn.
  assert (Hle : 6 * length (sends ls) - rank_sum s (sends ls) <= n) by lia. clear Hn.
  revert ls s Hrun Halive Hle. induction n as [|n IH]; intros ls s Hrun Halive Hle.
  all: pose proof (sends_cover W cap false ls s Hrun) as Hcov.
  all: destruct (all_answered_dec s (sends ls) Hcov) as [Hall | [c [r [Hin Hu]]]];
       [exists [], s; repeat split; auto; constructor|].
  all: assert (Hr : reachable W cap false s) by (exists ls; exact Hrun).
  all: destruct (read_requests_progress W cap false eq_refl Hcap s Hr Halive c r Hu) as [l [Hp Hen]].
  all: destruct (step W cap false s l) as [s1|] eqn:E1; [|contradiction].
  all: destruct (pipeline_step_advances W cap false s l s1 Hr E1 Hp) as [c1 [r1 [Hu1 Hlt1]]].
  all: assert (Hin1 : In (c1, r1) (sends ls)) by (apply Hcov; intros Hf; rewrite Hf in Hu1; discriminate).
  all: pose proof (rank_sum_strict s s1 (sends ls) c1 r1 (step_rank_mono W cap false s l s1 Hr E1) Hin1 Hlt1) as Hstrict.
  all: pose proof (rank_sum_bound s1 (sends ls)) as Hb.
  - lia.
  - assert (Hrun1 : run W cap false init (ls ++ [l]) = Some s1) by (rewrite run_app, Hrun; cbn; rewrite E1; reflexivity).
    assert (Hs : sends (ls ++ [l]) = sends ls).
    { rewrite sends_app. destruct l; cbn in Hp; try contradiction; cbn; apply app_nil_r. }
    pose proof (pipeline_step_ph _ _ _ _ _ _ E1 Hp) as Hph.
    destruct (IH (ls ++ [l]) s1 Hrun1) as [ls' [s' [Hf [Hr' [Hph' Hall']]]]].
    + rewrite Hph. exact Halive.
    + rewrite Hs. lia.
    + exists (l :: ls'), s'. split; [constructor; auto|]. split; [cbn; rewrite E1; exact Hr'|].
      split; [congruence | exact Hall'].
Qed.

(* Shutdown can always return drained (repaired code): from every reachable state in which Shutdown is in progress,
   some continuation — the pipeline finishing what was read, then one poller tick closing every connection — reaches
   the drained return. (With the pool released early this is false: progress_refuted_with_early_release.) *)
Lemma busy_unanswered : forall W cap early s, reachable W cap early s ->
  forall c r, In r (busy s c) -> unanswered (rs s c r) = true.
Proof.
  intros W cap early. apply (reachable_ind' W cap early (fun s => forall c r, In r (busy s c) -> unanswered (rs s c r) = true)).
  - cbn. intros. contradiction.
  - intros s l s' Hr IH H c0 r0 Hin. destruct (reachable_Safe W cap early s Hr) as [J1 J2 J2' J3 J4 J5 J6 J7].
    open_step H; split_guards; upd_cases; auto; try (cbn [In] in Hin);
      try (match goal with |- unanswered ?x = true => reflexivity end).
    all: try (destruct Hin as [Hin | Hin]; [congruence | auto]; fail).
    all: try (apply in_remove_nat in Hin; destruct Hin as [Hin Hne]; try contradiction; auto; fail).
    all: try (specialize (IH _ _ Hin); match goal with Hx : rs _ ?c ?r = _ |- _ => rewrite Hx in IH; discriminate IH end).
Qed.

Definition conn_done (s : state) (c : cid) : Prop := inmap s c = false \/ cst s c = CClosed.

Lemma close_all_in_tick : forall W cap early (l : list cid) s, reachable W cap early s ->
  ph s = SDown -> inpoll s = true -> (forall c, busy s c = []) ->
  exists ls s', run W cap early s ls = Some s' /\ reachable W cap early s' /\
    ph s' = SDown /\ inpoll s' = true /\ known s' = known s /\ (forall c, busy s' c = []) /\
    (forall c, In c l -> conn_done s' c) /\ (forall c, conn_done s c -> conn_done s' c).
Proof.
  intros W cap early. induction l as [|c l IH]; intros s Hr Hp Hi Hb.
  - exists [], s. cbn. repeat split; auto. intros c Hc. contradiction.
  - destruct (IH s Hr Hp Hi Hb) as [ls [s1 [Hrun [Hr1 [Hp1 [Hi1 [Hk1 [Hb1 [Hl1 Hkeep1]]]]]]]]].
    destruct (inmap s1 c) eqn:Hm.
    2:{ exists ls, s1. repeat split; auto. intros c0 [Hc0 | Hc0]; [subst; left; auto | auto]. }
    destruct (cstate_eqb (cst s1 c) CClosed) eqn:Hc.
    { apply cstate_eqb_eq in Hc. exists ls, s1. repeat split; auto. intros c0 [Hc0 | Hc0]; [subst; right; auto | auto]. }
    destruct (reachable_Safe W cap early s1 Hr1) as [J1 J2 J2' J3 J4 J5 J6 J7].
    assert (Hopen : cst s1 c = COpen \/ cst s1 c = CExited).
    { destruct (cst s1 c) eqn:E; auto.
      - rewrite (J2' c E) in Hm. discriminate.
      - cbn in Hc. discriminate. }
    assert (Hstep : exists s2, step W cap early s1 (LPollClose c) = Some s2 /\
              s2 = set_conn s1 c CClosed true (notified s1 c) (polled s1 c)).
    { unfold step. rewrite Hp1. cbn [alive negb poller_live]. rewrite Hi1, Hm. cbn [andb].
      rewrite (Hb1 c). destruct Hopen as [E | E]; rewrite E; eexists; split; reflexivity. }
    destruct Hstep as [s2 [Hs2 Hdef]].
    exists (ls ++ [LPollClose c]), s2. split.
    { rewrite run_app, Hrun. cbn. rewrite Hs2. reflexivity. }
    split; [eapply reachable_step; eauto|].
    subst s2. unfold set_conn, conn_done in *. cbn [ph inpoll known busy inmap cst].
    repeat split; auto.
    + intros c0 [Hc0 | Hc0].
      * subst c0. right. apply upd_eq.
      * destruct (Nat.eq_dec c0 c) as [E | E]; [subst; right; apply upd_eq|].
        rewrite !(upd_neq _ _ c _ c0 E). auto.
    + intros c0 Hd. destruct (Nat.eq_dec c0 c) as [E | E]; [subst; right; apply upd_eq|].
      rewrite !(upd_neq _ _ c _ c0 E). auto.
Qed.

Theorem can_always_return_drained : forall W cap, (0 < cap)%N -> forall ls s, run W cap false init ls = Some s ->
  ph s = SDown -> exists ls' s', run W cap false s ls' = Some s' /\ ph s' = SRetDrained.
Proof.
  intros W cap Hcap ls s Hrun Hp.
  assert (Halive : alive (ph s) = true) by (rewrite Hp; reflexivity).
  destruct (can_always_drain W cap Hcap ls s Hrun Halive) as [l1 [s1 [_ [Hr1 [Hp1 Hall1]]]]].
  assert (Hreach1 : reachable W cap false s1).
  { exists (ls ++ l1). rewrite run_app, Hrun. exact Hr1. }
  assert (Hb1 : forall c, busy s1 c = []).
  { intros c. destruct (busy s1 c) as [|r rest] eqn:E; auto.
    pose proof (busy_unanswered W cap false s1 Hreach1 c r) as Hu. rewrite E in Hu. specialize (Hu (or_introl eq_refl)).
    rewrite Hall1 in Hu. discriminate. }
  rewrite Hp in Hp1.
  (* get a tick going *)
  assert (Htick : exists l2 s2, run W cap false s1 l2 = Some s2 /\ reachable W cap false s2 /\ ph s2 = SDown /\
                    inpoll s2 = true /\ known s2 = known s1 /\ (forall c, busy s2 c = [])).
  { destruct (inpoll s1) eqn:Hi.
    - exists [], s1. cbn. repeat split; auto.
    - destruct (step W cap false s1 LPollBegin) as [s2|] eqn:E.
      + exists [LPollBegin], s2. cbn. rewrite E. split; auto. split; [eapply reachable_step; eauto|].
        unfold step in E. rewrite Hp1, Hi in E. cbn in E. inversion E. subst s2. cbn. repeat split; auto.
      + exfalso. unfold step in E. rewrite Hp1, Hi in E. cbn in E. discriminate. }
  destruct Htick as [l2 [s2 [Hr2 [Hreach2 [Hp2 [Hi2 [Hk2 Hb2]]]]]]].
  destruct (close_all_in_tick W cap false (known s2) s2 Hreach2 Hp2 Hi2 Hb2)
    as [l3 [s3 [Hr3 [Hreach3 [Hp3 [Hi3 [Hk3 [Hb3 [Hdone _]]]]]]]]].
  assert (Hac : all_closed s3 = true).
  { unfold all_closed. apply forallb_forall. intros c Hc. rewrite Hk3 in Hc. destruct (Hdone c Hc) as [Hd | Hd].
    - rewrite Hd. reflexivity.
    - rewrite Hd. apply orb_true_r. }
  destruct (drained_return_enabled W cap false s3) as [s4 [Hr4 Hp4]]; [rewrite Hp3; reflexivity | exact Hac |].
  rewrite Hi3 in Hr4.
  exists (l1 ++ l2 ++ l3 ++ [LPollReturn]), s4. split; auto.
  rewrite run_app, Hr1, run_app, Hr2, run_app, Hr3. exact Hr4.
Qed.

(* ---------------------------------------------------------------------------------------------------------- *)
(* The statements of Props/C12.v, with the run spelled out. *)

Lemma is_reachable : forall W cap early ls s, run W cap early init ls = Some s -> reachable W cap early s.
Proof. intros. exists ls. assumption. Qed.

Theorem c12_answered_before_close : forall W cap early ls s, run W cap early init ls = Some s ->
  forall c, cst s c = CClosed -> forall r, unanswered (rs s c r) = false /\ rs s c r <> Lost.
Proof. intros. eapply answered_before_close; eauto using is_reachable. Qed.

Theorem c12_close_step : forall W cap early ls s l s' c, run W cap early init ls = Some s ->
  step W cap early s l = Some s' -> cst s c <> CClosed -> cst s' c = CClosed ->
  (l = LPollClose c \/ l = LRecvClose c) /\ busy s c = [] /\
  forall r, unanswered (rs s c r) = false /\ rs s' c r = rs s c r.
Proof. intros. eapply close_step_all_answered; eauto using is_reachable. Qed.

(* a request that was read and is not answered — also one that only waits in JobQueue or in the dispatcher's hand —
   is counted in numInvoke and keeps its connection open and in the table *)
Theorem c12_unanswered_keeps_connection : forall W cap early ls s, run W cap early init ls = Some s ->
  forall c r, unanswered (rs s c r) = true ->
  In r (busy s c) /\ (cst s c = COpen \/ cst s c = CExited) /\ inmap s c = true.
Proof.
  intros W cap early ls s Hrun c r Hu. pose proof (reachable_Safe W cap early s (is_reachable _ _ _ _ _ Hrun)) as HS.
  destruct (unanswered_conn_live s HS c r Hu) as [Hc [_ Hm]].
  split; [apply (S_busy s HS); exact Hu | auto].
Qed.

Theorem c12_progress : forall W cap ls s, (0 < cap)%N -> run W cap false init ls = Some s -> alive (ph s) = true ->
  forall c r, unanswered (rs s c r) = true -> exists l, pipeline_label l /\ step W cap false s l <> None.
Proof. intros. eapply read_requests_progress; eauto using is_reachable. Qed.

Theorem c12_rank_mono : forall W cap early ls s l s', run W cap early init ls = Some s ->
  step W cap early s l = Some s' -> forall c r, rank (rs s c r) <= rank (rs s' c r) <= 6.
Proof.
  intros. split; [eapply step_rank_mono; eauto using is_reachable|]. destruct (rs s' c r); cbn; lia.
Qed.

Theorem c12_pipeline_advances : forall W cap early ls s l s', run W cap early init ls = Some s ->
  step W cap early s l = Some s' -> pipeline_label l ->
  exists c r, unanswered (rs s c r) = true /\ rank (rs s c r) < rank (rs s' c r).
Proof. intros. eapply pipeline_step_advances; eauto using is_reachable. Qed.

Definition c12_notification_statement : Prop :=
  forall W cap early ls s, run W cap early init ls = Some s -> returned (ph s) = false ->
  forall c, cst s c = CClosed -> notified s c = true.

Theorem c12_notification_partial : forall W cap early ls s, run W cap early init ls = Some s ->
  earlypoll s = false -> returned (ph s) = false -> forall c, cst s c = CClosed -> notified s c = true.
Proof. intros. eapply closed_after_notification; eauto using is_reachable. Qed.

Theorem c12_notification_refuted : ~ c12_notification_statement.
Proof.
  intros H. destruct notification_needs_listener_down as [s [Hr [Hc [Hn [_ Hp]]]]].
  specialize (H _ _ _ _ _ Hr Hp 0 Hc). congruence.
Qed.

Theorem c12_close_step_notified : forall W cap early ls s l s' c, run W cap early init ls = Some s ->
  step W cap early s l = Some s' -> cst s c <> CClosed -> cst s' c = CClosed -> earlypoll s' = false ->
  returned (ph s') = false -> notified s c = true.
Proof. intros. eapply close_step_notified; eauto using is_reachable. Qed.

Theorem c12_notifying_tick_per_connection : forall W cap early s s', step W cap early s LPollBegin = Some s' ->
  listen s = 1 -> listen s' = 2 /\
  forall c, notified s' c = notified s c || (inmap s c && negb (cstate_eqb (cst s c) CClosed)).
Proof. exact notifying_tick_per_connection. Qed.

Theorem c12_all_open_notified : forall W cap early ls s, run W cap early init ls = Some s -> listen s = 2 ->
  forall c, inmap s c = true -> cst s c <> CClosed -> notified s c = true.
Proof. intros. eapply all_open_notified; eauto using is_reachable. Qed.

Theorem c12_drained_return_sound : forall W cap early ls s s', run W cap early init ls = Some s ->
  step W cap early s LPollReturn = Some s' ->
  ph s' = SRetDrained /\ (forall c, In c (known s') -> cst s' c = CClosed) /\
  (forall c r, unanswered (rs s' c r) = false).
Proof. intros. eapply drained_return_sound; eauto using is_reachable. Qed.

Theorem c12_drained_return_notified : forall W cap early ls s s', run W cap early init ls = Some s ->
  step W cap early s LPollReturn = Some s' -> earlypoll s' = false ->
  forall c, In c (known s') -> notified s' c = true.
Proof. intros. eapply drained_return_notified; eauto using is_reachable. Qed.

Theorem c12_progress_refuted_before_fix :
  exists ls s, run 1 10 true init ls = Some s /\ alive (ph s) = true /\ unanswered (rs s 0 1) = true /\
    forall ls' s', run 1 10 true s ls' = Some s' ->
      rs s' 0 1 = Queued /\ cst s' 0 <> CClosed /\ ph s' <> SRetDrained.
Proof.
  destruct progress_refuted_with_early_release as [s [Hr [Hu Hf]]].
  exists release_before_drain, s. split; auto. split; auto.
  vm_compute in Hr. inversion Hr. reflexivity.
Qed.
