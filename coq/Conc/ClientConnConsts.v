(* C11 — constants of the tree the model depends on (regenerated into Gen/Consts.v on every run). *)
From Coq Require Import NArith.
From TarsV Require Import Gen.Consts.

(* the model's failure queue holds one request: LSRequeue / LSFailPush are enabled only when it is empty, and
   Inv3 (length (failQ s) <= 1) is used by the delivery theorem *)
Lemma failq_capacity_modelled : c_c11_failq_cap = 1%N.
Proof. reflexivity. Qed.
