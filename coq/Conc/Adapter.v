(* C11 — the close-notification path: model of AdapterProxy.onPush (tars/adapter.go) on top of the client model.

   An adapter owns a sequence of transport clients; Send goes to the current one (the last).  When the reconnect
   push (request id 0, "_reconnect_") arrives on a connection of the current client, onPush remembers the current
   client as oldClient, installs a fresh TarsClient (own queues, closed flag set, no connection) and grace-closes
   oldClient: on a 500 ms ticker, once no invoke is in flight, TarsClient.Close.  Each client is an independent
   instance of the LTS of Conc/ClientConn.v (generations are numbered per client).
   Modelling assumptions: callers use the current client only (a Send that read c.tarsClient just before a swap
   is not modelled); the server notifies connections of the current client only.  Definitions only. *)
From Coq Require Import List Arith Bool.
From TarsV Require Import Conc.ClientConn.
Import ListNotations.

Record ast := mkA {
  ncli : nat;               (* transport clients created so far; the current one is ncli - 1 *)
  cli : nat -> st;
  graced : nat -> bool      (* a GraceClose of this client is pending *)
}.
Definition ainit : ast := mkA 1 (fun _ => init) (fun _ => false).

Definition updc {A : Type} (f : nat -> A) (i : nat) (v : A) : nat -> A := fun x => if Nat.eqb x i then v else f x.

Inductive alabel :=
| ACli (i : nat) (l : label)   (* a step of client i: its goroutines, its peer, a caller, the harness *)
| APush (g : nat)              (* the push read on generation g of the current client is dispatched: swap *)
| AGrace (i : nat).            (* GraceClose tick of client i with no invoke in flight: TarsClient.Close *)

Definition caller_label (l : label) : bool := match l with LReconnect | LReconnectFail | LEnq _ => true | _ => false end.
Definition user_close (l : label) : bool := match l with LUserClose => true | _ => false end.

Definition astep (a : ast) (al : alabel) : option ast :=
  match al with
  | ACli i l =>
      if (i <? ncli a) && negb (user_close l) && (negb (caller_label l) || Nat.eqb (S i) (ncli a)) then
        match step true (cli a i) l with
        | Some s' => Some (mkA (ncli a) (updc (cli a) i s') (graced a))
        | None => None
        end
      else None
  | APush g =>
      let c := ncli a - 1 in
      let s := cli a c in
      match rp (gens s g) with
      | RRun => if (g <? ngen s) && negb (dead (gens s g)) && memn g (lpc s) then
                  Some (mkA (S (ncli a)) (updc (cli a) (ncli a) init) (updc (graced a) c true))
                else None
      | _ => None
      end
  | AGrace i =>
      if graced a i then
        match step true (cli a i) LUserClose with
        | Some s' => Some (mkA (ncli a) (updc (cli a) i s') (updc (graced a) i false))
        | None => None
        end
      else None
  end.

Fixpoint arun (a : ast) (als : list alabel) : option ast :=
  match als with
  | [] => Some a
  | al :: r => match astep a al with Some a' => arun a' r | None => None end
  end.

(* the label sequence of client i inside an adapter run *)
Fixpoint proj (i : nat) (als : list alabel) : list label :=
  match als with
  | [] => []
  | ACli j l :: r => if Nat.eqb j i then l :: proj i r else proj i r
  | AGrace j :: r => if Nat.eqb j i then LUserClose :: proj i r else proj i r
  | APush _ :: r => proj i r
  end.

(* the variant seeded as C11-m2: oldClient is read AFTER the new client has been installed, so the grace close
   is aimed at the new client *)
Definition astep_swapped (a : ast) (al : alabel) : option ast :=
  match al with
  | APush g =>
      let c := ncli a - 1 in
      let s := cli a c in
      match rp (gens s g) with
      | RRun => if (g <? ngen s) && negb (dead (gens s g)) && memn g (lpc s) then
                  Some (mkA (S (ncli a)) (updc (cli a) (ncli a) init) (updc (graced a) (ncli a) true))
                else None
      | _ => None
      end
  | _ => astep a al
  end.
Fixpoint arun_swapped (a : ast) (als : list alabel) : option ast :=
  match als with
  | [] => Some a
  | al :: r => match astep_swapped a al with Some a' => arun_swapped a' r | None => None end
  end.
