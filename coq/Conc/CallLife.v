(* C09 model: the life of a client call (servant.go TarsInvoke/doInvoke, adapter.go Send/Recv,
   transport/tarsclient.go Send/ReConnect) as a labelled transition system with an abstract clock.
   Model only; proofs live in CallLifeProofs.v so that the model still evaluates when a proof breaks.

   One label = one atomic action of one goroutine (caller, reply receiver `go Recv(pkg)`, sender, peer) or one
   clock tick.  The peer and the scheduler are the (universally quantified) label sequence.  Time: local
   computation takes no time (a tick is refused while some goroutine has an enabled local action: "maximal
   progress"), only waiting takes time; timers of the time wheel (rtimer.After(T)) may fire from T - T/accuracy on
   and must have fired at T; context timers fire at their deadline.  What the Go runtime adds on top (scheduling
   latency) is the slack of the wall-clock monitor, not part of the model. *)
From Coq Require Import List NArith ZArith Bool Arith.
From TarsV Require Import Base.Hex Gen.C09Consts.
Import ListNotations.
Open Scope N_scope.

(* ---------- configuration, calls, receivers, state ---------- *)
Record cfg := mkcfg { dialT : N; writeT : N; readT : N; qcap : N; qmax : Z (* ObjQueueMax *);
  idleT : N (* client idle timeout: the sender goroutine closes a connection nothing was written to for longer *) }.

(* rtimer.After(T): the wheel ticks every T/accuracy; the returned slot closes between T - T/accuracy and T *)
Definition lo (T : N) : N := T - T / c_rtimer_accuracy.

Inductive outcome := Reply (p : N) | Timeout | Error | Sent (* one-way: the request was queued *)
| Cancelled (* the caller cancelled its context while the call waited: the code returns its timeout error *).

(* program counter of a caller inside TarsInvoke *)
Inductive pc :=
| Init      (* TarsInvoke entered, ctx derived *)
| Pre       (* after manager.preInvoke: invokeNum+1 *)
| Counted   (* after atomic.AddInt32(&queueLen, 1), before resp.Store *)
| Reg       (* after resp.Store(id, readCh); about to Send -> ReConnect -> connLock.Lock *)
| Dialing   (* holds connLock inside net.DialTimeout *)
| Enq       (* ReConnect done; in the select { timer ; sendQueue <- msg } of TarsClient.Send *)
| Waiting   (* in the select { ctx.Done ; readCh } of doInvoke *)
| Done      (* outcome decided; deferred cleanup not yet run *)
| Uncounted (* deferred cleanup: after atomic.AddInt32(&queueLen, -1), before resp.Delete *)
| Cleaned   (* resp.Delete(id) done; before manager.postInvoke *)
| Returned.

Record call := mkcall {
  k_px : nat (* the ServantProxy the call was made on: queueLen is that proxy's counter; several proxies for one object
                share the endpoint manager (invokeNum) and its adapters (the pending-reply table, the connection) *);
  k_ow : bool (* one-way call *); k_start : N; k_dl : N; k_pc : pc; k_t0 : N (* begin of the current wait *);
  k_lockt : N (* ghost: when connLock was acquired *); k_d : bool (* ghost: this call dialled *);
  k_e : bool (* ghost: time passed while waiting to enqueue *);
  k_out : option outcome; k_ret : N;
  k_rel0 : N (* ghost: how many times connLock had been released by a dialling call when this call began to wait for it *);
  k_w : N (* ghost: how many dials of other calls ended while this call waited for connLock *) }.

(* a reply receiver goroutine: go protocol.Recv(pkg) *)
Inductive rpc := RNew | RFound (j : nat) (* holds the channel of call j, blocked in the send/timer select *) | RDone.
Record rcv := mkrcv { r_id : N; r_pay : N; r_pc : rpc; r_t0 : N }.

(* bookkeeping of transport.connection: idleTime, invokeNum (writes minus packets received; it is never reset), and
   two ghosts: when the current connection was established (phase of the sender's one-second ticker), how many were *)
Record transp := mktr { idle_since : N; tinv : Z; conn_t : N; conns : N;
  rels : N (* ghost: how often connLock has been released by a call that had dialled *) }.

Record state := mkst {
  now : N; calls : list call; rcvs : list rcv;
  queueLen : nat -> Z (* per ServantProxy *); invokeNum : Z; resp : list nat (* calls that have an entry in the pending-reply table *);
  conn_open : bool; lock : option nat; sendq : list nat; wire : list nat (* ghost: requests written to the peer *);
  sent : list (N * N) (* ghost: packets the peer emitted *);
  tr : transp }.

Definition init : state := mkst 0 [] [] (fun _ => 0%Z) 0%Z [] false None [] [] [] (mktr 0 0%Z 0 0 0).

(* the request id of call i is i+1 (ids of outstanding calls are distinct and non-zero: C08) *)
Definition id_of (i : nat) : N := N.of_nat (S i).
Definition call_of (id : N) : option nat := if id =? 0 then None else Some (pred (N.to_nat id)).

Inductive label :=
| Tick | Start (d : N) (ow : bool) (px : nat)
| LPre (i : nat) | LReg (i : nat) | LQueueFull (i : nat) | LLock (i : nat)
| LDialOk (i : nat) | LDialFail (i : nat) | LDialTimeout (i : nat)
| LEnq (i : nat) | LEnqTimeout (i : nat) | LCtxFire (i : nat) | LClean (i : nat) | LPost (i : nat)
| LSendTake | LConnDown
| LPeerPkt (id pay : N) | LLookup (r : nat) | LDeliver (r : nat) | LGiveUp (r : nat)
| LIdleClose
| LCancel (i : nat) | LFilterErr (i : nat)
| LCount (i : nat) | LUncount (i : nat)
| LCloseOld.

Fixpoint upd {A} (l : list A) (i : nat) (x : A) : list A :=
  match l, i with
  | [], _ => []
  | _ :: t, O => x :: t
  | h :: t, S j => h :: upd t j x
  end.

Definition fset (f : nat -> Z) (p : nat) (v : Z) : nat -> Z := fun q => if Nat.eqb q p then v else f q.
Definition memb (i : nat) (l : list nat) : bool := existsb (Nat.eqb i) l.
Definition remove_nat (i : nat) (l : list nat) : list nat := filter (fun j => negb (Nat.eqb i j)) l.

Definition set_pc (k : call) (p : pc) : call :=
  mkcall (k_px k) (k_ow k) (k_start k) (k_dl k) p (k_t0 k) (k_lockt k) (k_d k) (k_e k) (k_out k) (k_ret k) (k_rel0 k) (k_w k).
Definition set_wait (k : call) (p : pc) (t : N) : call :=
  mkcall (k_px k) (k_ow k) (k_start k) (k_dl k) p t (k_lockt k) (k_d k) (k_e k) (k_out k) (k_ret k) (k_rel0 k) (k_w k).
Definition set_lock (k : call) (p : pc) (t : N) (d : bool) (w : N) : call :=
  mkcall (k_px k) (k_ow k) (k_start k) (k_dl k) p t t d (k_e k) (k_out k) (k_ret k) (k_rel0 k) w.
Definition set_reg (k : call) (r : N) : call :=
  mkcall (k_px k) (k_ow k) (k_start k) (k_dl k) Reg (k_t0 k) (k_lockt k) (k_d k) (k_e k) (k_out k) (k_ret k) r (k_w k).
Definition set_out (k : call) (o : outcome) (e : bool) : call :=
  mkcall (k_px k) (k_ow k) (k_start k) (k_dl k) Done (k_t0 k) (k_lockt k) (k_d k) e (Some o) (k_ret k) (k_rel0 k) (k_w k).
Definition set_full (k : call) : call :=
  mkcall (k_px k) (k_ow k) (k_start k) (k_dl k) Cleaned (k_t0 k) (k_lockt k) (k_d k) (k_e k) (Some Error) (k_ret k) (k_rel0 k) (k_w k).
Definition set_enq (k : call) (e : bool) : call :=
  if k_ow k
  then mkcall (k_px k) (k_ow k) (k_start k) (k_dl k) Done (k_t0 k) (k_lockt k) (k_d k) e (Some Sent) (k_ret k) (k_rel0 k) (k_w k)   (* one-way: returns at once *)
  else mkcall (k_px k) (k_ow k) (k_start k) (k_dl k) Waiting (k_t0 k) (k_lockt k) (k_d k) e (k_out k) (k_ret k) (k_rel0 k) (k_w k).
Definition set_ret (k : call) (t : N) : call :=
  mkcall (k_px k) (k_ow k) (k_start k) (k_dl k) Returned (k_t0 k) (k_lockt k) (k_d k) (k_e k) (k_out k) t (k_rel0 k) (k_w k).

Definition with_calls (s : state) (cs : list call) : state :=
  mkst (now s) cs (rcvs s) (queueLen s) (invokeNum s) (resp s) (conn_open s) (lock s) (sendq s) (wire s) (sent s) (tr s).
Definition with_rcvs (s : state) (rs : list rcv) : state :=
  mkst (now s) (calls s) rs (queueLen s) (invokeNum s) (resp s) (conn_open s) (lock s) (sendq s) (wire s) (sent s) (tr s).

Definition is_waiting (s : state) (j : nat) : bool :=
  match nth_error (calls s) j with Some k => match k_pc k with Waiting => true | _ => false end | None => false end.

(* ---------- urgency: a goroutine has an enabled local action ---------- *)
Definition call_urgent (c : cfg) (s : state) (k : call) : bool :=
  match k_pc k with
  | Init | Pre | Counted | Done | Uncounted | Cleaned => true
  | Reg => match lock s with None => true | Some _ => false end
  | Dialing => k_t0 k + dialT c <=? now s
  | Enq => (N.of_nat (length (sendq s)) <? qcap c) || ((0 <? writeT c) && (k_t0 k + writeT c <=? now s))
  | Waiting => k_dl k <=? now s
  | Returned => false
  end.
Definition rcv_urgent (c : cfg) (s : state) (r : rcv) : bool :=
  match r_pc r with
  | RNew => true
  | RFound j => is_waiting s j || (r_t0 r + readT c <=? now s)
  | RDone => false
  end.
Definition urgent (c : cfg) (s : state) : bool :=
  existsb (call_urgent c s) (calls s) || existsb (rcv_urgent c s) (rcvs s).

(* ---------- the transition function ---------- *)
Definition step (c : cfg) (s : state) (l : label) : option state :=
  match l with
  | Tick => if urgent c s then None
            else Some (mkst (now s + 1) (calls s) (rcvs s) (queueLen s) (invokeNum s) (resp s) (conn_open s) (lock s) (sendq s) (wire s) (sent s) (tr s))
  | Start d ow px => Some (with_calls s (calls s ++ [mkcall px ow (now s) (now s + d) Init (now s) (now s) false false None 0 0 0]))
  | LPre i =>
      match nth_error (calls s) i with
      | Some k => match k_pc k with
                  | Init => Some (mkst (now s) (upd (calls s) i (set_pc k Pre)) (rcvs s) (queueLen s) (invokeNum s + 1)%Z (resp s) (conn_open s) (lock s) (sendq s) (wire s) (sent s) (tr s))
                  | _ => None end
      | None => None end
  | LReg i =>   (* adp.resp.Store(id, readCh) *)
      match nth_error (calls s) i with
      | Some k => match k_pc k with
                  | Counted => Some (mkst (now s) (upd (calls s) i (set_reg k (rels (tr s)))) (rcvs s) (queueLen s) (invokeNum s) (i :: resp s) (conn_open s) (lock s) (sendq s) (wire s) (sent s) (tr s))
                  | _ => None end
      | None => None end
  | LQueueFull i =>   (* "invoke queue is full": returns before anything is registered *)
      match nth_error (calls s) i with
      | Some k => match k_pc k with
                  | Pre => if (qmax c <? queueLen s (k_px k))%Z
                           then Some (with_calls s (upd (calls s) i (set_full k)))
                           else None
                  | _ => None end
      | None => None end
  | LLock i =>
      match nth_error (calls s) i, lock s with
      | Some k, None =>
          match k_pc k with
          | Reg => if conn_open s
                   then Some (with_calls s (upd (calls s) i (set_lock k Enq (now s) false (rels (tr s) - k_rel0 k))))
                   else Some (mkst (now s) (upd (calls s) i (set_lock k Dialing (now s) true (rels (tr s) - k_rel0 k))) (rcvs s) (queueLen s) (invokeNum s) (resp s) (conn_open s) (Some i) (sendq s) (wire s) (sent s) (tr s))
          | _ => None end
      | _, _ => None end
  | LDialOk i =>
      match nth_error (calls s) i with
      | Some k => match k_pc k with
                  | Dialing => Some (mkst (now s) (upd (calls s) i (set_wait k Enq (now s))) (rcvs s) (queueLen s) (invokeNum s) (resp s) true None (sendq s) (wire s) (sent s) (mktr (now s) (tinv (tr s)) (now s) (conns (tr s) + 1) (rels (tr s) + 1)))
                  | _ => None end
      | None => None end
  | LDialFail i =>
      match nth_error (calls s) i with
      | Some k => match k_pc k with
                  | Dialing => Some (mkst (now s) (upd (calls s) i (set_out k Error (k_e k))) (rcvs s) (queueLen s) (invokeNum s) (resp s) (conn_open s) None (sendq s) (wire s) (sent s) (mktr (idle_since (tr s)) (tinv (tr s)) (conn_t (tr s)) (conns (tr s)) (rels (tr s) + 1)))
                  | _ => None end
      | None => None end
  | LDialTimeout i =>
      match nth_error (calls s) i with
      | Some k => match k_pc k with
                  | Dialing => if k_t0 k + dialT c <=? now s
                               then Some (mkst (now s) (upd (calls s) i (set_out k Error (k_e k))) (rcvs s) (queueLen s) (invokeNum s) (resp s) (conn_open s) None (sendq s) (wire s) (sent s) (mktr (idle_since (tr s)) (tinv (tr s)) (conn_t (tr s)) (conns (tr s)) (rels (tr s) + 1)))
                               else None
                  | _ => None end
      | None => None end
  | LEnq i =>
      match nth_error (calls s) i with
      | Some k => match k_pc k with
                  | Enq => if N.of_nat (length (sendq s)) <? qcap c
                           then Some (mkst (now s) (upd (calls s) i (set_enq k (k_t0 k <? now s))) (rcvs s) (queueLen s) (invokeNum s) (resp s) (conn_open s) (lock s) (sendq s ++ [i]) (wire s) (sent s) (tr s))
                           else None
                  | _ => None end
      | None => None end
  | LEnqTimeout i =>
      match nth_error (calls s) i with
      | Some k => match k_pc k with
                  | Enq => if (0 <? writeT c) && (k_t0 k + lo (writeT c) <=? now s)
                           then Some (with_calls s (upd (calls s) i (set_out k Error true)))
                           else None
                  | _ => None end
      | None => None end
  | LCtxFire i =>
      match nth_error (calls s) i with
      | Some k => match k_pc k with
                  | Waiting => if k_dl k <=? now s then Some (with_calls s (upd (calls s) i (set_out k Timeout (k_e k)))) else None
                  | _ => None end
      | None => None end
  | LClean i =>   (* deferred: adp.resp.Delete(id) *)
      match nth_error (calls s) i with
      | Some k => match k_pc k with
                  | Uncounted => Some (mkst (now s) (upd (calls s) i (set_pc k Cleaned)) (rcvs s) (queueLen s) (invokeNum s) (remove_nat i (resp s)) (conn_open s) (lock s) (sendq s) (wire s) (sent s) (tr s))
                  | _ => None end
      | None => None end
  | LPost i =>
      match nth_error (calls s) i with
      | Some k => match k_pc k with
                  | Cleaned => Some (mkst (now s) (upd (calls s) i (set_ret k (now s))) (rcvs s) (queueLen s) (invokeNum s - 1)%Z (resp s) (conn_open s) (lock s) (sendq s) (wire s) (sent s) (tr s))
                  | _ => None end
      | None => None end
  | LSendTake =>
      match sendq s with
      (* a sender goroutine takes the head of the queue and writes it; the goroutine of a lost connection may still be
         running (the connection flag is not consulted), whether the bytes reach the peer is the peer's business *)
      | i :: q => Some (mkst (now s) (calls s) (rcvs s) (queueLen s) (invokeNum s) (resp s) (conn_open s) (lock s) q (i :: wire s) (sent s) (mktr (now s) (tinv (tr s) + 1)%Z (conn_t (tr s)) (conns (tr s)) (rels (tr s))))
      | [] => None end
  | LConnDown =>   (* connection.close(conn) of the current connection (peer closed it, protocol error, write error): under connLock *)
      match lock s with
      | None => if conn_open s
                then Some (mkst (now s) (calls s) (rcvs s) (queueLen s) (invokeNum s) (resp s) false (lock s) (sendq s) (wire s) (sent s) (tr s))
                else None
      | Some _ => None end
  | LPeerPkt id pay =>
      Some (mkst (now s) (calls s) (rcvs s ++ [mkrcv id pay RNew 0]) (queueLen s) (invokeNum s) (resp s) (conn_open s) (lock s) (sendq s) (wire s) ((id, pay) :: sent s) (mktr (idle_since (tr s)) (tinv (tr s) - 1)%Z (conn_t (tr s)) (conns (tr s)) (rels (tr s))))
  | LLookup r =>
      match nth_error (rcvs s) r with
      | Some x => match r_pc x with
                  | RNew => match call_of (r_id x) with
                            | Some j => if memb j (resp s)
                                        then Some (with_rcvs s (upd (rcvs s) r (mkrcv (r_id x) (r_pay x) (RFound j) (now s))))
                                        else Some (with_rcvs s (upd (rcvs s) r (mkrcv (r_id x) (r_pay x) RDone (r_t0 x))))
                            | None => Some (with_rcvs s (upd (rcvs s) r (mkrcv (r_id x) (r_pay x) RDone (r_t0 x))))
                            end
                  | _ => None end
      | None => None end
  | LDeliver r =>
      match nth_error (rcvs s) r with
      | Some x => match r_pc x with
                  | RFound j => match nth_error (calls s) j with
                                | Some k => match k_pc k with
                                            | Waiting => Some (mkst (now s) (upd (calls s) j (set_out k (Reply (r_pay x)) (k_e k)))
                                                                 (upd (rcvs s) r (mkrcv (r_id x) (r_pay x) RDone (r_t0 x)))
                                                                 (queueLen s) (invokeNum s) (resp s) (conn_open s) (lock s) (sendq s) (wire s) (sent s) (tr s))
                                            | _ => None end
                                | None => None end
                  | _ => None end
      | None => None end
  | LGiveUp r =>
      match nth_error (rcvs s) r with
      | Some x => match r_pc x with
                  | RFound j => if r_t0 x + lo (readT c) <=? now s
                                then Some (with_rcvs s (upd (rcvs s) r (mkrcv (r_id x) (r_pay x) RDone (r_t0 x))))
                                else None
                  | _ => None end
      | None => None end
  | LIdleClose =>
      (* the sender goroutine's idle check: under connLock (so nobody may be dialling), nothing in flight on the transport,
         nothing written for longer than the idle timeout: the connection is closed and connLock released again *)
      match lock s with
      | None => if conn_open s && (tinv (tr s) =? 0)%Z && (idle_since (tr s) + idleT c <? now s)
                then Some (mkst (now s) (calls s) (rcvs s) (queueLen s) (invokeNum s) (resp s) false (lock s) (sendq s) (wire s) (sent s) (tr s))
                else None
      | Some _ => None end
  | LCancel i =>   (* ctx.Done() of a context the caller cancelled (at any time before): noticed at the wait *)
      match nth_error (calls s) i with
      | Some k => match k_pc k with
                  | Waiting => Some (with_calls s (upd (calls s) i (set_out k Cancelled (k_e k))))
                  | _ => None end
      | None => None end
  | LCloseOld =>   (* connection.close(conn) by a goroutine of an EARLIER connection (conn is not the current one any more):
                      takes connLock and releases it again, the current connection and everything else stay as they are *)
      match lock s with
      | None => Some (mkst (now s) (calls s) (rcvs s) (queueLen s) (invokeNum s) (resp s) (conn_open s) (lock s) (sendq s) (wire s) (sent s) (tr s))
      | Some _ => None end
  | LCount i =>   (* the queue-limit check passed: atomic.AddInt32(&s.queueLen, 1) *)
      match nth_error (calls s) i with
      | Some k => match k_pc k with
                  | Pre => if (qmax c <? queueLen s (k_px k))%Z then None
                           else Some (mkst (now s) (upd (calls s) i (set_pc k Counted)) (rcvs s) (fset (queueLen s) (k_px k) (queueLen s (k_px k) + 1)%Z) (invokeNum s) (resp s) (conn_open s) (lock s) (sendq s) (wire s) (sent s) (tr s))
                  | _ => None end
      | None => None end
  | LUncount i =>   (* deferred: atomic.AddInt32(&s.queueLen, -1) *)
      match nth_error (calls s) i with
      | Some k => match k_pc k with
                  | Done => Some (mkst (now s) (upd (calls s) i (set_pc k Uncounted)) (rcvs s) (fset (queueLen s) (k_px k) (queueLen s (k_px k) - 1)%Z) (invokeNum s) (resp s) (conn_open s) (lock s) (sendq s) (wire s) (sent s) (tr s))
                  | _ => None end
      | None => None end
  | LFilterErr i =>   (* a client filter returns an error without invoking: nothing is registered, postInvoke still runs *)
      match nth_error (calls s) i with
      | Some k => match k_pc k with
                  | Pre => Some (with_calls s (upd (calls s) i (set_full k)))
                  | _ => None end
      | None => None end
  end.

Fixpoint run (c : cfg) (s : state) (ls : list label) : option state :=
  match ls with
  | [] => Some s
  | l :: r => match step c s l with Some s' => run c s' r | None => None end
  end.

(* ---------- the effective timeout of a call (TarsInvoke: "timeout delivery") ----------
   timeout := proxy timeout; if the context carries a per-call timeout (current.SetClientTimeout) timeout := that one;
   if the caller's context has a deadline, timeout := time.Until(deadline) and the context is used as it is; otherwise
   context.WithTimeout(ctx, timeout) - with a timeout of zero or below the derived context has expired when it is made. *)
Record tmo := mktmo {
  t_proxy : Z (* ServantProxy.timeout, as set by TarsSetTimeout / the configuration *);
  t_percall : option Z (* current.SetClientTimeout *);
  t_ctx : option N (* time left until the deadline of the caller's context *) }.
Definition configured (t : tmo) : Z := match t_percall t with Some p => p | None => t_proxy t end.
Definition eff_of (t : tmo) : N := match t_ctx t with Some d => d | None => Z.to_N (configured t) end.

(* ---------- canonical run of a fault script (used by the correspondence) ---------- *)
Inductive connmode := CAccept | CRefuse | CStall | CAcceptClose | CNoRead
| CNoReadEarly (t : N) (* never reads; t after accepting it sends a reply for every request id it expects *)
| CSlowAccept (h : N) (* connection establishment (TCP connect + TLS handshake, both inside the dial step and under
                         DialTimeout) completes h after it began *).
Definition early_pay : N := 3931302481.
(* what the peer does with the n-th request it reads: an unsolicited packet first, the proper reply after a delay,
   the reply twice, take the connection down *)
Record act := mkact { a_junk : bool; a_reply : option N; a_dup : bool; a_down : bool }.

Record scen := mkscen {
  sc_cfg : cfg; sc_conn : connmode; sc_acts : list act; sc_callers : nat; sc_calls : nat; sc_tmo : tmo;
  sc_gaps : list N (* pause after the j-th call of a sequential caller; the last one repeats *);
  sc_oneway : bool;
  sc_proxies : nat (* n > 0: the callers use n ServantProxy objects for the one object, call number i proxy i mod n *);
  sc_cancel : option N (* the caller cancels its context this long after the start of the call *);
  sc_reject : nat (* n > 0: the client filter rejects every call whose index is n-1 modulo n *);
  sc_prime : bool (* concurrent callers only: one call alone first, the callers start when it has returned *) }.

(* scheduler state: packets the peer will emit (time, id, payload), connection losses to deliver *)
Record env := mkenv { e_pend : list (N * N * N); e_down : nat }.

Definition pay_of (i : nat) : N := 7 + N.of_nat i.

Fixpoint nth_last {A} (l : list A) (n : nat) (d : A) : A :=
  match l with
  | [] => d
  | [x] => x
  | x :: t => match n with O => x | S m => nth_last t m d end
  end.

Fixpoint find_idx {A} (f : A -> bool) (l : list A) (i : nat) : option (nat * A) :=
  match l with
  | [] => None
  | x :: t => if f x then Some (i, x) else find_idx f t (S i)
  end.

Definition all_returned (s : state) : bool :=
  forallb (fun k => match k_pc k with Returned => true | _ => false end) (calls s).
Definition rcvs_done (s : state) : bool :=
  forallb (fun r => match r_pc r with RDone => true | _ => false end) (rcvs s).

(* next start, if one is due *)
Definition expected_calls (sc : scen) : nat :=
  if Nat.ltb 1 (sc_callers sc) then sc_callers sc + (if sc_prime sc then 1 else 0) else sc_calls sc.
Definition want_start (sc : scen) (s : state) : bool :=
  let n := length (calls s) in
  if Nat.ltb 1 (sc_callers sc) then
    Nat.ltb n (expected_calls sc) &&
    (if sc_prime sc then
       match n with
       | O => true
       | S _ => match nth_error (calls s) 0 with
                | Some k => match k_pc k with Returned => true | _ => false end
                | None => false end
       end
     else true)
  else if Nat.ltb n (sc_calls sc) then
    match n with
    | O => true
    | S m => match nth_error (calls s) m with
             | Some k => match k_pc k with Returned => k_ret k + nth_last (sc_gaps sc) m 0 <=? now s | _ => false end
             | None => false end
    end
  else false.

Definition call_label_r (rejected : bool) (c : cfg) (s : state) (i : nat) (k : call) : label :=
  match k_pc k with
  | Init => LPre i
  | Pre => if rejected then LFilterErr i else if (qmax c <? queueLen s (k_px k))%Z then LQueueFull i else LCount i
  | Counted => LReg i
  | Reg => LLock i | Dialing => LDialTimeout i
  | Enq => if N.of_nat (length (sendq s)) <? qcap c then LEnq i else LEnqTimeout i
  | Waiting => LCtxFire i | Done => LUncount i | Uncounted => LClean i | Cleaned => LPost i | Returned => Tick
  end.
Definition is_rejected (n i : nat) : bool := match n with O => false | S m => Nat.eqb (Nat.modulo i n) m end.
Definition rcv_label (s : state) (r : nat) (x : rcv) : label :=
  match r_pc x with
  | RNew => LLookup r
  | RFound j => if is_waiting s j then LDeliver r else LGiveUp r
  | RDone => Tick
  end.

(* the sender's ticker fires every second (100 units) after the connection was established *)
Definition idle_or_tick (c : cfg) (s : state) : label :=
  match lock s with
  | None => if conn_open s && (tinv (tr s) =? 0)%Z && (idle_since (tr s) + idleT c <? now s)
               && (conn_t (tr s) <? now s) && ((now s - conn_t (tr s)) mod 100 =? 0)
            then LIdleClose else Tick
  | Some _ => Tick end.

Definition due (now : N) (p : N * N * N) : bool := let '(t, _, _) := p in t <=? now.

(* one scheduling decision: the label to take and the new scheduler state *)
Definition sched (sc : scen) (s : state) (e : env) : label * env :=
  let c := sc_cfg sc in
  if want_start sc s then (Start (eff_of (sc_tmo sc)) (sc_oneway sc) (match sc_proxies sc with O => O | S _ => Nat.modulo (length (calls s)) (sc_proxies sc) end), e) else
  match e_down e with
  | S n => (if conn_open s then LConnDown else LPeerPkt 0 0, mkenv (e_pend e) n)
  | O =>
  match find_idx (due (now s)) (e_pend e) 0 with
  | Some (_, (t, id, pay)) =>
      (LPeerPkt id pay, mkenv (filter (fun p => negb (due (now s) p && (let '(_, id', pay') := p in (id' =? id) && (pay' =? pay)))) (e_pend e)) 0)
  | None =>
  match find_idx (rcv_urgent c s) (rcvs s) 0 with
  | Some (r, x) => (rcv_label s r x, e)
  | None =>
  (* the caller's own cancellation *)
  let cancel_lbl : option label :=
    match sc_cancel sc with
    | Some cd => match find_idx (fun k => match k_pc k with Waiting => k_start k + cd <=? now s | _ => false end) (calls s) 0 with
                 | Some (i, _) => Some (LCancel i) | None => None end
    | None => None end in
  match cancel_lbl with
  | Some l => (l, e)
  | None =>
  (* the peer's side of connection establishment *)
  let dial_env : option (label * env) :=
    match find_idx (fun k => match k_pc k with Dialing => true | _ => false end) (calls s) 0, sc_conn sc with
    | Some (i, _), CRefuse => Some (LDialFail i, e)
    | Some (i, _), CAccept | Some (i, _), CNoRead => Some (LDialOk i, e)
    | Some (i, _), CNoReadEarly t =>
        Some (LDialOk i, mkenv (e_pend e ++ map (fun j => (now s + t, id_of j, early_pay)) (seq 0 (expected_calls sc))) 0)
    | Some (i, _), CAcceptClose => Some (LDialOk i, mkenv (e_pend e) 1)
    | Some (i, k), CSlowAccept h => if (k_t0 k + h <=? now s) && (h <? dialT c) then Some (LDialOk i, e) else None
    | _, _ => None
    end in
  match dial_env with
  | Some r => r
  | None =>
  (* the sender goroutine writes the head of the queue; the peer reads it and follows its script *)
  let can_take := match sc_conn sc with CNoRead | CNoReadEarly _ => match wire s with [] => true | _ => false end | _ => true end in
  match sendq s with
  | i :: _ =>
      if conn_open s && can_take then
        let a := if sc_oneway sc then mkact false None false false   (* one-way requests are never answered *)
                 else nth_last (sc_acts sc) (length (wire s)) (mkact false None false false) in
        let rep := match sc_conn sc, a_reply a with
                   | CNoRead, _ | CNoReadEarly _, _ | _, None => []
                   | _, Some d => (now s + d, id_of i, pay_of i) :: (if a_dup a then [(now s + d + 1, id_of i, pay_of i)] else [])
                   end in
        let junk := if a_junk a then [(now s, 1000000 + id_of i, 0)] else [] in
        (LSendTake, mkenv (e_pend e ++ junk ++ rep) (if a_down a then 1 else 0))
      else
        match find_idx (call_urgent c s) (calls s) 0 with Some (i, k) => (call_label_r (is_rejected (sc_reject sc) i) c s i k, e) | None => (idle_or_tick c s, e) end
  | [] =>
      match find_idx (call_urgent c s) (calls s) 0 with Some (i, k) => (call_label_r (is_rejected (sc_reject sc) i) c s i k, e) | None => (idle_or_tick c s, e) end
  end end end end end end.

Definition finished (sc : scen) (s : state) (e : env) : bool :=
  Nat.eqb (length (calls s)) (expected_calls sc)
  && all_returned s && rcvs_done s && match e_pend e with [] => true | _ => false end.

Fixpoint crun (fuel : nat) (sc : scen) (s : state) (e : env) (acc : list label) : state * list label * bool :=
  match fuel with
  | O => (s, acc, false)
  | S f =>
      if finished sc s e then (s, acc, true) else
      let '(l, e') := sched sc s e in
      match step (sc_cfg sc) s l with
      | Some s' => crun f sc s' e' (l :: acc)
      | None => (s, l :: acc, false)   (* the scheduler proposed a disabled label: reported as a failed run *)
      end
  end.

Definition canonical (sc : scen) : state * list label * bool := crun (N.to_nat 60000) sc init (mkenv [] 0) [].

(* ---------- observations and the correspondence check ---------- *)
Inductive ocls := OReply | OTimeout | OError | OSent | OOther.
Definition ocls_eqb (a b : ocls) : bool :=
  match a, b with OReply, OReply | OTimeout, OTimeout | OError, OError | OSent, OSent | OOther, OOther => true | _, _ => false end.
Definition cls_of (o : option outcome) : ocls :=
  match o with Some (Reply _) => OReply | Some Timeout => OTimeout | Some Error => OError | Some Sent => OSent | Some Cancelled => OTimeout | None => OOther end.

Fixpoint insert_sorted (x : N) (l : list N) : list N :=
  match l with [] => [x] | y :: t => if x <=? y then x :: l else y :: insert_sorted x t end.
Definition sort_n (l : list N) : list N := fold_right insert_sorted [] l.

Definition tol_lo : N := 60.    (* ms: the time wheel fires up to T/accuracy early; rounding of the 10 ms model clock *)
Definition tol_hi : N := 250.   (* ms: scheduling latency tolerated by the correspondence *)

(* model time unit = 10 ms; observed durations are in ms *)
Fixpoint times_agree (model obs : list N) : bool :=
  match model, obs with
  | [], [] => true
  | m :: ms, o :: os => (m * 10 <=? o + tol_lo) && (o <=? m * 10 + tol_hi) && times_agree ms os
  | _, _ => false
  end.

Definition model_calls (s : state) : list (ocls * N) :=
  map (fun k => (cls_of (k_out k), k_ret k - k_start k)) (calls s).
Definition of_cls {A} (cl : ocls) (l : list (ocls * A)) : list A :=
  map snd (filter (fun x => ocls_eqb (fst x) cl) l).

(* whether the call that returned as the [n]-th has the model's class and time: sequential runs compare in order,
   concurrent runs compare the sorted return times per class *)
Definition predicted (sc : scen) (obs : list (ocls * N)) : bool :=
  let '(s, _, ok) := canonical sc in
  let m := model_calls s in
  ok && forallb (fun p => (queueLen s p =? 0)%Z) (seq 0 (S (sc_proxies sc))) && (invokeNum s =? 0)%Z && match resp s with [] => true | _ => false end &&
  if Nat.ltb 1 (sc_callers sc)
  then forallb (fun cl => times_agree (sort_n (of_cls cl m)) (sort_n (of_cls cl obs))) [OReply; OTimeout; OError; OSent; OOther]
  else list_eqb ocls_eqb (map fst m) (map fst obs) && times_agree (map snd m) (map snd obs).

(* ---------- trace validation: the implementation's event trace against the specification machine ---------- *)
Inductive event :=
| EStart (c : nat) | EPre (c : nat) (id : N) | EPost (c : nat)
| ERet (c : nat) (o : ocls) (pay q n p : N)
| EPeerRecv (id : N) | EPeerSend (id pay : N).

Inductive phase := PhNone | PhStarted | PhPre | PhPost | PhRet.
Record acall := mkacall { ph : phase; aid : N; retd_at_post : N }.
Record astate := mkast {
  acs : list (nat * acall);          (* association list call -> bookkeeping *)
  started : N; returned : N;
  recvd : list N;                    (* ids the peer has read *)
  sends : list (N * N);              (* (id, payload) of every packet the peer sent so far *)
  errored : list N }.                (* ids of calls that returned an error *)

Definition aget (a : astate) (c : nat) : acall :=
  match find (fun x => Nat.eqb (fst x) c) (acs a) with Some x => snd x | None => mkacall PhNone 0 0 end.
Definition aset (a : astate) (c : nat) (k : acall) : list (nat * acall) :=
  (c, k) :: filter (fun x => negb (Nat.eqb (fst x) c)) (acs a).
Definition id_used (a : astate) (id : N) : bool :=
  existsb (fun x => match ph (snd x) with PhNone | PhStarted => false | _ => aid (snd x) =? id end) (acs a).
Definition memN (x : N) (l : list N) : bool := existsb (N.eqb x) l.

Definition astep (a : astate) (e : event) : option astate :=
  match e with
  | EStart c =>
      match ph (aget a c) with
      | PhNone => Some (mkast (aset a c (mkacall PhStarted 0 0)) (started a + 1) (returned a) (recvd a) (sends a) (errored a))
      | _ => None end
  | EPre c id =>
      match ph (aget a c) with
      | PhStarted => if (id =? 0) || id_used a id then None
                     else Some (mkast (aset a c (mkacall PhPre id 0)) (started a) (returned a) (recvd a) (sends a) (errored a))
      | _ => None end
  | EPost c =>
      match ph (aget a c) with
      | PhPre => Some (mkast (aset a c (mkacall PhPost (aid (aget a c)) (returned a))) (started a) (returned a) (recvd a) (sends a) (errored a))
      | _ => None end
  | ERet c o pay q n p =>
      let k := aget a c in
      match ph k with
      | PhPost =>
          let ub := started a - retd_at_post k - 1 in
          let okc := (q <=? ub) && (n <=? ub) && (p <=? ub) in
          let oko := match o with
                     | OReply => existsb (fun x => let '(i, py) := x in (i =? aid k) && (py =? pay)) (sends a)
                     | OTimeout => true
                     | OError => negb (memN (aid k) (recvd a))
                     | OSent => true
                     | OOther => false
                     end in
          if okc && oko
          then Some (mkast (aset a c (mkacall PhRet (aid k) 0)) (started a) (returned a + 1) (recvd a) (sends a)
                       (match o with OError => aid k :: errored a | _ => errored a end))
          else None
      | _ => None end
  | EPeerRecv id =>
      (* only a request that was issued, and never one whose Send reported an error (a request may be written twice:
         the sender re-queues a message whose write failed; that is C11's subject) *)
      if id_used a id && negb (memN id (errored a))
      then Some (mkast (acs a) (started a) (returned a) (id :: recvd a) (sends a) (errored a))
      else None
  | EPeerSend id pay =>
      Some (mkast (acs a) (started a) (returned a) (recvd a) ((id, pay) :: sends a) (errored a))
  end.

Fixpoint arun (a : astate) (es : list event) : option astate :=
  match es with [] => Some a | e :: r => match astep a e with Some a' => arun a' r | None => None end end.

(* accepted: every event is allowed, and at the end every started call has returned *)
Definition accepts (es : list event) : bool :=
  match arun (mkast [] 0 0 [] [] []) es with
  | Some a => started a =? returned a
  | None => false
  end.

(* ---------- the model's own runs, seen through the same observation points ----------
   pre-filter = just before doInvoke's first instruction (LCount / LQueueFull / LFilterErr), post-filter = after the deferred cleanup (LClean, or
   LQueueFull which has none), return = LPost with the counters as they are then, peer receive = the sender's write,
   peer send = LPeerPkt *)
Definition events_of (s : state) (l : label) (s' : state) : list event :=
  match l with
  | Start _ _ _ => [EStart (length (calls s))]
  | LCount i => [EPre i (id_of i)]
  | LQueueFull i | LFilterErr i => [EPre i (id_of i); EPost i]
  | LClean i => [EPost i]
  | LPost i => match nth_error (calls s') i with
               | Some k => [ERet i (cls_of (k_out k)) (match k_out k with Some (Reply p) => p | _ => 0 end)
                              (Z.to_N (queueLen s' (k_px k))) (Z.to_N (invokeNum s')) (N.of_nat (length (resp s')))]
               | None => [] end
  | LSendTake => match sendq s with i :: _ => [EPeerRecv (id_of i)] | [] => [] end
  | LPeerPkt id pay => [EPeerSend id pay]
  | _ => []
  end.
Fixpoint project (c : cfg) (s : state) (ls : list label) : list event :=
  match ls with
  | [] => []
  | l :: r => match step c s l with Some s' => events_of s l s' ++ project c s' r | None => [] end
  end.
(* the canonical run of a script, projected, is accepted by the specification machine *)
Definition model_trace_ok (sc : scen) : bool :=
  let '(_, ls, _) := canonical sc in accepts (project (sc_cfg sc) init (rev ls)).

(* receivers that hold the channel of a caller who is not (yet, or no longer) waiting, while time passes: the largest
   number seen at a clock tick of the canonical run (the harness samples the goroutines inside AdapterProxy.Recv) *)
Definition holders (s : state) : N :=
  N.of_nat (length (filter (fun x => match r_pc x with RFound j => negb (is_waiting s j) | _ => false end) (rcvs s))).
Fixpoint held_at_ticks (c : cfg) (s : state) (ls : list label) : N :=
  match ls with
  | [] => 0
  | l :: r => match step c s l with
              | Some s' => N.max (match l with Tick => holders s | _ => 0 end) (held_at_ticks c s' r)
              | None => 0 end
  end.
Definition model_held (sc : scen) : N :=
  let '(_, ls, _) := canonical sc in held_at_ticks (sc_cfg sc) init (rev ls).

(* ---------- a correspondence case ---------- *)
Record c09case := mkcase {
  cc_cfg : cfg; cc_conn : connmode; cc_acts : list act; cc_callers : nat; cc_calls : nat; cc_tmo : tmo; cc_gaps : list N;
  cc_oneway : bool; cc_proxies : nat; cc_cancel : option N; cc_reject : nat; cc_prime : bool; cc_predict : bool;
  cc_conns : option N (* connections the peer accepted, where the script makes that number definite (idle periods) *);
  cc_held : option N (* largest number of reply receivers seen blocked at once, when sampled *); cc_obs : list (ocls * N); cc_events : list event; cc_final : N * N * N }.

Definition c09_check (x : c09case) : bool :=
  let sc := mkscen (cc_cfg x) (cc_conn x) (cc_acts x) (cc_callers x) (cc_calls x) (cc_tmo x) (cc_gaps x) (cc_oneway x) (cc_proxies x) (cc_cancel x) (cc_reject x) (cc_prime x) in
  (if cc_predict x then predicted sc (cc_obs x) && model_trace_ok sc &&
                        match cc_held x with Some h => model_held sc <=? h | None => true end &&
                        match cc_conns x with Some n => (let '(s, _, _) := canonical sc in conns (tr s)) =? n | None => true end
   else true)
  && accepts (cc_events x)
  && (let '(q, n, p) := cc_final x in (q =? 0) && (n =? 0) && (p =? 0)).

Definition c09_mismatches (off : N) (cs : list c09case) : list N := failing_from c09_check off cs.
