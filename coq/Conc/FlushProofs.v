(* C20 — proofs about the model Conc/Flush.v *)
From Coq Require Import List NArith Bool Lia.
From TarsV Require Import Conc.Flush.
Import ListNotations.
Open Scope N_scope.

(* the code before the fix: the 6-step schedule that loses the entry logged just before the flush *)
Example unfixed_loses_entry :
  exists s, grun false 10 init
     [PollEmpty; LogCall (mkE 0 0 0); Enq 0; LogRet (mkE 0 0 0); FlushCall; Request; InnerSync; FlushRet true] = Some s
     /\ pre_call s = [mkE 0 0 0] /\ written s = [] /\ fl s = FReturned true.
Proof. eexists. vm_compute. repeat split. Qed.

(* the same schedule on the repaired code cannot acknowledge the flush before the drain *)
Example fixed_same_schedule :
  exists s, run 10 init
     [PollEmpty; LogCall (mkE 0 0 0); Enq 0; LogRet (mkE 0 0 0); FlushCall; Request; InnerSync; DrainTake (mkE 0 0 0); DrainDone; FlushRet true] = Some s
     /\ written s = [mkE 0 0 0] /\ fl s = FReturned true.
Proof. eexists. vm_compute. repeat split. Qed.

Example accepts_fixed_trace :
  accepts [ECall (mkE 0 0 0); ERet (mkE 0 0 0); EFlushCall; EWrite (mkE 0 0 0); EFlushRet true] = true.
Proof. vm_compute. reflexivity. Qed.
Example rejects_lossy_trace :
  accepts [ECall (mkE 0 0 0); ERet (mkE 0 0 0); EFlushCall; EFlushRet true] = false.
Proof. vm_compute. reflexivity. Qed.
