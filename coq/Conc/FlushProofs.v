(* C20 — proofs about the model Conc/Flush.v: invariants of the transition system over ALL label sequences
   (all schedules, any number of goroutines / entries / writers, any queue capacity). *)
From Coq Require Import List NArith Bool Lia ZifyBool ZifyN ZifyNat.
From TarsV Require Import Gen.Consts Conc.Flush.
Import ListNotations.
Open Scope N_scope.

(* ---------- small facts ---------- *)

Lemma entry_eqb_eq a b : entry_eqb a b = true <-> a = b.
Proof.
  unfold entry_eqb. destruct a as [g n w], b as [g' n' w']; cbn.
  rewrite !andb_true_iff, !N.eqb_eq. split.
  - intros [[-> ->] ->]. reflexivity.
  - intros E. inversion E. auto.
Qed.
Lemma entry_eqb_refl a : entry_eqb a a = true.
Proof. apply entry_eqb_eq. reflexivity. Qed.

Lemma upd_same {A} (f : N -> A) g v : upd f g v g = v.
Proof. unfold upd. now rewrite N.eqb_refl. Qed.
Lemma upd_other {A} (f : N -> A) g v x : x <> g -> upd f g v x = f x.
Proof. unfold upd. intros H. destruct (x =? g) eqn:E; [apply N.eqb_eq in E; contradiction | reflexivity]. Qed.

Definition prefix (a b : list entry) := exists c, b = a ++ c.
Lemma prefix_app a b c : prefix a b -> prefix a (b ++ c).
Proof. intros [d ->]. exists (d ++ c). now rewrite app_assoc. Qed.
Lemma prefix_refl a : prefix a a.
Proof. exists []. now rewrite app_nil_r. Qed.
Lemma prefix_trans a b c : prefix a b -> prefix b c -> prefix a c.
Proof. intros [d ->] [e ->]. exists (d ++ e). now rewrite app_assoc. Qed.
Lemma prefix_incl a b : prefix a b -> incl a b.
Proof. intros [c ->] x H. apply in_or_app. now left. Qed.
Lemma prefix_nil a : prefix [] a.
Proof. now exists a. Qed.

(* two prefixes of one list are comparable *)
Lemma prefix_comparable a b l : prefix a l -> prefix b l -> prefix a b \/ prefix b a.
Proof.
  revert b l. induction a as [|x a IH]; intros b l Ha Hb. { left. apply prefix_nil. }
  destruct b as [|y b]. { right. apply prefix_nil. }
  destruct Ha as [c ->]. destruct Hb as [d Hd]. cbn in Hd. inversion Hd; subst.
  destruct (IH b (a ++ c)) as [[e ->] | [e ->]].
  - now exists c.
  - now exists d.
  - left. now exists e.
  - right. now exists e.
Qed.

(* per-goroutine order of a list of entries: later entries of the same goroutine have larger numbers *)
Fixpoint ord (l : list entry) : Prop :=
  match l with
  | [] => True
  | e :: r => (forall e2, In e2 r -> eg e2 = eg e -> en e < en e2) /\ ord r
  end.

Lemma ord_snoc l e : ord (l ++ [e]) <-> ord l /\ (forall e1, In e1 l -> eg e1 = eg e -> en e1 < en e).
Proof.
  induction l as [|x l IH]; cbn.
  - split; [intros _; split; [exact I | intros ? []] | intros _; split; [intros ? [] | exact I]].
  - rewrite IH. split.
    + intros [H1 [H2 H3]]. split; [split; [|exact H2] |].
      * intros e2 Hin. apply H1. apply in_or_app. now left.
      * intros e1 [<- | Hin] Hg; [apply H1; [apply in_or_app; right; now left | congruence] | now apply H3].
    + intros [[H1 H2] H3]. split; [|split; [exact H2 |]].
      * intros e2 Hin Hg. apply in_app_or in Hin. destruct Hin as [Hin | [<- | []]]; [now apply H1 | apply H3; [now left | congruence]].
      * intros e1 Hin. apply H3. now right.
Qed.

Lemma ord_app_l a b : ord (a ++ b) -> ord a.
Proof.
  induction a as [|x a IH]; cbn; [trivial|]. intros [H1 H2]. split; [|now apply IH].
  intros e2 Hin. apply H1. apply in_or_app. now left.
Qed.
Lemma ord_app_r a b : ord (a ++ b) -> ord b.
Proof. induction a as [|x a IH]; cbn; [trivial|]. intros [_ H]. now apply IH. Qed.

Lemma ord_NoDup l : ord l -> NoDup l.
Proof.
  induction l as [|x l IH]; cbn; [constructor|]. intros [H1 H2]. constructor; [|now apply IH].
  intros Hin. specialize (H1 x Hin eq_refl). lia.
Qed.

(* the expanded reading of [ord] *)
Lemma ord_split l : ord l -> forall a e1 b e2 c, l = a ++ e1 :: b ++ e2 :: c -> eg e1 = eg e2 -> en e1 < en e2.
Proof.
  intros H a e1 b e2 c ->. apply ord_app_r in H. cbn in H. destruct H as [H _].
  intros Hg. apply H; [apply in_or_app; right; now left | congruence].
Qed.

(* ---------- the invariant ---------- *)

Definition sent (s : st) (g : N) : N := match lp s g with LSending _ => cnt s g - 1 | _ => cnt s g end.

Record Inv (s : st) : Prop := mkInv {
  i_hist : hist s = written s ++ heldp (fp s) ++ q s;
  i_req_pre : req s = true -> prefix (pre_req s) (hist s);
  i_done : fp s = Done -> prefix (pre_req s) (written s);
  i_drain_req : fp s = Drain \/ fp s = Done \/ (exists e, fp s = HoldD e) -> req s = true;
  i_fl_req : forall c, fl s c <> FNone -> fl s c <> FCalled -> req s = true;
  i_ret_done : forall c, fl s c = FReturned true -> fp s = Done;
  i_retd : incl (retd s) (hist s);
  i_lt : forall e, In e (hist s) -> en e < sent s (eg e);
  i_sending : forall g e, lp s g = LSending e -> eg e = g /\ en e + 1 = cnt s g;
  i_sent : forall g e, lp s g = LSent e -> eg e = g /\ In e (hist s);
  i_ord : ord (hist s)
}.

Lemma Inv_init : Inv init.
Proof.
  constructor; cbn; intros; try discriminate; try contradiction; try reflexivity; try (intros ? []); try exact I.
  destruct H as [H | [H | [e H]]]; discriminate.
Qed.

Lemma take_inv s e p nx s' :
  Inv s -> take s e p nx = Some s' -> (nx = HoldT e \/ (nx = HoldD e /\ p = Drain)) -> Inv s'.
Proof.
  intros I Hs Hnx. unfold take in Hs.
  destruct (q s) as [|e' r] eqn:Q. { destruct (fp s); discriminate. }
  destruct (_ && _) eqn:C in Hs; [|discriminate]. inversion Hs; subst s'; clear Hs.
  apply andb_true_iff in C. destruct C as [Cp Ce]. apply entry_eqb_eq in Ce. subst e'.
  destruct I as [H1 H2 H3 H4 H5 H6 H7 H10 H11 H12 H13]. rewrite Q in H1.
  assert (HP : heldp (fp s) = []) by (destruct (fp s), p; try discriminate; reflexivity). rewrite HP in H1. cbn in H1.
  assert (HN : heldp nx = [e]) by (destruct Hnx as [-> | [-> _]]; reflexivity).
  constructor; cbn; auto.
  - rewrite HN. exact H1.
  - destruct Hnx as [-> | [-> _]]; discriminate.
  - intros [E | [E | [x E]]]; try (destruct Hnx as [-> | [-> _]]; discriminate).
    destruct Hnx as [-> | [_ ->]]; [discriminate|]. apply H4. left. destruct (fp s); try discriminate. reflexivity.
  - intros c F. specialize (H6 c F). rewrite H6 in Cp. destruct p; discriminate.
Qed.

Lemma write_inv cap s e s' : Inv s -> step cap s (Write e) = Some s' -> Inv s'.
Proof.
  intros I Hs. unfold step, gstep in Hs.
  destruct I as [H1 H2 H3 H4 H5 H6 H7 H10 H11 H12 H13].
  destruct (fp s) as [| | | |e'|e'] eqn:P; try discriminate; (destruct (entry_eqb e e') eqn:C; [|discriminate]);
    apply entry_eqb_eq in C; subst e'; inversion Hs; subst s'; clear Hs; cbn in H1; constructor; cbn; auto; try discriminate.
  all: try (rewrite H1, <- app_assoc; reflexivity).
  all: try (intros [X | [X | [x X]]]; discriminate).
  all: try (intros c X; specialize (H6 c X); discriminate).
  intros _. apply H4. right. right. now exists e.
Qed.

Lemma sent_upd_other s g x lp' cnt' :
  x <> g -> lp' x = lp s x -> cnt' x = cnt s x ->
  (match lp' x with LSending _ => cnt' x - 1 | _ => cnt' x end) = sent s x.
Proof. intros _ -> ->. reflexivity. Qed.

Lemma inv_logcall cap s e s' : Inv s -> step cap s (LogCall e) = Some s' -> Inv s'.
Proof.
  intros I Hs. unfold step, gstep in Hs.
    destruct (lp s (eg e)) eqn:L; try discriminate. destruct (en e =? cnt s (eg e)) eqn:C; [|discriminate].
    apply N.eqb_eq in C. inversion Hs; subst s'; clear Hs.
    destruct I as [H1 H2 H3 H4 H5 H6 H7 H10 H11 H12 H13]. constructor; cbn; auto.
    + intros x Hin. specialize (H10 x Hin). unfold sent in *. cbn. unfold upd.
      destruct (eg x =? eg e) eqn:E; [|exact H10]. apply N.eqb_eq in E. rewrite E, L in H10. rewrite ?E. lia.
    + intros g x. unfold upd. destruct (g =? eg e) eqn:E.
      * apply N.eqb_eq in E. intros X. inversion X; subst. split; [reflexivity | lia].
      * apply H11.
    + intros g x. unfold upd. destruct (g =? eg e) eqn:E; [discriminate | apply H12].
Qed.

(* an accepted levelled call is, from the accept on, a call without a level: the level is never consulted again *)
Lemma logcallat_is_logcall cap s e l s' : step cap s (LogCallAt e l) = Some s' -> lvl s <= l /\ step cap s (LogCall e) = Some s'.
Proof.
  unfold step, gstep. destruct (lvl s <=? l) eqn:G; [|discriminate]. apply N.leb_le in G. intros H. split; [exact G | exact H].
Qed.
Lemma logfiltered_nop cap s g l s' : step cap s (LogFiltered g l) = Some s' -> l < lvl s /\ lp s g = LIdle /\ s' = s.
Proof.
  unfold step, gstep. destruct (lp s g) eqn:L; try discriminate. destruct (l <? lvl s) eqn:G; [|discriminate]. apply N.ltb_lt in G.
  intros H. inversion H. subst. auto.
Qed.

Lemma Inv_step cap s l s' : Inv s -> step cap s l = Some s' -> Inv s'.
Proof.
  intros I Hs. destruct l; try (eapply inv_logcall; eassumption); unfold step, gstep in Hs.
  - (* Enq *)
    destruct (lp s g) eqn:L; try discriminate. destruct (N.of_nat (length (q s)) <? cap); [|discriminate].
    inversion Hs; subst s'; clear Hs.
    destruct I as [H1 H2 H3 H4 H5 H6 H7 H10 H11 H12 H13]. destruct (H11 _ _ L) as [Eg En].
    constructor; cbn; auto.
    + rewrite H1, <- !app_assoc. reflexivity.
    + intros R. apply prefix_app. auto.
    + intros x Hin. apply in_or_app. left. now apply H7.
    + intros x Hin. unfold sent in *. cbn. unfold upd. apply in_app_or in Hin. destruct Hin as [Hin | [<- | []]].
      * specialize (H10 x Hin). destruct (eg x =? g) eqn:E; [|exact H10]. apply N.eqb_eq in E. rewrite E, L in H10. rewrite E. lia.
      * rewrite Eg, N.eqb_refl. lia.
    + intros g' x. unfold upd. destruct (g' =? g) eqn:E; [discriminate | apply H11].
    + intros g' x. unfold upd. destruct (g' =? g) eqn:E.
      * apply N.eqb_eq in E. intros X. inversion X; subst. split; [reflexivity | apply in_or_app; right; now left].
      * intros X. destruct (H12 _ _ X). split; [assumption | apply in_or_app; now left].
    + apply ord_snoc. split; [assumption|]. intros e1 Hin Hg. specialize (H10 e1 Hin). unfold sent in H10.
      rewrite Hg, Eg, L in H10. lia.
  - (* LogRet *)
    destruct (lp s (eg e)) as [| |e'] eqn:L; try discriminate. destruct (entry_eqb e e') eqn:C; [|discriminate].
    apply entry_eqb_eq in C. subst e'. inversion Hs; subst s'; clear Hs.
    destruct I as [H1 H2 H3 H4 H5 H6 H7 H10 H11 H12 H13]. constructor; cbn; auto.
    + intros x [<- | Hin]; [apply (H12 _ _ L) | now apply H7].
    + intros x Hin. specialize (H10 x Hin). unfold sent in *. cbn. unfold upd.
      destruct (eg x =? eg e) eqn:E; [|exact H10]. apply N.eqb_eq in E. rewrite E, L in H10. rewrite E. exact H10.
    + intros g x. unfold upd. destruct (g =? eg e) eqn:E; [discriminate | apply H11].
    + intros g x. unfold upd. destruct (g =? eg e) eqn:E; [discriminate | apply H12].
  - (* SetLevel *)
    inversion Hs; subst s'; clear Hs. destruct I as [H1 H2 H3 H4 H5 H6 H7 H10 H11 H12 H13]. constructor; cbn; auto.
  - (* LogCallAt *)
    apply (inv_logcall cap s e s' I). apply (logcallat_is_logcall cap s e l s' Hs).
  - (* LogFiltered *)
    destruct (logfiltered_nop cap s g l s' Hs) as (_ & _ & ->). exact I.
  - (* FlushCall *)
    destruct I as [H1 H2 H3 H4 H5 H6 H7 H10 H11 H12 H13].
    destruct (fl s c) eqn:F; try discriminate; inversion Hs; subst s'; clear Hs; constructor; cbn; auto.
    all: intros c'; unfold upd; destruct (c' =? c) eqn:E; try (intros; congruence); first [apply H5 | apply H6].
  - (* Request *)
    destruct I as [H1 H2 H3 H4 H5 H6 H7 H10 H11 H12 H13].
    destruct (fl s c) eqn:F; try discriminate; inversion Hs; subst s'; clear Hs. constructor; cbn; auto.
    + intros _. destruct (req s) eqn:R; [auto | apply prefix_refl].
    + intros D. destruct (req s) eqn:R; [auto|]. exfalso. assert (X : false = true) by (apply H4; right; now left). discriminate.
    + intros c'. unfold upd. destruct (c' =? c); [discriminate | apply H6].
  - (* FlushRet *)
    destruct I as [H1 H2 H3 H4 H5 H6 H7 H10 H11 H12 H13].
    destruct (fl s c) eqn:F; try discriminate; (destruct (negb done || _) eqn:C in Hs; [|discriminate]);
      inversion Hs; subst s'; clear Hs; constructor; cbn; auto.
    + intros c'. unfold upd. destruct (c' =? c) eqn:E; [|apply H5]. intros _ _. apply (H5 c); rewrite F; discriminate.
    + intros c'. unfold upd. destruct (c' =? c) eqn:E; [|apply H6]. intros X. inversion X; subst done. cbn in C.
      destruct (fp s); try discriminate. reflexivity.
  - (* PollTake *) eapply take_inv; eauto.
  - (* PollEmpty *)
    destruct (fp s) eqn:P; try discriminate. destruct (q s) eqn:Q; try discriminate. inversion Hs; subst s'; clear Hs.
    destruct I as [H1 H2 H3 H4 H5 H6 H7 H10 H11 H12 H13]. constructor; cbn; auto; try discriminate.
    + rewrite H1, P, Q. reflexivity.
    + intros [X | [X | [x X]]]; discriminate.
    + intros c X. specialize (H6 c X). congruence.
  - (* InnerTake *) eapply take_inv; eauto.
  - (* InnerSync *)
    destruct (fp s) eqn:P; try discriminate. destruct (req s) eqn:R; [|discriminate]. inversion Hs; subst s'; clear Hs.
    destruct I as [H1 H2 H3 H4 H5 H6 H7 H10 H11 H12 H13]. constructor; cbn; auto; try discriminate.
    + rewrite H1, P. reflexivity.
    + intros c X. specialize (H6 c X). congruence.
  - (* DrainTake *) eapply take_inv; eauto.
  - (* DrainDone *)
    destruct (fp s) eqn:P; try discriminate. destruct (q s) eqn:Q; try discriminate. inversion Hs; subst s'; clear Hs.
    destruct I as [H1 H2 H3 H4 H5 H6 H7 H10 H11 H12 H13]. rewrite P, Q in H1. cbn in H1. constructor; cbn; auto.
    + intros _. rewrite app_nil_r in H1. rewrite <- H1. apply H2. apply H4. now left.
  - (* Write *) apply (write_inv cap s e s' I). exact Hs.
Qed.

(* ---------- runs ---------- *)

Lemma run_app cap a : forall s b,
  run cap s (a ++ b) = match run cap s a with Some m => run cap m b | None => None end.
Proof.
  induction a as [|l a IH]; intros s b; [reflexivity|]. unfold run in *. cbn.
  destruct (gstep true cap s l); [apply IH | reflexivity].
Qed.

Lemma run_inv cap ls : forall s s', Inv s -> run cap s ls = Some s' -> Inv s'.
Proof.
  induction ls as [|l ls IH]; intros s s' HI Hr; unfold run in *; cbn in Hr. { now inversion Hr; subst. }
  destruct (gstep true cap s l) eqn:E; [|discriminate]. eapply IH; [eapply Inv_step; eauto | eauto].
Qed.

Lemma reach_inv cap ls s : run cap init ls = Some s -> Inv s.
Proof. apply run_inv. apply Inv_init. Qed.

Ltac crush_step Hs :=
  unfold step, gstep, take in Hs;
  repeat match type of Hs with
  | context [match ?x with _ => _ end] => destruct x eqn:?; try discriminate
  | context [if ?x then _ else _] => destruct x eqn:?; try discriminate
  end;
  inversion Hs; subst; clear Hs; cbn.

Ltac eqb_subst :=
  repeat match goal with
  | H : _ && _ = true |- _ => apply andb_true_iff in H; destruct H
  | H : entry_eqb _ _ = true |- _ => apply entry_eqb_eq in H; subst
  end.

(* the ghost histories are the projections of the label sequence *)
Lemma step_ghost cap s l s' : step cap s l = Some s' ->
  written s' = written s ++ writes_of [l] /\ retd s' = rets_of [l] ++ retd s /\ prefix (hist s) (hist s').
Proof.
  intros Hs. destruct l; crush_step Hs; eqb_subst; rewrite ?app_nil_r; repeat split;
    try apply prefix_refl; try (apply prefix_app; apply prefix_refl).
Qed.

Lemma run_ghost cap ls : forall s s', run cap s ls = Some s' ->
  written s' = written s ++ writes_of ls /\ retd s' = rev (rets_of ls) ++ retd s /\ prefix (hist s) (hist s').
Proof.
  induction ls as [|l ls IH]; intros s s' Hr; unfold run in *; cbn in Hr.
  - inversion Hr; subst. cbn. rewrite app_nil_r. repeat split. apply prefix_refl.
  - destruct (gstep true cap s l) as [m|] eqn:E; [|discriminate].
    destruct (step_ghost _ _ _ _ E) as (W & R & P). destruct (IH _ _ Hr) as (W' & R' & P').
    repeat split.
    + rewrite W', W. cbn [writes_of] in *. rewrite <- app_assoc. f_equal.
      destruct l; cbn; reflexivity.
    + rewrite R', R. destruct l; cbn; rewrite <- ?app_assoc; reflexivity.
    + eapply prefix_trans; eauto.
Qed.

(* before the first FlushLogger caller signals, nothing is requested; the first signal fixes what the flusher owes *)
Definition is_request (l : label) : bool := match l with Request _ => true | _ => false end.
Lemma step_no_request cap s l s' : step cap s l = Some s' -> is_request l = false -> req s' = req s /\ pre_req s' = pre_req s.
Proof. intros Hs N. destruct l; try discriminate; crush_step Hs; auto. Qed.
Lemma run_no_request cap ls : forall s s', run cap s ls = Some s' -> existsb is_request ls = false -> req s' = req s.
Proof.
  induction ls as [|l ls IH]; intros s s' Hr N; unfold run in *; cbn in Hr. { inversion Hr; subst. auto. }
  destruct (gstep true cap s l) as [m|] eqn:E; [|discriminate]. cbn in N. apply orb_false_iff in N. destruct N as [N1 N2].
  rewrite (IH _ _ Hr N2). apply (step_no_request _ _ _ _ E N1).
Qed.
Lemma step_first_request cap s l s' : step cap s l = Some s' -> req s = false -> req s' = true -> pre_req s' = hist s.
Proof. intros Hs R R'. destruct l; unfold step, gstep, take in Hs; rewrite ?R in Hs; crush_step Hs; cbn in *; try congruence; reflexivity. Qed.
Lemma step_pre_req cap s l s' : step cap s l = Some s' -> req s = true -> req s' = true /\ pre_req s' = pre_req s.
Proof. intros Hs R. destruct l; unfold step, gstep, take in Hs; rewrite ?R in Hs; crush_step Hs; cbn in *; auto. Qed.
(* whatever was enqueued while nothing was requested is part of what the first request fixes *)
Lemma run_first_request cap ls : forall s s', run cap s ls = Some s' -> req s = false -> req s' = true -> prefix (hist s) (pre_req s').
Proof.
  induction ls as [|l ls IH]; intros s s' Hr R R'; unfold run in *; cbn in Hr. { inversion Hr; subst. congruence. }
  destruct (gstep true cap s l) as [m|] eqn:E; [|discriminate]. fold (step cap s l) in E.
  destruct (step_ghost _ _ _ _ E) as (_ & _ & P).
  destruct (req m) eqn:Rm.
  - pose proof (step_first_request _ _ _ _ E R Rm) as X.
    assert (Y : pre_req s' = pre_req m).
    { clear -Hr Rm. revert m Rm Hr. induction ls as [|l ls IH]; intros m Rm Hr; cbn in Hr. { inversion Hr; subst; auto. }
      destruct (gstep true cap m l) as [m'|] eqn:E; [|discriminate]. fold (step cap m l) in E.
      destruct (step_pre_req _ _ _ _ E Rm) as [A B]. rewrite (IH _ A Hr). exact B. }
    rewrite Y, X. apply prefix_refl.
  - eapply prefix_trans; [exact P | apply (IH _ _ Hr Rm R')].
Qed.

(* once the flusher has acknowledged the flush it writes nothing more *)
Lemma step_done cap s l s' : step cap s l = Some s' -> fp s = Done -> fp s' = Done /\ writes_of [l] = [].
Proof. intros Hs F. destruct l; unfold step, gstep, take in Hs; rewrite ?F in Hs; crush_step Hs; split; auto; try congruence; try discriminate. Qed.
Lemma run_done cap ls : forall s s', run cap s ls = Some s' -> fp s = Done -> fp s' = Done /\ writes_of ls = [].
Proof.
  induction ls as [|l ls IH]; intros s s' Hr F; unfold run in *; cbn in Hr. { inversion Hr; subst. auto. }
  destruct (gstep true cap s l) as [m|] eqn:E; [|discriminate].
  destruct (step_done _ _ _ _ E F) as [P W]. destruct (IH _ _ Hr P) as [P' W']. split; [assumption|].
  destruct l; cbn in *; try assumption; discriminate.
Qed.

(* case analyses on labels can ignore LogCallAt: an accepted levelled call steps exactly like LogCall *)
Lemma normalize_label cap s l s' : step cap s l = Some s' ->
  exists l', step cap s l' = Some s' /\ calls_of [l'] = calls_of [l] /\ writes_of [l'] = writes_of [l] /\ rets_of [l'] = rets_of [l] /\
             vis l' = vis l /\ (forall e n, l' <> LogCallAt e n).
Proof.
  intros Hs. destruct l; try (eexists; split; [exact Hs | repeat split; discriminate]).
  exists (LogCall e). split; [apply (logcallat_is_logcall _ _ _ _ _ Hs) | repeat split; discriminate].
Qed.

(* every entry in the system was submitted by a logging call *)
Definition submitted (s : st) (C : list entry) : Prop :=
  (forall e, In e (hist s) -> In e C) /\ (forall g e, lp s g = LSending e \/ lp s g = LSent e -> In e C).
Lemma step_submitted cap s l s' C : step cap s l = Some s' -> submitted s C -> submitted s' (C ++ calls_of [l]).
Proof.
  intros Hs0 [H1 H2]. destruct (normalize_label _ _ _ _ Hs0) as (l' & Hs & <- & _ & _ & _ & NL). clear Hs0.
  destruct l' as [| | | |e9 n9| | | | | | | | | | |]; try (exfalso; eapply NL; reflexivity);
    crush_step Hs; eqb_subst; rewrite ?app_nil_r; split; auto; cbn.
  - intros x Hin. apply in_or_app. left. auto.
  - intros g x. unfold upd. destruct (g =? eg e) eqn:E.
    + intros [X | X]; inversion X; subst. apply in_or_app. right. now left.
    + intros X. apply in_or_app. left. eauto.
  - intros x Hin. apply in_app_or in Hin. destruct Hin as [Hin | [<- | []]]; eauto.
  - intros g' x. unfold upd. destruct (g' =? g) eqn:E; [|eauto].
    intros [X | X]; inversion X; subst. eauto.
  - intros g x. unfold upd. destruct (g =? eg e0) eqn:E; [intros [X | X]; discriminate | eauto].
Qed.
Lemma run_submitted cap ls : forall s s' C, run cap s ls = Some s' -> submitted s C -> submitted s' (C ++ calls_of ls).
Proof.
  induction ls as [|l ls IH]; intros s s' C Hr S; unfold run in *; cbn in Hr. { inversion Hr; subst. cbn. now rewrite app_nil_r. }
  destruct (gstep true cap s l) as [m|] eqn:E; [|discriminate].
  pose proof (IH _ _ _ Hr (step_submitted _ _ _ _ _ E S)) as X. rewrite <- app_assoc in X.
  replace (calls_of (l :: ls)) with (calls_of [l] ++ calls_of ls); [exact X|]. destruct l; reflexivity.
Qed.

Lemma run_cons cap s l r : run cap s (l :: r) = match step cap s l with Some s' => run cap s' r | None => None end.
Proof. reflexivity. Qed.

Lemma run_split cap a : forall s l b s', run cap s (a ++ l :: b) = Some s' ->
  exists m m', run cap s a = Some m /\ step cap m l = Some m' /\ run cap m' b = Some s'.
Proof.
  intros s l b s' H. rewrite run_app in H. destruct (run cap s a) as [m|] eqn:A; [|discriminate].
  rewrite run_cons in H. destruct (step cap m l) as [m'|] eqn:S; [|discriminate].
  exists m, m'. auto.
Qed.

Lemma run_snoc cap a s l m m' : run cap s a = Some m -> step cap m l = Some m' -> run cap s (a ++ [l]) = Some m'.
Proof. intros A S. rewrite run_app, A, run_cons, S. reflexivity. Qed.

Lemma run_init_ghost cap ls s : run cap init ls = Some s ->
  written s = writes_of ls /\ retd s = rev (rets_of ls).
Proof. intros H. destruct (run_ghost _ _ _ _ H) as (W & R & _). cbn in W, R. rewrite app_nil_r in R. auto. Qed.

(* ---------- the property ---------- *)

(* Completeness. A FlushLogger call (of any caller c) is made after [l1], before any caller has signalled; a call (of any
   caller c') returns, woken by the flusher's acknowledgement, after [l2]. Every entry whose logging call returned during
   [l1] has been handed to its writer by then. Callers may be concurrent. *)
Theorem flush_complete cap l1 c l2 c' l3 s :
  run cap init (l1 ++ FlushCall c :: l2 ++ FlushRet c' true :: l3) = Some s -> existsb is_request l1 = false ->
  forall e, In e (rets_of l1) -> In e (writes_of (l1 ++ FlushCall c :: l2)).
Proof.
  intros H NF e He.
  destruct (run_split _ _ _ _ _ _ H) as (s1 & s1' & R1 & S1 & H').
  destruct (run_split _ _ _ _ _ _ H') as (s2 & s3 & R2 & S2 & _).
  assert (R12 : run cap init (l1 ++ FlushCall c :: l2) = Some s2).
  { rewrite run_app, R1, run_cons, S1. exact R2. }
  destruct (run_init_ghost _ _ _ R1) as [_ Rd]. destruct (run_init_ghost _ _ _ R12) as [Wr _].
  assert (R0 : req s1 = false) by (rewrite (run_no_request _ _ _ _ R1 NF); reflexivity).
  assert (X : fl s2 c' = FRequested /\ fp s2 = Done).
  { unfold step, gstep in S2. destruct (fl s2 c'); try discriminate; cbn in S2; destruct (fp s2); try discriminate; auto. }
  destruct X as [F2 D2]. pose proof (reach_inv _ _ _ R12) as I. pose proof (reach_inv _ _ _ R1) as I1.
  assert (Rq : req s2 = true) by (apply (i_fl_req _ I c'); rewrite F2; discriminate).
  assert (R1' : run cap s1 (FlushCall c :: l2) = Some s2) by (rewrite run_cons, S1; exact R2).
  rewrite <- Wr. apply (prefix_incl _ _ (i_done _ I D2)). apply (prefix_incl _ _ (run_first_request _ _ _ _ R1' R0 Rq)).
  apply (i_retd _ I1). rewrite Rd. apply in_rev in He. exact He.
Qed.

(* the general fact behind it: whatever was enqueued before the flusher's acknowledging step has been written *)
Theorem all_before_ack_written cap l1 l2 s :
  run cap init (l1 ++ DrainDone :: l2) = Some s -> forall e, In e (rets_of l1) -> In e (writes_of l1).
Proof.
  intros H e He. destruct (run_split _ _ _ _ _ _ H) as (s1 & s1' & R1 & S1 & _).
  pose proof (reach_inv _ _ _ R1) as I. destruct (run_init_ghost _ _ _ R1) as [Wr Rd].
  assert (X : heldp (fp s1) = [] /\ q s1 = []).
  { unfold step, gstep in S1. destruct (fp s1); try discriminate. destruct (q s1); try discriminate. auto. }
  destruct X as [Hh Hq]. pose proof (i_hist _ I) as Hi. rewrite Hh, Hq, app_nil_r in Hi. cbn in Hi.
  rewrite <- Wr, <- Hi. apply (i_retd _ I). rewrite Rd. apply in_rev in He. exact He.
Qed.

(* ... and the flusher writes nothing after its acknowledgement *)
Theorem no_write_after_ack cap l1 c l3 s :
  run cap init (l1 ++ FlushRet c true :: l3) = Some s -> writes_of l3 = [].
Proof.
  intros H. destruct (run_split _ _ _ _ _ _ H) as (s2 & s3 & R2 & S2 & R3).
  assert (D : fp s3 = Done).
  { unfold step, gstep in S2. destruct (fl s2 c); try discriminate; cbn in S2; destruct (fp s2) eqn:P; try discriminate;
    inversion S2; subst; cbn; reflexivity. }
  apply (run_done _ _ _ _ R3 D).
Qed.

(* Exactly once, in per-goroutine order: the sequence of Writes has no duplicates and, within one goroutine,
   ascending sequence numbers. One *Take label is one Write of one whole entry. *)
Theorem writes_ordered cap ls s : run cap init ls = Some s -> ord (writes_of ls).
Proof.
  intros H. pose proof (reach_inv _ _ _ H) as I. destruct (run_init_ghost _ _ _ H) as [W _]. rewrite <- W.
  pose proof (i_ord _ I) as O. rewrite (i_hist _ I) in O. eapply ord_app_l; eauto.
Qed.
Theorem writes_once cap ls s : run cap init ls = Some s -> NoDup (writes_of ls).
Proof. intros H. apply ord_NoDup. eapply writes_ordered; eauto. Qed.
Theorem writes_per_goroutine_order cap ls s : run cap init ls = Some s ->
  forall a e1 b e2 c, writes_of ls = a ++ e1 :: b ++ e2 :: c -> eg e1 = eg e2 -> en e1 < en e2.
Proof. intros H. apply ord_split. eapply writes_ordered; eauto. Qed.

(* nothing is lost on the way: what was enqueued is written, held by the flusher for its Write, or still queued, in order *)
Theorem conservation cap ls s : run cap init ls = Some s -> hist s = writes_of ls ++ held s ++ q s.
Proof. intros H. destruct (run_init_ghost _ _ _ H) as [<- _]. apply (i_hist _ (reach_inv _ _ _ H)). Qed.

Lemma writes_of_app a b : writes_of (a ++ b) = writes_of a ++ writes_of b.
Proof. induction a as [|x a IH]; cbn; [reflexivity|]. destruct x; cbn; rewrite IH; reflexivity. Qed.
Lemma calls_of_app a b : calls_of (a ++ b) = calls_of a ++ calls_of b.
Proof. induction a as [|x a IH]; cbn; [reflexivity|]. destruct x; cbn; rewrite IH; reflexivity. Qed.
Lemma rets_of_app a b : rets_of (a ++ b) = rets_of a ++ rets_of b.
Proof. induction a as [|x a IH]; cbn; [reflexivity|]. destruct x; cbn; rewrite IH; reflexivity. Qed.

(* a Write hands over an entry that a logging call submitted before, addressed to that writer *)
Theorem write_was_logged cap a l b s e :
  run cap init (a ++ l :: b) = Some s -> writes_of [l] = [e] -> In e (calls_of a).
Proof.
  intros H Wl. destruct (run_split _ _ _ _ _ _ H) as (m & m' & R1 & S & _).
  pose proof (run_snoc _ _ _ _ _ _ R1 S) as R.
  assert (Sub : submitted m' (calls_of (a ++ [l]))).
  { apply (run_submitted _ _ _ _ [] R). split; cbn; [intros ? [] | intros ? ? [X | X]; discriminate]. }
  destruct (run_init_ghost _ _ _ R) as [W _]. pose proof (reach_inv _ _ _ R) as I.
  assert (Hin : In e (hist m')).
  { rewrite (i_hist _ I), W, writes_of_app, Wl. apply in_or_app. left. apply in_or_app. right. now left. }
  apply (proj1 Sub) in Hin. rewrite calls_of_app in Hin. apply in_app_or in Hin. destruct Hin as [Hin | Hin]; [exact Hin|].
  destruct l; cbn in *; try discriminate; contradiction.
Qed.

(* FIFO across goroutines: if the call of e1 returned before the call of e2 began, e2 is not written before e1 *)
Lemma prefix_snoc_inv a x (e : entry) : prefix a (x ++ [e]) -> prefix a x \/ a = x ++ [e].
Proof.
  intros [c Hc]. destruct c as [|y c] using rev_ind.
  - right. rewrite app_nil_r in Hc. auto.
  - left. rewrite app_assoc in Hc. apply app_inj_tail in Hc. destruct Hc as [-> _]. now exists c.
Qed.

Theorem fifo_real_time cap a e1 b e2 c s x y :
  run cap init (a ++ LogRet e1 :: b ++ LogCall e2 :: c) = Some s ->
  writes_of (a ++ LogRet e1 :: b ++ LogCall e2 :: c) = x ++ e2 :: y -> In e1 x.
Proof.
  intros H W.
  destruct (run_split _ _ _ _ _ _ H) as (m0 & m1 & R0 & S1 & H').
  destruct (run_split _ _ _ _ _ _ H') as (m2 & m3 & R2 & S2 & R3).
  pose proof (run_snoc _ _ _ _ _ _ R0 S1) as R01.
  pose proof (reach_inv _ _ _ R01) as I1.
  assert (R012 : run cap init ((a ++ [LogRet e1]) ++ b) = Some m2) by (rewrite run_app, R01; exact R2).
  pose proof (reach_inv _ _ _ R012) as I2. pose proof (reach_inv _ _ _ H) as I.
  (* e1 is in the queue history when its call returns *)
  assert (E1 : In e1 (hist m1)).
  { apply (i_retd _ I1). unfold step, gstep in S1. destruct (lp m0 (eg e1)) eqn:L; try discriminate.
    destruct (entry_eqb e1 e) eqn:C; [|discriminate]. apply entry_eqb_eq in C; subst. inversion S1; subst; cbn. now left. }
  destruct (run_ghost _ _ _ _ R2) as (_ & _ & P12).
  (* e2 is not yet in it when its call begins *)
  assert (E2 : ~ In e2 (hist m2)).
  { intros Hin. pose proof (i_lt _ I2 _ Hin) as L. unfold sent in L. unfold step, gstep in S2.
    destruct (lp m2 (eg e2)); try discriminate. destruct (en e2 =? cnt m2 (eg e2)) eqn:C; [|discriminate].
    apply N.eqb_eq in C. lia. }
  assert (P2 : prefix (hist m2) (hist s)).
  { destruct (step_ghost _ _ _ _ S2) as (_ & _ & Pa). destruct (run_ghost _ _ _ _ R3) as (_ & _ & Pb). eapply prefix_trans; eauto. }
  assert (Px : prefix (x ++ [e2]) (hist s)).
  { rewrite (conservation _ _ _ H), W. exists (y ++ held s ++ q s). rewrite <- !app_assoc. reflexivity. }
  destruct (prefix_comparable _ _ _ P2 Px) as [P | P].
  - apply prefix_snoc_inv in P. destruct P as [P | P].
    + apply (prefix_incl _ _ P). apply (prefix_incl _ _ P12). exact E1.
    + exfalso. apply E2. rewrite P. apply in_or_app. right. now left.
  - exfalso. apply E2. apply (prefix_incl _ _ P). apply in_or_app. right. now left.
Qed.

(* after the request the flusher is never blocked until it has acknowledged *)
Theorem flusher_not_blocked_after_request cap s :
  req s = true -> fp s <> Done -> exists l s', flusher_label l /\ step cap s l = Some s'.
Proof.
  intros R D. unfold step, gstep, take. destruct (fp s) as [| | | |h|h] eqn:P; [| | |contradiction| |].
  - destruct (q s) as [|e r] eqn:Q.
    + exists PollEmpty. eexists. split; [exact I | reflexivity].
    + exists (PollTake e). rewrite entry_eqb_refl. eexists. split; [exact I | reflexivity].
  - exists InnerSync. rewrite R. eexists. split; [exact I | reflexivity].
  - destruct (q s) as [|e r] eqn:Q.
    + exists DrainDone. eexists. split; [exact I | reflexivity].
    + exists (DrainTake e). rewrite entry_eqb_refl. eexists. split; [exact I | reflexivity].
  - exists (Write h). rewrite entry_eqb_refl. eexists. split; [exact I | reflexivity].
  - exists (Write h). rewrite entry_eqb_refl. eexists. split; [exact I | reflexivity].
Qed.

(* ---------- the specification machine accepts every visible trace of the model ---------- *)

Lemma lookupN_setN g k v m : lookupN g (setN k v m) = if g =? k then v else lookupN g m.
Proof.
  induction m as [|[k' v'] m IH]; cbn.
  - destruct (g =? k); reflexivity.
  - destruct (k =? k') eqn:E; cbn.
    + apply N.eqb_eq in E. subst k'. destruct (g =? k); reflexivity.
    + rewrite IH. destruct (g =? k') eqn:E'; [|reflexivity].
      apply N.eqb_eq in E'. subst k'. destruct (g =? k) eqn:E''; [|reflexivity].
      apply N.eqb_eq in E''. subst. rewrite N.eqb_refl in E. discriminate.
Qed.

Lemma lookupE_In x m c : lookupE x m = Some c -> In (x, c) m.
Proof.
  induction m as [|[e v] m IH]; cbn; [discriminate|]. destruct (entry_eqb x e) eqn:E.
  - apply entry_eqb_eq in E. subst. intros X. inversion X. now left.
  - intros X. right. auto.
Qed.
Lemma In_lookupE x c m : In (x, c) m -> lookupE x m <> None.
Proof.
  induction m as [|[e v] m IH]; cbn; [contradiction|]. intros [X | X].
  - inversion X; subst. rewrite entry_eqb_refl. discriminate.
  - destruct (entry_eqb x e); [discriminate | auto].
Qed.
Lemma lookupE_app x m e t :
  lookupE x (m ++ [(e, t)]) = match lookupE x m with Some c => Some c | None => if entry_eqb x e then Some t else None end.
Proof. induction m as [|[e' v] m IH]; cbn; [reflexivity|]. destruct (entry_eqb x e'); [reflexivity | exact IH]. Qed.
Lemma entry_eqb_sym a b : entry_eqb a b = entry_eqb b a.
Proof.
  destruct (entry_eqb a b) eqn:E.
  - apply entry_eqb_eq in E. subst. now rewrite entry_eqb_refl.
  - destruct (entry_eqb b a) eqn:E'; [|reflexivity]. apply entry_eqb_eq in E'. subst. rewrite entry_eqb_refl in E. discriminate.
Qed.
Lemma lookupE_removeE x e m : lookupE x (removeE e m) = if entry_eqb e x then None else lookupE x m.
Proof.
  unfold removeE. induction m as [|[e' v] m IH]; cbn.
  - destruct (entry_eqb e x); reflexivity.
  - destruct (entry_eqb e e') eqn:E; cbn.
    + rewrite IH. apply entry_eqb_eq in E. subst e'. rewrite (entry_eqb_sym x e). destruct (entry_eqb e x); reflexivity.
    + rewrite IH. destruct (entry_eqb x e') eqn:E'; [|reflexivity].
      apply entry_eqb_eq in E'. subst e'. rewrite E. reflexivity.
Qed.
Lemma In_removeE x r e m : In (x, r) (removeE e m) <-> In (x, r) m /\ x <> e.
Proof.
  unfold removeE. rewrite filter_In. cbn. split; intros [H1 H2]; split; auto.
  - intros ->. rewrite entry_eqb_refl in H2. discriminate.
  - destruct (entry_eqb e x) eqn:E; [|reflexivity]. apply entry_eqb_eq in E. congruence.
Qed.
Lemma mem_entry_true e l : mem_entry e l = true <-> In e l.
Proof.
  unfold mem_entry. rewrite existsb_exists. split.
  - intros [x [H1 H2]]. apply entry_eqb_eq in H2. now subst.
  - intros H. exists e. split; [assumption | apply entry_eqb_refl].
Qed.
Lemma busy_false g l : (forall x, In x l -> eg x <> g) -> busy g l = false.
Proof.
  intros H. unfold busy. destruct (existsb _ l) eqn:E; [|reflexivity].
  apply existsb_exists in E. destruct E as [x [H1 H2]]. apply N.eqb_eq in H2. exfalso. eapply H; eauto.
Qed.

Lemma NoDup_app_disjoint {A} (a b : list A) x : NoDup (a ++ b) -> In x a -> In x b -> False.
Proof.
  induction a as [|y a IH]; cbn; [contradiction|]. intros N [<- | Ha] Hb.
  - inversion N; subst. apply H1. apply in_or_app. now right.
  - inversion N; subst. eauto.
Qed.
Lemma NoDup_app_r {A} (a b : list A) : NoDup (a ++ b) -> NoDup b.
Proof. induction a as [|y a IH]; cbn; [trivial|]. intros N. inversion N; auto. Qed.

Lemma inflight_eg s g x : Inv s -> lp s g = LSending x \/ lp s g = LSent x -> eg x = g.
Proof. intros I [H | H]; [apply (i_sending _ I _ _ H) | apply (i_sent _ I _ _ H)]. Qed.
Lemma sending_not_hist s g e : Inv s -> lp s g = LSending e -> ~ In e (hist s).
Proof.
  intros I L Hin. pose proof (i_lt _ I _ Hin) as X. destruct (i_sending _ I _ _ L) as [Eg En].
  unfold sent in X. rewrite Eg, L in X. lia.
Qed.
Lemma hist_NoDup s : Inv s -> NoDup (hist s).
Proof. intros I. apply ord_NoDup. apply (i_ord _ I). Qed.

Lemma mem_N_true c l : mem_N c l = true <-> In c l.
Proof.
  unfold mem_N. rewrite existsb_exists. split.
  - intros [x [H1 H2]]. apply N.eqb_eq in H2. now subst.
  - intros H. exists c. split; [assumption | apply N.eqb_refl].
Qed.

(* FlushLogger callers: who has a call in progress; the first call of all is remembered; what returned before it is
   owed by the first request *)
Definition FlRel (s : st) (a : ast) : Prop :=
  (forall c, In c (f_in (a_fl a)) <-> (fl s c = FCalled \/ fl s c = FRequested)) /\
  (forall c, fl s c <> FNone -> f_first (a_fl a) <> None) /\
  (req s = true -> f_first (a_fl a) <> None) /\
  (forall f, f_first (a_fl a) = Some f ->
     f < a_t a /\ forall x r, In (x, r) (a_ret a) -> r <= f -> req s = true -> In x (pre_req s)).

Lemma FlRel_mono s a s' a' :
  FlRel s a -> fl s' = fl s -> req s' = req s -> pre_req s' = pre_req s -> a_fl a' = a_fl a -> a_t a <= a_t a' ->
  (forall x r, In (x, r) (a_ret a') -> In (x, r) (a_ret a) \/ a_t a <= r) -> FlRel s' a'.
Proof.
  intros (F1 & F2 & F3 & F4) Ef Er Ep Ea Et Sub. unfold FlRel. rewrite Ef, Er, Ep, Ea. repeat split; auto.
  - apply F1.
  - apply F1.
  - destruct (F4 _ H). lia.
  - intros x r Hin Hle R. destruct (F4 _ H) as [Hf Hp]. destruct (Sub _ _ Hin) as [Old | New]; [eauto | lia].
Qed.

Record Sim (s : st) (a : ast) : Prop := mkSim {
  r_fly : forall x, In x (a_fly a) <-> exists g, lp s g = LSending x \/ lp s g = LSent x;
  r_next : forall g, lookupN g (a_next a) = cnt s g;
  r_unw : forall x, lookupE x (a_unw a) <> None <-> (In x (pend s) \/ exists g, lp s g = LSending x);
  r_unw_t : forall x c, In (x, c) (a_unw a) -> c < a_t a;
  r_ret : forall x r, In (x, r) (a_ret a) -> In x (pend s) /\ In x (retd s) /\ r < a_t a;
  r_fifo : forall l1 e l2, pend s = l1 ++ e :: l2 -> forall e1 c r1, In e1 l2 ->
           lookupE e (a_unw a) = Some c -> In (e1, r1) (a_ret a) -> c < r1;
  r_fl : FlRel s a;
  r_done : a_done a = true -> fp s = Done
}.

Lemma Sim_init : Sim init ainit.
Proof.
  constructor; cbn; try (intros; contradiction); try reflexivity; try exact I; try discriminate.
  - intros x. split; [contradiction | intros [g [H | H]]; discriminate].
  - intros x. split; [intros H; now contradiction H | intros [[] | [g H]]; discriminate].
  - unfold FlRel; cbn. repeat split; try discriminate; try (intros; contradiction).
    all: try (intros [H | H]; discriminate). all: try (intros c H; now contradiction H).
Qed.

Lemma snoc_decomp {A} (q : list A) e l1 e0 l2 :
  q ++ [e] = l1 ++ e0 :: l2 -> (l2 = []) \/ exists l2', l2 = l2' ++ [e] /\ q = l1 ++ e0 :: l2'.
Proof.
  destruct l2 as [|y l2'] using rev_ind; [now left|]. intros H. right.
  replace (l1 ++ e0 :: l2' ++ [y]) with ((l1 ++ e0 :: l2') ++ [y]) in H by (rewrite <- app_assoc; reflexivity).
  apply app_inj_tail in H. destruct H as [-> ->]. now exists l2'.
Qed.

Lemma pend_hist s : Inv s -> hist s = written s ++ pend s.
Proof. intros I. apply (i_hist _ I). Qed.
Lemma pend_NoDup s : Inv s -> NoDup (pend s).
Proof. intros I. pose proof (hist_NoDup _ I) as N. rewrite (pend_hist _ I) in N. eapply NoDup_app_r; eauto. Qed.

(* a state change that leaves [pend] and everything the relation mentions alone, and does not reach Done *)
Lemma sim_same_pend s a s' :
  Sim s a -> (fp s <> Done \/ fp s' = fp s) -> pend s' = pend s -> lp s' = lp s -> cnt s' = cnt s -> retd s' = retd s -> fl s' = fl s ->
  req s' = req s -> pre_req s' = pre_req s -> Sim s' a.
Proof.
  intros [S1 S2 S3 S4 S5 S6 S7 S8] ND Ep El Ec Er Ef Erq Epr.
  constructor; rewrite ?Ep, ?El, ?Ec, ?Er; auto.
  - eapply FlRel_mono; eauto. lia.
  - intros X. destruct ND as [ND | ->]; [exfalso; auto | auto].
Qed.

Lemma sim_write cap s a e s' :
  Inv s -> Sim s a -> step cap s (Write e) = Some s' ->
  exists a', astep a (EWrite e) = Some a' /\ Sim s' a'.
Proof.
  intros I S Hs. unfold step, gstep in Hs.
  assert (X : pend s = e :: q s /\ fp s <> Done /\ pend s' = q s /\ lp s' = lp s /\ cnt s' = cnt s /\ retd s' = retd s /\
              fl s' = fl s /\ req s' = req s /\ pre_req s' = pre_req s /\ fp s' <> Done).
  { unfold pend. destruct (fp s) as [| | | |e'|e'] eqn:P; try discriminate; (destruct (entry_eqb e e') eqn:C; [|discriminate]);
      apply entry_eqb_eq in C; subst e'; inversion Hs; subst s'; cbn; repeat split; discriminate. }
  destruct X as (Q & ND & Q' & El & Ec & Er & Ef & Erq & Epr & ND'). clear Hs.
  destruct S as [S1 S2 S3 S4 S5 S6 S7 S8].
  assert (NQ : NoDup (e :: q s)). { rewrite <- Q. apply pend_NoDup; auto. }
  destruct (lookupE e (a_unw a)) as [c|] eqn:LE.
  2:{ exfalso. apply (proj2 (S3 e)); [left; rewrite Q; now left | exact LE]. }
  assert (AD : a_done a = false). { destruct (a_done a); [exfalso; apply ND; auto | reflexivity]. }
  assert (FB : forallb (fun p0 => entry_eqb e (fst p0) || (c <? snd p0)) (a_ret a) = true).
  { apply forallb_forall. intros [e1 r1] Hin. cbn. destruct (entry_eqb e e1) eqn:E; [reflexivity|]. cbn.
    apply N.ltb_lt. destruct (S5 _ _ Hin) as (Hq & _ & _). rewrite Q in Hq. destruct Hq as [<- | Hq]; [rewrite entry_eqb_refl in E; discriminate|].
    apply (S6 [] e (q s) Q e1 c r1 Hq LE Hin). }
  unfold astep. rewrite LE, AD, FB. cbn. eexists. split; [reflexivity|].
  constructor; cbn; rewrite ?Q', ?El, ?Ec, ?Er; auto.
  - intros x. rewrite lookupE_removeE. destruct (entry_eqb e x) eqn:E.
    + apply entry_eqb_eq in E. subst x. split; [intros H; now contradiction H|]. intros [Hin | [g L]]; exfalso.
      * inversion NQ; auto.
      * apply (sending_not_hist _ _ _ I L). rewrite (pend_hist _ I), Q. apply in_or_app. right. now left.
    + rewrite S3, Q. split; intros [H | H]; auto; [destruct H as [<- | H]; [rewrite entry_eqb_refl in E; discriminate | now left] | left; now right].
  - intros x c0 Hin. apply In_removeE in Hin. destruct Hin as [Hin _]. pose proof (S4 _ _ Hin). lia.
  - intros x r0 Hin. apply In_removeE in Hin. destruct Hin as [Hin Ne]. destruct (S5 _ _ Hin) as (Hq & Hr & Ht).
    rewrite Q in Hq. destruct Hq as [<- | Hq]; [contradiction|]. repeat split; auto. lia.
  - intros l1 e0 l2 Hq e1 c0 r1 Hin1 L0 Hin. rewrite lookupE_removeE in L0. destruct (entry_eqb e e0); [discriminate|].
    apply In_removeE in Hin. destruct Hin as [Hin _].
    eapply (S6 (e :: l1) e0 l2); [| exact Hin1 | exact L0 | exact Hin]. rewrite Q, Hq. reflexivity.
  - eapply FlRel_mono; eauto; cbn; try lia. intros x r0 Hin. apply In_removeE in Hin. destruct Hin as [Hin _]. now left.
  - intros X. rewrite X in AD. discriminate.
Qed.

Lemma sim_recv s a e p nx s' :
  Sim s a -> take s e p nx = Some s' -> heldp nx = [e] -> Sim s' a.
Proof.
  intros S Hs HN. unfold take in Hs. destruct (q s) as [|e' r] eqn:Q. { destruct (fp s); discriminate. }
  destruct (_ && _) eqn:C in Hs; [|discriminate]. inversion Hs; subst s'; clear Hs.
  apply andb_true_iff in C. destruct C as [Cp Ce]. apply entry_eqb_eq in Ce. subst e'.
  apply (sim_same_pend s a); auto; cbn.
  - left. intros X. rewrite X in Cp. destruct p; discriminate.
  - unfold pend. cbn. rewrite HN, Q. destruct (fp s), p; try discriminate; reflexivity.
Qed.

Lemma sim_logcall cap s a e s' :
  Inv s -> Sim s a -> step cap s (LogCall e) = Some s' -> exists a', astep a (ECall e) = Some a' /\ Sim s' a'.
Proof.
  intros I S Hs. unfold step, gstep in Hs.
    destruct (lp s (eg e)) eqn:L; try discriminate. destruct (en e =? cnt s (eg e)) eqn:C; [|discriminate].
    apply N.eqb_eq in C. inversion Hs; subst s'; clear Hs.
    destruct S as [S1 S2 S3 S4 S5 S6 S7 S8]; unfold pend in *.
    assert (B : busy (eg e) (a_fly a) = false).
    { apply busy_false. intros x Hin Eg. apply S1 in Hin. destruct Hin as [g H]. pose proof (inflight_eg _ _ _ I H) as X.
      rewrite <- X, Eg, L in H. destruct H; discriminate. }
    unfold astep. rewrite B, S2, C, N.eqb_refl. cbn. eexists. split; [reflexivity|].
    assert (NS : forall g x, lp s g = LSending x \/ lp s g = LSent x -> g <> eg e).
    { intros g x H ->. rewrite L in H. destruct H; discriminate. }
    constructor; unfold pend; cbn; auto.
    + intros x. split.
      * intros [<- | Hin]; [exists (eg e); left; apply upd_same|]. apply S1 in Hin. destruct Hin as [g H]. exists g.
        rewrite upd_other; [exact H | eapply NS; eauto].
      * intros [g H]. unfold upd in H. destruct (g =? eg e) eqn:E.
        -- destruct H as [H | H]; inversion H. now left.
        -- right. apply S1. now exists g.
    + intros g. rewrite lookupN_setN. unfold upd. destruct (g =? eg e) eqn:E; [|apply S2].
      apply N.eqb_eq in E. subst g. lia.
    + intros x. rewrite lookupE_app. split.
      * destruct (lookupE x (a_unw a)) eqn:LX.
        -- intros _. assert (X : lookupE x (a_unw a) <> None) by (rewrite LX; discriminate). apply S3 in X.
           destruct X as [X | [g X]]; [now left | right]. exists g. rewrite upd_other; [exact X | eapply NS; eauto].
        -- destruct (entry_eqb x e) eqn:E; [|intros H; now contradiction H]. apply entry_eqb_eq in E. subst x.
           intros _. right. exists (eg e). apply upd_same.
      * intros H. destruct (lookupE x (a_unw a)) eqn:LX; [discriminate|]. destruct (entry_eqb x e) eqn:E; [discriminate|].
        exfalso. destruct H as [H | [g H]].
        -- apply (proj2 (S3 x)); [now left | exact LX].
        -- unfold upd in H. destruct (g =? eg e) eqn:E'.
           ++ inversion H; subst. rewrite entry_eqb_refl in E. discriminate.
           ++ apply (proj2 (S3 x)); [right; now exists g | exact LX].
    + intros x c Hin. apply in_app_or in Hin. destruct Hin as [Hin | [X | []]]; [pose proof (S4 _ _ Hin); lia | inversion X; lia].
    + intros x r Hin. destruct (S5 _ _ Hin) as (A & B' & C'). repeat split; auto. lia.
    + intros l1 e0 l2 Hq e1 c r1 Hin1 L0 Hin. rewrite lookupE_app in L0.
      destruct (lookupE e0 (a_unw a)) eqn:LX.
      * inversion L0; subst. eapply S6; eauto.
      * exfalso. apply (proj2 (S3 e0)); [left; rewrite Hq; apply in_or_app; right; now left | exact LX].
    + eapply FlRel_mono; eauto; cbn; try lia; try (intros; now left).
Qed.

Lemma sim_step cap s a l s' :
  Inv s -> Sim s a -> step cap s l = Some s' ->
  match vis l with
  | Some ev => exists a', astep a ev = Some a' /\ Sim s' a'
  | None => Sim s' a
  end.
Proof.
  intros I S Hs. destruct l; cbn [vis]; try (eapply sim_logcall; eassumption); unfold step, gstep in Hs.
  - (* Enq *)
    destruct (lp s g) eqn:L; try discriminate. destruct (N.of_nat (length (q s)) <? cap); [|discriminate].
    inversion Hs; subst s'; clear Hs.
    destruct S as [S1 S2 S3 S4 S5 S6 S7 S8]; unfold pend in *. constructor; unfold pend; cbn; auto.
    + intros x. rewrite S1. split; intros [g' H]; unfold upd in *.
      * destruct (N.eq_dec g' g) as [-> | Ne].
        -- exists g. rewrite N.eqb_refl. rewrite L in H. destruct H as [H | H]; inversion H. now right.
        -- exists g'. destruct (g' =? g) eqn:E; [apply N.eqb_eq in E; contradiction | exact H].
      * destruct (g' =? g) eqn:E.
        -- apply N.eqb_eq in E. subst g'. destruct H as [H | H]; inversion H; subst. exists g. now left.
        -- now exists g'.
    + intros x. rewrite S3. split.
      * intros [H | [g' H]]; [left; rewrite app_assoc; apply in_or_app; now left|].
        destruct (N.eq_dec g' g) as [-> | Ne].
        -- rewrite L in H. inversion H; subst. left. rewrite app_assoc. apply in_or_app. right. now left.
        -- right. exists g'. rewrite upd_other; auto.
      * intros [H | [g' H]].
        -- rewrite app_assoc in H. apply in_app_or in H. destruct H as [H | [<- | []]]; [now left | right; now exists g].
        -- unfold upd in H. destruct (g' =? g); [discriminate | right; now exists g'].
    + intros x r Hin. destruct (S5 _ _ Hin) as (A & B & C). repeat split; auto. rewrite app_assoc. apply in_or_app. now left.
    + intros l1 e0 l2 Hq e1 c r1 Hin1 L0 Hin. rewrite app_assoc in Hq. apply snoc_decomp in Hq. destruct Hq as [-> | [l2' [-> Hq]]]; [contradiction|].
      apply in_app_or in Hin1. destruct Hin1 as [Hin1 | [<- | []]].
      * eapply S6; eauto.
      * exfalso. destruct (S5 _ _ Hin) as (A & _ & _). apply (sending_not_hist _ _ _ I L). rewrite (i_hist _ I). apply in_or_app. now right.
  - (* LogRet *)
    destruct (lp s (eg e)) as [| |e'] eqn:L; try discriminate. destruct (entry_eqb e e') eqn:C; [|discriminate].
    apply entry_eqb_eq in C. subst e'. inversion Hs; subst s'; clear Hs.
    destruct S as [S1 S2 S3 S4 S5 S6 S7 S8]; unfold pend in *.
    assert (M : mem_entry e (a_fly a) = true). { apply mem_entry_true. apply S1. exists (eg e). now right. }
    unfold astep. rewrite M. eexists. split; [reflexivity|].
    assert (EQ : In e (heldp (fp s) ++ q s) \/ lookupE e (a_unw a) = None).
    { destruct (lookupE e (a_unw a)) eqn:LX; [|now right]. left.
      assert (X : lookupE e (a_unw a) <> None) by (rewrite LX; discriminate). apply S3 in X. destruct X as [X | [g X]]; [exact X|].
      exfalso. pose proof (inflight_eg _ _ _ I (or_introl X)) as Y. rewrite <- Y, L in X. discriminate. }
    constructor; unfold pend; cbn; auto.
    + intros x. rewrite filter_In, S1. split.
      * intros [[g H] Ne]. exists g. rewrite upd_other; [exact H|]. intros ->. rewrite L in H. destruct H as [H | H]; inversion H; subst.
        rewrite entry_eqb_refl in Ne. discriminate.
      * intros [g H]. unfold upd in H. destruct (g =? eg e) eqn:E; [destruct H; discriminate|]. split; [now exists g|].
        destruct (entry_eqb e x) eqn:E'; [|reflexivity]. apply entry_eqb_eq in E'. subst x.
        pose proof (inflight_eg _ _ _ I H) as Y. subst g. rewrite N.eqb_refl in E. discriminate.
    + intros x. rewrite S3. split; (intros [H | [g H]]; [now left | right; exists g]); unfold upd in *.
      * destruct (g =? eg e) eqn:E; [apply N.eqb_eq in E; subst g; rewrite L in H; discriminate | exact H].
      * destruct (g =? eg e); [discriminate | exact H].
    + intros x c Hin. pose proof (S4 _ _ Hin). lia.
    + intros x r Hin. assert (Old : In (x, r) (a_ret a) -> In x (heldp (fp s) ++ q s) /\ In x (e :: retd s) /\ r < a_t a + 1).
      { intros H. destruct (S5 _ _ H) as (A & B & C). repeat split; auto; [now right | lia]. }
      destruct (lookupE e (a_unw a)) eqn:LX; [|auto]. apply in_app_or in Hin. destruct Hin as [Hin | [X | []]]; [auto|].
      inversion X; subst. destruct EQ as [EQ | EQ]; [|discriminate]. repeat split; [exact EQ | now left | lia].
    + intros l1 e0 l2 Hq e1 c r1 Hin1 L0 Hin. destruct (lookupE e (a_unw a)) eqn:LX; [|eapply S6; eauto].
      apply in_app_or in Hin. destruct Hin as [Hin | [X | []]]; [eapply S6; eauto|]. inversion X; subst.
      apply lookupE_In in L0. apply (S4 _ _ L0).
    + eapply FlRel_mono; eauto; cbn; try lia. intros x r Hin.
      destruct (lookupE e (a_unw a)); [|now left]. apply in_app_or in Hin. destruct Hin as [Hin | [X | []]]; [now left|].
      inversion X. right. lia.
  - (* SetLevel *)
    inversion Hs; subst s'; clear Hs. apply (sim_same_pend s a); auto.
  - (* LogCallAt *)
    apply (sim_logcall cap s a e s' I S). apply (logcallat_is_logcall cap s e l s' Hs).
  - (* LogFiltered *)
    destruct (logfiltered_nop cap s g l s' Hs) as (_ & _ & ->). exact S.
  - (* FlushCall *)
    destruct S as [S1 S2 S3 S4 S5 S6 S7 S8]; unfold pend in *.
    assert (W : forall x c, In (x, c) (a_unw a) -> c < a_t a + 1) by (intros x c0 Hin; pose proof (S4 _ _ Hin); lia).
    assert (Rr : forall x r, In (x, r) (a_ret a) -> In x (heldp (fp s) ++ q s) /\ In x (retd s) /\ r < a_t a + 1).
    { intros x r Hin. destruct (S5 _ _ Hin) as (A & B & C'). repeat split; auto. lia. }
    destruct S7 as (F1 & F2 & F3 & F4).
    assert (FC : fl s c = FNone \/ exists b, fl s c = FReturned b) by (destruct (fl s c) as [| | |b]; try discriminate; [now left | right; now exists b]).
    assert (NM : mem_N c (f_in (a_fl a)) = false).
    { destruct (mem_N c (f_in (a_fl a))) eqn:M; [|reflexivity]. apply mem_N_true in M. apply F1 in M.
      destruct FC as [X | [b X]]; rewrite X in M; destruct M; discriminate. }
    assert (Hs' : s' = mk (q s) (fp s) (req s) (upd (fl s) c FCalled) (lp s) (cnt s) (hist s) (written s) (retd s) (pre_req s) (lvl s)).
    { destruct FC as [X | [b X]]; rewrite X in Hs; inversion Hs; reflexivity. }
    subst s'. clear Hs. unfold astep. rewrite NM. eexists. split; [reflexivity|]. constructor; unfold pend; cbn; auto.
    unfold FlRel; cbn. repeat split.
    + intros [<- | Hin]; [rewrite upd_same; now left|]. unfold upd. destruct (c0 =? c) eqn:E; [now left | now apply F1].
    + unfold upd. destruct (c0 =? c) eqn:E; [apply N.eqb_eq in E; now left | intros H; right; now apply F1].
    + intros c0 _. destruct (f_first (a_fl a)); discriminate.
    + intros _. destruct (f_first (a_fl a)); discriminate.
    + destruct (f_first (a_fl a)) as [f0|] eqn:FF; inversion H; subst; [destruct (F4 _ eq_refl); lia | lia].
    + intros x r Hin Hle R. destruct (f_first (a_fl a)) as [f0|] eqn:FF; inversion H; subst.
      * destruct (F4 _ eq_refl) as [_ Hp]. eauto.
      * exfalso. now apply (F3 R).
  - (* Request *)
    destruct S as [S1 S2 S3 S4 S5 S6 S7 S8]; unfold pend in *.
    destruct (fl s c) eqn:F; try discriminate; inversion Hs; subst s'; clear Hs. constructor; unfold pend; cbn; auto.
    destruct S7 as (F1 & F2 & F3 & F4). unfold FlRel; cbn. repeat split.
    + intros Hin. unfold upd. destruct (c0 =? c) eqn:E; [now right | now apply F1].
    + unfold upd. destruct (c0 =? c) eqn:E; [apply N.eqb_eq in E; subst; intros _; apply F1; now left | apply F1].
    + intros c0. unfold upd. destruct (c0 =? c) eqn:E; [intros _; apply (F2 c); rewrite F; discriminate | apply F2].
    + intros _. apply (F2 c). rewrite F. discriminate.
    + apply (F4 _ H).
    + intros x r Hin Hle _. destruct (req s) eqn:R; [destruct (F4 _ H) as [_ Hp]; eauto|].
      rewrite (i_hist _ I). apply in_or_app. right. apply (S5 _ _ Hin).
  - (* FlushRet *)
    destruct S as [S1 S2 S3 S4 S5 S6 S7 S8]; unfold pend in *.
    assert (W : forall x c, In (x, c) (a_unw a) -> c < a_t a + 1) by (intros x c0 Hin; pose proof (S4 _ _ Hin); lia).
    assert (Rr : forall x r, In (x, r) (a_ret a) -> In x (heldp (fp s) ++ q s) /\ In x (retd s) /\ r < a_t a + 1).
    { intros x r Hin. destruct (S5 _ _ Hin) as (A & B & C'). repeat split; auto. lia. }
    destruct S7 as (F1 & F2 & F3 & F4).
    destruct (fl s c) eqn:F; try discriminate. destruct (negb done || _) eqn:C in Hs; [|discriminate].
    inversion Hs; subst s'; clear Hs.
    assert (Rq : req s = true) by (apply (i_fl_req _ I c); rewrite F; discriminate).
    assert (M : mem_N c (f_in (a_fl a)) = true) by (apply mem_N_true; apply F1; now right).
    destruct (f_first (a_fl a)) as [f|] eqn:FF; [|exfalso; apply (F2 c); [rewrite F; discriminate | reflexivity]].
    destruct (F4 _ eq_refl) as [Hf Hp].
    assert (NewRel : forall dn, FlRel (mk (q s) (fp s) (req s) (upd (fl s) c (FReturned done)) (lp s) (cnt s) (hist s) (written s) (retd s) (pre_req s) (lvl s))
                            (mkA (a_t a + 1) (a_fly a) (a_next a) (a_unw a) (a_ret a) (mkFl (Some f) (filter (fun x => negb (c =? x)) (f_in (a_fl a)))) dn)).
    { intros dn. unfold FlRel; cbn. repeat split.
      - intros Hin. apply filter_In in Hin. destruct Hin as [Hin Ne]. unfold upd. destruct (c0 =? c) eqn:E.
        + apply N.eqb_eq in E. subst. rewrite N.eqb_refl in Ne. discriminate.
        + now apply F1.
      - unfold upd. destruct (c0 =? c) eqn:E; [intros [X | X]; discriminate|]. intros X. apply filter_In. split; [now apply F1|].
        rewrite N.eqb_sym, E. reflexivity.
      - discriminate.
      - discriminate.
      - inversion H; subst. lia.
      - inversion H; subst. exact Hp. }
    unfold astep. rewrite M, FF. destruct done.
    + cbn in C. destruct (fp s) eqn:P; try discriminate.
      assert (FB : forallb (fun p0 => f <? snd p0) (a_ret a) = true).
      { apply forallb_forall. intros [x r] Hin. cbn. apply N.ltb_lt. destruct (N.lt_ge_cases f r) as [Hlt | Hge]; [exact Hlt|]. exfalso.
        pose proof (Hp _ _ Hin Hge Rq) as PR. destruct (S5 _ _ Hin) as (Hq & _ & _).
        pose proof (prefix_incl _ _ (i_done _ I P) _ PR) as Hw.
        pose proof (hist_NoDup _ I) as N. rewrite (i_hist _ I), P in N. eapply NoDup_app_disjoint; eauto. }
      rewrite FB. eexists. split; [reflexivity|]. constructor; unfold pend; cbn; auto.
    + eexists. split; [reflexivity|]. constructor; unfold pend; cbn; auto.
  - (* PollTake *) apply (sim_recv s a e Top (HoldT e) s' S Hs eq_refl).
  - (* PollEmpty *)
    destruct (fp s) eqn:P; try discriminate. destruct (q s) eqn:Q; try discriminate. inversion Hs; subst s'; clear Hs.
    apply (sim_same_pend s a); auto; [left; congruence | unfold pend; cbn; rewrite P, Q; reflexivity].
  - (* InnerTake *) apply (sim_recv s a e Inner (HoldT e) s' S Hs eq_refl).
  - (* InnerSync *)
    destruct (fp s) eqn:P; try discriminate. destruct (req s) eqn:R; [|discriminate]. inversion Hs; subst s'; clear Hs.
    apply (sim_same_pend s a); auto; [left; congruence | unfold pend; cbn; rewrite P; reflexivity].
  - (* DrainTake *) apply (sim_recv s a e Drain (HoldD e) s' S Hs eq_refl).
  - (* DrainDone *)
    destruct (fp s) eqn:P; try discriminate. destruct (q s) eqn:Q; try discriminate. inversion Hs; subst s'; clear Hs.
    apply (sim_same_pend s a); auto; [left; congruence | unfold pend; cbn; rewrite P, Q; reflexivity].
  - (* Write *) apply (sim_write cap s a e s' I S). exact Hs.
Qed.

Lemma sim_run cap ls : forall s a s', Inv s -> Sim s a -> run cap s ls = Some s' ->
  exists a', arun a (visible ls) = Some a' /\ Sim s' a'.
Proof.
  induction ls as [|l ls IH]; intros s a s' I S Hr.
  - inversion Hr; subst. exists a. split; [reflexivity | exact S].
  - rewrite run_cons in Hr. destruct (step cap s l) as [m|] eqn:E; [|discriminate].
    pose proof (sim_step _ _ _ _ _ I S E) as X. pose proof (Inv_step _ _ _ _ I E) as I'. cbn [visible].
    destruct (vis l) as [ev|].
    + destruct X as [a1 [A1 S1]]. destruct (IH _ _ _ I' S1 Hr) as [a' [A' S']]. exists a'. split; [|exact S'].
      cbn [arun]. rewrite A1. exact A'.
    + apply (IH _ _ _ I' X Hr).
Qed.

(* trace validation is sound: whatever the schedule, what an observer of the model sees is accepted *)
Theorem visible_trace_accepted cap ls s : run cap init ls = Some s -> accepts (visible ls) = true.
Proof.
  intros H. destruct (sim_run _ _ _ _ _ Inv_init Sim_init H) as [a' [A _]]. unfold accepts. rewrite A. reflexivity.
Qed.

(* ---------- concrete instances (non-vacuity) and the code before the fix ---------- *)

Definition e00 := mkE 0 0 0.
Definition e01 := mkE 0 1 1.
Definition e10 := mkE 1 0 0.

(* two goroutines, two writers; the flusher is between its two selects when the last entry and the request arrive,
   and its select picks the request: the drain loop writes the entry before the acknowledgement *)
Definition sched_fixed : list label :=
  [LogCall e00; Enq 0; LogRet e00; PollTake e00; Write e00; LogCall e10; PollEmpty; LogCall e01; Enq 0; Enq 1; LogRet e10; LogRet e01;
   FlushCall 0; Request 0; InnerSync; DrainTake e01; Write e01; DrainTake e10; Write e10; DrainDone; FlushRet 0 true].
Example sched_fixed_runs : exists s, run 4 init sched_fixed = Some s /\ written s = [e00; e01; e10] /\ fl s 0 = FReturned true /\ q s = [].
Proof. eexists. vm_compute. repeat split. Qed.
Example sched_fixed_instance :
  exists l1 l2, sched_fixed = l1 ++ FlushCall 0 :: l2 ++ FlushRet 0 true :: [] /\ rets_of l1 = [e00; e10; e01].
Proof. exists (firstn 12 sched_fixed), (firstn 7 (skipn 13 sched_fixed)). vm_compute. split; reflexivity. Qed.
Example sched_fixed_accepted : accepts (visible sched_fixed) = true.
Proof. vm_compute. reflexivity. Qed.

(* the code before the fix (gstep false): the same schedule up to the select, which returns at once; FlushLogger
   returns on the acknowledgement with two returned entries unwritten — and the specification machine rejects
   exactly that trace *)
Definition sched_unfixed : list label :=
  [LogCall e00; Enq 0; LogRet e00; PollTake e00; Write e00; LogCall e10; PollEmpty; LogCall e01; Enq 0; Enq 1; LogRet e10; LogRet e01;
   FlushCall 0; Request 0; InnerSync; FlushRet 0 true].
Example before_fix_loses_entries :
  exists s, grun false 4 init sched_unfixed = Some s /\ fl s 0 = FReturned true /\ written s = [e00] /\
            retd s = [e01; e10; e00] /\ q s = [e01; e10].
Proof. eexists. vm_compute. repeat split. Qed.
Example before_fix_trace_rejected : accepts (visible sched_unfixed) = false.
Proof. vm_compute. reflexivity. Qed.
Example repaired_model_refuses_that_schedule : run 4 init sched_unfixed = None.
Proof. vm_compute. reflexivity. Qed.

(* the specification machine is not trivially true: duplicated, reordered, invented and late Writes are rejected *)
Example rejects_duplicate : accepts [ECall e00; ERet e00; EWrite e00; EWrite e00] = false.
Proof. vm_compute. reflexivity. Qed.
Example rejects_reordered : accepts [ECall e00; ERet e00; ECall e01; ERet e01; EWrite e01; EWrite e00] = false.
Proof. vm_compute. reflexivity. Qed.
Example rejects_fifo_violation : accepts [ECall e00; ERet e00; ECall e10; ERet e10; EWrite e10; EWrite e00] = false.
Proof. vm_compute. reflexivity. Qed.
Example accepts_concurrent_either_order :
  accepts [ECall e00; ECall e10; ERet e00; ERet e10; EWrite e10; EWrite e00] = true /\
  accepts [ECall e00; ECall e10; ERet e00; ERet e10; EWrite e00; EWrite e10] = true.
Proof. vm_compute. split; reflexivity. Qed.
Example rejects_invented : accepts [EWrite e00] = false.
Proof. vm_compute. reflexivity. Qed.
Example rejects_wrong_writer : accepts [ECall e00; ERet e00; EWrite (mkE 0 0 1)] = false.
Proof. vm_compute. reflexivity. Qed.
Example rejects_write_after_ack : accepts [ECall e00; EFlushCall 0; EFlushRet 0 true; ERet e00; EWrite e00] = false.
Proof. vm_compute. reflexivity. Qed.
Example accepts_timer_return_with_backlog : accepts [ECall e00; ERet e00; EFlushCall 0; EFlushRet 0 false; EWrite e00] = true.
Proof. vm_compute. reflexivity. Qed.

(* ---------- the constants of the tree the model and the harness rely on (regenerated on every run) ---------- *)
(* the queue is buffered (an unbuffered channel would hand entries over by rendez-vous, which [Enq] does not model),
   and FlushLogger waits at least the second that the harness's "small backlog" scenarios assume *)
Lemma tree_constants_in_range : 0 < c_rogger_queue_cap /\ 1000 <= c_rogger_wait_flush_timeout_ms.
Proof. vm_compute. split; [reflexivity | discriminate]. Qed.

(* ---------- FlushLogger is one-shot (the model-level reading of the known finding "second flush") ---------- *)

Lemma step_cnt cap s l s' : step cap s l = Some s' ->
  (forall g, cnt s g <= cnt s' g) /\ (forall e, calls_of [l] = [e] -> en e = cnt s (eg e) /\ cnt s' (eg e) = en e + 1).
Proof.
  intros Hs0. destruct (normalize_label _ _ _ _ Hs0) as (l' & Hs & <- & _ & _ & _ & NL). clear Hs0.
  destruct l' as [| | | |e9 n9| | | | | | | | | | |]; try (exfalso; eapply NL; reflexivity);
    crush_step Hs; split; try (intros; lia); try (intros ? X; discriminate).
  - intros g. unfold upd. destruct (g =? eg e) eqn:E; [apply N.eqb_eq in E; subst; lia | lia].
  - intros x X. inversion X; subst. rewrite upd_same. apply N.eqb_eq in Heqb. split; lia.
Qed.

Lemma run_cnt cap ls : forall s s', run cap s ls = Some s' -> forall g, cnt s g <= cnt s' g.
Proof.
  induction ls as [|l ls IH]; intros s s' Hr g. { inversion Hr; subst. lia. }
  rewrite run_cons in Hr. destruct (step cap s l) as [m|] eqn:E; [|discriminate].
  pose proof (proj1 (step_cnt _ _ _ _ E) g). pose proof (IH _ _ Hr g). lia.
Qed.

Lemma run_calls_lt cap ls : forall s s', run cap s ls = Some s' -> forall e, In e (calls_of ls) -> en e < cnt s' (eg e) /\ cnt s (eg e) <= en e.
Proof.
  induction ls as [|l ls IH]; intros s s' Hr e Hin; [contradiction|].
  rewrite run_cons in Hr. destruct (step cap s l) as [m|] eqn:E; [|discriminate].
  destruct (step_cnt _ _ _ _ E) as [Mono New].
  replace (calls_of (l :: ls)) with (calls_of [l] ++ calls_of ls) in Hin by (destruct l; reflexivity).
  apply in_app_or in Hin. destruct Hin as [Hin | Hin].
  - assert (X : calls_of [l] = [e]) by (destruct l; cbn in Hin; try contradiction; destruct Hin as [<- | []]; reflexivity).
    destruct (New e X) as [A B]. pose proof (run_cnt _ _ _ _ Hr (eg e)). lia.
  - destruct (IH _ _ Hr e Hin) as [A B]. pose proof (Mono (eg e)). lia.
Qed.

Lemma writes_of_split ls e : In e (writes_of ls) -> exists a l b, ls = a ++ l :: b /\ writes_of [l] = [e].
Proof.
  induction ls as [|x ls IH]; cbn; [contradiction|]. intros Hin.
  assert (X : In e (writes_of [x]) \/ In e (writes_of ls)).
  { destruct x; cbn in *; auto; destruct Hin as [<- | Hin]; auto. }
  destruct X as [X | X].
  - exists [], x, ls. split; [reflexivity|]. destruct x; cbn in *; try contradiction; destruct X as [<- | []]; reflexivity.
  - destruct (IH X) as (a & l & b & -> & W). exists (x :: a), l, b. split; [reflexivity | exact W].
Qed.

(* an entry logged after the acknowledged flush is never handed to its writer, whatever follows: the flusher has
   returned. (In the code a later FlushLogger call returns at once, asyncDone being cancelled for good.) *)
Theorem logged_after_ack_never_written cap l1 c l3 s :
  run cap init (l1 ++ FlushRet c true :: l3) = Some s ->
  forall e, In e (calls_of l3) -> ~ In e (writes_of (l1 ++ FlushRet c true :: l3)).
Proof.
  intros H e Hc Hw. pose proof (no_write_after_ack _ _ _ _ _ H) as W3.
  rewrite writes_of_app in Hw. cbn [writes_of] in Hw. rewrite W3, app_nil_r in Hw.
  destruct (writes_of_split _ _ Hw) as (a & l & b & -> & Wl).
  rewrite <- app_assoc in H. cbn [app] in H.
  pose proof (write_was_logged _ _ _ _ _ _ H Wl) as Ca.
  rewrite app_comm_cons, app_assoc in H. destruct (run_split _ _ _ _ _ _ H) as (m & m' & R1 & S & R3).
  assert (In e (calls_of (a ++ l :: b))) as Cl by (rewrite calls_of_app; apply in_or_app; now left).
  destruct (run_calls_lt _ _ _ _ R1 _ Cl) as [A _]. destruct (run_calls_lt _ _ _ _ R3 _ Hc) as [_ B].
  pose proof (proj1 (step_cnt _ _ _ _ S) (eg e)). lia.
Qed.
Example logged_after_ack_witness :
  exists s, run 4 init [LogCall e00; Enq 0; LogRet e00; FlushCall 0; Request 0; PollTake e00; Write e00; PollEmpty; InnerSync; DrainDone;
                        FlushRet 0 true; LogCall e01; Enq 0; LogRet e01] = Some s
            /\ fp s = Done /\ q s = [e01] /\ written s = [e00] /\ retd s = [e01; e00].
Proof. eexists. vm_compute. repeat split. Qed.

(* ---------- bounded progress: how many flusher steps the flush needs ---------- *)

Definition pending (s : st) : nat := (length (pre_req s) - length (written s))%nat.
Definition pcw (p : fpc) : nat := match p with Top | Drain => 1 | Inner => 2 | _ => 0 end.
Definition weight (s : st) : nat := (2 * pending s + pcw (fp s))%nat.

Lemma prefix_length a b : prefix a b -> (length a <= length b)%nat.
Proof. intros [c ->]. rewrite app_length. lia. Qed.
Lemma prefix_of_shorter a b l : prefix a l -> prefix b l -> (length a <= length b)%nat -> prefix a b.
Proof.
  intros Ha Hb L. destruct (prefix_comparable _ _ _ Ha Hb) as [P | [c Hc]]; [exact P|].
  subst a. rewrite app_length in L. destruct c; [rewrite app_nil_r; apply prefix_refl | cbn in L; lia].
Qed.

Lemma step_weight cap s l s' : Inv s -> req s = true -> step cap s l = Some s' ->
  pre_req s' = pre_req s /\ req s' = true /\
  (pending s' = 0%nat \/ (weight s' + (if is_flusher l then 1 else 0) <= weight s)%nat).
Proof.
  intros I R Hs.
  assert (E : q s = [] -> heldp (fp s) = [] -> pending s = 0%nat).
  { intros Q Hh. unfold pending. pose proof (i_req_pre _ I R) as P. rewrite (i_hist _ I), Q, Hh, !app_nil_r in P.
    apply prefix_length in P. lia. }
  destruct l; try (destruct (logfiltered_nop _ _ _ _ _ Hs) as (_ & _ & ->); repeat split; auto; right; cbn; lia);
    unfold step, gstep, take in Hs; rewrite ?R in Hs; unfold weight in *; destruct (fp s) eqn:P; cbn in Hs.
  all: repeat match type of Hs with
       | context [match ?x with _ => _ end] => destruct x eqn:?; try discriminate
       | context [if ?x then _ else _] => destruct x eqn:?; try discriminate
       end; try congruence; inversion Hs; subst; clear Hs; unfold pending in *; cbn in *;
       (split; [reflexivity | split; [assumption || reflexivity |]]);
       rewrite ?app_length; cbn;
       try (right; lia);
       try (left; specialize (E eq_refl eq_refl); lia).
  all: destruct (length (pre_req s) - length (written s))%nat eqn:D; [left; lia | right; lia].
Qed.

Lemma run_weight cap ls : forall s s', Inv s -> req s = true -> run cap s ls = Some s' ->
  pre_req s' = pre_req s /\ (pending s' = 0%nat \/ (weight s' + flusher_steps ls <= weight s)%nat).
Proof.
  induction ls as [|l ls IH]; intros s s' I R Hr. { inversion Hr; subst. split; [reflexivity | right; cbn; lia]. }
  rewrite run_cons in Hr. destruct (step cap s l) as [m|] eqn:E; [|discriminate].
  destruct (step_weight _ _ _ _ I R E) as (P & R' & W). pose proof (Inv_step _ _ _ _ I E) as I'.
  destruct (IH _ _ I' R' Hr) as (P' & W'). split; [congruence|].
  destruct W' as [W' | W']; [now left|]. destruct W as [W | W].
  - left. destruct (run_ghost _ _ _ _ Hr) as (Wr & _ & _). unfold pending in *. rewrite P', Wr, app_length. lia.
  - right. cbn [flusher_steps]. lia.
Qed.

(* Once FlushLogger has signalled, [2 * length of the queue at that moment + 2] steps of the flusher (a receive and a
   Write per entry) suffice to hand every
   entry whose call had returned to its writer — however many entries other goroutines log meanwhile. (Whether that
   fits into FlushLogger's one second depends on the scheduler and on the writers: not modelled.) *)
Theorem flush_bounded cap l1 c l2 s1 s2 s :
  run cap init l1 = Some s1 -> req s1 = false -> step cap s1 (Request c) = Some s2 -> run cap s2 l2 = Some s ->
  (2 * length (q s1) + 2 <= flusher_steps l2)%nat ->
  forall e, In e (rets_of l1) -> In e (writes_of (l1 ++ Request c :: l2)).
Proof.
  intros R1 NR S2 R2 L e He.
  pose proof (reach_inv _ _ _ R1) as I1. pose proof (Inv_step _ _ _ _ I1 S2) as I2.
  assert (X : req s2 = true /\ pre_req s2 = hist s1 /\ written s2 = written s1 /\ fp s2 = fp s1 /\ q s2 = q s1).
  { unfold step, gstep in S2. destruct (fl s1 c) eqn:F; try discriminate. inversion S2; subst; cbn. rewrite NR. repeat split. }
  destruct X as (Rq & Pr & Wr & Fp & Qq).
  destruct (run_weight _ _ _ _ I2 Rq R2) as (P & W).
  assert (W2 : (weight s2 <= 2 * length (q s1) + 2)%nat).
  { unfold weight, pending. rewrite Pr, Wr, Fp, (i_hist _ I1), !app_length. destruct (fp s1); cbn; lia. }
  assert (P0 : pending s = 0%nat) by (destruct W as [W | W]; [exact W | unfold weight in W at 1; lia]).
  pose proof (run_inv _ _ _ _ I2 R2) as I.
  assert (Rs : req s = true).
  { clear -R2 Rq I2. revert s2 Rq I2 R2. induction l2 as [|l l2 IH]; intros s2 Rq I2 R2.
    - inversion R2; subst; auto.
    - rewrite run_cons in R2. destruct (step cap s2 l) as [m|] eqn:E; [|discriminate].
      destruct (step_weight _ _ _ _ I2 Rq E) as (_ & R' & _). apply (IH m R' (Inv_step _ _ _ _ I2 E) R2). }
  assert (PW : prefix (pre_req s) (written s)).
  { apply (prefix_of_shorter _ _ (hist s)); [apply (i_req_pre _ I Rs) | rewrite (i_hist _ I); now exists (heldp (fp s) ++ q s) | unfold pending in P0; lia]. }
  assert (R12 : run cap init (l1 ++ Request c :: l2) = Some s) by (rewrite run_app, R1, run_cons, S2; exact R2).
  destruct (run_init_ghost _ _ _ R12) as [<- _]. apply (prefix_incl _ _ PW). rewrite P, Pr.
  apply (i_retd _ I1). destruct (run_init_ghost _ _ _ R1) as [_ ->]. apply in_rev in He. exact He.
Qed.

Example flush_bounded_instance :
  exists s1 s2 s, run 4 init (firstn 13 sched_fixed) = Some s1 /\ req s1 = false /\ step 4 s1 (Request 0) = Some s2 /\
    run 4 s2 (skipn 14 sched_fixed) = Some s /\ length (q s1) = 2%nat /\ flusher_steps (skipn 14 sched_fixed) = 6%nat.
Proof. do 3 eexists. vm_compute. repeat split. Qed.

(* ---------- what acceptance means: an accepted trace satisfies the property ---------- *)

Lemma arun_app a t1 : forall a0 t2, a0 = a ->
  arun a0 (t1 ++ t2) = match arun a0 t1 with Some a' => arun a' t2 | None => None end.
Proof.
  intros a0 t2 _. revert a0. induction t1 as [|ev t1 IH]; intros a0; cbn; [reflexivity|].
  destruct (astep a0 ev); [apply IH | reflexivity].
Qed.

Lemma snoc_split_ne {A} (l : list A) y p1 x p2 :
  l ++ [y] = p1 ++ x :: p2 -> x <> y -> exists p2', p2 = p2' ++ [y] /\ l = p1 ++ x :: p2'.
Proof.
  intros H Ne. apply snoc_decomp in H as H'. destruct H' as [-> | [p2' [-> E]]].
  - apply app_inj_tail in H. destruct H as [_ E]. congruence.
  - now exists p2'.
Qed.

Lemma unique_split {A} (X : A) a : forall b a' b', a ++ X :: b = a' ++ X :: b' -> ~ In X a' -> ~ In X b' -> a = a'.
Proof.
  induction a as [|y a IH]; intros b a' b' H N1 N2; destruct a' as [|y' a'']; cbn in *.
  - reflexivity.
  - inversion H; subst. exfalso. apply N1. now left.
  - inversion H; subst. exfalso. apply N2. apply in_or_app. right. now left.
  - inversion H; subst. f_equal. eapply IH; eauto.
Qed.

Definition is_fcall (ev : event) : bool := match ev with EFlushCall _ => true | _ => false end.
(* the first FlushLogger call of the trace, if any, is the one the machine remembers *)
Definition fl_fact (p : list event) (o : option N) : Prop :=
  match o with
  | None => existsb is_fcall p = false
  | Some t => exists p1 ev p2, p = p1 ++ ev :: p2 /\ is_fcall ev = true /\ t = N.of_nat (length p1) /\ existsb is_fcall p1 = false
  end.

Lemma first_split_unique {A} (P : A -> bool) a : forall x b a' x' b',
  a ++ x :: b = a' ++ x' :: b' -> P x = true -> P x' = true -> existsb P a = false -> existsb P a' = false -> a = a'.
Proof.
  induction a as [|y a IH]; intros x b a' x' b' H Px Px' N1 N2; destruct a' as [|y' a'']; cbn in *.
  - reflexivity.
  - inversion H; subst. rewrite Px in N2. discriminate.
  - inversion H; subst. rewrite Px' in N1. discriminate.
  - inversion H; subst. apply orb_false_iff in N1, N2. destruct N1, N2. f_equal. eapply IH; eauto.
Qed.

Record AInv (p : list event) (a : ast) : Prop := mkAInv {
  v_t : a_t a = N.of_nat (length p);
  v_ret : forall p1 e p2, p = p1 ++ ERet e :: p2 -> In (EWrite e) p \/ In (e, N.of_nat (length p1)) (a_ret a);
  v_fly : forall e, In e (a_fly a) -> In (EWrite e) p \/ lookupE e (a_unw a) <> None;
  v_fl : fl_fact p (f_first (a_fl a));
  v_unw_nw : forall e, lookupE e (a_unw a) <> None -> ~ In (EWrite e) p;
  v_called : forall e, In (ECall e) p -> en e < lookupN (eg e) (a_next a);
  v_written_called : forall e, In (EWrite e) p -> In (ECall e) p;
  v_unw_stamp : forall e c, lookupE e (a_unw a) = Some c -> exists p1 p2, p = p1 ++ ECall e :: p2 /\ c = N.of_nat (length p1);
  v_fly_called : forall e, In e (a_fly a) -> In (ECall e) p
}.

Lemma AInv_init : AInv [] ainit.
Proof.
  constructor; cbn; try (intros; contradiction); try reflexivity; try discriminate; auto.
  all: try (intros p1 e p2 H; destruct p1; discriminate).
  all: try (intros e H; now contradiction H).
Qed.

Lemma in_snoc {A} (x y : A) l : In x (l ++ [y]) <-> In x l \/ x = y.
Proof. rewrite in_app_iff. cbn. intuition. Qed.

Lemma stamp_ext (p : list event) ev (L : entry -> option N) :
  (forall e c, L e = Some c -> exists p1 p2, p = p1 ++ ECall e :: p2 /\ c = N.of_nat (length p1)) ->
  forall e c, L e = Some c -> exists p1 p2, p ++ [ev] = p1 ++ ECall e :: p2 /\ c = N.of_nat (length p1).
Proof.
  intros H e c Le. destruct (H e c Le) as (p1 & p2 & -> & ->). exists p1, (p2 ++ [ev]). split; [|reflexivity].
  rewrite <- app_assoc. reflexivity.
Qed.

Lemma ret_ext (p : list event) ev (R R' : list (entry * N)) :
  (forall x, ev <> ERet x) ->
  (forall p1 e p2, p = p1 ++ ERet e :: p2 -> In (EWrite e) p \/ In (e, N.of_nat (length p1)) R) ->
  (forall x r, In (x, r) R -> In (x, r) R' \/ ev = EWrite x) ->
  forall p1 e p2, p ++ [ev] = p1 ++ ERet e :: p2 -> In (EWrite e) (p ++ [ev]) \/ In (e, N.of_nat (length p1)) R'.
Proof.
  intros Ne Old Sub p1 e p2 H. destruct (snoc_split_ne _ _ _ _ _ H) as (p2' & -> & E); [intros X; apply (Ne e); now rewrite X|].
  destruct (Old _ _ _ E) as [W | W]; [left; apply in_snoc; now left|].
  destruct (Sub _ _ W) as [S | S]; [now right | left; apply in_snoc; now right].
Qed.

Lemma fl_ext (p : list event) ev (o : option N) : is_fcall ev = false \/ o <> None -> fl_fact p o -> fl_fact (p ++ [ev]) o.
Proof.
  intros Ne. destruct o as [t|]; cbn.
  - intros (p1 & x & p2 & -> & Px & -> & N1). exists p1, x, (p2 ++ [ev]). repeat split; auto. rewrite <- app_assoc. reflexivity.
  - intros H. rewrite existsb_app, H. cbn. destruct Ne as [-> | X]; [reflexivity | congruence].
Qed.

Lemma AInv_step p a ev a' : AInv p a -> astep a ev = Some a' -> AInv (p ++ [ev]) a'.
Proof.
  intros [V1 V2 V3 V4 V5 V6 V7 V8 V9] Hs.
  assert (LEN : N.of_nat (length (p ++ [ev])) = a_t a + 1) by (rewrite app_length; cbn; lia).
  destruct ev as [e | e | e | c | c b]; unfold astep in Hs.
  - (* ECall *)
    destruct (negb _ && _) eqn:C in Hs; [|discriminate]. inversion Hs; subst a'; clear Hs.
    apply andb_true_iff in C. destruct C as [_ C]. apply N.eqb_eq in C.
    assert (NW : ~ In (EWrite e) p). { intros X. apply V7 in X. apply V6 in X. lia. }
    constructor; cbn; auto.
    + eapply ret_ext; eauto; discriminate.
    + intros x [<- | Hin].
      * right. rewrite lookupE_app. destruct (lookupE e (a_unw a)); [discriminate | rewrite entry_eqb_refl; discriminate].
      * destruct (V3 _ Hin) as [W | W]; [left; apply in_snoc; now left | right].
        rewrite lookupE_app. destruct (lookupE x (a_unw a)); [discriminate | contradiction].
    + apply fl_ext; [left; reflexivity | exact V4].
    + intros x L X. apply in_snoc in X. destruct X as [X | X]; [|discriminate]. rewrite lookupE_app in L.
      destruct (lookupE x (a_unw a)) eqn:LX.
      * apply (V5 x); [rewrite LX; discriminate | exact X].
      * destruct (entry_eqb x e) eqn:E; [|contradiction]. apply entry_eqb_eq in E. subst x. contradiction.
    + intros x X. rewrite lookupN_setN. apply in_snoc in X. destruct X as [X | X].
      * apply V6 in X. destruct (eg x =? eg e) eqn:E; [|exact X]. apply N.eqb_eq in E. rewrite E in X. lia.
      * inversion X; subst. rewrite N.eqb_refl. lia.
    + intros x X. apply in_snoc in X. destruct X as [X | X]; [|discriminate]. apply in_snoc. left. auto.
    + intros x c L. rewrite lookupE_app in L. destruct (lookupE x (a_unw a)) eqn:LX.
      * inversion L; subst. apply (stamp_ext p (ECall e) (fun y => lookupE y (a_unw a))); auto.
      * destruct (entry_eqb x e) eqn:E; [|discriminate]. apply entry_eqb_eq in E. subst x. inversion L; subst.
        exists p, []. split; [reflexivity | exact V1].
    + intros x [<- | Hin]; apply in_snoc; [now right | left; auto].
  - (* ERet *)
    destruct (mem_entry e (a_fly a)) eqn:M; [|discriminate]. inversion Hs; subst a'; clear Hs.
    apply mem_entry_true in M.
    constructor; cbn; auto.
    + intros p1 x p2 H. apply snoc_decomp in H as H'. destruct H' as [-> | [p2' [-> E]]].
      * apply app_inj_tail in H. destruct H as [-> X]. inversion X; subst x.
        destruct (V3 _ M) as [W | W]; [left; apply in_snoc; now left | right].
        destruct (lookupE e (a_unw a)); [|contradiction]. apply in_snoc. right. now rewrite V1.
      * destruct (V2 _ _ _ E) as [W | W]; [left; apply in_snoc; now left | right].
        destruct (lookupE e (a_unw a)); [apply in_snoc; now left | exact W].
    + intros x Hin. apply filter_In in Hin. destruct Hin as [Hin _]. destruct (V3 _ Hin) as [W | W]; [left; apply in_snoc; now left | now right].
    + apply fl_ext; [left; reflexivity | exact V4].
    + intros x L X. apply in_snoc in X. destruct X as [X | X]; [|discriminate]. eapply V5; eauto.
    + intros x X. apply in_snoc in X. destruct X as [X | X]; [auto | discriminate].
    + intros x X. apply in_snoc in X. destruct X as [X | X]; [|discriminate]. apply in_snoc. left. auto.
    + apply (stamp_ext p (ERet e) (fun y => lookupE y (a_unw a))); auto.
    + intros x Hin. apply filter_In in Hin. destruct Hin as [Hin _]. apply in_snoc. left. auto.
  - (* EWrite *)
    destruct (lookupE e (a_unw a)) as [c|] eqn:LE; [|discriminate]. destruct (negb _ && _) eqn:C in Hs; [|discriminate].
    inversion Hs; subst a'; clear Hs.
    constructor; cbn; auto.
    + eapply ret_ext; eauto; [discriminate|]. intros x r Hin. destruct (entry_eqb e x) eqn:E.
      * apply entry_eqb_eq in E. subst. now right.
      * left. apply In_removeE. split; [exact Hin|]. intros ->. rewrite entry_eqb_refl in E. discriminate.
    + intros x Hin. destruct (entry_eqb e x) eqn:E.
      * apply entry_eqb_eq in E. subst. left. apply in_snoc. now right.
      * destruct (V3 _ Hin) as [W | W]; [left; apply in_snoc; now left | right]. rewrite lookupE_removeE, E. exact W.
    + apply fl_ext; [left; reflexivity | exact V4].
    + intros x L X. rewrite lookupE_removeE in L. destruct (entry_eqb e x) eqn:E; [contradiction|].
      apply in_snoc in X. destruct X as [X | X]; [eapply V5; eauto|]. inversion X; subst. rewrite entry_eqb_refl in E. discriminate.
    + intros x X. apply in_snoc in X. destruct X as [X | X]; [auto | discriminate].
    + intros x X. apply in_snoc. left. apply in_snoc in X. destruct X as [X | X]; [auto|]. inversion X; subst.
      destruct (V8 _ _ LE) as (p1 & p2 & -> & _). apply in_or_app. right. now left.
    + intros x c0 L. rewrite lookupE_removeE in L. destruct (entry_eqb e x); [discriminate|].
      apply (stamp_ext p (EWrite e) (fun y => lookupE y (a_unw a))); auto.
    + intros x Hin. apply in_snoc. left. auto.
  - (* EFlushCall *)
    destruct (mem_N c (f_in (a_fl a))); [discriminate|]. inversion Hs; subst a'; clear Hs.
    constructor; cbn; auto.
    + eapply ret_ext; eauto; discriminate.
    + intros x Hin. destruct (V3 _ Hin) as [W | W]; [left; apply in_snoc; now left | now right].
    + destruct (f_first (a_fl a)) as [f|] eqn:FF.
      * apply fl_ext; [right; discriminate | exact V4].
      * cbn in V4. exists p, (EFlushCall c), []. repeat split; auto.
    + intros x L X. apply in_snoc in X. destruct X as [X | X]; [eapply V5; eauto | discriminate].
    + intros x X. apply in_snoc in X. destruct X as [X | X]; [auto | discriminate].
    + intros x X. apply in_snoc in X. destruct X as [X | X]; [|discriminate]. apply in_snoc. left. auto.
    + apply (stamp_ext p (EFlushCall c) (fun y => lookupE y (a_unw a))); auto.
    + intros x Hin. apply in_snoc. left. auto.
  - (* EFlushRet *)
    assert (X : a_t a' = a_t a + 1 /\ a_fly a' = a_fly a /\ a_next a' = a_next a /\ a_unw a' = a_unw a /\ a_ret a' = a_ret a /\
                f_first (a_fl a') = f_first (a_fl a)).
    { destruct (mem_N c (f_in (a_fl a))); [|discriminate].
      destruct b; [destruct (f_first (a_fl a)); [|discriminate]; destruct (forallb _ _); [|discriminate]|];
        inversion Hs; subst; cbn; repeat split. }
    destruct X as (X1 & X2 & X3 & X4 & X5 & X6). clear Hs.
    constructor; rewrite ?X1, ?X2, ?X3, ?X4, ?X5, ?X6; auto.
    + eapply ret_ext; eauto; discriminate.
    + intros x Hin. destruct (V3 _ Hin) as [W | W]; [left; apply in_snoc; now left | now right].
    + apply fl_ext; [left; reflexivity | exact V4].
    + intros x L X. apply in_snoc in X. destruct X as [X | X]; [eapply V5; eauto | discriminate].
    + intros x X. apply in_snoc in X. destruct X as [X | X]; [auto | discriminate].
    + intros x X. apply in_snoc in X. destruct X as [X | X]; [|discriminate]. apply in_snoc. left. auto.
    + apply (stamp_ext p (EFlushRet c b) (fun y => lookupE y (a_unw a))); auto.
    + intros x Hin. apply in_snoc. left. auto.
Qed.

Record AInv2 (p : list event) : Prop := mkAInv2 {
  w_nodup : forall p1 e p2, p = p1 ++ ECall e :: p2 -> ~ In (ECall e) p1;
  w_ret_called : forall p1 e p2, p = p1 ++ ERet e :: p2 -> In (ECall e) p1
}.
Lemma AInv2_init : AInv2 [].
Proof. constructor; intros p1 e p2 H; destruct p1; discriminate. Qed.

Lemma AInv2_step p a ev a' : AInv p a -> AInv2 p -> astep a ev = Some a' -> AInv2 (p ++ [ev]).
Proof.
  intros V [W1 W2] Hs. constructor; intros p1 x p2 H; apply snoc_decomp in H as H'; destruct H' as [-> | [p2' [-> E]]]; eauto.
  - apply app_inj_tail in H. destruct H as [-> ->]. unfold astep in Hs.
    destruct (negb _ && _) eqn:C in Hs; [|discriminate]. apply andb_true_iff in C. destruct C as [_ C]. apply N.eqb_eq in C.
    intros X. apply (v_called _ _ V) in X. lia.
  - apply app_inj_tail in H. destruct H as [-> ->]. unfold astep in Hs.
    destruct (mem_entry x (a_fly a)) eqn:M; [|discriminate]. apply mem_entry_true in M. apply (v_fly_called _ _ V _ M).
Qed.

Lemma arun_AInv tr : forall p a a', AInv p a -> AInv2 p -> arun a tr = Some a' -> AInv (p ++ tr) a' /\ AInv2 (p ++ tr).
Proof.
  induction tr as [|ev tr IH]; intros p a a' V W H; cbn in H.
  - inversion H; subst. rewrite app_nil_r. auto.
  - destruct (astep a ev) as [a1|] eqn:E; [|discriminate].
    replace (p ++ ev :: tr) with ((p ++ [ev]) ++ tr) by (rewrite <- app_assoc; reflexivity).
    eapply IH; eauto; [eapply AInv_step; eauto | eapply AInv2_step; eauto].
Qed.

(* the state of the machine in front of an accepted event *)
Lemma accepts_at p ev rest : accepts (p ++ ev :: rest) = true ->
  exists a a', AInv p a /\ AInv2 p /\ astep a ev = Some a'.
Proof.
  unfold accepts. rewrite (arun_app ainit p ainit) by reflexivity.
  destruct (arun ainit p) as [a|] eqn:A; [|discriminate]. cbn [arun]. destruct (astep a ev) as [a'|] eqn:S; [|discriminate].
  intros _. destruct (arun_AInv _ _ _ _ AInv_init AInv2_init A) as [V W]. exists a, a'. auto.
Qed.

Lemma unique_split2 {A} (X : A) a : forall b a' b', a ++ X :: b = a' ++ X :: b' -> ~ In X a -> ~ In X a' -> a = a'.
Proof.
  induction a as [|y a IH]; intros b a' b' H N1 N2; destruct a' as [|y' a'']; cbn in *.
  - reflexivity.
  - inversion H; subst. exfalso. apply N2. now left.
  - inversion H; subst. exfalso. apply N1. now left.
  - inversion H; subst. f_equal. eapply IH; eauto.
Qed.

(* an accepted trace satisfies the property: completeness at the acknowledged return ... *)
Theorem accepts_complete t1 c t2 c' t3 :
  accepts (t1 ++ EFlushCall c :: t2 ++ EFlushRet c' true :: t3) = true -> existsb is_fcall t1 = false ->
  forall e, In (ERet e) t1 -> In (EWrite e) (t1 ++ EFlushCall c :: t2).
Proof.
  intros H NF e He.
  replace (t1 ++ EFlushCall c :: t2 ++ EFlushRet c' true :: t3) with ((t1 ++ EFlushCall c :: t2) ++ EFlushRet c' true :: t3) in H
    by (rewrite <- app_assoc; reflexivity).
  destruct (accepts_at _ _ _ H) as (a & a' & V & _ & S).
  apply in_split in He. destruct He as (u & v & ->).
  destruct (v_ret _ _ V u e (v ++ EFlushCall c :: t2)) as [W | W]; [rewrite <- app_assoc; reflexivity | exact W |].
  exfalso. unfold astep in S. pose proof (v_fl _ _ V) as F. destruct (mem_N c' (f_in (a_fl a))); [|discriminate].
  destruct (f_first (a_fl a)) as [f|]; [|discriminate].
  destruct (forallb _ _) eqn:FB in S; [|discriminate]. rewrite forallb_forall in FB. specialize (FB _ W). cbn in FB.
  apply N.ltb_lt in FB. destruct F as (p1 & x & p2 & E & Px & -> & N1).
  apply (first_split_unique is_fcall) in E; auto. subst p1. rewrite app_length in FB. cbn in FB. lia.
Qed.

(* ... exactly once, and only what was submitted ... *)
Theorem accepts_once a e b : accepts (a ++ EWrite e :: b) = true -> ~ In (EWrite e) a /\ In (ECall e) a.
Proof.
  intros H. destruct (accepts_at _ _ _ H) as (s & s' & V & _ & S). unfold astep in S.
  destruct (lookupE e (a_unw s)) as [c|] eqn:L; [|discriminate]. split.
  - apply (v_unw_nw _ _ V). rewrite L. discriminate.
  - destruct (v_unw_stamp _ _ V _ _ L) as (p1 & p2 & -> & _). apply in_or_app. right. now left.
Qed.

(* ... in FIFO order with respect to real time (hence in per-goroutine order) *)
Theorem accepts_fifo a1 e1 a2 e2 a3 b :
  accepts (a1 ++ ERet e1 :: a2 ++ ECall e2 :: a3 ++ EWrite e2 :: b) = true ->
  In (EWrite e1) (a1 ++ ERet e1 :: a2 ++ ECall e2 :: a3).
Proof.
  intros H.
  replace (a1 ++ ERet e1 :: a2 ++ ECall e2 :: a3 ++ EWrite e2 :: b)
    with ((a1 ++ ERet e1 :: a2 ++ ECall e2 :: a3) ++ EWrite e2 :: b) in H
    by (rewrite <- !app_assoc; cbn; rewrite <- !app_assoc; reflexivity).
  destruct (accepts_at _ _ _ H) as (s & s' & V & W & S).
  set (p := a1 ++ ERet e1 :: a2 ++ ECall e2 :: a3) in *.
  assert (Ep : p = (a1 ++ ERet e1 :: a2) ++ ECall e2 :: a3) by (unfold p; rewrite <- app_assoc; reflexivity).
  destruct (v_ret _ _ V a1 e1 (a2 ++ ECall e2 :: a3) eq_refl) as [X | X]; [exact X | exfalso].
  unfold astep in S. destruct (lookupE e2 (a_unw s)) as [c|] eqn:L; [|discriminate].
  destruct (negb _ && _) eqn:C in S; [|discriminate]. apply andb_true_iff in C. destruct C as [_ FB].
  rewrite forallb_forall in FB. specialize (FB _ X). cbn in FB.
  destruct (v_unw_stamp _ _ V _ _ L) as (p1 & p2 & E & ->).
  assert (P1 : p1 = a1 ++ ERet e1 :: a2).
  { pose proof (w_nodup _ W _ _ _ E) as N1. pose proof (w_nodup _ W _ _ _ Ep) as N2.
    assert (E2 : p1 ++ ECall e2 :: p2 = (a1 ++ ERet e1 :: a2) ++ ECall e2 :: a3) by (rewrite <- E, <- Ep; reflexivity).
    eapply unique_split2; eauto. }
  apply orb_true_iff in FB. destruct FB as [FB | FB].
  - apply entry_eqb_eq in FB. subst e2. pose proof (w_ret_called _ W a1 e1 _ eq_refl) as Hc.
    apply (w_nodup _ W _ _ _ Ep). apply in_or_app. now left.
  - apply N.ltb_lt in FB. subst p1. rewrite app_length in FB. cbn in FB. lia.
Qed.

Example accepts_complete_instance :
  accepts ([ECall e00; ERet e00] ++ EFlushCall 0 :: [EWrite e00] ++ EFlushRet 0 true :: []) = true.
Proof. vm_compute. reflexivity. Qed.

(* ---------- a later FlushLogger call: the full-strength statement without "first call" is false of the code ---------- *)

Definition flush_complete_any_call_statement : Prop := forall cap l1 c l2 c' l3 s,
  run cap init (l1 ++ FlushCall c :: l2 ++ FlushRet c' true :: l3) = Some s ->
  forall e, In e (rets_of l1) -> In e (writes_of (l1 ++ FlushCall c :: l2)).

Definition sched_second : list label :=
  [LogCall e00; Enq 0; LogRet e00; FlushCall 0; Request 0; PollTake e00; Write e00; PollEmpty; InnerSync; DrainDone; FlushRet 0 true;
   LogCall e01; Enq 0; LogRet e01].

Theorem second_flush_refuted :
  exists cap l1 c l2 l3 e s,
    run cap init (l1 ++ FlushCall c :: l2 ++ FlushRet c true :: l3) = Some s /\ In e (rets_of l1) /\
    ~ In e (writes_of (l1 ++ FlushCall c :: l2 ++ FlushRet c true :: l3)) /\ q s = [e] /\ fl s c = FReturned true.
Proof.
  exists 4, sched_second, 1, [Request 1], [], e01. eexists.
  split; [vm_compute; reflexivity|]. split; [vm_compute; auto|]. split; [|split; reflexivity].
  vm_compute. intros [H | []]. discriminate.
Qed.

Corollary flush_complete_any_call_refuted : ~ flush_complete_any_call_statement.
Proof.
  intros H. destruct second_flush_refuted as (cap & l1 & c & l2 & l3 & e & s & R & He & Nw & _).
  apply Nw. specialize (H _ _ _ _ _ _ _ R e He).
  rewrite writes_of_app in *. cbn [writes_of] in *. apply in_app_or in H. apply in_or_app.
  destruct H as [H | H]; [now left | right]. rewrite writes_of_app. apply in_or_app. now left.
Qed.

(* the specification machine follows the model here too: the trace of that schedule is accepted (it is a behaviour of
   the code), and it is the direct monitor that reports it (known finding) *)
Example second_flush_trace_accepted :
  accepts (visible (sched_second ++ [FlushCall 0; Request 0; FlushRet 0 true])) = true.
Proof. vm_compute. reflexivity. Qed.

(* ---------- concurrent FlushLogger callers (Run's deferred call and CheckPanic in another goroutine, ...) ---------- *)

(* two callers whose calls overlap; the second one calls before anybody has signalled: the completeness theorem applies to
   it (and to the first), whichever of them signals first and whichever return comes first *)
Definition sched_two_callers : list label :=
  [LogCall e00; Enq 0; LogRet e00; FlushCall 0; LogCall e10; Enq 1; LogRet e10; FlushCall 1; Request 1; PollTake e00; Write e00;
   Request 0; PollTake e10; Write e10; PollEmpty; InnerSync; DrainDone; FlushRet 0 true; FlushRet 1 true].
Example two_callers_run : exists s, run 4 init sched_two_callers = Some s /\ written s = [e00; e10] /\
  fl s 0 = FReturned true /\ fl s 1 = FReturned true.
Proof. eexists. vm_compute. repeat split. Qed.
Example two_callers_instance :
  exists l1 l2 l3, sched_two_callers = l1 ++ FlushCall 1 :: l2 ++ FlushRet 0 true :: l3 /\
                   existsb is_request l1 = false /\ rets_of l1 = [e00; e10].
Proof. exists (firstn 7 sched_two_callers), (firstn 9 (skipn 8 sched_two_callers)), [FlushRet 1 true]. vm_compute. repeat split. Qed.
Example two_callers_accepted : accepts (visible sched_two_callers) = true.
Proof. vm_compute. reflexivity. Qed.
(* a second caller returning on the acknowledgement while an entry returned before the first call is unwritten is rejected *)
Example two_callers_lossy_rejected :
  accepts [ECall e00; ERet e00; EFlushCall 0; EFlushCall 1; EFlushRet 1 true] = false.
Proof. vm_compute. reflexivity. Qed.
(* the same caller calling again after its call returned (the harness's "second" scenario) is a behaviour of the model *)
Example same_caller_again_accepted :
  accepts (visible (sched_second ++ [FlushCall 0; Request 0; FlushRet 0 true])) = true.
Proof. vm_compute. reflexivity. Qed.

(* the "first call" form of completeness: nobody has called FlushLogger during [l1] (hence nobody has signalled) *)
Definition is_flushcall (l : label) : bool := match l with FlushCall _ => true | _ => false end.
Lemma run_no_call_no_request cap ls : forall s s', run cap s ls = Some s' -> (forall c, fl s c = FNone) ->
  existsb is_flushcall ls = false -> existsb is_request ls = false /\ (forall c, fl s' c = FNone).
Proof.
  induction ls as [|l ls IH]; intros s s' Hr F N. { inversion Hr; subst. auto. }
  rewrite run_cons in Hr. destruct (step cap s l) as [m|] eqn:E; [|discriminate].
  cbn in N. apply orb_false_iff in N. destruct N as [N1 N2].
  assert (X : is_request l = false /\ (forall c, fl m c = FNone)).
  { destruct l; try discriminate; unfold step, gstep, take in E; rewrite ?F in E; try discriminate; crush_step E; auto. }
  destruct X as [X1 X2]. destruct (IH _ _ Hr X2 N2) as [A B]. split; [cbn; rewrite X1, A; reflexivity | exact B].
Qed.
Corollary flush_complete_first_call cap l1 c l2 c' l3 s :
  run cap init (l1 ++ FlushCall c :: l2 ++ FlushRet c' true :: l3) = Some s -> existsb is_flushcall l1 = false ->
  forall e, In e (rets_of l1) -> In e (writes_of (l1 ++ FlushCall c :: l2)).
Proof.
  intros H N. destruct (run_split _ _ _ _ _ _ H) as (s1 & _ & R1 & _ & _).
  destruct (run_no_call_no_request _ _ _ _ R1 (fun _ => eq_refl) N) as [NR _].
  eapply flush_complete; eauto.
Qed.

(* ---------- the log level: a guard on the accept step, and on nothing else ---------- *)

Theorem accept_guard cap s e l s' : step cap s (LogCallAt e l) = Some s' -> lvl s <= l /\ step cap s (LogCall e) = Some s'.
Proof. apply logcallat_is_logcall. Qed.
Theorem filtered_call_submits_nothing cap s g l s' : step cap s (LogFiltered g l) = Some s' -> l < lvl s /\ s' = s.
Proof. intros H. destruct (logfiltered_nop _ _ _ _ _ H) as (A & _ & B). auto. Qed.

Definition with_lvl (s : st) (n : N) : st :=
  mk (q s) (fp s) (req s) (fl s) (lp s) (cnt s) (hist s) (written s) (retd s) (pre_req s) n.

(* changing the level changes the level *)
Theorem set_level_touches_nothing_else cap s n s' : step cap s (SetLevel n) = Some s' -> s' = with_lvl s n.
Proof. unfold step, gstep. intros H. inversion H. reflexivity. Qed.

(* every step of the flusher (receive, Write, the selects, the acknowledgement), every Enq / LogRet and every FlushLogger
   step is enabled, and has the same effect, whatever the level is: what was accepted is written regardless of later
   SetLevel calls *)
Definition level_blind (l : label) : bool :=
  match l with LogCallAt _ _ | LogFiltered _ _ | SetLevel _ => false | _ => true end.
Theorem level_consulted_only_at_accept cap s n l : level_blind l = true ->
  step cap (with_lvl s n) l = match step cap s l with Some s' => Some (with_lvl s' n) | None => None end.
Proof.
  intros B. destruct l; try discriminate; unfold step, gstep, take, with_lvl; cbn;
    repeat match goal with |- context [match ?x with _ => _ end] => destruct x end; reflexivity.
Qed.

(* accepted at DEBUG, then the level is raised to ERROR while the entry is queued; a WriteLog call (no level) at level ERROR;
   a filtered Info call: the flush writes both accepted entries *)
Definition sched_levels : list label :=
  [LogCallAt e00 0; Enq 0; LogRet e00; SetLevel 3; LogFiltered 0 1; LogCall e01; Enq 0; LogRet e01; FlushCall 0; Request 0;
   PollTake e00; Write e00; PollTake e01; Write e01; PollEmpty; InnerSync; DrainDone; FlushRet 0 true].
Example levels_run : exists s, run 4 init sched_levels = Some s /\ written s = [e00; e01] /\ lvl s = 3 /\ q s = [].
Proof. eexists. vm_compute. repeat split. Qed.
Example levels_accepted : accepts (visible sched_levels) = true.
Proof. vm_compute. reflexivity. Qed.
Example debug_call_refused_at_error : step 4 (with_lvl init 3) (LogCallAt e00 0) = None /\
  step 4 (with_lvl init 3) (LogFiltered 0 3) = None /\ step 4 (with_lvl init 3) (LogFiltered 0 2) = Some (with_lvl init 3).
Proof. vm_compute. repeat split. Qed.
