(* C20 — model of the REPAIRED tars/util/rogger log queue / flusher / FlushLogger protocol
   (logger.go: Writef / WriteLog, flushLog, FlushLogger, after `fix: FlushLogger can lose entries logged
   just before the flush`). Definitions only; proofs are in FlushProofs.v.

   A labelled transition system, one label per shared-memory action:

     any goroutine         rogger.SetLevel(l)                                   SetLevel l  (internal)
     logging goroutine g   Writef at level l, l below the level now: return     LogFiltered g l (internal; nothing submitted)
                           Writef at level l, accepted (level checked HERE      LogCallAt e l (visible as the call of e)
                             and nowhere else); WriteLog/Trace (no level):
                           format the entry                                     LogCall e   (visible: the call begins)
                                                    logQueue <- v               Enq g       (internal; blocks while the queue is full)
                                                    return                      LogRet e    (visible)
     FlushLogger caller c  call (any number of concurrent callers; each may   FlushCall c (visible)
                             call again after its call returned)
                           syncCancel()   (idempotent)                          Request c   (internal)
                           select { <-time.After(1s) | <-asyncDone.Done() }     FlushRet c b (visible; b = woken by asyncDone)
     flusher (flushLog)    select { v := <-logQueue | default }                 PollTake e / PollEmpty   (internal)
                           [verifYield()]                                        (no-op)
                           select { v := <-logQueue | <-syncDone }              InnerTake e / InnerSync  (internal)
                           for { select { v := <-logQueue | default -> asyncCancel(); return } }
                                                                                DrainTake e / DrainDone  (internal)
                           v.writer.Write(v.value)   after each receive         Write e     (visible)
   Go's select picks any ready case: InnerTake and InnerSync may both be enabled; the label sequence is the
   scheduler and is universally quantified in the theorems. [cap] is cap(logQueue). Between a receive and
   the Write the flusher holds the entry (pcs HoldT / HoldD): it is neither queued nor written. The writer's
   Write is called with the whole buffer of one entry: a Write label is one (undivided) Write of that entry
   on the entry's own writer (the entry carries its writer, as logValue does).                              *)
From Coq Require Import List NArith Bool.
Import ListNotations.
Open Scope N_scope.

(* an entry: logging goroutine, per-goroutine sequence number, writer it is addressed to *)
Record entry := mkE { eg : N; en : N; ew : N }.
Definition entry_eqb (a b : entry) : bool := (eg a =? eg b) && (en a =? en b) && (ew a =? ew b).

Inductive lpc := LIdle | LSending (e : entry) | LSent (e : entry).
Inductive fpc := Top | Inner | Drain | Done | HoldT (e : entry) | HoldD (e : entry).   (* HoldT: back to Top after the Write; HoldD: back to the drain loop *)
(* one FlushLogger caller (Run's deferred call, CheckPanic in any goroutine, the application): not calling, called,
   has signalled, returned; a caller may call again after its call returned *)
Inductive flpc := FNone | FCalled | FRequested | FReturned (done : bool).

Inductive label :=
| LogCall (e : entry) | Enq (g : N) | LogRet (e : entry)
| SetLevel (l : N) | LogCallAt (e : entry) (l : N) | LogFiltered (g : N) (l : N)
| FlushCall (c : N) | Request (c : N) | FlushRet (c : N) (done : bool)
| PollTake (e : entry) | PollEmpty | InnerTake (e : entry) | InnerSync | DrainTake (e : entry) | DrainDone
| Write (e : entry).

Record st := mk {
  q : list entry;          (* logQueue's buffer *)
  fp : fpc;                (* flusher's program counter *)
  req : bool;              (* syncDone cancelled *)
  fl : N -> flpc;          (* FlushLogger callers *)
  lp : N -> lpc;           (* logging goroutines *)
  cnt : N -> N;            (* next sequence number of each goroutine *)
  (* ghost history *)
  hist : list entry;       (* everything enqueued, in queue order *)
  written : list entry;    (* every Write, in order *)
  retd : list entry;       (* entries whose logging call has returned *)
  pre_req : list entry;    (* hist at the moment of the first syncCancel() *)
  lvl : N                  (* the global log level: 0 DEBUG, 1 INFO, 2 WARN, 3 ERROR, 4 OFF *)
}.

Definition upd {A} (f : N -> A) (g : N) (v : A) : N -> A := fun x => if x =? g then v else f x.

Definition init : st :=
  mk [] Top false (fun _ => FNone) (fun _ => LIdle) (fun _ => 0) [] [] [] [] 0.

(* a receive: the head of the queue becomes the held entry *)
Definition take (s : st) (e : entry) (at_pc next : fpc) : option st :=
  match fp s, q s with
  | p, e' :: r =>
      if match p, at_pc with Top, Top | Inner, Inner | Drain, Drain => true | _, _ => false end && entry_eqb e e'
      then Some (mk r next (req s) (fl s) (lp s) (cnt s) (hist s) (written s) (retd s) (pre_req s) (lvl s))
      else None
  | _, [] => None
  end.

(* [drain = true] is the repaired code; [drain = false] the code before the fix (InnerSync returns at once) *)
Definition gstep (drain : bool) (cap : N) (s : st) (l : label) : option st :=
  match l with
  | LogCall e =>
      match lp s (eg e) with
      | LIdle => if en e =? cnt s (eg e)
                 then Some (mk (q s) (fp s) (req s) (fl s) (upd (lp s) (eg e) (LSending e)) (upd (cnt s) (eg e) (cnt s (eg e) + 1))
                               (hist s) (written s) (retd s) (pre_req s) (lvl s))
                 else None
      | _ => None
      end
  | Enq g =>
      match lp s g with
      | LSending e => if N.of_nat (length (q s)) <? cap
                      then Some (mk (q s ++ [e]) (fp s) (req s) (fl s) (upd (lp s) g (LSent e)) (cnt s)
                                    (hist s ++ [e]) (written s) (retd s) (pre_req s) (lvl s))
                      else None
      | _ => None
      end
  | LogRet e =>
      match lp s (eg e) with
      | LSent e' => if entry_eqb e e'
                    then Some (mk (q s) (fp s) (req s) (fl s) (upd (lp s) (eg e) LIdle) (cnt s)
                                  (hist s) (written s) (e' :: retd s) (pre_req s) (lvl s))
                    else None
      | _ => None
      end
  | SetLevel l =>   (* rogger.SetLevel: a plain store to the global level, at any time *)
      Some (mk (q s) (fp s) (req s) (fl s) (lp s) (cnt s) (hist s) (written s) (retd s) (pre_req s) l)
  | LogCallAt e l =>   (* Writef at level l: accepted iff l is not below the level NOW; from here on it is LogCall *)
      if lvl s <=? l then
        match lp s (eg e) with
        | LIdle => if en e =? cnt s (eg e)
                   then Some (mk (q s) (fp s) (req s) (fl s) (upd (lp s) (eg e) (LSending e)) (upd (cnt s) (eg e) (cnt s (eg e) + 1))
                                 (hist s) (written s) (retd s) (pre_req s) (lvl s))
                   else None
        | _ => None
        end
      else None
  | LogFiltered g l =>   (* Writef at a level below the current one: the call returns, nothing is submitted *)
      match lp s g with
      | LIdle => if l <? lvl s then Some s else None
      | _ => None
      end
  | FlushCall c =>
      match fl s c with
      | FNone | FReturned _ =>
          Some (mk (q s) (fp s) (req s) (upd (fl s) c FCalled) (lp s) (cnt s) (hist s) (written s) (retd s) (pre_req s) (lvl s))
      | _ => None
      end
  | Request c =>
      match fl s c with
      | FCalled =>   (* syncCancel(): only the first one has an effect *)
          Some (mk (q s) (fp s) true (upd (fl s) c FRequested) (lp s) (cnt s) (hist s) (written s) (retd s)
                   (if req s then pre_req s else hist s) (lvl s))
      | _ => None
      end
  | FlushRet c b =>
      match fl s c with
      | FRequested =>
          if negb b || match fp s with Done => true | _ => false end
          then Some (mk (q s) (fp s) (req s) (upd (fl s) c (FReturned b)) (lp s) (cnt s) (hist s) (written s) (retd s) (pre_req s) (lvl s))
          else None
      | _ => None
      end
  | PollTake e => take s e Top (HoldT e)
  | PollEmpty =>
      match fp s, q s with
      | Top, [] => Some (mk [] Inner (req s) (fl s) (lp s) (cnt s) (hist s) (written s) (retd s) (pre_req s) (lvl s))
      | _, _ => None
      end
  | InnerTake e => take s e Inner (HoldT e)
  | InnerSync =>
      match fp s with
      | Inner => if req s
                 then Some (mk (q s) (if drain then Drain else Done) (req s) (fl s) (lp s) (cnt s)
                               (hist s) (written s) (retd s) (pre_req s) (lvl s))
                 else None
      | _ => None
      end
  | DrainTake e => take s e Drain (HoldD e)
  | DrainDone =>
      match fp s, q s with
      | Drain, [] => Some (mk [] Done (req s) (fl s) (lp s) (cnt s) (hist s) (written s) (retd s) (pre_req s) (lvl s))
      | _, _ => None
      end
  | Write e =>
      match fp s with
      | HoldT e' => if entry_eqb e e'
                    then Some (mk (q s) Top (req s) (fl s) (lp s) (cnt s) (hist s) (written s ++ [e']) (retd s) (pre_req s) (lvl s))
                    else None
      | HoldD e' => if entry_eqb e e'
                    then Some (mk (q s) Drain (req s) (fl s) (lp s) (cnt s) (hist s) (written s ++ [e']) (retd s) (pre_req s) (lvl s))
                    else None
      | _ => None
      end
  end.

(* the entry the flusher has received and not yet written; what is submitted to the queue and not yet written *)
Definition heldp (p : fpc) : list entry := match p with HoldT e | HoldD e => [e] | _ => [] end.
Definition held (s : st) : list entry := heldp (fp s).
Definition pend (s : st) : list entry := heldp (fp s) ++ q s.

Definition step := gstep true.

Fixpoint grun (drain : bool) (cap : N) (s : st) (ls : list label) : option st :=
  match ls with
  | [] => Some s
  | l :: r => match gstep drain cap s l with Some s' => grun drain cap s' r | None => None end
  end.
Definition run := grun true.

(* the flusher's own labels, and how many of them a schedule contains *)
Definition flusher_label (l : label) : Prop :=
  match l with PollTake _ | PollEmpty | InnerTake _ | InnerSync | DrainTake _ | DrainDone | Write _ => True | _ => False end.
Definition is_flusher (l : label) : bool :=
  match l with PollTake _ | PollEmpty | InnerTake _ | InnerSync | DrainTake _ | DrainDone | Write _ => true | _ => false end.
Fixpoint flusher_steps (ls : list label) : nat :=
  match ls with [] => 0 | l :: r => (if is_flusher l then 1 else 0) + flusher_steps r end%nat.

(* ---------- what an observer of the implementation sees ---------- *)

Inductive event := ECall (e : entry) | ERet (e : entry) | EWrite (e : entry) | EFlushCall (c : N) | EFlushRet (c : N) (done : bool).

Definition vis (l : label) : option event :=
  match l with
  | LogCall e | LogCallAt e _ => Some (ECall e)
  | LogRet e => Some (ERet e)
  | Write e => Some (EWrite e)
  | FlushCall c => Some (EFlushCall c)
  | FlushRet c b => Some (EFlushRet c b)
  | SetLevel _ | LogFiltered _ _ | Enq _ | Request _ | PollTake _ | PollEmpty | InnerTake _ | InnerSync | DrainTake _ | DrainDone => None
  end.

Fixpoint visible (ls : list label) : list event :=
  match ls with
  | [] => []
  | l :: r => match vis l with Some e => e :: visible r | None => visible r end
  end.

(* label-sequence projections used by the theorems *)
Fixpoint writes_of (ls : list label) : list entry :=
  match ls with
  | [] => []
  | Write e :: r => e :: writes_of r
  | _ :: r => writes_of r
  end.
Fixpoint rets_of (ls : list label) : list entry :=
  match ls with
  | [] => []
  | LogRet e :: r => e :: rets_of r
  | _ :: r => rets_of r
  end.
Fixpoint calls_of (ls : list label) : list entry :=
  match ls with
  | [] => []
  | (LogCall e | LogCallAt e _) :: r => e :: calls_of r
  | _ :: r => calls_of r
  end.

(* ---------- specification machine on visible traces (trace validation) ----------
   The time of an event is its index. The machine remembers, for every entry that has been submitted and not
   yet written, when its call began, and for those whose call has also returned, when it returned.
     EWrite e      e was submitted, is unwritten, the flusher has not finished, and no other unwritten entry's
                   call returned before e's call began (the queue is FIFO: such an entry was enqueued first);
     EFlushRet c tt  no entry whose call returned before the FIRST EFlushCall (of any caller) is still unwritten; no Write
                   afterwards (FlushLogger may be called concurrently and again: every call returns on the one
                   acknowledgement, and nothing more is promised — the flusher has returned; known finding "second flush").
   Per-goroutine order and exactly-once follow (a goroutine's next call begins after its previous one returned). *)

(* time of the first FlushLogger call of any caller; callers whose call is in progress *)
Record afl := mkFl { f_first : option N; f_in : list N }.
Definition mem_N (c : N) (l : list N) : bool := existsb (N.eqb c) l.

Record ast := mkA {
  a_t : N;
  a_fly : list entry;            (* calls in progress *)
  a_next : list (N * N);         (* goroutine -> next sequence number (absent = 0) *)
  a_unw : list (entry * N);      (* submitted, unwritten: entry, time its call began *)
  a_ret : list (entry * N);      (* of those, the ones whose call returned: entry, time of the return; ascending *)
  a_fl : afl;
  a_done : bool                  (* the flusher has acknowledged the flush and returned *)
}.

Definition ainit : ast := mkA 0 [] [] [] [] (mkFl None []) false.

Fixpoint lookupN (k : N) (m : list (N * N)) : N :=
  match m with [] => 0 | (k', v) :: r => if k =? k' then v else lookupN k r end.
Fixpoint setN (k v : N) (m : list (N * N)) : list (N * N) :=
  match m with [] => [(k, v)] | (k', v') :: r => if k =? k' then (k, v) :: r else (k', v') :: setN k v r end.
Fixpoint lookupE (e : entry) (m : list (entry * N)) : option N :=
  match m with [] => None | (e', v) :: r => if entry_eqb e e' then Some v else lookupE e r end.
Definition removeE (e : entry) (m : list (entry * N)) : list (entry * N) :=
  filter (fun p => negb (entry_eqb e (fst p))) m.
Definition mem_entry (e : entry) (l : list entry) : bool := existsb (entry_eqb e) l.
Definition busy (g : N) (l : list entry) : bool := existsb (fun e => eg e =? g) l.

Definition astep (a : ast) (ev : event) : option ast :=
  let t := a_t a in
  match ev with
  | ECall e =>
      if negb (busy (eg e) (a_fly a)) && (en e =? lookupN (eg e) (a_next a))
      then Some (mkA (t + 1) (e :: a_fly a) (setN (eg e) (en e + 1) (a_next a)) (a_unw a ++ [(e, t)]) (a_ret a) (a_fl a) (a_done a))
      else None
  | ERet e =>
      if mem_entry e (a_fly a)
      then Some (mkA (t + 1) (filter (fun x => negb (entry_eqb e x)) (a_fly a)) (a_next a) (a_unw a)
                     (match lookupE e (a_unw a) with Some _ => a_ret a ++ [(e, t)] | None => a_ret a end) (a_fl a) (a_done a))
      else None
  | EWrite e =>
      match lookupE e (a_unw a) with
      | Some c =>
          if negb (a_done a) && forallb (fun p => entry_eqb e (fst p) || (c <? snd p)) (a_ret a)
          then Some (mkA (t + 1) (a_fly a) (a_next a) (removeE e (a_unw a)) (removeE e (a_ret a)) (a_fl a) (a_done a))
          else None
      | None => None
      end
  | EFlushCall c =>
      if mem_N c (f_in (a_fl a)) then None
      else Some (mkA (t + 1) (a_fly a) (a_next a) (a_unw a) (a_ret a)
                     (mkFl (match f_first (a_fl a) with Some f => Some f | None => Some t end) (c :: f_in (a_fl a))) (a_done a))
  | EFlushRet c b =>
      if mem_N c (f_in (a_fl a)) then
        let fl' := mkFl (f_first (a_fl a)) (filter (fun x => negb (c =? x)) (f_in (a_fl a))) in
        if b then
          match f_first (a_fl a) with
          | Some f => if forallb (fun p => f <? snd p) (a_ret a)
                      then Some (mkA (t + 1) (a_fly a) (a_next a) (a_unw a) (a_ret a) fl' true)
                      else None
          | None => None
          end
        else Some (mkA (t + 1) (a_fly a) (a_next a) (a_unw a) (a_ret a) fl' (a_done a))
      else None
  end.

Fixpoint arun (a : ast) (tr : list event) : option ast :=
  match tr with
  | [] => Some a
  | ev :: r => match astep a ev with Some a' => arun a' r | None => None end
  end.

Definition accepts (tr : list event) : bool :=
  match arun ainit tr with Some _ => true | None => false end.

(* index of the first rejected event (diagnostic, printed into replays by hand) *)
Fixpoint reject_at (a : ast) (tr : list event) (i : N) : option N :=
  match tr with
  | [] => None
  | ev :: r => match astep a ev with Some a' => reject_at a' r (i + 1) | None => Some i end
  end.

(* ---------- case files written by the harness ---------- *)
(* an event is (kind, g, n, w): 0 call, 1 return, 2 write, 3 FlushLogger called by caller g, 4 its call returned
   (flusher done), 5 returned (timer) *)
Definition decode_event (x : N * N * N * N) : option event :=
  let '(k, g, n, w) := x in
  match k with
  | 0 => Some (ECall (mkE g n w))
  | 1 => Some (ERet (mkE g n w))
  | 2 => Some (EWrite (mkE g n w))
  | 3 => Some (EFlushCall g)
  | 4 => Some (EFlushRet g true)
  | 5 => Some (EFlushRet g false)
  | _ => None
  end.
Fixpoint decode_trace (l : list (N * N * N * N)) : option (list event) :=
  match l with
  | [] => Some []
  | x :: r => match decode_event x, decode_trace r with
              | Some e, Some t => Some (e :: t)
              | _, _ => None
              end
  end.

(* a case: the verdict the harness expects (true for a recorded trace of the implementation; false for a
   recorded trace from which the harness deleted a required Write) and the trace *)
Definition tcase : Type := bool * list (N * N * N * N).
Definition mkcase (expect : bool) (l : list (N * N * N * N)) : tcase := (expect, l).
Definition case_ok (c : tcase) : bool :=
  match decode_trace (snd c) with
  | Some tr => Bool.eqb (accepts tr) (fst c)
  | None => false
  end.
Fixpoint c20_mismatch_from (i : N) (cs : list tcase) : list N :=
  match cs with
  | [] => []
  | c :: r => if case_ok c then c20_mismatch_from (i + 1) r else i :: c20_mismatch_from (i + 1) r
  end.
Definition c20_mismatch (off : N) (cs : list tcase) : list N := c20_mismatch_from off cs.
