(* C19 — labelled transition system of tars/util/gpool/gpool.go (workers, dispatcher, submitters, Release),
   the abstract specification machine over the events a test harness can observe, and the executable
   trace validator [accepts]. Definitions only; proofs are in GpoolProofs.v.

   Code reading (gpool.go):
     Worker.Start : loop { WorkerQueue <- w ; select { job = <-JobChannel : job() | <-Stop : Stop <- ; return } }
     dispatch     : loop { select { job := <-JobQueue : worker := <-WorkerQueue ; worker.JobChannel <- job
                                  | <-stop : for i < cap(WorkerQueue) { worker := <-WorkerQueue ; worker.Stop <- ; <-worker.Stop } ;
                                             stop <- ; return } }
     Release      : stop <- ; <-stop
     submit       : pool.JobQueue <- job          (buffered, capacity Q; Q = 0: rendez-vous with the dispatcher's select)
   One label per channel operation; unbuffered channels are rendez-vous steps. The instrumentation of the
   harness (a submitter logs submit-call / submit-return around its send, a job logs start / end, the releaser
   logs release-call / release-return) has its own labels, so the observable trace of an execution has exactly
   the slack the real trace has (an event is logged some time before / after the channel operation it brackets). *)
From Coq Require Import List Arith NArith Lia Bool Permutation.
From TarsV Require Import Base.Hex.
Import ListNotations.
Close Scope N_scope.

Definition job := N.

Inductive wpc := WReg | WWait | WGot (j : job) | WRun (j : job) | WEnded (j : job) | WStopping | WDone.
Inductive dpc := DSel | DHave (j : job) | DHand (j : job) (w : nat)
               | DCollect (i : nat) | DStop (i w : nat) | DWaitAck (i w : nat) | DAck | DDone.
Inductive rpc := RNot | RCalled | RSent | RAcked | RDone.

(* what the harness observes *)
Inductive event := ESubCall (j : job) | ESubRet (j : job) | EStart (j : job) | EEnd (j : job) | ERelCall | ERelRet.

Record st := mkst {
  jobq : list job;        (* JobQueue, at most Q *)
  wq : list nat;          (* WorkerQueue *)
  wk : list wpc;          (* program counter of each worker *)
  dp : dpc;               (* dispatcher *)
  rp : rpc;               (* the goroutine calling Release *)
  calling : list job;     (* submit calls that have begun and not yet sent *)
  sentl : list job;       (* sends completed, return not yet logged *)
  (* ghost histories *)
  subm : list job;        (* every job sent into JobQueue *)
  started : list job;     (* every job handed to a worker *)
  fin : list job;         (* every job whose closure returned to the worker loop *)
  clog : list job;        (* submit-call events *)
  rlog : list job;        (* submit-return events *)
  runl : list job;        (* start logged, end not yet logged *)
  dlog : list job }.      (* end events *)

Inductive label :=
| SubCall (j : job) | Submit (j : job) | SubmitH (j : job) | SubRet (j : job)
| WorkerReg (w : nat) | DTake | DWorker | Hand | JStart (w : nat) | JEnd (w : nat) | JobEnd (w : nat)
| RelLog | RelCall | DColTake | DColFin | StopSend | StopAck | RelRet | RelRetLog.

Fixpoint upd {A} (n : nat) (x : A) (l : list A) : list A :=
  match l, n with
  | [], _ => []
  | _ :: r, O => x :: r
  | y :: r, S k => y :: upd k x r
  end.

Definition mem (j : job) (l : list job) : bool := existsb (N.eqb j) l.
(* remove the first occurrence *)
Fixpoint rm (j : job) (l : list job) : list job :=
  match l with [] => [] | x :: r => if N.eqb j x then r else x :: rm j r end.

(* field setters *)
Definition set_jobq s x := mkst x (wq s) (wk s) (dp s) (rp s) (calling s) (sentl s) (subm s) (started s) (fin s) (clog s) (rlog s) (runl s) (dlog s).
Definition set_wq s x := mkst (jobq s) x (wk s) (dp s) (rp s) (calling s) (sentl s) (subm s) (started s) (fin s) (clog s) (rlog s) (runl s) (dlog s).
Definition set_wk s x := mkst (jobq s) (wq s) x (dp s) (rp s) (calling s) (sentl s) (subm s) (started s) (fin s) (clog s) (rlog s) (runl s) (dlog s).
Definition set_dp s x := mkst (jobq s) (wq s) (wk s) x (rp s) (calling s) (sentl s) (subm s) (started s) (fin s) (clog s) (rlog s) (runl s) (dlog s).
Definition set_rp s x := mkst (jobq s) (wq s) (wk s) (dp s) x (calling s) (sentl s) (subm s) (started s) (fin s) (clog s) (rlog s) (runl s) (dlog s).
Definition set_calling s x := mkst (jobq s) (wq s) (wk s) (dp s) (rp s) x (sentl s) (subm s) (started s) (fin s) (clog s) (rlog s) (runl s) (dlog s).
Definition set_sentl s x := mkst (jobq s) (wq s) (wk s) (dp s) (rp s) (calling s) x (subm s) (started s) (fin s) (clog s) (rlog s) (runl s) (dlog s).
Definition set_subm s x := mkst (jobq s) (wq s) (wk s) (dp s) (rp s) (calling s) (sentl s) x (started s) (fin s) (clog s) (rlog s) (runl s) (dlog s).
Definition set_started s x := mkst (jobq s) (wq s) (wk s) (dp s) (rp s) (calling s) (sentl s) (subm s) x (fin s) (clog s) (rlog s) (runl s) (dlog s).
Definition set_fin s x := mkst (jobq s) (wq s) (wk s) (dp s) (rp s) (calling s) (sentl s) (subm s) (started s) x (clog s) (rlog s) (runl s) (dlog s).
Definition set_clog s x := mkst (jobq s) (wq s) (wk s) (dp s) (rp s) (calling s) (sentl s) (subm s) (started s) (fin s) x (rlog s) (runl s) (dlog s).
Definition set_rlog s x := mkst (jobq s) (wq s) (wk s) (dp s) (rp s) (calling s) (sentl s) (subm s) (started s) (fin s) (clog s) x (runl s) (dlog s).
Definition set_runl s x := mkst (jobq s) (wq s) (wk s) (dp s) (rp s) (calling s) (sentl s) (subm s) (started s) (fin s) (clog s) (rlog s) x (dlog s).
Definition set_dlog s x := mkst (jobq s) (wq s) (wk s) (dp s) (rp s) (calling s) (sentl s) (subm s) (started s) (fin s) (clog s) (rlog s) (runl s) x.

Section Pool.
Variable W Q : nat.   (* number of workers, capacity of JobQueue *)

Definition init : st := mkst [] [] (repeat WReg W) DSel RNot [] [] [] [] [] [] [] [] [].

(* the send of a submitter has completed: it leaves [calling], waits to log its return *)
Definition sent_now s j := set_subm (set_sentl (set_calling s (rm j (calling s))) (sentl s ++ [j])) (subm s ++ [j]).

Definition step (s : st) (l : label) : option st :=
  match l with
  | SubCall j =>                       (* a submitter logs submit-call j (job identifiers are fresh) *)
      if mem j (clog s) then None
      else Some (set_clog (set_calling s (calling s ++ [j])) (clog s ++ [j]))
  | Submit j =>                        (* JobQueue <- j into the buffer *)
      if mem j (calling s) && (length (jobq s) <? Q) then Some (set_jobq (sent_now s j) (jobq s ++ [j])) else None
  | SubmitH j =>                       (* JobQueue <- j handed directly to the dispatcher waiting in its select (the only way for Q = 0) *)
      match dp s, jobq s with
      | DSel, [] => if mem j (calling s) then Some (set_dp (sent_now s j) (DHave j)) else None
      | _, _ => None end
  | SubRet j =>                        (* the submitter logs submit-return j *)
      if mem j (sentl s) then Some (set_rlog (set_sentl s (rm j (sentl s))) (rlog s ++ [j])) else None
  | WorkerReg w =>                     (* WorkerQueue <- w *)
      match nth_error (wk s) w with
      | Some WReg => Some (set_wk (set_wq s (wq s ++ [w])) (upd w WWait (wk s)))
      | _ => None end
  | DTake =>                           (* dispatcher: job := <-JobQueue *)
      match dp s, jobq s with
      | DSel, j :: r => Some (set_dp (set_jobq s r) (DHave j))
      | _, _ => None end
  | DWorker =>                         (* dispatcher: worker := <-WorkerQueue *)
      match dp s, wq s with
      | DHave j, w :: r => Some (set_dp (set_wq s r) (DHand j w))
      | _, _ => None end
  | Hand =>                            (* worker.JobChannel <- job, rendez-vous with the worker's select *)
      match dp s with
      | DHand j w =>
          match nth_error (wk s) w with
          | Some WWait => Some (set_started (set_dp (set_wk s (upd w (WGot j) (wk s))) DSel) (started s ++ [j]))
          | _ => None end
      | _ => None end
  | JStart w =>                        (* the job logs start *)
      match nth_error (wk s) w with
      | Some (WGot j) => Some (set_runl (set_wk s (upd w (WRun j) (wk s))) (runl s ++ [j]))
      | _ => None end
  | JEnd w =>                          (* the job logs end (jobs terminate) *)
      match nth_error (wk s) w with
      | Some (WRun j) => Some (set_dlog (set_runl (set_wk s (upd w (WEnded j) (wk s))) (rm j (runl s))) (dlog s ++ [j]))
      | _ => None end
  | JobEnd w =>                        (* job() returns to the worker loop *)
      match nth_error (wk s) w with
      | Some (WEnded j) => Some (set_fin (set_wk s (upd w WReg (wk s))) (fin s ++ [j]))
      | _ => None end
  | RelLog =>                          (* the releaser logs release-call *)
      match rp s with RNot => Some (set_rp s RCalled) | _ => None end
  | RelCall =>                         (* stop <- , rendez-vous with the dispatcher's select *)
      match rp s, dp s with
      | RCalled, DSel => Some (set_rp (set_dp s (DCollect 0)) RSent)
      | _, _ => None end
  | DColTake =>                        (* stop loop: worker := <-WorkerQueue *)
      match dp s, wq s with
      | DCollect i, w :: r => if i <? W then Some (set_dp (set_wq s r) (DStop i w)) else None
      | _, _ => None end
  | DColFin =>                         (* stop loop finished *)
      match dp s with
      | DCollect i => if i =? W then Some (set_dp s DAck) else None
      | _ => None end
  | StopSend =>                        (* worker.Stop <- , rendez-vous with the worker's select *)
      match dp s with
      | DStop i w =>
          match nth_error (wk s) w with
          | Some WWait => Some (set_dp (set_wk s (upd w WStopping (wk s))) (DWaitAck i w))
          | _ => None end
      | _ => None end
  | StopAck =>                         (* <-worker.Stop, the worker returns *)
      match dp s with
      | DWaitAck i w =>
          match nth_error (wk s) w with
          | Some WStopping => Some (set_dp (set_wk s (upd w WDone (wk s))) (DCollect (S i)))
          | _ => None end
      | _ => None end
  | RelRet =>                          (* dispatcher: stop <- ; Release: <-stop ; the dispatcher returns *)
      match dp s, rp s with
      | DAck, RSent => Some (set_rp (set_dp s DDone) RAcked)
      | _, _ => None end
  | RelRetLog =>                       (* the releaser logs release-return *)
      match rp s with RAcked => Some (set_rp s RDone) | _ => None end
  end.

Fixpoint run (s : st) (ls : list label) : option st :=
  match ls with [] => Some s | l :: r => match step s l with Some s' => run s' r | None => None end end.

Definition reachable (s : st) : Prop := exists ls, run init ls = Some s.

(* the observable event of a step *)
Definition ev (s : st) (l : label) : list event :=
  match l with
  | SubCall j => [ESubCall j]
  | SubRet j => [ESubRet j]
  | JStart w => match nth_error (wk s) w with Some (WGot j) => [EStart j] | _ => [] end
  | JEnd w => match nth_error (wk s) w with Some (WRun j) => [EEnd j] | _ => [] end
  | RelLog => [ERelCall]
  | RelRetLog => [ERelRet]
  | _ => []
  end.

(* trace of an execution *)
Fixpoint trace (s : st) (ls : list label) : list event :=
  match ls with
  | [] => []
  | l :: r => match step s l with Some s' => ev s l ++ trace s' r | None => [] end
  end.

(* ---------- derived views ---------- *)
Definition jobs_of (f : wpc -> option job) (l : list wpc) : list job :=
  flat_map (fun p => match f p with Some j => [j] | None => [] end) l.
Definition f_occ p := match p with WGot j | WRun j | WEnded j => Some j | _ => None end.
Definition f_run p := match p with WRun j => Some j | _ => None end.
Definition f_ended p := match p with WEnded j => Some j | _ => None end.
Definition occupying := jobs_of f_occ.     (* jobs that occupy a worker: "running" in the sense of the property *)
Definition held (d : dpc) : list job := match d with DHave j | DHand j _ => [j] | _ => [] end.
Definition pre_release (d : dpc) : bool := match d with DSel | DHave _ | DHand _ _ => true | _ => false end.
Definition ndone (l : list wpc) : nat := length (filter (fun p => match p with WDone => true | _ => false end) l).
Definition internal (l : label) : bool :=   (* steps of the pool's own goroutines, of running jobs and of a Release in progress *)
  match l with SubCall _ | Submit _ | SubmitH _ | SubRet _ | RelLog => false | _ => true end.

(* ---------- invariant ---------- *)
(* structure and job accounting *)
Definition InvA (s : st) : Prop :=
  length (wk s) = W /\
  Permutation (subm s) (jobq s ++ held (dp s) ++ occupying (wk s) ++ fin s) /\
  Permutation (started s) (occupying (wk s) ++ fin s) /\
  NoDup (wq s) /\ (forall w, In w (wq s) -> nth_error (wk s) w = Some WWait) /\
  (forall j w, dp s = DHand j w -> nth_error (wk s) w = Some WWait /\ ~ In w (wq s)) /\
  (forall i w, dp s = DStop i w -> nth_error (wk s) w = Some WWait /\ ~ In w (wq s) /\ ndone (wk s) = i /\ i < W) /\
  (forall i w, dp s = DWaitAck i w -> nth_error (wk s) w = Some WStopping /\ ~ In w (wq s) /\ ndone (wk s) = i /\ i < W) /\
  (forall i, dp s = DCollect i -> ndone (wk s) = i) /\
  ((dp s = DAck \/ dp s = DDone) -> ndone (wk s) = W) /\
  ((rp s = RDone \/ rp s = RAcked) -> dp s = DDone) /\
  ((rp s = RNot \/ rp s = RCalled) -> pre_release (dp s) = true /\ ndone (wk s) = 0).

(* who waits where (needed for the absence of deadlock) *)
Definition InvB (s : st) : Prop :=
  (forall w, nth_error (wk s) w = Some WWait ->
     In w (wq s) \/ (exists j, dp s = DHand j w) \/ (exists i, dp s = DStop i w)) /\
  (forall w, nth_error (wk s) w = Some WStopping -> exists i, dp s = DWaitAck i w) /\
  (pre_release (dp s) = false -> dp s <> DDone -> rp s = RSent) /\
  length (jobq s) <= Q.

(* the logs of the instrumentation *)
Definition InvC (s : st) : Prop :=
  NoDup (clog s) /\
  Permutation (clog s) (calling s ++ sentl s ++ rlog s) /\
  Permutation (subm s) (sentl s ++ rlog s) /\
  Permutation (runl s) (jobs_of f_run (wk s)) /\
  Permutation (dlog s) (jobs_of f_ended (wk s) ++ fin s).

Definition Inv (s : st) : Prop := InvA s /\ InvB s /\ InvC s.
End Pool.

(* ---------- abstract specification machine over observable events ---------- *)
Inductive relst := RelNo | RelCalled | RelReturned.
Record sst := mksst { s_called : list job; s_ret : list job; s_run : list job; s_done : list job; s_rel : relst }.
Definition sinit : sst := mksst [] [] [] [] RelNo.

Definition relst_eqb a b := match a, b with RelNo, RelNo | RelCalled, RelCalled | RelReturned, RelReturned => true | _, _ => false end.

Definition sstep (W : nat) (σ : sst) (e : event) : option sst :=
  match e with
  | ESubCall j => if mem j (s_called σ) then None
                  else Some (mksst (s_called σ ++ [j]) (s_ret σ) (s_run σ) (s_done σ) (s_rel σ))
  | ESubRet j => if mem j (s_called σ) && negb (mem j (s_ret σ))
                 then Some (mksst (s_called σ) (s_ret σ ++ [j]) (s_run σ) (s_done σ) (s_rel σ)) else None
  | EStart j =>  (* submitted, never started before, a worker is free, Release has not returned *)
      if mem j (s_called σ) && negb (mem j (s_run σ)) && negb (mem j (s_done σ))
         && (length (s_run σ) <? W) && negb (relst_eqb (s_rel σ) RelReturned)
      then Some (mksst (s_called σ) (s_ret σ) (s_run σ ++ [j]) (s_done σ) (s_rel σ)) else None
  | EEnd j => if mem j (s_run σ)
              then Some (mksst (s_called σ) (s_ret σ) (rm j (s_run σ)) (s_done σ ++ [j]) (s_rel σ)) else None
  | ERelCall => match s_rel σ with RelNo => Some (mksst (s_called σ) (s_ret σ) (s_run σ) (s_done σ) RelCalled) | _ => None end
  | ERelRet =>   (* Release returns only when no job is running *)
      match s_rel σ, s_run σ with
      | RelCalled, [] => Some (mksst (s_called σ) (s_ret σ) (s_run σ) (s_done σ) RelReturned)
      | _, _ => None end
  end.

Fixpoint sruns (W : nat) (σ : sst) (tr : list event) : option sst :=
  match tr with [] => Some σ | e :: r => match sstep W σ e with Some σ' => sruns W σ' r | None => None end end.

Definition accepts (W : nat) (tr : list event) : bool :=
  match sruns W sinit tr with Some _ => true | None => false end.

(* a run in which the harness waited for every submitted job before it released the pool:
   every job has been started and has finished *)
Definition accepts_complete (W : nat) (tr : list event) : bool :=
  match sruns W sinit tr with
  | Some σ => match s_run σ with [] => length (s_done σ) =? length (s_called σ) | _ => false end
  | None => false end.

Definition starts_of (tr : list event) : list job := flat_map (fun e => match e with EStart j => [j] | _ => [] end) tr.

(* the abstraction function of the refinement *)
Definition relof (r : rpc) : relst := match r with RNot => RelNo | RDone => RelReturned | _ => RelCalled end.
Definition abs (s : st) : sst := mksst (clog s) (rlog s) (runl s) (dlog s) (relof (rp s)).

(* ---------- case files (trace validation of the real pool) ---------- *)
(* a trace is a byte string: three bytes per event, kind then the job number in two bytes *)
Fixpoint decode_trace (l : list N) : list event :=
  match l with
  | k :: a :: b :: r =>
      let j := (a * 256 + b)%N in
      (match k with
       | 0%N => [ESubCall j] | 1%N => [ESubRet j] | 2%N => [EStart j] | 3%N => [EEnd j] | 4%N => [ERelCall] | 5%N => [ERelRet]
       | _ => []     (* kind 6: "the server has read request j", an event of the handler scenarios (Conc/PoolUse.v) *)
       end) ++ decode_trace r
  | _ => []
  end.

(* ---------- FIFO hand-over, observable with one worker ---------- *)
(* With W = 1 the order of start events is the order in which the dispatcher handed the jobs over, which is the order in which
   the sends completed. What a trace shows of that order: a job whose submit-return was logged before the submit-call of b
   was sent before b, so it has started before b starts. [f_snaps] keeps, for every called job, the returns logged before its call. *)
Record fifo_st := mkf { f_ret : list job; f_snaps : list (job * list job); f_started : list job }.
Definition finit : fifo_st := mkf [] [] [].
Definition fstep (φ : fifo_st) (e : event) : option fifo_st :=
  match e with
  | ESubCall b => Some (mkf (f_ret φ) ((b, f_ret φ) :: f_snaps φ) (f_started φ))
  | ESubRet a => Some (mkf (a :: f_ret φ) (f_snaps φ) (f_started φ))
  | EStart b =>
      if forallb (fun sn : job * list job => if N.eqb (fst sn) b then forallb (fun a => mem a (f_started φ)) (snd sn) else true) (f_snaps φ)
      then Some (mkf (f_ret φ) (f_snaps φ) (b :: f_started φ)) else None
  | _ => Some φ
  end.
Fixpoint fruns (φ : fifo_st) (tr : list event) : option fifo_st :=
  match tr with [] => Some φ | e :: r => match fstep φ e with Some φ' => fruns φ' r | None => None end end.
Definition fifo1_ok (tr : list event) : bool := match fruns finit tr with Some _ => true | None => false end.
