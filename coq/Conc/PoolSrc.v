(* C19 — the vocabulary of coq/Gen/C19Src.v (statement outlines and expression trees read from the SOURCE of gpool.go,
   tcphandler.go and udphandler.go on every run by `harness gen-c19src`), the evaluator of the routing conditions, and the
   functions that derive the flags of the shutdown model (Conc/PoolUse.v) from the outlines. Definitions only. *)
From Coq Require Import List String ZArith Bool Arith.
Import ListNotations.
Open Scope string_scope.

Inductive outline := Node : string -> list outline -> outline.
Definition text (o : outline) : string := match o with Node t _ => t end.
Definition kids (o : outline) : list outline := match o with Node _ k => k end.

(* position of the first statement with the given text in a statement list; the statements below it *)
Fixpoint index_of (t : string) (l : list outline) : option nat :=
  match l with
  | [] => None
  | o :: r => if String.eqb (text o) t then Some 0 else option_map S (index_of t r)
  end.
Fixpoint child (t : string) (l : list outline) : option (list outline) :=
  match l with
  | [] => None
  | o :: r => if String.eqb (text o) t then Some (kids o) else child t r
  end.
Definition has (t : string) (l : list outline) : bool := match index_of t l with Some _ => true | None => false end.
Definition before (a b : string) (l : list outline) : bool :=
  match index_of a l, index_of b l with Some i, Some j => Nat.ltb i j | _, _ => false end.
Definition texts (l : list outline) : list string := map text l.

(* ---------- expression trees ---------- *)
Inductive cexpr :=
| CInt (z : Z) | CVar (s : string) | CBin (op : string) (a b : cexpr) | CNot (a : cexpr)
| CConv (t : string) (a : cexpr) | COther (s : string).
Inductive cval := VZ (z : Z) | VB (b : bool).

Fixpoint ceval (env : string -> option Z) (e : cexpr) : option cval :=
  match e with
  | CInt z => Some (VZ z)
  | CVar s => option_map VZ (env s)
  | CNot a => match ceval env a with Some (VB b) => Some (VB (negb b)) | _ => None end
  | CConv t a =>      (* int(x) / int64(x) of an int32: value preserving *)
      if String.eqb t "int" || String.eqb t "int64" then ceval env a else None
  | CBin op a b =>
      match ceval env a, ceval env b with
      | Some (VZ x), Some (VZ y) =>
          if String.eqb op ">" then Some (VB (y <? x)%Z)
          else if String.eqb op ">=" then Some (VB (y <=? x)%Z)
          else if String.eqb op "<" then Some (VB (x <? y)%Z)
          else if String.eqb op "<=" then Some (VB (x <=? y)%Z)
          else if String.eqb op "==" then Some (VB (x =? y)%Z)
          else if String.eqb op "!=" then Some (VB (negb (x =? y)%Z))
          else if String.eqb op "+" then Some (VZ (x + y))
          else if String.eqb op "-" then Some (VZ (x - y))
          else None
      | Some (VB x), Some (VB y) =>
          if String.eqb op "&&" then Some (VB (x && y))
          else if String.eqb op "||" then Some (VB (x || y))
          else None
      | _, _ => None
      end
  | COther _ => None
  end.

(* the configuration a handler sees *)
Definition cfg_env (max_invoke queue_cap : Z) (s : string) : option Z :=
  if String.eqb s "cfg.MaxInvoke" then Some max_invoke
  else if String.eqb s "cfg.QueueCap" then Some queue_cap
  else None.
Definition cond_value (c : cexpr) (max_invoke queue_cap : Z) : option bool :=
  match ceval (cfg_env max_invoke queue_cap) c with Some (VB b) => Some b | _ => None end.
Definition arg_values (l : list cexpr) (max_invoke queue_cap : Z) : list (option cval) :=
  map (ceval (cfg_env max_invoke queue_cap)) l.

(* ---------- what a handler does with a request, read off its outline ---------- *)
Inductive route := ToPool | ToGoroutine.
(* the statement list of handleConn / handleUDPAddr: `if <cond> { pool.JobQueue <- handler } else { go handler() }`;
   [send] is the text of the blocking send *)
Definition routing_shape (send cond_text : string) (body : list outline) : bool :=
  match child cond_text body, child "else" body with
  | Some [Node s []], Some [Node "go handler()" []] => String.eqb s send && before cond_text "else" body
  | _, _ => false
  end.
Definition route_of (c : cexpr) (max_invoke queue_cap : Z) : option route :=
  match cond_value c max_invoke queue_cap with Some true => Some ToPool | Some false => Some ToGoroutine | None => None end.

(* ---------- flags of the shutdown model, read off the outlines of tcpHandler.Handle / handleConn / recv ---------- *)
Record flags := mkflags {
  add_before_go : bool;          (* recvDone.Add(1) is a statement of the accept loop, before the `go` of the connection goroutine *)
  wait_before_release : bool;    (* recvDone.Wait() precedes pool.Release() in the shutdown tail *)
  inc_at_submit : bool }.        (* the in-flight counter is incremented before the request is handed over, not when it starts *)

Definition closed_if := "if atomic.LoadInt32(&t.server.isClosed) == 1".
Definition handle_flags (handle handleconn recv : list outline) : flags :=
  let loop := match child "for" handle with Some l => l | None => [] end in
  let conn := match child "go func" loop with Some l => l | None => [] end in
  let tail := match child "if t.pool != nil" handle with Some l => l | None => [] end in
  let handler := match child "func handler" handleconn with Some l => l | None => [] end in
  let drain := match child "defer func" recv with Some l => match child "range tk.C" l with Some d => d | None => [] end | None => [] end in
  mkflags
    (before "call recvDone.Add(1)" "go func" loop && negb (has "call recvDone.Add(1)" conn)
       && has "defer recvDone.Done()" conn && has "call t.recv(cf)" conn
       && match child closed_if loop with Some [Node "break" []] => true | _ => false end
       && before closed_if "call recvDone.Add(1)" loop)
    (before "call recvDone.Wait()" "call t.pool.Release()" tail && before "for" "if t.pool != nil" handle)
    (before "call atomic.AddInt32(&connSt.numInvoke, 1)" "if cfg.MaxInvoke > 0" handleconn
       && negb (has "call atomic.AddInt32(&connSt.numInvoke, 1)" handler)
       && has "defer atomic.AddInt32(&connSt.numInvoke, -1)" handler
       && match child "if atomic.LoadInt32(&connSt.numInvoke) == 0" drain with Some [Node "break" []] => true | _ => false end).
