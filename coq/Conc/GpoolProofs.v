(* C19 — proofs about the transition system of Gpool.v: inductive invariant over all label sequences, for every
   number of workers W, queue capacity Q, number of submitters, jobs and schedules. *)
From Coq Require Import List Arith NArith Lia Bool Permutation.
From TarsV Require Import Conc.Gpool.
Import ListNotations.

(* ---------- list-update lemmas ---------- *)
Lemma upd_length {A} n (x : A) l : length (upd n x l) = length l.
Proof. revert n; induction l; destruct n; cbn; auto. Qed.
Lemma nth_upd_eq {A} n (x : A) l : n < length l -> nth_error (upd n x l) n = Some x.
Proof. revert n; induction l; destruct n; cbn; intros; try lia; auto. apply IHl; lia. Qed.
Lemma nth_upd_neq {A} n m (x : A) l : n <> m -> nth_error (upd n x l) m = nth_error l m.
Proof. revert n m; induction l; destruct n, m; cbn; intros; try congruence; auto. Qed.
Lemma nth_some_lt {A} (l : list A) n x : nth_error l n = Some x -> n < length l.
Proof. intros H. apply nth_error_Some. congruence. Qed.

Lemma mem_In j l : mem j l = true <-> In j l.
Proof.
  unfold mem. rewrite existsb_exists. split.
  - intros (x & Hx & E). apply N.eqb_eq in E. now subst.
  - intros H. exists j. split; auto. apply N.eqb_refl.
Qed.
Lemma mem_nIn j l : mem j l = false <-> ~ In j l.
Proof. rewrite <- mem_In. destruct (mem j l); split; intros; try congruence; tauto. Qed.
Lemma rm_perm j l : In j l -> Permutation l (j :: rm j l).
Proof.
  induction l as [|x l IH]; cbn; [tauto|]. intros H.
  destruct (N.eqb j x) eqn:E. { apply N.eqb_eq in E. now subst. }
  destruct H as [H|H]. { subst. rewrite N.eqb_refl in E. discriminate. }
  rewrite (IH H) at 1. apply perm_swap.
Qed.

(* ---------- jobs held by workers ---------- *)
Lemma jobs_upd_keep f l : forall w p x, nth_error l w = Some p -> f p = f x -> jobs_of f (upd w x l) = jobs_of f l.
Proof.
  induction l as [|a l IH]; intros [|w] p x H E; cbn in *; try discriminate.
  - inversion H; subst. unfold jobs_of. cbn. now rewrite E.
  - unfold jobs_of in *. cbn. f_equal. eapply IH; eauto.
Qed.
Lemma jobs_upd_add f l : forall w p x j, nth_error l w = Some p -> f p = None -> f x = Some j ->
  Permutation (jobs_of f (upd w x l)) (j :: jobs_of f l).
Proof.
  induction l as [|a l IH]; intros [|w] p x j H Hp Hx; cbn in *; try discriminate.
  - inversion H; subst. unfold jobs_of. cbn. rewrite Hp, Hx. reflexivity.
  - unfold jobs_of in *. cbn. rewrite (IH _ _ _ _ H Hp Hx). rewrite Permutation_middle. reflexivity.
Qed.
Lemma jobs_upd_del f l : forall w p x j, nth_error l w = Some p -> f p = Some j -> f x = None ->
  Permutation (jobs_of f l) (j :: jobs_of f (upd w x l)).
Proof.
  induction l as [|a l IH]; intros [|w] p x j H Hp Hx; cbn in *; try discriminate.
  - inversion H; subst. unfold jobs_of. cbn. rewrite Hp, Hx. reflexivity.
  - unfold jobs_of in *. cbn. rewrite (IH _ _ _ _ H Hp Hx). rewrite Permutation_middle. reflexivity.
Qed.
Lemma jobs_le f l : length (jobs_of f l) <= length l.
Proof. induction l as [|a l IH]; cbn; [lia|]. unfold jobs_of in *. cbn. rewrite app_length. destruct (f a); cbn; lia. Qed.
Lemma jobs_lt f l : forall w p, nth_error l w = Some p -> f p = None -> length (jobs_of f l) < length l.
Proof.
  induction l as [|a l IH]; intros [|w] p H Hp; cbn in *; try discriminate.
  - inversion H; subst. unfold jobs_of. cbn. rewrite Hp. cbn. pose proof (jobs_le f l). unfold jobs_of in *. lia.
  - unfold jobs_of in *. cbn. rewrite app_length. specialize (IH _ _ H Hp). destruct (f a); cbn; lia.
Qed.
Lemma jobs_repeat f n : f WReg = None -> jobs_of f (repeat WReg n) = [].
Proof. intros E. induction n; cbn; auto. unfold jobs_of in *. cbn. now rewrite E. Qed.
Lemma jobs_in f l : forall w p j, nth_error l w = Some p -> f p = Some j -> In j (jobs_of f l).
Proof.
  induction l as [|a l IH]; intros [|w] p j H Hp; cbn in *; try discriminate.
  - inversion H; subst. unfold jobs_of. cbn. rewrite Hp. now left.
  - unfold jobs_of in *. cbn. apply in_or_app. right. eapply IH; eauto.
Qed.

Definition isdone p := match p with WDone => true | _ => false end.
Lemma ndone_upd_same l : forall w p x, nth_error l w = Some p -> isdone p = false -> isdone x = false ->
  ndone (upd w x l) = ndone l.
Proof.
  induction l as [|a l IH]; intros [|w] p x H Hp Hx; cbn in *; try discriminate.
  - inversion H; subst. unfold ndone. cbn. destruct p, x; try discriminate; reflexivity.
  - unfold ndone in *. cbn. destruct a; cbn; rewrite (IH _ _ _ H Hp Hx); reflexivity.
Qed.
Lemma ndone_upd_done l : forall w p, nth_error l w = Some p -> isdone p = false ->
  ndone (upd w WDone l) = S (ndone l).
Proof.
  induction l as [|a l IH]; intros [|w] p H Hp; cbn in *; try discriminate.
  - inversion H; subst. unfold ndone. cbn. destruct p; try discriminate; reflexivity.
  - unfold ndone in *. cbn. destruct a; cbn; rewrite (IH _ _ H Hp); reflexivity.
Qed.
Lemma ndone_repeat n : ndone (repeat WReg n) = 0.
Proof. induction n; cbn; auto. Qed.
Lemma ndone_le l : ndone l <= length l.
Proof. unfold ndone. induction l as [|a l IH]; cbn; [lia|]. destruct a; cbn; lia. Qed.
Lemma ndone_all l : ndone l = length l -> forall w p, nth_error l w = Some p -> p = WDone.
Proof.
  induction l as [|a l IH]; intros H [|w] p Hn; cbn in *; try discriminate.
  - inversion Hn; subst. pose proof (ndone_le l). unfold ndone in *. destruct p; cbn in H; try reflexivity; lia.
  - apply (IH) with (w := w); auto. pose proof (ndone_le l). unfold ndone in *. destruct a; cbn in H; lia.
Qed.
(* fewer than all workers have returned: some worker has not *)
Lemma ndone_some_not l : ndone l < length l -> exists w p, nth_error l w = Some p /\ p <> WDone.
Proof.
  induction l as [|a l IH]; cbn; [lia|]. intros H.
  destruct a; try (exists 0; eexists; split; [reflexivity|discriminate]).
  unfold ndone in *. cbn in H. destruct IH as (w & p & A & B); [lia|]. exists (S w), p. auto.
Qed.

Lemma NoDup_snoc {A} (l : list A) x : NoDup l -> ~ In x l -> NoDup (l ++ [x]).
Proof. intros H1 H2. eapply Permutation_NoDup; [apply Permutation_cons_append|]. now constructor. Qed.
Lemma NoDup_app_tail {A} (l l' : list A) : NoDup (l ++ l') -> NoDup l'.
Proof. induction l; cbn; intros H; [exact H|]. inversion H; auto. Qed.
Lemma NoDup_app_head {A} (l l' : list A) : NoDup (l ++ l') -> NoDup l.
Proof. intros H. apply NoDup_app_tail with (l := l'). eapply Permutation_NoDup; [apply Permutation_app_comm|exact H]. Qed.
Lemma NoDup_app_disj {A} (l l' : list A) x : NoDup (l ++ l') -> In x l -> ~ In x l'.
Proof.
  induction l as [|a l IH]; cbn; [tauto|]. intros H [E|Hin] Hx; inversion H; subst.
  - apply H2. apply in_or_app. now right.
  - apply IH; auto.
Qed.

Ltac simp := cbn [jobq wq wk dp rp calling sentl subm started fin clog rlog runl dlog
                  set_jobq set_wq set_wk set_dp set_rp set_calling set_sentl set_subm set_started set_fin
                  set_clog set_rlog set_runl set_dlog sent_now] in *.
Ltac brk := repeat match goal with
  | H : context [match ?x with _ => _ end] |- _ => destruct x eqn:?; try discriminate
  end.

(* permutation goals over job lists, decided by counting occurrences *)
Ltac pcount :=
  let x0 := fresh "x0" in
  apply (Permutation_count_occ N.eq_dec); intros x0;
  repeat match goal with H : Permutation ?a ?b |- _ =>
    let H' := fresh in pose proof (proj1 (Permutation_count_occ N.eq_dec a b) H x0) as H'; clear H end;
  rewrite ?count_occ_app in *; cbn [count_occ] in *; unfold job in *;
  repeat match goal with
         | |- context [N.eq_dec ?a x0] => destruct (N.eq_dec a x0)
         | H : context [N.eq_dec ?a x0] |- _ => destruct (N.eq_dec a x0)
         end; lia.

Section Proofs.
Variable W Q : nat.
Notation step := (step W Q). Notation run := (run W Q). Notation trace := (trace W Q).
Notation InvA := (InvA W). Notation InvB := (InvB Q). Notation Inv := (Inv W Q). Notation init := (init W).
Notation reachable := (reachable W Q).

Ltac splits := split; [|split; [|split; [|split; [|split; [|split; [|split; [|split; [|split; [|split; [|split]]]]]]]]]].
(* a goal about the dispatcher's / releaser's program counter that is impossible or follows from the old fact *)
Ltac dpc_triv := intros; try discriminate;
  try (match goal with HR : ?P -> _ = DDone, H : ?P |- _ => specialize (HR H); discriminate end);
  repeat match goal with H : _ \/ _ |- _ => destruct H end; try discriminate; try congruence.

Lemma InvA_init : InvA init.
Proof.
  unfold Gpool.InvA, Gpool.init, occupying; cbn [jobq wq wk dp rp subm started fin held app].
  rewrite repeat_length, jobs_repeat, ndone_repeat by reflexivity.
  repeat split; auto; try constructor; intros; try discriminate; try contradiction.
  all: try (match goal with H : _ \/ _ |- _ => destruct H; discriminate end).
Qed.

Lemma InvA_step s l s' : InvA s -> step s l = Some s' -> InvA s'.
Proof.
  intros (HL & HC & HS & HN & HQ & HH & HSt & HA & HCo & HD & HR & HP0) Hs.
  destruct l; unfold Gpool.step in Hs; brk; injection Hs as <-; unfold Gpool.InvA, occupying in *; simp.
  - (* SubCall *) splits; auto.
  - (* Submit *)
    splits; auto.
    rewrite HC. rewrite <- !app_assoc. apply Permutation_app_head.
    rewrite (Permutation_app_comm [j]). rewrite <- !app_assoc. reflexivity.
  - (* SubmitH *)
    match goal with H : dp s = DSel |- _ => rename H into Hd end.
    match goal with H : jobq s = [] |- _ => rename H into Hj end.
    rewrite ?Hd, ?Hj in *. cbn [held app] in *.
    splits; auto; try (dpc_triv; fail).
    all: try (intros E; destruct (HP0 E) as [_ B]; split; [reflexivity|exact B]; fail).
    all: try (rewrite HC; symmetry; apply Permutation_cons_append).
    all: try (intros E; destruct (HP0 E) as [_ B]; split; [reflexivity|exact B]).
  - (* SubRet *) splits; auto.
  - (* WorkerReg *)
    match goal with H : nth_error (wk s) w = Some _ |- _ => rename H into Hw end. subst.
    pose proof (nth_some_lt _ _ _ Hw) as Hlt.
    assert (Hnin : ~ In w (wq s)) by (intros Hin; apply HQ in Hin; congruence).
    assert (Hother : forall v q, nth_error (wk s) v = Some q -> q <> WReg -> nth_error (upd w WWait (wk s)) v = Some q).
    { intros v q A B. destruct (Nat.eq_dec w v); [subst; congruence|rewrite nth_upd_neq; auto]. }
    assert (Hnin2 : forall v q, nth_error (wk s) v = Some q -> q <> WReg -> ~ In v (wq s) -> ~ In v (wq s ++ [w])).
    { intros v q A B C Hin. apply in_app_or in Hin. destruct Hin as [|[|[]]]; [tauto|subst; congruence]. }
    rewrite upd_length, (jobs_upd_keep _ _ _ _ _ Hw), (ndone_upd_same _ _ _ _ Hw) by reflexivity.
    splits; auto.
    + apply NoDup_snoc; auto.
    + intros x Hx. apply in_app_or in Hx. destruct Hx as [Hx|[Hx|[]]].
      * destruct (Nat.eq_dec w x); [subst; apply nth_upd_eq; auto|rewrite nth_upd_neq; auto].
      * subst. apply nth_upd_eq; auto.
    + intros j x E. destruct (HH _ _ E) as [A B]. split; [eapply Hother|eapply Hnin2]; eauto; congruence.
    + intros i x E. destruct (HSt _ _ E) as (A & B & C & D). repeat split; auto; [eapply Hother|eapply Hnin2]; eauto; congruence.
    + intros i x E. destruct (HA _ _ E) as (A & B & C & D). repeat split; auto; [eapply Hother|eapply Hnin2]; eauto; congruence.
  - (* DTake *)
    match goal with H : dp s = DSel |- _ => rename H into Hd end.
    match goal with H : jobq s = _ |- _ => rename H into Hj end.
    rewrite ?Hd, ?Hj in *. cbn [held app] in *.
    splits; auto; try (dpc_triv; fail).
    all: try (intros E; destruct (HP0 E) as [_ B]; split; [reflexivity|exact B]; fail).
    + rewrite HC. cbn. apply Permutation_middle.
  - (* DWorker *)
    match goal with H : dp s = DHave _ |- _ => rename H into Hd end.
    match goal with H : wq s = _ |- _ => rename H into Hq end.
    rewrite ?Hd, ?Hq in *. cbn [held app] in *. inversion HN; subst.
    splits; auto; try (dpc_triv; fail).
    all: try (intros E; destruct (HP0 E) as [_ B]; split; [reflexivity|exact B]; fail).
    + intros x Hx. apply HQ. now right.
    + intros j0 x E. injection E as <- <-. split; [apply HQ; now left|auto].
  - (* Hand *)
    match goal with H : dp s = DHand _ _ |- _ => rename H into Hd end.
    match goal with H : nth_error (wk s) _ = Some _ |- _ => rename H into Hw end. subst.
    pose proof (nth_some_lt _ _ _ Hw) as Hlt.
    first [destruct (HH _ _ Hd) as [_ Hnin] | destruct (HH _ _ eq_refl) as [_ Hnin]]. rewrite ?Hd in *. cbn [held app] in *.
    rewrite upd_length, (ndone_upd_same _ _ _ _ Hw) by reflexivity.
    pose proof (jobs_upd_add f_occ _ _ _ (WGot j) j Hw eq_refl eq_refl) as HP.
    splits; auto; try (dpc_triv; fail).
    all: try (intros E; destruct (HP0 E) as [_ B]; split; [reflexivity|exact B]; fail).
    + rewrite HC, HP. cbn. apply Permutation_app_head. reflexivity.
    + rewrite HP. rewrite Permutation_app_comm. cbn. apply perm_skip. rewrite HS. reflexivity.
    + intros x Hx. destruct (Nat.eq_dec w x); [subst; tauto|rewrite nth_upd_neq; auto].
  - (* JStart *)
    match goal with H : nth_error (wk s) w = Some _ |- _ => rename H into Hw end. subst.
    pose proof (nth_some_lt _ _ _ Hw) as Hlt.
    assert (Hother : forall v q, nth_error (wk s) v = Some q -> (forall j, q <> WGot j) -> nth_error (upd w (WRun j) (wk s)) v = Some q).
    { intros v q A B. destruct (Nat.eq_dec w v); [subst; rewrite Hw in A; inversion A; subst; exfalso; eapply B; eauto|rewrite nth_upd_neq; auto]. }
    rewrite upd_length, (jobs_upd_keep f_occ _ _ _ (WRun j) Hw), (ndone_upd_same _ _ _ _ Hw) by reflexivity.
    splits; auto.
    + intros x Hx. eapply Hother; eauto. intros; congruence.
    + intros j0 x E. destruct (HH _ _ E) as [A B]. split; auto. eapply Hother; eauto. intros; congruence.
    + intros i x E. destruct (HSt _ _ E) as (A & B & C & D). repeat split; auto. eapply Hother; eauto. intros; congruence.
    + intros i x E. destruct (HA _ _ E) as (A & B & C & D). repeat split; auto. eapply Hother; eauto. intros; congruence.
  - (* JEnd *)
    match goal with H : nth_error (wk s) w = Some _ |- _ => rename H into Hw end. subst.
    pose proof (nth_some_lt _ _ _ Hw) as Hlt.
    assert (Hother : forall v q, nth_error (wk s) v = Some q -> (forall j, q <> WRun j) -> nth_error (upd w (WEnded j) (wk s)) v = Some q).
    { intros v q A B. destruct (Nat.eq_dec w v); [subst; rewrite Hw in A; inversion A; subst; exfalso; eapply B; eauto|rewrite nth_upd_neq; auto]. }
    rewrite upd_length, (jobs_upd_keep f_occ _ _ _ (WEnded j) Hw), (ndone_upd_same _ _ _ _ Hw) by reflexivity.
    splits; auto.
    + intros x Hx. eapply Hother; eauto. intros; congruence.
    + intros j0 x E. destruct (HH _ _ E) as [A B]. split; auto. eapply Hother; eauto. intros; congruence.
    + intros i x E. destruct (HSt _ _ E) as (A & B & C & D). repeat split; auto. eapply Hother; eauto. intros; congruence.
    + intros i x E. destruct (HA _ _ E) as (A & B & C & D). repeat split; auto. eapply Hother; eauto. intros; congruence.
  - (* JobEnd *)
    match goal with H : nth_error (wk s) w = Some _ |- _ => rename H into Hw end. subst.
    pose proof (nth_some_lt _ _ _ Hw) as Hlt.
    assert (Hother : forall v q, nth_error (wk s) v = Some q -> (forall j, q <> WEnded j) -> nth_error (upd w WReg (wk s)) v = Some q).
    { intros v q A B. destruct (Nat.eq_dec w v); [subst; rewrite Hw in A; inversion A; subst; exfalso; eapply B; eauto|rewrite nth_upd_neq; auto]. }
    rewrite upd_length, (ndone_upd_same _ _ _ _ Hw) by reflexivity.
    pose proof (jobs_upd_del f_occ _ _ _ WReg j Hw eq_refl eq_refl) as HP.
    splits; auto.
    + rewrite HC, HP. apply Permutation_app_head. apply Permutation_app_head.
      cbn [app]. rewrite app_assoc. apply Permutation_cons_append.
    + rewrite HS, HP. cbn [app]. rewrite app_assoc. apply Permutation_cons_append.
    + intros x Hx. eapply Hother; eauto. intros; congruence.
    + intros j0 x E. destruct (HH _ _ E) as [A B]. split; auto. eapply Hother; eauto. intros; congruence.
    + intros i x E. destruct (HSt _ _ E) as (A & B & C & D). repeat split; auto. eapply Hother; eauto. intros; congruence.
    + intros i x E. destruct (HA _ _ E) as (A & B & C & D). repeat split; auto. eapply Hother; eauto. intros; congruence.
  - (* RelLog *)
    match goal with H : rp s = RNot |- _ => rename H into Hr end.
    splits; auto; try (dpc_triv; fail).
    all: try (intros E; destruct (HP0 E) as [_ B]; split; [reflexivity|exact B]; fail).
    all: try (intros _; apply HP0; now left).
  - (* RelCall *)
    match goal with H : dp s = DSel |- _ => rename H into Hd end.
    match goal with H : rp s = RCalled |- _ => rename H into Hr end.
    first [destruct (HP0 (or_intror Hr)) as [_ Hz] | destruct (HP0 (or_intror eq_refl)) as [_ Hz]]. rewrite ?Hd, ?Hr in *. cbn [held app] in *.
    splits; auto; try (dpc_triv; fail).
    all: try (intros E; destruct (HP0 E) as [_ B]; split; [reflexivity|exact B]; fail).
    all: try (intros i E; injection E as <-; exact Hz).
  - (* DColTake *)
    match goal with H : dp s = DCollect _ |- _ => rename H into Hd end.
    match goal with H : wq s = ?v :: _ |- _ => first [pose proof (HQ v ltac:(now left)) as Hw | pose proof (HQ v ltac:(rewrite H; now left)) as Hw]; rename H into Hq end.
    match goal with H : (_ <? _) = true |- _ => rename H into Hlt end. apply Nat.ltb_lt in Hlt.
    first [pose proof (HCo _ Hd) as Hn | pose proof (HCo _ eq_refl) as Hn].
    assert (Hr : ~ (rp s = RNot \/ rp s = RCalled)) by (intros E; destruct (HP0 E) as [A _]; rewrite ?Hd in A; discriminate).
    rewrite ?Hd, ?Hq in *. cbn [held app] in *. inversion HN; subst.
    splits; auto; try (dpc_triv; fail).
    all: try (intros E; destruct (HP0 E) as [_ B]; split; [reflexivity|exact B]; fail).
    all: try (intros x Hx; apply HQ; now right).
    all: try (intros i0 x E; injection E as <- <-; repeat split; auto; fail).
    all: try (intros E; contradiction).
    all: try (intros E; specialize (HR E); discriminate).
  - (* DColFin *)
    match goal with H : dp s = DCollect _ |- _ => rename H into Hd end.
    match goal with H : (_ =? _) = true |- _ => rename H into He end. apply Nat.eqb_eq in He.
    first [pose proof (HCo _ Hd) as Hn | pose proof (HCo _ eq_refl) as Hn].
    assert (Hr : ~ (rp s = RNot \/ rp s = RCalled)) by (intros E; destruct (HP0 E) as [A _]; rewrite ?Hd in A; discriminate).
    rewrite ?Hd in *. cbn [held app] in *.
    splits; auto; try (dpc_triv; fail).
    all: try (intros E; destruct (HP0 E) as [_ B]; split; [reflexivity|exact B]; fail).
    all: try (intros _; lia).
    all: try (intros E; contradiction).
    all: try (intros E; specialize (HR E); discriminate).
  - (* StopSend *)
    match goal with H : dp s = DStop _ _ |- _ => rename H into Hd end.
    match goal with H : nth_error (wk s) _ = Some _ |- _ => rename H into Hw end. subst.
    pose proof (nth_some_lt _ _ _ Hw) as Hlt.
    first [destruct (HSt _ _ Hd) as (_ & Hnin & Hn & Hi) | destruct (HSt _ _ eq_refl) as (_ & Hnin & Hn & Hi)].
    assert (Hr : ~ (rp s = RNot \/ rp s = RCalled)) by (intros E; destruct (HP0 E) as [A _]; rewrite ?Hd in A; discriminate).
    rewrite ?Hd in *. cbn [held app] in *.
    rewrite upd_length, (jobs_upd_keep f_occ _ _ _ WStopping Hw), (ndone_upd_same _ _ _ _ Hw) by reflexivity.
    splits; auto; try (dpc_triv; fail).
    all: try (intros E; destruct (HP0 E) as [_ B]; split; [reflexivity|exact B]; fail).
    all: try (intros x Hx; destruct (Nat.eq_dec w x); [subst; tauto|rewrite nth_upd_neq; auto]; fail).
    all: try (intros i0 x E; injection E as <- <-; repeat split; auto; apply nth_upd_eq; auto; fail).
    all: try (intros E; contradiction).
    all: try (intros E; specialize (HR E); discriminate).
  - (* StopAck *)
    match goal with H : dp s = DWaitAck _ _ |- _ => rename H into Hd end.
    match goal with H : nth_error (wk s) _ = Some _ |- _ => rename H into Hw end. subst.
    pose proof (nth_some_lt _ _ _ Hw) as Hlt.
    first [destruct (HA _ _ Hd) as (_ & Hnin & Hn & Hi) | destruct (HA _ _ eq_refl) as (_ & Hnin & Hn & Hi)].
    assert (Hr : ~ (rp s = RNot \/ rp s = RCalled)) by (intros E; destruct (HP0 E) as [A _]; rewrite ?Hd in A; discriminate).
    rewrite ?Hd in *. cbn [held app] in *.
    rewrite upd_length, (jobs_upd_keep f_occ _ _ _ WDone Hw), (ndone_upd_done _ _ _ Hw) by reflexivity.
    splits; auto; try (dpc_triv; fail).
    all: try (intros E; destruct (HP0 E) as [_ B]; split; [reflexivity|exact B]; fail).
    all: try (intros x Hx; destruct (Nat.eq_dec w x); [subst; tauto|rewrite nth_upd_neq; auto]; fail).
    all: try (intros i0 E; injection E as <-; lia).
    all: try (intros E; contradiction).
    all: try (intros E; specialize (HR E); discriminate).
  - (* RelRet *)
    match goal with H : dp s = DAck |- _ => rename H into Hd end.
    first [pose proof (HD (or_introl Hd)) as Hn | pose proof (HD (or_introl eq_refl)) as Hn]. rewrite ?Hd in *. cbn [held app] in *.
    splits; auto; try (dpc_triv; fail).
    all: try (intros E; destruct (HP0 E) as [_ B]; split; [reflexivity|exact B]; fail).
  - (* RelRetLog *)
    match goal with H : rp s = RAcked |- _ => rename H into Hr end.
    first [pose proof (HR (or_intror Hr)) as Hd | pose proof (HR (or_intror eq_refl)) as Hd].
    splits; auto; try (dpc_triv; fail).
    all: try (intros E; destruct (HP0 E) as [_ B]; split; [reflexivity|exact B]; fail).
Qed.

(* ---------- InvB: who waits where ---------- *)
Lemma InvB_init : InvB init.
Proof.
  unfold Gpool.InvB, Gpool.init; cbn [jobq wq wk dp rp]. repeat split; intros; try discriminate; cbn; try lia.
  - apply nth_error_In in H. apply repeat_spec in H. discriminate.
  - apply nth_error_In in H. apply repeat_spec in H. discriminate.
Qed.

(* the waiting / stopping facts about a worker other than the one whose program counter changed *)
Ltac other_worker w v Hv :=
  destruct (Nat.eq_dec w v) as [->|];
  [rewrite nth_upd_eq in Hv by (eapply nth_some_lt; eauto); try discriminate
  |rewrite nth_upd_neq in Hv by auto].

Lemma InvB_step s l s' : InvA s -> InvB s -> step s l = Some s' -> InvB s'.
Proof.
  intros (HL & _ & _ & HN & HQ & HH & HSt & HA & _ & _ & HR & HP0) (B1 & B2 & B3 & B4) Hs.
  destruct l; unfold Gpool.step in Hs; brk; injection Hs as <-; unfold Gpool.InvB; simp.
  - (* SubCall *) repeat split; auto.
  - (* Submit *)
    match goal with H : (_ && _) = true |- _ => apply andb_true_iff in H; destruct H as [_ Hlt]; apply Nat.ltb_lt in Hlt end.
    repeat split; auto. rewrite app_length. cbn. lia.
  - (* SubmitH *)
    match goal with H : dp s = DSel |- _ => rename H into Hd end. rewrite ?Hd in *.
    repeat split; try (intros; discriminate).
    + intros v Hv. destruct (B1 v Hv) as [|[[? E]|[? E]]]; try discriminate; auto.
    + intros v Hv. destruct (B2 v Hv) as [? E]; discriminate.
    + first [exact B4 | (match goal with H : jobq s = [] |- _ => rewrite H end; exact B4)].
  - (* SubRet *) repeat split; auto.
  - (* WorkerReg *)
    match goal with H : nth_error (wk s) w = Some _ |- _ => rename H into Hw end.
    repeat split; auto.
    + intros v Hv. destruct (Nat.eq_dec w v) as [->|]. { left. apply in_or_app. right. now left. }
      rewrite nth_upd_neq in Hv by auto. destruct (B1 v Hv) as [|[|]]; auto. left. apply in_or_app. now left.
    + intros v Hv. other_worker w v Hv. auto.
  - (* DTake *)
    match goal with H : dp s = DSel |- _ => rename H into Hd end.
    match goal with H : jobq s = _ |- _ => rename H into Hj end. rewrite ?Hd, ?Hj in *.
    repeat split; try (intros; discriminate).
    + intros v Hv. destruct (B1 v Hv) as [|[[? E]|[? E]]]; try discriminate; auto.
    + intros v Hv. destruct (B2 v Hv) as [? E]; discriminate.
    + cbn in B4. lia.
  - (* DWorker *)
    match goal with H : dp s = DHave _ |- _ => rename H into Hd end.
    match goal with H : wq s = _ |- _ => rename H into Hq end. rewrite ?Hd, ?Hq in *.
    repeat split; try (intros; discriminate); auto.
    + intros v Hv. destruct (B1 v Hv) as [[->|]|[[? E]|[? E]]]; try discriminate; eauto.
    + intros v Hv. destruct (B2 v Hv) as [? E]; discriminate.
  - (* Hand *)
    match goal with H : dp s = DHand _ _ |- _ => rename H into Hd end.
    match goal with H : nth_error (wk s) _ = Some _ |- _ => rename H into Hw end. rewrite ?Hd in *.
    repeat split; try (intros; discriminate); auto.
    + intros v Hv. other_worker w v Hv. destruct (B1 v Hv) as [|[[? E]|[? E]]]; try discriminate; auto. injection E as <- <-. congruence.
    + intros v Hv. other_worker w v Hv. destruct (B2 v Hv) as [? E]; discriminate.
  - (* JStart *)
    match goal with H : nth_error (wk s) w = Some _ |- _ => rename H into Hw end.
    repeat split; auto.
    + intros v Hv. other_worker w v Hv. auto.
    + intros v Hv. other_worker w v Hv. auto.
  - (* JEnd *)
    match goal with H : nth_error (wk s) w = Some _ |- _ => rename H into Hw end.
    repeat split; auto.
    + intros v Hv. other_worker w v Hv. auto.
    + intros v Hv. other_worker w v Hv. auto.
  - (* JobEnd *)
    match goal with H : nth_error (wk s) w = Some _ |- _ => rename H into Hw end.
    repeat split; auto.
    + intros v Hv. other_worker w v Hv. auto.
    + intros v Hv. other_worker w v Hv. auto.
  - (* RelLog *)
    repeat split; auto. intros E _. destruct HP0 as [A _]; [now left|]. congruence.
  - (* RelCall *)
    match goal with H : dp s = DSel |- _ => rename H into Hd end. rewrite ?Hd in *.
    repeat split; try (intros; discriminate); auto.
    + intros v Hv. destruct (B1 v Hv) as [|[[? E]|[? E]]]; try discriminate; auto.
    + intros v Hv. destruct (B2 v Hv) as [? E]; discriminate.
  - (* DColTake *)
    match goal with H : dp s = DCollect _ |- _ => rename H into Hd end.
    match goal with H : wq s = _ |- _ => rename H into Hq end.
    assert (Hrp : rp s = RSent) by (apply B3; rewrite ?Hd; [reflexivity|discriminate]).
    rewrite ?Hd, ?Hq in *.
    repeat split; try (intros; discriminate); auto.
    + intros v Hv. destruct (B1 v Hv) as [[->|]|[[? E]|[? E]]]; try discriminate; eauto.
    + intros v Hv. destruct (B2 v Hv) as [? E]; discriminate.
  - (* DColFin *)
    match goal with H : dp s = DCollect _ |- _ => rename H into Hd end.
    assert (Hrp : rp s = RSent) by (apply B3; rewrite ?Hd; [reflexivity|discriminate]).
    rewrite ?Hd in *.
    repeat split; try (intros; discriminate); auto.
    + intros v Hv. destruct (B1 v Hv) as [|[[? E]|[? E]]]; try discriminate; auto.
    + intros v Hv. destruct (B2 v Hv) as [? E]; discriminate.
  - (* StopSend *)
    match goal with H : dp s = DStop _ _ |- _ => rename H into Hd end.
    match goal with H : nth_error (wk s) _ = Some _ |- _ => rename H into Hw end.
    assert (Hrp : rp s = RSent) by (apply B3; rewrite ?Hd; [reflexivity|discriminate]).
    rewrite ?Hd in *.
    repeat split; try (intros; discriminate); auto.
    + intros v Hv. other_worker w v Hv. destruct (B1 v Hv) as [|[[? E]|[? E]]]; try discriminate; auto. injection E as <- <-. congruence.
    + intros v Hv. destruct (Nat.eq_dec w v) as [->|]; [eauto|]. rewrite nth_upd_neq in Hv by auto. destruct (B2 v Hv) as [? E]; discriminate.
  - (* StopAck *)
    match goal with H : dp s = DWaitAck _ _ |- _ => rename H into Hd end.
    match goal with H : nth_error (wk s) _ = Some _ |- _ => rename H into Hw end.
    assert (Hrp : rp s = RSent) by (apply B3; rewrite ?Hd; [reflexivity|discriminate]).
    rewrite ?Hd in *.
    repeat split; try (intros; discriminate); auto.
    + intros v Hv. other_worker w v Hv. destruct (B1 v Hv) as [|[[? E]|[? E]]]; try discriminate; auto.
    + intros v Hv. other_worker w v Hv. destruct (B2 v Hv) as [? E]. injection E as <- <-. congruence.
  - (* RelRet *)
    match goal with H : dp s = DAck |- _ => rename H into Hd end. rewrite ?Hd in *.
    repeat split; try (intros; discriminate); try congruence; auto.
    + intros v Hv. destruct (B1 v Hv) as [|[[? E]|[? E]]]; try discriminate; auto.
    + intros v Hv. destruct (B2 v Hv) as [? E]; discriminate.
  - (* RelRetLog *)
    match goal with H : rp s = RAcked |- _ => rename H into Hr end.
    first [pose proof (HR (or_intror Hr)) as Hd | pose proof (HR (or_intror eq_refl)) as Hd].
    repeat split; auto. intros _ E. congruence.
Qed.

(* ---------- InvC: the logs of the instrumentation ---------- *)
Lemma InvC_init : Gpool.InvC init.
Proof.
  unfold Gpool.InvC, Gpool.init; cbn [clog calling sentl rlog subm runl dlog wk fin app].
  rewrite !jobs_repeat by reflexivity. repeat split; constructor.
Qed.

Lemma InvC_step s l s' : Gpool.InvC s -> step s l = Some s' -> Gpool.InvC s'.
Proof.
  intros (C1 & C2 & C3 & C4 & C5) Hs.
  destruct l; unfold Gpool.step in Hs; brk; injection Hs as <-; unfold Gpool.InvC; simp.
  - (* SubCall *)
    match goal with H : mem j _ = false |- _ => apply mem_nIn in H; rename H into Hn end.
    repeat split; auto. { apply NoDup_snoc; auto. } pcount.
  - (* Submit *)
    match goal with H : (_ && _) = true |- _ => apply andb_true_iff in H; destruct H as [Hm _]; apply mem_In in Hm; apply rm_perm in Hm end.
    repeat split; auto; pcount.
  - (* SubmitH *)
    match goal with H : mem j _ = true |- _ => apply mem_In in H; apply rm_perm in H; rename H into Hm end.
    repeat split; auto; pcount.
  - (* SubRet *)
    match goal with H : mem j _ = true |- _ => apply mem_In in H; apply rm_perm in H; rename H into Hm end.
    repeat split; auto; pcount.
  - (* WorkerReg *)
    match goal with H : nth_error (wk s) w = Some _ |- _ => rename H into Hw end.
    rewrite (jobs_upd_keep f_run _ _ _ WWait Hw), (jobs_upd_keep f_ended _ _ _ WWait Hw) by reflexivity. repeat split; auto.
  - (* DTake *) repeat split; auto.
  - (* DWorker *) repeat split; auto.
  - (* Hand *)
    match goal with H : nth_error (wk s) _ = Some _ |- _ => rename H into Hw end.
    rewrite (jobs_upd_keep f_run _ _ _ (WGot j) Hw), (jobs_upd_keep f_ended _ _ _ (WGot j) Hw) by reflexivity. repeat split; auto.
  - (* JStart *)
    match goal with H : nth_error (wk s) w = Some _ |- _ => rename H into Hw end.
    pose proof (jobs_upd_add f_run _ _ _ (WRun j) j Hw eq_refl eq_refl) as HP.
    rewrite (jobs_upd_keep f_ended _ _ _ (WRun j) Hw) by reflexivity. repeat split; auto. pcount.
  - (* JEnd *)
    match goal with H : nth_error (wk s) w = Some _ |- _ => rename H into Hw end.
    pose proof (jobs_upd_del f_run _ _ _ (WEnded j) j Hw eq_refl eq_refl) as HP.
    pose proof (jobs_upd_add f_ended _ _ _ (WEnded j) j Hw eq_refl eq_refl) as HP2.
    assert (Hin : In j (runl s)). { eapply Permutation_in; [symmetry; exact C4|]. eapply jobs_in; eauto. }
    apply rm_perm in Hin.
    repeat split; auto; pcount.
  - (* JobEnd *)
    match goal with H : nth_error (wk s) w = Some _ |- _ => rename H into Hw end.
    pose proof (jobs_upd_del f_ended _ _ _ WReg j Hw eq_refl eq_refl) as HP.
    rewrite (jobs_upd_keep f_run _ _ _ WReg Hw) by reflexivity. repeat split; auto. pcount.
  - (* RelLog *) repeat split; auto.
  - (* RelCall *) repeat split; auto.
  - (* DColTake *) repeat split; auto.
  - (* DColFin *) repeat split; auto.
  - (* StopSend *)
    match goal with H : nth_error (wk s) _ = Some _ |- _ => rename H into Hw end.
    rewrite (jobs_upd_keep f_run _ _ _ WStopping Hw), (jobs_upd_keep f_ended _ _ _ WStopping Hw) by reflexivity. repeat split; auto.
  - (* StopAck *)
    match goal with H : nth_error (wk s) _ = Some _ |- _ => rename H into Hw end.
    rewrite (jobs_upd_keep f_run _ _ _ WDone Hw), (jobs_upd_keep f_ended _ _ _ WDone Hw) by reflexivity. repeat split; auto.
  - (* RelRet *) repeat split; auto.
  - (* RelRetLog *) repeat split; auto.
Qed.

(* ---------- the invariant holds in every reachable state ---------- *)
Lemma Inv_init : Inv init.
Proof. split; [apply InvA_init|split; [apply InvB_init|apply InvC_init]]. Qed.
Lemma Inv_step s l s' : Inv s -> step s l = Some s' -> Inv s'.
Proof.
  intros (A & B & C) Hs. split; [eapply InvA_step; eauto|split; [eapply InvB_step; eauto|eapply InvC_step; eauto]].
Qed.
Lemma run_inv ls : forall s s', Inv s -> run s ls = Some s' -> Inv s'.
Proof.
  induction ls as [|l ls IH]; cbn; intros s s' HI Hr. { now inversion Hr; subst. }
  destruct (step s l) eqn:E; [|discriminate]. eapply IH; [eapply Inv_step; eauto|eauto].
Qed.
Lemma reachable_inv s : reachable s -> Inv s.
Proof. intros [ls H]. eapply run_inv; [apply Inv_init|exact H]. Qed.
Lemma reachable_step s l s' : reachable s -> step s l = Some s' -> reachable s'.
Proof.
  intros [ls H] Hs. exists (ls ++ [l]). revert H. generalize init. induction ls as [|a ls IH]; cbn; intros s0 H.
  - inversion H; subst. now rewrite Hs.
  - destruct (step s0 a); [|discriminate]. auto.
Qed.
(* the send on [stop] is a rendez-vous: while the releaser waits for the acknowledgement the dispatcher is in its stop branch *)
Definition InvD (s : st) : Prop := rp s = RSent -> pre_release (dp s) = false /\ dp s <> DDone.
Lemma InvD_step s l s' : InvD s -> step s l = Some s' -> InvD s'.
Proof.
  unfold InvD. intros B5 Hs.
  destruct l; unfold Gpool.step in Hs; brk; injection Hs as <-; simp; auto.
  all: intros E5; first [discriminate | split; [reflexivity|discriminate]
                        | destruct (B5 E5) as [Z5 _]; first [discriminate | congruence]
                        | (match goal with H : dp _ = _ |- _ => rewrite H in B5 end; destruct (B5 E5) as [Z5 _]; discriminate)].
Qed.
Lemma reachable_invD s : reachable s -> InvD s.
Proof.
  intros [ls H]. assert (I0 : InvD init) by (intros E; discriminate). revert H I0. generalize init.
  induction ls as [|l ls IH]; cbn; intros s0 H I0. { now inversion H; subst. }
  destruct (step s0 l) eqn:E; [|discriminate]. eapply IH; [exact H|eapply InvD_step; eauto].
Qed.
End Proofs.

(* ================= the property, for every W, Q, number of submitters, jobs and schedule ================= *)
Section Theorems.
Variable W Q : nat.
Notation step := (step W Q). Notation run := (run W Q). Notation trace := (trace W Q).
Notation init := (init W). Notation reachable := (reachable W Q).

Lemma subm_nodup s : reachable s -> NoDup (subm s).
Proof.
  intros Hr. destruct (reachable_inv _ _ _ Hr) as (_ & _ & (C1 & C2 & C3 & _)).
  eapply Permutation_NoDup; [symmetry; exact C3|].
  apply (Permutation_NoDup C2) in C1. now apply NoDup_app_tail in C1.
Qed.

(* every job sent into the pool is in exactly one place: the queue, the dispatcher's hand, a worker, or finished *)
Theorem conservation s : reachable s ->
  Permutation (subm s) (jobq s ++ held (dp s) ++ occupying (wk s) ++ fin s) /\
  NoDup (jobq s ++ held (dp s) ++ occupying (wk s) ++ fin s).
Proof.
  intros Hr. destruct (reachable_inv _ _ _ Hr) as ((_ & HC & _) & _). split; auto.
  eapply Permutation_NoDup; [exact HC|]. now apply subm_nodup.
Qed.

Theorem no_job_starts_twice s : reachable s ->
  NoDup (started s) /\ Permutation (started s) (occupying (wk s) ++ fin s) /\ (forall j, In j (started s) -> In j (subm s)).
Proof.
  intros Hr. destruct (reachable_inv _ _ _ Hr) as ((_ & HC & HS & _) & _).
  destruct (conservation s Hr) as [_ Hnd]. apply NoDup_app_tail in Hnd. apply NoDup_app_tail in Hnd.
  repeat split; auto.
  - eapply Permutation_NoDup; [symmetry; exact HS|exact Hnd].
  - intros j Hj. eapply Permutation_in; [symmetry; exact HC|]. apply in_or_app. right. apply in_or_app. right.
    eapply Permutation_in; [exact HS|exact Hj].
Qed.

Theorem bounded_parallelism s : reachable s -> length (occupying (wk s)) <= W /\ length (runl s) <= W.
Proof.
  intros Hr. destruct (reachable_inv _ _ _ Hr) as ((HL & _) & _ & (_ & _ & _ & C4 & _)). rewrite <- HL. split.
  - apply jobs_le.
  - rewrite (Permutation_length C4). apply jobs_le.
Qed.

(* a submit is enabled whenever the queue has room; with Q = 0 (or an empty queue) whenever the dispatcher is at its select *)
Theorem submit_enabled_when_room s j : In j (calling s) ->
  (length (jobq s) < Q -> exists s', step s (Submit j) = Some s') /\
  (dp s = DSel -> jobq s = [] -> exists s', step s (SubmitH j) = Some s').
Proof.
  intros Hin. apply mem_In in Hin. split.
  - intros Hlt. apply Nat.ltb_lt in Hlt. unfold Gpool.step. rewrite Hin, Hlt. cbn. eauto.
  - intros Hd Hj. unfold Gpool.step. rewrite Hd, Hj, Hin. eauto.
Qed.
(* ... and only then: a submit completes only into a free slot or into the hand of the waiting dispatcher *)
Theorem submit_only_when_room s j s' :
  (step s (Submit j) = Some s' -> length (jobq s) < Q) /\
  (step s (SubmitH j) = Some s' -> dp s = DSel /\ jobq s = []).
Proof.
  split; unfold Gpool.step; intros H; brk; auto.
  match goal with H : (_ && _) = true |- _ => apply andb_true_iff in H; destruct H as [_ H]; now apply Nat.ltb_lt in H end.
Qed.
Theorem queue_bounded s : reachable s -> length (jobq s) <= Q.
Proof. intros Hr. destruct (reachable_inv _ _ _ Hr) as (_ & (_ & _ & _ & B4) & _). exact B4. Qed.

(* ---------- Release ---------- *)
Lemma all_done_no_jobs f l : f WDone = None -> (forall w p, nth_error l w = Some p -> p = WDone) -> jobs_of f l = [].
Proof.
  intros Hf. induction l as [|a l IH]; intros H; [reflexivity|].
  pose proof (H 0 a eq_refl); subst. unfold jobs_of in *. cbn. rewrite Hf. cbn. apply IH. intros w p Hn. apply (H (S w) p Hn).
Qed.

Theorem release_returns_after_all_stopped s : reachable s -> (rp s = RDone \/ rp s = RAcked) ->
  dp s = DDone /\ (forall w p, nth_error (wk s) w = Some p -> p = WDone) /\ occupying (wk s) = [] /\ runl s = [].
Proof.
  intros Hr Hd. destruct (reachable_inv _ _ _ Hr) as ((HL & _ & _ & _ & _ & _ & _ & _ & _ & HD & HR & _) & _ & (_ & _ & _ & C4 & _)).
  pose proof (HR Hd) as Hdp. assert (Hn : ndone (wk s) = length (wk s)) by (rewrite HL; apply HD; now right).
  pose proof (ndone_all _ Hn) as Hall. repeat split; auto.
  - apply all_done_no_jobs; auto.
  - rewrite (all_done_no_jobs f_run _ eq_refl Hall) in C4. symmetry in C4. now apply Permutation_nil in C4.
Qed.

(* Release cannot return while a job occupies a worker: the step that lets it return needs every worker stopped *)
Theorem release_not_while_running s s' : reachable s -> step s RelRet = Some s' -> occupying (wk s) = [] /\ jobs_of f_run (wk s) = [].
Proof.
  intros Hr Hs. destruct (reachable_inv _ _ _ Hr) as ((HL & _ & _ & _ & _ & _ & _ & _ & _ & HD & _) & _).
  unfold Gpool.step in Hs. destruct (dp s) eqn:Hd; try discriminate.
  assert (Hn : ndone (wk s) = length (wk s)) by (rewrite HL; apply HD; now left).
  pose proof (ndone_all _ Hn) as Hall. split; apply all_done_no_jobs; auto.
Qed.

(* once Release has returned nothing changes any more apart from submitters: no job is handed over, starts or ends *)
Theorem nothing_starts_after_release s l s' : reachable s -> rp s = RDone -> step s l = Some s' ->
  started s' = started s /\ runl s' = runl s /\ wk s' = wk s /\ rp s' = RDone.
Proof.
  intros Hr Hd Hs. destruct (release_returns_after_all_stopped s Hr (or_introl Hd)) as (Hdp & Hall & _).
  destruct l; unfold Gpool.step in Hs; brk; try (injection Hs as <-; simp; auto; fail).
  all: try congruence.
  all: match goal with H : nth_error (wk _) _ = Some _ |- _ => apply Hall in H; discriminate end.
Qed.

(* ---------- absence of deadlock ---------- *)
(* A pending job (queued or in the dispatcher's hand) before Release, or a Release in progress, always leaves a step of the
   pool itself or of a running job enabled (jobs terminate: JEnd is the job's own step). *)
Theorem no_deadlock s : 1 <= W -> reachable s ->
  ((rp s = RNot \/ rp s = RCalled) /\ (jobq s <> [] \/ held (dp s) <> []) \/ rp s = RCalled \/ rp s = RSent \/ rp s = RAcked) ->
  exists l s', internal l = true /\ step s l = Some s'.
Proof.
  intros HW Hr Hcase.
  destruct (reachable_inv _ _ _ Hr) as ((HL & _ & _ & _ & HQ & HH & HSt & HA & HCo & HD & HR & HP0) & (B1 & B2 & B3 & _) & _).
  pose proof (reachable_invD _ _ _ Hr) as B5. unfold InvD in B5.
  (* a worker that is neither waiting, stopping nor stopped can move *)
  assert (Hmove : forall w p, nth_error (wk s) w = Some p -> p <> WWait -> p <> WStopping -> p <> WDone ->
                  exists l s', internal l = true /\ step s l = Some s').
  { intros w p Hw N1 N2 N3. destruct p; try congruence.
    - exists (WorkerReg w). eexists. split; [reflexivity|]. unfold Gpool.step. rewrite Hw. reflexivity.
    - exists (JStart w). eexists. split; [reflexivity|]. unfold Gpool.step. rewrite Hw. reflexivity.
    - exists (JEnd w). eexists. split; [reflexivity|]. unfold Gpool.step. rewrite Hw. reflexivity.
    - exists (JobEnd w). eexists. split; [reflexivity|]. unfold Gpool.step. rewrite Hw. reflexivity. }
  (* if fewer than W workers have stopped and none is registered, some worker can move *)
  assert (Hsome : wq s = [] -> ndone (wk s) < W -> (forall j w, dp s <> DHand j w) -> (forall i w, dp s <> DStop i w) ->
                  (forall i w, dp s <> DWaitAck i w) -> exists l s', internal l = true /\ step s l = Some s').
  { intros Hq Hn N1 N2 N3. rewrite <- HL in Hn. destruct (ndone_some_not _ Hn) as (w & p & Hw & Hp).
    apply (Hmove w p Hw); auto.
    - intros ->. destruct (B1 w Hw) as [Hin|[[j E]|[i E]]]; [rewrite Hq in Hin; contradiction|eapply N1; eauto|eapply N2; eauto].
    - intros ->. destruct (B2 w Hw) as [i E]. eapply N3; eauto. }
  destruct (dp s) eqn:Hd.
  - (* DSel *)
    destruct (jobq s) as [|j r] eqn:Hj.
    + destruct (rp s) eqn:Hrp.
      * destruct Hcase as [[_ [C|C]]|[C|[C|C]]]; try discriminate; cbn in C; congruence.
      * exists RelCall. eexists. split; [reflexivity|]. unfold Gpool.step. rewrite Hrp, Hd. reflexivity.
      * (* rp = RSent with the dispatcher at its select is unreachable: the send is a rendez-vous *)
        destruct (B5 eq_refl) as [Z _]. discriminate.
      * specialize (HR (or_intror eq_refl)). discriminate.
      * specialize (HR (or_introl eq_refl)). discriminate.
    + exists DTake. eexists. split; [reflexivity|]. unfold Gpool.step. rewrite Hd, Hj. reflexivity.
  - (* DHave *)
    destruct (wq s) as [|w r] eqn:Hq.
    + apply Hsome; auto; try (intros; discriminate).
      destruct (rp s) eqn:Hrp.
      * destruct (HP0 (or_introl eq_refl)) as [_ Z]. lia.
      * destruct (HP0 (or_intror eq_refl)) as [_ Z]. lia.
      * destruct (B5 eq_refl) as [Z _]. discriminate.
      * specialize (HR (or_intror eq_refl)). discriminate.
      * specialize (HR (or_introl eq_refl)). discriminate.
    + exists DWorker. eexists. split; [reflexivity|]. unfold Gpool.step. rewrite Hd, Hq. reflexivity.
  - (* DHand *)
    destruct (HH _ _ eq_refl) as [Hw _]. exists Hand. eexists. split; [reflexivity|]. unfold Gpool.step. rewrite Hd, Hw. reflexivity.
  - (* DCollect *)
    pose proof (HCo _ eq_refl) as Hn. pose proof (ndone_le (wk s)) as Hle. rewrite HL in Hle.
    destruct (Nat.eq_dec i W) as [->|Hne].
    + exists DColFin. eexists. split; [reflexivity|]. unfold Gpool.step. rewrite Hd, Nat.eqb_refl. reflexivity.
    + destruct (wq s) as [|w r] eqn:Hq.
      * apply Hsome; auto; try (intros; discriminate). lia.
      * exists DColTake. eexists. split; [reflexivity|]. unfold Gpool.step. rewrite Hd, Hq.
        assert (E : (i <? W) = true) by (apply Nat.ltb_lt; lia). rewrite E. reflexivity.
  - (* DStop *)
    destruct (HSt _ _ eq_refl) as (Hw & _). exists StopSend. eexists. split; [reflexivity|]. unfold Gpool.step. rewrite Hd, Hw. reflexivity.
  - (* DWaitAck *)
    destruct (HA _ _ eq_refl) as (Hw & _). exists StopAck. eexists. split; [reflexivity|]. unfold Gpool.step. rewrite Hd, Hw. reflexivity.
  - (* DAck *)
    assert (Hrp : rp s = RSent) by (apply B3; rewrite ?Hd; [reflexivity|discriminate]).
    exists RelRet. eexists. split; [reflexivity|]. unfold Gpool.step. rewrite Hd, Hrp. reflexivity.
  - (* DDone *)
    destruct (rp s) eqn:Hrp.
    + destruct (HP0 (or_introl eq_refl)) as [Z _]. discriminate.
    + destruct (HP0 (or_intror eq_refl)) as [Z _]. discriminate.
    + destruct (B5 eq_refl) as [_ Z]. congruence.
    + exists RelRetLog. eexists. split; [reflexivity|]. unfold Gpool.step. rewrite Hrp. reflexivity.
    + destruct Hcase as [[[C|C] _]|[C|[C|C]]]; discriminate.
Qed.
End Theorems.

(* ================= refinement: every execution's observable trace is accepted by the specification machine ================= *)
Definition f_got p := match p with WGot j => Some j | _ => None end.
Lemma occ_split l : Permutation (jobs_of f_occ l) (jobs_of f_got l ++ jobs_of f_run l ++ jobs_of f_ended l).
Proof.
  induction l as [|a l IH]; [reflexivity|]. unfold jobs_of in *. cbn [flat_map].
  destruct a; cbn [f_occ f_got f_run f_ended app]; try exact IH.
  - apply perm_skip. exact IH.
  - rewrite IH. apply Permutation_middle.
  - rewrite IH. rewrite (app_assoc _ _ (j :: _)). rewrite <- Permutation_middle. rewrite <- app_assoc. reflexivity.
Qed.

Lemma sruns_app W σ a b : sruns W σ (a ++ b) = match sruns W σ a with Some σ' => sruns W σ' b | None => None end.
Proof. revert σ. induction a as [|e a IH]; intros σ; cbn; [reflexivity|]. destruct (sstep W σ e); auto. Qed.

Section Refinement.
Variable W Q : nat.
Notation step := (step W Q). Notation run := (run W Q). Notation trace := (trace W Q).
Notation init := (init W). Notation reachable := (reachable W Q).

Lemma sim_step s l s' : reachable s -> step s l = Some s' -> sruns W (abs s) (ev s l) = Some (abs s').
Proof.
  intros Hr Hs.
  destruct (reachable_inv _ _ _ Hr) as ((HL & HC & HS & _ & _ & _ & _ & _ & _ & HD & HR & _) & _ & (C1 & C2 & C3 & C4 & C5)).
  destruct (conservation W Q s Hr) as [_ Hnd].
  destruct l; unfold ev; unfold Gpool.step in Hs; brk; injection Hs as <-; unfold abs; simp;
    try (match goal with H : rp s = _ |- _ => rewrite !H end); cbn [sruns sstep s_called s_ret s_run s_done s_rel relof]; try reflexivity.
  - (* SubCall *)
    match goal with H : mem j _ = false |- _ => rewrite H end. reflexivity.
  - (* SubRet *)
    match goal with H : mem j _ = true |- _ => apply mem_In in H; rename H into Hm end.
    apply (Permutation_NoDup C2) in C1.
    assert (A : mem j (clog s) = true). { apply mem_In. eapply Permutation_in; [symmetry; exact C2|]. apply in_or_app. right. apply in_or_app. now left. }
    assert (B : mem j (rlog s) = false). { apply mem_nIn. apply NoDup_app_tail in C1. eapply NoDup_app_disj; eauto. }
    rewrite A, B. reflexivity.
  - (* JStart *)
    match goal with H : nth_error (wk s) w = Some _ |- _ => rename H into Hw end.
    assert (Hocc : In j (occupying (wk s))) by (eapply jobs_in; eauto; reflexivity).
    assert (A : mem j (clog s) = true).
    { apply mem_In. eapply Permutation_in; [symmetry; exact C2|]. apply in_or_app. right.
      eapply Permutation_in; [exact C3|]. eapply Permutation_in; [symmetry; exact HC|].
      apply in_or_app. right. apply in_or_app. right. apply in_or_app. now left. }
    apply NoDup_app_tail in Hnd. apply NoDup_app_tail in Hnd.
    assert (Hfin : ~ In j (fin s)) by (eapply NoDup_app_disj; eauto).
    apply NoDup_app_head in Hnd. unfold occupying in Hnd. apply (Permutation_NoDup (occ_split (wk s))) in Hnd.
    assert (Hgot : In j (jobs_of f_got (wk s))) by (eapply jobs_in; eauto; reflexivity).
    pose proof (NoDup_app_disj _ _ _ Hnd Hgot) as Hdis.
    assert (B : mem j (runl s) = false).
    { apply mem_nIn. intros Hin. apply Hdis. apply in_or_app. left. eapply Permutation_in; [exact C4|exact Hin]. }
    assert (C : mem j (dlog s) = false).
    { apply mem_nIn. intros Hin. apply (Permutation_in _ C5) in Hin. apply in_app_or in Hin. destruct Hin as [Hin|Hin]; [|tauto].
      apply Hdis. apply in_or_app. now right. }
    assert (D : (length (runl s) <? W) = true).
    { apply Nat.ltb_lt. rewrite (Permutation_length C4), <- HL. eapply jobs_lt; eauto. }
    assert (E : relst_eqb (relof (rp s)) RelReturned = false).
    { destruct (rp s) eqn:Hrp; try reflexivity. exfalso.
      destruct (release_returns_after_all_stopped W Q s Hr (or_introl Hrp)) as (_ & Hall & _). apply Hall in Hw. discriminate. }
    rewrite A, B, C, D, E. reflexivity.
  - (* JEnd *)
    match goal with H : nth_error (wk s) w = Some _ |- _ => rename H into Hw end.
    assert (A : mem j (runl s) = true). { apply mem_In. eapply Permutation_in; [symmetry; exact C4|]. eapply jobs_in; eauto. }
    rewrite A. reflexivity.
  - (* RelRetLog *)
    match goal with H : rp s = RAcked |- _ => rename H into Hrp end.
    destruct (release_returns_after_all_stopped W Q s Hr (or_intror Hrp)) as (_ & _ & _ & Hrun). rewrite Hrun. reflexivity.
Qed.

Lemma refines_from ls : forall s s', reachable s -> run s ls = Some s' -> sruns W (abs s) (trace s ls) = Some (abs s').
Proof.
  induction ls as [|l ls IH]; cbn; intros s s' Hr H. { now inversion H; subst. }
  destruct (step s l) eqn:E; [|discriminate].
  rewrite sruns_app, (sim_step _ _ _ Hr E). apply IH; auto. eapply reachable_step; eauto.
Qed.

Theorem refines_spec ls s : run init ls = Some s -> sruns W sinit (trace init ls) = Some (abs s) /\ accepts W (trace init ls) = true.
Proof.
  intros H. assert (R0 : reachable init) by (exists []; reflexivity).
  pose proof (refines_from ls init s R0 H) as A. split; [exact A|]. unfold accepts. change sinit with (abs init). now rewrite A.
Qed.
End Refinement.

(* ================= what an accepted trace means (the specification machine on its own) ================= *)
Definition ends_of (tr : list event) : list job := flat_map (fun e => match e with EEnd j => [j] | _ => [] end) tr.

Section Spec.
Variable W : nat.
Definition SInv (σ : sst) (st en : list job) : Prop :=
  length (s_run σ) <= W /\ NoDup (s_run σ ++ s_done σ) /\ Permutation st (s_run σ ++ s_done σ) /\ Permutation en (s_done σ).

Lemma SInv_step σ e σ' st en : SInv σ st en -> sstep W σ e = Some σ' -> SInv σ' (st ++ starts_of [e]) (en ++ ends_of [e]).
Proof.
  intros (I1 & I2 & I3 & I4) Hs. unfold SInv.
  destruct e; unfold sstep in Hs; brk; injection Hs as <-; cbn [s_run s_done starts_of ends_of flat_map app]; rewrite ?app_nil_r; auto.
  - (* EStart *)
    match goal with H : (_ && _) = true |- _ => apply andb_true_iff in H; destruct H as [H _]; apply andb_true_iff in H; destruct H as [H Hlt];
      apply andb_true_iff in H; destruct H as [H Hd]; apply andb_true_iff in H; destruct H as [_ Hr] end.
    apply Nat.ltb_lt in Hlt. apply negb_true_iff in Hd, Hr. apply mem_nIn in Hd, Hr.
    repeat split; auto.
    + rewrite app_length. cbn. lia.
    + rewrite <- app_assoc. cbn. eapply Permutation_NoDup; [apply Permutation_middle|]. constructor; auto.
      intros Hin. apply in_app_or in Hin. tauto.
    + pcount.
  - (* EEnd *)
    match goal with H : mem j _ = true |- _ => apply mem_In in H; apply rm_perm in H; rename H into Hm end.
    assert (Hp : Permutation (s_run σ ++ s_done σ) (rm j (s_run σ) ++ s_done σ ++ [j])).
    { clear - Hm. pcount. }
    repeat split; auto.
    + rewrite (Permutation_length Hm) in I1. cbn in I1. lia.
    + eapply Permutation_NoDup; [exact Hp|exact I2].
    + rewrite I3. exact Hp.
    + rewrite I4. reflexivity.
Qed.

Lemma SInv_runs tr : forall σ σ' st en, SInv σ st en -> sruns W σ tr = Some σ' -> SInv σ' (st ++ starts_of tr) (en ++ ends_of tr).
Proof.
  induction tr as [|e tr IH]; cbn [sruns]; intros σ σ' st en HI H.
  - inversion H; subst. cbn. now rewrite !app_nil_r.
  - destruct (sstep W σ e) eqn:E; [|discriminate].
    change (e :: tr) with ([e] ++ tr). unfold starts_of, ends_of. rewrite !flat_map_app, !app_assoc.
    eapply IH; [|exact H]. eapply SInv_step; eauto.
Qed.

Lemma SInv_init : SInv sinit [] [].
Proof. unfold SInv; cbn. repeat split; auto; try constructor. lia. Qed.

(* after any prefix of an accepted trace: the jobs running are exactly those started and not ended, there are at most W of
   them, and no job has started twice *)
Theorem spec_prefix tr1 tr2 : accepts W (tr1 ++ tr2) = true ->
  exists σ, sruns W sinit tr1 = Some σ /\ length (s_run σ) <= W /\ NoDup (starts_of tr1) /\
            Permutation (starts_of tr1) (s_run σ ++ ends_of tr1).
Proof.
  unfold accepts. rewrite sruns_app. destruct (sruns W sinit tr1) as [σ|] eqn:E; [|discriminate]. intros _.
  destruct (SInv_runs tr1 _ _ _ _ SInv_init E) as (I1 & I2 & I3 & I4). cbn [app] in *.
  exists σ. repeat split; auto.
  - eapply Permutation_NoDup; [symmetry; exact I3|exact I2].
  - rewrite I3, I4. reflexivity.
Qed.

Theorem spec_start_once tr : accepts W tr = true -> NoDup (starts_of tr).
Proof. intros H. rewrite <- (app_nil_r tr) in H. destruct (spec_prefix _ _ H) as (σ & _ & _ & A & _). exact A. Qed.

(* when release-return is observed every started job has ended, and no start is observed afterwards *)
Lemma no_start_after_returned tr : forall σ σ', s_rel σ = RelReturned -> sruns W σ tr = Some σ' -> starts_of tr = [] /\ s_rel σ' = RelReturned.
Proof.
  induction tr as [|e tr IH]; cbn [sruns]; intros σ σ' Hrel H. { inversion H; subst. auto. }
  destruct (sstep W σ e) as [σ1|] eqn:E; [|discriminate].
  assert (A : starts_of [e] = [] /\ s_rel σ1 = RelReturned).
  { destruct e; unfold sstep in E; brk; injection E as <-; cbn; auto; try congruence.
    match goal with H : (_ && _) = true |- _ => apply andb_true_iff in H; destruct H as [_ H]; rewrite Hrel in H; discriminate end. }
  destruct A as [A1 A2]. destruct (IH _ _ A2 H) as [B1 B2]. split; auto.
  change (e :: tr) with ([e] ++ tr). unfold starts_of in *. rewrite flat_map_app, A1, B1. reflexivity.
Qed.

Theorem spec_release tr1 tr2 : accepts W (tr1 ++ ERelRet :: tr2) = true ->
  Permutation (starts_of tr1) (ends_of tr1) /\ starts_of tr2 = [].
Proof.
  intros H. destruct (spec_prefix _ _ H) as (σ & E & _ & _ & P).
  unfold accepts in H. rewrite sruns_app, E in H. cbn [sruns] in H.
  destruct (sstep W σ ERelRet) as [σ1|] eqn:E1; [|discriminate].
  unfold sstep in E1. destruct (s_rel σ) eqn:Hrel; try discriminate. destruct (s_run σ) eqn:Hrun; try discriminate.
  injection E1 as <-. split. { exact P. }
  destruct (sruns W _ tr2) as [σ2|] eqn:E2; [|discriminate].
  eapply no_start_after_returned; [|exact E2]. reflexivity.
Qed.

(* a complete run: every submitted job ran *)
Theorem spec_complete tr : accepts_complete W tr = true ->
  accepts W tr = true /\ length (starts_of tr) = length (ends_of tr) /\
  exists σ, sruns W sinit tr = Some σ /\ length (s_done σ) = length (s_called σ) /\ Permutation (ends_of tr) (s_done σ).
Proof.
  unfold accepts_complete, accepts. destruct (sruns W sinit tr) as [σ|] eqn:E; [|discriminate].
  destruct (s_run σ) eqn:Hrun; [|discriminate]. intros H. apply Nat.eqb_eq in H.
  destruct (SInv_runs tr _ _ _ _ SInv_init E) as (_ & _ & I3 & I4). cbn [app] in *. rewrite Hrun in I3. cbn in I3.
  repeat split; auto.
  - rewrite (Permutation_length I3), (Permutation_length I4). reflexivity.
  - exists σ. auto.
Qed.
End Spec.

(* ---------- non-vacuity ---------- *)
(* 2 workers, queue 2: two jobs run concurrently, then Release; the trace is accepted as a complete run *)
Definition ex_schedule : list label :=
  [WorkerReg 0; WorkerReg 1; SubCall 7%N; Submit 7%N; SubCall 8%N; SubRet 7%N; Submit 8%N; DTake; DWorker; Hand; SubRet 8%N; DTake; DWorker; Hand;
   JStart 0; JStart 1; JEnd 0; JobEnd 0; JEnd 1; JobEnd 1; WorkerReg 0; WorkerReg 1; RelLog; RelCall; DColTake; StopSend; StopAck;
   DColTake; StopSend; StopAck; DColFin; RelRet; RelRetLog].
Example pool_example :
  exists s, run 2 2 (init 2) ex_schedule = Some s /\ rp s = RDone /\ started s = [7; 8]%N /\ fin s = [7; 8]%N /\
            trace 2 2 (init 2) ex_schedule =
              [ESubCall 7; ESubCall 8; ESubRet 7; ESubRet 8; EStart 7; EStart 8; EEnd 7; EEnd 8; ERelCall; ERelRet]%N /\
            accepts_complete 2 (trace 2 2 (init 2) ex_schedule) = true.
Proof. eexists. vm_compute. repeat split. Qed.
(* queue of capacity 0: the job is handed to the dispatcher's select directly *)
Example pool_example_q0 :
  exists s, run 1 0 (init 1) [SubCall 3%N; SubmitH 3%N; WorkerReg 0; DWorker; Hand; JStart 0; SubRet 3%N; JEnd 0; JobEnd 0] = Some s /\
            fin s = [3%N] /\ step 1 0 (init 1) (Submit 3%N) = None.
Proof. eexists. vm_compute. repeat split. Qed.
(* the validator rejects what the property forbids *)
Example rejects_double_start : accepts 2 [ESubCall 1; EStart 1; EEnd 1; EStart 1]%N = false.
Proof. reflexivity. Qed.
Example rejects_over_parallel : accepts 1 [ESubCall 1; ESubCall 2; EStart 1; EStart 2]%N = false.
Proof. reflexivity. Qed.
Example rejects_release_while_running : accepts 2 [ESubCall 1; EStart 1; ERelCall; ERelRet]%N = false.
Proof. reflexivity. Qed.
Example rejects_start_after_release : accepts 2 [ESubCall 1; ERelCall; ERelRet; EStart 1]%N = false.
Proof. reflexivity. Qed.
Example rejects_lost_job : accepts_complete 2 [ESubCall 1; ESubCall 2; ESubRet 1; ESubRet 2; EStart 1; EEnd 1]%N = false.
Proof. reflexivity. Qed.
