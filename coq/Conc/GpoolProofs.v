(* C19 — proofs about the transition system of Gpool.v: inductive invariant over all label sequences, for every
   number of workers W, queue capacity Q, number of submitters, jobs and schedules. *)
From Coq Require Import List Arith NArith Lia Bool Permutation.
From TarsV Require Import Conc.Gpool.
Import ListNotations.

(* ---------- list-update lemmas ---------- *)
Lemma upd_length {A} n (x : A) l : length (upd n x l) = length l.
Proof. revert n; induction l; destruct n; cbn; auto. Qed.
Lemma nth_upd_eq {A} n (x : A) l : n < length l -> nth_error (upd n x l) n = Some x.
Proof. revert n; induction l; destruct n; cbn; intros; try lia; auto. apply IHl; lia. Qed.
Lemma nth_upd_neq {A} n m (x : A) l : n <> m -> nth_error (upd n x l) m = nth_error l m.
Proof. revert n m; induction l; destruct n, m; cbn; intros; try congruence; auto. Qed.
Lemma nth_some_lt {A} (l : list A) n x : nth_error l n = Some x -> n < length l.
Proof. intros H. apply nth_error_Some. congruence. Qed.

Lemma mem_In j l : mem j l = true <-> In j l.
Proof.
  unfold mem. rewrite existsb_exists. split.
  - intros (x & Hx & E). apply N.eqb_eq in E. now subst.
  - intros H. exists j. split; auto. apply N.eqb_refl.
Qed.
Lemma mem_nIn j l : mem j l = false <-> ~ In j l.
Proof. rewrite <- mem_In. destruct (mem j l); split; intros; try congruence; tauto. Qed.
Lemma rm_perm j l : In j l -> Permutation l (j :: rm j l).
Proof.
  induction l as [|x l IH]; cbn; [tauto|]. intros H.
  destruct (N.eqb j x) eqn:E. { apply N.eqb_eq in E. now subst. }
  destruct H as [H|H]. { subst. rewrite N.eqb_refl in E. discriminate. }
  rewrite (IH H) at 1. apply perm_swap.
Qed.

(* ---------- jobs held by workers ---------- *)
Lemma jobs_upd_keep f l : forall w p x, nth_error l w = Some p -> f p = f x -> jobs_of f (upd w x l) = jobs_of f l.
Proof.
  induction l as [|a l IH]; intros [|w] p x H E; cbn in *; try discriminate.
  - inversion H; subst. unfold jobs_of. cbn. now rewrite E.
  - unfold jobs_of in *. cbn. f_equal. eapply IH; eauto.
Qed.
Lemma jobs_upd_add f l : forall w p x j, nth_error l w = Some p -> f p = None -> f x = Some j ->
  Permutation (jobs_of f (upd w x l)) (j :: jobs_of f l).
Proof.
  induction l as [|a l IH]; intros [|w] p x j H Hp Hx; cbn in *; try discriminate.
  - inversion H; subst. unfold jobs_of. cbn. rewrite Hp, Hx. reflexivity.
  - unfold jobs_of in *. cbn. rewrite (IH _ _ _ _ H Hp Hx). rewrite Permutation_middle. reflexivity.
Qed.
Lemma jobs_upd_del f l : forall w p x j, nth_error l w = Some p -> f p = Some j -> f x = None ->
  Permutation (jobs_of f l) (j :: jobs_of f (upd w x l)).
Proof.
  induction l as [|a l IH]; intros [|w] p x j H Hp Hx; cbn in *; try discriminate.
  - inversion H; subst. unfold jobs_of. cbn. rewrite Hp, Hx. reflexivity.
  - unfold jobs_of in *. cbn. rewrite (IH _ _ _ _ H Hp Hx). rewrite Permutation_middle. reflexivity.
Qed.
Lemma jobs_le f l : length (jobs_of f l) <= length l.
Proof. induction l as [|a l IH]; cbn; [lia|]. unfold jobs_of in *. cbn. rewrite app_length. destruct (f a); cbn; lia. Qed.
Lemma jobs_lt f l : forall w p, nth_error l w = Some p -> f p = None -> length (jobs_of f l) < length l.
Proof.
  induction l as [|a l IH]; intros [|w] p H Hp; cbn in *; try discriminate.
  - inversion H; subst. unfold jobs_of. cbn. rewrite Hp. cbn. pose proof (jobs_le f l). unfold jobs_of in *. lia.
  - unfold jobs_of in *. cbn. rewrite app_length. specialize (IH _ _ H Hp). destruct (f a); cbn; lia.
Qed.
Lemma jobs_repeat f n : f WReg = None -> jobs_of f (repeat WReg n) = [].
Proof. intros E. induction n; cbn; auto. unfold jobs_of in *. cbn. now rewrite E. Qed.
Lemma jobs_in f l : forall w p j, nth_error l w = Some p -> f p = Some j -> In j (jobs_of f l).
Proof.
  induction l as [|a l IH]; intros [|w] p j H Hp; cbn in *; try discriminate.
  - inversion H; subst. unfold jobs_of. cbn. rewrite Hp. now left.
  - unfold jobs_of in *. cbn. apply in_or_app. right. eapply IH; eauto.
Qed.

Definition isdone p := match p with WDone => true | _ => false end.
Lemma ndone_upd_same l : forall w p x, nth_error l w = Some p -> isdone p = false -> isdone x = false ->
  ndone (upd w x l) = ndone l.
Proof.
  induction l as [|a l IH]; intros [|w] p x H Hp Hx; cbn in *; try discriminate.
  - inversion H; subst. unfold ndone. cbn. destruct p, x; try discriminate; reflexivity.
  - unfold ndone in *. cbn. destruct a; cbn; rewrite (IH _ _ _ H Hp Hx); reflexivity.
Qed.
Lemma ndone_upd_done l : forall w p, nth_error l w = Some p -> isdone p = false ->
  ndone (upd w WDone l) = S (ndone l).
Proof.
  induction l as [|a l IH]; intros [|w] p H Hp; cbn in *; try discriminate.
  - inversion H; subst. unfold ndone. cbn. destruct p; try discriminate; reflexivity.
  - unfold ndone in *. cbn. destruct a; cbn; rewrite (IH _ _ H Hp); reflexivity.
Qed.
Lemma ndone_repeat n : ndone (repeat WReg n) = 0.
Proof. induction n; cbn; auto. Qed.
Lemma ndone_le l : ndone l <= length l.
Proof. unfold ndone. induction l as [|a l IH]; cbn; [lia|]. destruct a; cbn; lia. Qed.
Lemma ndone_all l : ndone l = length l -> forall w p, nth_error l w = Some p -> p = WDone.
Proof.
  induction l as [|a l IH]; intros H [|w] p Hn; cbn in *; try discriminate.
  - inversion Hn; subst. pose proof (ndone_le l). unfold ndone in *. destruct p; cbn in H; try reflexivity; lia.
  - apply (IH) with (w := w); auto. pose proof (ndone_le l). unfold ndone in *. destruct a; cbn in H; lia.
Qed.
(* fewer than all workers have returned: some worker has not *)
Lemma ndone_some_not l : ndone l < length l -> exists w p, nth_error l w = Some p /\ p <> WDone.
Proof.
  induction l as [|a l IH]; cbn; [lia|]. intros H.
  destruct a; try (exists 0; eexists; split; [reflexivity|discriminate]).
  unfold ndone in *. cbn in H. destruct IH as (w & p & A & B); [lia|]. exists (S w), p. auto.
Qed.

Lemma NoDup_snoc {A} (l : list A) x : NoDup l -> ~ In x l -> NoDup (l ++ [x]).
Proof. intros H1 H2. eapply Permutation_NoDup; [apply Permutation_cons_append|]. now constructor. Qed.
Lemma NoDup_app_tail {A} (l l' : list A) : NoDup (l ++ l') -> NoDup l'.
Proof. induction l; cbn; intros H; [exact H|]. inversion H; auto. Qed.
Lemma NoDup_app_head {A} (l l' : list A) : NoDup (l ++ l') -> NoDup l.
Proof. intros H. apply NoDup_app_tail with (l := l'). eapply Permutation_NoDup; [apply Permutation_app_comm|exact H]. Qed.
Lemma NoDup_app_disj {A} (l l' : list A) x : NoDup (l ++ l') -> In x l -> ~ In x l'.
Proof.
  induction l as [|a l IH]; cbn; [tauto|]. intros H [E|Hin] Hx; inversion H; subst.
  - apply H2. apply in_or_app. now right.
  - apply IH; auto.
Qed.

Ltac simp := cbn [jobq wq wk dp rp calling sentl subm started fin clog rlog runl dlog
                  set_jobq set_wq set_wk set_dp set_rp set_calling set_sentl set_subm set_started set_fin
                  set_clog set_rlog set_runl set_dlog sent_now] in *.
Ltac brk := repeat match goal with
  | H : context [match ?x with _ => _ end] |- _ => destruct x eqn:?; try discriminate
  end.

Section Proofs.
Variable W Q : nat.
Notation step := (step W Q). Notation run := (run W Q). Notation trace := (trace W Q).
Notation InvA := (InvA W). Notation InvB := (InvB Q). Notation Inv := (Inv W Q). Notation init := (init W).
Notation reachable := (reachable W Q).

Ltac splits := split; [|split; [|split; [|split; [|split; [|split; [|split; [|split; [|split; [|split; [|split]]]]]]]]]].
(* a goal about the dispatcher's / releaser's program counter that is impossible or follows from the old fact *)
Ltac dpc_triv := intros; try discriminate;
  try (match goal with HR : ?P -> _ = DDone, H : ?P |- _ => specialize (HR H); discriminate end);
  repeat match goal with H : _ \/ _ |- _ => destruct H end; try discriminate; try congruence.

Lemma InvA_init : InvA init.
Proof.
  unfold Gpool.InvA, Gpool.init, occupying; cbn [jobq wq wk dp rp subm started fin held app].
  rewrite repeat_length, jobs_repeat, ndone_repeat by reflexivity.
  repeat split; auto; try constructor; intros; try discriminate; try contradiction.
  all: try (match goal with H : _ \/ _ |- _ => destruct H; discriminate end).
Qed.

Lemma InvA_step s l s' : InvA s -> step s l = Some s' -> InvA s'.
Proof.
  intros (HL & HC & HS & HN & HQ & HH & HSt & HA & HCo & HD & HR & HP0) Hs.
  destruct l; unfold Gpool.step in Hs; brk; injection Hs as <-; unfold Gpool.InvA, occupying in *; simp.
  - (* SubCall *) splits; auto.
  - (* Submit *)
    splits; auto.
    rewrite HC. rewrite <- !app_assoc. apply Permutation_app_head.
    rewrite (Permutation_app_comm [j]). rewrite <- !app_assoc. reflexivity.
  - (* SubmitH *)
    match goal with H : dp s = DSel |- _ => rename H into Hd end.
    match goal with H : jobq s = [] |- _ => rename H into Hj end.
    rewrite ?Hd, ?Hj in *. cbn [held app] in *.
    splits; auto; try (dpc_triv; fail).
    all: try (intros E; destruct (HP0 E) as [_ B]; split; [reflexivity|exact B]; fail).
    all: try (rewrite HC; symmetry; apply Permutation_cons_append).
    all: try (intros E; destruct (HP0 E) as [_ B]; split; [reflexivity|exact B]).
  - (* SubRet *) splits; auto.
  - (* WorkerReg *)
    match goal with H : nth_error (wk s) w = Some _ |- _ => rename H into Hw end. subst.
    pose proof (nth_some_lt _ _ _ Hw) as Hlt.
    assert (Hnin : ~ In w (wq s)) by (intros Hin; apply HQ in Hin; congruence).
    assert (Hother : forall v q, nth_error (wk s) v = Some q -> q <> WReg -> nth_error (upd w WWait (wk s)) v = Some q).
    { intros v q A B. destruct (Nat.eq_dec w v); [subst; congruence|rewrite nth_upd_neq; auto]. }
    assert (Hnin2 : forall v q, nth_error (wk s) v = Some q -> q <> WReg -> ~ In v (wq s) -> ~ In v (wq s ++ [w])).
    { intros v q A B C Hin. apply in_app_or in Hin. destruct Hin as [|[|[]]]; [tauto|subst; congruence]. }
    rewrite upd_length, (jobs_upd_keep _ _ _ _ _ Hw), (ndone_upd_same _ _ _ _ Hw) by reflexivity.
    splits; auto.
    + apply NoDup_snoc; auto.
    + intros x Hx. apply in_app_or in Hx. destruct Hx as [Hx|[Hx|[]]].
      * destruct (Nat.eq_dec w x); [subst; apply nth_upd_eq; auto|rewrite nth_upd_neq; auto].
      * subst. apply nth_upd_eq; auto.
    + intros j x E. destruct (HH _ _ E) as [A B]. split; [eapply Hother|eapply Hnin2]; eauto; congruence.
    + intros i x E. destruct (HSt _ _ E) as (A & B & C & D). repeat split; auto; [eapply Hother|eapply Hnin2]; eauto; congruence.
    + intros i x E. destruct (HA _ _ E) as (A & B & C & D). repeat split; auto; [eapply Hother|eapply Hnin2]; eauto; congruence.
  - (* DTake *)
    match goal with H : dp s = DSel |- _ => rename H into Hd end.
    match goal with H : jobq s = _ |- _ => rename H into Hj end.
    rewrite ?Hd, ?Hj in *. cbn [held app] in *.
    splits; auto; try (dpc_triv; fail).
    all: try (intros E; destruct (HP0 E) as [_ B]; split; [reflexivity|exact B]; fail).
    + rewrite HC. cbn. apply Permutation_middle.
  - (* DWorker *)
    match goal with H : dp s = DHave _ |- _ => rename H into Hd end.
    match goal with H : wq s = _ |- _ => rename H into Hq end.
    rewrite ?Hd, ?Hq in *. cbn [held app] in *. inversion HN; subst.
    splits; auto; try (dpc_triv; fail).
    all: try (intros E; destruct (HP0 E) as [_ B]; split; [reflexivity|exact B]; fail).
    + intros x Hx. apply HQ. now right.
    + intros j0 x E. injection E as <- <-. split; [apply HQ; now left|auto].
  - (* Hand *)
    match goal with H : dp s = DHand _ _ |- _ => rename H into Hd end.
    match goal with H : nth_error (wk s) _ = Some _ |- _ => rename H into Hw end. subst.
    pose proof (nth_some_lt _ _ _ Hw) as Hlt.
    first [destruct (HH _ _ Hd) as [_ Hnin] | destruct (HH _ _ eq_refl) as [_ Hnin]]. rewrite ?Hd in *. cbn [held app] in *.
    rewrite upd_length, (ndone_upd_same _ _ _ _ Hw) by reflexivity.
    pose proof (jobs_upd_add f_occ _ _ _ (WGot j) j Hw eq_refl eq_refl) as HP.
    splits; auto; try (dpc_triv; fail).
    all: try (intros E; destruct (HP0 E) as [_ B]; split; [reflexivity|exact B]; fail).
    + rewrite HC, HP. cbn. apply Permutation_app_head. reflexivity.
    + rewrite HP. rewrite Permutation_app_comm. cbn. apply perm_skip. rewrite HS. reflexivity.
    + intros x Hx. destruct (Nat.eq_dec w x); [subst; tauto|rewrite nth_upd_neq; auto].
  - (* JStart *)
    match goal with H : nth_error (wk s) w = Some _ |- _ => rename H into Hw end. subst.
    pose proof (nth_some_lt _ _ _ Hw) as Hlt.
    assert (Hother : forall v q, nth_error (wk s) v = Some q -> (forall j, q <> WGot j) -> nth_error (upd w (WRun j) (wk s)) v = Some q).
    { intros v q A B. destruct (Nat.eq_dec w v); [subst; rewrite Hw in A; inversion A; subst; exfalso; eapply B; eauto|rewrite nth_upd_neq; auto]. }
    rewrite upd_length, (jobs_upd_keep f_occ _ _ _ (WRun j) Hw), (ndone_upd_same _ _ _ _ Hw) by reflexivity.
    splits; auto.
    + intros x Hx. eapply Hother; eauto. intros; congruence.
    + intros j0 x E. destruct (HH _ _ E) as [A B]. split; auto. eapply Hother; eauto. intros; congruence.
    + intros i x E. destruct (HSt _ _ E) as (A & B & C & D). repeat split; auto. eapply Hother; eauto. intros; congruence.
    + intros i x E. destruct (HA _ _ E) as (A & B & C & D). repeat split; auto. eapply Hother; eauto. intros; congruence.
  - (* JEnd *)
    match goal with H : nth_error (wk s) w = Some _ |- _ => rename H into Hw end. subst.
    pose proof (nth_some_lt _ _ _ Hw) as Hlt.
    assert (Hother : forall v q, nth_error (wk s) v = Some q -> (forall j, q <> WRun j) -> nth_error (upd w (WEnded j) (wk s)) v = Some q).
    { intros v q A B. destruct (Nat.eq_dec w v); [subst; rewrite Hw in A; inversion A; subst; exfalso; eapply B; eauto|rewrite nth_upd_neq; auto]. }
    rewrite upd_length, (jobs_upd_keep f_occ _ _ _ (WEnded j) Hw), (ndone_upd_same _ _ _ _ Hw) by reflexivity.
    splits; auto.
    + intros x Hx. eapply Hother; eauto. intros; congruence.
    + intros j0 x E. destruct (HH _ _ E) as [A B]. split; auto. eapply Hother; eauto. intros; congruence.
    + intros i x E. destruct (HSt _ _ E) as (A & B & C & D). repeat split; auto. eapply Hother; eauto. intros; congruence.
    + intros i x E. destruct (HA _ _ E) as (A & B & C & D). repeat split; auto. eapply Hother; eauto. intros; congruence.
  - (* JobEnd *)
    match goal with H : nth_error (wk s) w = Some _ |- _ => rename H into Hw end. subst.
    pose proof (nth_some_lt _ _ _ Hw) as Hlt.
    assert (Hother : forall v q, nth_error (wk s) v = Some q -> (forall j, q <> WEnded j) -> nth_error (upd w WReg (wk s)) v = Some q).
    { intros v q A B. destruct (Nat.eq_dec w v); [subst; rewrite Hw in A; inversion A; subst; exfalso; eapply B; eauto|rewrite nth_upd_neq; auto]. }
    rewrite upd_length, (ndone_upd_same _ _ _ _ Hw) by reflexivity.
    pose proof (jobs_upd_del f_occ _ _ _ WReg j Hw eq_refl eq_refl) as HP.
    splits; auto.
    + rewrite HC, HP. apply Permutation_app_head. apply Permutation_app_head.
      cbn [app]. rewrite app_assoc. apply Permutation_cons_append.
    + rewrite HS, HP. cbn [app]. rewrite app_assoc. apply Permutation_cons_append.
    + intros x Hx. eapply Hother; eauto. intros; congruence.
    + intros j0 x E. destruct (HH _ _ E) as [A B]. split; auto. eapply Hother; eauto. intros; congruence.
    + intros i x E. destruct (HSt _ _ E) as (A & B & C & D). repeat split; auto. eapply Hother; eauto. intros; congruence.
    + intros i x E. destruct (HA _ _ E) as (A & B & C & D). repeat split; auto. eapply Hother; eauto. intros; congruence.
  - (* RelLog *)
    match goal with H : rp s = RNot |- _ => rename H into Hr end.
    splits; auto; try (dpc_triv; fail).
    all: try (intros E; destruct (HP0 E) as [_ B]; split; [reflexivity|exact B]; fail).
    all: try (intros _; apply HP0; now left).
  - (* RelCall *)
    match goal with H : dp s = DSel |- _ => rename H into Hd end.
    match goal with H : rp s = RCalled |- _ => rename H into Hr end.
    first [destruct (HP0 (or_intror Hr)) as [_ Hz] | destruct (HP0 (or_intror eq_refl)) as [_ Hz]]. rewrite ?Hd, ?Hr in *. cbn [held app] in *.
    splits; auto; try (dpc_triv; fail).
    all: try (intros E; destruct (HP0 E) as [_ B]; split; [reflexivity|exact B]; fail).
    all: try (intros i E; injection E as <-; exact Hz).
  - (* DColTake *)
    match goal with H : dp s = DCollect _ |- _ => rename H into Hd end.
    match goal with H : wq s = ?v :: _ |- _ => first [pose proof (HQ v ltac:(now left)) as Hw | pose proof (HQ v ltac:(rewrite H; now left)) as Hw]; rename H into Hq end.
    match goal with H : (_ <? _) = true |- _ => rename H into Hlt end. apply Nat.ltb_lt in Hlt.
    first [pose proof (HCo _ Hd) as Hn | pose proof (HCo _ eq_refl) as Hn].
    assert (Hr : ~ (rp s = RNot \/ rp s = RCalled)) by (intros E; destruct (HP0 E) as [A _]; rewrite ?Hd in A; discriminate).
    rewrite ?Hd, ?Hq in *. cbn [held app] in *. inversion HN; subst.
    splits; auto; try (dpc_triv; fail).
    all: try (intros E; destruct (HP0 E) as [_ B]; split; [reflexivity|exact B]; fail).
    all: try (intros x Hx; apply HQ; now right).
    all: try (intros i0 x E; injection E as <- <-; repeat split; auto; fail).
    all: try (intros E; contradiction).
    all: try (intros E; specialize (HR E); discriminate).
  - (* DColFin *)
    match goal with H : dp s = DCollect _ |- _ => rename H into Hd end.
    match goal with H : (_ =? _) = true |- _ => rename H into He end. apply Nat.eqb_eq in He.
    first [pose proof (HCo _ Hd) as Hn | pose proof (HCo _ eq_refl) as Hn].
    assert (Hr : ~ (rp s = RNot \/ rp s = RCalled)) by (intros E; destruct (HP0 E) as [A _]; rewrite ?Hd in A; discriminate).
    rewrite ?Hd in *. cbn [held app] in *.
    splits; auto; try (dpc_triv; fail).
    all: try (intros E; destruct (HP0 E) as [_ B]; split; [reflexivity|exact B]; fail).
    all: try (intros _; lia).
    all: try (intros E; contradiction).
    all: try (intros E; specialize (HR E); discriminate).
  - (* StopSend *)
    match goal with H : dp s = DStop _ _ |- _ => rename H into Hd end.
    match goal with H : nth_error (wk s) _ = Some _ |- _ => rename H into Hw end. subst.
    pose proof (nth_some_lt _ _ _ Hw) as Hlt.
    first [destruct (HSt _ _ Hd) as (_ & Hnin & Hn & Hi) | destruct (HSt _ _ eq_refl) as (_ & Hnin & Hn & Hi)].
    assert (Hr : ~ (rp s = RNot \/ rp s = RCalled)) by (intros E; destruct (HP0 E) as [A _]; rewrite ?Hd in A; discriminate).
    rewrite ?Hd in *. cbn [held app] in *.
    rewrite upd_length, (jobs_upd_keep f_occ _ _ _ WStopping Hw), (ndone_upd_same _ _ _ _ Hw) by reflexivity.
    splits; auto; try (dpc_triv; fail).
    all: try (intros E; destruct (HP0 E) as [_ B]; split; [reflexivity|exact B]; fail).
    all: try (intros x Hx; destruct (Nat.eq_dec w x); [subst; tauto|rewrite nth_upd_neq; auto]; fail).
    all: try (intros i0 x E; injection E as <- <-; repeat split; auto; apply nth_upd_eq; auto; fail).
    all: try (intros E; contradiction).
    all: try (intros E; specialize (HR E); discriminate).
  - (* StopAck *)
    match goal with H : dp s = DWaitAck _ _ |- _ => rename H into Hd end.
    match goal with H : nth_error (wk s) _ = Some _ |- _ => rename H into Hw end. subst.
    pose proof (nth_some_lt _ _ _ Hw) as Hlt.
    first [destruct (HA _ _ Hd) as (_ & Hnin & Hn & Hi) | destruct (HA _ _ eq_refl) as (_ & Hnin & Hn & Hi)].
    assert (Hr : ~ (rp s = RNot \/ rp s = RCalled)) by (intros E; destruct (HP0 E) as [A _]; rewrite ?Hd in A; discriminate).
    rewrite ?Hd in *. cbn [held app] in *.
    rewrite upd_length, (jobs_upd_keep f_occ _ _ _ WDone Hw), (ndone_upd_done _ _ _ Hw) by reflexivity.
    splits; auto; try (dpc_triv; fail).
    all: try (intros E; destruct (HP0 E) as [_ B]; split; [reflexivity|exact B]; fail).
    all: try (intros x Hx; destruct (Nat.eq_dec w x); [subst; tauto|rewrite nth_upd_neq; auto]; fail).
    all: try (intros i0 E; injection E as <-; lia).
    all: try (intros E; contradiction).
    all: try (intros E; specialize (HR E); discriminate).
  - (* RelRet *)
    match goal with H : dp s = DAck |- _ => rename H into Hd end.
    first [pose proof (HD (or_introl Hd)) as Hn | pose proof (HD (or_introl eq_refl)) as Hn]. rewrite ?Hd in *. cbn [held app] in *.
    splits; auto; try (dpc_triv; fail).
    all: try (intros E; destruct (HP0 E) as [_ B]; split; [reflexivity|exact B]; fail).
  - (* RelRetLog *)
    match goal with H : rp s = RAcked |- _ => rename H into Hr end.
    first [pose proof (HR (or_intror Hr)) as Hd | pose proof (HR (or_intror eq_refl)) as Hd].
    splits; auto; try (dpc_triv; fail).
    all: try (intros E; destruct (HP0 E) as [_ B]; split; [reflexivity|exact B]; fail).
Qed.

(* ---------- InvB: who waits where ---------- *)
Lemma InvB_init : InvB init.
Proof.
  unfold Gpool.InvB, Gpool.init; cbn [jobq wq wk dp rp]. repeat split; intros; try discriminate; cbn; try lia.
  - apply nth_error_In in H. apply repeat_spec in H. discriminate.
  - apply nth_error_In in H. apply repeat_spec in H. discriminate.
Qed.

(* the waiting / stopping facts about a worker other than the one whose program counter changed *)
Ltac other_worker w v Hv :=
  destruct (Nat.eq_dec w v) as [->|];
  [rewrite nth_upd_eq in Hv by (eapply nth_some_lt; eauto); try discriminate
  |rewrite nth_upd_neq in Hv by auto].

Lemma InvB_step s l s' : InvA s -> InvB s -> step s l = Some s' -> InvB s'.
Proof.
  intros (HL & _ & _ & HN & HQ & HH & HSt & HA & _ & _ & HR & HP0) (B1 & B2 & B3 & B4) Hs.
  destruct l; unfold Gpool.step in Hs; brk; injection Hs as <-; unfold Gpool.InvB; simp.
  - (* SubCall *) repeat split; auto.
  - (* Submit *)
    match goal with H : (_ && _) = true |- _ => apply andb_true_iff in H; destruct H as [_ Hlt]; apply Nat.ltb_lt in Hlt end.
    repeat split; auto. rewrite app_length. cbn. lia.
  - (* SubmitH *)
    match goal with H : dp s = DSel |- _ => rename H into Hd end. rewrite ?Hd in *.
    repeat split; try (intros; discriminate).
    + intros v Hv. destruct (B1 v Hv) as [|[[? E]|[? E]]]; try discriminate; auto.
    + intros v Hv. destruct (B2 v Hv) as [? E]; discriminate.
    + first [exact B4 | (match goal with H : jobq s = [] |- _ => rewrite H end; exact B4)].
  - (* SubRet *) repeat split; auto.
  - (* WorkerReg *)
    match goal with H : nth_error (wk s) w = Some _ |- _ => rename H into Hw end.
    repeat split; auto.
    + intros v Hv. destruct (Nat.eq_dec w v) as [->|]. { left. apply in_or_app. right. now left. }
      rewrite nth_upd_neq in Hv by auto. destruct (B1 v Hv) as [|[|]]; auto. left. apply in_or_app. now left.
    + intros v Hv. other_worker w v Hv. auto.
  - (* DTake *)
    match goal with H : dp s = DSel |- _ => rename H into Hd end.
    match goal with H : jobq s = _ |- _ => rename H into Hj end. rewrite ?Hd, ?Hj in *.
    repeat split; try (intros; discriminate).
    + intros v Hv. destruct (B1 v Hv) as [|[[? E]|[? E]]]; try discriminate; auto.
    + intros v Hv. destruct (B2 v Hv) as [? E]; discriminate.
    + cbn in B4. lia.
  - (* DWorker *)
    match goal with H : dp s = DHave _ |- _ => rename H into Hd end.
    match goal with H : wq s = _ |- _ => rename H into Hq end. rewrite ?Hd, ?Hq in *.
    repeat split; try (intros; discriminate); auto.
    + intros v Hv. destruct (B1 v Hv) as [[->|]|[[? E]|[? E]]]; try discriminate; eauto.
    + intros v Hv. destruct (B2 v Hv) as [? E]; discriminate.
  - (* Hand *)
    match goal with H : dp s = DHand _ _ |- _ => rename H into Hd end.
    match goal with H : nth_error (wk s) _ = Some _ |- _ => rename H into Hw end. rewrite ?Hd in *.
    repeat split; try (intros; discriminate); auto.
    + intros v Hv. other_worker w v Hv. destruct (B1 v Hv) as [|[[? E]|[? E]]]; try discriminate; auto. injection E as <- <-. congruence.
    + intros v Hv. other_worker w v Hv. destruct (B2 v Hv) as [? E]; discriminate.
  - (* JStart *)
    match goal with H : nth_error (wk s) w = Some _ |- _ => rename H into Hw end.
    repeat split; auto.
    + intros v Hv. other_worker w v Hv. auto.
    + intros v Hv. other_worker w v Hv. auto.
  - (* JEnd *)
    match goal with H : nth_error (wk s) w = Some _ |- _ => rename H into Hw end.
    repeat split; auto.
    + intros v Hv. other_worker w v Hv. auto.
    + intros v Hv. other_worker w v Hv. auto.
  - (* JobEnd *)
    match goal with H : nth_error (wk s) w = Some _ |- _ => rename H into Hw end.
    repeat split; auto.
    + intros v Hv. other_worker w v Hv. auto.
    + intros v Hv. other_worker w v Hv. auto.
  - (* RelLog *)
    repeat split; auto. intros E _. destruct HP0 as [A _]; [now left|]. congruence.
  - (* RelCall *)
    match goal with H : dp s = DSel |- _ => rename H into Hd end. rewrite ?Hd in *.
    repeat split; try (intros; discriminate); auto.
    + intros v Hv. destruct (B1 v Hv) as [|[[? E]|[? E]]]; try discriminate; auto.
    + intros v Hv. destruct (B2 v Hv) as [? E]; discriminate.
  - (* DColTake *)
    match goal with H : dp s = DCollect _ |- _ => rename H into Hd end.
    match goal with H : wq s = _ |- _ => rename H into Hq end.
    assert (Hrp : rp s = RSent) by (apply B3; rewrite ?Hd; [reflexivity|discriminate]).
    rewrite ?Hd, ?Hq in *.
    repeat split; try (intros; discriminate); auto.
    + intros v Hv. destruct (B1 v Hv) as [[->|]|[[? E]|[? E]]]; try discriminate; eauto.
    + intros v Hv. destruct (B2 v Hv) as [? E]; discriminate.
  - (* DColFin *)
    match goal with H : dp s = DCollect _ |- _ => rename H into Hd end.
    assert (Hrp : rp s = RSent) by (apply B3; rewrite ?Hd; [reflexivity|discriminate]).
    rewrite ?Hd in *.
    repeat split; try (intros; discriminate); auto.
    + intros v Hv. destruct (B1 v Hv) as [|[[? E]|[? E]]]; try discriminate; auto.
    + intros v Hv. destruct (B2 v Hv) as [? E]; discriminate.
  - (* StopSend *)
    match goal with H : dp s = DStop _ _ |- _ => rename H into Hd end.
    match goal with H : nth_error (wk s) _ = Some _ |- _ => rename H into Hw end.
    assert (Hrp : rp s = RSent) by (apply B3; rewrite ?Hd; [reflexivity|discriminate]).
    rewrite ?Hd in *.
    repeat split; try (intros; discriminate); auto.
    + intros v Hv. other_worker w v Hv. destruct (B1 v Hv) as [|[[? E]|[? E]]]; try discriminate; auto. injection E as <- <-. congruence.
    + intros v Hv. destruct (Nat.eq_dec w v) as [->|]; [eauto|]. rewrite nth_upd_neq in Hv by auto. destruct (B2 v Hv) as [? E]; discriminate.
  - (* StopAck *)
    match goal with H : dp s = DWaitAck _ _ |- _ => rename H into Hd end.
    match goal with H : nth_error (wk s) _ = Some _ |- _ => rename H into Hw end.
    assert (Hrp : rp s = RSent) by (apply B3; rewrite ?Hd; [reflexivity|discriminate]).
    rewrite ?Hd in *.
    repeat split; try (intros; discriminate); auto.
    + intros v Hv. other_worker w v Hv. destruct (B1 v Hv) as [|[[? E]|[? E]]]; try discriminate; auto.
    + intros v Hv. other_worker w v Hv. destruct (B2 v Hv) as [? E]. injection E as <- <-. congruence.
  - (* RelRet *)
    match goal with H : dp s = DAck |- _ => rename H into Hd end. rewrite ?Hd in *.
    repeat split; try (intros; discriminate); try congruence; auto.
    + intros v Hv. destruct (B1 v Hv) as [|[[? E]|[? E]]]; try discriminate; auto.
    + intros v Hv. destruct (B2 v Hv) as [? E]; discriminate.
  - (* RelRetLog *)
    match goal with H : rp s = RAcked |- _ => rename H into Hr end.
    first [pose proof (HR (or_intror Hr)) as Hd | pose proof (HR (or_intror eq_refl)) as Hd].
    repeat split; auto. intros _ E. congruence.
Qed.

(* ---------- InvC: the logs of the instrumentation ---------- *)
(* permutation goals over job lists, decided by counting occurrences *)
Ltac pcount :=
  let x0 := fresh "x0" in
  apply (Permutation_count_occ N.eq_dec); intros x0;
  repeat match goal with H : Permutation ?a ?b |- _ =>
    let H' := fresh in pose proof (proj1 (Permutation_count_occ N.eq_dec a b) H x0) as H'; clear H end;
  rewrite ?count_occ_app in *; cbn [count_occ] in *; unfold job in *;
  repeat match goal with
         | |- context [N.eq_dec ?a x0] => destruct (N.eq_dec a x0)
         | H : context [N.eq_dec ?a x0] |- _ => destruct (N.eq_dec a x0)
         end; lia.

Lemma InvC_init : Gpool.InvC init.
Proof.
  unfold Gpool.InvC, Gpool.init; cbn [clog calling sentl rlog subm runl dlog wk fin app].
  rewrite !jobs_repeat by reflexivity. repeat split; constructor.
Qed.

Lemma InvC_step s l s' : Gpool.InvC s -> step s l = Some s' -> Gpool.InvC s'.
Proof.
  intros (C1 & C2 & C3 & C4 & C5) Hs.
  destruct l; unfold Gpool.step in Hs; brk; injection Hs as <-; unfold Gpool.InvC; simp.
  - (* SubCall *)
    match goal with H : mem j _ = false |- _ => apply mem_nIn in H; rename H into Hn end.
    repeat split; auto. { apply NoDup_snoc; auto. } pcount.
  - (* Submit *)
    match goal with H : (_ && _) = true |- _ => apply andb_true_iff in H; destruct H as [Hm _]; apply mem_In in Hm; apply rm_perm in Hm end.
    repeat split; auto; pcount.
  - (* SubmitH *)
    match goal with H : mem j _ = true |- _ => apply mem_In in H; apply rm_perm in H; rename H into Hm end.
    repeat split; auto; pcount.
  - (* SubRet *)
    match goal with H : mem j _ = true |- _ => apply mem_In in H; apply rm_perm in H; rename H into Hm end.
    repeat split; auto; pcount.
  - (* WorkerReg *)
    match goal with H : nth_error (wk s) w = Some _ |- _ => rename H into Hw end.
    rewrite (jobs_upd_keep f_run _ _ _ WWait Hw), (jobs_upd_keep f_ended _ _ _ WWait Hw) by reflexivity. repeat split; auto.
  - (* DTake *) repeat split; auto.
  - (* DWorker *) repeat split; auto.
  - (* Hand *)
    match goal with H : nth_error (wk s) _ = Some _ |- _ => rename H into Hw end.
    rewrite (jobs_upd_keep f_run _ _ _ (WGot j) Hw), (jobs_upd_keep f_ended _ _ _ (WGot j) Hw) by reflexivity. repeat split; auto.
  - (* JStart *)
    match goal with H : nth_error (wk s) w = Some _ |- _ => rename H into Hw end.
    pose proof (jobs_upd_add f_run _ _ _ (WRun j) j Hw eq_refl eq_refl) as HP.
    rewrite (jobs_upd_keep f_ended _ _ _ (WRun j) Hw) by reflexivity. repeat split; auto. pcount.
  - (* JEnd *)
    match goal with H : nth_error (wk s) w = Some _ |- _ => rename H into Hw end.
    pose proof (jobs_upd_del f_run _ _ _ (WEnded j) j Hw eq_refl eq_refl) as HP.
    pose proof (jobs_upd_add f_ended _ _ _ (WEnded j) j Hw eq_refl eq_refl) as HP2.
    assert (Hin : In j (runl s)). { eapply Permutation_in; [symmetry; exact C4|]. eapply jobs_in; eauto. }
    apply rm_perm in Hin.
    repeat split; auto; pcount.
  - (* JobEnd *)
    match goal with H : nth_error (wk s) w = Some _ |- _ => rename H into Hw end.
    pose proof (jobs_upd_del f_ended _ _ _ WReg j Hw eq_refl eq_refl) as HP.
    rewrite (jobs_upd_keep f_run _ _ _ WReg Hw) by reflexivity. repeat split; auto. pcount.
  - (* RelLog *) repeat split; auto.
  - (* RelCall *) repeat split; auto.
  - (* DColTake *) repeat split; auto.
  - (* DColFin *) repeat split; auto.
  - (* StopSend *)
    match goal with H : nth_error (wk s) _ = Some _ |- _ => rename H into Hw end.
    rewrite (jobs_upd_keep f_run _ _ _ WStopping Hw), (jobs_upd_keep f_ended _ _ _ WStopping Hw) by reflexivity. repeat split; auto.
  - (* StopAck *)
    match goal with H : nth_error (wk s) _ = Some _ |- _ => rename H into Hw end.
    rewrite (jobs_upd_keep f_run _ _ _ WDone Hw), (jobs_upd_keep f_ended _ _ _ WDone Hw) by reflexivity. repeat split; auto.
  - (* RelRet *) repeat split; auto.
  - (* RelRetLog *) repeat split; auto.
Qed.

(* ---------- the invariant holds in every reachable state ---------- *)
Lemma Inv_init : Inv init.
Proof. split; [apply InvA_init|split; [apply InvB_init|apply InvC_init]]. Qed.
Lemma Inv_step s l s' : Inv s -> step s l = Some s' -> Inv s'.
Proof.
  intros (A & B & C) Hs. split; [eapply InvA_step; eauto|split; [eapply InvB_step; eauto|eapply InvC_step; eauto]].
Qed.
Lemma run_inv ls : forall s s', Inv s -> run s ls = Some s' -> Inv s'.
Proof.
  induction ls as [|l ls IH]; cbn; intros s s' HI Hr. { now inversion Hr; subst. }
  destruct (step s l) eqn:E; [|discriminate]. eapply IH; [eapply Inv_step; eauto|eauto].
Qed.
Lemma reachable_inv s : reachable s -> Inv s.
Proof. intros [ls H]. eapply run_inv; [apply Inv_init|exact H]. Qed.
Lemma reachable_step s l s' : reachable s -> step s l = Some s' -> reachable s'.
Proof.
  intros [ls H] Hs. exists (ls ++ [l]). revert H. generalize init. induction ls as [|a ls IH]; cbn; intros s0 H.
  - inversion H; subst. now rewrite Hs.
  - destruct (step s0 a); [|discriminate]. auto.
Qed.
End Proofs.
