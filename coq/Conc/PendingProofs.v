(* Invariants of the pending-reply table machine (Conc/Pending.v), over all label sequences. *)
From Coq Require Import List ZArith NArith Bool Lia Arith.
From TarsV Require Import Conc.Pending.
Import ListNotations.
Open Scope Z_scope.

(* ---------- lists and the table ---------- *)
Lemma nth_error_upd {A} (l : list A) n x m : nth_error (upd n x l) m =
  if Nat.eqb n m then (match nth_error l n with Some _ => Some x | None => None end) else nth_error l m.
Proof.
  revert n m. induction l as [|y l IH]; intros [|n] [|m]; cbn; auto.
  destruct (Nat.eqb n m); auto.
Qed.

Lemma upd_length {A} (l : list A) n x : length (upd n x l) = length l.
Proof. revert n. induction l as [|y l IH]; intros [|n]; cbn; auto. Qed.

Lemma nth_error_snoc {A} (l : list A) x m : nth_error (l ++ [x]) m =
  if Nat.eqb m (length l) then Some x else nth_error l m.
Proof.
  revert m. induction l as [|y l IH]; intros [|m]; cbn; auto.
  - destruct m; reflexivity.
Qed.

Lemma lookup_delete id id' t : lookup id (delete id' t) = if id' =? id then None else lookup id t.
Proof.
  induction t as [|[k v] t IH]; cbn [delete lookup].
  - destruct (id' =? id); reflexivity.
  - destruct (k =? id') eqn:E1.
    + apply Z.eqb_eq in E1. subst k. rewrite IH. destruct (id' =? id); reflexivity.
    + cbn [lookup]. rewrite IH. destruct (k =? id) eqn:E2; auto.
      apply Z.eqb_eq in E2. subst k. rewrite Z.eqb_sym, E1. reflexivity.
Qed.

Lemma lookup_store id id' ch t : lookup id (store id' ch t) = if id' =? id then Some ch else lookup id t.
Proof. unfold store. cbn [lookup]. rewrite lookup_delete. destruct (id' =? id); reflexivity. Qed.

Lemma run_app s l1 : forall l2, run s (l1 ++ l2) = match run s l1 with Some s' => run s' l2 | None => None end.
Proof. revert s. induction l1 as [|l l1 IH]; intros s l2; cbn [run app]; auto. destruct (step s l); auto. Qed.

Ltac step_cases E :=
  match type of E with step ?s ?l = Some ?s' =>
    destruct l; cbn [step] in E;
    repeat match type of E with
    | context [match nth_error ?a ?b with _ => _ end] => destruct (nth_error a b) eqn:?; [|discriminate E]
    | context [match c_pc ?c with _ => _ end] => destruct (c_pc c) eqn:?; try discriminate E
    | context [match r_pc ?c with _ => _ end] => destruct (r_pc c) eqn:?; try discriminate E
    end; inversion E; subst s'; clear E; cbn [table calls recvs] in *
  end.

Ltac upd_at H :=
  rewrite ?nth_error_upd, ?nth_error_snoc in H;
  repeat match type of H with
  | context [Nat.eqb ?a ?b] => let e := fresh "Eq" in destruct (Nat.eqb a b) eqn:e;
       [apply Nat.eqb_eq in e; try subst|apply Nat.eqb_neq in e]
  end.

(* ---------- A: calls are only appended; id and type of a call never change ---------- *)
Lemma step_calls_stable s l s' : step s l = Some s' ->
  forall k c, nth_error (calls s) k = Some c ->
  exists c', nth_error (calls s') k = Some c' /\ c_id c' = c_id c /\ c_oneway c' = c_oneway c.
Proof.
  intros E k c0 H. step_cases E; try (exists c0; auto; fail).
  - exists c0. rewrite nth_error_snoc. assert (k < length (calls s))%nat by (apply nth_error_Some; congruence).
    destruct (Nat.eqb k (length (calls s))) eqn:E1; [apply Nat.eqb_eq in E1; lia|auto].
  - rewrite nth_error_upd. destruct (Nat.eqb c k) eqn:E1; [apply Nat.eqb_eq in E1; subst; rewrite Heqo|]; eauto.
    rewrite H in Heqo. inversion Heqo; subst. eexists; split; [reflexivity|auto].
  - rewrite nth_error_upd. destruct (Nat.eqb c k) eqn:E1; [apply Nat.eqb_eq in E1; subst; rewrite Heqo|]; eauto.
    rewrite H in Heqo. inversion Heqo; subst. eexists; split; [reflexivity|auto].
  - rewrite nth_error_upd. destruct (Nat.eqb c k) eqn:E1; [apply Nat.eqb_eq in E1; subst; rewrite Heqo|]; eauto.
    rewrite H in Heqo. inversion Heqo; subst. eexists; split; [reflexivity|auto].
  - rewrite nth_error_upd. destruct (Nat.eqb c k) eqn:E1; [apply Nat.eqb_eq in E1; subst; rewrite Heqo|]; eauto.
    rewrite H in Heqo. inversion Heqo; subst. eexists; split; [reflexivity|auto].
  - rewrite nth_error_upd. destruct (Nat.eqb c k) eqn:E1; [apply Nat.eqb_eq in E1; subst; rewrite Heqo|]; eauto.
    rewrite H in Heqo. inversion Heqo; subst. eexists; split; [reflexivity|auto].
  - rewrite nth_error_upd. destruct (Nat.eqb c k) eqn:E1; [apply Nat.eqb_eq in E1; subst; rewrite Heqo|]; eauto.
    rewrite H in Heqo. inversion Heqo; subst. eexists; split; [reflexivity|auto].
  - rewrite nth_error_upd. destruct (Nat.eqb c k) eqn:E1; [apply Nat.eqb_eq in E1; subst; rewrite Heqo|]; eauto.
    rewrite H in Heqo. inversion Heqo; subst. eexists; split; [reflexivity|auto].
  - rewrite nth_error_upd. destruct (Nat.eqb ch k) eqn:E1; [apply Nat.eqb_eq in E1; subst; rewrite Heqo0|]; eauto.
    rewrite H in Heqo0. inversion Heqo0; subst. eexists; split; [reflexivity|auto].
Qed.

Lemma nth_lt {A} (l : list A) k c : nth_error l k = Some c -> (k < length l)%nat.
Proof. intros H. apply nth_error_Some. congruence. Qed.

(* ---------- B: every table entry points to a call that is still outstanding and has that id ---------- *)
Definition I_table (s : state) : Prop :=
  forall id ch, lookup id (table s) = Some ch ->
  exists c, nth_error (calls s) ch = Some c /\ c_id c = id /\ active c = true.

Ltac keep_call H k c0 :=
  rewrite nth_error_upd;
  let e := fresh "Eq" in
  destruct (Nat.eqb k c0) eqn:e; [apply Nat.eqb_eq in e; subst|apply Nat.eqb_neq in e].

Lemma step_I_table s l s' : I_table s -> step s l = Some s' -> I_table s'.
Proof.
  unfold I_table. intros I E id ch H. step_cases E; eauto.
  - (* register *) rewrite lookup_store in H. destruct (id0 =? id) eqn:E1.
    + apply Z.eqb_eq in E1. inversion H; subst. rewrite nth_error_snoc, Nat.eqb_refl. eexists; split; [reflexivity|auto].
    + destruct (I _ _ H) as [c [A [B C]]]. exists c. rewrite nth_error_snoc.
      pose proof (nth_lt _ _ _ A). destruct (Nat.eqb ch (length (calls s))) eqn:E2; [apply Nat.eqb_eq in E2; lia|auto].
  - destruct (I _ _ H) as [c1 [A [B C]]]. rewrite nth_error_upd. destruct (Nat.eqb c ch) eqn:E1; eauto.
    apply Nat.eqb_eq in E1. subst. rewrite Heqo. rewrite A in Heqo. inversion Heqo; subst.
    eexists; split; [reflexivity|]. split; auto. unfold active, set_cpc; cbn. destruct (c_oneway c0); auto.
  - destruct (I _ _ H) as [c1 [A [B C]]]. rewrite nth_error_upd. destruct (Nat.eqb c ch) eqn:E1; eauto.
    apply Nat.eqb_eq in E1. subst. rewrite Heqo. rewrite A in Heqo. inversion Heqo; subst.
    eexists; split; [reflexivity|]. split; auto.
  - destruct (I _ _ H) as [c1 [A [B C]]]. rewrite nth_error_upd. destruct (Nat.eqb c ch) eqn:E1; eauto.
    apply Nat.eqb_eq in E1. subst. rewrite Heqo. rewrite A in Heqo. inversion Heqo; subst.
    eexists; split; [reflexivity|]. split; auto.
  - rewrite lookup_delete in H. destruct (c_id c0 =? id) eqn:E0; [discriminate|].
    destruct (I _ _ H) as [c1 [A [B C]]]. rewrite nth_error_upd. destruct (Nat.eqb c ch) eqn:E1; eauto.
    apply Nat.eqb_eq in E1. subst. rewrite A in Heqo. inversion Heqo; subst. apply Z.eqb_neq in E0. congruence.
  - rewrite lookup_delete in H. destruct (c_id c0 =? id) eqn:E0; [discriminate|].
    destruct (I _ _ H) as [c1 [A [B C]]]. rewrite nth_error_upd. destruct (Nat.eqb c ch) eqn:E1; eauto.
    apply Nat.eqb_eq in E1. subst. rewrite A in Heqo. inversion Heqo; subst. apply Z.eqb_neq in E0. congruence.
  - rewrite lookup_delete in H. destruct (c_id c0 =? id) eqn:E0; [discriminate|].
    destruct (I _ _ H) as [c1 [A [B C]]]. rewrite nth_error_upd. destruct (Nat.eqb c ch) eqn:E1; eauto.
    apply Nat.eqb_eq in E1. subst. rewrite A in Heqo. inversion Heqo; subst. apply Z.eqb_neq in E0. congruence.
  - rewrite lookup_delete in H. destruct (c_id c0 =? id) eqn:E0; [discriminate|].
    destruct (I _ _ H) as [c1 [A [B C]]]. rewrite nth_error_upd. destruct (Nat.eqb c ch) eqn:E1; eauto.
    apply Nat.eqb_eq in E1. subst. rewrite A in Heqo. inversion Heqo; subst. apply Z.eqb_neq in E0. congruence.
  - destruct (I _ _ H) as [c1 [A [B C]]]. rewrite nth_error_upd. destruct (Nat.eqb ch0 ch) eqn:E1; eauto.
    apply Nat.eqb_eq in E1. subst. rewrite Heqo0. rewrite A in Heqo0. inversion Heqo0; subst.
    eexists; split; [reflexivity|]. split; auto.
Qed.

(* ---------- C: a receiver that found a channel found the channel of a call registered under the packet's id ---------- *)
Definition chan_of (pc : rpc) : option nat :=
  match pc with RSending ch | RDone ch | RGaveUp ch => Some ch | _ => None end.

Definition I_recv (s : state) : Prop :=
  forall r rc ch, nth_error (recvs s) r = Some rc -> chan_of (r_pc rc) = Some ch ->
  exists c, nth_error (calls s) ch = Some c /\ c_id c = p_id (r_pkt rc) /\ p_id (r_pkt rc) <> 0 /\ p_oneway (r_pkt rc) = false.

Lemma I_recv_transfer s l s' r rc ch :
  step s l = Some s' -> I_recv s -> nth_error (recvs s) r = Some rc -> chan_of (r_pc rc) = Some ch ->
  exists c, nth_error (calls s') ch = Some c /\ c_id c = p_id (r_pkt rc) /\ p_id (r_pkt rc) <> 0 /\ p_oneway (r_pkt rc) = false.
Proof.
  intros E I H1 H2. destruct (I _ _ _ H1 H2) as [c [A [B [C D]]]].
  destruct (step_calls_stable _ _ _ E _ _ A) as [c' [A' [B' _]]]. exists c'. repeat split; auto. congruence.
Qed.

Lemma step_I_recv s l s' : I_table s -> I_recv s -> step s l = Some s' -> I_recv s'.
Proof.
  intros IT I E r rc ch H1 H2.
  assert (T := fun r rc ch => I_recv_transfer s l s' r rc ch E I).
  destruct l; cbn [step] in E.
  - inversion E; subst s'; cbn [recvs] in *. eauto.
  - destruct (nth_error (calls s) c) as [c0|]; [|discriminate]. destruct (c_pc c0); try discriminate.
    inversion E; subst s'; cbn [recvs] in *. eauto.
  - destruct (nth_error (calls s) c) as [c0|]; [|discriminate]. destruct (c_pc c0); try discriminate.
    inversion E; subst s'; cbn [recvs] in *. eauto.
  - destruct (nth_error (calls s) c) as [c0|]; [|discriminate]. destruct (c_pc c0); try discriminate.
    inversion E; subst s'; cbn [recvs] in *. eauto.
  - destruct (nth_error (calls s) c) as [c0|]; [|discriminate]. destruct (c_pc c0); try discriminate;
    inversion E; subst s'; cbn [recvs] in *; eauto.
  - inversion E; subst s'; cbn [recvs calls] in *. rewrite nth_error_snoc in H1.
    destruct (Nat.eqb r (length (recvs s))); [inversion H1; subst; discriminate|]. eapply (I r); eauto.
  - inversion E; subst s'. eauto.
  - destruct (nth_error (recvs s) r0) as [rc0|] eqn:E0; [|discriminate]. destruct (r_pc rc0) eqn:E1; try discriminate.
    assert (E' := E). inversion E; subst s'; cbn [recvs calls] in *. rewrite nth_error_upd in H1.
    destruct (Nat.eqb r0 r) eqn:E2; [|eapply (I r); eauto].
    apply Nat.eqb_eq in E2. subst r0. rewrite E0 in H1. inversion H1; subst rc; clear H1. cbn [set_rpc r_pc r_pkt] in *.
    destruct (p_id (r_pkt rc0) =? 0) eqn:Ez; [discriminate|]. destruct (p_oneway (r_pkt rc0)) eqn:Eo; [discriminate|].
    destruct (lookup (p_id (r_pkt rc0)) (table s)) as [ch'|] eqn:El; [|discriminate]. cbn in H2. inversion H2; subst ch'.
    destruct (IT _ _ El) as [c [A [B C]]]. exists c. apply Z.eqb_neq in Ez. auto.
  - destruct (nth_error (recvs s) r0) as [rc0|] eqn:E0; [|discriminate]. destruct (r_pc rc0) eqn:E1; try discriminate.
    destruct (nth_error (calls s) ch0) as [c0|] eqn:E3; [|discriminate]. destruct (c_pc c0) eqn:E4; try discriminate.
    assert (E' := E). inversion E; subst s'; cbn [recvs calls] in *. rewrite nth_error_upd in H1.
    destruct (Nat.eqb r0 r) eqn:E2.
    + apply Nat.eqb_eq in E2. subst r0. rewrite E0 in H1. inversion H1; subst rc; clear H1. cbn [set_rpc r_pc r_pkt] in *.
      cbn in H2. inversion H2; subst ch0. apply (T r rc0 ch); auto. rewrite E1. reflexivity.
    + apply (T r rc ch); auto.
  - destruct (nth_error (recvs s) r0) as [rc0|] eqn:E0; [|discriminate]. destruct (r_pc rc0) eqn:E1; try discriminate.
    assert (E' := E). inversion E; subst s'; cbn [recvs calls] in *. rewrite nth_error_upd in H1.
    destruct (Nat.eqb r0 r) eqn:E2.
    + apply Nat.eqb_eq in E2. subst r0. rewrite E0 in H1. inversion H1; subst rc; clear H1. cbn [set_rpc r_pc r_pkt] in *.
      cbn in H2. inversion H2; subst ch0. eapply (I r rc0 ch); auto. rewrite E1. reflexivity.
    + eapply (I r); eauto.
Qed.

(* ---------- D/E: a call that got a packet got it from exactly one receiver, which carried that packet ---------- *)
Definition got_of (pc : cpc) : option packet :=
  match pc with CGot p | CRet (OReply p) => Some p | _ => None end.

Lemma step_done_stable s l s' r rc ch : step s l = Some s' ->
  nth_error (recvs s) r = Some rc -> r_pc rc = RDone ch -> nth_error (recvs s') r = Some rc.
Proof.
  intros E H1 H2. step_cases E; auto.
  - rewrite nth_error_snoc. pose proof (nth_lt _ _ _ H1).
    destruct (Nat.eqb r (length (recvs s))) eqn:E1; [apply Nat.eqb_eq in E1; lia|auto].
  - rewrite nth_error_upd. destruct (Nat.eqb r0 r) eqn:E1; auto. apply Nat.eqb_eq in E1. subst. congruence.
  - rewrite nth_error_upd. destruct (Nat.eqb r0 r) eqn:E1; auto. apply Nat.eqb_eq in E1. subst. congruence.
  - rewrite nth_error_upd. destruct (Nat.eqb r0 r) eqn:E1; auto. apply Nat.eqb_eq in E1. subst. congruence.
Qed.

Definition I_got (s : state) : Prop :=
  forall k c p, nth_error (calls s) k = Some c -> got_of (c_pc c) = Some p ->
  exists r rc, nth_error (recvs s) r = Some rc /\ r_pkt rc = p /\ r_pc rc = RDone k.

Lemma step_I_got s l s' : I_got s -> step s l = Some s' -> I_got s'.
Proof.
  intros I E k c p H1 H2.
  assert (T : forall c0, nth_error (calls s) k = Some c0 -> got_of (c_pc c0) = Some p ->
              exists r rc, nth_error (recvs s') r = Some rc /\ r_pkt rc = p /\ r_pc rc = RDone k).
  { intros c0 A B. destruct (I _ _ _ A B) as [r [rc [X [Y Z]]]]. exists r, rc. split; auto. eapply step_done_stable; eauto. }
  destruct l; cbn [step] in E.
  - inversion E; subst s'; cbn [recvs calls] in *. rewrite nth_error_snoc in H1.
    destruct (Nat.eqb k (length (calls s))); [inversion H1; subst; discriminate|]. eapply I; eauto.
  - destruct (nth_error (calls s) c0) as [c1|] eqn:E0; [|discriminate]. destruct (c_pc c1) eqn:E1; try discriminate.
    assert (E' := E). inversion E; subst s'; cbn [recvs calls] in *. rewrite nth_error_upd in H1.
    destruct (Nat.eqb c0 k) eqn:E2; [|eapply I; eauto]. apply Nat.eqb_eq in E2. subst c0. rewrite E0 in H1. inversion H1; subst c.
    cbn in H2. destruct (c_oneway c1); discriminate.
  - destruct (nth_error (calls s) c0) as [c1|] eqn:E0; [|discriminate]. destruct (c_pc c1) eqn:E1; try discriminate.
    assert (E' := E). inversion E; subst s'; cbn [recvs calls] in *. rewrite nth_error_upd in H1.
    destruct (Nat.eqb c0 k) eqn:E2; [|eapply I; eauto]. apply Nat.eqb_eq in E2. subst c0. rewrite E0 in H1. inversion H1; subst c.
    discriminate.
  - destruct (nth_error (calls s) c0) as [c1|] eqn:E0; [|discriminate]. destruct (c_pc c1) eqn:E1; try discriminate.
    assert (E' := E). inversion E; subst s'; cbn [recvs calls] in *. rewrite nth_error_upd in H1.
    destruct (Nat.eqb c0 k) eqn:E2; [|eapply I; eauto]. apply Nat.eqb_eq in E2. subst c0. rewrite E0 in H1. inversion H1; subst c.
    discriminate.
  - destruct (nth_error (calls s) c0) as [c1|] eqn:E0; [|discriminate].
    destruct (c_pc c1) eqn:E1; try discriminate; assert (E' := E); inversion E; subst s'; cbn [recvs calls] in *;
      rewrite nth_error_upd in H1; (destruct (Nat.eqb c0 k) eqn:E2; [|eapply I; eauto]); apply Nat.eqb_eq in E2; subst c0;
      rewrite E0 in H1; inversion H1; subst c; try discriminate.
    cbn in H2. inversion H2; subst p0. eapply (I k c1 p); eauto. rewrite E1. reflexivity.
  - assert (E' := E). inversion E; subst s'; cbn [recvs calls] in *. eapply T; eauto.
  - inversion E; subst s'. eauto.
  - destruct (nth_error (recvs s) r) as [rc0|] eqn:E0; [|discriminate]. destruct (r_pc rc0) eqn:E1; try discriminate.
    assert (E' := E). inversion E; subst s'; cbn [recvs calls] in *. eapply T; eauto.
  - destruct (nth_error (recvs s) r) as [rc0|] eqn:E0; [|discriminate]. destruct (r_pc rc0) eqn:E1; try discriminate.
    destruct (nth_error (calls s) ch) as [c0|] eqn:E3; [|discriminate]. destruct (c_pc c0) eqn:E4; try discriminate.
    assert (E' := E). inversion E; subst s'; cbn [recvs calls] in *. rewrite nth_error_upd in H1.
    destruct (Nat.eqb ch k) eqn:E2; [|eapply T; eauto].
    apply Nat.eqb_eq in E2. subst ch. rewrite E3 in H1. inversion H1; subst c. cbn in H2. inversion H2; subst p.
    exists r, (set_rpc rc0 (RDone k)). rewrite nth_error_upd, Nat.eqb_refl, E0. auto.
  - destruct (nth_error (recvs s) r) as [rc0|] eqn:E0; [|discriminate]. destruct (r_pc rc0) eqn:E1; try discriminate.
    assert (E' := E). inversion E; subst s'; cbn [recvs calls] in *. eapply T; eauto.
Qed.

(* a receiver that handed its packet over did so to a call that now holds a packet; so no second hand-over to that call *)
Definition I_done (s : state) : Prop :=
  forall r rc ch, nth_error (recvs s) r = Some rc -> r_pc rc = RDone ch ->
  exists c p, nth_error (calls s) ch = Some c /\ got_of (c_pc c) = Some p.

Lemma step_got_stable s l s' k c p : step s l = Some s' ->
  nth_error (calls s) k = Some c -> got_of (c_pc c) = Some p ->
  exists c', nth_error (calls s') k = Some c' /\ got_of (c_pc c') = Some p.
Proof.
  intros E H1 H2. step_cases E; eauto.
  - exists c. rewrite nth_error_snoc. pose proof (nth_lt _ _ _ H1).
    destruct (Nat.eqb k (length (calls s))) eqn:E1; [apply Nat.eqb_eq in E1; lia|auto].
  - rewrite nth_error_upd. destruct (Nat.eqb c0 k) eqn:E1; eauto. apply Nat.eqb_eq in E1. subst. rewrite H1 in *. inversion Heqo; subst. rewrite Heqc2 in H2. discriminate.
  - rewrite nth_error_upd. destruct (Nat.eqb c0 k) eqn:E1; eauto. apply Nat.eqb_eq in E1. subst. rewrite H1 in *. inversion Heqo; subst. rewrite Heqc2 in H2. discriminate.
  - rewrite nth_error_upd. destruct (Nat.eqb c0 k) eqn:E1; eauto. apply Nat.eqb_eq in E1. subst. rewrite H1 in *. inversion Heqo; subst. rewrite Heqc2 in H2. discriminate.
  - rewrite nth_error_upd. destruct (Nat.eqb c0 k) eqn:E1; eauto. apply Nat.eqb_eq in E1. subst. rewrite H1 in *. inversion Heqo; subst. rewrite Heqc2 in H2.
    eexists; split; [reflexivity|exact H2].
  - rewrite nth_error_upd. destruct (Nat.eqb c0 k) eqn:E1; eauto. apply Nat.eqb_eq in E1. subst. rewrite H1 in *. inversion Heqo; subst. rewrite Heqc2 in H2. discriminate.
  - rewrite nth_error_upd. destruct (Nat.eqb c0 k) eqn:E1; eauto. apply Nat.eqb_eq in E1. subst. rewrite H1 in *. inversion Heqo; subst. rewrite Heqc2 in H2. discriminate.
  - rewrite nth_error_upd. destruct (Nat.eqb c0 k) eqn:E1; eauto. apply Nat.eqb_eq in E1. subst. rewrite H1 in *. inversion Heqo; subst. rewrite Heqc2 in H2. discriminate.
  - rewrite nth_error_upd. destruct (Nat.eqb ch k) eqn:E1; eauto. apply Nat.eqb_eq in E1. subst. rewrite H1 in *. inversion Heqo0; subst. rewrite Heqc1 in H2. discriminate.
Qed.

Lemma step_I_done s l s' : I_done s -> step s l = Some s' -> I_done s'.
Proof.
  intros I E r rc ch H1 H2.
  assert (T : nth_error (recvs s) r = Some rc -> exists c p, nth_error (calls s') ch = Some c /\ got_of (c_pc c) = Some p).
  { intros A. destruct (I _ _ _ A H2) as [c [p [X Y]]]. destruct (step_got_stable _ _ _ _ _ _ E X Y) as [c' [X' Y']]. eauto. }
  destruct l; cbn [step] in E.
  - inversion E; subst s'; cbn [recvs calls] in *. auto.
  - destruct (nth_error (calls s) c) as [c1|] eqn:E0; [|discriminate]. destruct (c_pc c1) eqn:E1; try discriminate.
    assert (E' := E). inversion E; subst s'; cbn [recvs calls] in *. auto.
  - destruct (nth_error (calls s) c) as [c1|] eqn:E0; [|discriminate]. destruct (c_pc c1) eqn:E1; try discriminate.
    assert (E' := E). inversion E; subst s'; cbn [recvs calls] in *. auto.
  - destruct (nth_error (calls s) c) as [c1|] eqn:E0; [|discriminate]. destruct (c_pc c1) eqn:E1; try discriminate.
    assert (E' := E). inversion E; subst s'; cbn [recvs calls] in *. auto.
  - destruct (nth_error (calls s) c) as [c1|] eqn:E0; [|discriminate].
    destruct (c_pc c1) eqn:E1; try discriminate; assert (E' := E); inversion E; subst s'; cbn [recvs calls] in *; auto.
  - assert (E' := E). inversion E; subst s'; cbn [recvs calls] in *. rewrite nth_error_snoc in H1.
    destruct (Nat.eqb r (length (recvs s))); [inversion H1; subst; discriminate|]. auto.
  - inversion E; subst s'. auto.
  - destruct (nth_error (recvs s) r0) as [rc0|] eqn:E0; [|discriminate]. destruct (r_pc rc0) eqn:E1; try discriminate.
    assert (E' := E). inversion E; subst s'; cbn [recvs calls] in *. rewrite nth_error_upd in H1.
    destruct (Nat.eqb r0 r) eqn:E2; [|auto]. apply Nat.eqb_eq in E2. subst r0. rewrite E0 in H1. inversion H1; subst rc. cbn in H2.
    destruct (p_id (r_pkt rc0) =? 0); [discriminate|]. destruct (p_oneway (r_pkt rc0)); [discriminate|].
    destruct (lookup (p_id (r_pkt rc0)) (table s)); discriminate.
  - destruct (nth_error (recvs s) r0) as [rc0|] eqn:E0; [|discriminate]. destruct (r_pc rc0) eqn:E1; try discriminate.
    destruct (nth_error (calls s) ch0) as [c0|] eqn:E3; [|discriminate]. destruct (c_pc c0) eqn:E4; try discriminate.
    assert (E' := E). inversion E; subst s'; cbn [recvs calls] in *. rewrite nth_error_upd in H1.
    destruct (Nat.eqb r0 r) eqn:E2; [|auto]. apply Nat.eqb_eq in E2. subst r0. rewrite E0 in H1. inversion H1; subst rc. cbn in H2.
    inversion H2; subst ch0. rewrite nth_error_upd, Nat.eqb_refl, E3. eexists; eexists; split; reflexivity.
  - destruct (nth_error (recvs s) r0) as [rc0|] eqn:E0; [|discriminate]. destruct (r_pc rc0) eqn:E1; try discriminate.
    assert (E' := E). inversion E; subst s'; cbn [recvs calls] in *. rewrite nth_error_upd in H1.
    destruct (Nat.eqb r0 r) eqn:E2; [|auto]. apply Nat.eqb_eq in E2. subst r0. rewrite E0 in H1. inversion H1; subst rc. cbn in H2. discriminate.
Qed.

(* at most one receiver ever hands a packet to a given call: duplicates of a reply are not delivered twice *)
Definition I_once (s : state) : Prop :=
  forall r1 r2 rc1 rc2 ch, nth_error (recvs s) r1 = Some rc1 -> nth_error (recvs s) r2 = Some rc2 ->
  r_pc rc1 = RDone ch -> r_pc rc2 = RDone ch -> r1 = r2.

Lemma step_done_origin s l s' r rc ch : step s l = Some s' ->
  nth_error (recvs s') r = Some rc -> r_pc rc = RDone ch ->
  nth_error (recvs s) r = Some rc \/
  (l = LHandoff r /\ exists c, nth_error (calls s) ch = Some c /\ c_pc c = CWait).
Proof.
  intros E H1 H2. destruct l; cbn [step] in E.
  - inversion E; subst s'; auto.
  - destruct (nth_error (calls s) c) as [c1|] eqn:E0; [|discriminate]. destruct (c_pc c1) eqn:E1; try discriminate. inversion E; subst s'; auto.
  - destruct (nth_error (calls s) c) as [c1|] eqn:E0; [|discriminate]. destruct (c_pc c1) eqn:E1; try discriminate. inversion E; subst s'; auto.
  - destruct (nth_error (calls s) c) as [c1|] eqn:E0; [|discriminate]. destruct (c_pc c1) eqn:E1; try discriminate. inversion E; subst s'; auto.
  - destruct (nth_error (calls s) c) as [c1|] eqn:E0; [|discriminate]. destruct (c_pc c1) eqn:E1; try discriminate; inversion E; subst s'; auto.
  - inversion E; subst s'; cbn [recvs] in *. rewrite nth_error_snoc in H1.
    destruct (Nat.eqb r (length (recvs s))); [inversion H1; subst; discriminate|]. auto.
  - inversion E; subst s'. auto.
  - destruct (nth_error (recvs s) r0) as [rc0|] eqn:E0; [|discriminate]. destruct (r_pc rc0) eqn:E1; try discriminate.
    inversion E; subst s'; cbn [recvs calls] in *. rewrite nth_error_upd in H1.
    destruct (Nat.eqb r0 r) eqn:E2; [|auto]. apply Nat.eqb_eq in E2. subst r0. rewrite E0 in H1. inversion H1; subst rc. cbn in H2.
    destruct (p_id (r_pkt rc0) =? 0); [discriminate|]. destruct (p_oneway (r_pkt rc0)); [discriminate|].
    destruct (lookup (p_id (r_pkt rc0)) (table s)); discriminate.
  - destruct (nth_error (recvs s) r0) as [rc0|] eqn:E0; [|discriminate]. destruct (r_pc rc0) eqn:E1; try discriminate.
    destruct (nth_error (calls s) ch0) as [c0|] eqn:E3; [|discriminate]. destruct (c_pc c0) eqn:E4; try discriminate.
    inversion E; subst s'; cbn [recvs calls] in *. rewrite nth_error_upd in H1.
    destruct (Nat.eqb r0 r) eqn:E2; [|auto]. apply Nat.eqb_eq in E2. subst r0. rewrite E0 in H1. inversion H1; subst rc. cbn in H2.
    inversion H2; subst ch0. right. split; auto. eauto.
  - destruct (nth_error (recvs s) r0) as [rc0|] eqn:E0; [|discriminate]. destruct (r_pc rc0) eqn:E1; try discriminate.
    inversion E; subst s'; cbn [recvs calls] in *. rewrite nth_error_upd in H1.
    destruct (Nat.eqb r0 r) eqn:E2; [|auto]. apply Nat.eqb_eq in E2. subst r0. rewrite E0 in H1. inversion H1; subst rc. cbn in H2. discriminate.
Qed.

Lemma step_I_once s l s' : I_done s -> I_once s -> step s l = Some s' -> I_once s'.
Proof.
  intros ID I E r1 r2 rc1 rc2 ch A1 A2 B1 B2.
  destruct (step_done_origin _ _ _ _ _ _ E A1 B1) as [O1|[L1 [c1 [X1 Y1]]]];
  destruct (step_done_origin _ _ _ _ _ _ E A2 B2) as [O2|[L2 [c2 [X2 Y2]]]].
  - eapply I; eauto.
  - destruct (ID _ _ _ O1 B1) as [c [p [X Y]]]. rewrite X in X2. inversion X2; subst. rewrite Y2 in Y. discriminate.
  - destruct (ID _ _ _ O2 B2) as [c [p [X Y]]]. rewrite X in X1. inversion X1; subst. rewrite Y1 in Y. discriminate.
  - rewrite L1 in L2. inversion L2. auto.
Qed.

(* ---------- all unconditional invariants together ---------- *)
Definition inv (s : state) : Prop := I_table s /\ I_recv s /\ I_got s /\ I_done s /\ I_once s.

Lemma inv_init : inv init.
Proof.
  unfold inv, I_table, I_recv, I_got, I_done, I_once, init; cbn. repeat split.
  - intros; discriminate.
  - intros [|r]; intros; discriminate.
  - intros [|k]; intros; discriminate.
  - intros [|r]; intros; discriminate.
  - intros [|r]; intros; discriminate.
Qed.

Lemma step_inv s l s' : inv s -> step s l = Some s' -> inv s'.
Proof.
  intros [A [B [C [D F]]]] E. repeat split.
  - eapply step_I_table; eauto.
  - eapply step_I_recv; eauto.
  - eapply step_I_got; eauto.
  - eapply step_I_done; eauto.
  - eapply step_I_once; eauto.
Qed.

Lemma run_inv ls : forall s s', inv s -> run s ls = Some s' -> inv s'.
Proof.
  induction ls as [|l ls IH]; intros s s' I E; cbn [run] in E.
  - inversion E; subst; auto.
  - destruct (step s l) eqn:E1; [|discriminate]. eapply IH; [|exact E]. eapply step_inv; eauto.
Qed.

(* ---------- theorems over all label sequences ---------- *)

(* a call only ever holds a packet that carries its own id (non-zero, two-way) and that the peer really sent *)
Theorem routing ls s k c p : run init ls = Some s ->
  nth_error (calls s) k = Some c -> (c_pc c = CGot p \/ c_pc c = CRet (OReply p)) ->
  p_id p = c_id c /\ p_id p <> 0 /\ p_oneway p = false /\
  exists r rc, nth_error (recvs s) r = Some rc /\ r_pkt rc = p /\ r_pc rc = RDone k.
Proof.
  intros E H1 H2. destruct (run_inv _ _ _ inv_init E) as [A [B [C [D F]]]].
  assert (G : got_of (c_pc c) = Some p) by (destruct H2 as [-> | ->]; reflexivity).
  destruct (C _ _ _ H1 G) as [r [rc [X [Y Z]]]].
  destruct (B r rc k X) as [c' [X' [Y' [Z' W']]]]; [rewrite Z; reflexivity|].
  rewrite H1 in X'. inversion X'; subst c'. subst p. repeat split; auto. eauto.
Qed.

(* a packet whose id is 0, whose type is one-way, or whose id no call ever registered reaches nobody *)
Theorem unknown_reaches_nobody ls s r rc : run init ls = Some s -> nth_error (recvs s) r = Some rc ->
  (p_id (r_pkt rc) = 0 \/ p_oneway (r_pkt rc) = true \/ (forall k c, nth_error (calls s) k = Some c -> c_id c <> p_id (r_pkt rc))) ->
  chan_of (r_pc rc) = None.
Proof.
  intros E H1 H2. destruct (run_inv _ _ _ inv_init E) as [A [B _]].
  destruct (chan_of (r_pc rc)) as [ch|] eqn:Ec; auto. exfalso.
  destruct (B _ _ _ H1 Ec) as [c [X [Y [Z W]]]]. destruct H2 as [H2|[H2|H2]]; [congruence|congruence|eapply H2; eauto].
Qed.

(* duplicates: two different receivers never both deliver to the same call *)
Theorem delivered_once ls s r1 r2 rc1 rc2 ch : run init ls = Some s ->
  nth_error (recvs s) r1 = Some rc1 -> nth_error (recvs s) r2 = Some rc2 ->
  r_pc rc1 = RDone ch -> r_pc rc2 = RDone ch -> r1 = r2.
Proof. intros E. destruct (run_inv _ _ _ inv_init E) as [_ [_ [_ [_ F]]]]. apply F. Qed.

(* cleanup: the table has entries only for outstanding calls, under their own ids; in particular a returned call has none *)
Theorem cleanup ls s : run init ls = Some s ->
  forall id ch, lookup id (table s) = Some ch ->
  exists c, nth_error (calls s) ch = Some c /\ c_id c = id /\ active c = true.
Proof. intros E. destruct (run_inv _ _ _ inv_init E) as [A _]. exact A. Qed.

Corollary cleanup_returned ls s k c o : run init ls = Some s ->
  nth_error (calls s) k = Some c -> c_pc c = CRet o -> lookup (c_id c) (table s) <> Some k.
Proof.
  intros E H1 H2 H3. destruct (cleanup _ _ E _ _ H3) as [c' [X [Y Z]]]. rewrite H1 in X. inversion X; subst c'.
  unfold active in Z. rewrite H2 in Z. discriminate.
Qed.

(* a reply that arrives when no outstanding call holds its id is dropped at the lookup: no call and no table entry changes,
   and the receiver can take no further step *)
Theorem late_reply_inert ls s r rc : run init ls = Some s ->
  nth_error (recvs s) r = Some rc -> r_pc rc = RStart ->
  (forall k c, nth_error (calls s) k = Some c -> c_id c = p_id (r_pkt rc) -> active c = false) ->
  exists s', step s (LLookup r) = Some s' /\ calls s' = calls s /\ table s' = table s /\
    (forall rc', nth_error (recvs s') r = Some rc' -> r_pc rc' = RPush \/ r_pc rc' = RDropped) /\
    step s' (LLookup r) = None /\ step s' (LHandoff r) = None /\ step s' (LGiveUp r) = None.
Proof.
  intros E H1 H2 H3. destruct (run_inv _ _ _ inv_init E) as [A _].
  cbn [step]. rewrite H1, H2. eexists; split; [reflexivity|]. cbn [calls table recvs].
  assert (P : (if p_id (r_pkt rc) =? 0 then RPush else if p_oneway (r_pkt rc) then RDropped
               else match lookup (p_id (r_pkt rc)) (table s) with Some ch => RSending ch | None => RDropped end) = RPush \/
              (if p_id (r_pkt rc) =? 0 then RPush else if p_oneway (r_pkt rc) then RDropped
               else match lookup (p_id (r_pkt rc)) (table s) with Some ch => RSending ch | None => RDropped end) = RDropped).
  { destruct (p_id (r_pkt rc) =? 0); auto. destruct (p_oneway (r_pkt rc)); auto.
    destruct (lookup (p_id (r_pkt rc)) (table s)) as [ch|] eqn:El; auto.
    destruct (A _ _ El) as [c [X [Y Z]]]. rewrite (H3 _ _ X Y) in Z. discriminate. }
  rewrite nth_error_upd, Nat.eqb_refl, H1. cbn [set_rpc r_pc].
  repeat split; auto.
  - intros rc' H. inversion H; subst rc'. cbn. exact P.
  - destruct P as [-> | ->]; reflexivity.
  - destruct P as [-> | ->]; reflexivity.
  - destruct P as [-> | ->]; reflexivity.
Qed.

(* ---------- under the hypothesis discharged by the id generator: ids fresh among outstanding calls ---------- *)
Definition ginv (s : state) : Prop :=
  forall k c, nth_error (calls s) k = Some c -> active c = true ->
  c_id c <> 0 /\ lookup (c_id c) (table s) = Some k.

Lemma id_free_spec id cs k c : id_free id cs = true -> nth_error cs k = Some c -> active c = true -> c_id c <> id.
Proof.
  unfold id_free. rewrite forallb_forall. intros F H A Heq. specialize (F c (nth_error_In _ _ H)).
  rewrite A, Heq, Z.eqb_refl in F. discriminate.
Qed.

Lemma step_ginv s l s' : ginv s -> goodb s l = true -> step s l = Some s' -> ginv s'.
Proof.
  intros G Hg E k c H1 H2. destruct l; cbn [step] in E.
  - inversion E; subst s'; cbn [calls table] in *. cbn [goodb] in Hg. apply andb_true_iff in Hg. destruct Hg as [Hz Hf].
    rewrite nth_error_snoc in H1. destruct (Nat.eqb k (length (calls s))) eqn:E1.
    + apply Nat.eqb_eq in E1. inversion H1; subst c k. cbn [c_id]. rewrite lookup_store, Z.eqb_refl.
      split; auto. apply negb_true_iff, Z.eqb_neq in Hz. auto.
    + destruct (G _ _ H1 H2) as [X Y]. split; auto. rewrite lookup_store.
      pose proof (id_free_spec _ _ _ _ Hf H1 H2) as N. destruct (id =? c_id c) eqn:E2; auto. apply Z.eqb_eq in E2. congruence.
  - destruct (nth_error (calls s) c0) as [c1|] eqn:E0; [|discriminate]. destruct (c_pc c1) eqn:E1; try discriminate.
    inversion E; subst s'; cbn [calls table] in *. rewrite nth_error_upd in H1.
    destruct (Nat.eqb c0 k) eqn:E2; [|auto]. apply Nat.eqb_eq in E2. subst c0. rewrite E0 in H1. inversion H1; subst c. cbn [set_cpc c_id].
    apply (G k c1 E0). unfold active. rewrite E1. reflexivity.
  - destruct (nth_error (calls s) c0) as [c1|] eqn:E0; [|discriminate]. destruct (c_pc c1) eqn:E1; try discriminate.
    inversion E; subst s'; cbn [calls table] in *. rewrite nth_error_upd in H1.
    destruct (Nat.eqb c0 k) eqn:E2; [|auto]. apply Nat.eqb_eq in E2. subst c0. rewrite E0 in H1. inversion H1; subst c. cbn [set_cpc c_id].
    apply (G k c1 E0). unfold active. rewrite E1. reflexivity.
  - destruct (nth_error (calls s) c0) as [c1|] eqn:E0; [|discriminate]. destruct (c_pc c1) eqn:E1; try discriminate.
    inversion E; subst s'; cbn [calls table] in *. rewrite nth_error_upd in H1.
    destruct (Nat.eqb c0 k) eqn:E2; [|auto]. apply Nat.eqb_eq in E2. subst c0. rewrite E0 in H1. inversion H1; subst c. cbn [set_cpc c_id].
    apply (G k c1 E0). unfold active. rewrite E1. reflexivity.
  - destruct (nth_error (calls s) c0) as [c1|] eqn:E0; [|discriminate].
    assert (A1 : active c1 = true) by (unfold active; destruct (c_pc c1); try discriminate; reflexivity).
    assert (R : exists o, s' = {| table := delete (c_id c1) (table s); calls := upd c0 (set_cpc c1 (CRet o)) (calls s); recvs := recvs s |}).
    { destruct (c_pc c1); try discriminate; inversion E; eauto. }
    destruct R as [o ->]. cbn [calls table] in *. rewrite nth_error_upd in H1.
    destruct (Nat.eqb c0 k) eqn:E2.
    + apply Nat.eqb_eq in E2. subst c0. rewrite E0 in H1. inversion H1; subst c. discriminate.
    + apply Nat.eqb_neq in E2. destruct (G _ _ H1 H2) as [X Y]. destruct (G _ _ E0 A1) as [X1 Y1]. split; auto.
      rewrite lookup_delete. destruct (c_id c1 =? c_id c) eqn:E3; auto. apply Z.eqb_eq in E3. rewrite E3 in Y1. congruence.
  - inversion E; subst s'; cbn [calls table] in *. auto.
  - inversion E; subst s'. auto.
  - destruct (nth_error (recvs s) r) as [rc0|] eqn:E0; [|discriminate]. destruct (r_pc rc0) eqn:E1; try discriminate.
    inversion E; subst s'; cbn [calls table] in *. auto.
  - destruct (nth_error (recvs s) r) as [rc0|] eqn:E0; [|discriminate]. destruct (r_pc rc0) eqn:E1; try discriminate.
    destruct (nth_error (calls s) ch) as [c1|] eqn:E3; [|discriminate]. destruct (c_pc c1) eqn:E4; try discriminate.
    inversion E; subst s'; cbn [calls table] in *. rewrite nth_error_upd in H1.
    destruct (Nat.eqb ch k) eqn:E2; [|auto]. apply Nat.eqb_eq in E2. subst ch. rewrite E3 in H1. inversion H1; subst c. cbn [set_cpc c_id].
    apply (G k c1 E3). unfold active. rewrite E4. reflexivity.
  - destruct (nth_error (recvs s) r) as [rc0|] eqn:E0; [|discriminate]. destruct (r_pc rc0) eqn:E1; try discriminate.
    inversion E; subst s'; cbn [calls table] in *. auto.
Qed.

Lemma good_run_ginv ls : forall s s', ginv s -> good_run s ls = true -> run s ls = Some s' -> ginv s'.
Proof.
  induction ls as [|l ls IH]; intros s s' G Hg E; cbn [run good_run] in *.
  - inversion E; subst; auto.
  - apply andb_true_iff in Hg. destruct Hg as [Hg1 Hg2]. destruct (step s l) eqn:E1; [|discriminate].
    eapply IH; [|exact Hg2|exact E]. eapply step_ginv; eauto.
Qed.

Lemma ginv_init : ginv init.
Proof. intros [|k] c H; discriminate. Qed.

(* the entry of an outstanding call is its own: nobody overwrote or deleted it, so a matching reply finds this call *)
Theorem own_entry ls s k c : good_run init ls = true -> run init ls = Some s ->
  nth_error (calls s) k = Some c -> active c = true -> c_id c <> 0 /\ lookup (c_id c) (table s) = Some k.
Proof. intros Hg E. exact (good_run_ginv _ _ _ ginv_init Hg E k c). Qed.

(* outstanding calls have pairwise distinct ids *)
Theorem outstanding_distinct ls s k1 k2 c1 c2 : good_run init ls = true -> run init ls = Some s ->
  nth_error (calls s) k1 = Some c1 -> nth_error (calls s) k2 = Some c2 -> active c1 = true -> active c2 = true ->
  c_id c1 = c_id c2 -> k1 = k2.
Proof.
  intros Hg E H1 H2 A1 A2 Eq. destruct (own_entry _ _ _ _ Hg E H1 A1) as [_ L1]. destruct (own_entry _ _ _ _ Hg E H2 A2) as [_ L2].
  rewrite Eq in L1. congruence.
Qed.

(* the table is exactly the set of outstanding calls: when all calls have returned it is empty *)
Theorem table_empty_when_quiet ls s : run init ls = Some s ->
  (forall k c, nth_error (calls s) k = Some c -> active c = false) -> table s = [].
Proof.
  intros E Q. destruct (table s) as [|[id ch] t] eqn:Et; auto. exfalso.
  destruct (cleanup _ _ E id ch) as [c [X [Y Z]]]; [rewrite Et; cbn; rewrite Z.eqb_refl; reflexivity|].
  rewrite (Q _ _ X) in Z. discriminate.
Qed.

(* ---------- several adapters: a good run of the product is a good run of the adapter machine on every component ---------- *)
Lemma mstep_proj ms al ms' : mstep ms al = Some ms' -> forall a s, nth_error ms a = Some s ->
  (a = fst al /\ exists s', step s (snd al) = Some s' /\ nth_error ms' a = Some s') \/
  (a <> fst al /\ nth_error ms' a = Some s).
Proof.
  unfold mstep. intros E a s H. destruct (nth_error ms (fst al)) as [s0|] eqn:E0; [|discriminate].
  destruct (step s0 (snd al)) as [s1|] eqn:E1; [|discriminate]. inversion E; subst ms'.
  rewrite nth_error_upd. destruct (Nat.eqb (fst al) a) eqn:Eq.
  - apply Nat.eqb_eq in Eq. subst a. left. split; auto. rewrite E0 in H. inversion H; subst s0. exists s1. rewrite E0. auto.
  - apply Nat.eqb_neq in Eq. right. split; auto.
Qed.

Theorem mgood_run_proj ls : forall ms ms', mgood_run ms ls = true -> mrun ms ls = Some ms' ->
  forall a s, nth_error ms a = Some s ->
  exists pls s', nth_error ms' a = Some s' /\ run s pls = Some s' /\ good_run s pls = true.
Proof.
  induction ls as [|al ls IH]; intros ms ms' G R a s H; cbn [mgood_run mrun] in G, R.
  - inversion R; subst ms'. exists [], s. auto.
  - apply andb_prop in G. destruct G as [G1 G2]. destruct (mstep ms al) as [ms1|] eqn:E1; [|discriminate].
    destruct (mstep_proj _ _ _ E1 _ _ H) as [[Ea [s1 [S1 N1]]]|[Ea N1]].
    + destruct (IH _ _ G2 R _ _ N1) as [pls [s' [A [B C]]]].
      exists (snd al :: pls), s'. split; auto. cbn [run good_run]. rewrite S1. split; auto.
      apply andb_true_intro. split; auto.
      unfold mgoodb in G1. unfold goodb. destruct (snd al); auto.
      apply andb_prop in G1. destruct G1 as [Z F]. rewrite Z. cbn [andb].
      rewrite forallb_forall in F. apply F. eapply nth_error_In; eauto.
    + apply (IH _ _ G2 R _ _ N1).
Qed.

Lemma mrun_length ls : forall m0 ms, mrun m0 ls = Some ms -> length ms = length m0.
Proof.
  induction ls as [|al ls IH]; intros m0 ms R; cbn [mrun] in R; [inversion R; auto|].
  destruct (mstep m0 al) as [m1|] eqn:E; [|discriminate]. rewrite (IH _ _ R).
  unfold mstep in E. destruct (nth_error m0 (fst al)) as [s0|]; [|discriminate]. destruct (step s0 (snd al)); [|discriminate].
  inversion E. apply upd_length.
Qed.

Lemma nth_error_repeat_lt {A} (x : A) n a : (a < n)%nat -> nth_error (repeat x n) a = Some x.
Proof. revert a. induction n; intros [|a] H; cbn; try lia; auto. apply IHn. lia. Qed.

(* hence every connection of a trace accepted by [maccepts] is a good run of the adapter machine from [init]: the theorems
   of this file (routing, own_entry, cleanup ...) apply to what was observed *)
Corollary maccepts_components n ls obs snaps lft pu : maccepts (n, ls, obs, snaps, lft, pu) = true ->
  exists ms, mrun (repeat init n) ls = Some ms /\
    forall a s', nth_error ms a = Some s' -> exists pls, run init pls = Some s' /\ good_run init pls = true.
Proof.
  unfold maccepts. intros H. apply andb_prop in H. destruct H as [H1 H2]. apply andb_prop in H1. destruct H1 as [G _].
  destruct (mrun (repeat init n) ls) as [ms|] eqn:R; [|discriminate]. exists ms. split; auto.
  intros a s' Hs.
  pose proof (mrun_length _ _ _ R) as L. rewrite repeat_length in L.
  assert (Ha : (a < n)%nat) by (rewrite <- L; eapply nth_lt; eauto).
  destruct (mgood_run_proj _ _ _ G R a init (nth_error_repeat_lt _ _ _ Ha)) as [pls [s'' [A [B C]]]].
  rewrite Hs in A. inversion A; subst s''. exists pls. auto.
Qed.

(* what a caller can come back with: the reply carrying its own id, the timeout, a send error, or (one-way) nothing *)
Theorem outcome_cases ls s k c o : run init ls = Some s -> nth_error (calls s) k = Some c -> c_pc c = CRet o ->
  o = OTimeout \/ o = OErr \/ o = OOneWay \/ exists p, o = OReply p /\ p_id p = c_id c /\ p_id p <> 0 /\ p_oneway p = false.
Proof.
  intros E H Hpc. destruct o as [p| | |]; auto. right. right. right. exists p. split; auto.
  destruct (routing _ _ _ _ p E H (or_intror Hpc)) as [A [B [C _]]]. auto.
Qed.

(* ---------- non-vacuity and necessity of the hypothesis ---------- *)
Definition pk (id : Z) (n : N) : packet := {| p_id := id; p_pay := n; p_oneway := false |}.

(* two callers, replies in reverse order, a duplicate, a forged id 0, an id nobody registered, a late reply *)
Example accepts_ex : accepts
  ([LRegister 7 false; LRegister 8 false; LSendOk 0; LSendOk 1;
    LPacket (pk 8 101); LPacket (pk 0 100); LPacket (pk 99 100); LPacket (pk 7 100); LPacket (pk 8 100);
    LLookup 0; LLookup 1; LLookup 2; LLookup 3; LLookup 4;
    LHandoff 3; LHandoff 0; LReturn 0; LReturn 1; LGiveUp 4; LPacket (pk 7 101); LLookup 5],
   [Some 100%N; Some 101%N], [(4%nat, [8; 7]); (17%nat, [8])], []) = true.
Proof. vm_compute. reflexivity. Qed.

(* a caller that ends up with another caller's payload is not a run of the machine *)
Example rejects_cross : accepts
  ([LRegister 7 false; LRegister 8 false; LSendOk 0; LSendOk 1; LPacket (pk 8 101); LLookup 0; LHandoff 0;
    LReturn 1; LTimeout 0; LReturn 0], [Some 101%N; None], [], []) = false.
Proof. vm_compute. reflexivity. Qed.

(* an implementation table holding an id the machine's table does not hold, or an entry left behind, is rejected *)
Example rejects_snap : accepts
  ([LRegister 7 false; LSendOk 0; LTimeout 0; LReturn 0], [None], [(2%nat, [8])], []) = false.
Proof. vm_compute. reflexivity. Qed.
Example rejects_left : accepts
  ([LRegister 7 false; LSendOk 0; LTimeout 0; LReturn 0], [None], [(2%nat, [7])], [7]) = false.
Proof. vm_compute. reflexivity. Qed.

(* two connections: the reply to the call on connection 0 arrives on connection 1 and is dropped there; a second copy on
   connection 0 is delivered *)
Example maccepts_ex : maccepts
  (2%nat, [(0%nat, LRegister 7 false); (0%nat, LSendOk 0); (1%nat, LRegister 8 false); (1%nat, LSendOk 0);
           (1%nat, LPacket (pk 7 100)); (1%nat, LLookup 0); (0%nat, LPacket (pk 7 100)); (0%nat, LLookup 0); (0%nat, LHandoff 0);
           (0%nat, LReturn 0); (1%nat, LTimeout 0); (1%nat, LReturn 0)],
   [[Some 100%N]; [None]], [(4%nat, [7; 8])], [], ([], [])) = true.
Proof. vm_compute. reflexivity. Qed.

(* the same id outstanding on two connections at once is not a good run: ids are process-wide *)
Example mrejects_shared : maccepts
  (2%nat, [(0%nat, LRegister 7 false); (0%nat, LSendOk 0); (1%nat, LRegister 7 false); (1%nat, LSendOk 0);
           (0%nat, LTimeout 0); (0%nat, LReturn 0); (1%nat, LTimeout 0); (1%nat, LReturn 0)],
   [[None]; [None]], [], [], ([], [])) = false.
Proof. vm_compute. reflexivity. Qed.

(* a reply delivered across connections is not a run *)
Example mrejects_cross_conn : maccepts
  (2%nat, [(0%nat, LRegister 7 false); (0%nat, LSendOk 0); (1%nat, LPacket (pk 7 100)); (1%nat, LLookup 0); (1%nat, LHandoff 0);
           (0%nat, LReturn 0)], [[Some 100%N]; []], [], [], ([], [])) = false.
Proof. vm_compute. reflexivity. Qed.

(* an id-0 packet on a connection whose adapter has a push callback: the callback must have seen exactly that payload *)
Example maccepts_push : maccepts
  (1%nat, [(0%nat, LPacket (pk 0 55)); (0%nat, LLookup 0)], [[]], [], [], ([0%nat], [55%N])) = true.
Proof. vm_compute. reflexivity. Qed.
Example mrejects_push_lost : maccepts
  (1%nat, [(0%nat, LPacket (pk 0 55)); (0%nat, LLookup 0)], [[]], [], [], ([0%nat], [])) = false.
Proof. vm_compute. reflexivity. Qed.

(* the hypothesis is needed: if two outstanding calls share an id, the second Store overwrites the first entry and the
   second call's deferred Delete removes it — the first caller is still waiting but unreachable *)
Example shared_id_breaks_entry :
  exists s c, run init [LRegister 5 false; LRegister 5 false; LSendOk 0; LSendOk 1; LTimeout 1; LReturn 1] = Some s /\
    nth_error (calls s) 0 = Some c /\ c_pc c = CWait /\ lookup (c_id c) (table s) = None.
Proof. eexists. eexists. vm_compute. repeat split. Qed.
