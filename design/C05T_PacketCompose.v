(* C05T after the merge with the codec branch: the packet-level theorems of PacketProofs.v composed with the
   struct-level round trip / fuel theorems instantiated on the regenerated schemas (RoundTripExamples.v).
   NOT part of the tup branch's build (it needs Codec/RoundTripExamples.v); add to _CoqProject after the merge. *)
From Coq Require Import List NArith ZArith Lia Bool Arith.
From TarsV Require Import Gen.Consts Base.Hex Codec.Wire Codec.Skip Codec.Prim Codec.GenCodec Codec.Corr Gen.Schemas
  Codec.RoundTrip Codec.RoundTripExamples Frame.Framing Codec.Packet Codec.PacketProofs.
Import ListNotations.
Open Scope N_scope.

Definition rq := sid_requestf_RequestPacket.
Definition rs := sid_requestf_ResponsePacket.

Example packets_fit : fits_model rq = true /\ fits_model rs = true.
Proof. vm_compute. split; reflexivity. Qed.

(* RequestPack, then the server's reading of the packet: the request, for every well-typed RequestPacket value *)
Theorem request_pack_roundtrip vs : has_type env0 (TStruct rq) (VStruct vs) ->
  exists v', request_unpack env0 rq (request_pack env0 rq (VStruct vs)) = DOk v' [] /\ veq env0 (TStruct rq) v' (VStruct vs).
Proof. intros H. rewrite request_pack_unpack. apply env0_roundtrip_equal; [apply packets_fit|exact H]. Qed.

(* rsp2Byte of a non-TUP reply, then the client's ResponseUnpack: the response *)
Theorem rsp2byte_roundtrip vs : has_type env0 (TStruct rs) (VStruct vs) ->
  (rsp_version env0 rs (VStruct vs) =? c_TUPVERSION)%Z = false ->
  exists v', response_unpack env0 rs (rsp2byte env0 rq rs c_TUPVERSION (VStruct vs)) = DOk v' [] /\ veq env0 (TStruct rs) v' (VStruct vs).
Proof. intros H Hv. rewrite rsp2byte_plain by exact Hv. apply env0_roundtrip_equal; [apply packets_fit|exact H]. Qed.

(* unpack on ARBITRARY bytes: never out of fuel; below four bytes the slice panic *)
Theorem response_unpack_fuel pkg : response_unpack env0 rs pkg <> DFuel.
Proof.
  unfold response_unpack. destruct (unpack_total env0 rs pkg) as [[_ ->]|[_ ->]]; [discriminate|].
  apply env0_fuel. apply packets_fit.
Qed.
Theorem request_unpack_fuel pkg : request_unpack env0 rq pkg <> DFuel.
Proof.
  unfold request_unpack. destruct (unpack_total env0 rq pkg) as [[_ ->]|[_ ->]]; [discriminate|].
  apply env0_fuel. apply packets_fit.
Qed.
Print Assumptions request_pack_roundtrip.
Print Assumptions rsp2byte_roundtrip.
Print Assumptions response_unpack_fuel.
