package main

import "math/rand"

func c16BackEnd(a Args, rng *rand.Rand, res *Result, cases []c16Case) {}
