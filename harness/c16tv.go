package main

// C16 back end: what the tars2go binary built from the tree does with an input, and what the code it emits does.
//   (a) binary monitor: every front-end case is also given to the tars2go binary (wall-clock cap, exit status,
//       no Go runtime panic as "diagnostic", agreement of accept/reject with parse.NewParse);
//   (b) translation validation: generated programs of the supported language -> tars2go -> go build of the emitted
//       packages together with harness/c16drv/main.go against the tree -> the driver's observations:
//       reflected schemas / enum constants / constants (compared with the IDL by the harness and with
//       Idl/Schema.v's env_of_module by coqc), encodings and decodings of random values (generated-codec model
//       Codec/GenCodec.v instantiated at the schema the *model* derives from the IDL text), proxy -> dispatcher
//       loop-back calls;
//   (c) the protocol bindings checked into tars/protocol/res against what the generator produces from the .tars
//       files next to them.
// Every new top-level identifier of this file is prefixed c16.

import (
	"bytes"
	"context"
	_ "embed"
	"encoding/hex"
	"encoding/json"
	"fmt"
	"go/format"
	"math"
	"math/rand"
	"os"
	"os/exec"
	"path/filepath"
	"regexp"
	"sort"
	"strconv"
	"strings"
	"sync"
	"time"
)

//go:embed c16drv/main.go
var c16DrvSrc string

func c16Repo() string {
	if r := os.Getenv("VERIF_REPO"); r != "" {
		return r
	}
	return "/repo"
}

// c16Run runs a command with a wall-clock cap; timedOut is set when the cap was hit (the process group is killed)
func c16Run(dir string, capMs int, env []string, name string, args ...string) (out string, code int, timedOut bool) {
	ctx, cancel := context.WithTimeout(context.Background(), time.Duration(capMs)*time.Millisecond)
	defer cancel()
	cmd := exec.CommandContext(ctx, name, args...)
	cmd.Dir = dir
	if env != nil {
		cmd.Env = env
	}
	var buf bytes.Buffer
	cmd.Stdout, cmd.Stderr = &buf, &buf
	cmd.WaitDelay = 2 * time.Second
	err := cmd.Run()
	out = buf.String()
	if ctx.Err() == context.DeadlineExceeded {
		return out, -1, true
	}
	if err != nil {
		if ee, ok := err.(*exec.ExitError); ok {
			return out, ee.ExitCode(), false
		}
		return out + "\n" + err.Error(), -2, false
	}
	return out, 0, false
}

func c16GoEnv() []string {
	env := os.Environ()
	env = append(env, "GOFLAGS=-mod=mod", "GOPROXY=off", "GOSUMDB=off", "GOTOOLCHAIN=local", "CGO_ENABLED=0")
	return env
}

// the tars2go binary of the tree, built into the work directory (the driver's copy may be rebuilt by a concurrent run)
func c16BuildTars2go(dir string) string {
	bin := filepath.Join(dir, "tars2go")
	out, code, to := c16Run(filepath.Join(c16Repo(), "tars/tools/tars2go"), 600000, c16GoEnv(), "go", "build", "-o", bin, ".")
	if code != 0 || to {
		fatal("c16: tars2go does not build from the tree: %s", out)
	}
	return bin
}

// ---------- (a) the binary on the front-end inputs ----------
func c16BinaryOnce(t2g, dir string, input []byte, files map[string]B, capMs int) (status string, out string) {
	os.RemoveAll(dir)
	os.MkdirAll(dir, 0o755)
	if err := os.WriteFile(filepath.Join(dir, "in.tars"), input, 0o644); err != nil {
		fatal("c16: %v", err)
	}
	for n, b := range files { // the binary is given the bare name in.tars: included files are opened as ./name
		os.MkdirAll(filepath.Dir(filepath.Join(dir, n)), 0o755)
		os.WriteFile(filepath.Join(dir, n), b, 0o644)
	}
	o, code, to := c16Run(dir, capMs, nil, t2g, "-outdir", "gen", "in.tars")
	switch {
	case to:
		return "hang", o
	case code == 0:
		return "exit0", o
	case code == 1:
		return "exit1", o
	}
	return fmt.Sprintf("exit%d", code), o
}

func c16BinaryMonitor(a Args, res *Result, cases []c16Case, t2g string, base string) {
	type r struct{ status, out string }
	rs := make([]r, len(cases))
	var wg sync.WaitGroup
	var hmu sync.Mutex
	confirmed := 0
	ch := make(chan int)
	for k := 0; k < 6; k++ {
		wg.Add(1)
		go func(k int) {
			defer wg.Done()
			dir := filepath.Join(base, fmt.Sprintf("bin%d", k))
			for i := range ch {
				if cases[i].Class == "hang" { // reported by the parser monitor already; the binary would only hang again
					rs[i] = r{"skipped", ""}
					continue
				}
				st, o := c16BinaryOnce(t2g, dir, cases[i].Input, cases[i].Files, 5000)
				hmu.Lock()
				skip := confirmed >= 2 // enough confirmed hangs: further ones are reported as observed
				hmu.Unlock()
				for n := 0; n < 2 && st == "hang" && !skip; n++ { // a hang only counts when it reproduces with a longer cap
					st, o = c16BinaryOnce(t2g, dir, cases[i].Input, cases[i].Files, 15000)
				}
				if st == "hang" && !skip {
					hmu.Lock()
					confirmed++
					hmu.Unlock()
				}
				rs[i] = r{st, o}
			}
			os.RemoveAll(dir)
		}(k)
	}
	for i := range cases {
		ch <- i
	}
	close(ch)
	wg.Wait()
	hist := map[string]int{}
	for i := range cases {
		c := &cases[i]
		c.T2G = rs[i].status
		hist[c.Class+"->"+rs[i].status]++
		in := c16Trunc(string(c.Input), 200)
		switch {
		case rs[i].status == "skipped":
		case rs[i].status == "hang":
			res.Failures = append(res.Failures, Failure{Sig: "tars2go/bin/hang", Desc: fmt.Sprintf("the tars2go binary does not terminate (3 runs, 5 s / 15 s / 15 s) on %q", in), Replay: *c})
		case rs[i].status != "exit0" && rs[i].status != "exit1":
			res.Failures = append(res.Failures, Failure{Sig: "tars2go/bin/crash", Desc: fmt.Sprintf("the tars2go binary ended with %s instead of a diagnostic on %q: %s", rs[i].status, in, c16Trunc(rs[i].out, 300)), Replay: *c})
		case strings.Contains(rs[i].out, "runtime error:") || strings.Contains(rs[i].out, "goroutine "):
			res.Failures = append(res.Failures, Failure{Sig: "tars2go/bin/runtime-panic", Desc: fmt.Sprintf("the tars2go binary reports a Go runtime panic as its diagnostic on %q: %s", in, c16Trunc(rs[i].out, 300)), Replay: *c})
		case c.Class == "err" && rs[i].status == "exit0":
			res.Failures = append(res.Failures, Failure{Sig: "tars2go/bin/accepts-what-the-parser-rejects", Desc: fmt.Sprintf("parse.NewParse reports a diagnostic but the binary exits 0 on %q", in), Replay: *c})
		}
	}
	res.Stats["binary_outcomes"] = hist
}

// ---------- (b) translation validation ----------

// Go type text of an IDL type inside package pkg ("" = unqualified); mirrors the documented mapping, not gen_go.go
func c16GoType(t *c16Ty, pkg string, m *c16Module) string {
	switch t.K {
	case "bool":
		return "bool"
	case "byte":
		if t.Unsigned {
			return "uint8"
		}
		return "int8"
	case "short":
		if t.Unsigned {
			return "uint16"
		}
		return "int16"
	case "int":
		if t.Unsigned {
			return "uint32"
		}
		return "int32"
	case "long":
		return "int64"
	case "float":
		return "float32"
	case "double":
		return "float64"
	case "string":
		return "string"
	case "vector":
		return "[]" + c16GoType(t.A, pkg, m)
	case "map":
		return "map[" + c16GoType(t.A, pkg, m) + "]" + c16GoType(t.B, pkg, m)
	case "name":
		n := t.Name
		q := pkg
		if i := strings.Index(n, "::"); i >= 0 {
			q, n = n[:i], n[i+2:]
		}
		n = c16Upper(n)
		if q != "" {
			return q + "." + n
		}
		return n
	}
	return "?"
}

func c16Upper(s string) string {
	if s == "" {
		return s
	}
	return strings.ToUpper(s[:1]) + s[1:]
}

func (m *c16Module) enumByName(n string) *c16Enum {
	if i := strings.Index(n, "::"); i >= 0 {
		if n[:i] != m.Name {
			if m.Dep != nil { // the included module, or one it includes
				return m.Dep.enumByName(n)
			}
			return nil
		}
		n = n[i+2:]
	}
	for _, d := range m.Decls {
		if d.E != nil && d.E.Name == n {
			return d.E
		}
	}
	return nil
}
func (m *c16Module) isStruct(n string) bool {
	if i := strings.Index(n, "::"); i >= 0 {
		if n[:i] != m.Name {
			if m.Dep != nil {
				return m.Dep.isStruct(n)
			}
			return false
		}
		n = n[i+2:]
	}
	for _, d := range m.Decls {
		if d.S != nil && d.S.Name == n {
			return true
		}
	}
	return false
}

// values of an enum's members as the IDL means them: "= v" sets, "= Name" copies, otherwise previous + 1 (from 0)
func c16EnumValues(e *c16Enum) []int32 {
	var vals []int32
	var next int32
	for _, mb := range e.Mb {
		v := next
		switch mb.Kind {
		case 0:
			v = int32(mb.Val)
		case 1:
			for j, o := range e.Mb[:len(vals)] {
				if o.Key == mb.Ref {
					v = vals[j]
					break
				}
			}
		}
		vals = append(vals, v)
		next = v + 1
	}
	return vals
}

func c16PlainLit(t *c16Ty, lit string, m *c16Module) string {
	switch t.K {
	case "bool":
		return lit
	case "float":
		f, _ := strconv.ParseFloat(lit, 32)
		return fmt.Sprintf("f%d", math.Float32bits(float32(f)))
	case "double":
		f, _ := strconv.ParseFloat(lit, 64)
		return fmt.Sprintf("f%d", math.Float64bits(f))
	case "string":
		return "s" + hex.EncodeToString([]byte(lit[1:len(lit)-1]))
	case "name":
		if e := m.enumByName(t.Name); e != nil {
			vals := c16EnumValues(e)
			for i, mb := range e.Mb {
				if mb.Key == lit {
					return strconv.Itoa(int(vals[i]))
				}
			}
			if v, err := strconv.ParseInt(lit, 0, 64); err == nil {
				return strconv.FormatInt(v, 10)
			}
		}
		return "?"
	}
	v, _ := strconv.ParseInt(lit, 0, 64)
	return strconv.FormatInt(v, 10)
}

// what the generated struct type must look like
func c16ExpectStruct(s *c16Struct, m *c16Module, jsonSuffix string) string {
	mbs := append([]c16Member(nil), s.Mb...)
	sort.SliceStable(mbs, func(i, j int) bool { return mbs[i].Tag < mbs[j].Tag })
	var parts []string
	for _, mb := range mbs {
		gt := c16GoType(mb.Ty, m.Name, m)
		if mb.ArrLen > 0 {
			gt = fmt.Sprintf("[%d]%s", mb.ArrLen, gt)
		}
		d := "-"
		if mb.Def != "" {
			d = c16PlainLit(mb.Ty, mb.Def, m)
			// a declared default equal to the zero value of the type is not observable on the generated code (the
			// repaired ResetDefault assigns every member): the driver reports it as none
			if d == "0" || d == "false" || d == "f0" || d == "s" {
				d = "-"
			}
		}
		parts = append(parts, fmt.Sprintf("%d:%s:%s:%s:%s:%s=%s", mb.Tag, coqBool(mb.Req), c16Upper(mb.Key), mb.Key, mb.Key+jsonSuffix, gt, d))
	}
	return c16Upper(s.Name) + "{" + strings.Join(parts, ";") + "}"
}

func c16ExpectEnum(e *c16Enum) string {
	vals := c16EnumValues(e)
	var parts []string
	for i, mb := range e.Mb {
		parts = append(parts, fmt.Sprintf("%s=%d", mb.Key, vals[i]))
	}
	return e.Name + "{" + strings.Join(parts, ";") + "}"
}

func c16ExpectConst(c *c16Const, m *c16Module) string {
	return c.Name + ":" + c16GoType(c.Ty, m.Name, m) + "=" + c16PlainLit(c.Ty, c.Val, m)
}

// registration source for one program (see harness/c16drv/main.go)
func c16RegSource(idx int, m *c16Module) (body string, decls string) {
	pk := m.Name
	var b, d strings.Builder
	for _, dc := range m.Decls {
		switch {
		case dc.S != nil:
			fmt.Fprintf(&b, "\tstructs = append(structs, structReg{%d, %q, func() tarsStruct { return new(%s.%s) }})\n", idx, dc.S.Name, pk, c16Upper(dc.S.Name))
		case dc.E != nil:
			var ks, vs []string
			for _, mb := range dc.E.Mb {
				ks = append(ks, strconv.Quote(mb.Key))
				vs = append(vs, fmt.Sprintf("int32(%s.%s_%s)", pk, c16Upper(dc.E.Name), c16Upper(mb.Key)))
			}
			fmt.Fprintf(&b, "\tenums = append(enums, enumReg{%d, %q, []string{%s}, []int32{%s}})\n", idx, dc.E.Name, strings.Join(ks, ", "), strings.Join(vs, ", "))
		case dc.C != nil:
			fmt.Fprintf(&b, "\tconsts = append(consts, constReg{%d, %q, %s.%s})\n", idx, dc.C.Name, pk, c16Upper(dc.C.Name))
		case dc.I != nil:
			it := dc.I
			gn := c16Upper(it.Name)
			var fr []string
			for _, withCtx := range []bool{false, true} {
				tn := fmt.Sprintf("impl%s%s", pk, gn)
				iface := gn + "Servant"
				if withCtx {
					tn = fmt.Sprintf("implCtx%s%s", pk, gn)
					iface = gn + "ServantWithContext"
				}
				fmt.Fprintf(&d, "type %s struct{ h *handler }\n\nvar _ %s.%s = (*%s)(nil)\n\n", tn, pk, iface, tn)
				for _, f := range it.Funcs {
					var ps, as []string
					if withCtx {
						ps = append(ps, "tarsCtx context.Context")
					}
					for k, ag := range f.Args {
						gt := c16GoType(ag.Ty, pk, m)
						if ag.Out || (ag.Ty.K == "name" && m.isStruct(ag.Ty.Name)) {
							gt = "*" + gt
						}
						ps = append(ps, fmt.Sprintf("a%d %s", k, gt))
						as = append(as, fmt.Sprintf("a%d", k))
					}
					rets, retp := "(err error)", "nil"
					if f.Ret != nil {
						rets, retp = "(ret "+c16GoType(f.Ret, pk, m)+", err error)", "&ret"
					}
					fmt.Fprintf(&d, "func (i *%s) %s(%s) %s {\n\terr = i.h.call(%q, %v, []interface{}{%s}, %s)\n\treturn\n}\n\n", tn, c16Upper(f.Name), strings.Join(ps, ", "), rets, f.Name, withCtx, strings.Join(as, ", "), retp)
				}
			}
			for _, f := range it.Funcs {
				var outs []string
				for _, ag := range f.Args {
					outs = append(outs, strconv.FormatBool(ag.Out))
				}
				fr = append(fr, fmt.Sprintf("{%q, %q, []bool{%s}, %v}", c16Upper(f.Name), f.Name, strings.Join(outs, ", "), f.Ret != nil))
			}
			fmt.Fprintf(&b, "\tifaces = append(ifaces, ifaceReg{Prog: %d, Name: %q, Mk: func() dispatcher { return new(%s.%s) },\n\t\tImpl: func(h *handler) interface{} { return &impl%s%s{h} }, ImplCtx: func(h *handler) interface{} { return &implCtx%s%s{h} },\n\t\tFuncs: []funcReg{%s}})\n",
				idx, it.Name, pk, gn, pk, gn, pk, gn, strings.Join(fr, ", "))
		}
	}
	return b.String(), d.String()
}

type c16Prog struct {
	Idx    int
	Mod    *c16Module
	Text   string
	Flags  []string
	Status string // generated | rejected | hang | nocompile | ok
	Msg    string
}

type c16DrvCase struct {
	Kind  string `json:"kind"`
	Sid   int    `json:"sid"`
	Name  string `json:"name"`
	Bytes string `json:"bytes"`
	Obs   string `json:"obs"`
	Note  string `json:"note"`
}
type c16DrvOut struct {
	Prog     int          `json:"prog"`
	Schemas  []string     `json:"schemas"`
	Descs    []string     `json:"descs"`
	Enums    []string     `json:"enums"`
	Consts   []string     `json:"consts"`
	Cases    []c16DrvCase `json:"cases"`
	Failures []struct {
		Sig  string `json:"sig"`
		Desc string `json:"desc"`
	} `json:"failures"`
	Calls  int `json:"calls"`
	Values int `json:"values"`
}

// the replay case of a back-end finding: the IDL program
func c16TvCase(p *c16Prog) c16Case {
	return c16Case{Kind: "tv", Input: B(p.Text), Text: p.Text, Class: p.Status, Msg: strings.Join(p.Flags, " "), Mod: p.Mod}
}

func c16WriteModule(dir string) {
	mod := fmt.Sprintf("module c16tv\n\ngo 1.21\n\nrequire github.com/TarsCloud/TarsGo v0.0.0\n\nreplace github.com/TarsCloud/TarsGo => %s\n", c16Repo())
	os.WriteFile(filepath.Join(dir, "go.mod"), []byte(mod), 0o644)
	if b, err := os.ReadFile(filepath.Join(c16Repo(), "go.sum")); err == nil {
		os.WriteFile(filepath.Join(dir, "go.sum"), b, 0o644)
	}
}

// c16TV runs the programs through tars2go, the compiler and the driver; appends failures, Coq case files and cases
func c16TV(a Args, res *Result, t2g string, dir string, progs []*c16Prog, per, calls int, caseOff *int) {
	os.MkdirAll(dir, 0o755)
	c16WriteModule(dir)
	stats := map[string]int{}
	var live []*c16Prog
	for _, p := range progs {
		file := p.Mod.Name + ".tars"
		os.WriteFile(filepath.Join(dir, file), []byte(p.Text), 0o644)
		args := append(append([]string{"-outdir", "gen", "-module", "c16tv"}, p.Flags...), file)
		out, code, to := c16Run(dir, 10000, nil, t2g, args...)
		for n := 0; n < 2 && to; n++ {
			out, code, to = c16Run(dir, 30000, nil, t2g, args...)
		}
		switch {
		case to:
			p.Status, p.Msg = "hang", out
			res.Failures = append(res.Failures, Failure{Sig: "tars2go/gen/hang", Desc: "tars2go does not terminate on a valid program (3 runs, 10 s / 30 s / 30 s)", Replay: c16TvCase(p)})
		case code != 0:
			p.Status, p.Msg = "rejected", out
			res.Failures = append(res.Failures, Failure{Sig: "tars2go/gen/rejects-valid-program/" + c16DiagClass(out), Desc: fmt.Sprintf("tars2go exits %d on a program of the supported language: %s", code, c16Trunc(c16LastLine(out), 300)), Replay: c16TvCase(p)})
		default:
			p.Status = "generated"
			live = append(live, p)
		}
		stats[p.Status]++
	}
	// compile: all packages at once; on failure each package alone to find the programs that do not compile
	if len(live) > 0 {
		out, code, to := c16Run(dir, 600000, c16GoEnv(), "go", "build", "./gen/...")
		if to {
			fatal("c16: go build of the generated packages timed out")
		}
		if code != 0 {
			var still []*c16Prog
			for _, p := range live {
				o, c, _ := c16Run(dir, 600000, c16GoEnv(), "go", "build", "./gen/"+p.Mod.Name+"/")
				if c != 0 {
					p.Status, p.Msg = "nocompile", o
					stats["nocompile"]++
					res.Failures = append(res.Failures, Failure{Sig: "tars2go/gen/does-not-compile/" + c16CompileClass(o), Desc: fmt.Sprintf("the Go code generated for a valid program does not compile: %s", c16Trunc(c16FirstError(o), 400)), Replay: c16TvCase(p)})
				} else {
					still = append(still, p)
				}
			}
			if len(still) == len(live) {
				fatal("c16: the generated packages build one by one but not together: %s", out)
			}
			live = still
		}
	}
	if len(live) == 0 {
		res.Stats["translation_validation"] = stats
		return
	}
	// the driver
	var imps, body, decls strings.Builder
	for k, p := range live {
		b, d := c16RegSource(k, p.Mod)
		body.WriteString(b)
		decls.WriteString(d)
	}
	for _, p := range live { // the packages the registrations mention (a module without declarations has no package)
		if strings.Contains(body.String()+decls.String(), " "+p.Mod.Name+".") || strings.Contains(body.String()+decls.String(), "("+p.Mod.Name+".") ||
			strings.Contains(body.String()+decls.String(), "*"+p.Mod.Name+".") || strings.Contains(body.String()+decls.String(), "]"+p.Mod.Name+".") {
			fmt.Fprintf(&imps, "\t%s %q\n", p.Mod.Name, "c16tv/gen/"+p.Mod.Name)
		}
	}
	reg := "// generated by harness/c16tv.go\npackage main\n\nimport (\n\t\"context\"\n\n" + imps.String() + ")\n\nvar _ context.Context\n\nfunc init() {\n" + body.String() + "}\n\n" + decls.String()
	os.WriteFile(filepath.Join(dir, "main.go"), []byte(c16DrvSrc), 0o644)
	os.WriteFile(filepath.Join(dir, "reg.go"), []byte(reg), 0o644)
	drv := filepath.Join(dir, "driver")
	out, code, to := c16Run(dir, 900000, c16GoEnv(), "go", "build", "-o", drv, ".")
	if to {
		fatal("c16: go build of the driver timed out")
	}
	if code != 0 {
		// the servant implementations and registrations are written from the IDL with the documented type mapping:
		// if they do not fit the generated declarations, the generated code does not conform
		for _, p := range live {
			p.Status = "nocompile"
		}
		res.Failures = append(res.Failures, Failure{Sig: "tars2go/gen/declarations-do-not-fit-the-idl", Desc: fmt.Sprintf("servant implementations / constant references written from the IDL do not compile against the generated code: %s", c16Trunc(c16FirstError(out), 500)), Replay: c16TvCase(live[0])})
		res.Stats["translation_validation"] = stats
		return
	}
	dout, dcode, dto := c16Run(dir, 300000, nil, drv, fmt.Sprintf("seed=%d", a.Seed), fmt.Sprintf("per=%d", per), fmt.Sprintf("calls=%d", calls), fmt.Sprintf("progs=%d", len(live)))
	if dto || dcode != 0 {
		res.Failures = append(res.Failures, Failure{Sig: "tars2go/gen/driver-crash", Desc: fmt.Sprintf("the program exercising the generated code died (exit %d, timeout %v): %s", dcode, dto, c16Trunc(c16Tail(dout, 600), 600)), Replay: c16TvCase(live[0])})
		res.Stats["translation_validation"] = stats
		return
	}
	var outs []c16DrvOut
	if err := json.Unmarshal([]byte(dout), &outs); err != nil || len(outs) != len(live) {
		fatal("c16: driver output unreadable: %v: %s", err, c16Trunc(dout, 300))
	}
	for k, p := range live {
		o := outs[k]
		p.Status = "ok"
		stats["ok"]++
		stats["values"] += o.Values
		stats["calls"] += o.Calls
		stats["codec_cases"] += len(o.Cases)
		tc := c16TvCase(p)
		for _, f := range o.Failures {
			res.Failures = append(res.Failures, Failure{Sig: f.Sig, Desc: f.Desc, Replay: tc})
		}
		// declarations against the IDL
		var es, ee, ec []string
		for _, d := range p.Mod.Decls {
			switch {
			case d.S != nil:
				js := ""
				for _, f := range p.Flags {
					if f == "-json-omitempty" {
						js = ",omitempty"
					}
				}
				es = append(es, c16ExpectStruct(d.S, p.Mod, js))
			case d.E != nil:
				ee = append(ee, c16ExpectEnum(d.E))
			case d.C != nil:
				ec = append(ec, c16ExpectConst(d.C, p.Mod))
			}
		}
		cmp := func(what string, want, got []string) {
			for i := range want {
				g := "(missing)"
				if i < len(got) {
					g = got[i]
				}
				if g != want[i] {
					res.Failures = append(res.Failures, Failure{Sig: "tars2go/gen/" + what + "-differs-from-idl", Desc: fmt.Sprintf("generated %s is not what the IDL declares: want %s got %s", what, c16Trunc(want[i], 500), c16Trunc(g, 500)), Replay: tc})
					return
				}
			}
		}
		cmp("struct", es, o.Descs)
		cmp("enum", ee, o.Enums)
		cmp("const", ec, o.Consts)
		// Coq: schema (model from the IDL text = reflected from the generated code) and codec cases
		if p.Mod.Dep != nil { // the model covers one file: programs with an include are validated by the monitors above only
			stats["with_include"]++
			continue
		}
		if c16HasByteArray(p.Mod) {
			stats["with_byte_array"]++
			continue
		}
		var enumVals []string
		for _, e := range o.Enums {
			var vs []string
			body := e[strings.Index(e, "{")+1 : len(e)-1]
			if body != "" {
				for _, kv := range strings.Split(body, ";") {
					vs = append(vs, "("+kv[strings.Index(kv, "=")+1:]+")%Z")
				}
			}
			enumVals = append(enumVals, "["+strings.Join(vs, "; ")+"]")
		}
		var terms []string
		for _, c := range o.Cases {
			kind := "GEnc"
			if c.Kind == "dec" {
				kind = "GDec"
			}
			terms = append(terms, fmt.Sprintf("%s (%d%%nat, \"%s\"%%hex, %s)", kind, c.Sid, c.Bytes, c.Obs))
		}
		name := filepath.Join(a.Out, fmt.Sprintf("cases_C16_tv_%s.v", p.Mod.Name))
		var sb strings.Builder
		sb.WriteString("From TarsV Require Import Base.Hex Idl.Lexer Idl.Parser Idl.Schema Codec.GenCodec Codec.Corr.\nFrom Coq Require Import List NArith ZArith.\nImport ListNotations.\nOpen Scope N_scope.\n")
		fmt.Fprintf(&sb, "(* %s *)\nDefinition idl := %s.\n", strings.ReplaceAll(strings.ReplaceAll(p.Text, "(*", "( *"), "*)", "* )"), hx([]byte(p.Text)))
		fmt.Fprintf(&sb, "Definition genv : env := [\n%s\n].\n", strings.Join(o.Schemas, ";\n"))
		fmt.Fprintf(&sb, "Definition genums : list (list Z) := [%s].\n", strings.Join(enumVals, "; "))
		fmt.Fprintf(&sb, "Definition cases : list gcase := [\n%s\n].\n", strings.Join(terms, ";\n"))
		fmt.Fprintf(&sb, "Definition M := Eval vm_compute in (tv_failing idl genv genums %d cases).\nPrint M.\n", *caseOff)
		sb.WriteString("Definition CNT := Eval vm_compute in (N.of_nat (S (length cases))).\nPrint CNT.\n")
		os.WriteFile(name, []byte(sb.String()), 0o644)
		res.CaseFiles = append(res.CaseFiles, name)
		sc := tc
		sc.Msg = "schema of the program: env_of_module (model, from the IDL text) against the struct types / enum constants reflected from the generated code: " + strings.Join(o.Descs, " ")
		jb, _ := json.Marshal(sc)
		res.Cases = append(res.Cases, jb)
		for _, c := range o.Cases {
			cc := tc
			cc.Msg = fmt.Sprintf("%s struct %s bytes %s observed %s", c.Kind, c.Name, c.Bytes, c16Trunc(c.Obs, 300))
			jb, _ := json.Marshal(cc)
			res.Cases = append(res.Cases, jb)
		}
		*caseOff += 1 + len(o.Cases)
	}
	prev, _ := res.Stats["translation_validation"].(map[string]int)
	for k, v := range prev {
		stats[k] += v
	}
	res.Stats["translation_validation"] = stats
}

func c16LastLine(s string) string {
	l := strings.Split(strings.TrimSpace(s), "\n")
	return l[len(l)-1]
}
func c16Tail(s string, n int) string {
	if len(s) > n {
		return s[len(s)-n:]
	}
	return s
}

// class of a tars2go diagnostic: its text without file names, line numbers and identifiers of the program
func c16DiagClass(out string) string {
	l := c16LastLine(out)
	if i := strings.Index(l, ". "); i >= 0 && strings.Contains(l[:i], ".tars") {
		l = l[i+2:]
	}
	var sb strings.Builder
	for _, w := range strings.Fields(l) {
		if strings.ContainsAny(w, "0123456789_:./") {
			continue
		}
		sb.WriteString(w)
		sb.WriteByte('-')
	}
	return strings.Trim(c16Trunc(sb.String(), 60), "-")
}

func c16FirstError(out string) string {
	for _, l := range strings.Split(out, "\n") {
		if strings.Contains(l, ".go:") {
			return strings.TrimSpace(l)
		}
	}
	return strings.TrimSpace(out)
}

// class of a compiler error: the message with identifiers and positions removed
func c16CompileClass(out string) string {
	l := c16FirstError(out)
	if i := strings.Index(l, ": "); i >= 0 {
		l = l[i+2:]
	}
	if c16ByteArrayErr.MatchString(l) {
		return "fixed-byte-array-passed-as-slice"
	}
	for _, k := range []string{"cannot use", "undefined", "redeclared", "mismatched types", "has no field or method", "overflows", "truncated", "declared and not used", "invalid operation", "cannot convert", "does not implement"} {
		if strings.Contains(l, k) {
			return strings.ReplaceAll(k, " ", "-")
		}
	}
	return "other"
}

var c16ByteArrayErr = regexp.MustCompile(`cannot use &?st\.\w+ \((value|variable) of type \*?\[\d+\]u?int8\) as \*?\[\]u?int8 value in argument to (readBuf|buf)\.(Read|Write)Slice(Int8|Uint8)`)

// fixed arrays of bytes (did not compile before the repair): SimpleList on the wire for signed bytes
func c16GapProgram() *c16Prog {
	m := &c16Module{Name: "TvBytes", Decls: []c16Decl{{S: &c16Struct{Name: "Blob", Mb: []c16Member{
		{Tag: 0, Req: true, Ty: &c16Ty{K: "byte"}, Key: "raw", ArrLen: 4},
		{Tag: 1, Req: false, Ty: &c16Ty{K: "byte", Unsigned: true}, Key: "uraw", ArrLen: 2},
		{Tag: 2, Req: false, Ty: &c16Ty{K: "byte"}, Key: "o", ArrLen: 3},
		{Tag: 3, Req: true, Ty: &c16Ty{K: "byte", Unsigned: true}, Key: "r2", ArrLen: 1},
		{Tag: 4, Req: false, Ty: &c16Ty{K: "string"}, Key: "s", Def: `"x"`}}}}}}
	return &c16Prog{Idx: -1, Mod: m, Text: c16Join(m.toks(), nil, 0)}
}

// Codec/GenCodec.v models fixed arrays as LIST only: programs with a fixed array of bytes are validated by the Go
// monitors (declarations against the IDL, round trip, calls), not by the model
func c16HasByteArray(m *c16Module) bool {
	for _, d := range m.Decls {
		if d.S != nil {
			for _, mb := range d.S.Mb {
				if mb.ArrLen > 0 && mb.Ty.K == "byte" {
					return true
				}
			}
		}
	}
	return false
}

// a fixed program that meets every declaration form and the sites of the generator defects repaired so far
func c16CornerProgram() *c16Prog {
	ty := func(k string) *c16Ty { return &c16Ty{K: k} }
	uty := func(k string) *c16Ty { return &c16Ty{K: k, Unsigned: true} }
	nm := func(n string) *c16Ty { return &c16Ty{K: "name", Name: n} }
	vec := func(a *c16Ty) *c16Ty { return &c16Ty{K: "vector", A: a} }
	mp := func(a, b *c16Ty) *c16Ty { return &c16Ty{K: "map", A: a, B: b} }
	color := &c16Enum{Name: "color", Mb: []c16EnumMb{{Key: "red", Kind: 2}, {Key: "green", Kind: 0, Val: 5}, {Key: "blue", Kind: 2}, {Key: "teal", Kind: 1, Ref: "green"},
		{Key: "aqua", Kind: 2}, {Key: "navy", Kind: 1, Ref: "red"}, {Key: "sky", Kind: 2}, {Key: "mist", Kind: 1, Ref: "blue"}, {Key: "fog", Kind: 2}}}
	big := &c16Enum{Name: "Big", Mb: []c16EnumMb{{Key: "MAXV", Kind: 0, Val: 2147483647}, {Key: "MINV", Kind: 0, Val: -2147483648}, {Key: "NEXTV", Kind: 2}}}
	inner := &c16Struct{Name: "inner", Mb: []c16Member{{Tag: 0, Req: true, Ty: ty("int"), Key: "a"}, {Tag: 1, Ty: ty("string"), Key: "s", Def: `"dflt"`}}}
	all := &c16Struct{Name: "all", Mb: []c16Member{
		{Tag: 30, Ty: mp(nm("color"), vec(nm("inner"))), Key: "m"},
		{Tag: 0, Ty: ty("byte"), Key: "b"}, {Tag: 1, Ty: uty("byte"), Key: "ub"}, {Tag: 2, Ty: ty("short"), Key: "sh"}, {Tag: 3, Ty: uty("short"), Key: "ush"},
		{Tag: 4, Ty: ty("int"), Key: "i"}, {Tag: 5, Ty: uty("int"), Key: "ui"}, {Tag: 6, Ty: ty("long"), Key: "l"}, {Tag: 7, Ty: ty("float"), Key: "f"},
		{Tag: 8, Ty: ty("double"), Key: "d"}, {Tag: 9, Ty: ty("string"), Key: "s"}, {Tag: 10, Ty: ty("bool"), Key: "o"},
		{Tag: 11, Ty: nm("color"), Key: "c", Def: "teal"}, {Tag: 12, Req: true, Ty: nm("color"), Key: "ca", ArrLen: 2}, {Tag: 13, Ty: nm("inner"), Key: "ia", ArrLen: 2},
		{Tag: 14, Req: true, Ty: nm("Big"), Key: "bg", Def: "NEXTV"}, {Tag: 15, Ty: ty("byte"), Key: "bd", Def: "-128"}, {Tag: 16, Ty: uty("byte"), Key: "ubd", Def: "255"},
		{Tag: 254, Ty: ty("long"), Key: "ld", Def: "-9223372036854775808"}, {Tag: 255, Req: true, Ty: vec(nm("color")), Key: "vc"},
		{Tag: 20, Ty: ty("float"), Key: "fd", Def: "100.125"}, {Tag: 21, Ty: ty("double"), Key: "dd", Def: "-2.25"}, {Tag: 22, Ty: ty("int"), Key: "hexd", Def: "0x7fffffff"},
		{Tag: 23, Ty: ty("short"), Key: "octd", Def: "017"}, {Tag: 24, Ty: nm("color"), Key: "cn", Def: "fog"}, {Tag: 25, Ty: ty("bool"), Key: "ot", Def: "true"},
		{Tag: 26, Req: true, Ty: ty("string"), Key: "sa", ArrLen: 1}, {Tag: 27, Ty: vec(ty("byte")), Key: "vb"}, {Tag: 28, Ty: vec(uty("byte")), Key: "vub"},
		{Tag: 29, Ty: mp(ty("string"), mp(ty("long"), vec(vec(ty("bool"))))), Key: "deep"}}}
	svc := &c16Iface{Name: "svc", Funcs: []c16Func{
		{Name: "pick", Ret: nm("color"), Args: []c16Arg{{Name: "c", Ty: nm("color")}, {Name: "d", Out: true, Ty: nm("color")}, {Name: "i", Ty: nm("inner")}, {Name: "o", Out: true, Ty: nm("inner")},
			{Name: "vc", Ty: vec(nm("color"))}, {Name: "m", Out: true, Ty: mp(ty("string"), nm("inner"))}}},
		{Name: "nop"},
		{Name: "scal", Ret: vec(ty("byte")), Args: []c16Arg{{Name: "b", Ty: ty("byte")}, {Name: "ub", Out: true, Ty: uty("byte")}, {Name: "f", Ty: ty("float")}, {Name: "d", Out: true, Ty: ty("double")},
			{Name: "l", Ty: ty("long")}, {Name: "o", Out: true, Ty: ty("bool")}, {Name: "s", Ty: ty("string")}, {Name: "us", Out: true, Ty: uty("short")}, {Name: "w", Ty: nm("all")}, {Name: "x", Out: true, Ty: nm("all")}}}}}
	m := &c16Module{Name: "TvCorner", Decls: []c16Decl{{E: color}, {E: big},
		{C: &c16Const{Ty: ty("long"), Name: "minLong", Val: "-9223372036854775808"}}, {C: &c16Const{Ty: uty("byte"), Name: "Ub", Val: "255"}}, {C: &c16Const{Ty: ty("string"), Name: "str", Val: `"a;b{c} // x"`}},
		{C: &c16Const{Ty: ty("double"), Name: "dbl", Val: "-.5"}}, {C: &c16Const{Ty: ty("float"), Name: "flt", Val: "3."}}, {C: &c16Const{Ty: ty("bool"), Name: "yes", Val: "true"}},
		{S: inner}, {S: all}, {K: []string{"all", "b", "s"}}, {I: svc}}}
	return &c16Prog{Idx: -2, Mod: m, Text: c16Join(m.toks(), nil, 0)}
}

func c16TvProgram(rng *rand.Rand, idx int, opt c16GenOpt, dep *c16Prog) *c16Prog {
	var dm *c16Module
	if dep != nil {
		dm = dep.Mod
	}
	m := c16GenModuleDep(rng, fmt.Sprintf("Tv%d", idx), opt, true, dm)
	return &c16Prog{Idx: idx, Mod: m, Text: c16Join(m.toks(), rng, idx%2)}
}

func c16HasTypes(m *c16Module) bool {
	for _, d := range m.Decls {
		if d.S != nil || d.E != nil {
			return true
		}
	}
	return false
}

// option sets the generator is run with (the first is the default, the second is tars/protocol/res/Makefile's)
var c16FlagSets = [][]string{nil, {"-without-trace=true", "-add-servant=false"}, {"-json-omitempty"}, nil, {"-dispatch-reporter"},
	{"-dispatch-reporter", "-without-trace=true", "-add-servant=false"}}

// ---------- (c) the protocol bindings ----------
func c16NormGo(src []byte) string {
	s := string(src)
	if strings.HasPrefix(s, "// Code generated by tars2go ") {
		if i := strings.Index(s, "\n"); i >= 0 {
			s = "// Code generated by tars2go, DO NOT EDIT." + s[i:]
		}
	}
	if f, err := format.Source([]byte(s)); err == nil {
		s = string(f)
	}
	return s
}

func c16Bindings(a Args, res *Result, t2g string, dir string) {
	resDir := filepath.Join(c16Repo(), "tars/protocol/res")
	idls, _ := filepath.Glob(filepath.Join(resDir, "*.tars"))
	sort.Strings(idls)
	if len(idls) == 0 {
		res.Failures = append(res.Failures, Failure{Sig: "tars2go/bindings/no-idl", Desc: "no .tars files in tars/protocol/res", Replay: c16Case{Kind: "bindings"}})
		return
	}
	os.MkdirAll(dir, 0o755)
	var names []string
	for _, f := range idls {
		b, _ := os.ReadFile(f)
		os.WriteFile(filepath.Join(dir, filepath.Base(f)), b, 0o644)
		names = append(names, filepath.Base(f))
	}
	// the flags of tars/protocol/res/Makefile
	args := append([]string{"-without-trace=true", "-add-servant=false", "-tarsPath", "github.com/TarsCloud/TarsGo/tars", "-module", "github.com/TarsCloud/TarsGo/tars/protocol/res"}, names...)
	out, code, to := c16Run(dir, 60000, nil, t2g, args...)
	if to || code != 0 {
		res.Failures = append(res.Failures, Failure{Sig: "tars2go/bindings/generator-fails", Desc: fmt.Sprintf("tars2go fails on the framework's own IDL files (exit %d, timeout %v): %s", code, to, c16Trunc(c16LastLine(out), 300)), Replay: c16Case{Kind: "bindings"}})
		return
	}
	gen, _ := filepath.Glob(filepath.Join(dir, "*", "*.go"))
	sort.Strings(gen)
	seen := map[string]bool{}
	same, differ := 0, 0
	for _, g := range gen {
		rel, _ := filepath.Rel(dir, g)
		seen[rel] = true
		gb, _ := os.ReadFile(g)
		cb, err := os.ReadFile(filepath.Join(resDir, rel))
		if err != nil {
			differ++
			res.Failures = append(res.Failures, Failure{Sig: "tars2go/bindings/file-not-checked-in", Desc: "the generator produces tars/protocol/res/" + rel + " which is not checked in", Replay: c16Case{Kind: "bindings", Text: rel}})
			continue
		}
		gs, cs := c16NormGo(gb), c16NormGo(cb)
		if gs != cs {
			differ++
			gl, cl := strings.Split(gs, "\n"), strings.Split(cs, "\n")
			i := 0
			for i < len(gl) && i < len(cl) && gl[i] == cl[i] {
				i++
			}
			g1, c1 := "(end of file)", "(end of file)"
			if i < len(gl) {
				g1 = gl[i]
			}
			if i < len(cl) {
				c1 = cl[i]
			}
			res.Failures = append(res.Failures, Failure{Sig: "tars2go/bindings/differ", Desc: fmt.Sprintf("tars/protocol/res/%s is not what the generator produces (banner and formatting aside); first difference at line %d: generated %q checked in %q", rel, i+1, c16Trunc(g1, 160), c16Trunc(c1, 160)), Replay: c16Case{Kind: "bindings", Text: rel}})
		} else {
			same++
		}
	}
	checked, _ := filepath.Glob(filepath.Join(resDir, "*", "*.go"))
	for _, c := range checked {
		rel, _ := filepath.Rel(resDir, c)
		b, _ := os.ReadFile(c)
		if bytes.HasPrefix(b, []byte("// Code generated by tars2go ")) && !seen[rel] {
			differ++
			res.Failures = append(res.Failures, Failure{Sig: "tars2go/bindings/stale-file", Desc: "tars/protocol/res/" + rel + " carries the generator's banner but the generator does not produce it", Replay: c16Case{Kind: "bindings", Text: rel}})
		}
	}
	res.Stats["bindings"] = map[string]int{"idl_files": len(idls), "generated_files": len(gen), "identical_after_normalisation": same, "different": differ}
}

// ---------- entry ----------
func c16BackEnd(a Args, rng *rand.Rand, res *Result, cases []c16Case, replay *c16Case) {
	base, err := os.MkdirTemp(a.Out, "c16b")
	if err != nil {
		fatal("c16: %v", err)
	}
	defer os.RemoveAll(base)
	t0 := time.Now()
	t2g := c16BuildTars2go(base)
	off := len(res.Cases)
	if replay != nil {
		switch replay.Kind {
		case "tv":
			p := &c16Prog{Mod: replay.Mod, Text: string(replay.Input)}
			if p.Mod != nil {
				c16TV(a, res, t2g, filepath.Join(base, "tv"), []*c16Prog{p}, 12, 8, &off)
			} else {
				c16ReplayTV(a, res, t2g, filepath.Join(base, "tv"), p, &off)
			}
		case "bindings":
			c16Bindings(a, res, t2g, filepath.Join(base, "bind"))
		default:
			c16BinaryMonitor(a, res, cases, t2g, base)
		}
		return
	}
	c16BinaryMonitor(a, res, cases, t2g, base)
	res.Stats["binary_wall_s"] = time.Since(t0).Seconds()
	t1 := time.Now()
	nbatch, nprog, per, calls := 3, 10, 5, 4
	if a.Tier == "thorough" {
		nbatch, nprog, per, calls = 40, 12, 12, 8
	}
	c16TV(a, res, t2g, filepath.Join(base, "tvgap"), []*c16Prog{c16GapProgram()}, per, calls, &off)
	c16TV(a, res, t2g, filepath.Join(base, "tvcorner"), []*c16Prog{c16CornerProgram()}, 3*per, 3*calls, &off)
	idx := 0
	for b := 0; b < nbatch; b++ {
		var progs []*c16Prog
		for k := 0; k < nprog; k++ {
			opt := c16GenOpt{Compilable: true, Small: k%3 == 2, IdBase: 100 * (k % 2)}
			var dep *c16Prog
			if k%4 == 3 && c16HasTypes(progs[k-1].Mod) && progs[k-1].Mod.Dep == nil { // this file includes the previous one and uses its types
				dep = progs[k-1]
			}
			p := c16TvProgram(rng, idx, opt, dep)
			p.Flags = c16FlagSets[(b+k)%len(c16FlagSets)]
			if dep != nil {
				p.Flags = dep.Flags
			}
			progs = append(progs, p)
			idx++
		}
		c16TV(a, res, t2g, filepath.Join(base, fmt.Sprintf("tv%d", b)), progs, per, calls, &off)
		os.RemoveAll(filepath.Join(base, fmt.Sprintf("tv%d", b)))
	}
	// an include of an include: Top includes Mid only and uses the types of Leaf, which Mid includes (the defining
	// module of every type named in the generated code must be imported)
	{
		leaf := c16TvProgram(rng, 9100, c16GenOpt{Compilable: true, Small: true}, nil)
		for !c16HasTypes(leaf.Mod) {
			leaf = c16TvProgram(rng, 9100, c16GenOpt{Compilable: true, Small: true}, nil)
		}
		mid := c16TvProgram(rng, 9101, c16GenOpt{Compilable: true, Small: true, IdBase: 100}, leaf)
		top := c16TvProgram(rng, 9102, c16GenOpt{Compilable: true, IdBase: 200, Transitive: true}, mid)
		c16TV(a, res, t2g, filepath.Join(base, "tvchain"), []*c16Prog{leaf, mid, top}, per, calls, &off)
		idx += 3
	}
	// three modules in one file, the last one using types of the first two (and the second those of the first)
	c16CompileText(res, t2g, filepath.Join(base, "tvthree"), map[string]string{"three.tars": c16ThreeModules}, "three.tars", nil)
	// two modules in a file whose first module takes types and an enum default from an included file
	c16CompileText(res, t2g, filepath.Join(base, "tvtwo"), map[string]string{
		"two.tars": "#include \"base.tars\"\nmodule A { struct SA { 0 require Base::Pt p; 1 optional Base::Kind k = ROUND; 2 optional vector<Base::Pt> ps; }; };\nmodule B { struct SB { 0 require A::SA a; 1 optional Base::Pt q; }; interface I { A::SA f(Base::Pt p, out Base::Kind k); }; };\n",
		"base.tars": "module Base { enum Kind { FLAT, ROUND }; struct Pt { 0 require int x; 1 require int y; }; };\n"}, "two.tars", nil)
	c16CompileText(res, t2g, filepath.Join(base, "tvchain4"), c16Chain4, "top.tars", nil)
	c16CompileText(res, t2g, filepath.Join(base, "tvchain4c"), c16Chain4, "top.tars", []string{"-module-cycle"}) // imports by (file, module)
	// -module-cycle lays the packages out by file and module: a dependent pair must still compile (compile only)
	{
		dep := c16TvProgram(rng, 9000, c16GenOpt{Compilable: true, Small: true}, nil)
		for !c16HasTypes(dep.Mod) {
			dep = c16TvProgram(rng, 9000, c16GenOpt{Compilable: true, Small: true}, nil)
		}
		use := c16TvProgram(rng, 9001, c16GenOpt{Compilable: true, Small: true, IdBase: 100}, dep)
		c16CompileOnly(res, t2g, filepath.Join(base, "tvcycle"), []*c16Prog{dep, use}, []string{"-module-cycle"})
	}
	res.Stats["tv_wall_s"] = time.Since(t1).Seconds()
	res.Evaluations += idx
	c16Bindings(a, res, t2g, filepath.Join(base, "bind"))
}

const c16ThreeModules = `module MA { struct S { 0 require int x; }; enum K { K0, K1 }; };
module MB { struct T { 0 require MA::S s; 1 optional MA::K k = K1; }; enum E { P, Q }; };
module MC { struct U { 0 require MB::T t; 1 optional MA::S s; 2 optional MB::E e = Q; 3 optional vector<MB::T> v; 4 optional map<string, MA::S> m; };
  interface I { MB::T f(MA::S a, out MB::E e, out vector<MA::K> ks); }; };
`

// a chain of four files, each including only the next; the first uses a type of every other one
var c16Chain4 = map[string]string{
	"top.tars":  `#include "m1.tars"` + "\nmodule Top { struct Holder { 0 require Leaf::Item item; 1 optional M1::Box box; 2 optional vector<M2::Pack> packs; 3 optional map<string, Leaf::Kind> kinds; };\n interface Svc { Leaf::Item get(M2::Pack p, out Leaf::Kind k); }; };\n",
	"m1.tars":   `#include "m2.tars"` + "\nmodule M1 { struct Box { 0 require M2::Pack p; 1 optional Leaf::Item i; }; };\n",
	"m2.tars":   `#include "leaf.tars"` + "\nmodule M2 { struct Pack { 0 require Leaf::Item i; 1 optional Leaf::Kind k = SMALL; }; };\n",
	"leaf.tars": "module Leaf { enum Kind { BIG, SMALL }; struct Item { 0 require int id; 1 optional string name; }; };\n",
}

// c16CompileText: fixed files through tars2go (run on main with a bare name) and go build; both must succeed
func c16CompileText(res *Result, t2g string, dir string, files map[string]string, main string, flags []string) {
	os.MkdirAll(dir, 0o755)
	c16WriteModule(dir)
	fb := map[string]B{}
	for n, t := range files {
		os.WriteFile(filepath.Join(dir, n), []byte(t), 0o644)
		if n != main {
			fb[n] = B(t)
		}
	}
	tc := c16Case{Kind: "tv-text", Input: B(files[main]), Text: files[main], Files: fb, Msg: strings.Join(flags, " ")}
	args := append(append([]string{"-outdir", "gen", "-module", "c16tv"}, flags...), main)
	out, code, to := c16Run(dir, 30000, nil, t2g, args...)
	if to || code != 0 {
		res.Failures = append(res.Failures, Failure{Sig: "tars2go/gen/rejects-valid-program/" + c16DiagClass(out), Desc: fmt.Sprintf("tars2go exits %d (timeout %v) on valid files %s: %s", code, to, main, c16Trunc(c16LastLine(out), 300)), Replay: tc})
		return
	}
	o, c, _ := c16Run(dir, 600000, c16GoEnv(), "go", "build", "./gen/...")
	if c != 0 {
		res.Failures = append(res.Failures, Failure{Sig: "tars2go/gen/does-not-compile/" + c16CompileClass(o), Desc: fmt.Sprintf("the Go code generated for valid files (%s and %d more) does not compile: %s", main, len(files)-1, c16Trunc(c16FirstError(o), 400)), Replay: tc})
	}
}

// c16CompileOnly: the last program (which includes the others) through tars2go with the flags, then go build
func c16CompileOnly(res *Result, t2g string, dir string, progs []*c16Prog, flags []string) {
	os.MkdirAll(dir, 0o755)
	c16WriteModule(dir)
	for _, p := range progs {
		os.WriteFile(filepath.Join(dir, p.Mod.Name+".tars"), []byte(p.Text), 0o644)
	}
	last := progs[len(progs)-1]
	last.Flags = flags
	args := append(append([]string{"-outdir", "gen", "-module", "c16tv"}, flags...), last.Mod.Name+".tars")
	out, code, to := c16Run(dir, 30000, nil, t2g, args...)
	tc := c16TvCase(last)
	tc.Msg = strings.Join(flags, " ") + " (includes " + progs[0].Mod.Name + ".tars: " + c16Trunc(progs[0].Text, 600) + ")"
	if to || code != 0 {
		res.Failures = append(res.Failures, Failure{Sig: "tars2go/gen/rejects-valid-program/" + c16DiagClass(out), Desc: fmt.Sprintf("tars2go %s exits %d (timeout %v) on a valid program: %s", strings.Join(flags, " "), code, to, c16Trunc(c16LastLine(out), 300)), Replay: tc})
		return
	}
	o, c, _ := c16Run(dir, 600000, c16GoEnv(), "go", "build", "./gen/...")
	if c != 0 {
		res.Failures = append(res.Failures, Failure{Sig: "tars2go/gen/does-not-compile/" + c16CompileClass(o), Desc: fmt.Sprintf("the Go code generated with %s for a valid program does not compile: %s", strings.Join(flags, " "), c16Trunc(c16FirstError(o), 400)), Replay: tc})
	}
}

// replay of a translation-validation finding: the program text alone (declarations are recovered from the
// generated code by the driver; the IDL-side expectations need the generator's structure and are skipped)
func c16ReplayTV(a Args, res *Result, t2g string, dir string, p *c16Prog, off *int) {
	os.MkdirAll(dir, 0o755)
	c16WriteModule(dir)
	os.WriteFile(filepath.Join(dir, "replay.tars"), []byte(p.Text), 0o644)
	out, code, to := c16Run(dir, 30000, nil, t2g, "-outdir", "gen", "-module", "c16tv", "replay.tars")
	tc := c16TvCase(p)
	if to {
		res.Failures = append(res.Failures, Failure{Sig: "tars2go/gen/hang", Desc: "tars2go does not terminate on the program", Replay: tc})
		return
	}
	if code != 0 {
		res.Failures = append(res.Failures, Failure{Sig: "tars2go/gen/rejects-valid-program/" + c16DiagClass(out), Desc: fmt.Sprintf("tars2go exits %d: %s", code, c16Trunc(c16LastLine(out), 300)), Replay: tc})
		return
	}
	o, c, _ := c16Run(dir, 600000, c16GoEnv(), "go", "build", "./gen/...")
	if c != 0 {
		res.Failures = append(res.Failures, Failure{Sig: "tars2go/gen/does-not-compile/" + c16CompileClass(o), Desc: "the generated Go code does not compile: " + c16Trunc(c16FirstError(o), 400), Replay: tc})
	}
}
