package main

// Reflection over the generated struct types: schema extraction (-> coq/Gen/Schemas.v), value generation,
// canonical value dumps as Coq terms.

import (
	"fmt"
	"math"
	"math/rand"
	"reflect"
	"sort"
	"strconv"
	"strings"

	"github.com/TarsCloud/TarsGo/tars/protocol/codec"
)

type tarsStruct interface {
	ReadFrom(*codec.Reader) error
	WriteTo(*codec.Buffer) error
	ResetDefault()
}

type regEntry struct {
	name string
	mk   func() tarsStruct
	typ  reflect.Type
}

var registry []regEntry
var sidOf = map[reflect.Type]int{}
var registrySorted bool

func registerStruct(name string, mk func() tarsStruct) {
	registry = append(registry, regEntry{name: name, mk: mk, typ: reflect.TypeOf(mk()).Elem()})
}

func initRegistry() {
	if registrySorted {
		return
	}
	sort.Slice(registry, func(i, j int) bool { return registry[i].name < registry[j].name })
	for i, r := range registry {
		sidOf[r.typ] = i
	}
	registrySorted = true
}

type fieldInfo struct {
	Name string
	Tag  int
	Req  bool
	Idx  int
}

func fieldsOf(t reflect.Type) []fieldInfo {
	var out []fieldInfo
	for i := 0; i < t.NumField(); i++ {
		tg := t.Field(i).Tag.Get("tars")
		if tg == "" {
			continue
		}
		fi := fieldInfo{Name: t.Field(i).Name, Idx: i}
		for _, p := range strings.Split(tg, ",") {
			if strings.HasPrefix(p, "tag:") {
				fi.Tag, _ = strconv.Atoi(p[4:])
			}
			if strings.HasPrefix(p, "require:") {
				fi.Req = p[8:] == "true"
			}
		}
		out = append(out, fi)
	}
	// by tag, whatever the order of the Go struct's fields (= the order tars2go emitted the members in): the wire
	// format orders fields by tag, the model's schema (Gen/Schemas.v) and every value dump are in that order
	sort.SliceStable(out, func(i, j int) bool { return out[i].Tag < out[j].Tag })
	return out
}

var int8Slice = reflect.TypeOf([]int8(nil))

func coqTy(t reflect.Type) string {
	switch t.Kind() {
	case reflect.Bool:
		return "TBool"
	case reflect.Int8:
		return "TI8"
	case reflect.Uint8:
		return "TU8"
	case reflect.Int16:
		return "TI16"
	case reflect.Uint16:
		return "TU16"
	case reflect.Int32:
		if t.Name() != "int32" {
			return "TEnum"
		}
		return "TI32"
	case reflect.Uint32:
		return "TU32"
	case reflect.Int64:
		return "TI64"
	case reflect.Float32:
		return "TF32"
	case reflect.Float64:
		return "TF64"
	case reflect.String:
		return "TStr"
	case reflect.Slice:
		return "(TVec " + coqTy(t.Elem()) + ")"
	case reflect.Array:
		return fmt.Sprintf("(TArr %d %s)", t.Len(), coqTy(t.Elem()))
	case reflect.Map:
		return "(TMap " + coqTy(t.Key()) + " " + coqTy(t.Elem()) + ")"
	case reflect.Struct:
		sid, ok := sidOf[t]
		if !ok {
			return "TBool (* unregistered struct " + t.String() + " *)"
		}
		return fmt.Sprintf("(TStruct %d)", sid)
	}
	return "TBool (* unsupported " + t.String() + " *)"
}

// dumpVal renders a Go value as a Coq [val] term in canonical form (nil = empty; maps sorted by key text)
func dumpVal(v reflect.Value) string {
	t := v.Type()
	switch t.Kind() {
	case reflect.Bool:
		return "(VBool " + coqBool(v.Bool()) + ")"
	case reflect.Int8, reflect.Int16, reflect.Int32, reflect.Int64:
		return "(VInt " + coqZ(v.Int()) + ")"
	case reflect.Uint8, reflect.Uint16, reflect.Uint32:
		return "(VInt " + coqZ(int64(v.Uint())) + ")"
	case reflect.Float32:
		return fmt.Sprintf("(VFlt %d)", f32bits(v))
	case reflect.Float64:
		return fmt.Sprintf("(VFlt %d)", math.Float64bits(v.Float()))
	case reflect.String:
		return "(vstr " + hx([]byte(v.String())) + ")"
	case reflect.Slice, reflect.Array:
		if t.Kind() == reflect.Slice && t.Elem().Kind() == reflect.Int8 {
			b := make([]byte, v.Len())
			for i := range b {
				b[i] = byte(v.Index(i).Int())
			}
			return "(vbytes " + hx(b) + ")"
		}
		parts := make([]string, v.Len())
		for i := range parts {
			parts[i] = dumpVal(v.Index(i))
		}
		return "(VList [" + strings.Join(parts, "; ") + "])"
	case reflect.Map:
		var parts []string
		for _, k := range v.MapKeys() {
			parts = append(parts, "("+dumpVal(k)+", "+dumpVal(v.MapIndex(k))+")")
		}
		sort.Strings(parts)
		return "(VMap [" + strings.Join(parts, "; ") + "])"
	case reflect.Struct:
		var parts []string
		for _, f := range fieldsOf(t) {
			parts = append(parts, dumpVal(v.Field(f.Idx)))
		}
		return "(VStruct [" + strings.Join(parts, "; ") + "])"
	}
	return "(VInt 0%Z)"
}

// f32bits returns the exact bit pattern of a float32 value (going through float64 would quiet signalling NaNs)
func f32bits(v reflect.Value) uint32 {
	if f, ok := v.Interface().(float32); ok {
		return math.Float32bits(f)
	}
	return math.Float32bits(float32(v.Float()))
}

// declared defaults: the value ResetDefault gives a scalar member that held junk, where that value is not the
// zero value of the member's type. (The repaired ResetDefault assigns EVERY member - its declared default or the
// zero value - so "overwritten" no longer tells a declared default from none; a declared default that equals the
// zero value is indistinguishable from no default in everything the generated code does - omission test of the
// encoder, reset value - and is rendered as None.)
func declaredDefaults(e regEntry) map[int]string {
	out := map[int]string{}
	junk := e.mk()
	jv := reflect.ValueOf(junk).Elem()
	fs := fieldsOf(e.typ)
	for _, f := range fs {
		fv := jv.Field(f.Idx)
		switch fv.Kind() {
		case reflect.Bool:
			fv.SetBool(true)
		case reflect.Int8, reflect.Int16, reflect.Int32, reflect.Int64:
			fv.SetInt(99)
		case reflect.Uint8, reflect.Uint16, reflect.Uint32:
			fv.SetUint(99)
		case reflect.Float32, reflect.Float64:
			fv.SetFloat(99.5)
		case reflect.String:
			fv.SetString("\x01junk")
		}
	}
	before := make([]string, len(fs))
	for i, f := range fs {
		before[i] = dumpVal(jv.Field(f.Idx))
	}
	junk.ResetDefault()
	// a declared default that happens to equal the junk is found with a second junk value
	junk2 := e.mk()
	jv2 := reflect.ValueOf(junk2).Elem()
	for _, f := range fs {
		fv := jv2.Field(f.Idx)
		switch fv.Kind() {
		case reflect.Bool:
			fv.SetBool(false)
		case reflect.Int8, reflect.Int16, reflect.Int32, reflect.Int64:
			fv.SetInt(98)
		case reflect.Uint8, reflect.Uint16, reflect.Uint32:
			fv.SetUint(98)
		case reflect.Float32, reflect.Float64:
			fv.SetFloat(98.5)
		case reflect.String:
			fv.SetString("\x01junk2")
		}
	}
	before2 := make([]string, len(fs))
	for i, f := range fs {
		before2[i] = dumpVal(jv2.Field(f.Idx))
	}
	junk2.ResetDefault()
	for i, f := range fs {
		k := jv.Field(f.Idx).Kind()
		if k == reflect.Struct || k == reflect.Slice || k == reflect.Map || k == reflect.Array {
			continue
		}
		a, b := dumpVal(jv.Field(f.Idx)), dumpVal(jv2.Field(f.Idx))
		if (a != before[i] || b != before2[i]) && a != dumpVal(reflect.Zero(jv.Field(f.Idx).Type())) {
			out[f.Idx] = a
		}
	}
	return out
}

func genSchemas() {
	initRegistry()
	fmt.Println("(* GENERATED from /repo by `harness gen-schemas` on every run - do not edit.")
	fmt.Println("   Schemas (tags, require flags, types, declared defaults) of every tars2go-generated struct type:")
	fmt.Println("   the framework's checked-in bindings and the harness's test IDL generated by the tree's tars2go. *)")
	fmt.Println("From Coq Require Import List NArith ZArith.")
	fmt.Println("From TarsV Require Import Base.Hex Codec.GenCodec Codec.Corr.")
	fmt.Println("Import ListNotations.\nOpen Scope N_scope.")
	var names []string
	for i, e := range registry {
		fmt.Printf("(* %d: %s *)\n", i, e.name)
		defs := declaredDefaults(e)
		var parts []string
		for _, f := range fieldsOf(e.typ) {
			d := "None"
			if s, ok := defs[f.Idx]; ok {
				d = "(Some " + s + ")"
			}
			parts = append(parts, fmt.Sprintf("  {| ftag := %d; freq := %s; fty := %s; fdef := %s |}", f.Tag, coqBool(f.Req), coqTy(e.typ.Field(f.Idx).Type), d))
		}
		n := "schema_" + strings.NewReplacer(".", "_").Replace(e.name)
		names = append(names, n)
		fmt.Printf("Definition %s : schema := [\n%s\n].\n", n, strings.Join(parts, ";\n"))
	}
	fmt.Printf("Definition env0 : env := [%s].\n", strings.Join(names, "; "))
	for i, e := range registry {
		fmt.Printf("Definition sid_%s : nat := %d.\n", strings.NewReplacer(".", "_").Replace(e.name), i)
	}
	fmt.Println("Example env0_wf : wf_env env0 = true.\nProof. vm_compute. reflexivity. Qed.")
}

func init() {
	props["gen-schemas"] = func(a Args) { genSchemas() }
}

// ---------- value generation ----------
var genInts = []int64{0, 1, -1, 2, 127, 128, -128, -129, 255, 256, 32767, 32768, -32768, -32769, 65535, 65536, 2147483647, 2147483648, -2147483648, -2147483649,
	4294967295, math.MaxInt64, math.MinInt64, 100000, -5000000000, 7, -3}

func randInt(rng *rand.Rand) int64 {
	if rng.Intn(3) == 0 {
		return int64(rng.Uint64())
	}
	return genInts[rng.Intn(len(genInts))]
}

func randString(rng *rand.Rand) string {
	switch rng.Intn(8) {
	case 0:
		return ""
	case 1:
		b := make([]byte, 250+rng.Intn(12)) // around the STRING1/STRING4 boundary
		rng.Read(b)
		return string(b)
	case 2:
		return "x y"
	case 3:
		return "dflt"
	}
	b := make([]byte, rng.Intn(12))
	rng.Read(b)
	return string(b)
}

// fillRandom fills v with a random value; def (optional) leaves roughly half the scalar members at their reset value
func fillRandom(rng *rand.Rand, v reflect.Value, depth int) {
	t := v.Type()
	switch t.Kind() {
	case reflect.Bool:
		v.SetBool(rng.Intn(2) == 0)
	case reflect.Int8, reflect.Int16, reflect.Int32, reflect.Int64:
		x := randInt(rng)
		if t.Kind() == reflect.Int32 && t.Name() != "int32" && rng.Intn(2) == 0 {
			x = int64(rng.Intn(8))
		}
		v.SetInt(reflect.ValueOf(x).Convert(t).Int())
	case reflect.Uint8, reflect.Uint16, reflect.Uint32:
		v.SetUint(reflect.ValueOf(uint64(randInt(rng))).Convert(t).Uint())
	case reflect.Float32:
		bits := []uint32{0, 0x80000000, 0x3fc00000, 0x7f800000, 0x7fc00000, 0x7fa00001, 1, rng.Uint32()}[rng.Intn(8)]
		v.SetFloat(float64(math.Float32frombits(bits)))
		if bits&0x7f800000 == 0x7f800000 && bits&0x7fffff != 0 { // keep NaN payloads exact: go through the bits
			f := math.Float32frombits(bits)
			v.Set(reflect.ValueOf(f).Convert(t))
		}
	case reflect.Float64:
		bits := []uint64{0, 0x8000000000000000, 0x3ff8000000000000, 0x7ff0000000000000, 0x7ff8000000000001, 1, rng.Uint64()}[rng.Intn(7)]
		v.Set(reflect.ValueOf(math.Float64frombits(bits)).Convert(t))
	case reflect.String:
		v.SetString(randString(rng))
	case reflect.Slice:
		n := []int{0, 0, 1, 2, 3, 5}[rng.Intn(6)]
		if depth <= 0 {
			n = 0
		}
		if t.Elem().Kind() == reflect.Int8 || t.Elem().Kind() == reflect.Uint8 {
			n = []int{0, 1, 5, 127, 128, 300}[rng.Intn(6)]
		}
		if n == 0 && rng.Intn(2) == 0 {
			v.Set(reflect.Zero(t)) // nil
			return
		}
		s := reflect.MakeSlice(t, n, n)
		for i := 0; i < n; i++ {
			fillRandom(rng, s.Index(i), depth-1)
		}
		v.Set(s)
	case reflect.Array:
		for i := 0; i < v.Len(); i++ {
			fillRandom(rng, v.Index(i), depth-1)
		}
	case reflect.Map:
		n := []int{0, 0, 1, 2, 4}[rng.Intn(5)]
		if depth <= 0 {
			n = 0
		}
		if n == 0 && rng.Intn(2) == 0 {
			v.Set(reflect.Zero(t))
			return
		}
		m := reflect.MakeMap(t)
		for i := 0; i < n; i++ {
			k := reflect.New(t.Key()).Elem()
			fillRandom(rng, k, depth-1)
			if k.Kind() == reflect.Float32 || k.Kind() == reflect.Float64 {
				if k.Float() != k.Float() {
					continue // NaN keys are never equal to themselves
				}
			}
			x := reflect.New(t.Elem()).Elem()
			fillRandom(rng, x, depth-1)
			m.SetMapIndex(k, x)
		}
		v.Set(m)
	case reflect.Struct:
		// start from the reset value so that optional members sit at their declared default about half the time
		if p, ok := v.Addr().Interface().(tarsStruct); ok {
			p.ResetDefault()
		}
		for _, f := range fieldsOf(t) {
			fv := v.Field(f.Idx)
			k := fv.Kind()
			scalar := k != reflect.Struct && k != reflect.Slice && k != reflect.Map && k != reflect.Array
			if scalar && !f.Req && rng.Intn(2) == 0 {
				continue
			}
			fillRandom(rng, fv, depth-1)
		}
	}
}

// valuesEqual compares the input with the decoded value: nil = empty; floats by bit pattern except that an
// optional float that compares equal (==) to its default may come back as the default (signed zero)
func valuesEqual(a, b reflect.Value, optDefault *reflect.Value) bool {
	t := a.Type()
	switch t.Kind() {
	case reflect.Float32, reflect.Float64:
		if t.Kind() == reflect.Float32 {
			if f32bits(a) == f32bits(b) {
				return true
			}
		} else if math.Float64bits(a.Float()) == math.Float64bits(b.Float()) {
			return true
		}
		if optDefault != nil && a.Float() == optDefault.Float() { // omitted on the wire, decoded as the default
			return valuesEqual(*optDefault, b, nil)
		}
		return false
	case reflect.Slice, reflect.Array:
		if a.Len() != b.Len() {
			return false
		}
		for i := 0; i < a.Len(); i++ {
			if !valuesEqual(a.Index(i), b.Index(i), nil) {
				return false
			}
		}
		return true
	case reflect.Map:
		if a.Len() != b.Len() {
			return false
		}
		for _, k := range a.MapKeys() {
			bv := b.MapIndex(k)
			if !bv.IsValid() || !valuesEqual(a.MapIndex(k), bv, nil) {
				return false
			}
		}
		return true
	case reflect.Struct:
		var def reflect.Value
		if p, ok := reflect.New(t).Interface().(tarsStruct); ok {
			p.ResetDefault()
			def = reflect.ValueOf(p).Elem()
		}
		for _, f := range fieldsOf(t) {
			var od *reflect.Value
			if !f.Req && def.IsValid() {
				d := def.Field(f.Idx)
				od = &d
			}
			if !valuesEqual(a.Field(f.Idx), b.Field(f.Idx), od) {
				return false
			}
		}
		return true
	}
	return a.Interface() == b.Interface()
}
