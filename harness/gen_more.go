package main

// Further regenerated constants: each property file appends a printer in its init(), e.g.
//   func init() { constGens = append(constGens, func() { fmt.Printf("Definition c_fainN := %d.\n", ...) }) }
// They are printed into coq/Gen/Consts.v in registration (file name) order.
var constGens []func()

func genConstsMore() {
	for _, g := range constGens {
		g()
	}
}
