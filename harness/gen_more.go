package main

// further constants are appended here as properties are added
func genConstsMore() {}
