package main

// C14, last clause: "a call made with a hash code in its context is routed by these rules".
// A child process (the framework keeps process-wide state) opens k TCP listeners on 127.0.0.2 .. 127.0.0.(k+1),
// creates a direct proxy over them through the public API and makes one-way calls whose function name is a
// unique marker; the listeners report which endpoint each marker reached.  Calls carrying a hash code in their
// client context must reach the endpoint that a fresh mod-hash / consistent-hash selector holding the same
// endpoint list (installed the way the manager installs it) selects for that code; calls without one must reach
// members in strict rotation.  Monitor only: the dispatch in endpointManager.SelectAdapterProxy is not modelled
// in Coq; the selectors it dispatches to are (C13/C14 cases).

import (
	"context"
	"encoding/json"
	"fmt"
	"hash/crc32"
	"math/rand"
	"net"
	"os"
	"os/exec"
	"regexp"
	"sort"
	"strings"
	"sync"
	"time"

	"github.com/TarsCloud/TarsGo/tars"
	"github.com/TarsCloud/TarsGo/tars/protocol/res/basef"
	"github.com/TarsCloud/TarsGo/tars/protocol/res/requestf"
	"github.com/TarsCloud/TarsGo/tars/selector/consistenthash"
	"github.com/TarsCloud/TarsGo/tars/selector/modhash"
	"github.com/TarsCloud/TarsGo/tars/util/current"
	"github.com/TarsCloud/TarsGo/tars/util/endpoint"
)

type c14CtxCall struct {
	Kind string `json:"kind"` // conhash modhash none
	Code uint32 `json:"code"`
	Want string `json:"want,omitempty"`
	Got  string `json:"got,omitempty"`
	Err  string `json:"err,omitempty"`
	Ctx  string `json:"ctx,omitempty"` // how the context of the call came about
}

type c14CtxReport struct {
	Skipped  string       `json:"skipped,omitempty"`
	Obj      string       `json:"obj"`
	Hosts    []string     `json:"hosts"`
	Weighted bool         `json:"weighted"`
	Calls    []c14CtxCall `json:"calls"`
	Lost     int          `json:"lost"`
}

var c14Marker = regexp.MustCompile(`vrfy(\d{6})q`)

func c14CtxChild(seed int64) {
	rng := rand.New(rand.NewSource(seed))
	rep := c14CtxReport{}
	defer func() {
		b, _ := json.Marshal(rep)
		fmt.Printf("C14CTX %s\n", b)
	}()
	k := 3 + rng.Intn(4)
	rep.Weighted = rng.Intn(2) == 0
	var mu sync.Mutex
	got := map[int]string{}
	var parts []string
	for i := 0; i < k; i++ {
		host := fmt.Sprintf("127.0.0.%d", 2+i)
		ln, err := net.Listen("tcp", host+":0")
		if err != nil {
			rep.Skipped = "cannot listen on " + host + ": " + err.Error()
			return
		}
		rep.Hosts = append(rep.Hosts, host)
		go func() {
			for {
				c, err := ln.Accept()
				if err != nil {
					return
				}
				go func() {
					var acc []byte
					buf := make([]byte, 65536)
					for {
						n, err := c.Read(buf)
						acc = append(acc, buf[:n]...)
						for _, m := range c14Marker.FindAllSubmatch(acc, -1) {
							var id int
							fmt.Sscanf(string(m[1]), "%d", &id)
							mu.Lock()
							got[id] = host
							mu.Unlock()
						}
						if len(acc) > 64 {
							acc = acc[len(acc)-64:] // a marker is 11 bytes; keep a tail for markers split across reads
						}
						if err != nil {
							return
						}
					}
				}()
			}
		}()
		s := fmt.Sprintf("tcp -h %s -p %d -t 60000", host, ln.Addr().(*net.TCPAddr).Port)
		if rep.Weighted {
			s += fmt.Sprintf(" -w %d -v 1", []int{1, 2, 3, 5, 10, 30}[rng.Intn(6)])
		}
		parts = append(parts, s)
	}
	rng.Shuffle(len(parts), func(i, j int) { parts[i], parts[j] = parts[j], parts[i] })
	rep.Obj = "Verif.C14Ctx.Obj@" + strings.Join(parts, ":")

	// the reference: the same endpoint list, installed the way endpointManager.updateActiveEp installs it
	eps := make([]endpoint.Endpoint, len(parts))
	for i, p := range parts {
		eps[i] = endpoint.Parse(p)
	}
	sort.Slice(eps, func(i, j int) bool {
		return crc32.ChecksumIEEE([]byte(eps[i].Key)) < crc32.ChecksumIEEE([]byte(eps[j].Key))
	})
	refCon := consistenthash.New(rep.Weighted, consistenthash.KetamaHash)
	refCon.Refresh(eps)
	refMod := modhash.New(rep.Weighted)
	refMod.Refresh(eps)
	keys, _ := refCon.VerifRing()

	comm := tars.NewCommunicator()
	sp := tars.NewServantProxy(comm, rep.Obj)
	// Contexts: every context made by ContextWithClientCurrent has a hash setting of its own (none at first); a context
	// derived in any other way (context.WithValue) shares its parent's.  A call is routed by the setting of the context it
	// is made with, at the time of the call: nested, derived and reused contexts in both orders.
	type hset struct {
		kind string
		code uint32
	}
	type cref struct {
		ctx   context.Context
		owner int    // index into settings
		how   string // for the report
	}
	var settings []*hset
	var ctxs []cref
	type ckey int
	fresh := func(parent int) int {
		p, how := context.Background(), "root"
		if parent >= 0 {
			p, how = ctxs[parent].ctx, fmt.Sprintf("ContextWithClientCurrent(ctx%d)", parent)
		}
		settings = append(settings, &hset{kind: "none"})
		ctxs = append(ctxs, cref{current.ContextWithClientCurrent(p), len(settings) - 1, how})
		return len(ctxs) - 1
	}
	plain := func(parent int) int {
		ctxs = append(ctxs, cref{context.WithValue(ctxs[parent].ctx, ckey(len(ctxs)), 1), ctxs[parent].owner, fmt.Sprintf("WithValue(ctx%d)", parent)})
		return len(ctxs) - 1
	}
	code := func() uint32 {
		switch rng.Intn(4) {
		case 0:
			return []uint32{0, 1, 0x7fffffff, 0x80000000, 0xffffffff, 0xfffffffe}[rng.Intn(6)]
		case 1:
			if len(keys) > 0 {
				return keys[rng.Intn(len(keys))] + uint32(rng.Intn(3)) - 1
			}
		}
		return rng.Uint32()
	}
	set := func(c int, kind string, cd uint32) {
		ht := int(tars.ConsistentHash)
		if kind == "modhash" {
			ht = int(tars.ModHash)
		}
		current.SetClientHash(ctxs[c].ctx, ht, cd)
		*settings[ctxs[c].owner] = hset{kind, cd}
	}
	n := 0
	invoke := func(c int) {
		h := *settings[ctxs[c].owner]
		call := c14CtxCall{Kind: h.kind, Code: h.code, Ctx: fmt.Sprintf("ctx%d=%s", c, ctxs[c].how)}
		switch h.kind {
		case "conhash":
			if e, err := refCon.Select(c13Msg{h.code}); err == nil {
				call.Want = e.Host
			}
		case "modhash":
			if e, err := refMod.Select(c13Msg{h.code}); err == nil {
				call.Want = e.Host
			}
		}
		var resp requestf.ResponsePacket
		if err := sp.TarsInvoke(ctxs[c].ctx, byte(basef.TARSONEWAY), fmt.Sprintf("vrfy%06dq", n), []byte{}, nil, nil, &resp); err != nil {
			call.Err = err.Error()
		}
		n++
		rep.Calls = append(rep.Calls, call)
	}
	kinds := []string{"conhash", "modhash"}
	for i := 0; i < 15; i++ { // one fresh context per call
		c := fresh(-1)
		if i%3 != 2 {
			set(c, kinds[i%3], code())
		}
		invoke(c)
	}
	for round := 0; round < 4; round++ { // parent and child with different hash types and codes, both orders
		a := fresh(-1)
		set(a, kinds[round%2], code())
		b := fresh(a)
		set(b, kinds[(round+1)%2], code())
		c := fresh(b) // sets no hash: round-robin
		d := plain(a) // shares a's setting
		order := [][]int{{a, b, c, d}, {b, a, d, c}, {c, a, b, a}, {d, c, b, a}}[round]
		for _, x := range order {
			invoke(x)
		}
		set(a, kinds[(round+1)%2], code()) // the parent's hash changes after the children exist
		invoke(b)
		invoke(a)
		invoke(c)
		invoke(d)
	}
	r := fresh(-1) // one context reused for several calls with its hash changed between them
	for i := 0; i < 6; i++ {
		invoke(r)
		set(r, kinds[i%2], code())
		invoke(r)
	}
	for len(rep.Calls) < 75 { // random mix
		switch x := rng.Intn(10); {
		case x < 2:
			fresh(rng.Intn(len(ctxs)))
		case x == 2:
			plain(rng.Intn(len(ctxs)))
		case x < 5:
			set(rng.Intn(len(ctxs)), kinds[rng.Intn(2)], code())
		default:
			invoke(rng.Intn(len(ctxs)))
		}
	}
	deadline := time.Now().Add(15 * time.Second)
	for time.Now().Before(deadline) {
		mu.Lock()
		m := len(got)
		mu.Unlock()
		if m >= n {
			break
		}
		time.Sleep(20 * time.Millisecond)
	}
	mu.Lock()
	for i := range rep.Calls {
		rep.Calls[i].Got = got[i]
		if rep.Calls[i].Got == "" {
			rep.Lost++
		}
	}
	mu.Unlock()
}

// c14CtxRouting runs the scenario in child processes and judges the reports
func c14CtxRouting(tier string, rng *rand.Rand, res *Result) {
	runs := 6
	if tier == "thorough" {
		runs = 40
	}
	st := map[string]interface{}{}
	calls, lost, skipped := 0, 0, 0
	for r := 0; r < runs; r++ {
		seed := rng.Int63()
		var out string
		var err error
		for attempt, d := range []time.Duration{90 * time.Second, 180 * time.Second, 300 * time.Second} {
			// not finishing is a timing verdict: it counts only if it happens three times in a row (loaded machine)
			cmd := exec.Command(os.Args[0], "c14-ctx", fmt.Sprintf("seed=%d", seed))
			out, err = c13RunTimeout(cmd, d)
			if strings.Contains(out, "C14CTX ") {
				break
			}
			st["unfinished_attempts"] = attempt + 1
		}
		replay := map[string]interface{}{"cmd": fmt.Sprintf("harness c14-ctx seed=%d", seed)}
		i := strings.LastIndex(out, "C14CTX ")
		if i < 0 {
			res.Failures = append(res.Failures, Failure{Sig: "hash-routing/ctx/scenario-died", Desc: fmt.Sprintf("the context-routing scenario did not finish (%v):\n%s", err, c13Tail(out, 1500)), Replay: replay})
			continue
		}
		line := out[i+7:]
		if j := strings.IndexByte(line, '\n'); j >= 0 {
			line = line[:j]
		}
		var rep c14CtxReport
		if json.Unmarshal([]byte(line), &rep) != nil {
			res.Failures = append(res.Failures, Failure{Sig: "hash-routing/ctx/scenario-died", Desc: "unparsable report: " + c13Head(line, 300), Replay: replay})
			continue
		}
		if rep.Skipped != "" {
			skipped++
			st["skipped_reason"] = rep.Skipped
			continue
		}
		replay["obj"] = rep.Obj
		member := map[string]bool{}
		for _, h := range rep.Hosts {
			member[h] = true
		}
		var plain []string
		seen := map[string]bool{}
		for ci, c := range rep.Calls {
			calls++
			if c.Got == "" {
				lost++
				continue
			}
			sig, desc := "", ""
			switch {
			case !member[c.Got]:
				sig, desc = "hash-routing/ctx/non-member", fmt.Sprintf("call %d reached %s which is not an endpoint of the proxy", ci, c.Got)
			case c.Kind != "none" && c.Want != "" && c.Got != c.Want:
				sig, desc = "hash-routing/ctx/"+c.Kind+"-differs", fmt.Sprintf("call %d with hash type %s and hash code %d in its own context (%s) reached %s; a %s selector holding the same endpoints selects %s (proxy %s)", ci, c.Kind, c.Code, c.Ctx, c.Got, c.Kind, c.Want, rep.Obj)
			}
			if sig != "" && !seen[sig] {
				seen[sig] = true
				replay["call"] = c
				res.Failures = append(res.Failures, Failure{Sig: sig, Desc: desc, Replay: replay})
			}
			if c.Kind == "none" {
				plain = append(plain, c.Got)
			}
		}
		// calls without a hash code: round-robin over the members (unweighted proxies: strict rotation)
		if k := len(rep.Hosts); !rep.Weighted && rep.Lost == 0 {
			for s0 := 0; s0+k <= len(plain); s0++ {
				d := map[string]bool{}
				for _, h := range plain[s0 : s0+k] {
					d[h] = true
				}
				if len(d) != k {
					res.Failures = append(res.Failures, Failure{Sig: "hash-routing/ctx/plain-calls-not-rotating", Desc: fmt.Sprintf("%d consecutive calls without a hash code over %d endpoints reached only %d distinct ones: %v", k, k, len(d), plain[s0:s0+k]), Replay: replay})
					break
				}
			}
		}
	}
	res.Evaluations += calls
	st["scenarios"], st["calls"], st["calls_not_observed"], st["scenarios_skipped"] = runs, calls, lost, skipped
	res.Stats["context_routing_through_the_manager"] = st
}

func init() {
	props["c14-ctx"] = func(a Args) {
		seed := int64(1)
		for _, s := range os.Args[2:] {
			fmt.Sscanf(s, "seed=%d", &seed)
		}
		c14CtxChild(seed)
	}
}
