package main

// Shared helpers for the generated-codec properties C03-C06.

import (
	"fmt"
	"math/rand"
	"reflect"

	"github.com/TarsCloud/TarsGo/tars/protocol/codec"
)

const gRequire = "From TarsV Require Import Base.Hex Codec.GenCodec Codec.Corr Gen.Schemas."

// gRequireT adds the evaluators that know the domain of the theorems (Codec/CorrT.v): a model outcome "out of
// fuel" is inconclusive for struct types outside the class for which fuel sufficiency is proved
const gRequireT = gRequire + "\nFrom TarsV Require Import Codec.RoundTrip Codec.CorrT."

type gCase struct {
	Kind   string `json:"kind"` // enc | dec | reuse
	Struct string `json:"struct"`
	Sid    int    `json:"sid"`
	Bytes  B      `json:"bytes"`
	Obs    string `json:"obs"`   // Coq term of the observation: OVal (...) | OErr | OPanic
	Prior  string `json:"prior"` // reuse: Coq term of the prior target value
	Note   string `json:"note"`
	Class  string `json:"class"`
	ErrMsg string `json:"err,omitempty"`
	NoCoq  bool   `json:"no_coq,omitempty"`
	Huge   bool   `json:"huge,omitempty"` // the implementation died or over-allocated: no model outcome explains that (always a mismatch)
	// Kind "slice": Entry is "slice-int8" / "slice-uint8" (codec.Reader.ReadSliceInt8/Uint8 called directly), Bytes =
	// 4-byte big-endian length argument followed by the reader's content
	Entry string `json:"entry,omitempty"`
}

func gEncode(s tarsStruct) ([]byte, error) {
	buf := codec.NewBuffer()
	if err := s.WriteTo(buf); err != nil {
		return nil, err
	}
	return append([]byte(nil), buf.ToBytes()...), nil
}

// gDecodeInto decodes bs into target (fresh or reused); returns the observation class
func gDecodeInto(target tarsStruct, bs []byte) (obs string, errMsg string) {
	defer func() {
		if r := recover(); r != nil {
			obs, errMsg = "OPanic", fmt.Sprint(r)
		}
	}()
	err := target.ReadFrom(codec.NewReader(append([]byte(nil), bs...)))
	if err != nil {
		return "OErr", err.Error()
	}
	return "OVal " + dumpVal(reflect.ValueOf(target).Elem()), ""
}

func gCoq(c *gCase) string {
	if c.NoCoq {
		return ""
	}
	if c.Huge {
		return fmt.Sprintf("GHuge %d%%nat %s", c.Sid, hx(c.Bytes))
	}
	switch c.Kind {
	case "slice":
		n := int32(uint32(c.Bytes[0])<<24 | uint32(c.Bytes[1])<<16 | uint32(c.Bytes[2])<<8 | uint32(c.Bytes[3]))
		return fmt.Sprintf("GSlice (%d)%%Z %s %s", n, hx(c.Bytes[4:]), c.Obs)
	case "enc":
		return fmt.Sprintf("GEnc (%d%%nat, %s, %s)", c.Sid, hx(c.Bytes), c.Obs)
	case "reuse":
		return fmt.Sprintf("GReuse (%d%%nat, %s, %s, %s)", c.Sid, c.Prior, hx(c.Bytes), c.Obs)
	}
	return fmt.Sprintf("GDec (%d%%nat, %s, %s)", c.Sid, hx(c.Bytes), c.Obs)
}

func gRandomValue(rng *rand.Rand, e regEntry) tarsStruct {
	s := e.mk()
	fillRandom(rng, reflect.ValueOf(s).Elem(), 3)
	return s
}
