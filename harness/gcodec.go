package main

// Shared helpers for the generated-codec properties C03-C06.

import (
	"fmt"
	"math/rand"
	"reflect"

	"github.com/TarsCloud/TarsGo/tars/protocol/codec"
)

const gRequire = "From TarsV Require Import Base.Hex Codec.GenCodec Codec.Corr Gen.Schemas."

// gRequireT adds the evaluators that know the domain of the theorems (Codec/CorrT.v): a model outcome "out of
// fuel" is inconclusive for struct types outside the class for which fuel sufficiency is proved
const gRequireT = gRequire + "\nFrom TarsV Require Import Codec.RoundTrip Codec.CorrT."

type gCase struct {
	Kind   string `json:"kind"` // enc | dec | reuse
	Struct string `json:"struct"`
	Sid    int    `json:"sid"`
	Bytes  B      `json:"bytes"`
	Obs    string `json:"obs"`   // Coq term of the observation: OVal (...) | OErr | OPanic
	Prior  string `json:"prior"` // reuse: Coq term of the prior target value
	Note   string `json:"note"`
	Class  string `json:"class"`
	ErrMsg string `json:"err,omitempty"`
	NoCoq  bool   `json:"no_coq,omitempty"`
	Huge   bool   `json:"huge,omitempty"` // the implementation died or over-allocated: the model must say DHuge
}

func gEncode(s tarsStruct) ([]byte, error) {
	buf := codec.NewBuffer()
	if err := s.WriteTo(buf); err != nil {
		return nil, err
	}
	return append([]byte(nil), buf.ToBytes()...), nil
}

// gDecodeInto decodes bs into target (fresh or reused); returns the observation class
func gDecodeInto(target tarsStruct, bs []byte) (obs string, errMsg string) {
	defer func() {
		if r := recover(); r != nil {
			obs, errMsg = "OPanic", fmt.Sprint(r)
		}
	}()
	err := target.ReadFrom(codec.NewReader(append([]byte(nil), bs...)))
	if err != nil {
		return "OErr", err.Error()
	}
	return "OVal " + dumpVal(reflect.ValueOf(target).Elem()), ""
}

func gCoq(c *gCase) string {
	if c.NoCoq {
		return ""
	}
	if c.Huge {
		return fmt.Sprintf("GHuge %d%%nat %s", c.Sid, hx(c.Bytes))
	}
	switch c.Kind {
	case "enc":
		return fmt.Sprintf("GEnc (%d%%nat, %s, %s)", c.Sid, hx(c.Bytes), c.Obs)
	case "reuse":
		return fmt.Sprintf("GReuse (%d%%nat, %s, %s, %s)", c.Sid, c.Prior, hx(c.Bytes), c.Obs)
	}
	return fmt.Sprintf("GDec (%d%%nat, %s, %s)", c.Sid, hx(c.Bytes), c.Obs)
}

func gRandomValue(rng *rand.Rand, e regEntry) tarsStruct {
	s := e.mk()
	fillRandom(rng, reflect.ValueOf(s).Elem(), 3)
	return s
}
