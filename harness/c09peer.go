package main

// C09 — fault-script peers: a raw TCP server that follows a per-request action script (answer, answer late,
// answer twice, forged ids, garbage, close, never answer), a port that refuses connections, a listener whose
// accept queue is full (connect stalls), and a peer that accepts and never reads.

import (
	"context"
	"crypto/tls"
	"encoding/binary"
	"fmt"
	"io"
	"net"
	"strings"
	"sync"
	"sync/atomic"
	"syscall"
	"time"

	"github.com/TarsCloud/TarsGo/tars/protocol/codec"
	"github.com/TarsCloud/TarsGo/tars/protocol/res/requestf"
)

// c09Act is what the peer does with the n-th request it receives (the last action repeats).
type c09Act struct {
	Do      string `json:"do"`       // reply | none | dup | dupburst | forged | garbbody | garbonly | close | garblen
	DelayMs int    `json:"delay_ms"` // delay of the (proper) reply after the request was read
}

type c09Event struct {
	Seq  int64  `json:"seq"`
	Kind string `json:"k"` // start pre post ret | accept recv send close junk
	Call int    `json:"c"` // call index (caller events), -1 otherwise
	ID   int32  `json:"id"`
	Pay  uint32 `json:"p"`  // payload tag (send / ret with reply)
	Out  string `json:"o"`  // outcome (post / ret)
	TMs  int64  `json:"t"`  // ms since scenario start
	Q    int32  `json:"q"`  // queueLen snapshot (pre/post/ret)
	N    int32  `json:"n"`  // invokeNum snapshot
	P    int    `json:"pn"` // pending table size snapshot
}

type c09Log struct {
	mu  sync.Mutex
	seq int64
	t0  time.Time
	evs []c09Event
}

func (l *c09Log) add(e c09Event) {
	l.mu.Lock()
	l.seq++
	e.Seq = l.seq
	e.TMs = time.Since(l.t0).Milliseconds()
	l.evs = append(l.evs, e)
	l.mu.Unlock()
}

type c09Peer struct {
	log                *c09Log
	acts               []c09Act
	mode               string      // accept | accept-close | noread | noread-early | tls | tls-slow | tls-silent | tls-untrusted
	tlsConf            *tls.Config // tls modes: the server side configuration
	smallBuf           bool        // tiny receive buffer on the accepted sockets
	sweepT, sweepCalls int         // action "sweep": the callers' timeout in ms, calls per caller
	hsMs               int         // tls-slow: the peer starts its side of the handshake this long after accepting
	earlyMs            int         // noread-early: after this delay the peer writes a reply for each of the ids 1..earlyN
	earlyN             int
	ln                 net.Listener
	uc                 *net.UDPConn
	fds                []int      // raw sockets (refuse / stall)
	held               []net.Conn // connections that fill the accept queue (stall)
	port               int
	nreq               int32
	mu                 sync.Mutex
	conns              []net.Conn
	done               []int32 // ids of requests already answered (for forged replies)
	pending            sync.WaitGroup
	closed             int32
}

const c09EarlyPay = 0xEA51EA51

func c09Reply(id int32, pay uint32) []byte {
	rsp := requestf.ResponsePacket{IVersion: 1, CPacketType: 0, IRequestId: id, IMessageType: 0, IRet: 0}
	b := make([]byte, 8)
	binary.BigEndian.PutUint32(b, pay)
	binary.BigEndian.PutUint32(b[4:], 0xC09C09C0)
	rsp.SBuffer = make([]int8, 8)
	for i := range b {
		rsp.SBuffer[i] = int8(b[i])
	}
	os := codec.NewBuffer()
	_ = os.WriteSliceInt8(make([]int8, 4))
	_ = rsp.WriteTo(os)
	bs := os.ToBytes()
	binary.BigEndian.PutUint32(bs, uint32(len(bs)))
	return bs
}

func newC09Peer(log *c09Log, conn string, acts []c09Act, opt func(*c09Peer)) (*c09Peer, error) {
	p := &c09Peer{log: log, acts: acts, mode: conn}
	if opt != nil {
		opt(p)
	}
	switch conn {
	case "refuse":
		// a socket that is bound but not listening: connect is refused, and nobody else can take the port
		fd, port, err := c09RawSocket()
		if err != nil {
			return nil, err
		}
		p.fds = append(p.fds, fd)
		p.port = port
		return p, nil
	case "stall":
		fd, port, err := c09RawSocket()
		if err != nil {
			return nil, err
		}
		p.fds = append(p.fds, fd)
		p.port = port
		if err := syscall.Listen(fd, 0); err != nil {
			return nil, err
		}
		// fill the accept queue: connect until a connect stalls
		stalled := false
		for i := 0; i < 8 && !stalled; i++ {
			c, err := net.DialTimeout("tcp", fmt.Sprintf("127.0.0.1:%d", port), 250*time.Millisecond)
			if err != nil {
				stalled = true
				break
			}
			p.held = append(p.held, c)
		}
		if !stalled {
			return nil, fmt.Errorf("could not stall connects (accept queue never filled)")
		}
		return p, nil
	}
	if conn == "udp" || conn == "udp-unreachable" {
		uc, err := net.ListenUDP("udp", &net.UDPAddr{IP: net.IPv4(127, 0, 0, 1)})
		if err != nil {
			return nil, err
		}
		if conn == "udp-unreachable" { // nobody listens on the port any more: datagrams are answered by ICMP
			p.port = uc.LocalAddr().(*net.UDPAddr).Port
			uc.Close()
			return p, nil
		}
		p.uc = uc
		p.port = uc.LocalAddr().(*net.UDPAddr).Port
		go p.serveUDP()
		return p, nil
	}
	lc := net.ListenConfig{}
	if p.smallBuf {
		lc.Control = func(network, address string, rc syscall.RawConn) error {
			return rc.Control(func(fd uintptr) { syscall.SetsockoptInt(int(fd), syscall.SOL_SOCKET, syscall.SO_RCVBUF, 4096) })
		}
	}
	ln, err := lc.Listen(context.Background(), "tcp", "127.0.0.1:0")
	if err != nil {
		return nil, err
	}
	p.ln = ln
	p.port = ln.Addr().(*net.TCPAddr).Port
	go p.acceptLoop()
	return p, nil
}

func c09RawSocket() (int, int, error) {
	fd, err := syscall.Socket(syscall.AF_INET, syscall.SOCK_STREAM, 0)
	if err != nil {
		return 0, 0, err
	}
	if err := syscall.Bind(fd, &syscall.SockaddrInet4{Port: 0, Addr: [4]byte{127, 0, 0, 1}}); err != nil {
		syscall.Close(fd)
		return 0, 0, err
	}
	sa, err := syscall.Getsockname(fd)
	if err != nil {
		syscall.Close(fd)
		return 0, 0, err
	}
	return fd, sa.(*syscall.SockaddrInet4).Port, nil
}

func (p *c09Peer) acceptLoop() {
	for {
		c, err := p.ln.Accept()
		if err != nil {
			return
		}
		p.mu.Lock()
		p.conns = append(p.conns, c)
		p.mu.Unlock()
		if strings.HasPrefix(p.mode, "tls") {
			// "accept" is logged when the connection is usable, i.e. after the handshake
			if p.mode == "tls-silent" {
				continue // the TCP connection is accepted, the handshake never answered
			}
			go func(c net.Conn) {
				if p.mode == "tls-slow" {
					time.Sleep(time.Duration(p.hsMs) * time.Millisecond)
				}
				tc := tls.Server(c, p.tlsConf)
				tc.SetDeadline(time.Now().Add(5 * time.Second))
				if err := tc.Handshake(); err != nil {
					c.Close()
					return
				}
				tc.SetDeadline(time.Time{})
				p.log.add(c09Event{Kind: "accept", Call: -1})
				p.serve(tc)
			}(c)
			continue
		}
		p.log.add(c09Event{Kind: "accept", Call: -1})
		switch p.mode {
		case "accept-close":
			p.log.add(c09Event{Kind: "close", Call: -1})
			c.Close()
		case "noread", "transport-race":
			// keep the connection, never read from it
		case "noread-early":
			// never read; answer requests that were never received: request ids are predictable (1, 2, ...), so these
			// are replies that reach callers still blocked in Send as well as callers already waiting
			go func() {
				time.Sleep(time.Duration(p.earlyMs) * time.Millisecond)
				for id := int32(1); id <= int32(p.earlyN); id++ {
					p.log.add(c09Event{Kind: "send", Call: -1, ID: id, Pay: c09EarlyPay})
					c.SetWriteDeadline(time.Now().Add(2 * time.Second))
					c.Write(c09Reply(id, c09EarlyPay))
				}
			}()
		default:
			go p.serve(c)
		}
	}
}

func (p *c09Peer) serve(c net.Conn) {
	var wmu sync.Mutex
	write := func(b []byte) {
		wmu.Lock()
		c.SetWriteDeadline(time.Now().Add(2 * time.Second))
		c.Write(b)
		wmu.Unlock()
	}
	hdr := make([]byte, 4)
	for {
		if _, err := io.ReadFull(c, hdr); err != nil {
			return
		}
		n := int(binary.BigEndian.Uint32(hdr))
		if n < 4 || n > 64<<20 {
			return
		}
		body := make([]byte, n-4)
		if _, err := io.ReadFull(c, body); err != nil {
			return
		}
		var req requestf.RequestPacket
		if err := req.ReadFrom(codec.NewReader(body)); err != nil {
			continue
		}
		var pay uint32
		if len(req.SBuffer) >= 4 {
			pay = uint32(uint8(req.SBuffer[0]))<<24 | uint32(uint8(req.SBuffer[1]))<<16 | uint32(uint8(req.SBuffer[2]))<<8 | uint32(uint8(req.SBuffer[3]))
		}
		id := req.IRequestId
		if req.SFuncName == "tars_ping" { // the adapter's keep-alive ping (one-way): not a call of the script
			p.log.add(c09Event{Kind: "ping", Call: -1, ID: id})
			continue
		}
		k := int(atomic.AddInt32(&p.nreq, 1)) - 1
		act := p.acts[len(p.acts)-1]
		if k < len(p.acts) {
			act = p.acts[k]
		}
		p.log.add(c09Event{Kind: "recv", Call: -1, ID: id, Pay: pay})
		if req.CPacketType == 1 { // one-way: never answered
			continue
		}
		delay := time.Duration(act.DelayMs) * time.Millisecond
		if act.Do == "sweep" {
			// even calls of a caller: the reply is timed at the caller's deadline, swept in 1 ms steps from -3 to +5 ms over
			// the calls; odd calls: answered late enough to be waiting while the previous call's reply is still around
			call := int(pay & 0x0FFFFFFF)
			if p.sweepCalls > 0 && (call%p.sweepCalls)%2 == 0 {
				delay = time.Duration(p.sweepT+(call/2)%9-3) * time.Millisecond
			} else {
				delay = 60 * time.Millisecond
			}
		}
		sendOwn := func(times int) {
			p.pending.Add(1)
			go func() {
				defer p.pending.Done()
				time.Sleep(delay)
				for i := 0; i < times; i++ {
					if atomic.LoadInt32(&p.closed) != 0 {
						return
					}
					p.log.add(c09Event{Kind: "send", Call: -1, ID: id, Pay: pay})
					write(c09Reply(id, pay))
					p.mu.Lock()
					p.done = append(p.done, id)
					p.mu.Unlock()
					if i+1 < times {
						time.Sleep(15 * time.Millisecond)
					}
				}
			}()
		}
		switch act.Do {
		case "reply", "sweep":
			sendOwn(1)
		case "dup":
			sendOwn(2)
		case "dupburst":
			// the reply forty times in one segment: several receivers find the caller's channel, only one can deliver
			p.pending.Add(1)
			go func() {
				defer p.pending.Done()
				time.Sleep(delay)
				p.log.add(c09Event{Kind: "send", Call: -1, ID: id, Pay: pay})
				r := c09Reply(id, pay)
				var burst []byte
				for i := 0; i < 40; i++ {
					burst = append(burst, r...)
				}
				write(burst)
				p.mu.Lock()
				p.done = append(p.done, id)
				p.mu.Unlock()
			}()
		case "forged":
			// replies nobody waits for: a never-issued id, id 0 (push), an already completed id — all with a foreign payload
			ids := []int32{id + 7777777, 0}
			p.mu.Lock()
			if len(p.done) > 0 {
				ids = append(ids, p.done[len(p.done)-1])
			}
			p.mu.Unlock()
			for _, f := range ids {
				p.log.add(c09Event{Kind: "send", Call: -1, ID: f, Pay: 0xBAD0BAD0})
				write(c09Reply(f, 0xBAD0BAD0))
			}
			sendOwn(1)
		case "garbbody", "garbonly":
			junk := []byte{0, 0, 0, 12, 0xff, 0xff, 0xff, 0xff, 0xff, 0xff, 0xff, 0xff}
			p.log.add(c09Event{Kind: "junk", Call: -1, ID: id})
			write(junk)
			if act.Do == "garbbody" {
				sendOwn(1)
			}
		case "garblen":
			p.log.add(c09Event{Kind: "kill", Call: -1, ID: id})
			write([]byte{0, 0, 0, 1})
		case "close":
			p.log.add(c09Event{Kind: "close", Call: -1, ID: id})
			c.Close()
			return
		default: // none
		}
	}
}

// serveUDP: the datagram peer knows the actions reply / dup / forged / none (there is no connection to lose)
func (p *c09Peer) serveUDP() {
	buf := make([]byte, 65536)
	for {
		n, from, err := p.uc.ReadFromUDP(buf)
		if err != nil {
			return
		}
		if n < 4 {
			continue
		}
		var req requestf.RequestPacket
		if err := req.ReadFrom(codec.NewReader(buf[4:n])); err != nil {
			continue
		}
		var pay uint32
		if len(req.SBuffer) >= 4 {
			pay = uint32(uint8(req.SBuffer[0]))<<24 | uint32(uint8(req.SBuffer[1]))<<16 | uint32(uint8(req.SBuffer[2]))<<8 | uint32(uint8(req.SBuffer[3]))
		}
		id := req.IRequestId
		k := int(atomic.AddInt32(&p.nreq, 1)) - 1
		act := p.acts[len(p.acts)-1]
		if k < len(p.acts) {
			act = p.acts[k]
		}
		p.log.add(c09Event{Kind: "recv", Call: -1, ID: id, Pay: pay})
		if req.CPacketType == 1 || act.Do == "none" {
			continue
		}
		times := 1
		if act.Do == "dup" {
			times = 2
		}
		if act.Do == "forged" {
			p.log.add(c09Event{Kind: "send", Call: -1, ID: id + 7777777, Pay: 0xBAD0BAD0})
			p.uc.WriteToUDP(c09Reply(id+7777777, 0xBAD0BAD0), from)
		}
		p.pending.Add(1)
		go func(delay time.Duration) {
			defer p.pending.Done()
			time.Sleep(delay)
			for i := 0; i < times; i++ {
				if atomic.LoadInt32(&p.closed) != 0 {
					return
				}
				p.log.add(c09Event{Kind: "send", Call: -1, ID: id, Pay: pay})
				p.uc.WriteToUDP(c09Reply(id, pay), from)
			}
		}(time.Duration(act.DelayMs) * time.Millisecond)
	}
}

// closeConns closes every connection accepted so far (the listener stays)
func (p *c09Peer) closeConns() {
	p.log.add(c09Event{Kind: "close", Call: -1})
	p.mu.Lock()
	for _, c := range p.conns {
		c.Close()
	}
	p.conns = nil
	p.mu.Unlock()
}

// drain waits for the scheduled replies, then closes everything.
func (p *c09Peer) drain(max time.Duration) {
	ch := make(chan struct{})
	go func() { p.pending.Wait(); close(ch) }()
	select {
	case <-ch:
	case <-time.After(max):
	}
}

func (p *c09Peer) shutdown() {
	atomic.StoreInt32(&p.closed, 1)
	if p.ln != nil {
		p.ln.Close()
	}
	if p.uc != nil {
		p.uc.Close()
	}
	p.mu.Lock()
	for _, c := range p.conns {
		c.Close()
	}
	p.mu.Unlock()
	for _, c := range p.held {
		c.Close()
	}
	for _, fd := range p.fds {
		syscall.Close(fd)
	}
}
