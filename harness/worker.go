package main

// Child-process decode workers: anything that can kill the process (stack overflow, out of memory) is
// attributed to the case that was being decoded; the parent restarts the worker.

import (
	"bufio"
	"encoding/hex"
	"encoding/json"
	"fmt"
	"math/rand"
	"os"
	"os/exec"
	"reflect"
	"runtime"
	"strings"
	"sync"
	"syscall"
	"time"
)

type decReq struct {
	ID        int    `json:"id"`
	Sid       int    `json:"sid"`
	Entry     string `json:"entry"` // "" = generated ReadFrom of struct sid; others: see entryDecode
	Bytes     B      `json:"bytes"`
	PriorSeed int64  `json:"prior_seed"` // != 0: decode into a target pre-filled from this seed
}

type decResp struct {
	ID    int    `json:"id"`
	Obs   string `json:"obs"`
	Err   string `json:"err"`
	Alloc uint64 `json:"alloc"`
	Us    int64  `json:"us"`
	Prior string `json:"prior"`
	Died  string `json:"died"` // set by the parent when the worker process died on this case
}

// entryDecodeNet: further entry points (network paths), registered by c05net.go
var entryDecodeNet func(entry string, bs []byte) (obs string, errMsg string, handled bool)

func workerMain() {
	initRegistry()
	lim := uint64(6 << 30)
	_ = syscall.Setrlimit(syscall.RLIMIT_AS, &syscall.Rlimit{Cur: lim, Max: lim})
	in := bufio.NewReaderSize(os.Stdin, 1<<20)
	out := bufio.NewWriter(os.Stdout)
	for {
		line, err := in.ReadString('\n')
		if line == "" && err != nil {
			return
		}
		var rq decReq
		if json.Unmarshal([]byte(line), &rq) != nil {
			continue
		}
		fmt.Fprintf(out, "BEGIN %d\n", rq.ID)
		out.Flush()
		rs := decResp{ID: rq.ID}
		var m0, m1 runtime.MemStats
		runtime.ReadMemStats(&m0)
		t0 := time.Now()
		if rq.Entry != "" {
			handled := false
			if entryDecodeNet != nil {
				rs.Obs, rs.Err, handled = entryDecodeNet(rq.Entry, rq.Bytes)
			}
			if !handled {
				rs.Obs, rs.Err = entryDecode(rq.Entry, rq.Bytes)
			}
		} else {
			target := registry[rq.Sid].mk()
			if rq.PriorSeed != 0 {
				fillRandom(rand.New(rand.NewSource(rq.PriorSeed)), reflect.ValueOf(target).Elem(), 2)
				rs.Prior = dumpVal(reflect.ValueOf(target).Elem())
				runtime.ReadMemStats(&m0)
			}
			rs.Obs, rs.Err = gDecodeInto(target, rq.Bytes)
		}
		rs.Us = time.Since(t0).Microseconds()
		runtime.ReadMemStats(&m1)
		rs.Alloc = m1.TotalAlloc - m0.TotalAlloc
		b, _ := json.Marshal(rs)
		fmt.Fprintf(out, "END %s\n", b)
		out.Flush()
	}
}

func init() {
	props["decode-worker"] = func(a Args) { workerMain() }
}

type worker struct {
	cmd    *exec.Cmd
	stdin  *bufio.Writer
	stdout *bufio.Reader
	stderr *strings.Builder
}

func startWorker() *worker {
	cmd := exec.Command(os.Args[0], "decode-worker")
	cmd.Env = append(os.Environ(), "GOTRACEBACK=single")
	ip, _ := cmd.StdinPipe()
	op, _ := cmd.StdoutPipe()
	sb := &strings.Builder{}
	cmd.Stderr = &capWriter{sb: sb}
	if err := cmd.Start(); err != nil {
		fatal("worker start: %v", err)
	}
	return &worker{cmd: cmd, stdin: bufio.NewWriter(ip), stdout: bufio.NewReaderSize(op, 1<<20), stderr: sb}
}

type capWriter struct {
	mu sync.Mutex
	sb *strings.Builder
}

func (c *capWriter) Write(p []byte) (int, error) {
	c.mu.Lock()
	if c.sb.Len() < 4000 {
		c.sb.Write(p)
	}
	c.mu.Unlock()
	return len(p), nil
}

// decodeMany runs the requests over nw child workers; per-case wall clock cap capMs
func decodeMany(reqs []decReq, nw int, capMs int) []decResp {
	out := make([]decResp, len(reqs))
	var wg sync.WaitGroup
	ch := make(chan int)
	for k := 0; k < nw; k++ {
		wg.Add(1)
		go func() {
			defer wg.Done()
			w := startWorker()
			defer func() { w.stdin.Flush(); w.cmd.Process.Kill(); w.cmd.Wait() }()
			for i := range ch {
				b, _ := json.Marshal(reqs[i])
				w.stdin.Write(b)
				w.stdin.WriteByte('\n')
				w.stdin.Flush()
				done := make(chan decResp, 1)
				go func() {
					for {
						line, err := w.stdout.ReadString('\n')
						if strings.HasPrefix(line, "END ") {
							var rs decResp
							json.Unmarshal([]byte(line[4:]), &rs)
							done <- rs
							return
						}
						if err != nil {
							done <- decResp{ID: reqs[i].ID, Died: "worker exited"}
							return
						}
					}
				}()
				var rs decResp
				select {
				case rs = <-done:
				case <-time.After(time.Duration(capMs) * time.Millisecond):
					w.cmd.Process.Kill()
					<-done
					rs = decResp{ID: reqs[i].ID, Died: fmt.Sprintf("timeout after %d ms", capMs)}
				}
				if rs.Died != "" {
					w.cmd.Wait()
					se := w.stderr.String()
					if j := strings.Index(se, "fatal error:"); j >= 0 {
						e := se[j:]
						if k := strings.IndexByte(e, '\n'); k > 0 {
							e = e[:k]
						}
						rs.Died += ": " + e
					} else if strings.Contains(se, "out of memory") || strings.Contains(se, "cannot allocate") {
						rs.Died += ": out of memory"
					}
					w = startWorker()
				}
				out[i] = rs
			}
		}()
	}
	for i := range reqs {
		ch <- i
	}
	close(ch)
	wg.Wait()
	return out
}

func hexOf(b []byte) string { return hex.EncodeToString(b) }
