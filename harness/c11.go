package main

// C11 — calls keep succeeding across server-initiated connection closes.
//
// A scripted raw TCP server (4-byte length framing + RequestPacket/ResponsePacket) answers every request and
// closes the connection after the k-th reply in one of several ways; a ServantProxy on a direct address
// issues calls at a scripted delay after the *observed* close (the client's closed flag, read through the
// verif accessor), sequentially or as a burst from several goroutines. Observations: one totally ordered
// event log (enqueue, write attempt seen by the hook in the send goroutine, arrival at the server, peer
// close, observed close, reply). L3 monitors run on the log; the log is also validated by the Coq
// specification machine (Conc/ClientConn.v, c11_accepts).

import (
	"context"
	"crypto/ecdsa"
	"crypto/elliptic"
	crand "crypto/rand"
	"crypto/tls"
	"crypto/x509"
	"crypto/x509/pkix"
	"encoding/binary"
	"fmt"
	"io"
	"math/big"
	"math/rand"
	"net"
	"os"
	"runtime"
	"sort"
	"strings"
	"sync"
	"sync/atomic"
	"syscall"
	"time"

	"github.com/TarsCloud/TarsGo/tars"
	"github.com/TarsCloud/TarsGo/tars/protocol/codec"
	"github.com/TarsCloud/TarsGo/tars/protocol/res/requestf"
	"github.com/TarsCloud/TarsGo/tars/transport"
	"github.com/TarsCloud/TarsGo/tars/util/tools"

	m "github.com/TarsCloud/TarsGo/tars/model"
)

// ---------------------------------------------------------------------------------------------------
// event log

type c11Event struct {
	K    string `json:"k"`              // dial | enq | write | srv | pclose | cclose | cflag | obs | reply | fail
	G    int    `json:"g"`              // connection generation (order of accept at the server); -1 = none
	ID   int    `json:"id"`             // harness call number; -1 = none
	Dead bool   `json:"dead,omitempty"` // write: the client had already closed this connection when the sender was about to write; cflag: the closed flag of the adapter's current client
	Cur  bool   `json:"cur,omitempty"`  // write: the connection was the client's current one
	Down bool   `json:"down,omitempty"` // enq: the call is issued while the server is down (its outcome is not judged)
	Ms   int    `json:"ms,omitempty"`   // reply/fail: latency of the call in ms (not compared by the model)
}

type c11rawEvent struct {
	k    string
	port int // client-side port of the connection (identifies the generation), 0 = none
	id   int
	dead bool
	cur  bool
	ms   int
	down bool
	tc   *transport.TarsClient // write: the transport client whose sender wrote
}

type c11Log struct {
	mu  sync.Mutex
	evs []c11rawEvent

	// held script: the send goroutine that is about to write call holdID waits in the hook until released
	holdID  int
	holdQID int // held-after-dequeue script: the send goroutine that has just taken call holdQID waits before its isCurrent test
	held    chan struct{}
	release chan struct{}
}

func c11NewLog() *c11Log {
	return &c11Log{holdID: -1, holdQID: -1, held: make(chan struct{}, 1), release: make(chan struct{})}
}

func (l *c11Log) add(e c11rawEvent) {
	l.mu.Lock()
	l.evs = append(l.evs, e)
	l.mu.Unlock()
}

// lastWriter returns the transport client of the most recent write event.
func (l *c11Log) lastWriter() *transport.TarsClient {
	l.mu.Lock()
	defer l.mu.Unlock()
	for i := len(l.evs) - 1; i >= 0; i-- {
		if l.evs[i].tc != nil {
			return l.evs[i].tc
		}
	}
	return nil
}

// ---------------------------------------------------------------------------------------------------
// the write hook: one global dispatcher, one log per transport client

var (
	c11HookOnce sync.Once
	c11Logs     sync.Map // server port (int) -> *c11Log of the script that owns the server
)

func c11PortOf(a net.Addr) int {
	if t, ok := a.(*net.TCPAddr); ok {
		return t.Port
	}
	return 0
}

// c11ClosedLocally reports whether the client has already closed conn (the file descriptor is gone).
func c11ClosedLocally(conn net.Conn) bool {
	tc, ok := conn.(*net.TCPConn)
	if !ok {
		return false
	}
	rc, err := tc.SyscallConn()
	if err != nil {
		return true
	}
	return rc.Control(func(uintptr) {}) != nil
}

func c11ReqCallNo(req []byte) int {
	if len(req) < 4 {
		return -1
	}
	var p requestf.RequestPacket
	if err := p.ReadFrom(codec.NewReader(req[4:])); err != nil {
		return -1
	}
	b := tools.Int8ToByte(p.SBuffer)
	if len(b) < 8 {
		return -1
	}
	return int(binary.BigEndian.Uint64(b))
}

func c11InstallHook() {
	c11HookOnce.Do(func() {
		transport.VerifC11AfterDequeue = func(tc *transport.TarsClient, conn net.Conn, req []byte) {
			v, ok := c11Logs.Load(c11PortOf(conn.RemoteAddr()))
			if !ok {
				return
			}
			l, id := v.(*c11Log), c11ReqCallNo(req)
			if id == c11WarmID {
				return
			}
			l.add(c11rawEvent{k: "deq", port: c11PortOf(conn.LocalAddr()), id: id})
			l.mu.Lock()
			hold := l.holdQID >= 0 && id == l.holdQID
			if hold {
				l.holdQID = -1 // only the first dequeue of that call is held
			}
			l.mu.Unlock()
			if hold {
				l.held <- struct{}{}
				select {
				case <-l.release:
				case <-time.After(10 * time.Second):
				}
			}
		}
		transport.VerifC11OnWrite = func(tc *transport.TarsClient, conn net.Conn, req []byte, current bool, closedFlag bool) {
			v, ok := c11Logs.Load(c11PortOf(conn.RemoteAddr()))
			if !ok {
				return
			}
			if c11ReqCallNo(req) == c11WarmID {
				return
			}
			l, id := v.(*c11Log), c11ReqCallNo(req)
			l.add(c11rawEvent{k: "write", tc: tc, port: c11PortOf(conn.LocalAddr()), id: id, dead: c11ClosedLocally(conn), cur: current})
			l.mu.Lock()
			hold := l.holdID >= 0 && id == l.holdID
			if hold {
				l.holdID = -1 // only the first write attempt of that call is held
			}
			l.mu.Unlock()
			if hold {
				l.held <- struct{}{}
				select {
				case <-l.release:
				case <-time.After(10 * time.Second):
				}
			}
		}
	})
}

// ---------------------------------------------------------------------------------------------------
// scripted server

type c11Server struct {
	ln      net.Listener
	port    int
	mode    string // close | half | rst | push | restart | idle
	k       int    // close after the k-th reply on a connection
	log     *c11Log
	mu      sync.Mutex
	conns   map[net.Conn]bool
	stopped bool
	wg      sync.WaitGroup

	tlsCfg    *tls.Config   // mode "tlsheld": the server speaks TLS ...
	hsDelay   time.Duration // ... and delays the handshake of every connection but the first by this much (slow dial)
	naccept   int
	accepted  chan struct{}     // one token per accepted TCP connection
	lateNext  time.Duration     // mode "latereply": > 0: the next reply is delayed by this much and the connection closed right behind it
	cutNext   int               // mode "cut": > 0: the next reply is written only up to this many bytes, then the connection is closed
	holdFd    int               // mode "down": bound, not listening socket that reserves the port while the server is down (-1: none)
	srvClosed map[net.Conn]bool // connections the server itself has closed from outside their serve goroutine
	version   int16             // protocol version of the last request (for the close notification)
}

func c11Listen(port int) (net.Listener, error) {
	var err error
	for i := 0; i < 50; i++ {
		var ln net.Listener
		ln, err = net.Listen("tcp4", fmt.Sprintf("127.0.0.1:%d", port))
		if err == nil {
			return ln, nil
		}
		time.Sleep(10 * time.Millisecond)
	}
	return nil, err
}

func c11StartServer(mode string, k int, log *c11Log, useTLS bool) (*c11Server, error) {
	ln, err := c11Listen(0)
	if err != nil {
		return nil, err
	}
	s := &c11Server{ln: ln, port: ln.Addr().(*net.TCPAddr).Port, mode: mode, k: k, log: log, conns: map[net.Conn]bool{}, srvClosed: map[net.Conn]bool{}, version: 1, holdFd: -1, accepted: make(chan struct{}, 64)}
	if mode == "tlsheld" {
		s.tlsCfg, s.hsDelay = c11ServerTLS(), c11HandshakeDelay
	} else if useTLS {
		s.tlsCfg = c11ServerTLS()
	}
	s.wg.Add(1)
	go s.acceptLoop(ln)
	return s, nil
}

func (s *c11Server) acceptLoop(ln net.Listener) {
	defer s.wg.Done()
	for {
		c, err := ln.Accept()
		if err != nil {
			return
		}
		s.mu.Lock()
		if s.stopped {
			s.mu.Unlock()
			c.Close()
			return
		}
		idx := s.naccept
		s.naccept++
		if s.tlsCfg == nil {
			s.conns[c] = true
		}
		s.mu.Unlock()
		s.log.add(c11rawEvent{k: "dial", port: c11PortOf(c.RemoteAddr()), id: -1})
		select {
		case s.accepted <- struct{}{}:
		default:
		}
		s.wg.Add(1)
		if s.tlsCfg != nil {
			go s.serveTLS(c, idx)
		} else {
			go s.serve(c)
		}
	}
}

// serveTLS completes the (delayed) TLS handshake on an accepted connection and serves it.
func (s *c11Server) serveTLS(c net.Conn, idx int) {
	if idx > 0 {
		time.Sleep(s.hsDelay)
	}
	tc := tls.Server(c, s.tlsCfg)
	c.SetDeadline(time.Now().Add(5 * time.Second))
	if err := tc.Handshake(); err != nil {
		c.Close()
		s.wg.Done()
		return
	}
	c.SetDeadline(time.Time{})
	s.mu.Lock()
	if s.stopped {
		s.mu.Unlock()
		tc.Close()
		s.wg.Done()
		return
	}
	s.conns[tc] = true
	s.mu.Unlock()
	s.serve(tc)
}

const c11HandshakeDelay = 120 * time.Millisecond

var (
	c11TLSOnce sync.Once
	c11TLSCfg  *tls.Config
)

// c11ServerTLS returns the TLS configuration of the scripted server (self-signed certificate, generated once).
func c11ServerTLS() *tls.Config {
	c11TLSOnce.Do(func() {
		priv, err := ecdsa.GenerateKey(elliptic.P256(), crand.Reader)
		if err != nil {
			fatal("tls key: %v", err)
		}
		tmpl := x509.Certificate{SerialNumber: big.NewInt(1), Subject: pkix.Name{CommonName: "localhost"},
			NotBefore: time.Now().Add(-time.Hour), NotAfter: time.Now().Add(24 * time.Hour),
			KeyUsage: x509.KeyUsageDigitalSignature, ExtKeyUsage: []x509.ExtKeyUsage{x509.ExtKeyUsageServerAuth}, DNSNames: []string{"localhost"}}
		der, err := x509.CreateCertificate(crand.Reader, &tmpl, &tmpl, &priv.PublicKey, priv)
		if err != nil {
			fatal("tls cert: %v", err)
		}
		c11TLSCfg = &tls.Config{Certificates: []tls.Certificate{{Certificate: [][]byte{der}, PrivateKey: priv}}}
	})
	return c11TLSCfg
}

func (s *c11Server) stop() {
	s.mu.Lock()
	s.stopped = true
	if s.holdFd >= 0 {
		syscall.Close(s.holdFd)
		s.holdFd = -1
	}
	ln := s.ln
	for c := range s.conns {
		c.Close()
	}
	s.mu.Unlock()
	ln.Close()
	s.wg.Wait()
}

// closeConns (mode "cmd") closes every open connection on command; the listener stays.
func (s *c11Server) closeConns() {
	s.mu.Lock()
	defer s.mu.Unlock()
	for c := range s.conns {
		s.log.add(c11rawEvent{k: "pclose", port: c11PortOf(c.RemoteAddr()), id: -1})
		s.srvClosed[c] = true
		c.Close()
		delete(s.conns, c) // its serve goroutine may not have noticed yet when the next command comes
	}
}

// c11CutLen clamps the number of bytes written of a package of n bytes to 1..n-1.
func c11CutLen(at, n int) int {
	if at < 1 {
		at = 1
	}
	if at > n-1 {
		at = n - 1
	}
	return at
}

// cutConns (mode "cut") writes the first bytes of a push package (kind "push": an arbitrary push with request id 0;
// kind "notify": the close notification) on every open connection and closes the connection in the middle of it.
func (s *c11Server) cutConns(kind string, at int) {
	s.mu.Lock()
	defer s.mu.Unlock()
	for c := range s.conns {
		push := requestf.ResponsePacket{IVersion: s.version, IRequestId: 0, SResultDesc: "_reconnect_"}
		if kind == "push" {
			push = requestf.ResponsePacket{IVersion: s.version, IRequestId: 0, SBuffer: tools.ByteToInt8([]byte("a pushed message that is cut off"))}
		}
		pb := codec.NewBuffer()
		if err := push.WriteTo(pb); err != nil {
			continue
		}
		frame := c11Frame(pb)
		s.log.add(c11rawEvent{k: "pclose", port: c11PortOf(c.RemoteAddr()), id: -1})
		c.Write(frame[:c11CutLen(at, len(frame))])
		s.srvClosed[c] = true
		c.Close()
		delete(s.conns, c)
	}
}

// pushCloseConns (mode "slowpush") writes a complete pushed package (request id 0, a payload for the application's
// push callback) on every open connection and closes the connection right behind it.
func (s *c11Server) pushCloseConns() {
	s.mu.Lock()
	defer s.mu.Unlock()
	for c := range s.conns {
		push := requestf.ResponsePacket{IVersion: s.version, IRequestId: 0, SBuffer: tools.ByteToInt8([]byte("pushed"))}
		pb := codec.NewBuffer()
		if err := push.WriteTo(pb); err != nil {
			continue
		}
		s.log.add(c11rawEvent{k: "pclose", port: c11PortOf(c.RemoteAddr()), id: -1})
		c.Write(c11Frame(pb))
		s.srvClosed[c] = true
		c.Close()
		delete(s.conns, c)
	}
}

// pushConns (mode "pushcmd") sends the close notification (request id 0, result description "_reconnect_") on every
// open connection that has not been notified yet; with closeAfter the server also closes the connection itself.
func (s *c11Server) pushConns(closeAfter bool) {
	s.mu.Lock()
	defer s.mu.Unlock()
	for c, fresh := range s.conns {
		if !fresh {
			continue
		}
		s.conns[c] = false
		push := requestf.ResponsePacket{IVersion: s.version, IRequestId: 0, SResultDesc: "_reconnect_"}
		pb := codec.NewBuffer()
		if err := push.WriteTo(pb); err != nil {
			continue
		}
		s.log.add(c11rawEvent{k: "pclose", port: c11PortOf(c.RemoteAddr()), id: -1})
		c.Write(c11Frame(pb))
		if closeAfter {
			s.srvClosed[c] = true
			c.Close()
			delete(s.conns, c)
		}
	}
}

// goDown (mode "down") closes every connection and the listener: the endpoint refuses connections until comeUp.
// The port stays reserved by a socket that is bound but does not listen, so that neither another listener (another
// script's server) nor an outgoing connection (the client's own dial: TCP self-connect) can take it meanwhile.
func (s *c11Server) goDown() {
	s.closeConns()
	s.mu.Lock()
	ln := s.ln
	s.mu.Unlock()
	ln.Close()
	for i := 0; i < 50; i++ {
		fd, err := syscall.Socket(syscall.AF_INET, syscall.SOCK_STREAM|syscall.SOCK_CLOEXEC, 0)
		if err != nil {
			return
		}
		syscall.SetsockoptInt(fd, syscall.SOL_SOCKET, syscall.SO_REUSEADDR, 1)
		if err = syscall.Bind(fd, &syscall.SockaddrInet4{Port: s.port, Addr: [4]byte{127, 0, 0, 1}}); err == nil {
			s.mu.Lock()
			s.holdFd = fd
			s.mu.Unlock()
			return
		}
		syscall.Close(fd)
		time.Sleep(2 * time.Millisecond)
	}
}

// comeUp listens again on the same port (on the reserved socket when there is one).
func (s *c11Server) comeUp() error {
	s.mu.Lock()
	fd := s.holdFd
	s.holdFd = -1
	s.mu.Unlock()
	var ln net.Listener
	var err error
	if fd >= 0 {
		if err = syscall.Listen(fd, 128); err == nil {
			f := os.NewFile(uintptr(fd), "c11-listener")
			ln, err = net.FileListener(f)
			f.Close()
		} else {
			syscall.Close(fd)
		}
	} else {
		ln, err = c11Listen(s.port)
	}
	if err != nil {
		return err
	}
	s.mu.Lock()
	s.ln = ln
	stopped := s.stopped
	s.mu.Unlock()
	if stopped {
		ln.Close()
		return nil
	}
	s.wg.Add(1)
	go s.acceptLoop(ln)
	return nil
}

// restart closes the listener and every connection and listens again on the same port.
func (s *c11Server) restart() {
	s.mu.Lock()
	old := s.ln
	s.mu.Unlock()
	old.Close()
	ln, err := c11Listen(s.port)
	if err != nil {
		return
	}
	s.mu.Lock()
	s.ln = ln
	stopped := s.stopped
	s.mu.Unlock()
	if stopped {
		ln.Close()
		return
	}
	s.wg.Add(1)
	go s.acceptLoop(ln)
}

func c11Frame(body *codec.Buffer) []byte {
	b := body.ToBytes()
	out := make([]byte, 4+len(b))
	binary.BigEndian.PutUint32(out, uint32(len(out)))
	copy(out[4:], b)
	return out
}

func (s *c11Server) serve(c net.Conn) {
	defer s.wg.Done()
	defer func() {
		c.Close()
		s.mu.Lock()
		delete(s.conns, c)
		s.mu.Unlock()
	}()
	port := c11PortOf(c.RemoteAddr())
	replies := 0
	var buf []byte
	tmp := make([]byte, 4096)
	for {
		if s.mode == "idle" && replies >= s.k {
			c.SetReadDeadline(time.Now().Add(30 * time.Millisecond))
		}
		n, err := c.Read(tmp)
		if err != nil {
			if ne, ok := err.(net.Error); ok && ne.Timeout() && s.mode == "idle" {
				s.log.add(c11rawEvent{k: "pclose", port: port, id: -1})
				return
			}
			// the read failed although this goroutine has not closed the connection: unless the server closed it
			// from outside (command, stop), the CLIENT has closed it
			s.mu.Lock()
			byServer := s.srvClosed[c] || s.stopped
			s.mu.Unlock()
			if !byServer {
				s.log.add(c11rawEvent{k: "cclose", port: port, id: -1})
			}
			return
		}
		buf = append(buf, tmp[:n]...)
		for len(buf) >= 4 {
			l := int(binary.BigEndian.Uint32(buf))
			if l < 4 || l > 1<<20 {
				return
			}
			if len(buf) < l {
				break
			}
			var req requestf.RequestPacket
			if err := req.ReadFrom(codec.NewReader(buf[4:l])); err != nil {
				return
			}
			buf = buf[l:]
			s.mu.Lock()
			s.version = req.IVersion
			s.mu.Unlock()
			callNo := -1
			if b := tools.Int8ToByte(req.SBuffer); len(b) >= 8 {
				callNo = int(binary.BigEndian.Uint64(b))
			}
			if callNo != c11WarmID {
				s.log.add(c11rawEvent{k: "srv", port: port, id: callNo})
			}
			rsp := requestf.ResponsePacket{IVersion: req.IVersion, CPacketType: req.CPacketType, IRequestId: req.IRequestId, SBuffer: req.SBuffer}
			ob := codec.NewBuffer()
			if err := rsp.WriteTo(ob); err != nil {
				return
			}
			frame := c11Frame(ob)
			s.mu.Lock()
			cut, late := s.cutNext, s.lateNext
			if callNo != c11WarmID {
				s.cutNext, s.lateNext = 0, 0
			} else {
				cut, late = 0, 0
			}
			s.mu.Unlock()
			if late > 0 {
				// the reply arrives about when its caller gives up; the server closes right behind it
				time.Sleep(late)
				c.Write(frame)
				s.log.add(c11rawEvent{k: "pclose", port: port, id: -1})
				return
			}
			if cut > 0 {
				// close in the middle of the response
				s.log.add(c11rawEvent{k: "pclose", port: port, id: -1})
				c.Write(frame[:c11CutLen(cut, len(frame))])
				return
			}
			if _, err := c.Write(frame); err != nil {
				return
			}
			if callNo == c11WarmID {
				continue
			}
			replies++
			if replies == s.k {
				switch s.mode {
				case "close":
					s.log.add(c11rawEvent{k: "pclose", port: port, id: -1})
					return
				case "rst":
					// let the reply reach the client before the reset discards it
					time.Sleep(80 * time.Millisecond)
					s.log.add(c11rawEvent{k: "pclose", port: port, id: -1})
					if tc, ok := c.(*net.TCPConn); ok {
						tc.SetLinger(0)
					}
					return
				case "half":
					s.log.add(c11rawEvent{k: "pclose", port: port, id: -1})
					if tc, ok := c.(*net.TCPConn); ok {
						tc.CloseWrite()
					}
					c.SetReadDeadline(time.Now().Add(5 * time.Second))
					io.Copy(io.Discard, c)
					return
				case "restart":
					// the new listener is up before the old connection goes away, so that a client that has
					// seen the close always finds the endpoint reachable
					s.restart()
					s.log.add(c11rawEvent{k: "pclose", port: port, id: -1})
					return
				case "push":
					// the close notification: request id 0, result description "_reconnect_"; the client opens a
					// new transport client and closes this connection itself once it is idle
					push := requestf.ResponsePacket{IVersion: req.IVersion, IRequestId: 0, SResultDesc: "_reconnect_"}
					pb := codec.NewBuffer()
					if err := push.WriteTo(pb); err != nil {
						return
					}
					s.log.add(c11rawEvent{k: "pclose", port: port, id: -1})
					if _, err := c.Write(c11Frame(pb)); err != nil {
						return
					}
				case "idle":
				}
			}
		}
	}
}

// ---------------------------------------------------------------------------------------------------
// client side

type c11Prx struct{ s m.Servant }

func (p *c11Prx) SetServant(s m.Servant) { p.s = s }

// c11WarmID is the call number of the warm-up call that makes the proxy create its adapter before any
// concurrent calls start (concurrent first calls can create several adapters for one endpoint, each with its
// own transport client; that is outside this property). The server answers it without counting or logging it.
const c11WarmID = 1 << 40

const c11TimeoutMs = 3000 // call timeout of the scripted client
const c11SlowMs = 400     // a call issued after the observed close must return within this (normal: ~1 ms)

// c11Case is one script together with what was observed when it ran (so a case is its own replay).
type c11Case struct {
	Mode        string `json:"mode"`                  // how the server closes: close | half | rst | push | restart | idle
	Burst       int    `json:"burst"`                 // concurrent callers per round (1 = sequential)
	Seq         int    `json:"seq"`                   // sequential calls of each caller per round; the server closes after burst*seq replies
	DelayUs     int    `json:"delay_us"`              // delay between the observed close and the next round's calls
	Rounds      int    `json:"rounds"`                // number of closes
	OffsMs      []int  `json:"offs_ms,omitempty"`     // pushcmd: the calls of a round are issued this many ms after the observed client swap
	PushClose   bool   `json:"push_close,omitempty"`  // pushcmd: the server closes the notified connection itself right after the notification
	TLS         bool   `json:"tls,omitempty"`         // ssl endpoint: the scripted server speaks TLS, the client uses its configured TLS settings
	CutKind     string `json:"cut_kind,omitempty"`    // mode cut: what the server is writing when it closes in the middle of a package: push | notify | response
	CutAt       int    `json:"cut_at,omitempty"`      // mode cut: number of bytes of that package written before the close (clamped to 1..len-1); mode latereply: offset in us of the reply from the caller's deadline
	QueueLen    int    `json:"queue_len,omitempty"`   // > 0: length of the client's send queue (default 10000)
	ObjQueueMax int    `json:"objqueuemax,omitempty"` // > 0: client setting objqueuemax (calls of one proxy not yet settled; default 100000)
	PauseUs     int    `json:"pause_us,omitempty"`    // > 0: each round is two sets of calls on the same connection with this idle period between them

	Events   []c11Event `json:"events,omitempty"`
	Retries  int        `json:"retries,omitempty"`    // re-runs made after a timing failure
	Repro    int        `json:"reproduced,omitempty"` // how many of them showed the same failure
	SetupErr string     `json:"setup_err,omitempty"`
}

func c11Call(sp *tars.ServantProxy, callNo int) error {
	return c11CallCtx(context.Background(), sp, callNo)
}

func c11CallCtx(ctx context.Context, sp *tars.ServantProxy, callNo int) error {
	var buf [8]byte
	binary.BigEndian.PutUint64(buf[:], uint64(callNo))
	var rsp requestf.ResponsePacket
	err := sp.TarsInvoke(ctx, 0, "echo", buf[:], nil, nil, &rsp)
	if err != nil {
		return err
	}
	b := tools.Int8ToByte(rsp.SBuffer)
	if len(b) < 8 || int(binary.BigEndian.Uint64(b)) != callNo {
		return fmt.Errorf("reply does not carry the call number")
	}
	return nil
}

// c11Hung counts script executions that did not finish within c11ScriptLimit; c11HangDir is where the goroutine
// dump of the first one is written.
var (
	c11Hung    int32
	c11HangDir string
)

const c11ScriptLimit = 120 * time.Second

// c11RunOnce executes the script once under a watchdog: an execution that does not come back (which no script should
// do: every wait in it is bounded) is abandoned, all goroutine stacks are written to c11-hang.txt in the output
// directory for diagnosis, and the execution is treated like a failed set-up (not judged).
func c11RunOnce(c *c11Case) ([]c11Event, string) {
	type res struct {
		evs  []c11Event
		serr string
	}
	ch := make(chan res, 1)
	cc := *c
	go func() {
		evs, serr := c11RunScript(&cc)
		ch <- res{evs, serr}
	}()
	select {
	case r := <-ch:
		return r.evs, r.serr
	case <-time.After(c11ScriptLimit):
		if atomic.AddInt32(&c11Hung, 1) == 1 && c11HangDir != "" {
			buf := make([]byte, 8<<20)
			n := runtime.Stack(buf, true)
			os.WriteFile(c11HangDir+"/c11-hang.txt", append([]byte(fmt.Sprintf("script %+v did not finish within %v\n\n", cc, c11ScriptLimit)), buf[:n]...), 0o644)
		}
		return nil, "script execution abandoned by the watchdog"
	}
}

// c11RunScript executes the script once and returns the ordered event log.
func c11RunScript(c *c11Case) ([]c11Event, string) {
	c11InstallHook()
	log := c11NewLog()
	if c.Seq < 1 {
		c.Seq = 1
	}
	k := c.Burst * c.Seq * c11Halves(c)
	if c.Mode == "held" || c.Mode == "heldq" || c.Mode == "pushcmd" || c.Mode == "down" || c.Mode == "tlsheld" || c.Mode == "cut" || c.Mode == "slowpush" || c.Mode == "latereply" {
		k = -1 // closes / notifies on command only
	}
	srv, err := c11StartServer(c.Mode, k, log, c.TLS)
	if err != nil {
		return nil, "listen: " + err.Error()
	}
	defer srv.stop()
	comm := tars.NewCommunicator()
	if c.QueueLen > 0 || c.ObjQueueMax > 0 {
		// a private copy of the client configuration of this communicator with a short send queue / a small objqueuemax
		cfg := *comm.Client
		if c.QueueLen > 0 {
			cfg.ClientQueueLen = c.QueueLen
		}
		if c.ObjQueueMax > 0 {
			cfg.ObjQueueMax = int32(c.ObjQueueMax)
		}
		comm.Client = &cfg
	}
	prx := &c11Prx{}
	proto := "tcp"
	if c.Mode == "tlsheld" || c.TLS {
		proto = "ssl"
		tars.VerifSetClientTLS(comm, &tls.Config{InsecureSkipVerify: true})
	}
	comm.StringToProxy(fmt.Sprintf("C11.Obj.P%d@%s -h 127.0.0.1 -p %d -t 60000", srv.port, proto, srv.port), prx)
	sp := prx.s.(*tars.ServantProxy)
	sp.TarsSetTimeout(c11TimeoutMs)
	c11Logs.Store(srv.port, log)
	defer c11Logs.Delete(srv.port)
	defer func() {
		for _, tc := range tars.VerifC11Clients(sp) {
			tc.Close()
		}
	}()
	if err := c11Call(sp, c11WarmID); err != nil {
		return nil, "warm-up call failed"
	}
	if c.Mode == "held" || c.Mode == "heldq" {
		return c11RunHeld(c, srv, sp, log), ""
	}
	if c.Mode == "pushcmd" {
		return c11RunPush(c, srv, sp, log), ""
	}
	if c.Mode == "down" {
		return c11RunDown(c, srv, sp, log)
	}
	if c.Mode == "tlsheld" {
		return c11RunTLS(c, srv, sp, log), ""
	}
	if c.Mode == "cut" {
		return c11RunCut(c, srv, sp, log), ""
	}
	if c.Mode == "slowpush" {
		return c11RunSlowPush(c, srv, sp, log), ""
	}
	if c.Mode == "latereply" {
		return c11RunLateReply(c, srv, sp, log), ""
	}
	callNo := 0
	for round := 0; round <= c.Rounds; round++ {
		if c.PauseUs > 0 {
			// first set of calls, then an idle period on the healthy connection (the sender's ticker fires)
			c11CallSet(c, sp, log, &callNo)
			time.Sleep(time.Duration(c.PauseUs) * time.Microsecond)
		}
		c11CallSet(c, sp, log, &callNo)
		if round == c.Rounds {
			break
		}
		// wait until the client has observed the close
		tc := log.lastWriter() // the transport client that carried this round's calls
		if tc == nil {
			return c11Canon(log), ""
		}
		deadline := time.Now().Add(4 * time.Second)
		observed := false
		for time.Now().Before(deadline) {
			if c.Mode == "push" {
				if now := tars.VerifC11Clients(sp); len(now) > 0 && now[0] != tc {
					observed = true
					log.add(c11rawEvent{k: "obs", id: -1, port: -1})
					break
				}
			} else {
				closed, conn := c11ConnOf(tc)
				if closed && conn != nil {
					observed = true
					log.add(c11rawEvent{k: "obs", id: -1, port: c11PortOf(conn.LocalAddr())})
					break
				}
			}
			time.Sleep(200 * time.Microsecond)
		}
		if !observed {
			return c11Canon(log), ""
		}
		if c.DelayUs > 0 {
			time.Sleep(time.Duration(c.DelayUs) * time.Microsecond)
		}
	}
	// let a late duplicate or a late write show up in the log
	time.Sleep(5 * time.Millisecond)
	return c11Canon(log), ""
}

func c11Halves(c *c11Case) int {
	if c.PauseUs > 0 {
		return 2
	}
	return 1
}

// c11CallSet issues Burst concurrent callers with Seq sequential calls each and waits for them.
func c11CallSet(c *c11Case, sp *tars.ServantProxy, log *c11Log, callNo *int) {
	var wg sync.WaitGroup
	for b := 0; b < c.Burst; b++ {
		first := *callNo
		*callNo += c.Seq
		wg.Add(1)
		go func() {
			defer wg.Done()
			for id := first; id < first+c.Seq; id++ {
				log.add(c11rawEvent{k: "enq", id: id})
				t0 := time.Now()
				err := c11Call(sp, id)
				ms := int(time.Since(t0) / time.Millisecond)
				if err != nil {
					log.add(c11rawEvent{k: "fail", id: id, ms: ms})
				} else {
					log.add(c11rawEvent{k: "reply", id: id, ms: ms})
				}
			}
		}()
	}
	wg.Wait()
}

// c11RunHeld is the deterministic script for the loss that falls between the sender's test and its write: the send
// goroutine is held in the hook with call A, the server closes the connection, the harness waits until the client
// has observed the close, issues Burst further calls (they must go over a new connection and succeed), then
// releases the held goroutine: its write fails, and call A must be handed to the new connection and succeed.
func c11RunHeld(c *c11Case, srv *c11Server, sp *tars.ServantProxy, log *c11Log) []c11Event {
	callNo := 0
	for round := 0; round < c.Rounds; round++ {
		a := callNo
		callNo++
		log.mu.Lock()
		if c.Mode == "heldq" {
			log.holdQID = a
		} else {
			log.holdID = a
		}
		log.mu.Unlock()
		var released time.Time
		var relMu sync.Mutex
		doneA := make(chan struct{})
		go func() {
			defer close(doneA)
			log.add(c11rawEvent{k: "enq", id: a})
			t0 := time.Now()
			err := c11Call(sp, a)
			relMu.Lock()
			if released.After(t0) {
				t0 = released
			}
			relMu.Unlock()
			ms := int(time.Since(t0) / time.Millisecond)
			if err != nil {
				log.add(c11rawEvent{k: "fail", id: a, ms: ms})
			} else {
				log.add(c11rawEvent{k: "reply", id: a, ms: ms})
			}
		}()
		select {
		case <-log.held:
		case <-time.After(4 * time.Second):
			<-doneA
			return c11Canon(log)
		}
		release := func() {
			relMu.Lock()
			released = time.Now()
			relMu.Unlock()
			c11Signal(log.release)
			<-doneA
		}
		tcs := tars.VerifC11Clients(sp)
		if len(tcs) == 0 {
			release()
			return c11Canon(log)
		}
		srv.closeConns()
		observed := false
		for deadline := time.Now().Add(4 * time.Second); time.Now().Before(deadline); time.Sleep(200 * time.Microsecond) {
			if closed, conn := c11ConnOf(tcs[0]); closed && conn != nil {
				observed = true
				log.add(c11rawEvent{k: "obs", id: -1, port: c11PortOf(conn.LocalAddr())})
				break
			}
		}
		if !observed {
			release()
			return c11Canon(log)
		}
		early := c.Mode == "heldq" && c.Seq == 2
		if early {
			// the sender is released BEFORE any further call: the client is marked closed and its connection is still the
			// current one; the request must not be written to it but wait in the failure queue for the next call's dial
			relMu.Lock()
			released = time.Now()
			relMu.Unlock()
			c11Signal(log.release)
			time.Sleep(20 * time.Millisecond)
		}
		if c.DelayUs > 0 {
			time.Sleep(time.Duration(c.DelayUs) * time.Microsecond)
		}
		for b := 0; b < c.Burst; b++ {
			id := callNo
			callNo++
			log.add(c11rawEvent{k: "enq", id: id})
			t0 := time.Now()
			err := c11Call(sp, id)
			ms := int(time.Since(t0) / time.Millisecond)
			if err != nil {
				log.add(c11rawEvent{k: "fail", id: id, ms: ms})
			} else {
				log.add(c11rawEvent{k: "reply", id: id, ms: ms})
			}
		}
		if early {
			<-doneA
		} else {
			release()
		}
	}
	time.Sleep(5 * time.Millisecond)
	return c11Canon(log)
}

// c11Signal releases a goroutine waiting on ch; if nobody is waiting any more (the waiter has given up after its own
// time limit) it gives up after a second instead of blocking the script.
func c11Signal(ch chan struct{}) {
	select {
	case ch <- struct{}{}:
	case <-time.After(time.Second):
	}
}

// c11ConnOf reads the closed flag and the current connection of a client; a failed TLS dial leaves a nil *tls.Conn
// inside the interface, which is reported as no connection.
func c11ConnOf(tc *transport.TarsClient) (bool, net.Conn) {
	closed, conn := transport.VerifC11Conn(tc)
	if t, ok := conn.(*tls.Conn); ok && t == nil {
		return closed, nil
	}
	return closed, conn
}

// c11OneCall issues one call and logs its outcome.
func c11OneCall(sp *tars.ServantProxy, log *c11Log, id int) {
	log.add(c11rawEvent{k: "enq", id: id})
	t0 := time.Now()
	err := c11Call(sp, id)
	ms := int(time.Since(t0) / time.Millisecond)
	if err != nil {
		log.add(c11rawEvent{k: "fail", id: id, ms: ms})
	} else {
		log.add(c11rawEvent{k: "reply", id: id, ms: ms})
	}
}

// c11RunPush is the close-notification script: the server sends the reconnect push on the connection in use (and
// keeps or closes that connection), the adapter swaps to a new transport client and grace-closes the old one on a
// 500 ms ticker; calls are issued at scripted offsets after the observed swap (before, around and after that
// tick). Before every call the closed flag and current connection of the adapter's current client are logged.
func c11RunPush(c *c11Case, srv *c11Server, sp *tars.ServantProxy, log *c11Log) []c11Event {
	callNo := 0
	c11OneCall(sp, log, callNo) // a connection in use before the first notification
	callNo++
	for round := 0; round < c.Rounds; round++ {
		before := tars.VerifC11Clients(sp)
		if len(before) == 0 {
			return c11Canon(log)
		}
		srv.pushConns(c.PushClose)
		swapped := false
		for deadline := time.Now().Add(4 * time.Second); time.Now().Before(deadline); time.Sleep(200 * time.Microsecond) {
			if now := tars.VerifC11Clients(sp); len(now) > 0 && now[0] != before[0] {
				swapped = true
				log.add(c11rawEvent{k: "obs", id: -1, port: -1})
				break
			}
		}
		if !swapped {
			return c11Canon(log)
		}
		if now := tars.VerifC11Clients(sp); len(now) > 0 {
			a, b := transport.VerifC11Conf(before[0]), transport.VerifC11Conf(now[0])
			if a.Proto != b.Proto || a.QueueLen != b.QueueLen || a.IdleTimeout != b.IdleTimeout || a.ReadTimeout != b.ReadTimeout ||
				a.WriteTimeout != b.WriteTimeout || a.DialTimeout != b.DialTimeout || a.TlsConfig != b.TlsConfig {
				log.add(c11rawEvent{k: "cfgdiff", id: -1})
			}
		}
		t0 := time.Now()
		for _, off := range c.OffsMs {
			if d := time.Until(t0.Add(time.Duration(off) * time.Millisecond)); d > 0 {
				time.Sleep(d)
			}
			if now := tars.VerifC11Clients(sp); len(now) > 0 {
				if closed, conn := c11ConnOf(now[0]); conn != nil {
					log.add(c11rawEvent{k: "cflag", id: -1, port: c11PortOf(conn.LocalAddr()), dead: closed})
				}
			}
			c11OneCall(sp, log, callNo)
			callNo++
		}
	}
	time.Sleep(5 * time.Millisecond)
	return c11Canon(log)
}

// c11RunDown is the restart-with-downtime script: the server closes the connection and stops listening; once the
// client has observed the close, Seq calls are issued while the endpoint refuses connections (their outcome is not
// judged: the re-dial fails); the server listens again on the same port; DelayUs later Burst calls are issued, which
// must be answered quickly and exactly once.
func c11RunDown(c *c11Case, srv *c11Server, sp *tars.ServantProxy, log *c11Log) ([]c11Event, string) {
	callNo := 0
	c11OneCall(sp, log, callNo)
	callNo++
	for round := 0; round < c.Rounds; round++ {
		tcs := tars.VerifC11Clients(sp)
		if len(tcs) == 0 {
			return c11Canon(log), ""
		}
		srv.goDown()
		observed := false
		for deadline := time.Now().Add(4 * time.Second); time.Now().Before(deadline); time.Sleep(200 * time.Microsecond) {
			if closed, conn := c11ConnOf(tcs[0]); closed && conn != nil {
				observed = true
				log.add(c11rawEvent{k: "obs", id: -1, port: c11PortOf(conn.LocalAddr())})
				break
			}
		}
		for i := 0; observed && i < c.Seq; i++ {
			id := callNo
			callNo++
			log.add(c11rawEvent{k: "enq", id: id, down: true})
			t0 := time.Now()
			err := c11Call(sp, id)
			ms := int(time.Since(t0) / time.Millisecond)
			if err != nil {
				log.add(c11rawEvent{k: "fail", id: id, ms: ms})
			} else {
				log.add(c11rawEvent{k: "reply", id: id, ms: ms})
			}
		}
		if err := srv.comeUp(); err != nil {
			return nil, "listen again: " + err.Error() // the port was taken meanwhile: environment, not the client
		}
		if !observed {
			return c11Canon(log), ""
		}
		if c.DelayUs > 0 {
			time.Sleep(time.Duration(c.DelayUs) * time.Microsecond)
		}
		for b := 0; b < c.Burst; b++ {
			c11OneCall(sp, log, callNo)
			callNo++
		}
	}
	time.Sleep(5 * time.Millisecond)
	return c11Canon(log), ""
}

// c11RunTLS is the script for two reports of the loss of one connection around a SLOW re-dial (TLS endpoint, the
// server delays the handshake): the send goroutine of connection A is held in the write hook with call X; the server
// closes A and the receive goroutine reports the loss (first close, client marked closed); call Y is issued, its
// ReConnect dials under the connection lock; as soon as the server has accepted the new TCP connection (the dial is
// in progress, the handshake still delayed) the held goroutine is released: its write fails and it reports the loss
// of A a second time, inside the dial window. Afterwards there must be exactly one new connection, not flagged
// closed, and X, Y and Burst further calls must be fast and arrive exactly once.
func c11RunTLS(c *c11Case, srv *c11Server, sp *tars.ServantProxy, log *c11Log) []c11Event {
	callNo := 0
	c11OneCall(sp, log, callNo)
	callNo++
	for round := 0; round < c.Rounds; round++ {
		for len(srv.accepted) > 0 {
			<-srv.accepted
		}
		x := callNo
		callNo++
		log.mu.Lock()
		log.holdID = x
		log.mu.Unlock()
		var released time.Time
		var relMu sync.Mutex
		doneX := make(chan struct{})
		go func() {
			defer close(doneX)
			log.add(c11rawEvent{k: "enq", id: x})
			t0 := time.Now()
			err := c11Call(sp, x)
			relMu.Lock()
			if released.After(t0) {
				t0 = released
			}
			relMu.Unlock()
			ms := int(time.Since(t0) / time.Millisecond)
			if err != nil {
				log.add(c11rawEvent{k: "fail", id: x, ms: ms})
			} else {
				log.add(c11rawEvent{k: "reply", id: x, ms: ms})
			}
		}()
		select {
		case <-log.held:
		case <-time.After(4 * time.Second):
			<-doneX
			return c11Canon(log)
		}
		release := func() {
			relMu.Lock()
			released = time.Now()
			relMu.Unlock()
			c11Signal(log.release)
		}
		tcs := tars.VerifC11Clients(sp)
		if len(tcs) == 0 {
			release()
			<-doneX
			return c11Canon(log)
		}
		srv.closeConns()
		observed := false
		for deadline := time.Now().Add(4 * time.Second); time.Now().Before(deadline); time.Sleep(200 * time.Microsecond) {
			if closed, conn := c11ConnOf(tcs[0]); closed && conn != nil {
				observed = true
				log.add(c11rawEvent{k: "obs", id: -1, port: c11PortOf(conn.LocalAddr())})
				break
			}
		}
		if !observed {
			release()
			<-doneX
			return c11Canon(log)
		}
		y := callNo
		callNo++
		doneY := make(chan struct{})
		go func() {
			defer close(doneY)
			c11OneCall(sp, log, y)
		}()
		select {
		case <-srv.accepted: // the re-dial is in progress: TCP accepted, handshake delayed
			time.Sleep(c11HandshakeDelay / 6)
		case <-time.After(4 * time.Second):
		}
		release()
		<-doneX
		<-doneY
		if now := tars.VerifC11Clients(sp); len(now) > 0 {
			if closed, conn := c11ConnOf(now[0]); conn != nil {
				log.add(c11rawEvent{k: "cflag", id: -1, port: c11PortOf(conn.LocalAddr()), dead: closed})
			}
		}
		for b := 0; b < c.Burst; b++ {
			c11OneCall(sp, log, callNo)
			callNo++
		}
	}
	time.Sleep(5 * time.Millisecond)
	return c11Canon(log)
}

// c11RunCut is the script for a server that goes away in the middle of a package: after a successful call it writes
// only the first CutAt bytes of a push, of the close notification, or of the response to a call (that call, issued
// before the close, is not judged: it runs into its timeout) and closes the connection. The calls issued after the
// client has observed the close go over a new connection and must be answered quickly and exactly once: nothing of
// the incomplete package may be carried over.
func c11RunCut(c *c11Case, srv *c11Server, sp *tars.ServantProxy, log *c11Log) []c11Event {
	callNo := 0
	c11OneCall(sp, log, callNo)
	callNo++
	var pending []chan struct{}
	for round := 0; round < c.Rounds; round++ {
		tcs := tars.VerifC11Clients(sp)
		if len(tcs) == 0 {
			break
		}
		if c.CutKind == "response" {
			srv.mu.Lock()
			srv.cutNext = c.CutAt
			srv.mu.Unlock()
			x := callNo
			callNo++
			done := make(chan struct{})
			pending = append(pending, done)
			go func() {
				defer close(done)
				log.add(c11rawEvent{k: "enq", id: x, down: true})
				t0 := time.Now()
				err := c11Call(sp, x)
				ms := int(time.Since(t0) / time.Millisecond)
				if err != nil {
					log.add(c11rawEvent{k: "fail", id: x, ms: ms})
				} else {
					log.add(c11rawEvent{k: "reply", id: x, ms: ms})
				}
			}()
		} else {
			srv.cutConns(c.CutKind, c.CutAt)
		}
		observed := false
		for deadline := time.Now().Add(4 * time.Second); time.Now().Before(deadline); time.Sleep(200 * time.Microsecond) {
			if closed, conn := c11ConnOf(tcs[0]); closed && conn != nil {
				observed = true
				log.add(c11rawEvent{k: "obs", id: -1, port: c11PortOf(conn.LocalAddr())})
				break
			}
		}
		if !observed {
			break
		}
		if c.DelayUs > 0 {
			time.Sleep(time.Duration(c.DelayUs) * time.Microsecond)
		}
		for b := 0; b < c.Burst; b++ {
			c11OneCall(sp, log, callNo)
			callNo++
		}
	}
	for _, d := range pending {
		<-d
	}
	time.Sleep(5 * time.Millisecond)
	return c11Canon(log)
}

// c11RunLateReply is the script for a reply that arrives about when its caller gives up, directly followed by a
// close: call X has a deadline of c11LateMs, the server answers it CutAt us before/after that deadline and closes right
// behind the reply. X is not judged. The calls issued after the client has
// observed the close must be fast and arrive exactly once.
func c11RunLateReply(c *c11Case, srv *c11Server, sp *tars.ServantProxy, log *c11Log) []c11Event {
	callNo := 0
	c11OneCall(sp, log, callNo)
	callNo++
	for round := 0; round < c.Rounds; round++ {
		tcs := tars.VerifC11Clients(sp)
		if len(tcs) == 0 {
			break
		}
		srv.mu.Lock()
		srv.lateNext = time.Duration(c11LateMs)*time.Millisecond + time.Duration(c.CutAt)*time.Microsecond
		srv.mu.Unlock()
		x := callNo
		callNo++
		log.add(c11rawEvent{k: "enq", id: x, down: true})
		t0 := time.Now()
		ctx, cancel := context.WithTimeout(context.Background(), time.Duration(c11LateMs)*time.Millisecond)
		err := c11CallCtx(ctx, sp, x)
		cancel()
		ms := int(time.Since(t0) / time.Millisecond)
		if err != nil {
			log.add(c11rawEvent{k: "fail", id: x, ms: ms})
		} else {
			log.add(c11rawEvent{k: "reply", id: x, ms: ms})
		}
		observed := false
		for deadline := time.Now().Add(4 * time.Second); time.Now().Before(deadline); time.Sleep(200 * time.Microsecond) {
			if closed, conn := c11ConnOf(tcs[0]); closed && conn != nil {
				observed = true
				log.add(c11rawEvent{k: "obs", id: -1, port: c11PortOf(conn.LocalAddr())})
				break
			}
		}
		if !observed {
			break
		}
		for b := 0; b < c.Burst; b++ {
			c11OneCall(sp, log, callNo)
			callNo++
		}
	}
	time.Sleep(5 * time.Millisecond)
	return c11Canon(log)
}

const c11LateMs = 150

// c11RunSlowPush is the script for a close that directly follows a package whose handling takes long: the
// application has registered a push callback that does not return until the harness lets it; the server writes a
// pushed package and closes the connection behind it. While the callback is still running the client must notice
// the close (the harness waits for that at most 1.5 s and goes on regardless), and the calls issued then - the
// callback still running - must go over a new connection, be fast and arrive exactly once.
func c11RunSlowPush(c *c11Case, srv *c11Server, sp *tars.ServantProxy, log *c11Log) []c11Event {
	started := make(chan struct{}, 16)
	release := make(chan struct{})
	sp.SetPushCallback(func([]byte) {
		started <- struct{}{}
		select {
		case <-release:
		case <-time.After(20 * time.Second):
		}
	})
	callNo := 0
	c11OneCall(sp, log, callNo)
	callNo++
	for round := 0; round < c.Rounds; round++ {
		tcs := tars.VerifC11Clients(sp)
		if len(tcs) == 0 {
			break
		}
		srv.pushCloseConns()
		select {
		case <-started:
		case <-time.After(4 * time.Second):
			return c11Canon(log)
		}
		for deadline := time.Now().Add(1500 * time.Millisecond); time.Now().Before(deadline); time.Sleep(200 * time.Microsecond) {
			if closed, conn := c11ConnOf(tcs[0]); closed && conn != nil {
				log.add(c11rawEvent{k: "obs", id: -1, port: c11PortOf(conn.LocalAddr())})
				break
			}
		}
		if c.DelayUs > 0 {
			time.Sleep(time.Duration(c.DelayUs) * time.Microsecond)
		}
		for b := 0; b < c.Burst; b++ {
			c11OneCall(sp, log, callNo)
			callNo++
		}
		c11Signal(release)
	}
	time.Sleep(5 * time.Millisecond)
	return c11Canon(log)
}

// c11Canon turns the raw log into the canonical trace: generations are numbered in accept order, a dial event
// is placed before the first event that mentions the generation, ports and timestamps are dropped.
func c11Canon(l *c11Log) []c11Event {
	l.mu.Lock()
	raw := append([]c11rawEvent(nil), l.evs...)
	l.mu.Unlock()
	gen := map[int]int{}
	for _, e := range raw {
		if e.k == "dial" {
			if _, ok := gen[e.port]; !ok {
				gen[e.port] = len(gen)
			}
		}
	}
	// a connection that was dialled but whose accept was not logged (server stopping): number it after the others
	for _, e := range raw {
		if e.port > 0 {
			if _, ok := gen[e.port]; !ok {
				gen[e.port] = len(gen)
			}
		}
	}
	seen := map[int]bool{}
	var out []c11Event
	for _, e := range raw {
		g := -1
		if e.port > 0 {
			g = gen[e.port]
			if !seen[g] {
				seen[g] = true
				out = append(out, c11Event{K: "dial", G: g, ID: -1})
			}
		}
		if e.k == "dial" {
			continue
		}
		out = append(out, c11Event{K: e.k, G: g, ID: e.id, Dead: e.dead, Cur: e.cur, Ms: e.ms, Down: e.down})
	}
	return out
}

// ---------------------------------------------------------------------------------------------------
// L3 monitors on one trace

const (
	c11SigStale  = "client-conn/stale-sender-after-peer-close"
	c11SigSlow   = "client-conn/call-after-observed-close-slow-or-failed"
	c11SigOnce   = "client-conn/request-not-exactly-once-at-server"
	c11SigRedial = "client-conn/healthy-connection-redialled"
	c11SigSelf   = "client-conn/healthy-connection-closed-by-client"
	c11SigLate   = "client-conn/failed-call-delivered-later"
	c11SigCfg    = "client-conn/replacement-client-configured-differently"
)

func c11Monitor(c *c11Case, evs []c11Event) map[string]string {
	out := map[string]string{}
	per := c.Burst * c.Seq * c11Halves(c)
	if c.Seq < 1 {
		per = c.Burst
	}
	total := (c.Rounds + 1) * per
	if c.Mode == "held" || c.Mode == "heldq" {
		per, total = 0, c.Rounds*(1+c.Burst)
	}
	if c.Mode == "pushcmd" {
		per, total = 0, 1+c.Rounds*len(c.OffsMs)
	}
	if c.Mode == "down" {
		per, total = 0, 1+c.Rounds*(c.Seq+c.Burst)
	}
	if c.Mode == "tlsheld" {
		per, total = 0, 1+c.Rounds*(2+c.Burst)
	}
	if c.Mode == "slowpush" {
		per, total = 0, 1+c.Rounds*c.Burst
	}
	if c.Mode == "latereply" {
		per, total = 0, 1+c.Rounds*(1+c.Burst)
	}
	if c.Mode == "cut" {
		per, total = 0, 1+c.Rounds*c.Burst
		if c.CutKind == "response" {
			total += c.Rounds
		}
	}
	down := map[int]bool{} // calls issued while the server was down: not judged
	failed := map[int]bool{}
	arrivals := map[int]int{}
	closedByPeer := map[int]bool{}
	lastDial := -1
	finished := map[int]bool{}
	for _, e := range evs {
		switch e.K {
		case "dial":
			if lastDial >= 0 && !closedByPeer[lastDial] {
				out[c11SigRedial] = fmt.Sprintf("connection %d was opened although the server had not closed connection %d", e.G, lastDial)
			}
			if e.G > lastDial {
				lastDial = e.G
			}
		case "pclose":
			closedByPeer[e.G] = true
		case "cfgdiff":
			out[c11SigCfg] = "the transport client installed after the close notification differs from the one it replaces in Proto, QueueLen, a timeout or the TLS configuration"
		case "cclose":
			if !closedByPeer[e.G] {
				out[c11SigSelf] = fmt.Sprintf("the client itself closed connection %d, which the server had neither closed nor announced to close", e.G)
			}
		case "cflag":
			if e.Dead && !closedByPeer[e.G] {
				out[c11SigSelf] = fmt.Sprintf("the adapter's current client has its closed flag set on connection %d, which the server had neither closed nor announced to close", e.G)
			}
		case "write":
			if e.Dead || !e.Cur {
				out[c11SigStale] = fmt.Sprintf("request %d was about to be written to connection %d, which the client had already closed (closed=%v, current=%v)", e.ID, e.G, e.Dead, e.Cur)
			}
		case "srv":
			arrivals[e.ID]++
			if closedByPeer[e.G] && c.Mode != "push" && c.Mode != "half" {
				out[c11SigOnce] = fmt.Sprintf("request %d arrived on connection %d after the server closed it", e.ID, e.G)
			}
		case "enq":
			if e.Down {
				down[e.ID] = true
			}
		case "reply":
			finished[e.ID] = true
			if e.Ms > c11SlowMs && !down[e.ID] {
				out[c11SigSlow] = fmt.Sprintf("call %d took %d ms although the server answers at once (limit %d ms, timeout %d ms)", e.ID, e.Ms, c11SlowMs, c11TimeoutMs)
			}
		case "fail":
			finished[e.ID] = true
			failed[e.ID] = true
			if down[e.ID] {
				continue
			}
			out[c11SigSlow] = fmt.Sprintf("call %d failed after %d ms (timeout %d ms) although the server answers every request", e.ID, e.Ms, c11TimeoutMs)
		}
	}
	if len(finished) == total {
		for id := 0; id < total; id++ {
			if c.Mode == "down" && down[id] && failed[id] && arrivals[id] > 0 {
				out[c11SigLate] = fmt.Sprintf("call %d returned an error while the server was down, but its request arrived %d time(s) at the server later", id, arrivals[id])
			}
			if arrivals[id] != 1 && !down[id] {
				out[c11SigOnce] = fmt.Sprintf("request %d arrived %d times at the server", id, arrivals[id])
				break
			}
		}
	} else if _, ok := out[c11SigSlow]; !ok {
		out[c11SigSlow] = fmt.Sprintf("only %d of %d calls were made: the client did not observe a close within 4 s", len(finished), total)
	}
	return out
}

// c11Confirmed counts the scripts of this run whose failure was confirmed by re-runs.
var c11Confirmed int32

const c11ConfirmCap = 6

// c11Run runs a script; a failure of a timing-dependent monitor counts only if it reproduces in three of up to
// twelve immediate re-runs of the same script (every C11 monitor depends on the schedule, so all are treated so).
func c11Run(c *c11Case) []Failure {
	evs, serr := c11RunOnce(c)
	c.Events, c.SetupErr = evs, serr
	if serr != "" && len(evs) == 0 {
		return nil // no listener: environment, not the client
	}
	first := c11Monitor(c, evs)
	if len(first) == 0 {
		return nil
	}
	if atomic.LoadInt32(&c11Confirmed) >= c11ConfirmCap {
		// enough scripts have confirmed failures already: do not spend minutes on re-running the rest of a broken
		// tree; this script's unconfirmed failure is dropped like any other unreproduced one
		c.Events = nil
		return nil
	}
	repro := map[string]int{}
	for i := 0; i < 12; i++ {
		c.Retries++
		e2, _ := c11RunOnce(c)
		again := c11Monitor(c, e2)
		if os.Getenv("C11_DEBUG") != "" {
			fmt.Fprintf(os.Stderr, "C11_DEBUG first=%v again=%v events=%+v\n", first, again, e2)
		}
		done := false
		for sig := range again {
			if _, ok := first[sig]; ok {
				repro[sig]++
				if repro[sig] >= 3 {
					done = true
				}
			}
		}
		if done {
			break
		}
	}
	var fs []Failure
	var sigs []string
	for sig := range first {
		sigs = append(sigs, sig)
	}
	sort.Strings(sigs)
	for _, sig := range sigs {
		if repro[sig] >= 3 {
			c.Repro = repro[sig]
			what := fmt.Sprintf("server closes by %q after %d replies, next calls %d us after the observed close", c.Mode, c.Burst*c.Seq*c11Halves(c), c.DelayUs)
			if c.Mode == "heldq" {
				what = fmt.Sprintf("send goroutine held right after it has taken a request (before its current-connection test), server closes the connection, %d further call(s) %d us after the observed close, then the goroutine is released", c.Burst, c.DelayUs)
			} else if c.Mode == "held" {
				what = fmt.Sprintf("send goroutine held just before its write, server closes the connection, %d further call(s) %d us after the observed close, then the goroutine is released", c.Burst, c.DelayUs)
			} else if c.Mode == "tlsheld" {
				what = fmt.Sprintf("TLS endpoint with a %v handshake delay; send goroutine held before its write, server closes the connection (receiver reports the loss), a call re-dials, the held goroutine is released while the dial is in progress (its failed write reports the loss a second time), then %d further call(s)", c11HandshakeDelay, c.Burst)
			} else if c.Mode == "latereply" {
				what = fmt.Sprintf("a call with a %d ms deadline is answered %d us after that deadline and the server closes right behind the reply, then %d call(s) after the observed close", c11LateMs, c.CutAt, c.Burst)
			} else if c.Mode == "slowpush" {
				what = fmt.Sprintf("server writes a pushed package and closes the connection behind it, the application's push callback is still running, %d call(s) %d us after the close was (or should have been) observed", c.Burst, c.DelayUs)
			} else if c.Mode == "cut" {
				what = fmt.Sprintf("server closes the connection after the first %d byte(s) of a %s package, %d call(s) %d us after the observed close", c.CutAt, c.CutKind, c.Burst, c.DelayUs)
			} else if c.Mode == "down" {
				what = fmt.Sprintf("server closes the connection and stops listening, %d call(s) while it is down (client send queue length %d, objqueuemax %d; 0 = default), server listens again, %d call(s) %d us later", c.Seq, c.QueueLen, c.ObjQueueMax, c.Burst, c.DelayUs)
			} else if c.Mode == "pushcmd" {
				what = fmt.Sprintf("server sends the close notification on the connection in use (closes it itself: %v), calls %v ms after the observed client swap", c.PushClose, c.OffsMs)
			} else if c.PauseUs > 0 {
				what += fmt.Sprintf(", %d us idle period inside each round", c.PauseUs)
			}
			if c.TLS {
				what = "ssl endpoint; " + what
			}
			fs = append(fs, Failure{Sig: sig, Desc: fmt.Sprintf("%s: %s (reproduced in %d re-runs)", what, first[sig], repro[sig])})
		}
	}
	if len(fs) == 0 {
		// not reproduced: keep the first log out of the model comparison as well (it was a timing artefact)
		c.Events = nil
	} else {
		atomic.AddInt32(&c11Confirmed, 1)
	}
	return fs
}

// ---------------------------------------------------------------------------------------------------
// Coq rendering

func c11Coq(c *c11Case) string {
	if len(c.Events) == 0 {
		return ""
	}
	var sb strings.Builder
	sb.WriteString("[")
	n := 0
	for _, e := range c.Events {
		if e.K == "deq" || e.K == "cfgdiff" {
			continue // kept in the recorded log for the reader; the dequeue is not a logged action of the model
		}
		if n > 0 {
			sb.WriteString("; ")
		}
		n++
		switch e.K {
		case "dial":
			fmt.Fprintf(&sb, "EDial %d", e.G)
		case "enq":
			fmt.Fprintf(&sb, "EEnq %d", e.ID)
		case "write":
			fmt.Fprintf(&sb, "EWrite %d %d %s", e.G, e.ID, coqBool(e.Dead || !e.Cur))
		case "srv":
			fmt.Fprintf(&sb, "ESrv %d %d", e.G, e.ID)
		case "pclose":
			fmt.Fprintf(&sb, "EPeerClose %d", e.G)
		case "cclose":
			fmt.Fprintf(&sb, "ECliClose %d", e.G)
		case "cflag":
			fmt.Fprintf(&sb, "ECFlag %d %s", e.G, coqBool(e.Dead))
		case "obs":
			if e.G < 0 {
				sb.WriteString("EObsPush")
			} else {
				fmt.Fprintf(&sb, "EObsClosed %d", e.G)
			}
		case "reply":
			fmt.Fprintf(&sb, "EReply %d", e.ID)
		case "fail":
			fmt.Fprintf(&sb, "EFail %d", e.ID)
		}
	}
	sb.WriteString("]")
	return "(" + coqBool(c.Mode == "push" || c.Mode == "pushcmd") + ", " + sb.String() + "%nat)"
}

func c11Gen(tier string, rng *rand.Rand) []c11Case {
	modes := []string{"close", "half", "rst", "restart", "idle", "push"}
	delays := []int{0, 1000, 50000, 1200000}
	var cs []c11Case
	reps := 2
	if tier == "thorough" {
		reps = 30
	}
	for r := 0; r < reps; r++ {
		for _, md := range modes {
			for _, d := range delays {
				for _, b := range []int{1, 1 + rng.Intn(5)} {
					rounds := 4 + rng.Intn(4)
					dd := d
					if d > 0 && d < 1000000 {
						dd = d/2 + rng.Intn(d) // jitter around the nominal delay
					}
					if d >= 1000000 {
						rounds = 2
					}
					if md == "push" {
						rounds = 2 // the client closes the old connection on a 500 ms ticker
					}
					cs = append(cs, c11Case{Mode: md, Burst: b, Seq: 1 + rng.Intn(3), DelayUs: dd, Rounds: rounds})
				}
			}
		}
	}
	for r := 0; r < 3*reps; r++ {
		// an idle period longer than the sender's 1 s ticker on a healthy connection, then calls, then the close
		cs = append(cs, c11Case{Mode: []string{"close", "idle", "restart"}[r%3], Burst: 1 + r%2, Seq: 1 + rng.Intn(2), DelayUs: []int{0, 1000, 50000}[rng.Intn(3)], Rounds: 1, PauseUs: 1050000 + rng.Intn(400000)})
	}
	for r := 0; r < 2*reps; r++ {
		// restart with downtime: the re-dial of a call issued while the server is down fails
		d := []int{0, 1000, 50000}[r%3]
		if d > 0 {
			d = d/2 + rng.Intn(d)
		}
		cs = append(cs, c11Case{Mode: "down", Burst: 1 + rng.Intn(3), Seq: 1 + r%2, DelayUs: d, Rounds: 2})
		// a long outage for a short send queue: more failed calls than the queue holds
		ql := 2 + r%2
		cs = append(cs, c11Case{Mode: "down", Burst: 2 + rng.Intn(2), Seq: ql + 2 + rng.Intn(2), DelayUs: d, Rounds: 1 + r%2, QueueLen: ql})
		// ... and for a small objqueuemax: more failed calls than calls of one proxy may be unsettled
		oq := 2 + (r+1)%2
		cs = append(cs, c11Case{Mode: "down", Burst: 2 + rng.Intn(2), Seq: oq + 2 + rng.Intn(2), DelayUs: d, Rounds: 1 + (r+1)%2, ObjQueueMax: oq, TLS: r%4 == 2})
	}
	for r := 0; r < 2*reps; r++ {
		// close notification, calls before / around / after the 500 ms grace tick of the swapped-out client
		offs := []int{rng.Intn(20), 80 + rng.Intn(40), 380 + rng.Intn(50), 570 + rng.Intn(60), 1150 + rng.Intn(100)}
		cs = append(cs, c11Case{Mode: "pushcmd", Burst: 1, Seq: 1, Rounds: 2, OffsMs: offs, PushClose: r%2 == 1})
	}
	for r := 0; r < reps; r++ {
		// the same classes over an ssl endpoint (the client's TLS configuration matters on every re-dial and on the
		// client installed after a close notification)
		for _, md := range []string{"close", "idle", "restart", "push"} {
			d := []int{0, 1000, 50000}[rng.Intn(3)]
			rounds := 3
			if md == "push" {
				rounds = 2
			}
			cs = append(cs, c11Case{Mode: md, Burst: 1 + rng.Intn(3), Seq: 1 + rng.Intn(2), DelayUs: d, Rounds: rounds, TLS: true})
		}
		offs := []int{rng.Intn(20), 80 + rng.Intn(40), 380 + rng.Intn(50), 570 + rng.Intn(60)}
		cs = append(cs, c11Case{Mode: "pushcmd", Burst: 1, Seq: 1, Rounds: 2, OffsMs: offs, PushClose: r%2 == 1, TLS: true})
		cs = append(cs, c11Case{Mode: "down", Burst: 1 + rng.Intn(2), Seq: 1, DelayUs: 1000, Rounds: 2, TLS: true})
	}
	for r := 0; r < 2*reps; r++ {
		// a close right behind a package whose handling takes long (push callback still running)
		cs = append(cs, c11Case{Mode: "slowpush", Burst: 1 + rng.Intn(3), Seq: 1, DelayUs: []int{0, 1000, 50000}[rng.Intn(3)], Rounds: 2 + rng.Intn(2), TLS: r%4 == 3})
	}
	for r := 0; r < 2*reps; r++ {
		// a reply that arrives about when its caller gives up, directly followed by a close
		off := []int{-3000, -1000, -200, 0, 200, 1000, 3000}[rng.Intn(7)] + rng.Intn(200) - 100
		cs = append(cs, c11Case{Mode: "latereply", Burst: 1 + rng.Intn(2), Seq: 1, Rounds: 2 + rng.Intn(2), CutAt: off, TLS: r%4 == 3})
	}
	for r := 0; r < 3*reps; r++ {
		// the server goes away in the middle of a package
		kind := []string{"push", "notify", "response"}[r%3]
		at := []int{1, 3, 4, 5, 9, 1 << 20}[rng.Intn(6)] // inside the length prefix, just after it, inside the body, all but the last byte
		rounds := 2 + rng.Intn(2)
		if kind == "response" {
			rounds = 1 // the cut call runs into its timeout
		}
		cs = append(cs, c11Case{Mode: "cut", Burst: 1 + rng.Intn(3), Seq: 1, DelayUs: []int{0, 1000, 50000}[rng.Intn(3)], Rounds: rounds, CutKind: kind, CutAt: at, TLS: r%6 == 5})
	}
	for r := 0; r < 2*reps; r++ {
		// slow re-dial (TLS handshake delay) with the second report of the loss inside the dial window
		cs = append(cs, c11Case{Mode: "tlsheld", Burst: 1 + r%2, Seq: 1, Rounds: 2 + rng.Intn(2)})
	}
	for r := 0; r < 3*reps; r++ {
		// held after the dequeue: the request must be handed over to the new connection
		d := []int{0, 1000, 50000}[r%3]
		if d > 0 {
			d = d/2 + rng.Intn(d)
		}
		cs = append(cs, c11Case{Mode: "heldq", Burst: 1 + r%3, Seq: 1, DelayUs: d, Rounds: 2 + rng.Intn(3)})
		cs = append(cs, c11Case{Mode: "heldq", Burst: 1 + r%2, Seq: 2, DelayUs: d % 20000, Rounds: 2 + rng.Intn(2)}) // released before the next call

	}
	for r := 0; r < 4*reps; r++ {
		d := []int{0, 1000, 50000}[r%3]
		if d > 0 {
			d = d/2 + rng.Intn(d)
		}
		cs = append(cs, c11Case{Mode: "held", Burst: 1 + r%3, Seq: 1, DelayUs: d, Rounds: 2 + rng.Intn(3)})
	}
	rng.Shuffle(len(cs), func(i, j int) { cs[i], cs[j] = cs[j], cs[i] })
	return cs
}

func c11DelayClass(us int) string {
	switch {
	case us == 0:
		return "0"
	case us < 10000:
		return "1ms"
	case us < 1000000:
		return "50ms"
	}
	return "1.2s"
}

func init() {
	constGens = append(constGens, func() {
		_, fq := transport.VerifC11QueueCaps(0)
		fmt.Printf("Definition c_c11_failq_cap := %d.\n", fq) // the model's failure queue holds one request
	})
	props["C11"] = func(a Args) {
		c11HangDir = a.Out
		if d := os.Getenv("VERIF_BUILD"); d != "" {
			c11HangDir = d // survives the removal of the work directory
		}
		runProp(Prop[c11Case]{
			ID:       "C11",
			Require:  "From TarsV Require Import Conc.ClientConn.",
			CaseType: "bool * list c11_event",
			Mismatch: "c11_rejected",
			Corr:     "c11_accepts (specification machine of Conc/ClientConn.v) on the recorded event log",
			Rule:     "distinct (close mode, concurrent callers, sequential calls per caller, delay class) scripts whose log contains at least one close observed by the client followed by a successful call",
			Shard:    200,
			Workers:  6,
			Gen:      c11Gen,
			Run:      c11Run,
			Coq:      c11Coq,
			Class: func(c *c11Case) string {
				obs, after := false, false
				for _, e := range c.Events {
					if e.K == "obs" {
						obs = true
					}
					if e.K == "reply" && obs {
						after = true
					}
				}
				if !after {
					return ""
				}
				pz := ""
				if c.PauseUs > 0 {
					pz = "/pause"
				}
				if c.PushClose {
					pz += "/srvclose"
				}
				if c.QueueLen > 0 {
					pz += fmt.Sprintf("/q%d", c.QueueLen)
				}
				if c.ObjQueueMax > 0 {
					pz += fmt.Sprintf("/oq%d", c.ObjQueueMax)
				}
				if c.TLS {
					pz += "/ssl"
				}
				if c.CutKind != "" {
					pz += "/" + c.CutKind
				}
				return fmt.Sprintf("%s/b%d/s%d/%s%s", c.Mode, c.Burst, c.Seq, c11DelayClass(c.DelayUs), pz)
			},
			Extra: func(tier string, rng *rand.Rand, res *Result) {
				res.Traces = len(res.Cases)
				res.Stats["call_timeout_ms"] = c11TimeoutMs
				res.Stats["slow_limit_ms"] = c11SlowMs
				res.Stats["script_executions_abandoned_by_watchdog"] = atomic.LoadInt32(&c11Hung)
				res.Stats["timing_rule"] = "a monitor failure counts only if the same script shows the same failure in 3 of up to 12 immediate re-runs"
			},
		}, a)
	}
}
