package main

// xlate_targets_sel.go - further translated units for C13/C14 (selectors): the number of virtual-node rounds of a
// consistent-hash member and the manager's enableWeight.  Proofs: coq/Xlate/ChWeightEquiv.v.  (The reBuildLocked functions of
// the three selectors with a weight table are outside the translator's subset: they assign nil to a receiver field, and
// round-robin's draws come from a package the translator does not load.)  The translator core is not touched.

func init() {
	xUnits = append(xUnits,
		// consistent hash: rounds of virtual nodes of a member
		xUnit{Name: "tr_ch_weight", Dir: "tars/selector/consistenthash", Func: "ConsistentHash.weight", Recv: true},
		xUnit{Name: "tr_mgr_enableWeight", Dir: "tars", Func: "endpointManager.enableWeight", Recv: true},
	)
}
