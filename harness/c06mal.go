package main

// C04 / C05 / C06: decoding of extended, truncated, mistyped and hostile inputs. Every decode runs in a
// child worker; expectations are judged on the implementation (L3) and every (small) case is also sent to
// the model (L2).

import (
	"fmt"
	"math/rand"
	"reflect"
	"strings"
)

type mCase struct {
	g       gCase
	expect  string // "any" | "err" | "equal" | "err-or-equal" | "safe"
	ref     int    // index of the reference case for equal / err-or-equal
	expObs  string // explicit expected observation (absent-optional)
	seed    int64
	sigHint string
}

type base struct {
	e     regEntry
	sid   int
	v     tarsStruct
	bytes []byte
	spans []span
}

func mkBases(rng *rand.Rand, per int, maxLen int) []base {
	initRegistry()
	var out []base
	for sid, e := range registry {
		for i := 0; i < per; i++ {
			v := gRandomValue(rng, e)
			bs, err := gEncode(v)
			if err != nil || len(bs) > maxLen {
				continue
			}
			sp, ok := walkTop(bs)
			if !ok {
				continue
			}
			out = append(out, base{e, sid, v, bs, sp})
		}
	}
	return out
}

// slowLimitUs: wall-clock allowance for one decode: 2.5 s + 1.5 us per input byte (a 10 MiB packet decodes in
// well under a second on this machine); a case counts as slow only if it is slow again in two immediate re-runs
func slowLimitUs(n int) int64 { return 2_500_000 + int64(n)*3/2 }

func stillSlow(rq decReq) bool {
	for k := 0; k < 2; k++ {
		r := decodeMany([]decReq{rq}, 1, 15000)[0]
		if r.Died == "" && r.Us <= slowLimitUs(len(rq.Bytes)) {
			return false
		}
	}
	return true
}

func classifyPanic(msg string) string {
	switch {
	case strings.Contains(msg, "makeslice"):
		return "makeslice"
	case strings.Contains(msg, "index out of range"):
		return "index-out-of-range"
	case strings.Contains(msg, "slice bounds out of range"):
		return "slice-bounds"
	case strings.Contains(msg, "nil map"):
		return "nil-map"
	}
	if len(msg) > 40 {
		msg = msg[:40]
	}
	return "other:" + msg
}

// runM decodes all cases and judges them; returns gCases (for the model) and failures
func runM(pid string, cs []mCase, capMs int) ([]gCase, [][]Failure, map[string]interface{}) {
	reqs := make([]decReq, len(cs))
	for i := range cs {
		reqs[i] = decReq{ID: i, Sid: cs[i].g.Sid, Entry: cs[i].g.Entry, Bytes: cs[i].g.Bytes, PriorSeed: cs[i].seed}
	}
	resp := decodeMany(reqs, 12, capMs)
	out := make([]gCase, len(cs))
	fails := make([][]Failure, len(cs))
	var maxAlloc uint64
	var maxUs int64
	classes := map[string]int{}
	for i := range cs {
		c := &cs[i]
		r := resp[i]
		g := c.g
		g.Obs, g.ErrMsg, g.Prior = r.Obs, r.Err, r.Prior
		if r.Alloc > maxAlloc {
			maxAlloc = r.Alloc
		}
		if r.Us > maxUs {
			maxUs = r.Us
		}
		add := func(sig, desc string) {
			fails[i] = append(fails[i], Failure{Sig: sig, Desc: desc + fmt.Sprintf(" [struct %s, %d bytes, kind %s, %s]", g.Struct, len(g.Bytes), g.Kind+"/"+g.Note, hexOf(trunc(g.Bytes)))})
		}
		cls := "ok"
		switch {
		case r.Died != "":
			cls = "died"
			g.Obs = "ODied"
			if len(g.Bytes) <= 700 && g.Kind != "reuse" && g.Kind != "enc" {
				g.Huge = true // judged by the model: only a LIST count beyond the bytes left explains a death
			} else {
				g.NoCoq = true
			}
			add("decode/process-death/"+strings.SplitN(strings.TrimPrefix(r.Died, "worker exited: "), " [", 2)[0], "decoding killed the process: "+r.Died)
		case strings.HasPrefix(r.Obs, "OPanic"):
			cls = "panic"
			add("decode/panic/"+classifyPanic(r.Err), "decoding panicked: "+r.Err)
		case r.Obs == "OErr" || r.Obs == "SlErr":
			cls = "err"
		}
		if pid == "C05" && r.Died == "" && r.Alloc > 256*uint64(len(g.Bytes))+(1<<20) {
			if !g.NoCoq && g.Kind != "reuse" && g.Kind != "enc" {
				g.Huge = true
			}
			sig := "decode/over-allocation"
			if c.sigHint != "" {
				sig += "/" + c.sigHint
			}
			add(sig, fmt.Sprintf("decoding %d bytes allocated %d bytes (> 256 x input + 1 MiB)", len(g.Bytes), r.Alloc))
		}
		if pid == "C05" && r.Died == "" && r.Us > slowLimitUs(len(g.Bytes)) && stillSlow(reqs[i]) {
			add("decode/slow", fmt.Sprintf("decoding %d bytes took %d us (limit %d us: not linear in the input)", len(g.Bytes), r.Us, slowLimitUs(len(g.Bytes))))
		}
		classes[g.Kind+"/"+cls]++
		if r.Died == "" && !strings.HasPrefix(r.Obs, "OPanic") {
			switch c.expect {
			case "slice": // ReadSliceInt8/Uint8(&target, n): all n bytes or an error, nothing of the target's old content
				n := int(int32(uint32(g.Bytes[0])<<24 | uint32(g.Bytes[1])<<16 | uint32(g.Bytes[2])<<8 | uint32(g.Bytes[3])))
				payload := g.Bytes[4:]
				if n < 0 || n > len(payload) {
					if r.Obs != "SlErr" {
						add("decode/byte-vector/bad-length-accepted", fmt.Sprintf("%s with length %d on %d bytes succeeded: %s", g.Entry, n, len(payload), trunc200(r.Obs)))
					}
				} else if want := fmt.Sprintf("(SlVal %s %d)", hx(payload[:n]), len(payload)-n); r.Obs != want {
					add("decode/byte-vector/value-differs", fmt.Sprintf("%s with length %d on %d bytes gave %s, expected %s", g.Entry, n, len(payload), trunc200(r.Obs), want))
				}
			case "err":
				if r.Obs != "OErr" {
					add("decode/"+c.sigHint+"/accepted", "expected an error, decoding succeeded with "+trunc200(r.Obs))
				}
			case "equal":
				if r.Obs != resp[c.ref].Obs {
					add("decode/"+c.sigHint+"/value-differs", "decoded "+trunc200(r.Obs)+" but the reference decode gives "+trunc200(resp[c.ref].Obs))
				}
			case "equal-obs":
				if r.Obs != c.expObs {
					add("decode/"+c.sigHint+"/value-differs", "decoded "+trunc200(r.Obs)+" expected "+trunc200(c.expObs))
				}
			case "err-or-equal":
				if r.Obs != "OErr" && (r.Obs != resp[c.ref].Obs || !strings.HasPrefix(resp[c.ref].Obs, "OVal")) {
					add("decode/"+c.sigHint+"/made-up-data", "decoding a truncated encoding succeeded with "+trunc200(r.Obs)+" which is not the value of the complete fields present ("+trunc200(resp[c.ref].Obs)+")")
				}
			}
		}
		out[i] = g
	}
	return out, fails, map[string]interface{}{"max_alloc_bytes": maxAlloc, "max_decode_us": maxUs, "outcome_classes": classes}
}

func runMProp(pid, corr, rule string, a Args, gen func(tier string, rng *rand.Rand) []mCase, capMs int) {
	var stats map[string]interface{}
	var ms []mCase
	p := Prop[gCase]{
		ID: pid, Require: gRequireT, CaseType: "gcase", Mismatch: "failing_from (gcase_check_t env0)", Corr: corr, Rule: rule, Shard: 120,
		Gen: func(tier string, rng *rand.Rand) []gCase {
			ms = gen(tier, rng)
			out := make([]gCase, len(ms))
			for i := range ms {
				out[i] = ms[i].g
			}
			return out
		},
		RunAll: func(cs []gCase) [][]Failure {
			if len(ms) != len(cs) { // replay: a single case from a file
				ms = make([]mCase, len(cs))
				for i := range cs {
					ms[i] = mCase{g: cs[i], expect: "safe"}
					if cs[i].Kind == "slice" {
						ms[i].expect = "slice"
					}
				}
			}
			gs, fails, st := runM(pid, ms, capMs)
			copy(cs, gs)
			stats = st
			return fails
		},
		Coq:   gCoq,
		Class: func(c *gCase) string { return c.Class },
		Extra: func(tier string, rng *rand.Rand, res *Result) {
			for k, v := range stats {
				res.Stats[k] = v
			}
		},
	}
	runProp(p, a)
}

// ---------- C06 ----------
func admissible(t reflect.Type) map[byte]bool {
	switch t.Kind() {
	case reflect.Bool, reflect.Int8:
		return map[byte]bool{12: true, 0: true}
	case reflect.Uint8, reflect.Int16:
		return map[byte]bool{12: true, 0: true, 1: true}
	case reflect.Uint16, reflect.Int32:
		return map[byte]bool{12: true, 0: true, 1: true, 2: true}
	case reflect.Uint32, reflect.Int64:
		return map[byte]bool{12: true, 0: true, 1: true, 2: true, 3: true}
	case reflect.Float32:
		return map[byte]bool{12: true, 4: true}
	case reflect.Float64:
		return map[byte]bool{12: true, 4: true, 5: true}
	case reflect.String:
		return map[byte]bool{6: true, 7: true}
	case reflect.Slice:
		if t.Elem().Kind() == reflect.Int8 || t.Elem().Kind() == reflect.Uint8 {
			return map[byte]bool{9: true, 13: true}
		}
		return map[byte]bool{9: true}
	case reflect.Array:
		return map[byte]bool{9: true}
	case reflect.Map:
		return map[byte]bool{8: true}
	case reflect.Struct:
		return map[byte]bool{10: true}
	}
	return map[byte]bool{}
}

func fieldTypeByTag(t reflect.Type, tag int) (reflect.Type, bool, bool) {
	for _, f := range fieldsOf(t) {
		if f.Tag == tag {
			return t.Field(f.Idx).Type, f.Req, true
		}
	}
	return nil, false, false
}

func c06Gen(tier string, rng *rand.Rand) []mCase {
	per, maxLen, maxPrefix := 2, 500, 24
	if tier == "thorough" {
		per, maxLen, maxPrefix = 12, 2000, 120
	}
	var cs []mCase
	for _, b := range mkBases(rng, per, maxLen) {
		mk := func(kind, note string, bs []byte) mCase {
			return mCase{g: gCase{Kind: "dec", Struct: b.e.name, Sid: b.sid, Bytes: bs, Note: note, Class: kind + "/" + b.e.name}}
		}
		// boundary truncations (references) : boundIdx[k] = decode of the first k complete fields
		boundIdx := make([]int, len(b.spans)+1)
		for k := 0; k <= len(b.spans); k++ {
			end := len(b.bytes)
			if k < len(b.spans) {
				end = b.spans[k].Start
			}
			c := mk("boundary", fmt.Sprintf("first %d fields", k), b.bytes[:end])
			c.expect = "any"
			// cut in front of a member the type requires (whatever default it declares): an error
			for _, later := range b.spans[k:] {
				if _, req, ok := fieldTypeByTag(b.e.typ, later.Tag); ok && req {
					c.expect, c.sigHint = "err", "truncated-before-required"
					c.g.Note += fmt.Sprintf(" (required member tag %d cut off)", later.Tag)
					break
				}
			}
			boundIdx[k] = len(cs)
			cs = append(cs, c)
		}
		// proper prefixes
		cuts := map[int]bool{}
		if len(b.bytes) <= maxPrefix {
			for i := 0; i < len(b.bytes); i++ {
				cuts[i] = true
			}
		} else {
			for len(cuts) < maxPrefix {
				cuts[rng.Intn(len(b.bytes))] = true
			}
			for _, s := range allSpans(b.spans) { // cuts right inside heads, lengths and bodies
				for _, p := range []int{s.Start + 1, s.BodyStart, s.BodyStart + 1, s.End - 1} {
					if p > 0 && p < len(b.bytes) && rng.Intn(3) == 0 {
						cuts[p] = true
					}
				}
			}
		}
		for cut := range cuts {
			k := 0
			for _, s := range b.spans {
				if s.End <= cut {
					k++
				}
			}
			if k < len(b.spans) && b.spans[k].Start == cut {
				continue // exactly at a boundary: that is the reference itself
			}
			c := mk("prefix", fmt.Sprintf("cut at %d of %d", cut, len(b.bytes)), b.bytes[:cut])
			c.expect, c.ref, c.sigHint = "err-or-equal", boundIdx[k], "truncated"
			cs = append(cs, c)
		}
		// inflated lengths / counts
		for _, s := range allSpans(b.spans) {
			if s.LenAt >= 0 {
				remaining := len(b.bytes) - (s.LenAt + s.LenSize)
				// beyond what remains: by one, by a lot, and with the top bit of a 4-byte length set (a signed
				// 32-bit comparison would see those as negative)
				for _, nl := range []int{remaining + 1, remaining + 65536, 0x7fffffff, 0x80000000, 0x80000000 + remaining, 0xffffffff} {
					if s.LenSize == 1 && nl > 255 {
						continue
					}
					nb := append([]byte(nil), b.bytes...)
					if s.LenSize == 1 {
						nb[s.LenAt] = byte(nl)
					} else {
						nb[s.LenAt], nb[s.LenAt+1], nb[s.LenAt+2], nb[s.LenAt+3] = byte(nl>>24), byte(nl>>16), byte(nl>>8), byte(nl)
					}
					c := mk("inflate", fmt.Sprintf("string length at %d -> %d (remaining %d)", s.LenAt, nl, remaining), nb)
					c.expect, c.sigHint = "err", "inflated-length"
					cs = append(cs, c)
				}
			}
			if s.CountField != nil {
				cf := *s.CountField
				remaining := len(b.bytes) - cf.End
				for _, nc := range []int{remaining + 1, remaining + 40000} {
					nb := append(append(append([]byte(nil), b.bytes[:cf.Start]...), mkCount(nc)...), b.bytes[cf.End:]...)
					c := mk("inflate", fmt.Sprintf("count of wire type %d at %d -> %d (remaining %d)", s.Ty, cf.Start, nc, remaining), nb)
					c.expect, c.sigHint = "err", "inflated-count"
					cs = append(cs, c)
				}
				// one more than there is (a fixed array: one more than it holds): judged by the model (and by the panic monitor)
				if s.Ty == 9 || s.Ty == 8 {
					n := len(s.Kids)
					if s.Ty == 8 {
						n /= 2
					}
					nb := append(append(append([]byte(nil), b.bytes[:cf.Start]...), mkCount(n+1)...), b.bytes[cf.End:]...)
					c := mk("near-count", fmt.Sprintf("count of wire type %d at %d -> %d (one more than there is)", s.Ty, cf.Start, n+1), nb)
					c.expect = "any"
					cs = append(cs, c)
				}
				// a negative count (BYTE -1, SHORT -32768, INT -2^31) is no count: list, map and simple list alike
				for _, neg := range [][]byte{{0x00, 0xff}, {0x01, 0x80, 0x00}, {0x02, 0x80, 0x00, 0x00, 0x00}} {
					nb := append(append(append([]byte(nil), b.bytes[:cf.Start]...), neg...), b.bytes[cf.End:]...)
					c := mk("negative-count", fmt.Sprintf("count of wire type %d at %d -> % x", s.Ty, cf.Start, neg), nb)
					c.expect, c.sigHint = "err", "negative-count"
					cs = append(cs, c)
				}
			}
		}
		// inadmissible wire types
		for _, s := range b.spans {
			ft, _, ok := fieldTypeByTag(b.e.typ, s.Tag)
			if !ok {
				continue
			}
			adm := admissible(ft)
			for _, ty := range []byte{0, 1, 2, 3, 4, 5, 6, 7, 8, 9, 10, 12, 13} {
				// every inadmissible wire type for the members of the test IDL (which has every member type); sampled elsewhere
				if adm[ty] || (!strings.HasPrefix(b.e.name, "verifidl.") && rng.Intn(3) != 0) {
					continue
				}
				nb := append(append(append([]byte(nil), b.bytes[:s.Start]...), randFieldOf(rng, ty, s.Tag, 2)...), b.bytes[s.End:]...)
				c := mk("mistyped", fmt.Sprintf("tag %d (%s) replaced by wire type %d", s.Tag, ft.String(), ty), nb)
				c.expect, c.sigHint = "err", "inadmissible-wire-type"
				cs = append(cs, c)
			}
		}
	}
	// codec.Reader.ReadSliceInt8 / ReadSliceUint8 directly (the generated SimpleList branch calls them with the count from
	// the wire): every length around 0 and around the bytes left, into a slice that holds other content
	for _, entry := range []string{"slice-int8", "slice-uint8"} {
		for plen := 0; plen <= 5; plen++ {
			payload := make([]byte, plen)
			rng.Read(payload)
			for _, n := range []int64{-2147483648, -129, -1, 0, 1, int64(plen) - 1, int64(plen), int64(plen) + 1, int64(plen) + 70000, 2147483647} {
				bs := append([]byte{byte(uint32(n) >> 24), byte(uint32(n) >> 16), byte(uint32(n) >> 8), byte(uint32(n))}, payload...)
				cs = append(cs, mCase{g: gCase{Kind: "slice", Entry: entry, Bytes: bs, Note: fmt.Sprintf("%s length %d on %d bytes", entry, n, plen), Class: "slice/" + entry}, expect: "slice"})
			}
		}
	}
	return cs
}

// ---------- C04 ----------
func schemaTags(t reflect.Type) map[int]bool {
	m := map[int]bool{}
	for _, f := range fieldsOf(t) {
		m[f.Tag] = true
	}
	return m
}

func insertExtras(rng *rand.Rand, bs []byte, spans []span, known map[int]bool, n int) []byte {
	type ins struct {
		at  int
		tag int
		b   []byte
	}
	var l []ins
	used := map[int]bool{}
	for i := 0; i < n; i++ {
		tag := rng.Intn(256)
		if known[tag] || used[tag] {
			continue
		}
		used[tag] = true
		at := len(bs)
		if len(spans) > 0 {
			at = spans[len(spans)-1].End
		}
		for _, s := range spans {
			if s.Tag > tag {
				at = s.Start
				break
			}
		}
		l = append(l, ins{at, tag, randField(rng, tag, 3)})
	}
	// apply from the back; equal positions ordered by tag
	for i := 0; i < len(l); i++ {
		for j := i + 1; j < len(l); j++ {
			if l[j].at > l[i].at || (l[j].at == l[i].at && l[j].tag > l[i].tag) {
				l[i], l[j] = l[j], l[i]
			}
		}
	}
	out := append([]byte(nil), bs...)
	for _, x := range l {
		out = append(out[:x.at], append(append([]byte(nil), x.b...), out[x.at:]...)...)
	}
	return out
}

type nestedRemoval struct {
	kind, note string
	bytes      []byte
	req, last  bool
}

// nestedRemovals walks the wire tree of a valid encoding alongside the Go type and, for every struct value that is
// NOT the top-level one, removes each member in turn; for a required member also together with everything behind it
// (so that the search for it runs into the StructEnd)
func nestedRemovals(top reflect.Type, spans []span, bs []byte) []nestedRemoval {
	var out []nestedRemoval
	var visit func(t reflect.Type, s span, depth int)
	visitStruct := func(t reflect.Type, kids []span, end int, depth int, nested bool) {
		for i, k := range kids {
			ft, req, ok := fieldTypeByTag(t, k.Tag)
			if !ok {
				continue
			}
			if nested {
				last := i == len(kids)-1
				kind := "nested-absent-optional"
				if req {
					kind = "nested-absent-required"
				}
				nb := append(append([]byte(nil), bs[:k.Start]...), bs[k.End:]...)
				out = append(out, nestedRemoval{kind, fmt.Sprintf("member tag %d of a %s at depth %d removed (last present member: %v)", k.Tag, t.Name(), depth, last), nb, req, last})
				if req && !last {
					nb2 := append(append([]byte(nil), bs[:k.Start]...), bs[end-1:]...)
					out = append(out, nestedRemoval{"nested-absent-required", fmt.Sprintf("member tag %d of a %s at depth %d and all members behind it removed", k.Tag, t.Name(), depth), nb2, true, true})
				}
			}
			visit(ft, k, depth+1)
		}
	}
	visit = func(t reflect.Type, s span, depth int) {
		switch {
		case t.Kind() == reflect.Struct && s.Ty == 10:
			visitStruct(t, s.Kids, s.End, depth, true)
		case (t.Kind() == reflect.Slice || t.Kind() == reflect.Array) && s.Ty == 9:
			for _, k := range s.Kids {
				visit(t.Elem(), k, depth+1)
			}
		case t.Kind() == reflect.Map && s.Ty == 8:
			for i, k := range s.Kids {
				if i%2 == 0 {
					visit(t.Key(), k, depth+1)
				} else {
					visit(t.Elem(), k, depth+1)
				}
			}
		}
	}
	visitStruct(top, spans, len(bs), 0, false)
	return out
}

func c04Gen(tier string, rng *rand.Rand) []mCase {
	per, maxLen := 3, 500
	if tier == "thorough" {
		per, maxLen = 25, 2000
	}
	var cs []mCase
	for _, b := range mkBases(rng, per, maxLen) {
		mk := func(kind, note string, bs []byte) mCase {
			return mCase{g: gCase{Kind: "dec", Struct: b.e.name, Sid: b.sid, Bytes: bs, Note: note, Class: kind + "/" + b.e.name}}
		}
		clean := len(cs)
		c := mk("clean", "", b.bytes)
		c.expect = "any"
		cs = append(cs, c)
		// the canonical image a conforming peer sends: the members of every struct value in ascending tag order (the
		// identity on a conforming encoding; differs when the generated WriteTo emits members out of tag order)
		{
			c := mk("canonical-order", "members of every struct value re-ordered by tag", canonBytes(b.bytes, b.spans))
			c.expect, c.ref, c.sigHint = "equal", clean, "canonical-order"
			cs = append(cs, c)
		}
		known := schemaTags(b.e.typ)
		for i := 0; i < 3; i++ {
			n := 1 + rng.Intn(5)
			c := mk("extras", fmt.Sprintf("%d unknown fields", n), insertExtras(rng, b.bytes, b.spans, known, n))
			c.expect, c.ref, c.sigHint = "equal", clean, "unknown-fields"
			cs = append(cs, c)
		}
		// one unknown field of each wire type as the very last thing on the wire (its payload ends exactly at the end
		// of the input), under the first free tag after the last member present: a later absent optional member makes
		// the reader skip it
		{
			tag := 0
			if len(b.spans) > 0 {
				tag = b.spans[len(b.spans)-1].Tag + 1
			}
			for tag < 256 && known[tag] {
				tag++
			}
			if tag < 256 {
				tys := []byte{0, 1, 2, 3, 4, 5, 6, 7, 8, 9, 10, 12, 13}
				for _, k := range rng.Perm(len(tys))[:5] {
					f := randFieldOf(rng, tys[k], tag, 2)
					c := mk("extras-tail", fmt.Sprintf("unknown field of wire type %d at tag %d ending the input", tys[k], tag), append(append([]byte(nil), b.bytes...), f...))
					c.expect, c.ref, c.sigHint = "equal", clean, "unknown-fields"
					cs = append(cs, c)
				}
				// the SimpleList form always (non-empty payload)
				f := append(append(mkHead(13, tag), mkHead(0, 0)...), append(mkCount(3), 1, 2, 3)...)
				c := mk("extras-tail", fmt.Sprintf("unknown byte vector at tag %d ending the input", tag), append(append([]byte(nil), b.bytes...), f...))
				c.expect, c.ref, c.sigHint = "equal", clean, "unknown-fields"
				cs = append(cs, c)
			}
		}
		// extras inside nested struct members
		for _, s := range b.spans {
			ft, _, ok := fieldTypeByTag(b.e.typ, s.Tag)
			if !ok || ft.Kind() != reflect.Struct || s.Ty != 10 || rng.Intn(2) == 0 {
				continue
			}
			inner := b.bytes[s.BodyStart : s.End-1] // between StructBegin head and StructEnd
			kids := make([]span, len(s.Kids))
			for i, k := range s.Kids {
				kids[i] = span{Start: k.Start - s.BodyStart, End: k.End - s.BodyStart, Tag: k.Tag}
			}
			ni := insertExtras(rng, inner, kids, schemaTags(ft), 1+rng.Intn(3))
			nb := append(append(append([]byte(nil), b.bytes[:s.BodyStart]...), ni...), b.bytes[s.End-1:]...)
			c := mk("extras-nested", fmt.Sprintf("unknown fields inside member tag %d", s.Tag), nb)
			c.expect, c.ref, c.sigHint = "equal", clean, "unknown-fields-nested"
			cs = append(cs, c)
		}
		// absent members
		for _, s := range b.spans {
			ft, req, ok := fieldTypeByTag(b.e.typ, s.Tag)
			if !ok || (!req && ft.Kind() != reflect.Struct && rng.Intn(2) == 0) { // required members and struct-typed members: always
				continue
			}
			nb := append(append([]byte(nil), b.bytes[:s.Start]...), b.bytes[s.End:]...)
			if req {
				c := mk("absent-required", fmt.Sprintf("member tag %d removed", s.Tag), nb)
				c.expect, c.sigHint = "err", "absent-required"
				cs = append(cs, c)
			} else {
				// expected: the input with that member at its reset value
				cp := b.e.mk()
				if obs, _ := gDecodeInto(cp, b.bytes); !strings.HasPrefix(obs, "OVal") {
					continue
				}
				def := b.e.mk()
				def.ResetDefault()
				for _, f := range fieldsOf(b.e.typ) {
					if f.Tag == s.Tag {
						reflect.ValueOf(cp).Elem().Field(f.Idx).Set(reflect.ValueOf(def).Elem().Field(f.Idx))
					}
				}
				c := mk("absent-optional", fmt.Sprintf("member tag %d removed", s.Tag), nb)
				c.expect, c.expObs, c.sigHint = "equal-obs", "OVal "+dumpVal(reflect.ValueOf(cp).Elem()), "absent-optional"
				cs = append(cs, c)
			}
		}
		// members removed INSIDE nested structs, at every nesting level (struct members, vector/array elements, map
		// keys and values): a required member that is absent is an error also when the search for it ends on the
		// nested struct's StructEnd; an absent optional member is judged by the model
		for _, nr := range nestedRemovals(b.e.typ, b.spans, b.bytes) {
			if !nr.last && rng.Intn(3) != 0 {
				continue
			}
			c := mk(nr.kind, nr.note, nr.bytes)
			if nr.req {
				c.expect, c.sigHint = "err", nr.kind
			} else {
				c.expect = "any"
			}
			cs = append(cs, c)
		}
		// reused target
		for i := 0; i < 2; i++ {
			c := mk("reuse", "decode into a target holding a previous value", b.bytes)
			c.g.Kind = "reuse"
			c.seed = rng.Int63() | 1
			c.expect, c.ref, c.sigHint = "equal", clean, "reused-target"
			cs = append(cs, c)
		}
		// ... and the same for the mutated inputs of this base (unknown fields, members removed at any level): decoding
		// ANY bytes into a used target gives what decoding them into a fresh target gives (value or error alike)
		for j, n := clean+1, len(cs); j < n; j++ {
			o := cs[j]
			if o.g.Kind != "dec" {
				continue
			}
			absent := strings.Contains(o.g.Class, "absent-optional")
			if !absent && rng.Intn(3) != 0 {
				continue
			}
			c := mk("reuse-mutated", "decode into a target holding a previous value: "+o.g.Note, o.g.Bytes)
			c.g.Kind = "reuse"
			c.seed = rng.Int63() | 1
			c.expect, c.ref, c.sigHint = "equal", j, "reused-target"
			cs = append(cs, c)
		}
	}
	return cs
}

func init() {
	props["C06"] = func(a Args) {
		runMProp("C06", "Corr.dec_check (decode = generated ReadFrom on truncated / inflated / mistyped encodings: same outcome class and value)",
			"valid encodings of random values of every generated struct type, then: every proper prefix (all when <= 24 bytes (thorough 120), else sampled incl. cuts inside heads, lengths and bodies) judged against the decode of the complete leading fields; every embedded string length and list/map/simple-list count inflated beyond what remains (+1, +65536/+40000) and every count replaced by a negative one (-1, -32768, -2^31); top-level members replaced by a well-formed field of an inadmissible wire type; codec.Reader.ReadSliceInt8/Uint8 called directly with lengths -2^31..2^31-1 around 0 and the bytes left, into a slice holding other content; class = (mutation kind, struct type)",
			a, c06Gen, 10000)
	}
	props["C04"] = func(a Args) {
		runMProp("C04", "Corr.dec_check / reuse_check (decode = generated ReadFrom with unknown fields inserted, members removed, target reused)",
			"valid encodings of random values of every generated struct type, then: 1-5 well-formed unknown fields of random wire types (nested struct/list/map/simple list, STRING4, extended tags) inserted at the positions tag order allows, at top level and inside nested struct members; each member removed (required -> error, optional -> default) at top level and inside every nested struct value (struct members, vector/array elements, map keys/values; a required member also together with everything behind it, so that the search ends on the StructEnd); decode into a target pre-filled with another random value - the clean encoding and the mutated ones (extras, members removed) alike, judged against the decode of the same bytes into a fresh target; class = (kind, struct type)",
			a, c04Gen, 10000)
	}
}
