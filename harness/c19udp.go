package main

// C19 — the pool behind the UDP handler: a real transport.TarsServer (udp, MaxInvoke = W, QueueCap = Q) on a loopback port;
// every datagram read by udpHandler.Handle becomes a job on the handler's pool (udphandler.go: handleUDPAddr ->
// pool.JobQueue <- handler, a BLOCKING send: under overload the read loop waits and the datagrams stay in the socket buffer).
// The protocol's Invoke logs start / end; the client logs the call before it sends a datagram. Bursts are small (<= 64
// datagrams of 12 bytes), far below what the loopback socket buffer holds, so nothing is dropped and every datagram must
// be handled exactly once. The UDP handler never releases its pool, so the trace has no release events.
// Same trace format, monitors and Coq validator as the other scenarios.

import (
	"encoding/binary"
	"fmt"
	"math/rand"
	"net"
	"sync"
	"sync/atomic"
	"time"

	"github.com/TarsCloud/TarsGo/tars/transport"
	"github.com/TarsCloud/TarsGo/tars/util/rogger"
)

func c19RunUDP(sc c19Scenario) c19ChildOut {
	rogger.SetLevel(rogger.OFF)
	var out c19ChildOut
	var mu sync.Mutex
	fail := func(sig, desc string) {
		mu.Lock()
		out.Fails = append(out.Fails, Failure{Sig: sig, Desc: desc})
		mu.Unlock()
	}
	gated := sc.Mode == "udp-saturated"
	if gated { // more than the workers + the dispatcher + the queue + the blocked read loop can absorb
		sc.Subs = 1
		sc.Jobs = sc.W + 1 + sc.Q + 1 + 6
	}
	total := sc.Subs * sc.Jobs
	lg := &c19Log{ev: make([]int64, 4*total+64)}
	rng := rand.New(rand.NewSource(sc.Seed))
	p := &c19Proto{lg: lg, gate: make(chan struct{}), gated: gated, durOf: make([]int, total+1), count: make([]int32, total+1), noReply: true}
	for i := range p.durOf {
		d := sc.Dur
		if d == 4 {
			d = rng.Intn(4)
		}
		if gated && d == 3 {
			d = 2
		}
		p.durOf[i] = d
	}
	var phase atomic.Value
	phase.Store("listen")
	done := make(chan struct{})
	go func() {
		defer close(done)
		var ts *transport.TarsServer
		var addr string
		for try := 0; ; try++ {
			l, err := net.ListenPacket("udp4", "127.0.0.1:0")
			if err != nil {
				out.Note = "skipped: no loopback udp socket: " + err.Error()
				return
			}
			addr = l.LocalAddr().String()
			l.Close()
			ts = transport.NewTarsServer(p, &transport.TarsServerConf{Proto: "udp", Address: addr, MaxInvoke: int32(sc.W), QueueCap: sc.Q})
			if err := ts.Listen(); err == nil {
				break
			} else if try >= 5 {
				out.Note = "skipped: cannot listen: " + err.Error()
				return
			}
		}
		go ts.Serve()
		phase.Store("send")
		var sendWG sync.WaitGroup
		for k := 0; k < sc.Subs; k++ {
			c, err := net.Dial("udp4", addr)
			if err != nil {
				fail("C19/hang/udp-dial", "cannot open a client socket: "+err.Error())
				return
			}
			defer c.Close()
			sendWG.Add(1)
			go func(k int, c net.Conn) {
				defer sendWG.Done()
				for i := 0; i < sc.Jobs; i++ {
					id := k*sc.Jobs + i + 1
					pkt := make([]byte, 12)
					binary.BigEndian.PutUint32(pkt[0:4], 12)
					binary.BigEndian.PutUint32(pkt[4:8], uint32(id))
					lg.add(c19KSubCall, id)
					if _, err := c.Write(pkt); err != nil {
						fail("C19/hang/udp-write", "sending a datagram failed: "+err.Error())
						return
					}
				}
			}(k, c)
		}
		wait := func(cond func() bool) bool {
			t0 := time.Now()
			for !cond() {
				if time.Since(t0) > c19Slack {
					return false
				}
				time.Sleep(200 * time.Microsecond)
			}
			return true
		}
		sendWG.Wait()
		if gated {
			phase.Store("saturate")
			if !wait(func() bool { return atomic.LoadInt32(&p.running) >= int32(sc.W) }) {
				fail("C19/hang/saturate", fmt.Sprintf("only %d of W=%d workers picked up a datagram within %v", atomic.LoadInt32(&p.running), sc.W, c19Slack))
				close(p.gate)
				return
			}
			// every datagram is in the socket buffer or further: whatever runs beyond the W workers shows up now
			time.Sleep(30 * time.Millisecond)
			if r := atomic.LoadInt32(&p.running); r > int32(sc.W) {
				fail("C19/parallelism-exceeded", fmt.Sprintf("%d handlers are inside Invoke at the same time on a UDP server with MaxInvoke=%d (QueueCap=%d, burst of %d datagrams)", r, sc.W, sc.Q, total))
			}
			close(p.gate)
		}
		phase.Store("jobs")
		out.Complete = true
		if !wait(func() bool { return atomic.LoadInt32(&p.ended) >= int32(total) }) {
			fail("C19/hang/all-jobs-finished", fmt.Sprintf("only %d of %d datagrams were handled within %v (W=%d Q=%d mode=%s)", atomic.LoadInt32(&p.ended), total, c19Slack, sc.W, sc.Q, sc.Mode))
			return
		}
		phase.Store("settle")
		time.Sleep(3 * time.Millisecond)
	}()
	select {
	case <-done:
	case <-time.After(5 * c19Slack):
		fail("C19/hang/scenario", fmt.Sprintf("scenario stuck in phase %v", phase.Load()))
	}
	out.Trace = lg.snapshot()
	out.HighWater = int(atomic.LoadInt32(&p.high))
	if out.Note == "" {
		out.Note = fmt.Sprint(phase.Load())
	}
	out.Fails = append(out.Fails, c19Monitor(sc, out.Trace, out.Complete, out.HighWater)...)
	if out.Complete {
		for id := 1; id <= total; id++ {
			if n := atomic.LoadInt32(&p.count[id]); n != 1 {
				fail("C19/job-not-run-exactly-once", fmt.Sprintf("datagram %d was handled %d times (W=%d Q=%d mode=%s)", id, n, sc.W, sc.Q, sc.Mode))
				break
			}
		}
	}
	return out
}
