package main

// C07 — the real receive loops (tcpHandler.recv, connection.recv) driven through a scripted net.Conn
// whose Read returns exactly the scripted chunks.

import (
	"bytes"
	"context"
	"encoding/binary"
	"encoding/json"
	"fmt"
	"io"
	"math/rand"
	"net"
	"strings"
	"sync"
	"time"

	"github.com/TarsCloud/TarsGo/tars"
	"github.com/TarsCloud/TarsGo/tars/protocol"
	"github.com/TarsCloud/TarsGo/tars/protocol/res/requestf"
	"github.com/TarsCloud/TarsGo/tars/transport"
)

type scriptConn struct {
	mu     sync.Mutex
	chunks [][]byte
	i      int
	eof    bool
	closed bool
	wrote  int
	hookAt int    // index of the (empty) chunk before whose timeout event hook runs; -1 = none
	hook   func() // runs once, outside the lock
}

func (c *scriptConn) Read(p []byte) (int, error) {
	c.mu.Lock()
	if c.hook != nil && c.i == c.hookAt {
		h := c.hook
		c.hook = nil
		c.mu.Unlock()
		h()
		c.mu.Lock()
	}
	defer c.mu.Unlock()
	if c.closed {
		return 0, net.ErrClosed
	}
	if c.i < len(c.chunks) && len(c.chunks[c.i]) == 0 { // scripted read timeout (deadline fired, no data)
		c.i++
		return 0, timeoutErr{}
	}
	if c.i < len(c.chunks) {
		n := copy(p, c.chunks[c.i])
		if n < len(c.chunks[c.i]) { // never happens: chunks are <= 4096
			c.chunks[c.i] = c.chunks[c.i][n:]
		} else {
			c.i++
		}
		return n, nil
	}
	c.eof = true
	return 0, io.EOF
}
func (c *scriptConn) Write(p []byte) (int, error) {
	c.mu.Lock()
	c.wrote++
	c.mu.Unlock()
	return len(p), nil
}
func (c *scriptConn) Close() error                     { c.mu.Lock(); c.closed = true; c.mu.Unlock(); return nil }
func (c *scriptConn) LocalAddr() net.Addr              { return &net.TCPAddr{IP: net.IPv4(127, 0, 0, 1), Port: 1} }
func (c *scriptConn) RemoteAddr() net.Addr             { return &net.TCPAddr{IP: net.IPv4(127, 0, 0, 1), Port: 2} }
func (c *scriptConn) SetDeadline(time.Time) error      { return nil }
func (c *scriptConn) SetReadDeadline(time.Time) error  { return nil }
func (c *scriptConn) SetWriteDeadline(time.Time) error { return nil }

type timeoutErr struct{}

func (timeoutErr) Error() string   { return "i/o timeout (scripted)" }
func (timeoutErr) Timeout() bool   { return true }
func (timeoutErr) Temporary() bool { return true }

type recProto struct {
	mu     sync.Mutex
	pkgs   [][]byte
	client bool
	adapter bool         // client side: frame with the real AdapterProxy.ParsePackage (what a ServantProxy's transport client calls)
	slow   time.Duration // server side: time one Invoke takes
}

// the framing functions the real endpoints use: the server's tars.Protocol.ParsePackage and the client's
// protocol.TarsProtocol.ParsePackage (both are thin wrappers of protocol.TarsRequest on the unchanged tree)
var (
	c07ServerProto = tars.VerifNewProtocol(nil, nil, false)
	c07ClientProto = &protocol.TarsProtocol{}
)

// c07Adapter: the adapter proxy of a real ServantProxy for a direct endpoint (nothing is dialled: only its ParsePackage is used)
var (
	c07AdpOnce sync.Once
	c07Adp     *tars.AdapterProxy
)

func c07Adapter() *tars.AdapterProxy {
	c07AdpOnce.Do(func() {
		comm := tars.NewCommunicator()
		h := &c09Holder{}
		comm.StringToProxy("VerifApp.C07Server.C07Obj@tcp -h 127.0.0.1 -p 1 -t 60000", h)
		if sp, ok := h.s.(*tars.ServantProxy); ok {
			sp.TarsSetTimeout(300)
			// the adapter learns its proxy in doInvoke: one one-way call to a port that refuses connections
			_ = sp.TarsInvoke(context.Background(), 1, "noop", []byte{}, nil, nil, &requestf.ResponsePacket{})
			c07Adp = tars.VerifWarmAdapter(sp)
		}
	})
	return c07Adp
}

func (r *recProto) add(pkg []byte) {
	r.mu.Lock()
	r.pkgs = append(r.pkgs, append([]byte(nil), pkg...))
	r.mu.Unlock()
}
func (r *recProto) Invoke(ctx context.Context, pkg []byte) []byte {
	r.add(pkg)
	if r.slow > 0 {
		time.Sleep(r.slow)
	}
	return []byte{0, 0, 0, 4}
}
func (r *recProto) ParsePackage(b []byte) (int, int) {
	if r.adapter {
		return c07Adapter().ParsePackage(b)
	}
	if r.client {
		return c07ClientProto.ParsePackage(b)
	}
	return c07ServerProto.ParsePackage(b)
}
func (r *recProto) InvokeTimeout(pkg []byte) []byte  { return []byte{0, 0, 0, 4} }
func (r *recProto) GetCloseMsg() []byte              { return []byte{0, 0, 0, 4} }
func (r *recProto) DoClose(ctx context.Context)      {}
func (r *recProto) Recv(pkg []byte)                  { r.add(pkg) }

type c07Case struct {
	Side      string `json:"side"` // server-pool1 | server-pool1q1 | server-nopool | client
	Max       int    `json:"max"`
	Chunks    []B    `json:"chunks"`
	Sent      []B    `json:"sent"`   // packets the generator put into the stream (valid ones before the first illegal prefix)
	BadAt     int    `json:"bad_at"` // index of the first illegal packet in the generated stream, -1 = none
	Tail      B      `json:"tail"`   // trailing proper prefix (not delivered), may be empty
	Delivered []B    `json:"delivered"`
	ClosedErr bool   `json:"closed_err"`
	Kind      string `json:"kind"`
	ShutAt    int    `json:"shut_at,omitempty"` // server-shutdown: index of the timeout event at which the server is marked closed
}

func c07Run(c *c07Case) []Failure {
	protocol.SetMaxPackageLength(c.Max)
	conn := &scriptConn{chunks: cloneChunks(fromB(c.Chunks)), hookAt: -1}
	rec := &recProto{client: c.Side == "client" || c.Side == "client-adapter", adapter: c.Side == "client-adapter"}
	switch c.Side {
	case "server-pool1":
		transport.VerifServerRecv(rec, &transport.TarsServerConf{Proto: "tcp", Address: "127.0.0.1:0", MaxInvoke: 1, QueueCap: 1000, IdleTimeout: time.Hour, ReadTimeout: time.Second}, conn)
	case "server-pool1q1": // one worker, a queue of one, slow handlers: bursts fill the queue and the receive loop has to wait
		rec.slow = 3 * time.Millisecond
		transport.VerifServerRecv(rec, &transport.TarsServerConf{Proto: "tcp", Address: "127.0.0.1:0", MaxInvoke: 1, QueueCap: 1, IdleTimeout: time.Hour, ReadTimeout: time.Second}, conn)
	case "server-shutdown": // graceful shutdown begins while a packet is half received: the loop keeps reading until it is complete
		var srv *transport.TarsServer
		conn.hookAt, conn.hook = c.ShutAt, func() { transport.VerifC12StoreClosed(srv) }
		transport.VerifServerRecvOn(rec, &transport.TarsServerConf{Proto: "tcp", Address: "127.0.0.1:0", MaxInvoke: 1, QueueCap: 1000, IdleTimeout: time.Hour, ReadTimeout: time.Second}, conn,
			func(ts *transport.TarsServer) { srv = ts })
	case "server-nopool":
		transport.VerifServerRecv(rec, &transport.TarsServerConf{Proto: "tcp", Address: "127.0.0.1:0", IdleTimeout: time.Hour, ReadTimeout: time.Second}, conn)
	case "client", "client-adapter":
		transport.VerifClientRecv(rec, &transport.TarsClientConf{Proto: "tcp", QueueLen: 10, ReadTimeout: time.Second, IdleTimeout: time.Hour}, conn)
	}
	// handlers run in goroutines: wait until the count is stable
	want := len(c.Sent)
	for k := 0; k < 400; k++ {
		rec.mu.Lock()
		n := len(rec.pkgs)
		rec.mu.Unlock()
		if n >= want {
			break
		}
		time.Sleep(5 * time.Millisecond)
	}
	time.Sleep(10 * time.Millisecond)
	rec.mu.Lock()
	c.Delivered = toB(rec.pkgs)
	rec.mu.Unlock()
	conn.mu.Lock()
	c.ClosedErr = !conn.eof
	closed := conn.closed
	conn.mu.Unlock()
	var fs []Failure
	ordered := c.Side == "server-pool1" || c.Side == "server-pool1q1" || c.Side == "server-shutdown"
	if !ordered { // hand-over order is not observable (one goroutine per packet): compare as multisets in sent order
		c.Delivered = toB(reorderLike(fromB(c.Delivered), fromB(c.Sent)))
	}
	// L3: delivered = sent (each once, complete, in order)
	if !eqPackets(fromB(c.Delivered), fromB(c.Sent)) {
		fs = append(fs, Failure{Sig: "framing/" + c.Side + "/delivered-differs", Desc: fmt.Sprintf("delivered %d packets, sent %d valid packets before any illegal prefix; contents/order differ (max=%d kind=%s)", len(c.Delivered), len(c.Sent), c.Max, c.Kind)})
	}
	if c.BadAt >= 0 && !c.ClosedErr {
		fs = append(fs, Failure{Sig: "framing/" + c.Side + "/illegal-length-not-closed", Desc: fmt.Sprintf("stream contains an illegal length prefix at packet %d but the loop kept reading to EOF (max=%d)", c.BadAt, c.Max)})
	}
	if c.BadAt < 0 && c.ClosedErr {
		fs = append(fs, Failure{Sig: "framing/" + c.Side + "/legal-stream-closed", Desc: fmt.Sprintf("stream of legal packets was closed as a protocol error (max=%d kind=%s)", c.Max, c.Kind)})
	}
	if !closed {
		fs = append(fs, Failure{Sig: "framing/" + c.Side + "/conn-not-closed-at-exit", Desc: "receive loop returned without closing its connection"})
	}
	return fs
}

func cloneChunks(l [][]byte) [][]byte {
	o := make([][]byte, len(l))
	for i := range l {
		o[i] = append([]byte(nil), l[i]...)
	}
	return o
}

func eqPackets(a, b [][]byte) bool {
	if len(a) != len(b) {
		return false
	}
	for i := range a {
		if !bytes.Equal(a[i], b[i]) {
			return false
		}
	}
	return true
}

// reorderLike returns got permuted so that it follows the order of ref where possible (stable multiset match);
// unmatched packets are appended in their original order.
func reorderLike(got, ref [][]byte) [][]byte {
	used := make([]bool, len(got))
	var out [][]byte
	for _, r := range ref {
		for i, g := range got {
			if !used[i] && bytes.Equal(g, r) {
				used[i] = true
				out = append(out, g)
				break
			}
		}
	}
	for i, g := range got {
		if !used[i] {
			out = append(out, g)
		}
	}
	return out
}

func mkPacket(rng *rand.Rand, total int, seq int) []byte {
	p := make([]byte, total)
	binary.BigEndian.PutUint32(p, uint32(total))
	for i := 4; i < total; i++ {
		p[i] = byte(rng.Intn(256))
	}
	if total >= 8 { // sequence number makes packets distinguishable
		binary.BigEndian.PutUint32(p[4:], uint32(seq))
	}
	return p
}

func partition(rng *rand.Rand, stream []byte, mode string) [][]byte {
	var out [][]byte
	switch mode {
	case "single":
		for _, b := range stream {
			out = append(out, []byte{b})
		}
	case "coalesced":
		for len(stream) > 0 {
			n := 4096
			if n > len(stream) {
				n = len(stream)
			}
			out = append(out, stream[:n])
			stream = stream[n:]
		}
	case "header-cut": // cut inside every 4-byte region with small pieces
		for len(stream) > 0 {
			n := 1 + rng.Intn(3)
			if rng.Intn(3) == 0 {
				n = 1 + rng.Intn(40)
			}
			if n > len(stream) {
				n = len(stream)
			}
			out = append(out, stream[:n])
			stream = stream[n:]
		}
	default: // random
		for len(stream) > 0 {
			n := 1 + rng.Intn(4096)
			if rng.Intn(2) == 0 {
				n = 1 + rng.Intn(16)
			}
			if n > len(stream) {
				n = len(stream)
			}
			out = append(out, stream[:n])
			stream = stream[n:]
		}
	}
	return out
}

func c07Gen(tier string, rng *rand.Rand) []c07Case {
	var cs []c07Case
	n := 60
	if tier == "thorough" {
		n = 650
	}
	maxes := []int{4, 5, 8, 64, 300, 4096, 10485760, 2147483647, 2147483648, 4294967295}
	sides := []string{"server-pool1", "server-nopool", "client", "server-pool1q1", "client-adapter"}
	modes := []string{"single", "coalesced", "header-cut", "random"}
	for _, max := range maxes {
		for it := 0; it < n; it++ {
			side := sides[it%5]
			mode := modes[(it/5)%4]
			npk := 1 + rng.Intn(12)
			if mode == "single" {
				npk = 1 + rng.Intn(5)
			}
			kind := []string{"legal", "legal", "tail", "bad-short", "bad-long", "bad-huge", "exact-max", "max-plus-one"}[rng.Intn(8)]
			var stream []byte
			c := c07Case{Side: side, Max: max, BadAt: -1, Kind: kind + "/" + mode}
			sz := func() int {
				lim := max
				if lim > 90 {
					lim = 90
				}
				switch rng.Intn(6) {
				case 0:
					return 4
				case 1:
					if max <= 300 {
						return max
					}
					return 4 + rng.Intn(lim-3)
				case 2:
					if max > 4 && max <= 300 {
						return max - 1
					}
				}
				return 4 + rng.Intn(lim-3)
			}
			for k := 0; k < npk; k++ {
				p := mkPacket(rng, sz(), k)
				if kind == "exact-max" && k == npk-1 && max <= 5000 {
					p = mkPacket(rng, max, k)
				}
				c.Sent = append(c.Sent, p)
				stream = append(stream, p...)
			}
			switch kind {
			case "tail":
				p := mkPacket(rng, sz(), 99)
				cut := rng.Intn(len(p)) // proper prefix, possibly empty
				c.Tail = p[:cut]
				stream = append(stream, c.Tail...)
			case "bad-short", "bad-long", "bad-huge", "max-plus-one":
				var l uint32
				switch kind {
				case "bad-short":
					l = uint32(rng.Intn(4))
				case "bad-long":
					l = uint32(max + 1 + rng.Intn(1000))
				case "bad-huge":
					l = []uint32{0xffffffff, 0x80000000, 0x7fffffff, 0xfffffffc}[rng.Intn(4)]
				case "max-plus-one":
					l = uint32(max + 1)
				}
				if v := int64(max) + 1; (kind == "bad-long" || kind == "max-plus-one") && v+1000 > 0xffffffff { // no 32-bit prefix exceeds this limit
					l = uint32(rng.Intn(4))
				}
				bad := make([]byte, 4)
				binary.BigEndian.PutUint32(bad, l)
				if l < 4 || int64(l) > int64(max) {
					c.BadAt = len(c.Sent)
				} // else (huge limits only): a legal prefix of a packet that never completes - a tail, nothing is closed
				stream = append(stream, bad...)
				// junk after the illegal prefix, including well-formed packets that must not be delivered
				junk := mkPacket(rng, 4+rng.Intn(20), 1000)
				if max >= 24 {
					stream = append(stream, junk...)
				}
				stream = append(stream, byte(rng.Intn(256)))
			}
			if len(stream) > 9000 { // keep case files small
				continue
			}
			chunks := partition(rng, stream, mode)
			if rng.Intn(2) == 0 { // read deadlines firing between (and before) data reads: empty chunk = timeout event
				var withTo [][]byte
				for _, ch := range chunks {
					for rng.Intn(4) == 0 {
						withTo = append(withTo, []byte{})
					}
					withTo = append(withTo, ch)
				}
				if rng.Intn(2) == 0 {
					withTo = append(withTo, []byte{})
				}
				chunks = withTo
				c.Kind += "+timeouts"
			}
			c.Chunks = toB(chunks)
			cs = append(cs, c)
		}
	}
	// streams that end exactly on the boundary of a full read (the loops read into a 4096-byte buffer): the last
	// read returns exactly 4096 bytes and nothing follows
	for _, side := range sides {
		for _, spec := range []struct{ max, psize, total int }{{4096, 4096, 4096}, {10485760, 8192, 8192}, {10485760, 4096, 8192}, {64, 64, 4096}, {300, 32, 4096}, {4096, 2048, 8192}, {10485760, 1024, 4096}} {
			c := c07Case{Side: side, Max: spec.max, BadAt: -1, Kind: "legal/full-reads"}
			var stream []byte
			for k := 0; len(stream) < spec.total; k++ {
				p := mkPacket(rng, spec.psize, k)
				c.Sent = append(c.Sent, p)
				stream = append(stream, p...)
			}
			c.Chunks = toB(partition(rng, stream, "coalesced"))
			cs = append(cs, c)
		}
	}
	// a large packet (beyond any internal buffer size one might choose: 70-200 KiB) followed immediately by small ones, so that
	// the large packet does not end on a read boundary
	for i, side := range sides {
		for j, mode := range []string{"coalesced", "random"} {
			c := c07Case{Side: side, Max: 10485760, BadAt: -1, Kind: "legal/large-then-small/" + mode}
			var stream []byte
			for k, sz := range []int{70000 + rng.Intn(130000), 8 + rng.Intn(40), 4 + rng.Intn(60)} {
				p := mkPacket(rng, sz, k)
				c.Sent = append(c.Sent, p)
				stream = append(stream, p...)
			}
			c.Chunks = toB(partition(rng, stream, mode))
			if tier == "thorough" || (i+j)%2 == 0 {
				cs = append(cs, c)
			}
		}
	}
	// a packet of exactly the default maximum (10 MiB) with small neighbours in the same reads, on every side (monitor only)
	for i, side := range sides {
		if tier != "thorough" && i%2 == 1 {
			continue
		}
		c := c07Case{Side: side, Max: 10485760, BadAt: -1, Kind: "legal/large-then-small/exact-default-max"}
		var stream []byte
		for k, sz := range []int{16, 10485760, 24, 9} {
			p := mkPacket(rng, sz, k)
			c.Sent = append(c.Sent, p)
			stream = append(stream, p...)
		}
		c.Chunks = toB(partition(rng, stream, "coalesced"))
		cs = append(cs, c)
	}
	// graceful shutdown while a packet is half received (server side): the stream ends with that packet; the server is
	// marked closed at a read timeout that fires inside it (after 1..len-1 of its bytes), further timeouts may follow
	nsh := 12
	if tier == "thorough" {
		nsh = 150
	}
	for it := 0; it < nsh; it++ {
		max := []int{64, 300, 4096, 10485760}[it%4]
		c := c07Case{Side: "server-shutdown", Max: max, BadAt: -1, Kind: "legal/shutdown-inside-packet"}
		var stream []byte
		npk := 1 + rng.Intn(4)
		lim := max
		if lim > 90 {
			lim = 90
		}
		for k := 0; k < npk; k++ {
			p := mkPacket(rng, 5+rng.Intn(lim-4), k)
			c.Sent = append(c.Sent, p)
			stream = append(stream, p...)
		}
		last := fromB(c.Sent)[npk-1]
		cut := len(stream) - len(last) + 1 + rng.Intn(len(last)-1) // 1..len-1 bytes of the last packet are in
		chunks := partition(rng, stream[:cut], []string{"single", "coalesced", "header-cut", "random"}[it%4])
		c.ShutAt = len(chunks)
		chunks = append(chunks, []byte{}) // the timeout event at which the server is marked closed
		for _, ch := range partition(rng, stream[cut:], []string{"coalesced", "single", "random"}[it%3]) {
			if rng.Intn(3) == 0 {
				chunks = append(chunks, []byte{})
			}
			chunks = append(chunks, ch)
		}
		c.Chunks = toB(chunks)
		cs = append(cs, c)
	}
	return cs
}

func c07Coq(c *c07Case) string {
	if strings.HasPrefix(c.Kind, "legal/large-then-small") { // 100 KiB streams: judged by the monitor only (evaluating the model on them costs half a minute)
		return ""
	}
	return fmt.Sprintf("(%d, %s, %s, %s)", c.Max, hxB(c.Chunks), hxB(c.Delivered), coqBool(c.ClosedErr))
}

func init() {
	props["C07"] = func(a Args) {
		runProp(Prop[c07Case]{
			ID: "C07", Require: "From TarsV Require Import Base.Hex Frame.Framing.", CaseType: "c07_case",
			Mismatch: "failing_from c07_check", Corr: "Framing.c07_check (recv_loop = real tcpHandler.recv / connection.recv over a scripted net.Conn)",
			Rule:    "generated streams of 1-12 length-prefixed packets (sizes 4, max-1, max, random) for max in {4,5,8,64,300,4096,10485760,2^31-1,2^31,2^32-1}, optionally followed by a proper prefix or an illegal length prefix (0-3, max+1, >max, 2^31.., 2^32-1) plus junk, partitioned into reads as single bytes / coalesced 4096-byte reads / cuts inside headers / random; run through the real server loop (1-worker pool: ordered; 1-worker pool with a queue of one and 3 ms handlers, so that bursts fill the queue: ordered; no pool: multiset) and the real client loop; plus a real TCP server with a non-zero ReadTimeout whose peer pauses inside and between packets for several read timeouts; plus child processes that load a server configuration with maxPackageLength = N through the application's own initialisation and report the framing functions' verdicts on packets of N and N+1 bytes; plus server-side streams whose last packet is half received when graceful shutdown begins (server marked closed at a read timeout inside the packet); class = (side, max, stream kind, partition mode)",
			Shard:   80,
			Workers: 1, // maxPackageLength is process-global
			Gen:     c07Gen, Run: c07Run, Coq: c07Coq,
			Extra:   func(tier string, rng *rand.Rand, res *Result) { c07Reconnect(tier, rng, res); c07Config(tier, rng, res); c07Pauses(tier, rng, res) },
			ReplayExtra: func(raw json.RawMessage, res *Result) bool {
				var m map[string]interface{}
				if json.Unmarshal(raw, &m) != nil {
					return false
				}
				r := rand.New(rand.NewSource(1))
				if m["c07_pauses"] == true {
					c07Pauses("quick", r, res)
					return true
				}
				if m["c07_config"] == true {
					c07Config("quick", r, res)
					return true
				}
				return false
			},
			RunAll: func(cs []c07Case) [][]Failure {
				fails := make([][]Failure, len(cs))
				byMax := map[int][]int{}
				var order []int
				for i := range cs {
					if _, ok := byMax[cs[i].Max]; !ok {
						order = append(order, cs[i].Max)
					}
					byMax[cs[i].Max] = append(byMax[cs[i].Max], i)
				}
				for _, m := range order { // maxPackageLength is process-global: one max at a time, its cases in parallel
					var wg sync.WaitGroup
					sem := make(chan struct{}, 64)
					for _, i := range byMax[m] {
						wg.Add(1)
						sem <- struct{}{}
						go func(i int) { defer wg.Done(); fails[i] = c07Run(&cs[i]); <-sem }(i)
					}
					wg.Wait()
				}
				return fails
			},
			Class: func(c *c07Case) string { return fmt.Sprintf("%s/%d/%s", c.Side, c.Max, c.Kind) },
		}, a)
	}
}
