package main

// C10 — the server answers each well-formed request exactly once with matching identity.
//
// Parent side: generates scripted connections ("scenarios") per server configuration (worker pool 0/N, handle
// timeout 0/T), runs one child process per configuration (c10child.go: in-process server started through the
// public API with a TCP and a UDP adapter, scripted servant, raw client), collects what the server wrote back and
// how often the implementation was entered, evaluates the property monitor (L3) and renders every scenario as a
// case for the Coq model Rpc/Invoke.v (L2).

import (
	"bytes"
	"encoding/binary"
	"encoding/json"
	"fmt"
	"math"
	"math/rand"
	"os"
	"os/exec"
	"path/filepath"
	"sort"
	"strings"
	"sync"
	"syscall"
	"time"

	"github.com/TarsCloud/TarsGo/tars/protocol/codec"
	"github.com/TarsCloud/TarsGo/tars/protocol/res/basef"
	"github.com/TarsCloud/TarsGo/tars/protocol/res/requestf"
	"github.com/TarsCloud/TarsGo/tars/util/tools"
)

func init() {
	constGens = append(constGens, func() {
		fmt.Printf("Definition c_TARSVERSION := (%d)%%Z.\n", basef.TARSVERSION)
		fmt.Printf("Definition c_TUPVERSION := (%d)%%Z.\n", basef.TUPVERSION)
		fmt.Printf("Definition c_JSONVERSION := (%d)%%Z.\n", basef.JSONVERSION)
		fmt.Printf("Definition c_TARSNORMAL := (%d)%%Z.\n", basef.TARSNORMAL)
		fmt.Printf("Definition c_TARSONEWAY := (%d)%%Z.\n", basef.TARSONEWAY)
		fmt.Printf("Definition c_TARSSERVERSUCCESS := (%d)%%Z.\n", basef.TARSSERVERSUCCESS)
		fmt.Printf("Definition c_TARSSERVERQUEUETIMEOUT := (%d)%%Z.\n", basef.TARSSERVERQUEUETIMEOUT)
	})
	props["C10"] = c10Main
}

// The protocol's own values (Tars wire protocol), not read from the tree: the monitor judges the implementation
// against the protocol, the model reads the tree's values (Gen/Consts.v) and Props/C10.v pins them.
const (
	c10VerTars      int16 = 1
	c10VerTup       int16 = 3
	c10VerJSON      int16 = 5
	c10Normal       int8  = 0
	c10OneWay       int8  = 1
	c10QueueTimeout int32 = -6
	c10MsgDyed      int32 = 4
)

// ---------- data ----------
type c10Cfg struct {
	Pool int `json:"pool"` // maxroutine
	HT   int `json:"ht"`   // handletimeout in ms, 0 = none
	QCap int `json:"qcap"` // queuecap of the adapters: 0 = the usual large one (10000), n > 0 = n, -1 = none (unbuffered job queue)
}

func (c c10Cfg) queueCap() int {
	switch {
	case c.QCap == 0:
		return 10000
	case c.QCap < 0:
		return 0
	}
	return c.QCap
}

// script kinds of the servant's act()
const (
	c10KOk      = 0 // succeed: ret = code, echo = "e:" + msg
	c10KTarsErr = 1 // return &tars.Error{code, msg}
	c10KPlain   = 2 // return errors.New(msg)
	c10KOkCtx   = 3 // succeed and set a response context and status of one entry each
)

type c10Req struct {
	Ver     int16             `json:"ver"`
	PType   int8              `json:"ptype"`
	MType   int32             `json:"mtype"`
	ID      int32             `json:"id"`
	Servant string            `json:"servant"`
	Func    string            `json:"func"`
	Timeout int32             `json:"timeout"`
	Ctx     map[string]string `json:"ctx,omitempty"`
	Status  map[string]string `json:"status,omitempty"`
	// script (arguments of act)
	Token   int32  `json:"token"`
	Kind    int32  `json:"kind"`
	Code    int32  `json:"code"`
	Msg     B      `json:"msg"`
	SleepMs int32  `json:"sleep_ms"`
	Role    string `json:"role,omitempty"` // blocker | queued | ""
	Race    string `json:"race,omitempty"` // handle: runs for about the handle timeout; queue: own timeout is about the queueing time; both outcomes allowed
	Queued  int    `json:"queued"`         // queueing class handed to the model: 0 or the time the blockers ahead hold the workers (ms)
	Pkg     B      `json:"pkg"`
	Phase   int    `json:"phase_ms,omitempty"` // own-timeout scenarios: sent when the wall clock's millisecond part reaches this value (1..999)
	Pre     int32  `json:"pre_ms,omitempty"`   // sched scenarios: delay before Protocol.Invoke is entered (the goroutine is not scheduled)
	// observations
	Invoked int    `json:"invoked"`
	SendNs  int64  `json:"send_ns,omitempty"`  // wall clock just before the request was written (not later than its receipt)
	ReplyNs int64  `json:"reply_ns,omitempty"` // wall clock when its (first) reply was read (not earlier than Invoke's decision); 0 = no reply
	Events  string `json:"events,omitempty"`   // sched scenarios: order of S (Invoke entered) R (Invoke returned) T (InvokeTimeout called)
}

type c10Scn struct {
	Cfg    c10Cfg `json:"cfg"`
	UDP    bool   `json:"udp"`
	Kind   string `json:"kind"` // plain | queue | race-handle | race-queue | sched (own TarsServer around a recording protocol wrapper)
	Conns  int    `json:"conns"`
	Chunks []int  `json:"chunks,omitempty"` // TCP write sizes (cyclic)
	// halfclose scenarios (TCP): connection 0 carries the blockers and stays open; every other connection sends its
	// requests StaggerMs later, then shuts down its sending side (FIN) and keeps reading until the server closes
	HalfClose bool `json:"half_close,omitempty"`
	// large bursts: judged by the monitor only (the Coq evaluation of megabytes of hex literals does not fit the quick tier)
	NoModel bool `json:"no_model,omitempty"`
	// TCP: pause after every write, so that the server's read really ends where the write ended
	ChunkPauseMs int `json:"chunk_pause_ms,omitempty"`
	// runs alone in its child, before the concurrent scenarios: its requests must find idle workers and an empty queue
	Exclusive bool     `json:"exclusive,omitempty"`
	StaggerMs int      `json:"stagger_ms,omitempty"`
	Reqs      []c10Req `json:"reqs"`
	// observations
	Obs       []B      `json:"obs"`              // every reply the server wrote, in arrival order over all connections
	ObsNs     []int64  `json:"obs_ns,omitempty"` // per reply: when it was read
	ObsConn   []int    `json:"obs_conn"`         // per reply: the connection (socket) it arrived on; request i was sent on connection i mod conns
	PingCalls int      `json:"ping_calls"`       // calls of the servant's own tars_ping during this scenario
	Tries     int      `json:"tries"`
	Retried   []string `json:"retried,omitempty"` // monitor failures of earlier tries that did not reproduce
	Err       string   `json:"err,omitempty"`     // scenario could not be run (socket errors)
	Note      string   `json:"note,omitempty"`
}

func c10IsKnownVer(v int16) bool {
	return v == c10VerTars || v == c10VerTup || v == c10VerJSON
}

// ---------- TUP attribute maps (map<string, vector<byte>> at tag 0), written and read here with the codec primitives
// only: the harness's requests and its reading of replies do not depend on the tree's tup package ----------
type c10TupEntry struct {
	K string
	V []byte
}

func c10TupEncode(es []c10TupEntry) []byte {
	b := codec.NewBuffer()
	b.WriteHead(codec.MAP, 0)
	b.WriteInt32(int32(len(es)), 0)
	for _, e := range es {
		b.WriteString(e.K, 0)
		b.WriteHead(codec.SimpleList, 1)
		b.WriteHead(codec.BYTE, 0)
		b.WriteInt32(int32(len(e.V)), 0)
		b.WriteBytes(e.V)
	}
	return b.ToBytes()
}

func c10TupDecode(buf []byte) (map[string][]byte, error) {
	rd := codec.NewReader(buf)
	if _, err := rd.SkipTo(codec.MAP, 0, true); err != nil {
		return nil, err
	}
	var n int32
	if err := rd.ReadInt32(&n, 0, true); err != nil {
		return nil, err
	}
	if n < 0 || int(n) > len(buf) {
		return nil, fmt.Errorf("entry count %d", n)
	}
	out := map[string][]byte{}
	for i := int32(0); i < n; i++ {
		var k string
		if err := rd.ReadString(&k, 0, true); err != nil {
			return nil, err
		}
		if _, err := rd.SkipTo(codec.SimpleList, 1, true); err != nil {
			return nil, err
		}
		if _, err := rd.SkipTo(codec.BYTE, 0, true); err != nil {
			return nil, err
		}
		var l int32
		if err := rd.ReadInt32(&l, 0, true); err != nil {
			return nil, err
		}
		if l < 0 || int(l) > len(buf) {
			return nil, fmt.Errorf("value length %d", l)
		}
		var v []byte
		if l > 0 {
			if err := rd.ReadBytes(&v, l, true); err != nil {
				return nil, err
			}
		}
		out[k] = v
	}
	return out, nil
}

func c10Enc(f func(b *codec.Buffer)) []byte {
	b := codec.NewBuffer()
	f(b)
	return b.ToBytes()
}

// ---------- the scripted functions of harness/idl/c10.tars: one per shape of signature ----------
type c10Param struct {
	Name string
	Str  bool // string (else int)
	Out  bool
}
type c10Shape struct {
	Ret    bool
	Params []c10Param
}

func c10P(spec string) []c10Param { // "token kind code msg sleepMs >echo >n"
	var ps []c10Param
	for _, w := range strings.Fields(spec) {
		out := strings.HasPrefix(w, ">")
		w = strings.TrimPrefix(w, ">")
		ps = append(ps, c10Param{Name: w, Str: w == "msg" || w == "echo", Out: out})
	}
	return ps
}

var c10Shapes = map[string]c10Shape{
	"act":    {true, c10P("token kind code msg sleepMs >echo")},
	"notify": {false, c10P("token kind code msg sleepMs")},
	"fetch":  {false, c10P("token kind code msg sleepMs >echo >n")},
	"calc":   {true, c10P("token kind code msg sleepMs")},
	"mixed":  {true, c10P("token >echo kind code >n msg sleepMs")},
}
var c10ShapeNames = []string{"act", "notify", "fetch", "calc", "mixed"}

func c10PickFn(rng *rand.Rand) string { return c10ShapeNames[rng.Intn(len(c10ShapeNames))] }

func c10Scripted(fn string) bool { _, ok := c10Shapes[fn]; return ok }

// value of a parameter: in parameters from the request's script, out parameters / return value as the servant computes them
func c10ParamInt(q *c10Req, name string) int32 {
	switch name {
	case "token":
		return q.Token
	case "kind":
		return q.Kind
	case "code":
		return q.Code
	case "sleepMs":
		return q.SleepMs
	case "n":
		return q.Token ^ 0x5a5a
	}
	return 0
}
func c10ParamStr(q *c10Req, name string) string {
	if name == "echo" {
		return "e:" + string(q.Msg)
	}
	return string(q.Msg)
}
func c10EncParam(q *c10Req, p c10Param, tag byte) []byte {
	return c10Enc(func(b *codec.Buffer) {
		if p.Str {
			b.WriteString(c10ParamStr(q, p.Name), tag)
		} else {
			b.WriteInt32(c10ParamInt(q, p.Name), tag)
		}
	})
}

// ---------- request encoding (reference encoders: the repository's codec primitives, encoding/json) ----------
func c10ArgsPayload(q *c10Req) []byte {
	sh, ok := c10Shapes[q.Func]
	if !ok {
		switch q.Ver {
		case c10VerTup:
			return c10TupEncode(nil)
		case c10VerJSON:
			return []byte("{}")
		}
		return nil
	}
	switch q.Ver {
	case c10VerTup:
		var es []c10TupEntry
		for _, p := range sh.Params {
			if !p.Out {
				es = append(es, c10TupEntry{p.Name, c10EncParam(q, p, 0)})
			}
		}
		// any entry order is a well-formed request: rotate by the token
		k := int(q.Token) % len(es)
		return c10TupEncode(append(append([]c10TupEntry{}, es[k:]...), es[:k]...))
	case c10VerJSON:
		m := map[string]interface{}{}
		for _, p := range sh.Params {
			if p.Out {
				continue
			}
			if p.Str {
				m[p.Name] = c10ParamStr(q, p.Name)
			} else {
				m[p.Name] = c10ParamInt(q, p.Name)
			}
		}
		j, _ := json.Marshal(m)
		return j
	}
	// TARS (and, for the extended stream, any other version: the dispatcher refuses those before reading):
	// every in parameter at the tag of its position in the signature
	var out []byte
	for i, p := range sh.Params {
		if !p.Out {
			out = append(out, c10EncParam(q, p, byte(i+1))...)
		}
	}
	return out
}

func c10Frame(body []byte) []byte {
	out := make([]byte, 4, 4+len(body))
	out = append(out, body...)
	binary.BigEndian.PutUint32(out, uint32(len(out)))
	return out
}

func c10Encode(q *c10Req) {
	p := requestf.RequestPacket{IVersion: q.Ver, CPacketType: q.PType, IMessageType: q.MType, IRequestId: q.ID,
		SServantName: q.Servant, SFuncName: q.Func, SBuffer: tools.ByteToInt8(c10ArgsPayload(q)), ITimeout: q.Timeout,
		Context: q.Ctx, Status: q.Status}
	b := codec.NewBuffer()
	p.WriteTo(b)
	q.Pkg = c10Frame(b.ToBytes())
}

// ---------- what the script makes the dispatcher do (the model's Section variable, per request) ----------
type c10Run struct {
	Class  string // ok | impl-error | disp-error
	Code   int32  // for impl-error: the code the reply must carry (plain error: 1)
	Plain  bool
	Msg    []byte
	Buf    []byte // expected payload on success (TUP: only its length is determined)
	Status map[string]string
	RCtx   map[string]string
	Dur    int
}

func c10OkPayload(q *c10Req) []byte {
	sh := c10Shapes[q.Func] // zero shape for nop
	ret := c10Enc(func(b *codec.Buffer) { b.WriteInt32(q.Code, 0) })
	switch q.Ver {
	case c10VerTars:
		var out []byte
		if sh.Ret {
			out = append(out, ret...)
		}
		for i, p := range sh.Params {
			if p.Out {
				out = append(out, c10EncParam(q, p, byte(i+1))...)
			}
		}
		return out
	case c10VerTup:
		var es []c10TupEntry
		if sh.Ret {
			es = append(es, c10TupEntry{"", ret}, c10TupEntry{"tars_ret", ret})
		}
		for _, p := range sh.Params {
			if p.Out {
				es = append(es, c10TupEntry{p.Name, c10EncParam(q, p, 0)})
			}
		}
		return c10TupEncode(es)
	case c10VerJSON:
		m := map[string]interface{}{}
		if sh.Ret {
			m["tars_ret"] = q.Code
		}
		for _, p := range sh.Params {
			if p.Out && p.Str {
				m[p.Name] = c10ParamStr(q, p.Name)
			} else if p.Out {
				m[p.Name] = c10ParamInt(q, p.Name)
			}
		}
		j, _ := json.Marshal(m)
		return j
	}
	return nil
}

func c10Script(q *c10Req) c10Run {
	switch {
	case c10Scripted(q.Func):
		if !c10IsKnownVer(q.Ver) {
			return c10Run{Class: "disp-error", Code: 1}
		}
		r := c10Run{Dur: int(q.SleepMs)}
		if q.SleepMs < 0 {
			r.Dur = 0 // a barrier, not a duration: the calls of a group leave together, at once
		}
		switch q.Kind {
		case c10KTarsErr:
			r.Class, r.Code, r.Msg = "impl-error", q.Code, q.Msg
		case c10KPlain:
			r.Class, r.Code, r.Msg, r.Plain = "impl-error", 1, q.Msg, true
		case c10KOkCtx:
			r.Class, r.Buf = "ok", c10OkPayload(q)
			r.Status = map[string]string{"rs": string(q.Msg)}
			r.RCtx = map[string]string{"rc": string(q.Msg)}
		default:
			r.Class, r.Buf = "ok", c10OkPayload(q)
		}
		return r
	case q.Func == "nop" || q.Func == "tars_ping":
		return c10Run{Class: "ok", Buf: c10OkPayload(&c10Req{Ver: q.Ver, Func: "nop"})}
	}
	return c10Run{Class: "disp-error", Code: 1}
}

// the clause of the property that governs this request in this configuration
func c10Clause(cfg c10Cfg, q *c10Req) string {
	if q.Race != "" {
		return "race-" + q.Race
	}
	if q.Timeout > 0 && int64(q.Queued) >= int64(q.Timeout) {
		return "queue-timeout"
	}
	if cfg.HT > 0 && int(q.Pre) >= cfg.HT {
		return "handle-timeout" // the deadline passes before Invoke is even entered
	}
	if q.Func == "tars_ping" {
		return "ping"
	}
	r := c10Script(q)
	if cfg.HT > 0 && r.Dur >= cfg.HT {
		return "handle-timeout"
	}
	return r.Class
}

func c10Dispatched(cfg c10Cfg, q *c10Req) bool {
	if q.Race == "queue" {
		return false // may or may not be: not waited for
	}
	if cfg.HT > 0 && int(q.Pre) >= cfg.HT {
		return false
	}
	c := c10Clause(cfg, q)
	return c != "queue-timeout" && c != "ping"
}

// ---------- decoding a reply on the Go side (monitor): version first, then the shape that version uses ----------
type c10Reply struct {
	Tup     bool
	Ver     int16
	PType   int8
	ID      int32
	MType   int32
	Ret     int32
	Buf     []byte
	Status  map[string]string
	Desc    string
	Ctx     map[string]string
	Garbage string
}

func c10DecodeReply(b []byte) c10Reply {
	var r c10Reply
	if len(b) < 4 || int(binary.BigEndian.Uint32(b)) != len(b) {
		r.Garbage = "length header does not match the reply"
		return r
	}
	var ver int16
	if err := codec.NewReader(b[4:]).ReadInt16(&ver, 1, true); err != nil {
		r.Garbage = "no version member"
		return r
	}
	if ver == c10VerTup {
		var p requestf.RequestPacket
		if err := p.ReadFrom(codec.NewReader(b[4:])); err != nil {
			r.Garbage = "TUP-versioned reply is not a RequestPacket"
			r.Ver = ver
			return r
		}
		return c10Reply{Tup: true, Ver: p.IVersion, PType: p.CPacketType, ID: p.IRequestId, MType: p.IMessageType,
			Buf: tools.Int8ToByte(p.SBuffer), Status: p.Status, Ctx: p.Context}
	}
	var p requestf.ResponsePacket
	if err := p.ReadFrom(codec.NewReader(b[4:])); err != nil {
		r.Garbage = "reply is not a ResponsePacket"
		r.Ver = ver
		return r
	}
	return c10Reply{Ver: p.IVersion, PType: p.CPacketType, ID: p.IRequestId, MType: p.IMessageType, Ret: p.IRet,
		Buf: tools.Int8ToByte(p.SBuffer), Status: p.Status, Desc: p.SResultDesc, Ctx: p.Context}
}

func c10MapEq(a, b map[string]string) bool {
	if len(a) != len(b) {
		return false
	}
	for k, v := range a {
		if w, ok := b[k]; !ok || w != v {
			return false
		}
	}
	return true
}

// payload of a successful call: return value and every out parameter, decoded with the codec primitives / encoding/json
func c10PayloadOk(q *c10Req, buf []byte) string {
	sh, ok := c10Shapes[q.Func]
	if !ok || !c10IsKnownVer(q.Ver) {
		return ""
	}
	type item struct {
		what string
		str  bool
		tag  byte   // TARS
		key  string // TUP / JSON
		wi   int32
		ws   string
	}
	var items []item
	if sh.Ret {
		items = append(items, item{what: "return value", tag: 0, key: "tars_ret", wi: q.Code})
	}
	for i, p := range sh.Params {
		if p.Out {
			items = append(items, item{what: "out parameter " + p.Name, str: p.Str, tag: byte(i + 1), key: p.Name, wi: c10ParamInt(q, p.Name), ws: c10ParamStr(q, p.Name)})
		}
	}
	read := func(rd *codec.Reader, it item, tag byte) string {
		if it.str {
			var v string
			if err := rd.ReadString(&v, tag, true); err != nil {
				return "no " + it.what + " in the payload"
			}
			if v != it.ws {
				return fmt.Sprintf("%s is %q, the implementation produced %q", it.what, v, it.ws)
			}
			return ""
		}
		var v int32
		if err := rd.ReadInt32(&v, tag, true); err != nil {
			return "no " + it.what + " in the payload"
		}
		if v != it.wi {
			return fmt.Sprintf("%s is %d, the implementation produced %d", it.what, v, it.wi)
		}
		return ""
	}
	switch q.Ver {
	case c10VerTars:
		rd := codec.NewReader(buf)
		for _, it := range items {
			if m := read(rd, it, it.tag); m != "" {
				return m
			}
		}
		if len(items) == 0 && len(buf) != 0 {
			return fmt.Sprintf("%d bytes of payload for a function without results", len(buf))
		}
	case c10VerTup:
		m, err := c10TupDecode(buf)
		if err != nil {
			return "payload is not a TUP attribute map"
		}
		want := len(items)
		for _, it := range items {
			b, ok := m[it.key]
			if !ok {
				return "no entry " + it.key + " in the TUP payload"
			}
			if msg := read(codec.NewReader(b), it, 0); msg != "" {
				return msg
			}
			if it.key == "tars_ret" {
				want++
				if b0, ok := m[""]; !ok || !bytes.Equal(b0, b) {
					return "the TUP payload's entry \"\" (return value under the empty name) is missing or differs from tars_ret"
				}
			}
		}
		if len(m) != want {
			return fmt.Sprintf("%d entries in the TUP payload, expected %d", len(m), want)
		}
	case c10VerJSON:
		var m map[string]interface{}
		dec := json.NewDecoder(bytes.NewReader(buf))
		dec.UseNumber()
		if err := dec.Decode(&m); err != nil {
			return "payload is not a JSON object"
		}
		for _, it := range items {
			v, ok := m[it.key]
			if !ok {
				return "no member " + it.key + " in the JSON payload"
			}
			if it.str {
				if sv, ok := v.(string); !ok || sv != it.ws {
					return fmt.Sprintf("%s is %v, the implementation produced %q", it.what, v, it.ws)
				}
			} else if nv, ok := v.(json.Number); !ok || nv.String() != fmt.Sprint(it.wi) {
				return fmt.Sprintf("%s is %v, the implementation produced %d", it.what, v, it.wi)
			}
		}
		if len(m) != len(items) {
			return fmt.Sprintf("%d members in the JSON payload, expected %d", len(m), len(items))
		}
	}
	return ""
}

// ---------- L3 monitor: the property itself, per request ----------
type c10Fail struct {
	Sig, Desc string
	Timing    bool // the expectation depends on a scripted duration: subject to the reproduce-three-times rule
}

func c10Monitor(s *c10Scn) []c10Fail {
	var out []c10Fail
	proto := "tcp"
	if s.UDP {
		proto = "udp"
	}
	where := fmt.Sprintf("%s pool=%d handletimeout=%dms", proto, s.Cfg.Pool, s.Cfg.HT)
	if s.Cfg.QCap != 0 {
		where += fmt.Sprintf(" queuecap=%d", s.Cfg.queueCap())
	}
	byID := map[int32][]c10Reply{}
	ids := map[int32]bool{}
	for i := range s.Reqs {
		ids[s.Reqs[i].ID] = true
	}
	timingScn := s.Cfg.HT > 0 || s.Kind == "queue" || s.UDP || s.HalfClose || s.Exclusive || s.Kind == "burst-queue"
	onConn := map[int32]int{}
	replyNs := map[int32]int64{}
	for i := range s.Reqs {
		onConn[s.Reqs[i].ID] = i % s.Conns
	}
	for oi, ob := range s.Obs {
		r := c10DecodeReply(ob)
		if r.Garbage != "" {
			out = append(out, c10Fail{"reply/undecodable", fmt.Sprintf("%s: the server wrote %d bytes that are not a reply packet (%s)", where, len(ob), r.Garbage), false})
			continue
		}
		if !ids[r.ID] {
			out = append(out, c10Fail{"identity/id", fmt.Sprintf("%s: a reply carries request id %d, which no request of this connection has", where, r.ID), timingScn})
			continue
		}
		if oi < len(s.ObsConn) && s.ObsConn[oi] != onConn[r.ID] {
			out = append(out, c10Fail{"identity/connection", fmt.Sprintf("%s: the reply to request id %d (sent on connection %d of the scenario) arrived on connection %d", where, r.ID, onConn[r.ID], s.ObsConn[oi]), timingScn})
		}
		if len(byID[r.ID]) == 0 && oi < len(s.ObsNs) {
			replyNs[r.ID] = s.ObsNs[oi]
		}
		byID[r.ID] = append(byID[r.ID], r)
	}
	// the queue-timeout answer, on the clock (Props/C10.v C10_queue_timeout_only_if_waited; sound for every request of
	// every scenario: the request was received not before it was sent and decided not after its reply was read):
	// legal only if the request carries a timeout and more than that timeout less one millisecond lies between sending
	// and the reply - or, with a handle timeout, at least the whole handle timeout
	for i := range s.Reqs {
		q := &s.Reqs[i]
		q.ReplyNs = replyNs[q.ID]
		if q.ReplyNs == 0 || q.SendNs == 0 {
			continue
		}
		run := c10Script(q)
		ownCode := run.Class == "impl-error" && run.Code == c10QueueTimeout
		for _, r := range byID[q.ID] {
			if r.Tup || r.Ret != c10QueueTimeout || ownCode {
				continue
			}
			span := q.ReplyNs - q.SendNs
			waited := q.Timeout > 0 && span > (int64(q.Timeout)-1)*1000000
			lateInvoke := s.Cfg.HT > 0 && span >= int64(s.Cfg.HT)*1000000
			if !waited && !lateInvoke {
				out = append(out, c10Fail{"queue-timeout/not-waited", fmt.Sprintf("%s: request id=%d func=%q with timeout=%d ms was answered with the queue-timeout code %.3f ms after it was sent: it cannot have waited longer than its timeout", where, q.ID, q.Func, q.Timeout, float64(span)/1e6), false})
			}
		}
	}
	if s.PingCalls != 0 {
		out = append(out, c10Fail{"ping/implementation-invoked", fmt.Sprintf("%s: the servant's own tars_ping was called %d time(s)", where, s.PingCalls), false})
	}
	for i := range s.Reqs {
		q := &s.Reqs[i]
		rs := byID[q.ID]
		if q.Race == "" {
			out = append(out, c10CheckReq(s, where, timingScn, q, c10Clause(s.Cfg, q), rs)...)
			continue
		}
		// a scripted race (the handler runs for about the handle timeout / the request's own timeout is about the
		// queueing time): either outcome is allowed, but it must be one of the two, whole
		var first []c10Fail
		ok := false
		for k, alt := range c10Alternatives(s.Cfg, q) {
			fs := c10CheckReq(s, where, timingScn, &alt, c10Clause(s.Cfg, &alt), rs)
			if len(fs) == 0 {
				ok = true
				break
			}
			if k == 0 {
				first = fs
			}
		}
		if !ok {
			for _, f := range first {
				out = append(out, c10Fail{"race-" + q.Race + "/" + f.Sig, f.Desc + " (and the other outcome of the race does not fit either)", true})
			}
		}
	}
	return out
}

// the property's clauses for one request, given the clause that governs it and the replies that carry its id
func c10CheckReq(s *c10Scn, where string, timingScn bool, q *c10Req, clause string, rs []c10Reply) []c10Fail {
	var out []c10Fail
	{
		run := c10Script(q)
		timing := timingScn || clause == "queue-timeout" || clause == "handle-timeout"
		what := fmt.Sprintf("%s: request id=%d version=%d packet type=%d func=%q timeout=%d (%s)", where, q.ID, q.Ver, q.PType, q.Func, q.Timeout, clause)
		want := 1
		if q.PType == c10OneWay {
			want = 0
		}
		if len(rs) != want {
			way := "two-way"
			if want == 0 {
				way = "one-way"
			}
			out = append(out, c10Fail{"count/" + way + "/" + clause, fmt.Sprintf("%s: %d replies, expected %d", what, len(rs), want), timing})
		}
		wantInv := 0
		lateInvoke := s.Cfg.HT > 0 && int(q.Pre) >= s.Cfg.HT // Invoke is entered after the deadline: it answers with the queue-timeout code itself and does not dispatch
		if clause != "queue-timeout" && clause != "ping" && !lateInvoke && c10Scripted(q.Func) && c10IsKnownVer(q.Ver) {
			wantInv = 1
		}
		if q.Invoked != wantInv {
			out = append(out, c10Fail{"invocations/" + clause, fmt.Sprintf("%s: the implementation was entered %d time(s), expected %d", what, q.Invoked, wantInv), timing})
		}
		for _, r := range rs {
			if r.Ver != q.Ver {
				out = append(out, c10Fail{"identity/version/" + clause, fmt.Sprintf("%s: reply has version %d", what, r.Ver), timing})
			}
			if r.PType != q.PType {
				out = append(out, c10Fail{"identity/packet-type/" + clause, fmt.Sprintf("%s: reply has packet type %d", what, r.PType), timing})
			}
			if !c10IsKnownVer(q.Ver) {
				continue // not one of the three versions the property speaks about: identity only
			}
			wantNonZero := clause == "queue-timeout" || clause == "handle-timeout" || clause == "disp-error" ||
				(clause == "impl-error" && (run.Plain || run.Code != 0))
			if r.Tup {
				if wantNonZero {
					out = append(out, c10Fail{"tup-reply/status-dropped/" + clause, fmt.Sprintf("%s: the TUP-versioned reply has no place for the return code and the message, the caller cannot see that the call failed", what), false})
				}
			} else {
				switch clause {
				case "ping", "ok":
					if r.Ret != 0 {
						out = append(out, c10Fail{"ret/" + clause, fmt.Sprintf("%s: return code %d, expected success", what, r.Ret), timing})
					}
				case "queue-timeout":
					if r.Ret != c10QueueTimeout {
						out = append(out, c10Fail{"ret/queue-timeout", fmt.Sprintf("%s: queued for about %d ms, return code %d, expected the queue-timeout code %d", what, q.Queued, r.Ret, c10QueueTimeout), timing})
					}
				case "handle-timeout", "disp-error":
					if r.Ret == 0 {
						out = append(out, c10Fail{"ret/" + clause, fmt.Sprintf("%s: return code 0, expected an error", what), timing})
					}
				case "impl-error":
					if run.Plain && r.Ret == 0 || !run.Plain && r.Ret != run.Code {
						out = append(out, c10Fail{"ret/impl-error", fmt.Sprintf("%s: return code %d, the implementation failed with code %d (plain error: %v)", what, r.Ret, run.Code, run.Plain), timing})
					}
					if r.Desc != string(run.Msg) {
						out = append(out, c10Fail{"desc/impl-error", fmt.Sprintf("%s: message %q, the implementation's error says %q", what, r.Desc, string(run.Msg)), timing})
					}
				}
			}
			if clause == "ok" {
				if m := c10PayloadOk(q, r.Buf); m != "" {
					out = append(out, c10Fail{"payload/ok", what + ": " + m, timing})
				}
				if !c10MapEq(r.Status, run.Status) || !c10MapEq(r.Ctx, run.RCtx) {
					out = append(out, c10Fail{"payload/context-status", fmt.Sprintf("%s: reply status %v context %v, the implementation set %v %v", what, r.Status, r.Ctx, run.Status, run.RCtx), timing})
				}
			}
		}
	}
	return out
}

// the two outcomes of a scripted race, as the same request with the script moved clear of the boundary
func c10Alternatives(cfg c10Cfg, q *c10Req) []c10Req {
	a, b := *q, *q
	a.Race, b.Race = "", ""
	switch q.Race {
	case "handle":
		a.SleepMs, b.SleepMs = 0, int32(cfg.HT) // Invoke first / deadline first
	case "queue":
		a.Queued, b.Queued = 0, int(q.Timeout) // not yet elapsed / elapsed
	}
	return []c10Req{a, b}
}

// ---------- Coq rendering ----------
func c10CoqMap(m map[string]string) string {
	ks := make([]string, 0, len(m))
	for k := range m {
		ks = append(ks, k)
	}
	sort.Strings(ks)
	ps := make([]string, len(ks))
	for i, k := range ks {
		ps[i] = fmt.Sprintf("(VStr (unhex %s), VStr (unhex %s))", hx([]byte(k)), hx([]byte(m[k])))
	}
	return "[" + strings.Join(ps, "; ") + "]"
}

func c10CoqRun(q *c10Req) string {
	r := c10Script(q)
	var res string
	switch r.Class {
	case "ok":
		res = fmt.Sprintf("HDone (unhex %s) %s %s", hx(r.Buf), c10CoqMap(r.Status), c10CoqMap(r.RCtx))
	case "impl-error":
		if r.Plain {
			res = fmt.Sprintf("HFail (PlainErr (unhex %s))", hx(r.Msg))
		} else {
			res = fmt.Sprintf("HFail (TarsErr %s (unhex %s))", coqZ(int64(r.Code)), hx(r.Msg))
		}
	default:
		res = "HFail DispErr"
	}
	return fmt.Sprintf("{| h_res := %s; h_dur := %d |}", res, r.Dur)
}

// the observation window of a request in ns since the scenario's earliest send (keeps the numerals small)
func c10CoqWindow(q *c10Req) string {
	if q.SendNs == 0 || q.ReplyNs == 0 || q.ReplyNs < q.SendNs {
		return "None"
	}
	base := q.SendNs - q.SendNs%1000000 // a whole millisecond: truncation is preserved
	return fmt.Sprintf("(Some (%d, %d))", q.SendNs-base, q.ReplyNs-base)
}

func c10CoqTrace(s *c10Scn, q *c10Req) string {
	if s.Kind != "sched" {
		return "None"
	}
	var es []string
	for _, c := range q.Events {
		es = append(es, "E"+string(c))
	}
	return "(Some [" + strings.Join(es, "; ") + "])"
}

func c10Coq(s *c10Scn) string {
	if s.Err != "" || s.NoModel {
		return ""
	}
	var rs []string
	for i := range s.Reqs {
		q := &s.Reqs[i]
		var alts []string
		if q.Race != "" {
			for _, a := range c10Alternatives(s.Cfg, q) {
				alts = append(alts, fmt.Sprintf("(%d, %d)", a.Queued, c10Script(&a).Dur))
			}
		}
		rs = append(rs, fmt.Sprintf("{| k_pkg := %s; k_queued := %d; k_run := %s; k_alts := [%s]; k_trace := %s; k_window := %s; k_counted := %s; k_invoked := %d |}", hx(q.Pkg), q.Queued, c10CoqRun(q), strings.Join(alts, "; "), c10CoqTrace(s, q), c10CoqWindow(q), coqBool(c10Scripted(q.Func) && c10IsKnownVer(q.Ver)), q.Invoked))
	}
	return fmt.Sprintf("{| k_cfg := {| c_pool := %d; c_ht := %d; c_udp := %s |}; k_reqs := [%s]; k_obs := %s |}",
		s.Cfg.Pool, s.Cfg.HT, coqBool(s.UDP), strings.Join(rs, ";\n   "), hxB(s.Obs))
}

// ---------- generators ----------
var c10Token int32

func c10PickI32(rng *rand.Rand, vals ...int32) int32 { return vals[rng.Intn(len(vals))] }

func c10RandBytes(rng *rand.Rand, ascii bool) []byte {
	var n int
	switch rng.Intn(6) {
	case 0:
		n = 0
	case 1:
		n = 254 + rng.Intn(4) // around the STRING1/STRING4 boundary ("e:" + msg crosses it too)
	default:
		n = 1 + rng.Intn(14)
	}
	b := make([]byte, n)
	for i := range b {
		if ascii {
			b[i] = byte(0x20 + rng.Intn(0x5f))
		} else {
			b[i] = byte(rng.Intn(256))
		}
	}
	return b
}

func c10RandMap(rng *rand.Rand) map[string]string {
	switch rng.Intn(4) {
	case 0:
		return nil
	case 1:
		return map[string]string{}
	}
	m := map[string]string{}
	for i, n := 0, 1+rng.Intn(3); i < n; i++ {
		m[fmt.Sprintf("k%d%s", i, string(c10RandBytes(rng, true)))] = string(c10RandBytes(rng, false))
	}
	return m
}

// a request with every envelope member drawn from its boundary-dense set; timing-neutral (no sleep, timeout off or far away)
func c10GenReq(rng *rand.Rand, cfg c10Cfg, id int32) c10Req {
	c10Token++
	q := c10Req{ID: id, Token: c10Token}
	switch x := rng.Intn(20); {
	case x < 7:
		q.Ver = c10VerTars
	case x < 12:
		q.Ver = c10VerTup
	case x < 17:
		q.Ver = c10VerJSON
	default: // extended stream: versions the property does not speak about (identity is still checked)
		q.Ver = int16(c10PickI32(rng, 0, 2, 4, 6, -1, 32767, -32768, 255, 256))
	}
	switch x := rng.Intn(10); {
	case x < 5:
		q.PType = c10Normal
	case x < 8:
		q.PType = c10OneWay
	default:
		q.PType = int8(c10PickI32(rng, 2, 3, -1, 127, -128, 16, 64))
	}
	q.MType = c10PickI32(rng, 0, 0, 0, 1, 2, 4, 8, 0x10, 0x80, 0x100, 0x7fffffff&^0x100, -1&^0x100)
	switch x := rng.Intn(12); {
	case x < 6:
		q.Func = c10PickFn(rng)
	case x < 8:
		q.Func = "tars_ping"
	case x < 9:
		q.Func = "nop"
	default:
		q.Func = []string{"", "tars_pin", "tars_ping ", "TARS_PING", "tars_pingx", "Act", "nosuch", "act\x00"}[rng.Intn(8)]
	}
	q.Servant = []string{"VerifApp.C10Server.TcpObj", "VerifApp.C10Server.UdpObj", "", "Other.Obj", string(c10RandBytes(rng, false))}[rng.Intn(5)]
	q.Timeout = c10PickI32(rng, 0, 0, -1, math.MinInt32, 60000, 100000, math.MaxInt32, 30000+rng.Int31n(1000000))
	q.Ctx, q.Status = c10RandMap(rng), c10RandMap(rng)
	if q.MType&c10MsgDyed != 0 && rng.Intn(2) == 0 {
		if q.Status == nil {
			q.Status = map[string]string{}
		}
		q.Status["STATUS_DYED_KEY"] = "dye" + string(c10RandBytes(rng, true))
	}
	q.Kind = int32(rng.Intn(4))
	q.Code = c10PickI32(rng, 0, 1, -1, 2, -6, 78, 255, 256, -32768, 65536, math.MaxInt32, math.MinInt32, rng.Int31(), -rng.Int31())
	q.Msg = c10RandBytes(rng, q.Ver == c10VerJSON)
	return q
}

func c10DistinctIDs(rng *rand.Rand, n int) []int32 {
	pool := []int32{0, 1, -1, 2, 127, 128, 255, 256, 32767, 32768, 65535, 65536, math.MaxInt32, math.MinInt32, math.MaxInt32 - 1, math.MinInt32 + 1}
	seen := map[int32]bool{}
	var out []int32
	for len(out) < n {
		var id int32
		if rng.Intn(2) == 0 {
			id = pool[rng.Intn(len(pool))]
		} else {
			id = int32(rng.Uint32())
		}
		if !seen[id] {
			seen[id] = true
			out = append(out, id)
		}
	}
	return out
}

func c10Durations(cfg c10Cfg, tier string) (overrun, blockMs int) {
	if cfg.HT > 0 {
		return 3 * cfg.HT, 3 * cfg.HT
	}
	return 120, 500
}

func c10GenPlain(rng *rand.Rand, cfg c10Cfg, udp bool, tier string) c10Scn {
	n := 4 + rng.Intn(6)
	if tier == "thorough" && rng.Intn(4) == 0 {
		n = 10 + rng.Intn(20) // long pipelines
	}
	s := c10Scn{Cfg: cfg, UDP: udp, Kind: "plain", Conns: 1 + rng.Intn(3)}
	if !udp {
		for i, k := 0, 1+rng.Intn(4); i < k; i++ {
			s.Chunks = append(s.Chunks, []int{1, 3, 4, 5, 17, 64, 300, 4096}[rng.Intn(8)])
		}
	}
	slow, _ := c10Durations(cfg, tier)
	ids := c10DistinctIDs(rng, n)
	nslow := 0
	for i := 0; i < n; i++ {
		q := c10GenReq(rng, cfg, ids[i])
		if c10Scripted(q.Func) && rng.Intn(4) == 0 && nslow < 2 {
			q.SleepMs = int32(slow) // with a handle timeout: overruns it (3x); without: merely slow
			nslow++
		}
		c10Encode(&q)
		s.Reqs = append(s.Reqs, q)
	}
	if !udp && rng.Intn(4) == 0 {
		c10SplitHeaders(&s)
	}
	return s
}

// worker pool only: as many blockers as there are workers, then requests whose own timeout has / has not elapsed
// by the time a worker is free again. One connection, so the order of arrival is the order of submission.
func c10GenQueue(rng *rand.Rand, cfg c10Cfg, udp bool, tier string) c10Scn {
	s := c10Scn{Cfg: cfg, UDP: udp, Kind: "queue", Conns: 1, Chunks: []int{4096}}
	_, block := c10Durations(cfg, tier)
	hold := block
	if cfg.HT > 0 {
		hold = cfg.HT // the handler gives the worker back when the handle timeout fires
	}
	n := cfg.Pool + 3 + rng.Intn(4)
	ids := c10DistinctIDs(rng, n)
	for i := 0; i < n; i++ {
		q := c10GenReq(rng, cfg, ids[i])
		if i < cfg.Pool {
			q.Role, q.Func, q.SleepMs, q.Timeout = "blocker", c10PickFn(rng), int32(block), c10PickI32(rng, 0, 60000)
			if !c10IsKnownVer(q.Ver) {
				q.Ver = c10VerTars
			}
		} else {
			q.Role, q.Queued = "queued", hold
			if rng.Intn(4) != 0 {
				q.Timeout = c10PickI32(rng, 1, 2, 3, int32(hold/4), int32(hold/2)) // elapsed while queued, with margin
			}
		}
		c10Encode(&q)
		s.Reqs = append(s.Reqs, q)
	}
	return s
}

// the client goes quiet after sending: connection 0 keeps the workers busy (pool) with slow calls, connection 1 sends
// its requests a little later, half-closes (FIN) and only reads from then on. The server's receive loop for connection 1
// ends at once; every request it has read - still queued behind the busy workers, or running (no pool: the request is
// slow itself) - must nevertheless be answered exactly once before the server closes the connection.
func c10GenHalfClose(rng *rand.Rand, cfg c10Cfg, tier string) c10Scn {
	s := c10Scn{Cfg: cfg, Kind: "halfclose", Conns: 2, Chunks: []int{4096}, HalfClose: true, StaggerMs: 60}
	slow := int32(1300) // longer than two rounds of the receive loop's 500 ms quiescence poll
	if cfg.HT > 0 {
		slow = int32(3 * cfg.HT)
	}
	nb := cfg.Pool
	nq := 2 + rng.Intn(3)
	n := 2 * nq
	if 2*nb > n {
		n = 2 * nb
	}
	ids := c10DistinctIDs(rng, n)
	for i := 0; i < n; i++ {
		q := c10GenReq(rng, cfg, ids[i])
		if i%2 == 0 { // connection 0
			if i/2 < nb {
				q.Role, q.Func, q.SleepMs, q.PType = "blocker", c10PickFn(rng), slow, c10Normal
				if !c10IsKnownVer(q.Ver) {
					q.Ver = c10VerTars
				}
			}
		} else { // connection 1: half-closed after sending
			if i/2 >= nq {
				q.PType = c10OneWay // filler to keep the round-robin assignment: nothing expected
			} else if rng.Intn(3) != 0 {
				q.PType = c10Normal
			}
			if cfg.Pool == 0 && i == 1 {
				q.Func, q.SleepMs, q.PType = c10PickFn(rng), slow, c10Normal // running, not queued, when the FIN arrives
				if !c10IsKnownVer(q.Ver) {
					q.Ver = c10VerJSON
				}
			}
		}
		if q.Ver == c10VerJSON {
			q.Msg = c10RandBytes(rng, true)
		}
		c10Encode(&q)
		s.Reqs = append(s.Reqs, q)
	}
	return s
}

// requests that carry a small timeout of their own (150..850 ms) and find idle workers and an empty queue: nothing waits,
// so each of them must be dispatched to the implementation exactly once and answered with the implementation's result - a
// queue-timeout answer is legal only for a request that really waited longer than its timeout. They are sent one at a
// time at scripted phases of the wall-clock second (the framework keeps a cached one-second clock), on one connection /
// socket; the scenario runs alone in its child. Both transports, every configuration, every shape, version and way.
func c10GenOwnTimeout(rng *rand.Rand, cfg c10Cfg, udp bool, tier string) c10Scn {
	s := c10Scn{Cfg: cfg, UDP: udp, Kind: "own-timeout", Conns: 1, Chunks: []int{4096}, Exclusive: true}
	phases := []int{40 + rng.Intn(120), 330 + rng.Intn(120), 620 + rng.Intn(100), 900 + rng.Intn(90)}
	ids := c10DistinctIDs(rng, len(phases))
	for i, ph := range phases {
		q := c10GenReq(rng, cfg, ids[i])
		q.Func = c10PickFn(rng)
		if !c10IsKnownVer(q.Ver) {
			q.Ver = []int16{c10VerTars, c10VerTup, c10VerJSON}[rng.Intn(3)]
			q.Msg = c10RandBytes(rng, true)
		}
		q.Phase = ph
		// timeouts on either side of the phase, all well above any scheduling delay and below one second
		q.Timeout = c10PickI32(rng, 150, 200, 250, 400, 500, 650, 850, int32(150+rng.Intn(700)))
		q.Queued = 0
		c10Encode(&q)
		s.Reqs = append(s.Reqs, q)
	}
	return s
}

// a message of n bytes that only this request has: a foreign, mixed or stale body is visible in the echo
func c10PatternMsg(id int32, n int, ascii bool) []byte {
	b := make([]byte, n)
	x := uint32(id)*2654435761 + 12345
	for i := range b {
		x = x*1664525 + 1013904223
		if ascii {
			b[i] = byte(0x30 + (x>>24)%75)
		} else {
			b[i] = byte(x >> 24)
		}
	}
	tag := fmt.Sprintf("<%d>", id)
	copy(b, tag)
	return b
}

// many requests in flight at once with large and distinct responses (the echo of a message derived from the request id,
// or an error whose message it is): pipelined on one connection and over several, fast handlers. Each must be answered
// exactly once with its own id, version, type and its own payload, bit for bit.
func c10GenBurstLarge(rng *rand.Rand, cfg c10Cfg, udp bool, tier string, inModel bool) c10Scn {
	s := c10Scn{Cfg: cfg, UDP: udp, Kind: "burst-large", Conns: []int{1, 3, 4}[rng.Intn(3)], Chunks: []int{4096, 1000, 8192}, NoModel: !inModel}
	n, size := 36, 3000
	if udp {
		n, size = 16, 2500 // stays inside the socket buffers
	}
	if inModel {
		n, size = 8, 700
	}
	ids := c10DistinctIDs(rng, n)
	for i := 0; i < n; i++ {
		q := c10GenReq(rng, cfg, ids[i])
		q.Func = []string{"act", "fetch", "mixed", "notify", "calc"}[i%5]
		q.Ver = []int16{c10VerTars, c10VerJSON, c10VerTup}[i%3]
		q.Kind = []int32{c10KOk, c10KOk, c10KTarsErr, c10KOkCtx, c10KPlain}[(i/3)%5]
		if q.Ver == c10VerTup && (q.Kind == c10KTarsErr || q.Kind == c10KPlain) {
			q.Kind = c10KOk // a TUP failure has no body to compare
		}
		q.PType = c10Normal
		if i%9 == 8 {
			q.PType = c10OneWay
		}
		q.Msg = c10PatternMsg(q.ID, size+rng.Intn(size/2), q.Ver == c10VerJSON)
		q.Timeout, q.Ctx, q.Status = 0, nil, nil
		c10Encode(&q)
		s.Reqs = append(s.Reqs, q)
	}
	return s
}

// one round of a burst: 8-24 requests over four connections whose handlers leave the implementation in lock step (a
// barrier in the servant, as many at a time as there are workers), with responses of very different sizes in flight
// together - a few bytes next to several kilobytes, alternating - so that a reply framed, written or recycled together
// with another one shows a foreign head or a stale tail. Many such rounds run side by side.
var c10BarrierGroup int32

func c10GenBurstRound(rng *rand.Rand, cfg c10Cfg, udp bool, tier string) c10Scn {
	s := c10Scn{Cfg: cfg, UDP: udp, Kind: "burst-round", Conns: 4, Chunks: []int{8192}, NoModel: true}
	n := 8 + rng.Intn(3)
	if cfg.Pool == 0 {
		n = 16 + rng.Intn(9) // more goroutines than processors leave the barrier together
		if udp {
			n = 12 + rng.Intn(5)
		}
	}
	size := n
	if cfg.Pool > 0 && cfg.Pool < n {
		size = cfg.Pool
	}
	c10BarrierGroup++
	ids := c10DistinctIDs(rng, n)
	for i := 0; i < n; i++ {
		q := c10GenReq(rng, cfg, ids[i])
		q.Func = []string{"act", "mixed", "fetch"}[rng.Intn(3)]
		q.Ver = []int16{c10VerTars, c10VerJSON, c10VerTars, c10VerTup}[rng.Intn(4)]
		q.Kind = []int32{c10KOk, c10KTarsErr, c10KOk, c10KPlain}[rng.Intn(4)]
		if q.Ver == c10VerTup {
			q.Kind = c10KOk
		}
		q.PType = c10Normal
		if (i+rng.Intn(2))%2 == 0 {
			q.Msg = c10PatternMsg(q.ID, rng.Intn(9), q.Ver == c10VerJSON)
		} else {
			q.Msg = c10PatternMsg(q.ID, 2500+rng.Intn(3000), q.Ver == c10VerJSON)
		}
		q.Timeout, q.Ctx, q.Status = 0, nil, nil
		if cfg.HT == 0 && size > 1 {
			q.SleepMs = -(c10BarrierGroup%20000*100 + int32(size))
		}
		c10Encode(&q)
		s.Reqs = append(s.Reqs, q)
	}
	return s
}

// a burst against a small job queue (queuecap 0/1/2, one or two workers) with an implementation that takes 40 ms: more
// requests than workers + queue slots + 1 arrive faster than they are served. Every well-formed two-way request must
// still be answered exactly once - with the implementation's result, or, for the few that carry a timeout of their own, a
// queue-timeout answer if they really waited that long (either outcome accepted, the window is checked) - none dropped.
func c10GenBurstQueue(rng *rand.Rand, cfg c10Cfg, udp bool, tier string) c10Scn {
	s := c10Scn{Cfg: cfg, UDP: udp, Kind: "burst-queue", Conns: 1 + rng.Intn(2), Chunks: []int{4096}}
	n := cfg.Pool + cfg.queueCap() + 6 + rng.Intn(3)
	ids := c10DistinctIDs(rng, n)
	for i := 0; i < n; i++ {
		q := c10GenReq(rng, cfg, ids[i])
		q.Func = c10PickFn(rng)
		if !c10IsKnownVer(q.Ver) {
			q.Ver = c10VerTars
		}
		q.Msg = c10RandBytes(rng, true)
		q.SleepMs = 40
		q.PType = c10Normal
		if i%5 == 4 {
			q.PType = c10OneWay
		}
		q.Timeout = 0
		if i >= 3 && i%4 == 3 && q.Ver != c10VerTup {
			q.Race, q.Timeout = "queue", int32(60+40*rng.Intn(4)) // may or may not have elapsed when a worker is free
		}
		c10Encode(&q)
		s.Reqs = append(s.Reqs, q)
	}
	return s
}

// races (handle timeout configured): handlers that run for about the handle timeout, so that the goroutine running
// Invoke and the deadline really race; every outcome the schedules theorem allows is accepted, nothing else
func c10GenRaceHandle(rng *rand.Rand, cfg c10Cfg, udp bool, tier string) c10Scn {
	s := c10Scn{Cfg: cfg, UDP: udp, Kind: "race-handle", Conns: 1 + rng.Intn(2), Chunks: []int{4096}}
	n := 3 + rng.Intn(4)
	ids := c10DistinctIDs(rng, n)
	for i := 0; i < n; i++ {
		q := c10GenReq(rng, cfg, ids[i])
		q.Func = c10PickFn(rng)
		q.Ver = []int16{c10VerTars, c10VerJSON}[rng.Intn(2)]
		q.Msg = c10RandBytes(rng, true)
		q.Race = "handle"
		q.SleepMs = int32(cfg.HT - 2 + rng.Intn(5))
		c10Encode(&q)
		s.Reqs = append(s.Reqs, q)
	}
	return s
}

// races (worker pool): requests whose own timeout is about the time the blockers hold the workers
func c10GenRaceQueue(rng *rand.Rand, cfg c10Cfg, udp bool, tier string) c10Scn {
	s := c10GenQueue(rng, cfg, udp, tier)
	s.Kind = "race-queue"
	for i := range s.Reqs {
		q := &s.Reqs[i]
		if q.Role != "queued" {
			continue
		}
		if !c10IsKnownVer(q.Ver) || q.Ver == c10VerTup {
			q.Ver = c10VerTars
		}
		if q.Ver == c10VerJSON {
			q.Msg = c10RandBytes(rng, true)
		}
		q.Race = "queue"
		q.Timeout = int32(q.Queued - 3 + rng.Intn(7))
		c10Encode(q)
	}
	return s
}

// schedules of the handle-timeout race, recorded: the scenario's server is a transport.TarsServer around a wrapper of the
// real Protocol that logs when Invoke is entered / returns and when InvokeTimeout is called, and can hold Invoke back
// before it is entered (the goroutine is not scheduled for a while). One request per connection, or pipelined.
func c10GenSched(rng *rand.Rand, cfg c10Cfg, udp bool, tier string) c10Scn {
	s := c10Scn{Cfg: cfg, UDP: udp, Kind: "sched", Chunks: []int{4096}}
	n := 4 + rng.Intn(3)
	s.Conns = n
	if rng.Intn(2) == 0 {
		// several requests pipelined on one connection: their handlers interleave, each with a Current of its own; every
		// request's recorded order is validated on its own (Props/C10.v C10_connection_projection)
		s.Conns = 1 + rng.Intn(2)
	}
	ids := c10DistinctIDs(rng, n)
	for i := 0; i < n; i++ {
		q := c10GenReq(rng, cfg, ids[i])
		if rng.Intn(3) != 0 {
			q.Func = c10PickFn(rng)
		}
		if i < 2 {
			q.PType = c10OneWay // every scenario has one-way requests in both overrun positions
			q.Func = c10PickFn(rng)
		}
		switch k := (i + rng.Intn(2)*3) % 3; k {
		case 0: // the deadline passes before Invoke is entered
			q.Pre = int32(3 * cfg.HT)
		case 1: // the handler overruns
			if c10Scripted(q.Func) && c10IsKnownVer(q.Ver) {
				q.SleepMs = int32(3 * cfg.HT)
			}
		}
		c10Encode(&q)
		s.Reqs = append(s.Reqs, q)
	}
	return s
}

// TCP writes that end 1, 2, 3 (cyclically) bytes into the length header of the next request of connection 0, with a
// pause after each: the server's read returns a complete request followed by a partial header
func c10SplitHeaders(s *c10Scn) {
	s.Conns, s.Chunks, s.ChunkPauseMs = 1, nil, 30
	for i := range s.Reqs {
		n := len(s.Reqs[i].Pkg)
		k := i%3 + 1
		if i == 0 {
			s.Chunks = append(s.Chunks, n+k)
		} else if i == len(s.Reqs)-1 {
			s.Chunks = append(s.Chunks, 1<<20)
		} else {
			s.Chunks = append(s.Chunks, n-((i-1)%3+1)+k)
		}
	}
}

// fixed scenarios run first on every run: the witnesses of the refuted statements and of the repaired defects
func c10Corpus() []c10Scn {
	mk := func(cfg c10Cfg, udp bool, reqs ...c10Req) c10Scn {
		s := c10Scn{Cfg: cfg, UDP: udp, Kind: "plain", Conns: 1, Chunks: []int{4096}}
		for i := range reqs {
			c10Token++
			reqs[i].Token = c10Token
			reqs[i].Servant = "VerifApp.C10Server.TcpObj"
			c10Encode(&reqs[i])
		}
		s.Reqs = reqs
		return s
	}
	boom := B("boom")
	// every shape of signature x version x (succeed, *tars.Error, plain error), two-way; the failing void function also one-way
	var shapes []c10Scn
	id := int32(1000)
	for _, ver := range []int16{c10VerTars, c10VerTup, c10VerJSON} {
		var reqs []c10Req
		for _, fn := range c10ShapeNames {
			for _, kind := range []int32{c10KOk, c10KTarsErr, c10KPlain} {
				id++
				reqs = append(reqs, c10Req{Ver: ver, ID: id, Func: fn, Kind: kind, Code: 4242, Msg: boom})
			}
		}
		id++
		reqs = append(reqs, c10Req{Ver: ver, PType: c10OneWay, ID: id, Func: "notify", Kind: c10KTarsErr, Code: 4242, Msg: boom})
		for k, fn := range c10ShapeNames { // one-way calls that succeed: nothing may come back although the dispatcher fills a response
			reqs = append(reqs, c10Req{Ver: ver, PType: c10OneWay, ID: id + 100 + int32(k), Func: fn, Kind: c10KOk, Code: 7, Msg: boom})
		}
		shapes = append(shapes, mk(c10Cfg{0, 0, 0}, ver == c10VerTup, reqs...))
	}
	// the two timeout clauses over every version x way x transport, on every run (the random scenarios leave cells empty):
	// queue timeout behind a blocker (pool 1), and handlers overrunning the handle timeout (no pool: all at once)
	ways := []int8{c10Normal, c10OneWay, 5}
	for _, udp := range []bool{false, true} {
		qs := []c10Req{{Ver: c10VerTars, ID: 2000, Func: "calc", SleepMs: 500, Role: "blocker"}}
		var hs []c10Req
		id := int32(2000)
		for _, ver := range []int16{c10VerTars, c10VerTup, c10VerJSON} {
			for k, pt := range ways {
				id++
				qs = append(qs, c10Req{Ver: ver, PType: pt, ID: id, Func: c10ShapeNames[(k+int(ver))%len(c10ShapeNames)], Timeout: int32(40 * (k + 1)), Queued: 500, Role: "queued", Msg: boom})
				hs = append(hs, c10Req{Ver: ver, PType: pt, ID: id, Func: c10ShapeNames[(k+int(ver)+2)%len(c10ShapeNames)], SleepMs: 750, Kind: int32(k), Code: 9, Msg: boom})
			}
		}
		q := mk(c10Cfg{1, 0, 0}, udp, qs...)
		q.Kind = "queue"
		shapes = append(shapes, q, mk(c10Cfg{0, 250, 0}, udp, hs...))
	}
	// pipelined requests cut inside the next request's length header (TCP), without and with a worker pool
	for _, cfg := range []c10Cfg{{0, 0, 0}, {1, 0, 0}} {
		var rs []c10Req
		for k := int32(0); k < 5; k++ {
			rs = append(rs, c10Req{Ver: []int16{c10VerTars, c10VerJSON, c10VerTup}[k%3], ID: 3000 + k, Func: c10ShapeNames[k%5], Kind: k % 3, Code: 11, Msg: boom})
		}
		sp := mk(cfg, false, rs...)
		c10SplitHeaders(&sp)
		shapes = append(shapes, sp)
	}
	return append(shapes, []c10Scn{
		// Props/C10.v C10_error_code_on_wire_refuted (tup_error_witness): TUP, id 7, *tars.Error{78, "boom"}; and the same
		// failure seen by a TARS and a JSON caller
		mk(c10Cfg{0, 0, 0}, false,
			c10Req{Ver: c10VerTup, ID: 7, Func: "act", Kind: c10KTarsErr, Code: 78, Msg: boom},
			c10Req{Ver: c10VerTars, ID: 8, Func: "act", Kind: c10KTarsErr, Code: 78, Msg: boom},
			c10Req{Ver: c10VerJSON, ID: 9, Func: "act", Kind: c10KTarsErr, Code: 78, Msg: boom},
			c10Req{Ver: c10VerTup, ID: 10, Func: "nosuch"}),
		// repaired 535b05c: one-way request whose handler overruns the handle timeout; repaired be28e55: the
		// handle-timeout reply of a TUP / JSON request keeps version and packet type
		mk(c10Cfg{0, 250, 0}, false,
			c10Req{Ver: c10VerTup, PType: c10OneWay, ID: 1, Func: "act", SleepMs: 750},
			c10Req{Ver: c10VerTars, PType: c10OneWay, ID: 2, Func: "act", SleepMs: 750},
			c10Req{Ver: c10VerTup, PType: 0, ID: 104, Func: "act", SleepMs: 750},
			c10Req{Ver: c10VerJSON, PType: 5, ID: 105, Func: "act", SleepMs: 750, Msg: B("m")}),
		mk(c10Cfg{1, 250, 0}, true,
			c10Req{Ver: c10VerTars, PType: c10OneWay, ID: 3, Func: "act", SleepMs: 750},
			c10Req{Ver: c10VerJSON, PType: 0, ID: 4, Func: "act", SleepMs: 750, Msg: B("m")}),
		// TUP: queue timeout behind a blocker (pool 1)
		mk(c10Cfg{1, 0, 0}, false,
			c10Req{Ver: c10VerTars, ID: 11, Func: "act", SleepMs: 500, Role: "blocker"},
			c10Req{Ver: c10VerTup, ID: 12, Func: "act", Timeout: 1, Queued: 500, Role: "queued"},
			c10Req{Ver: c10VerTars, ID: 13, Func: "act", Timeout: 100, Queued: 500, Role: "queued"},
			c10Req{Ver: c10VerJSON, ID: 14, Func: "tars_ping", Timeout: 250, Queued: 500, Role: "queued"},
			c10Req{Ver: c10VerTars, ID: 15, Func: "act", Timeout: 60000, Queued: 500, Role: "queued"}),
	}...)
}

func c10Configs(tier string) []c10Cfg {
	ht := 250
	if tier == "thorough" {
		return []c10Cfg{{0, 0, 0}, {1, 0, 0}, {3, 0, 0}, {0, ht, 0}, {1, ht, 0}, {3, ht, 0}, {2, 0, 0}, {2, 400, 0}, {8, 0, 0}, {0, 400, 0}}
	}
	return []c10Cfg{{0, 0, 0}, {1, 0, 0}, {3, 0, 0}, {0, ht, 0}, {1, ht, 0}, {3, ht, 0}}
}

// configurations with a small job queue: only the burst scenarios run against them
func c10SmallQueueConfigs(tier string) []c10Cfg {
	if tier == "thorough" {
		return []c10Cfg{{1, 0, 1}, {2, 0, -1}, {1, 0, -1}, {1, 0, 2}, {2, 0, 1}, {2, 0, 2}, {1, 250, 1}}
	}
	return []c10Cfg{{1, 0, 1}, {2, 0, -1}}
}

func c10Gen(tier string, rng *rand.Rand) []c10Scn {
	var out []c10Scn
	nt, nu, nq, nr, ns, nh, no, nb, nbq, nbr := 8, 4, 3, 2, 2, 2, 2, 1, 4, 10
	if tier == "thorough" {
		nt, nu, nq, nr, ns, nh, no, nb, nbq, nbr = 90, 36, 12, 8, 8, 8, 10, 8, 12, 40
	}
	for _, cfg := range c10Configs(tier) {
		for i := 0; i < nt; i++ {
			out = append(out, c10GenPlain(rng, cfg, false, tier))
		}
		for i := 0; i < nu; i++ {
			out = append(out, c10GenPlain(rng, cfg, true, tier))
		}
		for i := 0; i < no; i++ {
			out = append(out, c10GenOwnTimeout(rng, cfg, i%2 == 0, tier)) // UDP first
		}
		for i := 0; i < nh; i++ {
			if tier != "thorough" && i > 0 && !(cfg.Pool > 0 && cfg.HT == 0) {
				break // quick: twice where requests really wait in the pool's queue for longer than the quiescence poll, once elsewhere
			}
			out = append(out, c10GenHalfClose(rng, cfg, tier))
		}
		if cfg.Pool > 0 {
			for i := 0; i < nq; i++ {
				out = append(out, c10GenQueue(rng, cfg, i%2 == 1, tier))
			}
			for i := 0; i < nr; i++ {
				out = append(out, c10GenRaceQueue(rng, cfg, i%2 == 1, tier))
			}
		}
		if cfg.HT == 0 || tier == "thorough" {
			for i := 0; i < nb; i++ {
				out = append(out, c10GenBurstLarge(rng, cfg, i%2 == 1, tier, false))
			}
			out = append(out, c10GenBurstLarge(rng, cfg, cfg.Pool%2 == 1, tier, true))
		}
		if cfg.Pool != 1 || cfg.HT > 0 { // one worker and no handle timeout: nothing is ever in flight together
			rounds := nbr
			if cfg.Pool == 0 && cfg.HT == 0 {
				rounds = 4 * nbr // every handler is a goroutine of its own and writes itself: the most replies in flight together
			}
			for i := 0; i < rounds; i++ {
				out = append(out, c10GenBurstRound(rng, cfg, i%3 == 2, tier))
			}
		}
		if cfg.HT > 0 {
			for i := 0; i < nr; i++ {
				out = append(out, c10GenRaceHandle(rng, cfg, i%2 == 1, tier))
			}
			for i := 0; i < ns; i++ {
				out = append(out, c10GenSched(rng, cfg, i%2 == 1, tier))
			}
		}
	}
	for _, cfg := range c10SmallQueueConfigs(tier) {
		for i := 0; i < nbq; i++ {
			out = append(out, c10GenBurstQueue(rng, cfg, i%2 == 0, tier)) // UDP first
		}
		out = append(out, c10GenBurstLarge(rng, cfg, true, tier, false))
	}
	return out
}

// ---------- running: one child process per configuration ----------
func c10RunAll(dir string) func(cs []c10Scn) [][]Failure {
	return func(cs []c10Scn) [][]Failure {
		type gkey struct {
			Cfg   c10Cfg
			Sched bool
		}
		groups := map[gkey][]int{}
		var order []gkey
		for i := range cs {
			k := gkey{cs[i].Cfg, cs[i].Kind == "sched"}
			if _, ok := groups[k]; !ok {
				order = append(order, k)
			}
			groups[k] = append(groups[k], i)
		}
		fails := make([][]Failure, len(cs))
		var wg sync.WaitGroup
		sem := make(chan struct{}, 6)
		for gi, key := range order {
			wg.Add(1)
			go func(gi int, cfg c10Cfg, idx []int) {
				defer wg.Done()
				sem <- struct{}{}
				defer func() { <-sem }()
				batch := make([]c10Scn, len(idx))
				for k, i := range idx {
					batch[k] = cs[i]
				}
				res, died := c10Child(dir, gi, batch)
				for k, i := range idx {
					if k < len(res) {
						cs[i] = res[k]
					} else {
						cs[i].Err = "child did not report this scenario: " + died
					}
				}
				if died != "" && len(idx) > 0 {
					k := len(res)
					if k >= len(idx) {
						k = len(idx) - 1
					}
					fails[idx[k]] = append(fails[idx[k]], Failure{Sig: "server/died", Desc: fmt.Sprintf("the server process for pool=%d handletimeout=%dms ended while serving well-formed requests: %s", cfg.Pool, cfg.HT, died)})
				}
			}(gi, key.Cfg, groups[key])
		}
		wg.Wait()
		for i := range cs {
			if cs[i].Err != "" {
				if !strings.HasPrefix(cs[i].Err, "child did not report") {
					// three attempts in a row could not even connect / send: the server no longer accepts well-formed traffic
					fails[i] = append(fails[i], Failure{Sig: "server/unreachable", Desc: fmt.Sprintf("pool=%d handletimeout=%dms udp=%v: the scripted client could not reach the running server in three attempts: %s", cs[i].Cfg.Pool, cs[i].Cfg.HT, cs[i].UDP, cs[i].Err)})
				}
				continue
			}
			for _, f := range c10Monitor(&cs[i]) {
				fails[i] = append(fails[i], Failure{Sig: f.Sig, Desc: f.Desc})
			}
		}
		return fails
	}
}

// a child that ends before its server is up (port taken between probing and binding) is started again; that is
// the harness's problem, never a verdict
func c10Child(dir string, gi int, batch []c10Scn) ([]c10Scn, string) {
	for attempt := 0; ; attempt++ {
		res, died, started := c10ChildOnce(dir, gi, attempt, batch)
		if died == "" {
			return res, died
		}
		if started && strings.HasPrefix(died, "no result within the time limit") && attempt == 0 {
			c10Stats.mu.Lock()
			c10Stats.retried = append(c10Stats.retried, fmt.Sprintf("child for pool=%d handletimeout=%d gave no result within its time limit once; run again: %s", batch[0].Cfg.Pool, batch[0].Cfg.HT, c10Trunc(died, 400)))
			c10Stats.mu.Unlock()
			continue // like every timing-dependent observation: it counts only if it reproduces
		}
		if started {
			return res, died
		}
		if attempt == 3 {
			fatal("c10: the in-process server could not be started four times in a row: %s", died)
		}
	}
}

func c10ChildOnce(dir string, gi, attempt int, batch []c10Scn) ([]c10Scn, string, bool) {
	wd := filepath.Join(dir, fmt.Sprintf("c10-%d-%d", gi, attempt))
	os.MkdirAll(wd, 0o755)
	in, out := filepath.Join(wd, "in.json"), filepath.Join(wd, "out.json")
	b, _ := json.Marshal(batch)
	os.WriteFile(in, b, 0o644)
	cmd := exec.Command(os.Args[0], "c10-child", in, out)
	cmd.Dir = wd
	cmd.Env = append(os.Environ(), "GOTRACEBACK=single")
	if c10Tier != "thorough" && os.Getenv("C10_WAIT_CAP_S") == "" {
		cmd.Env = append(cmd.Env, "C10_WAIT_CAP_S=12")
	}
	errPath := filepath.Join(wd, "stderr.txt")
	errFile, _ := os.Create(errPath)
	if errFile != nil {
		defer errFile.Close()
		cmd.Stderr = errFile
		cmd.Stdout = errFile
	}
	sb := c10FileText(errPath)
	if err := cmd.Start(); err != nil {
		fatal("c10 child: %v", err)
	}
	ch := make(chan error, 1)
	go func() { ch <- cmd.Wait() }()
	died := ""
	select {
	case err := <-ch:
		if err != nil {
			died = fmt.Sprintf("exit: %v; stderr: %s", err, c10Trunc(sb.String(), 600))
		}
	case <-time.After(time.Duration(90+3*len(batch)) * time.Second):
		cmd.Process.Signal(syscall.SIGQUIT) // goroutine dump into the captured stderr
		select {
		case <-ch:
		case <-time.After(5 * time.Second):
			cmd.Process.Kill()
			<-ch
		}
		died = "no result within the time limit (hang; goroutine dump in " + errPath + "); harness goroutines: " + c10Trunc(c10HarnessFrames(sb.String()), 900)
	}
	var res []c10Scn
	if ob, err := os.ReadFile(out); err == nil {
		json.Unmarshal(ob, &res)
	} else if pb, err := os.ReadFile(out + ".partial"); err == nil {
		json.Unmarshal(pb, &res)
	}
	if died == "" && len(res) < len(batch) {
		died = "child ended without reporting every scenario; stderr: " + c10Trunc(sb.String(), 600)
	}
	_, serr := os.Stat(out + ".started")
	return res, died, serr == nil
}

type c10FileText string

func (f c10FileText) String() string {
	b, _ := os.ReadFile(string(f))
	return string(b)
}

// the lines of a goroutine dump that name harness or framework functions (for the failure description)
func c10HarnessFrames(dump string) string {
	var out []string
	for _, l := range strings.Split(dump, "\n") {
		if strings.HasPrefix(l, "main.c10") || strings.HasPrefix(l, "github.com/TarsCloud/TarsGo/tars") {
			out = append(out, strings.SplitN(l, "(", 2)[0])
		}
	}
	return strings.Join(out, " | ")
}

func c10Trunc(s string, n int) string {
	if len(s) > n {
		return s[:n] + "..."
	}
	return s
}

var c10Stats = struct {
	mu                                sync.Mutex
	clause, cfg, tries, races, shapes map[string]int
	reqs, replies, scenarios, skipped int
	traces                            int
	retried                           []string
}{clause: map[string]int{}, cfg: map[string]int{}, tries: map[string]int{}, races: map[string]int{}, shapes: map[string]int{}}

func c10Class(s *c10Scn) string {
	c10Stats.mu.Lock()
	c10Stats.scenarios++
	if s.Err != "" {
		c10Stats.skipped++
	}
	c10Stats.tries[fmt.Sprintf("%d", s.Tries)]++
	c10Stats.retried = append(c10Stats.retried, s.Retried...)
	c10Stats.reqs += len(s.Reqs)
	if s.Kind == "sched" && s.Err == "" {
		c10Stats.traces += len(s.Reqs)
	}
	c10Stats.replies += len(s.Obs)
	tr := "tcp"
	if s.UDP {
		tr = "udp"
	}
	c10Stats.cfg[fmt.Sprintf("%s pool=%d ht=%d %s", tr, s.Cfg.Pool, s.Cfg.HT, s.Kind)] += len(s.Reqs)
	for i := range s.Reqs {
		q := &s.Reqs[i]
		v := fmt.Sprintf("v%d", q.Ver)
		if !c10IsKnownVer(q.Ver) {
			v = "v-other"
		}
		way := "two-way"
		if q.PType == c10OneWay {
			way = "one-way"
		} else if q.PType != c10Normal {
			way = "two-way(other type)"
		}
		c10Stats.clause[fmt.Sprintf("%s %s %s %s", c10Clause(s.Cfg, q), v, way, tr)]++
		if c10Scripted(q.Func) && c10IsKnownVer(q.Ver) {
			c10Stats.shapes[fmt.Sprintf("%s %s %s %s", q.Func, c10Script(q).Class, v, way)]++
		}
	}
	if strings.HasPrefix(s.Kind, "race") {
		rets := map[int32]int32{}
		for _, ob := range s.Obs {
			if r := c10DecodeReply(ob); r.Garbage == "" {
				rets[r.ID] = r.Ret
			}
		}
		for i := range s.Reqs {
			q := &s.Reqs[i]
			if q.Race == "" {
				continue
			}
			k := ""
			ret, answered := rets[q.ID]
			switch {
			case q.Race == "queue" && q.Invoked == 0:
				k = "own timeout about the queueing time: expired"
			case q.Race == "queue":
				k = "own timeout about the queueing time: executed"
			case !answered:
				k = "handler about the handle timeout: one-way (not observable)"
			case ret != 0 && c10Script(q).Class == "ok":
				k = "handler about the handle timeout: deadline first"
			case c10Script(q).Class == "ok":
				k = "handler about the handle timeout: Invoke first"
			default:
				k = "handler about the handle timeout: failing call (outcomes differ in the message only)"
			}
			c10Stats.races[k]++
		}
	}
	c10Stats.mu.Unlock()
	// distinct (configuration, transport, clause, version, one-way?) combinations exercised
	var ks []string
	seen := map[string]bool{}
	for i := range s.Reqs {
		q := &s.Reqs[i]
		k := fmt.Sprintf("%s/v%d/ow=%v", c10Clause(s.Cfg, q), q.Ver, q.PType == c10OneWay)
		if !seen[k] {
			seen[k] = true
			ks = append(ks, k)
		}
	}
	sort.Strings(ks)
	return fmt.Sprintf("pool=%d ht=%d udp=%v %s [%s]", s.Cfg.Pool, s.Cfg.HT, s.UDP, s.Kind, strings.Join(ks, ","))
}

var c10Tier string

func c10Main(a Args) {
	c10Tier = a.Tier
	p := Prop[c10Scn]{
		ID:       "C10",
		Require:  "From TarsV Require Import Base.Hex Codec.GenCodec Rpc.Invoke.",
		CaseType: "c10_case",
		Mismatch: "c10_mismatches",
		Corr:     "Rpc.Invoke.c10_check (server_step vs. the replies written by the in-process server)",
		Rule:     "one case = one scripted connection (4-12 pipelined requests); distinct = distinct (configuration, transport, scenario kind, set of (clause, version, one-way) exercised)",
		Shard:    40,
		Corpus:   c10Corpus,
		Gen:      c10Gen,
		RunAll:   c10RunAll(a.Out),
		Coq:      c10Coq,
		Class:    c10Class,
		Extra: func(tier string, rng *rand.Rand, res *Result) {
			res.Stats["requests"] = c10Stats.reqs
			res.Stats["replies_observed"] = c10Stats.replies
			res.Stats["scenarios"] = c10Stats.scenarios
			res.Stats["scenarios_not_run_socket_error"] = c10Stats.skipped
			res.Stats["requests_per_configuration"] = c10Stats.cfg
			res.Stats["requests_per_clause_version_way_transport"] = c10Stats.clause
			res.Stats["tries_per_scenario"] = c10Stats.tries
			res.Stats["requests_per_function_shape_outcome_version_way"] = c10Stats.shapes
			res.Stats["race_outcomes_observed"] = c10Stats.races
			res.Stats["timing_failures_not_reproduced"] = c10Stats.retried
			res.Traces = c10Stats.traces // recorded S/R/T orders validated against the transition system (sched scenarios)
			res.Stats["recorded_schedules_validated"] = c10Stats.traces
		},
	}
	if a.Replay != "" {
		// a replayed scenario runs alone in its own child
		p.Gen = nil
	}
	runProp(p, a)
}

var _ = bytes.Equal
