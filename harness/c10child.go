package main

// C10 child process: one server configuration (maxroutine, handletimeout), an in-process server started through
// the public API with one TCP and one UDP adapter, the scripted servant, and the scripted raw client; see c10.go.

import (
	"context"
	"encoding/binary"
	"encoding/json"
	"errors"
	"fmt"
	"io"
	"net"
	"os"
	"sync"
	"sync/atomic"
	"time"

	"github.com/TarsCloud/TarsGo/tars"
	"github.com/TarsCloud/TarsGo/tars/protocol/codec"
	"github.com/TarsCloud/TarsGo/tars/protocol/res/requestf"
	"github.com/TarsCloud/TarsGo/tars/transport"
	"github.com/TarsCloud/TarsGo/tars/util/current"
	"github.com/TarsCloud/TarsGo/tars/util/rogger"
	c10idl "verifharness/idlgen/VerifC10"
)

// ---------- scripted servant ----------
type c10Imp struct {
	mu       sync.Mutex
	started  map[int32]int
	finished map[int32]int
	pings    int
	groups   map[int]*c10Group
	nops     int
}

// the script, shared by the functions of every shape
func (s *c10Imp) do(ctx context.Context, token, kind, code int32, msg string, sleepMs int32) (ret int32, echo string, n int32, err error) {
	s.mu.Lock()
	s.started[token]++
	s.mu.Unlock()
	defer func() {
		s.mu.Lock()
		s.finished[token]++
		s.mu.Unlock()
	}()
	if sleepMs > 0 {
		time.Sleep(time.Duration(sleepMs) * time.Millisecond)
	} else if sleepMs < 0 {
		s.barrier(int(-sleepMs)/100, int(-sleepMs)%100)
	}
	switch kind {
	case c10KTarsErr:
		return 0, "", 0, &tars.Error{Code: code, Message: msg}
	case c10KPlain:
		return 0, "", 0, errors.New(msg)
	case c10KOkCtx:
		current.SetResponseContext(ctx, map[string]string{"rc": msg})
		current.SetResponseStatus(ctx, map[string]string{"rs": msg})
	}
	return code, "e:" + msg, token ^ 0x5a5a, nil
}

// sleepMs = -(group*100 + size): the calls of one group leave in lock step, [size] at a time - the i-th arrival waits
// until the batch it belongs to is complete (or 100 ms have passed: the last batch may be short)
func (s *c10Imp) barrier(group, size int) {
	if size <= 1 {
		return
	}
	s.mu.Lock()
	if s.groups == nil {
		s.groups = map[int]*c10Group{}
	}
	g := s.groups[group]
	if g == nil {
		g = &c10Group{}
		s.groups[group] = g
	}
	g.arrived++
	batch := (g.arrived - 1) / size
	for len(g.gates) <= batch {
		g.gates = append(g.gates, make(chan struct{}))
	}
	gate := g.gates[batch]
	if g.arrived%size == 0 {
		close(gate)
	}
	s.mu.Unlock()
	select {
	case <-gate:
	case <-time.After(100 * time.Millisecond):
	}
}

type c10Group struct {
	arrived int
	gates   []chan struct{}
}

func (s *c10Imp) Act(ctx context.Context, token int32, kind int32, code int32, msg string, sleepMs int32, echo *string) (int32, error) {
	ret, e, _, err := s.do(ctx, token, kind, code, msg, sleepMs)
	if err == nil {
		*echo = e
	}
	return ret, err
}

func (s *c10Imp) Notify(ctx context.Context, token int32, kind int32, code int32, msg string, sleepMs int32) error {
	_, _, _, err := s.do(ctx, token, kind, code, msg, sleepMs)
	return err
}

func (s *c10Imp) Fetch(ctx context.Context, token int32, kind int32, code int32, msg string, sleepMs int32, echo *string, n *int32) error {
	_, e, nn, err := s.do(ctx, token, kind, code, msg, sleepMs)
	if err == nil {
		*echo, *n = e, nn
	}
	return err
}

func (s *c10Imp) Calc(ctx context.Context, token int32, kind int32, code int32, msg string, sleepMs int32) (int32, error) {
	ret, _, _, err := s.do(ctx, token, kind, code, msg, sleepMs)
	return ret, err
}

func (s *c10Imp) Mixed(ctx context.Context, token int32, echo *string, kind int32, code int32, n *int32, msg string, sleepMs int32) (int32, error) {
	ret, e, nn, err := s.do(ctx, token, kind, code, msg, sleepMs)
	if err == nil {
		*echo, *n = e, nn
	}
	return ret, err
}

func (s *c10Imp) Nop(ctx context.Context) error {
	s.mu.Lock()
	s.nops++
	s.mu.Unlock()
	return nil
}

func (s *c10Imp) Tars_ping(ctx context.Context) (int32, error) {
	s.mu.Lock()
	s.pings++
	s.mu.Unlock()
	return 7, nil
}

// ---------- server ----------
func c10FreePorts() (int, int) {
	ln, err := net.Listen("tcp", "127.0.0.1:0")
	if err != nil {
		fatal("c10: no free tcp port: %v", err)
	}
	defer ln.Close()
	pc, err := net.ListenPacket("udp", "127.0.0.1:0")
	if err != nil {
		fatal("c10: no free udp port: %v", err)
	}
	defer pc.Close()
	return ln.Addr().(*net.TCPAddr).Port, pc.LocalAddr().(*net.UDPAddr).Port
}

func c10StartServer(dir string, cfg c10Cfg, imp *c10Imp) (tcpAddr, udpAddr string, err error) {
	tp, up := c10FreePorts()
	adapter := func(name, proto string, port int) string {
		return fmt.Sprintf(`      <VerifApp.C10Server.%sObjAdapter>
        allow
        endpoint=%s -h 127.0.0.1 -p %d -t 60000
        handlegroup=VerifApp.C10Server.%sObjAdapter
        maxconns=1000
        protocol=tars
        queuecap=%d
        queuetimeout=60000
        servant=VerifApp.C10Server.%sObj
        threads=5
      </VerifApp.C10Server.%sObjAdapter>
`, name, proto, port, name, cfg.queueCap(), name, name)
	}
	conf := fmt.Sprintf(`<tars>
  <application>
    <server>
      app=VerifApp
      server=C10Server
      localip=127.0.0.1
      logLevel=ERROR
      maxroutine=%d
      handletimeout=%d
%s%s    </server>
    <client>
      async-invoke-timeout=20000
      sync-invoke-timeout=20000
    </client>
  </application>
</tars>
`, cfg.Pool, cfg.HT, adapter("Tcp", "tcp", tp), adapter("Udp", "udp", up))
	path := dir + "/c10.conf"
	if err := os.WriteFile(path, []byte(conf), 0o644); err != nil {
		return "", "", err
	}
	tars.ServerConfigPath = path
	sc := tars.GetServerConfig()
	rogger.SetLevel(rogger.OFF)
	if int(sc.MaxInvoke) != cfg.Pool || sc.HandleTimeout != time.Duration(cfg.HT)*time.Millisecond {
		return "", "", fmt.Errorf("configuration not taken: maxroutine=%d handletimeout=%v", sc.MaxInvoke, sc.HandleTimeout)
	}
	tars.AddServantWithContext(new(c10idl.Srv), imp, "VerifApp.C10Server.TcpObj")
	tars.AddServantWithContext(new(c10idl.Srv), imp, "VerifApp.C10Server.UdpObj")
	runDone := make(chan struct{})
	go func() {
		tars.Run() // returns only when the application shuts down - at start-up: because an adapter could not bind
		close(runDone)
	}()
	tcpAddr, udpAddr = fmt.Sprintf("127.0.0.1:%d", tp), fmt.Sprintf("127.0.0.1:%d", up)
	ok := false
	for i := 0; i < 400; i++ {
		c, err := net.DialTimeout("tcp", tcpAddr, 200*time.Millisecond)
		if err == nil {
			c.Close()
			ok = true
			break
		}
		time.Sleep(25 * time.Millisecond)
	}
	if !ok {
		return "", "", fmt.Errorf("server did not start listening on %s", tcpAddr)
	}
	// UDP: ping until answered
	ping := c10Req{Ver: 1, Func: "tars_ping", ID: 1}
	c10Encode(&ping)
	ok = false
	for i := 0; i < 200 && !ok; i++ {
		c, err := net.Dial("udp", udpAddr)
		if err != nil {
			return "", "", err
		}
		c.Write(ping.Pkg)
		c.SetReadDeadline(time.Now().Add(50 * time.Millisecond))
		buf := make([]byte, 65536)
		if n, err := c.Read(buf); err == nil && n >= 4 {
			ok = true
		}
		c.Close()
	}
	if !ok {
		return "", "", fmt.Errorf("udp adapter on %s does not answer", udpAddr)
	}
	rogger.SetLevel(rogger.OFF)
	// Between probing a free port and the server's bind another process (a dozen harnesses run side by side) can take
	// the port: something may answer there, but this process's application has then given up (Listen failed)
	select {
	case <-runDone:
		return "", "", fmt.Errorf("the application stopped during start-up (an adapter could not bind %s / %s: port taken by another process?)", tcpAddr, udpAddr)
	case <-time.After(150 * time.Millisecond):
	}
	return tcpAddr, udpAddr, nil
}

// ---------- sched scenarios: a TarsServer of our own around a recording wrapper of the real Protocol ----------
type c10Wrap struct {
	inner *tars.Protocol
	mu    sync.Mutex
	pre   map[int32]int32  // request id -> delay before Invoke is entered (ms)
	ev    map[int32][]byte // request id -> events in order
}

func c10PkgID(pkg []byte) int32 {
	var p requestf.RequestPacket
	if len(pkg) < 4 {
		return 0
	}
	p.ReadFrom(codec.NewReader(pkg[4:]))
	return p.IRequestId
}

func (w *c10Wrap) log(id int32, e byte) {
	w.mu.Lock()
	w.ev[id] = append(w.ev[id], e)
	w.mu.Unlock()
}

func (w *c10Wrap) Invoke(ctx context.Context, pkg []byte) []byte {
	id := c10PkgID(pkg)
	w.mu.Lock()
	d := w.pre[id]
	w.mu.Unlock()
	if d > 0 {
		time.Sleep(time.Duration(d) * time.Millisecond)
	}
	w.log(id, 'S')
	rsp := w.inner.Invoke(ctx, pkg)
	w.log(id, 'R')
	return rsp
}

func (w *c10Wrap) InvokeTimeout(pkg []byte) []byte {
	w.log(c10PkgID(pkg), 'T')
	return w.inner.InvokeTimeout(pkg)
}
func (w *c10Wrap) ParsePackage(buff []byte) (int, int) { return w.inner.ParsePackage(buff) }
func (w *c10Wrap) GetCloseMsg() []byte                 { return w.inner.GetCloseMsg() }
func (w *c10Wrap) DoClose(ctx context.Context)         { w.inner.DoClose(ctx) }

func c10StartSched(cfg c10Cfg, imp *c10Imp) (w *c10Wrap, tcpAddr, udpAddr string, err error) {
	w = &c10Wrap{inner: tars.VerifNewProtocol(new(c10idl.Srv), imp, true), pre: map[int32]int32{}, ev: map[int32][]byte{}}
	tp, up := c10FreePorts()
	tcpAddr, udpAddr = fmt.Sprintf("127.0.0.1:%d", tp), fmt.Sprintf("127.0.0.1:%d", up)
	for _, pa := range [][2]string{{"tcp", tcpAddr}, {"udp", udpAddr}} {
		conf := &transport.TarsServerConf{Proto: pa[0], Address: pa[1], MaxInvoke: int32(cfg.Pool), QueueCap: 10000,
			AcceptTimeout: 500 * time.Millisecond, ReadTimeout: time.Second, WriteTimeout: time.Second,
			HandleTimeout: time.Duration(cfg.HT) * time.Millisecond, IdleTimeout: time.Hour, TCPNoDelay: true}
		srv := transport.NewTarsServer(w, conf)
		if err := srv.Listen(); err != nil {
			return nil, "", "", err
		}
		go srv.Serve()
	}
	rogger.SetLevel(rogger.OFF)
	return w, tcpAddr, udpAddr, nil
}

var c10WaitCap = 25 * time.Second
var c10CapHits int32

// ---------- scripted raw client ----------
type c10Collector struct {
	mu   sync.Mutex
	obs  [][]byte
	conn []int
	ns   []int64 // per reply: when it was read
}

func (c *c10Collector) add(ci int, b []byte) {
	c.mu.Lock()
	c.obs = append(c.obs, append([]byte(nil), b...))
	c.conn = append(c.conn, ci)
	c.ns = append(c.ns, time.Now().UnixNano())
	c.mu.Unlock()
}
func (c *c10Collector) count() int {
	c.mu.Lock()
	defer c.mu.Unlock()
	return len(c.obs)
}

func c10ReadTCP(ci int, conn net.Conn, col *c10Collector, done chan struct{}) {
	defer close(done)
	hdr := make([]byte, 4)
	for {
		if _, err := io.ReadFull(conn, hdr); err != nil {
			return
		}
		n := int(binary.BigEndian.Uint32(hdr))
		if n < 4 || n > 64<<20 {
			col.add(ci, hdr) // garbage: recorded as it is, the monitor reports it
			return
		}
		b := make([]byte, n)
		copy(b, hdr)
		if _, err := io.ReadFull(conn, b[4:]); err != nil {
			col.add(ci, b[:4])
			return
		}
		col.add(ci, b)
	}
}

func c10ReadUDP(ci int, conn net.Conn, col *c10Collector, done chan struct{}) {
	defer close(done)
	buf := make([]byte, 65536)
	for {
		n, err := conn.Read(buf)
		if err != nil {
			return
		}
		col.add(ci, buf[:n])
	}
}

// one attempt at a scenario: send everything, wait until the expected replies have arrived and the scripted
// implementation calls have ended, then keep listening for a grace period (duplicates, replies to one-way requests)
func c10RunOnce(s *c10Scn, addr string, imp *c10Imp) error {
	proto := "tcp"
	if s.UDP {
		proto = "udp"
	}
	col := &c10Collector{}
	conns := make([]net.Conn, s.Conns)
	dones := make([]chan struct{}, s.Conns)
	for i := range conns {
		c, err := net.DialTimeout(proto, addr, 2*time.Second)
		if err != nil {
			return err
		}
		conns[i] = c
		dones[i] = make(chan struct{})
		if s.UDP {
			go c10ReadUDP(i, c, col, dones[i])
		} else {
			go c10ReadTCP(i, c, col, dones[i])
		}
	}
	imp.mu.Lock()
	for i := range s.Reqs {
		delete(imp.started, s.Reqs[i].Token)
		delete(imp.finished, s.Reqs[i].Token)
	}
	ping0 := imp.pings
	imp.mu.Unlock()

	wantReplies, wantCalls := 0, []int32{}
	longest := 0
	for i := range s.Reqs {
		q := &s.Reqs[i]
		if q.PType != 1 {
			wantReplies++
		}
		if c10Dispatched(s.Cfg, q) && c10Scripted(q.Func) && c10IsKnownVer(q.Ver) {
			wantCalls = append(wantCalls, q.Token)
		}
		if int(q.SleepMs) > longest {
			longest = int(q.SleepMs)
		}
	}
	// send: per connection the concatenation of its requests (TCP: in scripted chunk sizes; UDP: one datagram each)
	var sendErr error
	var sendMu sync.Mutex
	setErr := func(err error) {
		sendMu.Lock()
		sendErr = err
		sendMu.Unlock()
	}
	var wg sync.WaitGroup
	for ci := range conns {
		wg.Add(1)
		go func(ci int) {
			defer wg.Done()
			if s.StaggerMs > 0 && ci > 0 {
				time.Sleep(time.Duration(ci*s.StaggerMs) * time.Millisecond)
			}
			if s.HalfClose && ci > 0 {
				defer func() {
					if tc, ok := conns[ci].(*net.TCPConn); ok {
						tc.CloseWrite() // FIN: the server's receive loop for this connection sees EOF
					}
				}()
			}
			var stream []byte
			for i := range s.Reqs {
				if i%s.Conns != ci {
					continue
				}
				if ph := s.Reqs[i].Phase; ph > 0 {
					// one request at a time, when the wall clock's millisecond part reaches the scripted phase
					now := time.Now()
					d := time.Duration(ph)*time.Millisecond - time.Duration(now.Nanosecond())
					if d < 0 {
						d += time.Second
					}
					time.Sleep(d)
					s.Reqs[i].SendNs = time.Now().UnixNano()
					if _, err := conns[ci].Write(s.Reqs[i].Pkg); err != nil {
						setErr(err)
					}
					continue
				}
				s.Reqs[i].SendNs = time.Now().UnixNano() // not later than the server's receipt (TCP: before the first write of the stream)
				if s.UDP {
					if _, err := conns[ci].Write(s.Reqs[i].Pkg); err != nil {
						setErr(err)
					}
					continue
				}
				stream = append(stream, s.Reqs[i].Pkg...)
			}
			for k := 0; len(stream) > 0; k++ {
				n := 4096
				if len(s.Chunks) > 0 {
					n = s.Chunks[k%len(s.Chunks)]
				}
				if n > len(stream) {
					n = len(stream)
				}
				if _, err := conns[ci].Write(stream[:n]); err != nil {
					setErr(err)
					return
				}
				stream = stream[n:]
				if s.ChunkPauseMs > 0 && len(stream) > 0 {
					time.Sleep(time.Duration(s.ChunkPauseMs) * time.Millisecond)
				}
			}
		}(ci)
	}
	wg.Wait()
	if sendErr != nil {
		for _, c := range conns {
			c.Close()
		}
		return sendErr
	}
	waitCap := c10WaitCap
	if atomic.LoadInt32(&c10CapHits) >= 3 && waitCap > 3*time.Second {
		waitCap = 3 * time.Second // the expected replies / calls keep not coming: the verdict is settled, do not wait it out every time
	}
	deadline := time.Now().Add(waitCap)
	callsDone := func() bool {
		imp.mu.Lock()
		defer imp.mu.Unlock()
		for _, t := range wantCalls {
			if imp.finished[t] < 1 {
				return false
			}
		}
		for i := range s.Reqs { // and nothing of this scenario is still running
			t := s.Reqs[i].Token
			if imp.started[t] != imp.finished[t] {
				return false
			}
		}
		return true
	}
	for time.Now().Before(deadline) && !(col.count() >= wantReplies && callsDone()) {
		time.Sleep(5 * time.Millisecond)
	}
	if !(col.count() >= wantReplies && callsDone()) {
		atomic.AddInt32(&c10CapHits, 1)
		imp.mu.Lock()
		s.Note = fmt.Sprintf("gave up waiting after %v: %d of %d expected replies, implementation log %v / %v for the calls %v", waitCap, col.count(), wantReplies, imp.started, imp.finished, wantCalls)
		imp.mu.Unlock()
	} else {
		s.Note = ""
	}
	grace := 300 * time.Millisecond
	if s.Cfg.HT > 0 {
		grace = 400 * time.Millisecond
	}
	time.Sleep(grace)
	// let calls that were not expected at all (or are still running) end, so that a retry starts clean
	for time.Now().Before(deadline) && !callsDone() {
		time.Sleep(5 * time.Millisecond)
	}
	for _, c := range conns {
		c.Close()
	}
	for _, d := range dones {
		<-d
	}
	col.mu.Lock()
	s.Obs = toB(col.obs)
	s.ObsConn = append([]int(nil), col.conn...)
	s.ObsNs = append([]int64(nil), col.ns...)
	col.mu.Unlock()
	imp.mu.Lock()
	for i := range s.Reqs {
		s.Reqs[i].Invoked = imp.started[s.Reqs[i].Token]
	}
	s.PingCalls = imp.pings - ping0
	imp.mu.Unlock()
	return nil
}

func c10ChildMain(inPath, outPath string) {
	b, err := os.ReadFile(inPath)
	if err != nil {
		fatal("c10 child: %v", err)
	}
	var batch []c10Scn
	if err := json.Unmarshal(b, &batch); err != nil {
		fatal("c10 child: %v", err)
	}
	if len(batch) == 0 {
		os.WriteFile(outPath, []byte("[]"), 0o644)
		return
	}
	if v := os.Getenv("C10_WAIT_CAP_S"); v != "" {
		var n int
		fmt.Sscan(v, &n)
		if n > 0 {
			c10WaitCap = time.Duration(n) * time.Second
		}
	}
	imp := &c10Imp{started: map[int32]int{}, finished: map[int32]int{}}
	dir, _ := os.Getwd()
	var tcpAddr, udpAddr string
	var wrap *c10Wrap
	if batch[0].Kind == "sched" {
		wrap, tcpAddr, udpAddr, err = c10StartSched(batch[0].Cfg, imp)
	} else {
		tcpAddr, udpAddr, err = c10StartServer(dir, batch[0].Cfg, imp)
	}
	if err != nil {
		fatal("c10 child: server: %v", err)
	}
	os.WriteFile(outPath+".started", []byte("ok"), 0o644) // from here on the end of this process is the server's doing
	// scenarios run concurrently (they share the adapters' worker pools, which only lengthens queueing); the
	// scenarios that use tars_ping are serialised among themselves so that the servant's ping counter is attributable
	var wg sync.WaitGroup
	sem := make(chan struct{}, 6)
	if wrap != nil {
		sem = make(chan struct{}, 1) // the wrapper's script is keyed by request id: one scenario at a time
	}
	var pingMu sync.Mutex
	var outMu sync.Mutex
	var persistent int32
	flush := func() {
		outMu.Lock()
		pb, _ := json.Marshal(batch)
		outMu.Unlock()
		os.WriteFile(outPath+".tmp", pb, 0o644)
		os.Rename(outPath+".tmp", outPath+".partial")
	}
	runScn := func(s *c10Scn) {
		addr := tcpAddr
		if s.UDP {
			addr = udpAddr
		}
		hasPing := false
		for k := range s.Reqs {
			if s.Reqs[k].Func == "tars_ping" {
				hasPing = true
			}
		}
		if hasPing {
			pingMu.Lock()
			defer pingMu.Unlock()
		}
		for try := 1; try <= 3; try++ {
			if try > 1 && atomic.LoadInt32(&persistent) >= 2 {
				break // two scenarios have already failed three times in a row: no point in re-running every other one
			}
			s.Tries = try
			if wrap != nil {
				wrap.mu.Lock()
				wrap.pre, wrap.ev = map[int32]int32{}, map[int32][]byte{}
				for k := range s.Reqs {
					wrap.pre[s.Reqs[k].ID] = s.Reqs[k].Pre
				}
				wrap.mu.Unlock()
			}
			if err := c10RunOnce(s, addr, imp); err != nil {
				s.Err = err.Error()
				continue
			}
			s.Err = ""
			if wrap != nil {
				// every Invoke of this scenario has returned by now or does so shortly: wait for the R events
				for k := 0; k < 400; k++ {
					wrap.mu.Lock()
					done := true
					for i := range s.Reqs {
						ev := wrap.ev[s.Reqs[i].ID]
						if len(ev) == 0 || ev[len(ev)-1] != 'R' && !(len(ev) >= 2 && ev[len(ev)-2] == 'R') {
							done = false
						}
					}
					wrap.mu.Unlock()
					if done {
						break
					}
					time.Sleep(10 * time.Millisecond)
				}
				wrap.mu.Lock()
				for i := range s.Reqs {
					s.Reqs[i].Events = string(wrap.ev[s.Reqs[i].ID])
				}
				wrap.mu.Unlock()
			}
			fs := c10Monitor(s)
			retry := false
			for _, f := range fs {
				if f.Timing {
					retry = true
				}
			}
			if !retry {
				break
			}
			if try == 3 {
				atomic.AddInt32(&persistent, 1)
			}
			if try < 3 {
				for _, f := range fs {
					if f.Timing {
						s.Retried = append(s.Retried, fmt.Sprintf("try %d: %s: %s", try, f.Sig, f.Desc))
					}
				}
			}
		}
	}
	// first the scenarios that must find the server idle, one at a time; then the rest, concurrently
	for i := range batch {
		if batch[i].Exclusive {
			runScn(&batch[i])
		}
	}
	for i := range batch {
		if batch[i].Exclusive {
			continue
		}
		wg.Add(1)
		sem <- struct{}{}
		go func(s *c10Scn) {
			defer wg.Done()
			defer func() { <-sem }()
			runScn(s)
		}(&batch[i])
	}
	wg.Wait()
	flush()
	outMu.Lock()
	ob, _ := json.Marshal(batch)
	outMu.Unlock()
	if err := os.WriteFile(outPath, ob, 0o644); err != nil {
		fatal("c10 child: %v", err)
	}
	os.Exit(0)
}

func init() {
	props["c10-child"] = func(a Args) {
		if len(os.Args) < 4 {
			fatal("usage: c10-child in.json out.json")
		}
		c10ChildMain(os.Args[2], os.Args[3])
	}
}
