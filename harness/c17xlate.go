package main

// C17 — source-to-model translation of the line-level logic of tars/util/conf/conf.go (`harness gen-c17xlate` ->
// coq/Gen/ConfTranslated.v). The Go source of the CURRENT tree is parsed on every run and a small subset of Go over
// strings is translated compositionally into Gallina over coq/Conf/GoStr.v; coq/Conf/ConfXlate.v proves the
// translation equal to the hand-written model for all inputs, so an edit of the source that changes the meaning
// breaks layer L1. Units:
//   tr_conf_line       the body of `for lineDecoder.Scan() {...}` in InitFromBytes (effects on the current element)
//   tr_analysisPath    elem.analysisPath
//   tr_Get*WithDef     GetStringWithDef, GetIntWithDef, GetInt32WithDef, GetBoolWithDef (getValue is an oracle)
// plus the statements around the line loop, pinned. Anything outside the subset is emitted as an undefined
// identifier, so that the generated file does not compile (the driver keeps a stale file when a generator fails).

import (
	"bytes"
	"fmt"
	"go/ast"
	"go/parser"
	"go/printer"
	"go/token"
	"os"
	"path/filepath"
	"strconv"
	"strings"
)

type cxT int

const (
	cxUnknown cxT = iota
	cxStr
	cxStrs
	cxInt
	cxByte
	cxBool
	cxErr
	cxElem  // (kind, name, value) of a freshly made element
	cxNode  // an element as its methods and the getters see it: record gelem
	cxChild // a child of it: record gchild
	cxMapSS // map[string]string as an association list
	cxMapSC // map[string]*elem as an association list of gchild
	cxOptC  // *elem result of a map lookup: option gchild
	cxOptH  // *elem as an abstract handle (getElem): option H, nil = None
)

type cxl struct {
	fset    *token.FileSet
	vars    map[string]cxT    // Go variable -> type (Gallina name = "g_" + name)
	consts  map[string]string // package-level names -> Gallina definitions emitted
	bad     int
	notes   []string
	oracles map[string][2]string // source text of a call -> Gallina term, type tag ("str", "strerr")
	effects bool                 // unit A: calls on currNode are effects appended to g_eff
	carried []string             // inside a range loop: the loop-carried variables
	inLoop  bool
	ret     cxT
	named   []string // named results of the function (a bare return yields them)
	loopRet bool     // inside a range loop whose body returns: the loop state is carried + result
}

func (x *cxl) src(n ast.Node) string {
	var b bytes.Buffer
	printer.Fprint(&b, x.fset, n)
	return b.String()
}

func (x *cxl) unsupported(n ast.Node, why string) string {
	x.bad++
	x.notes = append(x.notes, fmt.Sprintf("%s: %s", why, strings.SplitN(x.src(n), "\n", 2)[0]))
	return fmt.Sprintf("(go_unsupported_%d (* %s *))", x.bad, why)
}

func cxBytes(s string) string {
	if s == "" {
		return "([] : gstr)"
	}
	p := make([]string, len(s))
	for i := 0; i < len(s); i++ {
		p[i] = strconv.Itoa(int(s[i]))
	}
	return "([" + strings.Join(p, "; ") + "]%N : gstr)"
}

type cxGuards []string

func cxConj(g cxGuards) string {
	if len(g) == 0 {
		return "true"
	}
	return "(" + strings.Join(g, " && ") + ")"
}

// expr: Gallina term and type of a Go expression; run-time checks are appended to g
func (x *cxl) expr(e ast.Expr, g *cxGuards) (string, cxT) {
	switch e := e.(type) {
	case *ast.ParenExpr:
		return x.expr(e.X, g)
	case *ast.BasicLit:
		switch e.Kind {
		case token.STRING:
			s, err := strconv.Unquote(e.Value)
			if err != nil {
				return x.unsupported(e, "string literal"), cxStr
			}
			return cxBytes(s), cxStr
		case token.CHAR:
			s, err := strconv.Unquote(e.Value)
			if err != nil || len(s) != 1 {
				return x.unsupported(e, "character literal"), cxByte
			}
			return fmt.Sprintf("%d%%N", s[0]), cxByte
		case token.INT:
			return "(" + e.Value + ")", cxInt
		}
	case *ast.Ident:
		switch e.Name {
		case "true", "false":
			return e.Name, cxBool
		case "nil":
			if x.ret == cxOptH {
				return "None", cxOptH
			}
			return "false", cxErr
		}
		if t, ok := x.vars[e.Name]; ok {
			return "g_" + e.Name, t
		}
		if d, ok := x.consts[e.Name]; ok {
			if strings.HasPrefix(d, "Z:") {
				return "k_conf_" + e.Name, cxInt
			}
			return "k_conf_" + e.Name, cxStr
		}
	case *ast.UnaryExpr:
		if e.Op == token.NOT {
			a, _ := x.expr(e.X, g)
			return "(negb " + a + ")", cxBool
		}
		if e.Op == token.SUB {
			a, _ := x.expr(e.X, g)
			return "(- " + a + ")", cxInt
		}
		if e.Op == token.AND {
			if _, ok := e.X.(*ast.CompositeLit); ok {
				return x.expr(e.X, g)
			}
		}
	case *ast.BinaryExpr:
		if e.Op == token.LAND || e.Op == token.LOR {
			a, _ := x.expr(e.X, g)
			var gr cxGuards
			b, _ := x.expr(e.Y, &gr)
			if e.Op == token.LAND {
				if len(gr) > 0 {
					*g = append(*g, "(if "+a+" then "+cxConj(gr)+" else true)")
				}
				return "(if " + a + " then " + b + " else false)", cxBool
			}
			if len(gr) > 0 {
				*g = append(*g, "(if "+a+" then true else "+cxConj(gr)+")")
			}
			return "(if " + a + " then true else " + b + ")", cxBool
		}
		a, ta := x.expr(e.X, g)
		b, tb := x.expr(e.Y, g)
		t := ta
		if t == cxUnknown {
			t = tb
		}
		switch e.Op {
		case token.EQL, token.NEQ:
			var c string
			switch t {
			case cxStr:
				c = "(gs_eqb " + a + " " + b + ")"
			case cxByte:
				c = "(N.eqb " + a + " " + b + ")"
			case cxInt:
				c = "(Z.eqb " + a + " " + b + ")"
			case cxBool, cxErr:
				c = "(Bool.eqb " + a + " " + b + ")"
			default:
				return x.unsupported(e, "comparison at an unknown type"), cxBool
			}
			if e.Op == token.NEQ {
				c = "(negb " + c + ")"
			}
			return c, cxBool
		case token.LSS, token.LEQ, token.GTR, token.GEQ:
			if t != cxInt {
				return x.unsupported(e, "ordering at a type other than int"), cxBool
			}
			op := map[token.Token]string{token.LSS: "Z.ltb", token.LEQ: "Z.leb", token.GTR: "Z.gtb", token.GEQ: "Z.geb"}[e.Op]
			return "(" + op + " " + a + " " + b + ")", cxBool
		case token.ADD:
			if t == cxStr {
				return "(" + a + " ++ " + b + ")", cxStr
			}
			return "(" + a + " + " + b + ")", cxInt
		case token.SUB:
			return "(" + a + " - " + b + ")", cxInt
		}
	case *ast.IndexExpr:
		a, ta := x.expr(e.X, g)
		i, _ := x.expr(e.Index, g)
		*g = append(*g, "(gs_in_range "+a+" "+i+")")
		switch ta {
		case cxStr:
			return "(gs_nth " + a + " " + i + " 0%N)", cxByte
		case cxStrs:
			return "(gs_nth " + a + " " + i + " [])", cxStr
		}
	case *ast.SliceExpr:
		if e.Slice3 {
			break
		}
		a, ta := x.expr(e.X, g)
		lo, hi := "0", "(gs_len "+a+")"
		if e.Low != nil {
			lo, _ = x.expr(e.Low, g)
		}
		if e.High != nil {
			hi, _ = x.expr(e.High, g)
		}
		*g = append(*g, "(gs_slice_ok "+a+" "+lo+" "+hi+")")
		if ta == cxStr || ta == cxStrs {
			return "(gs_slice " + a + " " + lo + " " + hi + ")", ta
		}
	case *ast.SelectorExpr:
		if id, ok := e.X.(*ast.Ident); ok {
			fields := map[cxT]map[string][2]interface{}{
				cxNode:  {"kind": {"ge_kind", cxInt}, "name": {"ge_name", cxStr}, "value": {"ge_value", cxStr}, "children": {"ge_children", cxMapSC}, "line": {"ge_line", cxStrs}},
				cxChild: {"kind": {"gc_kind", cxInt}, "name": {"gc_name", cxStr}, "value": {"gc_value", cxStr}},
			}
			if f, ok := fields[x.vars[id.Name]][e.Sel.Name]; ok {
				return "(" + f[0].(string) + " g_" + id.Name + ")", f[1].(cxT)
			}
		}
	case *ast.CompositeLit:
		if x.src(e.Type) == "elem" {
			vals := map[string]string{"kind": "0", "name": "([] : gstr)", "value": "([] : gstr)", "children": "[]", "line": "[]"}
			okAll := true
			for _, el := range e.Elts {
				kv, ok := el.(*ast.KeyValueExpr)
				if !ok {
					okAll = false
					break
				}
				k, _ := kv.Key.(*ast.Ident)
				if k == nil {
					okAll = false
					break
				}
				if _, known := vals[k.Name]; !known {
					okAll = false
					break
				}
				if c, isCall := kv.Value.(*ast.CallExpr); isCall && x.src(c) == "make(map[string]*elem)" {
					vals[k.Name] = "[]"
					continue
				}
				vals[k.Name], _ = x.expr(kv.Value, g)
			}
			if okAll {
				return "{| ge_kind := " + vals["kind"] + "; ge_name := " + vals["name"] + "; ge_value := " + vals["value"] + "; ge_children := " + vals["children"] + "; ge_line := " + vals["line"] + " |}", cxNode
			}
		}
	case *ast.CallExpr:
		return x.call(e, g)
	}
	return x.unsupported(e, "expression outside the subset"), cxUnknown
}

func (x *cxl) call(e *ast.CallExpr, g *cxGuards) (string, cxT) {
	key := x.src(e)
	if o, ok := x.oracles[key]; ok && o[1] == "str" {
		return o[0], cxStr
	}
	args := func() ([]string, []cxT) {
		var as []string
		var ts []cxT
		for _, a := range e.Args {
			s, t := x.expr(a, g)
			as, ts = append(as, s), append(ts, t)
		}
		return as, ts
	}
	if x.src(e.Fun) == "errors.New" && len(e.Args) == 1 {
		return "true", cxErr
	}
	switch f := e.Fun.(type) {
	case *ast.Ident:
		switch f.Name {
		case "len":
			as, _ := args()
			if len(as) == 1 {
				return "(gs_len " + as[0] + ")", cxInt
			}
		case "append":
			as, ts := args()
			if len(as) >= 1 && ts[0] == cxStrs && !e.Ellipsis.IsValid() {
				return "(" + as[0] + " ++ [" + strings.Join(as[1:], "; ") + "])", cxStrs
			}
			if len(as) == 2 && ts[0] == cxStrs && ts[1] == cxStrs && e.Ellipsis.IsValid() {
				return "(" + as[0] + " ++ " + as[1] + ")", cxStrs
			}
		case "make":
			if x.src(e) == "make(map[string]string)" {
				return "([] : list (gstr * gstr))", cxMapSS
			}
		case "int", "int32", "int64":
			as, _ := args()
			if len(as) == 1 {
				return as[0], cxInt
			}
		case "newElem":
			as, _ := args()
			if len(as) == 2 {
				return "(" + as[0] + ", " + as[1] + ", ([] : gstr))", cxElem
			}
		}
	case *ast.SelectorExpr:
		pkg, _ := f.X.(*ast.Ident)
		if pkg != nil && x.vars[pkg.Name] == cxChild && (f.Sel.Name == "isNode" || f.Sel.Name == "isLeaf") && len(e.Args) == 0 {
			t := "(tr_" + f.Sel.Name + " g_" + pkg.Name + ")"
			*g = append(*g, "(gs_is_some "+t+")")
			return "(gs_get false " + t + ")", cxBool
		}
		if pkg != nil && pkg.Name == "strings" {
			as, _ := args()
			type sig struct {
				n   int
				f   string
				t   cxT
				ord []int
			}
			tab := map[string]sig{
				"Trim": {2, "gs_trim", cxStr, []int{1, 0}}, "TrimLeft": {2, "gs_trim_left", cxStr, []int{1, 0}}, "TrimRight": {2, "gs_trim_right", cxStr, []int{1, 0}},
				"TrimSpace": {1, "gs_trim_space", cxStr, []int{0}}, "TrimPrefix": {2, "gs_trim_prefix", cxStr, []int{0, 1}}, "TrimSuffix": {2, "gs_trim_suffix", cxStr, []int{0, 1}},
				"Split": {2, "gs_split", cxStrs, []int{0, 1}}, "SplitN": {3, "gs_splitn", cxStrs, []int{0, 1, 2}}, "Contains": {2, "gs_contains", cxBool, []int{0, 1}},
				"IndexByte": {2, "gs_index_byte", cxInt, []int{0, 1}}, "HasPrefix": {2, "gs_has_prefix", cxBool, []int{0, 1}}, "HasSuffix": {2, "gs_has_suffix", cxBool, []int{0, 1}},
			}
			if s, ok := tab[f.Sel.Name]; ok && len(as) == s.n {
				t := "(" + s.f
				for _, i := range s.ord {
					t += " " + as[i]
				}
				return t + ")", s.t
			}
		}
	}
	return x.unsupported(e, "call outside the subset"), cxUnknown
}

// pair-valued calls: value, err := f(...)
func (x *cxl) call2(e ast.Expr, g *cxGuards) (string, cxT, bool) {
	c, ok := e.(*ast.CallExpr)
	if !ok {
		return "", 0, false
	}
	if o, ok := x.oracles[x.src(c)]; ok && o[1] == "strerr" {
		return o[0], cxStr, true
	}
	if o, ok := x.oracles[x.src(c)]; ok && o[1] == "nodeerr" {
		return o[0], cxNode, true
	}
	f, ok := c.Fun.(*ast.SelectorExpr)
	if !ok {
		return "", 0, false
	}
	pkg, _ := f.X.(*ast.Ident)
	if pkg != nil && x.vars[pkg.Name] == cxOptH && f.Sel.Name == "findChild" && len(c.Args) == 1 {
		a, _ := x.expr(c.Args[0], g)
		*g = append(*g, "(gs_is_some g_"+pkg.Name+")")
		return "(gs_find g_findChild g_" + pkg.Name + " " + a + ")", cxOptH, true
	}
	if pkg == nil || pkg.Name != "strconv" {
		return "", 0, false
	}
	var as []string
	for _, a := range c.Args {
		s, _ := x.expr(a, g)
		as = append(as, s)
	}
	switch {
	case f.Sel.Name == "Atoi" && len(as) == 1:
		return "(gs_atoi " + as[0] + ")", cxInt, true
	case f.Sel.Name == "ParseInt" && len(as) == 3:
		return "(gs_parse_int " + as[0] + " " + as[1] + " " + as[2] + ")", cxInt, true
	case f.Sel.Name == "ParseBool" && len(as) == 1:
		return "(gs_parse_bool " + as[0] + ")", cxBool, true
	}
	return "", 0, false
}

func (x *cxl) fall() string { // the value of a statement list that falls off its end
	if x.inLoop && x.loopRet {
		return "Some (inl " + x.tuple(x.carried) + ")"
	}
	if x.inLoop {
		return "Some " + x.tuple(x.carried)
	}
	if x.effects {
		return "Some g_eff"
	}
	return x.unsupported(&ast.EmptyStmt{}, "function body falls off its end")
}

func (x *cxl) tuple(vs []string) string {
	p := make([]string, len(vs))
	for i, v := range vs {
		p[i] = "g_" + v
	}
	if len(p) == 1 {
		return p[0]
	}
	return "(" + strings.Join(p, ", ") + ")"
}

func cxGuarded(g cxGuards, t string) string {
	if len(g) == 0 {
		return t
	}
	return "(if " + cxConj(g) + " then (" + t + ") else None)"
}

func cxInd(d int) string { return "\n" + strings.Repeat("  ", d) }

func (x *cxl) block(ss []ast.Stmt, rest func() string, d int) string {
	if len(ss) == 0 {
		return rest()
	}
	return x.stmt(ss[0], func() string { return x.block(ss[1:], rest, d) }, d)
}

func (x *cxl) bind(name string, t cxT) { x.vars[name] = t }

func (x *cxl) stmt(s ast.Stmt, rest func() string, d int) string {
	var g cxGuards
	switch s := s.(type) {
	case *ast.AssignStmt:
		if len(s.Lhs) == 1 && len(s.Rhs) == 1 {
			// pathVec := e.analysisPath(path): a call of the translated function
			if c, ok := s.Rhs[0].(*ast.CallExpr); ok && len(c.Args) == 1 {
				if f, ok := c.Fun.(*ast.SelectorExpr); ok && f.Sel.Name == "analysisPath" {
					if id, ok := s.Lhs[0].(*ast.Ident); ok {
						a, _ := x.expr(c.Args[0], &g)
						x.bind(id.Name, cxStrs)
						return cxGuarded(g, "match tr_analysisPath "+a+" with None => None | Some g_"+id.Name+" =>"+cxInd(d)+rest()+cxInd(d)+"end")
					}
				}
			}
			// e.f = v on an element variable
			if sel, ok := s.Lhs[0].(*ast.SelectorExpr); ok && s.Tok == token.ASSIGN {
				if id, ok := sel.X.(*ast.Ident); ok && x.vars[id.Name] == cxNode {
					set := map[string]string{"value": "ge_set_value", "line": "ge_set_line", "children": "ge_set_children"}[sel.Sel.Name]
					if set != "" {
						v, _ := x.expr(s.Rhs[0], &g)
						return cxGuarded(g, "let g_"+id.Name+" := "+set+" g_"+id.Name+" "+v+" in"+cxInd(d)+rest())
					}
				}
			}
			// m[k] = v on a map variable or on the children of an element variable
			if ix, ok := s.Lhs[0].(*ast.IndexExpr); ok && s.Tok == token.ASSIGN {
				k, _ := x.expr(ix.Index, &g)
				v, _ := x.expr(s.Rhs[0], &g)
				if id, ok := ix.X.(*ast.Ident); ok && x.vars[id.Name] == cxMapSS {
					return cxGuarded(g, "let g_"+id.Name+" := gs_map_set g_"+id.Name+" "+k+" "+v+" in"+cxInd(d)+rest())
				}
				if sel, ok := ix.X.(*ast.SelectorExpr); ok && sel.Sel.Name == "children" {
					if id, ok := sel.X.(*ast.Ident); ok && x.vars[id.Name] == cxNode {
						return cxGuarded(g, "let g_"+id.Name+" := ge_set_children g_"+id.Name+" (gs_map_set (ge_children g_"+id.Name+") "+k+" "+v+") in"+cxInd(d)+rest())
					}
				}
			}
		}
		if len(s.Lhs) == 2 && len(s.Rhs) == 1 {
			// ret, ok = e.children[name]
			if ix, ok := s.Rhs[0].(*ast.IndexExpr); ok {
				m, mt := x.expr(ix.X, &g)
				k, _ := x.expr(ix.Index, &g)
				a, aok := s.Lhs[0].(*ast.Ident)
				b, bok := s.Lhs[1].(*ast.Ident)
				if aok && bok && mt == cxMapSC {
					x.bind(a.Name, cxOptC)
					x.bind(b.Name, cxBool)
					return cxGuarded(g, "let '(g_"+a.Name+", g_"+b.Name+") := gs_map_get2 "+m+" "+k+" in"+cxInd(d)+rest())
				}
			}
		}
		if len(s.Lhs) == 2 && len(s.Rhs) == 1 {
			if t, ty, ok := x.call2(s.Rhs[0], &g); ok {
				a, aok := s.Lhs[0].(*ast.Ident)
				b, bok := s.Lhs[1].(*ast.Ident)
				if aok && bok {
					x.bind(a.Name, ty)
					x.bind(b.Name, cxErr)
					return cxGuarded(g, "let '(g_"+a.Name+", g_"+b.Name+") := "+t+" in"+cxInd(d)+rest())
				}
			}
		}
		if len(s.Lhs) == len(s.Rhs) && (s.Tok == token.DEFINE || s.Tok == token.ASSIGN) {
			var names, terms []string
			var tys []cxT
			for i := range s.Lhs {
				id, ok := s.Lhs[i].(*ast.Ident)
				if !ok {
					return x.unsupported(s, "assignment to something that is not a variable")
				}
				if s.Tok == token.ASSIGN {
					if _, known := x.vars[id.Name]; !known && id.Name != "_" {
						return x.unsupported(s, "assignment to a variable declared outside the translated statements")
					}
				}
				t, ty := x.expr(s.Rhs[i], &g)
				names, terms, tys = append(names, id.Name), append(terms, t), append(tys, ty)
			}
			out := ""
			if len(names) == 1 {
				out = "let g_" + names[0] + " := " + terms[0] + " in"
			} else {
				var ps []string
				for _, n := range names {
					ps = append(ps, "g_"+n)
				}
				out = "let '(" + strings.Join(ps, ", ") + ") := (" + strings.Join(terms, ", ") + ") in"
			}
			for i, n := range names {
				x.bind(n, tys[i])
			}
			return cxGuarded(g, out+cxInd(d)+rest())
		}
	case *ast.DeclStmt:
		if gd, ok := s.Decl.(*ast.GenDecl); ok && gd.Tok == token.VAR && len(gd.Specs) == 1 {
			vs := gd.Specs[0].(*ast.ValueSpec)
			if len(vs.Names) == 1 && len(vs.Values) == 0 && x.src(vs.Type) == "[]string" {
				x.bind(vs.Names[0].Name, cxStrs)
				return "let g_" + vs.Names[0].Name + " := ([] : list gstr) in" + cxInd(d) + rest()
			}
		}
	case *ast.ExprStmt:
		if c, ok := s.X.(*ast.CallExpr); ok {
			if f, ok := c.Fun.(*ast.SelectorExpr); ok {
				recv, _ := f.X.(*ast.Ident)
				var as []string
				var ts []cxT
				for _, a := range c.Args {
					t, ty := x.expr(a, &g)
					as, ts = append(as, t), append(ts, ty)
				}
				if recv != nil && x.effects && recv.Name == "currNode" {
					switch {
					case f.Sel.Name == "addLine" && len(as) == 1 && ts[0] == cxStr:
						return cxGuarded(g, "let g_eff := g_eff ++ [EffAddLine "+as[0]+"] in"+cxInd(d)+rest())
					case f.Sel.Name == "addChild" && len(as) == 2 && ts[0] == cxStr && ts[1] == cxElem:
						return cxGuarded(g, "let g_eff := g_eff ++ [EffAddChild "+as[0]+" "+as[1]+"] in"+cxInd(d)+rest())
					}
				}
				if recv != nil && x.vars[recv.Name] == cxElem && f.Sel.Name == "setValue" && len(as) == 1 && ts[0] == cxStr {
					v := "g_" + recv.Name
					return cxGuarded(g, "let "+v+" := (fst (fst "+v+"), snd (fst "+v+"), "+as[0]+") in"+cxInd(d)+rest())
				}
			}
		}
	case *ast.DeferStmt:
		// handled by the caller (ignored lock statements)
	case *ast.BranchStmt:
		if s.Tok == token.CONTINUE && s.Label == nil && (x.effects || x.inLoop) {
			return x.fall()
		}
	case *ast.ReturnStmt:
		if x.inLoop && x.loopRet && len(s.Results) == 2 {
			x.ret = cxOptH
			a, _ := x.expr(s.Results[0], &g)
			x.ret = cxUnknown
			b, _ := x.expr(s.Results[1], &g)
			return cxGuarded(g, "Some (inr ("+a+", "+b+"))")
		}
		if !x.inLoop && !x.effects && len(s.Results) == 1 {
			t, _ := x.expr(s.Results[0], &g)
			return cxGuarded(g, "Some "+t)
		}
		if !x.inLoop && !x.effects && len(s.Results) == 2 {
			a, _ := x.expr(s.Results[0], &g)
			b, _ := x.expr(s.Results[1], &g)
			return cxGuarded(g, "Some ("+a+", "+b+")")
		}
		if !x.inLoop && !x.effects && len(s.Results) == 0 {
			if len(x.named) > 0 {
				return "Some " + x.tuple(x.named)
			}
			return "Some tt"
		}
	case *ast.IfStmt:
		if s.Init != nil {
			return x.stmt(s.Init, func() string {
				c := *s
				c.Init = nil
				return x.stmt(&c, rest, d)
			}, d)
		}
		c, _ := x.expr(s.Cond, &g)
		saved := x.copyVars()
		th := x.block(s.Body.List, rest, d+1)
		x.vars = saved
		saved = x.copyVars()
		var el string
		switch e := s.Else.(type) {
		case nil:
			el = rest()
		case *ast.BlockStmt:
			el = x.block(e.List, rest, d+1)
		default:
			el = x.stmt(e, rest, d+1)
		}
		x.vars = saved
		return cxGuarded(g, "if "+c+cxInd(d)+"then ("+th+")"+cxInd(d)+"else ("+el+")")
	case *ast.RangeStmt:
		if s.Tok == token.DEFINE && s.Value != nil && !x.inLoop && !x.effects {
			k, kok := s.Key.(*ast.Ident)
			v, vok := s.Value.(*ast.Ident)
			coll, ct := x.expr(s.X, &g)
			if kok && vok && k.Name == "_" && ct == cxMapSC {
				coll, ct = "(map snd "+coll+")", cxUnknown
				car := x.assignedOuter(s.Body.List)
				if len(car) > 0 {
					saved := x.copyVars()
					x.bind(v.Name, cxChild)
					x.inLoop, x.carried = true, car
					body := x.block(s.Body.List, x.fall, d+2)
					x.inLoop, x.carried = false, nil
					x.vars = saved
					st := x.tuple(car)
					return cxGuarded(g, "match fold_left (fun g_st g_"+v.Name+" => match g_st with None => None | Some "+st+" =>"+cxInd(d+2)+body+cxInd(d+1)+"end) "+coll+" (Some "+st+") with"+
						cxInd(d)+"| None => None"+cxInd(d)+"| Some "+st+" =>"+cxInd(d+1)+rest()+cxInd(d)+"end")
				}
			}
			if kok && vok && k.Name == "_" && ct == cxStrs && cxHasReturn(s.Body) {
				car := x.assignedOuter(s.Body.List)
				if len(car) > 0 {
					saved := x.copyVars()
					x.bind(v.Name, cxStr)
					x.inLoop, x.loopRet, x.carried = true, true, car
					body := x.block(s.Body.List, x.fall, d+2)
					x.inLoop, x.loopRet, x.carried = false, false, nil
					x.vars = saved
					st := x.tuple(car)
					return cxGuarded(g, "match fold_left (fun g_st g_"+v.Name+" => match g_st with None => None | Some (inr g_r) => Some (inr g_r) | Some (inl "+st+") =>"+cxInd(d+2)+body+cxInd(d+1)+"end) "+coll+" (Some (inl "+st+")) with"+
						cxInd(d)+"| None => None"+cxInd(d)+"| Some (inr g_r) => Some g_r"+cxInd(d)+"| Some (inl "+st+") =>"+cxInd(d+1)+rest()+cxInd(d)+"end")
				}
			}
			if kok && vok && k.Name == "_" && ct == cxStrs {
				car := x.assignedOuter(s.Body.List)
				if len(car) > 0 {
					saved := x.copyVars()
					x.bind(v.Name, cxStr)
					x.inLoop, x.carried = true, car
					body := x.block(s.Body.List, x.fall, d+2)
					x.inLoop, x.carried = false, nil
					x.vars = saved
					st := x.tuple(car)
					pat := st
					if len(car) > 1 {
						pat = "'" + st
					}
					return cxGuarded(g, "match fold_left (fun g_st g_"+v.Name+" => match g_st with None => None | Some "+strings.TrimPrefix(pat, "'")+" =>"+cxInd(d+2)+body+cxInd(d+1)+"end) "+coll+" (Some "+st+") with"+
						cxInd(d)+"| None => None"+cxInd(d)+"| Some "+strings.TrimPrefix(pat, "'")+" =>"+cxInd(d+1)+rest()+cxInd(d)+"end")
				}
			}
		}
	}
	return x.unsupported(s, "statement outside the subset")
}

func cxHasReturn(n ast.Node) bool {
	found := false
	ast.Inspect(n, func(m ast.Node) bool {
		if _, ok := m.(*ast.ReturnStmt); ok {
			found = true
		}
		return !found
	})
	return found
}

func (x *cxl) copyVars() map[string]cxT {
	m := map[string]cxT{}
	for k, v := range x.vars {
		m[k] = v
	}
	return m
}

// variables assigned (=) in the statements that are already declared
func (x *cxl) assignedOuter(ss []ast.Stmt) []string {
	var out []string
	seen := map[string]bool{}
	for _, s := range ss {
		ast.Inspect(s, func(n ast.Node) bool {
			if a, ok := n.(*ast.AssignStmt); ok && a.Tok == token.ASSIGN {
				for _, l := range a.Lhs {
					if ix, ok := l.(*ast.IndexExpr); ok {
						l = ix.X
					}
					if id, ok := l.(*ast.Ident); ok {
						if _, known := x.vars[id.Name]; known && !seen[id.Name] {
							seen[id.Name] = true
							out = append(out, id.Name)
						}
					}
				}
			}
			return true
		})
	}
	return out
}

func cxParams(x *cxl, fd *ast.FuncDecl) string {
	var ps []string
	for _, f := range fd.Type.Params.List {
		for _, n := range f.Names {
			ps = append(ps, n.Name+" "+x.src(f.Type))
		}
	}
	return strings.Join(ps, ",")
}

// cxSquash removes all white space (the pinned statements are compared modulo layout and comments)
func cxSquash(s string) string {
	return strings.Join(strings.Fields(s), "")
}

func cxFindFunc(f *ast.File, recv, name string) *ast.FuncDecl {
	for _, d := range f.Decls {
		fd, ok := d.(*ast.FuncDecl)
		if !ok || fd.Name.Name != name || fd.Body == nil {
			continue
		}
		r := ""
		if fd.Recv != nil && len(fd.Recv.List) == 1 {
			t := fd.Recv.List[0].Type
			if s, ok := t.(*ast.StarExpr); ok {
				t = s.X
			}
			if id, ok := t.(*ast.Ident); ok {
				r = id.Name
			}
		}
		if r == recv {
			return fd
		}
	}
	return nil
}

// the statements of the CharData case around the line loop, as they have to be (the translated body assumes them)
var c17Frame = []string{
	"lineDecoder := bufio.NewScanner(bytes.NewReader(t))",
	"lineDecoder.Split(bufio.ScanLines)",
	"for lineDecoder.Scan() {…}",
	"if err := lineDecoder.Err(); err != nil {\n\treturn fmt.Errorf(\"parse config error: %v\", err)\n}",
}

const c17DecodeLoop = `{
	c.mutex.Lock()
	defer c.mutex.Unlock()
	c.content = content
	xmlDecoder := xml.NewDecoder(bytes.NewReader(c.content))
	var nodeStack []*elem
	nodeStack = append(nodeStack, c.root)
	for {
		currNode := nodeStack[len(nodeStack)-1]
		token, err := xmlDecoder.Token()
		if token == nil {
			if err != nil && err != io.EOF {
				return fmt.Errorf("parse config error: %v", err)
			}
			break
		}
		switch t := token.(type) {
		case xml.CharData:
			ELIDED
		case xml.StartElement:
			ELIDED
		case xml.EndElement:
			ELIDED
		}
	}
	return nil
}`

var c17TagCases = map[string]string{
	"xml.StartElement": `nodeName := t.Name.Local
node, ok := currNode.findChild(nodeName)
if !ok {
	node = newElem(Node, nodeName)
	currNode.addChild(nodeName, node)
}
nodeStack = append(nodeStack, node)`,
	"xml.EndElement": `nodeName := t.Name.Local
if currNode.name != nodeName {
	return fmt.Errorf("xml end not match :%s", nodeName)
}
nodeStack = nodeStack[:len(nodeStack)-1]`,
}

func c17Xlate(root string) string {
	var out strings.Builder
	out.WriteString("(* GENERATED from tars/util/conf/conf.go by `harness gen-c17xlate` on every run - do not edit *)\n")
	out.WriteString("From Coq Require Import List NArith ZArith Bool.\nFrom TarsV Require Import Base.Hex Conf.Conf Conf.GoStr.\nImport ListNotations.\nOpen Scope bool_scope.\nOpen Scope Z_scope.\n\n")
	fset := token.NewFileSet()
	file, err := parser.ParseFile(fset, filepath.Join(root, "tars/util/conf/conf.go"), nil, 0)
	if err != nil {
		out.WriteString("Definition conf_source_unreadable := go_unsupported_parse.\n")
		return out.String()
	}
	consts := map[string]string{}
	// package-level constants (the iota block Node, Leaf) and string variables (whiteSpaceChars)
	for _, d := range file.Decls {
		gd, ok := d.(*ast.GenDecl)
		if !ok {
			continue
		}
		for i, sp := range gd.Specs {
			vs, ok := sp.(*ast.ValueSpec)
			if !ok {
				continue
			}
			for j, n := range vs.Names {
				if gd.Tok == token.CONST && (n.Name == "Node" || n.Name == "Leaf") {
					consts[n.Name] = "Z:" + strconv.Itoa(i)
					fmt.Fprintf(&out, "Definition k_conf_%s : Z := %d.\n", n.Name, i)
				}
				if gd.Tok == token.VAR && j < len(vs.Values) {
					if bl, ok := vs.Values[j].(*ast.BasicLit); ok && bl.Kind == token.STRING {
						if s, err := strconv.Unquote(bl.Value); err == nil {
							consts[n.Name] = "S"
							fmt.Fprintf(&out, "Definition k_conf_%s : gstr := %s.\n", n.Name, cxBytes(s))
						}
					}
				}
			}
		}
	}
	out.WriteString("\n")
	newX := func() *cxl {
		return &cxl{fset: fset, vars: map[string]cxT{}, consts: consts, oracles: map[string][2]string{}}
	}
	report := func(x *cxl) {
		for _, n := range x.notes {
			fmt.Fprintf(&out, "(* outside the supported subset: %s *)\n", strings.ReplaceAll(n, "*)", "* )"))
		}
	}
	// unit A: the line loop of InitFromBytes
	{
		x := newX()
		x.effects = true
		x.oracles["lineDecoder.Text()"] = [2]string{"g_text", "str"}
		body := "go_unsupported_line_loop_not_found"
		frame := "false"
		if fd := cxFindFunc(file, "Conf", "InitFromBytes"); fd != nil {
			ast.Inspect(fd, func(n ast.Node) bool {
				cc, ok := n.(*ast.CaseClause)
				if !ok || len(cc.List) != 1 || x.src(cc.List[0]) != "xml.CharData" {
					return true
				}
				var got []string
				for _, s := range cc.Body {
					if fs, ok := s.(*ast.ForStmt); ok && fs.Init == nil && fs.Post == nil && fs.Cond != nil && x.src(fs.Cond) == "lineDecoder.Scan()" {
						got = append(got, "for lineDecoder.Scan() {…}")
						body = x.block(fs.Body.List, x.fall, 1)
						continue
					}
					got = append(got, x.src(s))
				}
				if cxSquash(strings.Join(got, "|")) == cxSquash(strings.Join(c17Frame, "|")) {
					frame = "true"
				} else {
					fmt.Fprintf(&out, "(* the statements around the line loop differ from the pinned ones:\n%s *)\n", strings.ReplaceAll(strings.Join(got, "\n"), "*)", "* )"))
				}
				return false
			})
		}
		report(x)
		fmt.Fprintf(&out, "(* InitFromBytes, case xml.CharData: the body of `for lineDecoder.Scan()`; g_text = lineDecoder.Text() *)\nDefinition tr_conf_line (g_text : gstr) : option (list conf_effect) :=\n  let g_eff := ([] : list conf_effect) in\n  %s.\n", body)
		fmt.Fprintf(&out, "(* ... and the statements around it are the pinned ones (scanner over the token, ScanLines, the scanner's error returned) *)\nDefinition tr_conf_line_frame : bool := %s.\n\n", frame)
	}
	// the decode loop of InitFromBytes around the three cases, pinned (the cases themselves are elided)
	{
		x := newX()
		ok := "false"
		if fd := cxFindFunc(file, "Conf", "InitFromBytes"); fd != nil {
			cases := map[string]string{}
			ast.Inspect(fd, func(n ast.Node) bool {
				if cc, isCase := n.(*ast.CaseClause); isCase && len(cc.List) == 1 && strings.HasPrefix(x.src(cc.List[0]), "xml.") {
					var b []string
					for _, st := range cc.Body {
						b = append(b, x.src(st))
					}
					cases[x.src(cc.List[0])] = strings.Join(b, "\n")
					cc.Body = []ast.Stmt{&ast.ExprStmt{X: ast.NewIdent("ELIDED")}}
					return false
				}
				return true
			})
			tags := "true"
			for _, k := range []string{"xml.StartElement", "xml.EndElement"} {
				if cxSquash(cases[k]) != cxSquash(c17TagCases[k]) {
					tags = "false"
					fmt.Fprintf(&out, "(* case %s of InitFromBytes differs from the pinned one:\n%s *)\n", k, strings.ReplaceAll(cases[k], "*)", "* )"))
				}
			}
			fmt.Fprintf(&out, "(* the cases xml.StartElement (re-enter the child of that name or make a node, push) and xml.EndElement (name check, pop), pinned: the model mirrors them by hand *)\nDefinition tr_conf_tag_cases_frame : bool := %s.\n", tags)
			got := x.src(fd.Body)
			if cxSquash(got) == cxSquash(c17DecodeLoop) {
				ok = "true"
			} else {
				fmt.Fprintf(&out, "(* the decode loop of InitFromBytes differs from the pinned one:\n%s *)\n", strings.ReplaceAll(got, "*)", "* )"))
			}
		}
		fmt.Fprintf(&out, "(* InitFromBytes outside the three token cases: one element stack seeded with the root, Decoder.Token(), a token error other than io.EOF is returned, nil at the end *)\nDefinition tr_conf_decode_loop_frame : bool := %s.\n\n", ok)
	}
	// unit B: analysisPath
	{
		x := newX()
		body := "go_unsupported_analysisPath_not_found"
		if fd := cxFindFunc(file, "elem", "analysisPath"); fd != nil && len(fd.Type.Params.List) == 1 && len(fd.Type.Params.List[0].Names) == 1 {
			p := fd.Type.Params.List[0].Names[0].Name
			x.vars[p] = cxStr
			body = x.block(fd.Body.List, x.fall, 1)
			if p != "path" {
				body = "let g_" + p + " := g_path in " + body
			}
		}
		report(x)
		fmt.Fprintf(&out, "(* elem.analysisPath *)\nDefinition tr_analysisPath (g_path : gstr) : option (list gstr) :=\n  %s.\n\n", body)
	}
	// the methods of elem
	for _, u := range []struct {
		fn, params, typ string
		recv            cxT
		ptypes          []cxT
	}{
		{"isNode", "(g_e : gchild)", "bool", cxChild, nil}, {"isLeaf", "(g_e : gchild)", "bool", cxChild, nil},
		{"setValue", "(g_e : gelem) (g_value : gstr)", "gelem", cxNode, []cxT{cxStr}},
		{"addChild", "(g_e : gelem) (g_name : gstr) (g_child : gchild)", "gelem", cxNode, []cxT{cxStr, cxChild}},
		{"addLine", "(g_e : gelem) (g_line : gstr)", "gelem", cxNode, []cxT{cxStr}},
		{"findChild", "(g_e : gelem) (g_name : gstr)", "(option gchild * bool)", cxNode, []cxT{cxStr}},
	} {
		x := newX()
		body := "go_unsupported_method_not_found"
		if fd := cxFindFunc(file, "elem", u.fn); fd != nil && fd.Recv != nil && len(fd.Recv.List[0].Names) == 1 {
			r := fd.Recv.List[0].Names[0].Name
			x.vars[r] = u.recv
			i := 0
			okp := true
			for _, f := range fd.Type.Params.List {
				for _, n := range f.Names {
					if i < len(u.ptypes) {
						x.vars[n.Name] = u.ptypes[i]
					} else {
						okp = false
					}
					i++
				}
			}
			if fd.Type.Results != nil {
				for _, f := range fd.Type.Results.List {
					for _, n := range f.Names {
						x.named = append(x.named, n.Name)
					}
				}
			}
			pre := ""
			if u.fn == "findChild" && len(x.named) == 2 {
				x.vars[x.named[0]], x.vars[x.named[1]] = cxOptC, cxBool
				pre = "let g_" + x.named[0] + " := (None : option gchild) in let g_" + x.named[1] + " := false in "
			}
			// a method that returns nothing, or its receiver: the value is the receiver as the body leaves it
			if u.typ == "gelem" {
				x.named = []string{r}
			}
			if okp && i == len(u.ptypes) {
				ss := fd.Body.List
				if u.typ == "gelem" && len(ss) > 0 {
					if rs, ok := ss[len(ss)-1].(*ast.ReturnStmt); ok && len(rs.Results) == 1 && x.src(rs.Results[0]) == r {
						ss = append(append([]ast.Stmt{}, ss[:len(ss)-1]...), &ast.ReturnStmt{})
					}
				}
				body = pre + x.block(ss, x.fall, 1)
				if r != "e" {
					body = "let g_" + r + " := g_e in " + body
				}
			} else {
				body = x.unsupported(fd, "parameters differ")
			}
		}
		report(x)
		fmt.Fprintf(&out, "(* elem.%s *)\nDefinition tr_%s %s : option %s :=\n  %s.\n\n", u.fn, u.fn, u.params, u.typ, body)
	}
	{
		x := newX()
		body := "go_unsupported_newElem_not_found"
		if fd := cxFindFunc(file, "", "newElem"); fd != nil && cxParams(x, fd) == "kind int,name string" {
			x.vars["kind"], x.vars["name"] = cxInt, cxStr
			body = x.block(fd.Body.List, x.fall, 1)
		}
		report(x)
		fmt.Fprintf(&out, "(* newElem *)\nDefinition tr_newElem (g_kind : Z) (g_name : gstr) : option gelem :=\n  %s.\n\n", body)
	}
	// elem.getElem: elements are abstract handles (option H, nil = None), findChild is a function parameter
	{
		x := newX()
		body := "go_unsupported_getElem_not_found"
		if fd := cxFindFunc(file, "elem", "getElem"); fd != nil && cxParams(x, fd) == "pathVec []string" && fd.Recv != nil && len(fd.Recv.List[0].Names) == 1 {
			r := fd.Recv.List[0].Names[0].Name
			x.vars[r], x.vars["pathVec"] = cxOptH, cxStrs
			// the last statement returns (targetNode, nil)
			x.ret = cxOptH
			body = x.block(fd.Body.List, x.fall, 1)
			if r != "e" {
				body = "let g_" + r + " := g_e in " + body
			}
		}
		report(x)
		fmt.Fprintf(&out, "(* elem.getElem *)\nDefinition tr_getElem {H : Type} (g_findChild : H -> gstr -> option H * bool) (g_e : option H) (g_pathVec : list gstr) : option (option H * bool) :=\n  %s.\n\n", body)
	}
	// the listing getters of elem; e.getElem(pathVec) is an oracle (its two results are parameters)
	for _, u := range []struct{ fn, typ string }{{"getDomain", "(list gstr * bool)"}, {"getDomainKey", "(list gstr * bool)"}, {"getDomainLine", "(list gstr * bool)"},
		{"getMap", "(list (gstr * gstr) * bool)"}, {"getValue", "(gstr * bool)"}} {
		x := newX()
		body := "go_unsupported_getter_not_found"
		if fd := cxFindFunc(file, "elem", u.fn); fd != nil && cxParams(x, fd) == "path string" {
			x.vars["path"] = cxStr
			x.oracles["e.getElem(pathVec)"] = [2]string{"(g_node0, g_err0)", "nodeerr"}
			body = x.block(fd.Body.List, x.fall, 1)
		}
		report(x)
		fmt.Fprintf(&out, "(* elem.%s; (g_node0, g_err0) = e.getElem(pathVec) *)\nDefinition tr_%s (g_path : gstr) (g_node0 : gelem) (g_err0 : bool) : option %s :=\n  %s.\n\n", u.fn, u.fn, u.typ, body)
	}
	// unit E: the typed getters; c.root.getValue(path) is an oracle (its two results are parameters)
	for _, u := range []struct{ fn, typ string }{{"GetStringWithDef", "gstr"}, {"GetIntWithDef", "Z"}, {"GetInt32WithDef", "Z"}, {"GetBoolWithDef", "bool"}} {
		x := newX()
		body := "go_unsupported_getter_not_found"
		if fd := cxFindFunc(file, "Conf", u.fn); fd != nil {
			var ss []ast.Stmt
			for _, s := range fd.Body.List {
				if t := x.src(s); t == "c.mutex.RLock()" || t == "defer c.mutex.RUnlock()" {
					continue
				}
				ss = append(ss, s)
			}
			x.oracles["c.root.getValue(path)"] = [2]string{"(g_value0, g_err0)", "strerr"}
			dt := map[string]cxT{"gstr": cxStr, "Z": cxInt, "bool": cxBool}[u.typ]
			x.vars["defVal"] = dt
			body = x.block(ss, x.fall, 1)
		}
		report(x)
		fmt.Fprintf(&out, "(* Conf.%s; (g_value0, g_err0) = c.root.getValue(path) *)\nDefinition tr_%s (g_value0 : gstr) (g_err0 : bool) (g_defVal : %s) : option %s :=\n  %s.\n\n", u.fn, u.fn, u.typ, u.typ, body)
	}
	return out.String()
}

func init() {
	props["gen-c17xlate"] = func(a Args) {
		root := os.Getenv("VERIF_REPO")
		if root == "" {
			root = "/repo"
		}
		fmt.Print(c17Xlate(root))
	}
}
