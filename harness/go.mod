module verifharness

go 1.21

require github.com/TarsCloud/TarsGo v0.0.0

replace github.com/TarsCloud/TarsGo => /repo
