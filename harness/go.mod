module verifharness

go 1.21

require github.com/TarsCloud/TarsGo v0.0.0

require github.com/TarsCloud/TarsGo/tars/tools/tars2go v0.0.0

replace github.com/TarsCloud/TarsGo => /repo

replace github.com/TarsCloud/TarsGo/tars/tools/tars2go => /repo/tars/tools/tars2go
