package main

// C19 — `harness gen-c19src`: the concurrency skeleton of the pool and of the handlers that use it, read from the SOURCE of the
// tree on every run (go/parser) and written to coq/Gen/C19Src.v:
//   * the complete statement outline of every function of tars/util/gpool/gpool.go (the program the transition system of
//     Conc/Gpool.v models: channel operations, selects, loops, go statements, returns, the make(chan ...) capacities);
//   * the filtered outline (statements that mention the pool, the recvDone wait group, the in-flight counter, the closed
//     flag, and the control structure around them) of tcpHandler.Listen / handleConn / Handle and udpHandler.Listen /
//     handleUDPAddr;
//   * the routing conditions (`cfg.MaxInvoke > 0`) and the arguments of gpool.NewPool as expression trees.
// Coq derives the flags of the shutdown model and the routing function from these terms (Conc/PoolSrc.v), so that an edit
// of the source re-opens the proofs (L1).

import (
	"bytes"
	"fmt"
	"go/ast"
	"go/parser"
	"go/printer"
	"go/token"
	"os"
	"path/filepath"
	"strings"
)

type c19Node struct {
	Text string
	Kids []*c19Node
}

type c19Src struct {
	fset *token.FileSet
}

func (x *c19Src) txt(n ast.Node) string {
	if n == nil {
		return ""
	}
	var b bytes.Buffer
	printer.Fprint(&b, x.fset, n)
	return strings.Join(strings.Fields(b.String()), " ")
}

func (x *c19Src) stmts(l []ast.Stmt) []*c19Node {
	var out []*c19Node
	for _, s := range l {
		out = append(out, x.stmt(s)...)
	}
	return out
}

func isRecv(e ast.Expr) (ast.Expr, bool) {
	if u, ok := e.(*ast.UnaryExpr); ok && u.Op == token.ARROW {
		return u.X, true
	}
	return nil, false
}

func (x *c19Src) stmt(s ast.Stmt) []*c19Node {
	leaf := func(f string, a ...interface{}) []*c19Node { return []*c19Node{{Text: fmt.Sprintf(f, a...)}} }
	switch s := s.(type) {
	case nil:
		return nil
	case *ast.BlockStmt:
		return x.stmts(s.List)
	case *ast.SendStmt:
		return leaf("send %s <- %s", x.txt(s.Chan), x.txt(s.Value))
	case *ast.ExprStmt:
		if ch, ok := isRecv(s.X); ok {
			return leaf("recv %s", x.txt(ch))
		}
		if c, ok := s.X.(*ast.CallExpr); ok {
			if strings.HasPrefix(x.txt(c.Fun), "TLOG.") {
				return nil // logging
			}
			return leaf("call %s", x.txt(c))
		}
		return leaf("expr %s", x.txt(s.X))
	case *ast.AssignStmt:
		if len(s.Rhs) == 1 {
			if ch, ok := isRecv(s.Rhs[0]); ok {
				lhs := make([]string, len(s.Lhs))
				for i, e := range s.Lhs {
					lhs[i] = x.txt(e)
				}
				return leaf("recv %s into %s", x.txt(ch), strings.Join(lhs, ", "))
			}
			if fl, ok := s.Rhs[0].(*ast.FuncLit); ok {
				return []*c19Node{{Text: "func " + x.txt(s.Lhs[0]), Kids: x.stmts(fl.Body.List)}}
			}
		}
		return leaf("assign %s", x.txt(s))
	case *ast.DeclStmt:
		return leaf("decl %s", x.txt(s))
	case *ast.GoStmt:
		if fl, ok := s.Call.Fun.(*ast.FuncLit); ok {
			return []*c19Node{{Text: "go func", Kids: x.stmts(fl.Body.List)}}
		}
		return leaf("go %s", x.txt(s.Call))
	case *ast.DeferStmt:
		if fl, ok := s.Call.Fun.(*ast.FuncLit); ok {
			return []*c19Node{{Text: "defer func", Kids: x.stmts(fl.Body.List)}}
		}
		return leaf("defer %s", x.txt(s.Call))
	case *ast.ForStmt:
		h := "for"
		if s.Init != nil || s.Cond != nil || s.Post != nil {
			h = fmt.Sprintf("for %s; %s; %s", x.txt(s.Init), x.txt(s.Cond), x.txt(s.Post))
		}
		return []*c19Node{{Text: h, Kids: x.stmts(s.Body.List)}}
	case *ast.RangeStmt:
		return []*c19Node{{Text: fmt.Sprintf("range %s", x.txt(s.X)), Kids: x.stmts(s.Body.List)}}
	case *ast.IfStmt:
		var out []*c19Node
		if s.Init != nil {
			out = append(out, x.stmt(s.Init)...)
		}
		out = append(out, &c19Node{Text: "if " + x.txt(s.Cond), Kids: x.stmts(s.Body.List)})
		if s.Else != nil {
			out = append(out, &c19Node{Text: "else", Kids: x.stmt(s.Else)})
		}
		return out
	case *ast.SelectStmt:
		n := &c19Node{Text: "select"}
		for _, c := range s.Body.List {
			cc := c.(*ast.CommClause)
			t := "default"
			switch cm := cc.Comm.(type) {
			case nil:
			case *ast.SendStmt:
				t = fmt.Sprintf("case send %s <- %s", x.txt(cm.Chan), x.txt(cm.Value))
			default:
				k := x.stmt(cm)
				if len(k) == 1 {
					t = "case " + k[0].Text
				} else {
					t = "case " + x.txt(cm)
				}
			}
			n.Kids = append(n.Kids, &c19Node{Text: t, Kids: x.stmts(cc.Body)})
		}
		return []*c19Node{n}
	case *ast.SwitchStmt:
		n := &c19Node{Text: "switch " + x.txt(s.Tag)}
		for _, c := range s.Body.List {
			cc := c.(*ast.CaseClause)
			t := "default"
			if cc.List != nil {
				p := make([]string, len(cc.List))
				for i, e := range cc.List {
					p[i] = x.txt(e)
				}
				t = "case " + strings.Join(p, ", ")
			}
			n.Kids = append(n.Kids, &c19Node{Text: t, Kids: x.stmts(cc.Body)})
		}
		return []*c19Node{n}
	case *ast.TypeSwitchStmt:
		n := &c19Node{Text: "typeswitch " + x.txt(s.Assign)}
		for _, c := range s.Body.List {
			cc := c.(*ast.CaseClause)
			n.Kids = append(n.Kids, &c19Node{Text: "case", Kids: x.stmts(cc.Body)})
		}
		return []*c19Node{n}
	case *ast.ReturnStmt:
		if len(s.Results) == 0 {
			return leaf("return")
		}
		p := make([]string, len(s.Results))
		for i, e := range s.Results {
			if cl, ok := e.(*ast.UnaryExpr); ok && cl.Op == token.AND {
				if lit, ok := cl.X.(*ast.CompositeLit); ok {
					// a constructor: one child per field
					n := &c19Node{Text: "return &" + x.txt(lit.Type)}
					for _, el := range lit.Elts {
						n.Kids = append(n.Kids, &c19Node{Text: "field " + x.txt(el)})
					}
					return []*c19Node{n}
				}
			}
			p[i] = x.txt(e)
		}
		return leaf("return %s", strings.Join(p, ", "))
	case *ast.BranchStmt:
		if s.Label != nil {
			return leaf("%s %s", s.Tok.String(), s.Label.Name)
		}
		return leaf("%s", s.Tok.String())
	case *ast.LabeledStmt:
		return append(leaf("label %s", s.Label.Name), x.stmt(s.Stmt)...)
	case *ast.IncDecStmt:
		return leaf("stmt %s", x.txt(s))
	default:
		return leaf("stmt %s", x.txt(s))
	}
}

// filter keeps the leaves that mention one of the words, the containers that contain a kept node, and — inside an
// `if` whose condition mentions one of the words — the branch statements.
func c19Filter(l []*c19Node, words []string, inClosedIf bool) []*c19Node {
	var out []*c19Node
	mentions := func(t string) bool {
		for _, w := range words {
			if strings.Contains(t, w) {
				return true
			}
		}
		return false
	}
	for _, n := range l {
		closedIf := strings.HasPrefix(n.Text, "if ") && mentions(n.Text)
		kids := c19Filter(n.Kids, words, closedIf)
		isBranch := n.Text == "break" || n.Text == "continue" || strings.HasPrefix(n.Text, "return")
		switch {
		case len(n.Kids) == 0 && mentions(n.Text):
			out = append(out, &c19Node{Text: n.Text})
		case len(n.Kids) == 0 && isBranch && inClosedIf:
			out = append(out, &c19Node{Text: n.Text})
		case len(kids) > 0:
			out = append(out, &c19Node{Text: n.Text, Kids: kids})
		case len(n.Kids) > 0 && mentions(n.Text) && !strings.HasPrefix(n.Text, "if "):
			out = append(out, &c19Node{Text: n.Text})
		}
	}
	return out
}

func c19Str(s string) string { return "\"" + strings.ReplaceAll(s, "\"", "\"\"") + "\"" }

func c19SrcCoq(n *c19Node, ind string, sb *strings.Builder) {
	if len(n.Kids) == 0 {
		fmt.Fprintf(sb, "%sNode %s []", ind, c19Str(n.Text))
		return
	}
	fmt.Fprintf(sb, "%sNode %s [\n", ind, c19Str(n.Text))
	for i, k := range n.Kids {
		c19SrcCoq(k, ind+"  ", sb)
		if i+1 < len(n.Kids) {
			sb.WriteString(";")
		}
		sb.WriteString("\n")
	}
	fmt.Fprintf(sb, "%s]", ind)
}

func c19CoqList(name string, l []*c19Node) string {
	var sb strings.Builder
	fmt.Fprintf(&sb, "Definition %s : list outline := [\n", name)
	for i, k := range l {
		c19SrcCoq(k, "  ", &sb)
		if i+1 < len(l) {
			sb.WriteString(";")
		}
		sb.WriteString("\n")
	}
	sb.WriteString("].\n")
	return sb.String()
}

// expression trees of conditions and arguments
func (x *c19Src) cexpr(e ast.Expr) string {
	switch e := e.(type) {
	case *ast.ParenExpr:
		return x.cexpr(e.X)
	case *ast.BasicLit:
		if e.Kind == token.INT {
			return fmt.Sprintf("(CInt (%s))", e.Value)
		}
	case *ast.Ident, *ast.SelectorExpr:
		return fmt.Sprintf("(CVar %s)", c19Str(x.txt(e)))
	case *ast.BinaryExpr:
		return fmt.Sprintf("(CBin %s %s %s)", c19Str(e.Op.String()), x.cexpr(e.X), x.cexpr(e.Y))
	case *ast.UnaryExpr:
		if e.Op == token.NOT {
			return fmt.Sprintf("(CNot %s)", x.cexpr(e.X))
		}
	case *ast.CallExpr:
		// conversions int(x), int32(x): value preserving here
		if id, ok := e.Fun.(*ast.Ident); ok && len(e.Args) == 1 && (id.Name == "int" || id.Name == "int32" || id.Name == "int64") {
			return fmt.Sprintf("(CConv %s %s)", c19Str(id.Name), x.cexpr(e.Args[0]))
		}
	}
	return fmt.Sprintf("(COther %s)", c19Str(x.txt(e)))
}

type c19Fn struct {
	decl *ast.FuncDecl
}

func (x *c19Src) parse(path string) map[string]*ast.FuncDecl {
	f, err := parser.ParseFile(x.fset, path, nil, 0)
	if err != nil {
		fatal("gen-c19src: %v", err)
	}
	m := map[string]*ast.FuncDecl{}
	for _, d := range f.Decls {
		if fd, ok := d.(*ast.FuncDecl); ok && fd.Body != nil {
			name := fd.Name.Name
			if fd.Recv != nil && len(fd.Recv.List) == 1 {
				t := x.txt(fd.Recv.List[0].Type)
				name = strings.TrimPrefix(t, "*") + "." + name
			}
			m[name] = fd
		}
	}
	return m
}

// the `if` (with its else) whose then-branch hands the handler to the pool, and the call of gpool.NewPool, inside a function
func (x *c19Src) findPoolIf(body *ast.BlockStmt, needle string) *ast.IfStmt {
	var found *ast.IfStmt
	ast.Inspect(body, func(n ast.Node) bool {
		if is, ok := n.(*ast.IfStmt); ok && found == nil {
			direct := false
			for _, s := range is.Body.List {
				if strings.Contains(x.txt(s), needle) {
					direct = true
				}
			}
			if direct {
				found = is
				return false
			}
		}
		return true
	})
	return found
}

func (x *c19Src) findCall(body ast.Node, fun string) *ast.CallExpr {
	var found *ast.CallExpr
	ast.Inspect(body, func(n ast.Node) bool {
		if c, ok := n.(*ast.CallExpr); ok && found == nil && x.txt(c.Fun) == fun {
			found = c
		}
		return true
	})
	return found
}

func genC19Src() {
	root := os.Getenv("VERIF_REPO")
	if root == "" {
		root = "/repo"
	}
	x := &c19Src{fset: token.NewFileSet()}
	fmt.Println("(* GENERATED from the source of the TarsGo tree by `harness gen-c19src` on every run - do not edit *)")
	fmt.Println("From Coq Require Import List String ZArith.")
	fmt.Println("From TarsV Require Import Conc.PoolSrc.")
	fmt.Println("Import ListNotations.")
	fmt.Println("Open Scope string_scope.")
	fmt.Println()
	// gpool.go: everything
	gp := x.parse(filepath.Join(root, "tars/util/gpool/gpool.go"))
	for _, fn := range []string{"Worker.Start", "newWorker", "NewPool", "Pool.Start", "Pool.dispatch", "Pool.Release"} {
		name := "src_gpool_" + strings.ReplaceAll(fn, ".", "_")
		var l []*c19Node
		if fd, ok := gp[fn]; ok {
			l = x.stmts(fd.Body.List)
		} else {
			l = []*c19Node{{Text: "MISSING " + fn}}
		}
		fmt.Print(c19CoqList(name, l))
	}
	names := make([]string, 0, len(gp))
	for n := range gp {
		names = append(names, n)
	}
	sortStrings(names)
	qn := make([]string, len(names))
	for i, n := range names {
		qn[i] = c19Str(n)
	}
	fmt.Printf("Definition src_gpool_functions : list string := [%s].\n\n", strings.Join(qn, "; "))
	// handlers: filtered
	words := []string{"pool", "recvDone", "numInvoke", "handler", "isClosed", "handleConn(", "handleUDPAddr(", ".recv("}
	tcp := x.parse(filepath.Join(root, "tars/transport/tcphandler.go"))
	udp := x.parse(filepath.Join(root, "tars/transport/udphandler.go"))
	emit := func(m map[string]*ast.FuncDecl, fn, name string) *ast.FuncDecl {
		fd, ok := m[fn]
		var l []*c19Node
		if ok {
			l = c19Filter(x.stmts(fd.Body.List), words, false)
		} else {
			l = []*c19Node{{Text: "MISSING " + fn}}
		}
		fmt.Print(c19CoqList(name, l))
		return fd
	}
	tl := emit(tcp, "tcpHandler.Listen", "src_tcp_Listen")
	thc := emit(tcp, "tcpHandler.handleConn", "src_tcp_handleConn")
	emit(tcp, "tcpHandler.Handle", "src_tcp_Handle")
	emit(tcp, "tcpHandler.recv", "src_tcp_recv")
	ul := emit(udp, "udpHandler.Listen", "src_udp_Listen")
	uhc := emit(udp, "udpHandler.handleUDPAddr", "src_udp_handleUDPAddr")
	emit(udp, "udpHandler.Handle", "src_udp_Handle")
	fmt.Println()
	// routing conditions and pool parameters
	cond := func(name string, fd *ast.FuncDecl, needle string) {
		c := "(COther \"missing\")"
		if fd != nil {
			if is := x.findPoolIf(fd.Body, needle); is != nil {
				c = x.cexpr(is.Cond)
			}
		}
		fmt.Printf("Definition %s : cexpr := %s.\n", name, c)
	}
	cond("src_tcp_route_cond", thc, "JobQueue")
	cond("src_udp_route_cond", uhc, "JobQueue")
	cond("src_tcp_pool_cond", tl, "NewPool")
	cond("src_udp_pool_cond", ul, "NewPool")
	args := func(name string, fd *ast.FuncDecl) {
		a := []string{}
		if fd != nil {
			if c := x.findCall(fd.Body, "gpool.NewPool"); c != nil {
				for _, e := range c.Args {
					a = append(a, x.cexpr(e))
				}
			}
		}
		fmt.Printf("Definition %s : list cexpr := [%s].\n", name, strings.Join(a, "; "))
	}
	args("src_tcp_pool_args", tl)
	args("src_udp_pool_args", ul)
	// make(chan ...) capacities in NewPool / newWorker, by assigned name or field
	caps := func(name string, fd *ast.FuncDecl) {
		var items []string
		if fd != nil {
			ast.Inspect(fd.Body, func(n ast.Node) bool {
				var lhs string
				var rhs ast.Expr
				switch n := n.(type) {
				case *ast.AssignStmt:
					if len(n.Lhs) == 1 && len(n.Rhs) == 1 {
						lhs, rhs = x.txt(n.Lhs[0]), n.Rhs[0]
					}
				case *ast.KeyValueExpr:
					lhs, rhs = x.txt(n.Key), n.Value
				}
				if c, ok := rhs.(*ast.CallExpr); ok && x.txt(c.Fun) == "make" && len(c.Args) >= 1 {
					if _, isChan := c.Args[0].(*ast.ChanType); isChan {
						capE := "(CInt (0))"
						if len(c.Args) >= 2 {
							capE = x.cexpr(c.Args[1])
						}
						items = append(items, fmt.Sprintf("(%s, %s)", c19Str(lhs), capE))
					}
				}
				return true
			})
		}
		fmt.Printf("Definition %s : list (string * cexpr) := [%s].\n", name, strings.Join(items, "; "))
	}
	caps("src_gpool_NewPool_chans", gp["NewPool"])
	caps("src_gpool_newWorker_chans", gp["newWorker"])
	// parameter names of NewPool, in order
	if fd := gp["NewPool"]; fd != nil {
		var ps []string
		for _, f := range fd.Type.Params.List {
			for _, n := range f.Names {
				ps = append(ps, c19Str(n.Name))
			}
		}
		fmt.Printf("Definition src_gpool_NewPool_params : list string := [%s].\n", strings.Join(ps, "; "))
	}
}

func sortStrings(a []string) {
	for i := 1; i < len(a); i++ {
		for j := i; j > 0 && a[j] < a[j-1]; j-- {
			a[j], a[j-1] = a[j-1], a[j]
		}
	}
}

func init() {
	props["gen-c19src"] = func(a Args) { genC19Src() }
}
