package main

// Network-reachable decode entry points other than a generated ReadFrom (C05): filled in by c05.go
var entryDecode = func(entry string, bs []byte) (string, string) { return "OErr", "unknown entry " + entry }
